import Nstd.Server.LemmasC14F
import Nstd.Server.BatchC14
import Nstd.Server.KeepsC14
import Nstd.Server.TermC14
import Nstd.Server.LiveKeepC14
import Nstd.Server.LiveIntrC14
/-
  C14 — property theorems about the transition-system model of `Server::run()` (ModelC14.lean).

  `reach ms` is the state after ANY history `ms : List Move`: API calls (also interrupt), peer /
  clock actions, creation of clients / listeners / establishers, installation of arbitrary callback
  scripts, entering run(), and steps of run() with ANY answer of the kernel to epoll_wait
  (`PollIn`: any list of (socket, native events) in any order, event descriptor reported or not, any
  time advance) and ANY send outcome.  Callbacks are scripts that create / remove timers and remove /
  suspend / resume / read / write any object, also the one being called or the client being accepted.

  CLOSED in the extension round: ready_eventually_dispatched (below, section "liveness") — for arbitrary callback
  scripts, under the explicit hypotheses `KernelFair` (environment) and `ClosingCalm` (an onClosed callback does not
  make a client fail again — without it the C++ closing loop itself never ends).

  OPEN (not proved; real time / memory model — see the evidence notes):
   * `KernelFair` for a concrete infinite run is shown only on finite prefixes (`exLive`: the hypotheses' parts are
     inhabited step by step); that the Linux kernel is fair in this sense is an assumption about the environment.
   * `ClockOk` (the clock is not behind the `now` the timer loop sampled) is a hypothesis of the liveness theorems about
     the start state: it holds when run() is entered and after every poll step, but `reach` also contains histories in
     which an environment move sets the clock back while the timer loop runs.
   * interrupt() from a second thread is modelled as two moves (`intrBegin`: test-and-set of the flag under
     the mutex, `intrEnd`: write of the event descriptor) that interleave with the steps of run() in any
     way; weak-memory effects on the unlocked read of `_interrupted` in run() are not modelled.
   * that activation happens no LATER than the kernel's time-out granularity allows is a statement
     about real time; the model proves `poll_timeout_is_next_due` (run never sleeps past a due time).
-/
namespace Nstd.Server.C14
open Nstd.Server.C13 (Outcome SendRes sendOS)

/-! ### safety of the model itself -/

/-- the real code never goes through a null / dangling pointer: queued timer entries belong to live
    timers, buffered poll events to registered sockets of the right kind with a callback, the closing
    list to live clients, the client handed to onAccepted/onConnected survives the callback -/
theorem no_fault (ms : List Move) : (reach ms).fault = false := (inv_reach ms).s.noFault

/-! ### timers -/

/-- exactly one queue entry per live timer, keyed by its execution time; none for a removed timer;
    the queue is sorted by due time (FIFO among equal due times by construction of `qInsert`) -/
theorem timer_queue_exact (ms : List Move) :
    SortedQ (reach ms).queue ∧
    (∀ t ti, (reach ms).timers t = some ti → entsOf (reach ms).queue t = [(ti.exec, some t)]) ∧
    (∀ t, (reach ms).timers t = none → entsOf (reach ms).queue t = []) :=
  ⟨(inv_reach ms).t.sorted, (inv_reach ms).t.live, (inv_reach ms).t.dead⟩

/-- timer_not_early: a timer is activated only in the timer loop of an iteration that sampled the
    clock at `now`, with its execution time `due ≤ now` -/
theorem timer_not_early (ms : List Move) (inp : PollIn) (o : Outcome) (t : Id) (now due : Int)
    (he : Ev.activated t now due ∈ (step (reach ms) inp o).2) :
    (reach ms).pc = .timers now ∧ due ≤ now ∧ ∃ ti, (reach ms).timers t = some ti ∧ ti.exec = due := by
  obtain ⟨_, h2⟩ := step_evs _ inp o _ he
  obtain ⟨a, b, _⟩ := h2 t now due rfl
  obtain ⟨ti, c, d, _⟩ := activation_rearms _ inp o (inv_reach ms).t t now due he
  exact ⟨a, b, ti, c, d⟩

/-- timer_order: the activated timer is the head of the sorted queue — no queued timer (nor the
    default timer) is due earlier, and among equal due times it is the one queued first -/
theorem timer_order (ms : List Move) (inp : PollIn) (o : Outcome) (t : Id) (now due : Int)
    (he : Ev.activated t now due ∈ (step (reach ms) inp o).2) :
    (reach ms).queue.head? = some (due, some t) ∧ ∀ k v, (k, v) ∈ (reach ms).queue → due ≤ k := by
  obtain ⟨_, h2⟩ := step_evs _ inp o _ he
  obtain ⟨_, _, hh⟩ := h2 t now due rfl
  refine ⟨hh, ?_⟩
  have hs := (inv_reach ms).t.sorted
  cases hq : (reach ms).queue with
  | nil => rw [hq] at hh; simp at hh
  | cons e rest =>
    rw [hq] at hh hs
    simp only [List.head?_cons, Option.some.injEq] at hh
    subst hh
    unfold SortedQ at hs
    rw [List.pairwise_cons] at hs
    intro k v hm
    rcases List.mem_cons.mp hm with h | h
    · injection h with h1 _; omega
    · exact hs.1 _ h

/-- timer_once_per_interval: after its activation the timer is queued again exactly one interval
    after the due time it was activated for (or it has been removed by the callback); together with
    `timer_queue_exact` (one entry per live timer) this gives one activation per interval -/
theorem timer_once_per_interval (ms : List Move) (inp : PollIn) (o : Outcome) (t : Id) (now due : Int)
    (he : Ev.activated t now due ∈ (step (reach ms) inp o).2) :
    ∃ ti, (reach ms).timers t = some ti ∧ ti.exec = due ∧
      ((step (reach ms) inp o).1.timers t = some { exec := due + ti.interval, interval := ti.interval } ∨
       (step (reach ms) inp o).1.timers t = none) :=
  activation_rearms _ inp o (inv_reach ms).t t now due he

/-- every live timer has a positive interval (repaired `Server::time`, fixes/server/03): without it a timer
    re-queued at the same tick keeps the timer loop of run() busy forever and neither sockets nor a pending
    interrupt are ever looked at -/
theorem timer_intervals_positive (ms : List Move) (t : Id) (ti : TimerS) (h : (reach ms).timers t = some ti) :
    0 < ti.interval := (inv_reach ms).t.pos t ti h

/-- so every activation moves the due time of the timer strictly forward: the timer loop of one iteration
    activates a timer with due time `due` at most `(now - due) / interval + 1` times -/
theorem activation_moves_due_forward (ms : List Move) (inp : PollIn) (o : Outcome) (t : Id) (now due : Int)
    (he : Ev.activated t now due ∈ (step (reach ms) inp o).2) (ti' : TimerS)
    (h' : (step (reach ms) inp o).1.timers t = some ti') : due < ti'.exec := by
  obtain ⟨ti, h1, _, h3⟩ := timer_once_per_interval ms inp o t now due he
  have hp := timer_intervals_positive ms t ti h1
  rcases h3 with h3 | h3
  · rw [h3] at h'; injection h' with h'; subst h'; simp; omega
  · rw [h3] at h'; simp at h'

/-- the time-out handed to poll is the distance to the earliest queued due time (never negative):
    run() does not sleep past a due timer, also when onClosed callbacks created timers -/
theorem poll_timeout_is_next_due (ms : List Move) (inp : PollIn) (o : Outcome) (now tmo tmo' : Int)
    (hpc : (reach ms).pc = .closing now tmo) (h : (step (reach ms) inp o).1.pc = .poll now tmo') :
    ∃ k v rest, (reach ms).queue = (k, v) :: rest ∧ tmo' = (if k - now < 0 then 0 else k - now) := by
  have hcl := closing_then_poll _ inp o now tmo hpc ⟨tmo', h⟩
  unfold step at h
  simp only [hpc, hcl] at h
  cases hq : (reach ms).queue with
  | nil => rw [hq] at h; simp at h
  | cons e rest =>
    obtain ⟨k, v⟩ := e
    rw [hq] at h
    simp at h
    exact ⟨k, v, rest, rfl, h.symm⟩

/-! ### removals -/

/-- a step of run() performs at most one callback (the granularity `gone` and `removed_never_called` rely on) -/
theorem step_at_most_one_callback (s : St) (inp : PollIn) (o : Outcome) : (step s inp o).2.length ≤ 1 := by
  have hw : ∀ s i, (writeReady s i o).2.length ≤ 1 := by
    intro s i; unfold writeReady; dsimp only; repeat' split
    all_goals simp
  have hd : ∀ s ev, (dispatch s ev o).2.length ≤ 1 := by
    intro s ev; unfold dispatch; dsimp only; repeat' split
    all_goals first | simp | exact hw _ _
  unfold step
  dsimp only
  repeat' split
  all_goals first | exact hd _ _ | simp

/-- every callback of every step goes to an object that is in its object table when the step starts -/
theorem callbacks_only_to_live (ms : List Move) (inp : PollIn) (o : Outcome) (e : Ev)
    (he : e ∈ (step (reach ms) inp o).2) : LiveFor (reach ms) e :=
  (step_evs _ inp o e he).1

/-- `gone i` = a remove() of object `i` has returned (or the server deleted the client after a null /
    removed hand-over).  It is set by the remove calls: -/
theorem remove_timer_gone (s : St) (nc : Option Id) (i : Id) (h : s.timers i ≠ none) :
    (applyAct s nc (.rmTimer i)).gone i = true ∧ (applyAct s nc (.rmTimer i)).timers i = none := by
  simp only [applyAct, rmTimer]
  cases ht : s.timers i with
  | none => exact absurd ht h
  | some t => simp [markGone, upd]

theorem remove_client_gone (s : St) (nc : Option Id) (i : Id) (c : ClientS) (h : s.clients i = some c)
    (hcb : c.hasCb = true) :
    (applyAct s nc (.rmClient i)).gone i = true ∧ (applyAct s nc (.rmClient i)).clients i = none := by
  simp only [applyAct, rmClient, h, hcb, if_true, deleteClient, markGone, upd]
  simp

theorem remove_listener_gone (s : St) (nc : Option Id) (i : Id) (h : s.listeners i ≠ none) :
    (applyAct s nc (.rmListener i)).gone i = true ∧ (applyAct s nc (.rmListener i)).listeners i = none := by
  simp only [applyAct, rmListener]
  cases ht : s.listeners i with
  | none => exact absurd ht h
  | some t => simp [markGone, upd]

theorem remove_establisher_gone (s : St) (nc : Option Id) (i : Id) (h : s.ests i ≠ none) :
    (applyAct s nc (.rmEst i)).gone i = true ∧ (applyAct s nc (.rmEst i)).ests i = none := by
  simp only [applyAct, rmEst]
  cases ht : s.ests i with
  | none => exact absurd ht h
  | some t => simp [markGone, upd]

/-- D20: a client removed inside its own onAccepted/onConnected is deleted when the callback returns,
    whatever the callback returns -/
theorem remove_new_client_gone (s : St) (nc : Id) (acts : List Act) (c : ClientS) (h : s.clients nc = some c)
    (hr : c.removed = true) :
    (finishHandOver s nc acts).gone nc = true ∧ (finishHandOver s nc acts).clients nc = none := by
  simp only [finishHandOver, h, hr, Bool.or_true, if_true, deleteClient, markGone, upd]
  simp

/-- removed_never_called: once `gone i` holds it holds forever, the id is never used again, and no
    later step — whatever the history in between: events already buffered in the poll, the removal
    having happened inside a callback, equal due times — delivers a callback to `i` -/
theorem removed_never_called (ms ms' : List Move) (i : Id) (hg : (reach ms).gone i = true)
    (inp : PollIn) (o : Outcome) (e : Ev) (he : e ∈ (step (reach (ms ++ ms')) inp o).2) :
    callee e ≠ some i := by
  intro hc
  have hlive := liveFor_live _ e i (callbacks_only_to_live (ms ++ ms') inp o e he) hc
  have hg' : (reach (ms ++ ms')).gone i = true := by
    unfold reach; rw [runMoves_append]; exact gone_runMoves _ ms' i hg
  exact ((inv_reach (ms ++ ms')).u.gone i hg').2 hlive

/-- ids are never reused and an id is one kind of object only -/
theorem ids_never_reused (ms : List Move) (i : Id) (hg : (reach ms).gone i = true) :
    (reach ms).used i = true ∧ ¬ Live (reach ms) i := (inv_reach ms).u.gone i hg

/-! ### readiness dispatch -/

/-- every event buffered in the poll belongs to a registered socket and carries only flags the socket
    is registered for (set() prunes, remove() drops) -/
theorem buffered_events_are_registered (ms : List Move) (i : Id) (fl : Flags)
    (h : (i, fl) ∈ (reach ms).selected) : ∃ reg, lookup (reach ms).sockets i = some reg ∧ fl.sub reg :=
  (inv_reach ms).s.selSub i fl h

/-- a registered socket is a live object whose kind matches its flags (the casts in run() are sound) -/
theorem registered_kind (ms : List Move) (i : Id) (reg : Flags) (h : lookup (reach ms).sockets i = some reg) :
    KindOk (reach ms) i reg := (inv_reach ms).s.kind i reg h

/-- dispatch_only_registered_kinds: a poll step calls back only for the event `(i, fl)` the poll
    delivered, only with the callback kind of a flag in `fl`, and `fl` is within the flags socket `i`
    is registered for at that moment -/
theorem dispatch_only_registered_kinds (ms : List Move) (inp : PollIn) (o : Outcome) (now tmo : Int)
    (hpc : (reach ms).pc = .poll now tmo) (e : Ev) (he : e ∈ (step (reach ms) inp o).2) :
    e = .returned ∨ ∃ i fl reg, (pollStep (reach ms) inp).2 = some (i, fl) ∧
      lookup (reach ms).sockets i = some reg ∧ fl.sub reg ∧ KindFor i fl e := by
  have hev : (step (reach ms) inp o).2 = (dispatch (pollStep (reach ms) inp).1 (pollStep (reach ms) inp).2 o).2 := by
    unfold step; simp only [hpc]; split <;> rfl
  rw [hev] at he
  obtain ⟨_, h2⟩ := dispatch_evs _ _ o e he
  rcases h2 with h2 | ⟨i, fl, h3, h4⟩
  · exact Or.inl h2
  · obtain ⟨_, hok⟩ := pollStep_invS (reach ms) inp (inv_reach ms).s
    obtain ⟨reg, hr1, hr2⟩ := hok i fl h3
    rw [(pollStep_tables (reach ms) inp).2.2.2.1] at hr1
    exact Or.inr ⟨i, fl, reg, h3, hr1, hr2, h4⟩

/-- one buffered event per poll, oldest first, without asking the kernel again (safety half of
    ready_eventually_dispatched: a buffered event is delivered after at most `position` further polls unless
    set()/remove() pruned it) -/
theorem poll_delivers_buffered_first (s : St) (inp : PollIn) (e : Id × Flags) (r : List (Id × Flags))
    (h : s.selected = e :: r) : pollStep s inp = ({ s with selected := r }, some e) := by
  unfold pollStep; rw [h]

/-- what the kernel reports for registered sockets is buffered in the reported order and its first event
    is delivered at once (unless the event descriptor interrupts the round) -/
theorem poll_buffers_reported (s : St) (inp : PollIn) (e : Id × Flags) (r : List (Id × Flags))
    (h : s.selected = []) (hi : (inp.eventfd && s.eventfd != 0) = false)
    (ha : appendSelected s inp.events [] = e :: r) :
    (pollStep s inp).2 = some e ∧ (pollStep s inp).1.selected = r := by
  unfold pollStep
  rw [h]
  simp [ha, hi]

/-- progress half of ready_eventually_dispatched (1): a poll step with a non-empty pending batch hands out its
    oldest entry and leaves (a pruned part of) the rest — so after at most `|batch|` poll steps the batch is empty
    and the kernel is asked again; an entry leaves the batch only by being dispatched or by set()/remove() -/
theorem poll_step_drains_batch (ms : List Move) (inp : PollIn) (o : Outcome) (now tmo : Int) (e : Id × Flags)
    (r : List (Id × Flags)) (hpc : (reach ms).pc = .poll now tmo) (hsel : (reach ms).selected = e :: r) :
    (pollStep (reach ms) inp).2 = some e ∧
    (step (reach ms) inp o).1.selected.length ≤ r.length ∧
    ∀ j f', (j, f') ∈ (step (reach ms) inp o).1.selected → ∃ f, (j, f) ∈ r ∧ f'.sub f := by
  refine ⟨by rw [poll_delivers_buffered_first _ inp e r hsel], ?_⟩
  exact poll_step_drains (reach ms) inp o now tmo e r hpc hsel

/-- progress half (2): timer and closing steps never add an entry or a flag to the pending batch -/
theorem batch_only_shrinks_outside_poll (ms : List Move) (inp : PollIn) (o : Outcome)
    (h : ∀ now tmo, (reach ms).pc ≠ .poll now tmo) : Shrinks (reach ms) (step (reach ms) inp o).1 :=
  step_shrinks_outside_poll (reach ms) inp o h

/-- the registration of every client of every reachable state is (read unless suspended) + (write iff backlog) -/
theorem client_interest (ms : List Move) (i : Id) (c : ClientS) (reg : Flags)
    (hc : (reach ms).clients i = some c) (hl : lookup (reach ms).sockets i = some reg) :
    reg = clientFlags c.suspended c.backlog := by
  have hk := registered_kind ms i reg hl
  have hne : (reach ms).clients i ≠ none := by rw [hc]; simp
  obtain ⟨hl1, he1⟩ := ((inv_reach ms).u.disj i).2.1 hne
  rcases hk with ⟨_, _, ha, hcf⟩ | ⟨l, hl', _⟩ | ⟨e, he', _⟩
  · exact invF_reach ms i c reg hc hl ha hcf
  · rw [hl1] at hl'; simp at hl'
  · rw [he1] at he'; simp at he'

/-- a suspended client gets no onRead — also when its read event was already buffered in the poll when
    it was suspended (by another client's callback), and whatever the kernel reports -/
theorem suspended_client_no_onRead (ms : List Move) (inp : PollIn) (o : Outcome) (now tmo : Int)
    (hpc : (reach ms).pc = .poll now tmo) (c : Id) (he : Ev.onRead c ∈ (step (reach ms) inp o).2) :
    ∃ cl, (reach ms).clients c = some cl ∧ cl.suspended = false := by
  have hlive := callbacks_only_to_live ms inp o _ he
  simp only [LiveFor] at hlive
  cases hc : (reach ms).clients c with
  | none => exact absurd hc hlive
  | some cl =>
    refine ⟨cl, rfl, ?_⟩
    rcases dispatch_only_registered_kinds ms inp o now tmo hpc _ he with h | ⟨i, fl, reg, _, hreg, hsub, hk⟩
    · simp at h
    · simp only [KindFor] at hk
      obtain ⟨rfl, hr⟩ := hk
      have := client_interest ms c cl reg hc hreg
      have hrr := hsub.1 hr
      rw [this] at hrr
      simpa [clientFlags] using hrr

/-- onWrite is delivered only to a client that had a backlog (write interest) when the step started -/
theorem onWrite_needs_backlog (ms : List Move) (inp : PollIn) (o : Outcome) (now tmo : Int)
    (hpc : (reach ms).pc = .poll now tmo) (c : Id) (he : Ev.onWrite c ∈ (step (reach ms) inp o).2) :
    ∃ cl, (reach ms).clients c = some cl ∧ cl.backlog ≠ 0 := by
  have hlive := callbacks_only_to_live ms inp o _ he
  simp only [LiveFor] at hlive
  cases hc : (reach ms).clients c with
  | none => exact absurd hc hlive
  | some cl =>
    refine ⟨cl, rfl, ?_⟩
    rcases dispatch_only_registered_kinds ms inp o now tmo hpc _ he with h | ⟨i, fl, reg, _, hreg, hsub, hk⟩
    · simp at h
    · simp only [KindFor] at hk
      obtain ⟨rfl, hw, _⟩ := hk
      have := client_interest ms c cl reg hc hreg
      have hww := hsub.2.1 hw
      rw [this] at hww
      simpa [clientFlags] using hww

/-! ### Server::clear() -/

theorem reach_snoc (ms : List Move) (m : Move) : reach (ms ++ [m]) = move (reach ms) m := by
  unfold reach; rw [runMoves_append]; rfl

/-- clear() (called while run() is not active): no object is live afterwards, every object that was live is `gone` (its
    remove has completed), both poll tables, the closing set and the interrupt flag are reset and only the default timer is queued -/
theorem clear_removes_everything (ms : List Move) (hidle : (reach ms).pc = .idle) :
    (∀ i, ¬ Live (reach (ms ++ [.clear])) i) ∧
    (∀ i, Live (reach ms) i → (reach (ms ++ [.clear])).gone i = true) ∧
    (reach (ms ++ [.clear])).sockets = [] ∧ (reach (ms ++ [.clear])).selected = [] ∧
    (reach (ms ++ [.clear])).closing = [] ∧ (reach (ms ++ [.clear])).queue = [(0, none)] ∧
    (reach (ms ++ [.clear])).interrupted = false ∧ (reach (ms ++ [.clear])).eventfd = (reach ms).eventfd := by
  rw [reach_snoc]
  simp only [move, hidle, if_true]
  refine ⟨by intro i; simp [clearAll, Live], ?_, rfl, rfl, rfl, rfl, rfl, rfl⟩
  intro i hl
  simp only [clearAll, Bool.or_eq_true, liveB, Option.isSome_iff_ne_none]
  right
  rcases hl with h | h | h | h
  · exact Or.inl (Or.inl (Or.inl h))
  · exact Or.inl (Or.inl (Or.inr h))
  · exact Or.inl (Or.inr h)
  · exact Or.inr h

/-- no callback after clear(): an object that was live when clear() was called never receives a callback in any later step of any
    continuation (new objects get new ids: `ids_never_reused`) -/
theorem no_callback_after_clear (ms ms' : List Move) (i : Id) (hidle : (reach ms).pc = .idle) (hl : Live (reach ms) i)
    (inp : PollIn) (o : Outcome) (e : Ev) (he : e ∈ (step (reach (ms ++ .clear :: ms')) inp o).2) : callee e ≠ some i := by
  have h := removed_never_called (ms ++ [.clear]) ms' i ((clear_removes_everything ms hidle).2.1 i hl) inp o e
  simp only [List.append_assoc, List.singleton_append] at h
  exact h he

/-- clear() resets `_interrupted` but does not drain the event descriptor: if an interrupt() had not been consumed, the next
    epoll_wait of the next run() reports the descriptor once more.  That wake-up is harmless: the poll step reads the descriptor
    (counter 0 afterwards), makes no callback, does NOT return from run() and keeps what the kernel reported in the batch. -/
theorem clear_stale_wakeup_is_harmless (s : St) (inp : PollIn) (o : Outcome) (now tmo : Int) (hpc : s.pc = .poll now tmo)
    (hsel : s.selected = []) (hi : s.interrupted = false) (he : inp.eventfd = true) (hfd : s.eventfd ≠ 0) :
    (step s inp o).2 = [] ∧ (step s inp o).1.pc = .timers (s.clock + inp.dt) ∧ (step s inp o).1.eventfd = 0 ∧
    (step s inp o).1.selected = appendSelected s inp.events [] ∧ (step s inp o).1.interrupted = false := by
  have hp : pollStep s inp = ({ s with clock := s.clock + inp.dt, selected := appendSelected s inp.events [], eventfd := 0 }, none) := by
    unfold pollStep
    simp [hsel, he, hfd]
  unfold step
  simp only [hpc]
  rw [hp]
  unfold dispatch
  simp [hi, hpc]

/-- interrupt(), clear(), then run(): the stale signal is met at the first poll -/
def exClear : List Move :=
  [.mkPair 1, .act (.mkTimer 2 5), .act .interrupt, .clear, .enter, .step {} .all, .step {} .all, .step {} .all]

example : (reach exClear).pc = .poll 1000 300000 ∧ (reach exClear).interrupted = false ∧ (reach exClear).eventfd = 1 ∧
    (reach exClear).gone 1 = true ∧ (reach exClear).gone 2 = true ∧ (reach exClear).queue = [(301000, none)] ∧
    (step (reach exClear) { eventfd := true } .all).1.pc = .timers 1000 := by decide

/-! ### listener / establisher branches of the dispatch switch -/

/-- establisher outcomes: a connect event makes exactly one callback — onAbolished when the connect failed (SO_ERROR), else
    onConnected with a fresh client id -/
theorem connect_event_outcome (s : St) (i : Id) (e : EstS) (o : Outcome) (he : s.ests i = some e) :
    (dispatch s (some (i, { c := true })) o).2 =
      if e.connected then [Ev.onConnected i s.nextAuto] else [Ev.onAbolished i] := by
  unfold dispatch
  simp only [he, Flags.isZero]
  cases e.connected <;> simp

/-- … and the establisher is taken out of the poll BEFORE its callback runs: when the callback script does nothing the
    establisher is unregistered afterwards, so (`dispatch_only_registered_kinds`) no second outcome is ever dispatched for it
    unless a script re-registers the id — which `mkEst` refuses for a used id -/
theorem connect_event_unregisters (s : St) (i : Id) (e : EstS) (o : Outcome) (he : s.ests i = some e)
    (hf : e.connected = false) (hscr : s.scripts i (s.calls i) = []) :
    lookup (dispatch s (some (i, { c := true })) o).1.sockets i = none := by
  have hr : lookup (pollRemove s i).sockets i = none := by
    unfold pollRemove
    cases h : lookup s.sockets i with
    | none => simpa using h
    | some r => simp only; exact lookup_eraseId_self _ _
  have hsc : (pollRemove s i).scripts i ((pollRemove s i).calls i) = [] := by
    have h1 : (pollRemove s i).scripts = s.scripts := pollRemove_scripts s i
    have h2 : (pollRemove s i).calls = s.calls := by unfold pollRemove; split <;> rfl
    rw [h1, h2]; exact hscr
  unfold dispatch
  simp only [he, Flags.isZero, hf]
  simp only [Bool.or_self, Bool.not_false, Bool.false_eq_true, if_false, Bool.not_true, if_true, callback, hsc, runActs]
  exact hr

/-- listener: an accept event accepts ONE queued connection (onAccepted with a fresh client id) and leaves the others to
    the next readiness report; when accept() fails nothing is called -/
theorem accept_event_outcome (s : St) (i : Id) (l : ListenerS) (o : Outcome) (hl : s.listeners i = some l) :
    (dispatch s (some (i, { a := true })) o).2 = if l.pending = 0 then [] else [Ev.onAccepted i s.nextAuto] := by
  unfold dispatch
  simp only [hl, Flags.isZero]
  by_cases h : l.pending = 0 <;> simp [h]

/-! ### failing I/O -/

/-- a read that hits end-of-stream queues the client for onClosed -/
theorem failed_read_queues_close (s : St) (i : Id) (c : ClientS) (hc : s.clients i = some c) (h0 : c.inbox = 0)
    (hp : c.peerClosed = true) : i ∈ (applyAct s none (.read i)).closing :=
  read_failure_queues s i c hc h0 hp

/-- a write whose send fails (error, or 0 bytes accepted) queues the client for onClosed -/
theorem failed_write_queues_close (s : St) (i : Id) (c : ClientS) (n : Nat) (o : Outcome)
    (hc : s.clients i = some c) (h0 : c.backlog = 0) (he : sendOn c n o = .error ∨ sendOn c n o = .sent 0) :
    i ∈ (applyAct s none (.write i n o)).closing :=
  write_failure_queues s i c n o hc h0 he

/-- failed_io_then_onClosed: the closing loop delivers onClosed to the queued client (unless it was
    removed while being accepted), … -/
theorem closing_delivers_onClosed (ms : List Move) (inp : PollIn) (o : Outcome) (now tmo : Int) (c : Id)
    (rest : List Id) (cl : ClientS) (hpc : (reach ms).pc = .closing now tmo)
    (hcl : (reach ms).closing = c :: rest) (hc : (reach ms).clients c = some cl) (hr : cl.removed = false) :
    (step (reach ms) inp o).2 = [Ev.onClosed c] ∧ (step (reach ms) inp o).1.pc = .closing now tmo :=
  closing_step _ inp o (inv_reach ms).s now tmo c rest cl hpc hcl hc hr

/-- … and run() does not poll again before the closing list is empty -/
theorem poll_only_after_closing (ms : List Move) (inp : PollIn) (o : Outcome) (now tmo : Int)
    (hpc : (reach ms).pc = .closing now tmo) :
    (∃ tmo', (step (reach ms) inp o).1.pc = .poll now tmo') → (reach ms).closing = [] :=
  closing_then_poll _ inp o now tmo hpc

/-- a client queued for onClosed stays queued across every API call and callback script until it is deleted -/
theorem closing_membership_persists (s : St) (nc : Option Id) (acts : List Act) (i : Id) (h : i ∈ s.closing) :
    i ∈ (runActs s nc acts).closing ∨ (runActs s nc acts).gone i = true :=
  (runActs_keeps i s nc acts).1 h

theorem runSteps_inv (s : St) (l : List (PollIn × Outcome)) (h : Inv s) : Inv (runSteps s l).1 := by
  induction l generalizing s with
  | nil => exact h
  | cons a r ih => obtain ⟨inp, o⟩ := a; exact ih _ (inv_move s (.step inp o) h)

theorem runSteps_gone (s : St) (l : List (PollIn × Outcome)) (i : Id) (h : s.gone i = true) :
    (runSteps s l).1.gone i = true := by
  induction l generalizing s with
  | nil => exact h
  | cons a r ih => obtain ⟨inp, o⟩ := a; exact ih _ ((step_rel s inp o).1 i h)

theorem failed_io_then_onClosed_aux (s : St) (hinv : Inv s) (i : Id) (hi : i ∈ s.closing) (hl : InLoop s)
    (l : List (PollIn × Outcome)) :
    Ev.onClosed i ∈ (runSteps s l).2 ∨ (runSteps s l).1.gone i = true ∨
      (i ∈ (runSteps s l).1.closing ∧ InLoop (runSteps s l).1) := by
  induction l generalizing s with
  | nil => exact Or.inr (Or.inr ⟨hi, hl⟩)
  | cons a r ih =>
    obtain ⟨inp, o⟩ := a
    simp only [runSteps]
    rcases closing_member_step s inp o hinv.s i hi hl with h | h | ⟨h1, h2⟩
    · exact Or.inl (List.mem_append_left _ h)
    · exact Or.inr (Or.inl (runSteps_gone _ r i h))
    · rcases ih _ (inv_move s (.step inp o) hinv) h1 h2 with h | h | h
      · exact Or.inl (List.mem_append_right _ h)
      · exact Or.inr (Or.inl h)
      · exact Or.inr (Or.inr h)

/-- failed_io_then_onClosed (history level): a client that is queued for onClosed — by a failed read or write,
    `failed_read_queues_close` / `failed_write_queues_close` — while run() is in its timer or closing loop: along
    ANY sequence of further steps of run() (any callback scripts, any kernel answers), either onClosed has been
    delivered to it, or it has been deleted, or it is still queued and run() is still in front of the poll.
    In particular run() does not poll again before the client got its onClosed or was removed. -/
theorem failed_io_then_onClosed (ms : List Move) (i : Id) (hi : i ∈ (reach ms).closing) (hl : InLoop (reach ms))
    (l : List (PollIn × Outcome)) :
    Ev.onClosed i ∈ (runSteps (reach ms) l).2 ∨ (runSteps (reach ms) l).1.gone i = true ∨
      (i ∈ (runSteps (reach ms) l).1.closing ∧ InLoop (runSteps (reach ms) l).1) :=
  failed_io_then_onClosed_aux (reach ms) (inv_reach ms) i hi hl l

/-- corollary: once run() stands at the poll again, every client that was queued has got onClosed or is gone -/
theorem at_poll_closed_or_gone (ms : List Move) (i : Id) (hi : i ∈ (reach ms).closing) (hl : InLoop (reach ms))
    (l : List (PollIn × Outcome)) (now tmo : Int) (hp : (runSteps (reach ms) l).1.pc = .poll now tmo) :
    Ev.onClosed i ∈ (runSteps (reach ms) l).2 ∨ (runSteps (reach ms) l).1.gone i = true := by
  rcases failed_io_then_onClosed ms i hi hl l with h | h | ⟨_, h⟩
  · exact Or.inl h
  · exact Or.inr h
  · rcases h with ⟨n, h⟩ | ⟨n, t, h⟩ <;> rw [hp] at h <;> cases h

/-- a failing send in the write-ready branch is followed by onClosed in the same step -/
theorem failed_write_ready_calls_onClosed (s : St) (i : Id) (c : ClientS) (o : Outcome)
    (hc : s.clients i = some c) (hcb : c.hasCb = true) (hb : c.backlog ≠ 0) (he : sendOn c c.backlog o = .error) :
    (writeReady s i o).2 = [Ev.onClosed i] :=
  writeReady_failure s i c o hc hcb hb he

/-! ### interrupt -/

/-- whenever the interrupted flag is set the event descriptor is signalled (so a level-triggered
    kernel reports it at the next epoll_wait) -/
theorem interrupt_signals_eventfd (ms : List Move) :
    (reach ms).interrupted = true → 0 < (reach ms).eventfd + (reach ms).pendingEfd :=
  invI_reach ms

/-- run_returns_only_on_interrupt: a step leaves run() only by consuming a pending interrupt -/
theorem run_returns_only_on_interrupt (ms : List Move) (inp : PollIn) (o : Outcome)
    (hin : (reach ms).pc ≠ .idle) (hout : (step (reach ms) inp o).1.pc = .idle) :
    (reach ms).interrupted = true ∧ Ev.returned ∈ (step (reach ms) inp o).2 ∧
    (step (reach ms) inp o).1.interrupted = false := by
  rcases (step_rel (reach ms) inp o).2.2.1 hout with h | h
  · exact absurd h hin
  · exact h

/-- a pending interrupt is never lost: it stays pending across every move until run() returns -/
theorem interrupt_never_lost (ms : List Move) (m : Move) (h : (reach ms).interrupted = true) :
    (move (reach ms) m).interrupted = true ∨ (move (reach ms) m).pc = .idle :=
  (move_gone_invI (reach ms) m).2.2 h

/-- interrupt_returns_run: with an interrupt pending — set before run() was entered or during it, at
    top level or inside a callback — the next epoll_wait that reports the event descriptor (the
    kernel must: its counter is non-zero) makes run() return -/
theorem interrupt_returns_run (ms : List Move) (inp : PollIn) (o : Outcome) (now tmo : Int)
    (hpc : (reach ms).pc = .poll now tmo) (hsel : (reach ms).selected = [])
    (hi : (reach ms).interrupted = true) (hdone : (reach ms).pendingEfd = 0) (he : inp.eventfd = true) :
    (step (reach ms) inp o).1.pc = .idle ∧ (step (reach ms) inp o).2 = [Ev.returned] := by
  have hfd : (reach ms).eventfd ≠ 0 := by have := interrupt_signals_eventfd ms hi; omega
  have hp : (pollStep (reach ms) inp).2 = none ∧ (pollStep (reach ms) inp).1.interrupted = true := by
    unfold pollStep
    simp [hsel, he, hfd, hi]
  obtain ⟨hp1, hp2⟩ := hp
  unfold step
  simp only [hpc]
  rw [hp1]
  unfold dispatch
  simp [hp2]

/-- interrupt() from another thread, first half: the flag is set, whatever run() is doing -/
theorem interrupt_begin_sets_flag (ms : List Move) : (move (reach ms) .intrBegin).interrupted = true := by
  simp only [move]
  split
  · assumption
  · rfl

/-- … second half: the event descriptor is signalled, so the pending count drops and `eventfd` is non-zero -/
theorem interrupt_end_signals (ms : List Move) (h : (reach ms).pendingEfd ≠ 0) :
    0 < (move (reach ms) .intrEnd).eventfd ∧ (move (reach ms) .intrEnd).pendingEfd = (reach ms).pendingEfd - 1 := by
  simp only [move, h, if_false]
  exact ⟨Nat.succ_pos _, trivial⟩

/-- interrupt_eventually_returns (composition): from ANY reachable state with a pending interrupt — set before run()
    or during it, in whatever phase run() is, with whatever batch, due timers and closing list — run() returns after
    finitely many steps, for every sequence of kernel answers (any sockets in any order, any time advance) that
    reports the event descriptor and every send outcome.  Assumptions: timer intervals are positive (guaranteed:
    `timer_intervals_positive`), the callback scripts in effect are quiet (create no timers, do not read/write — a
    script that reads a closed client again in onClosed re-queues it forever, in the C++ as well) and no other
    thread is between the two writes of its interrupt().  Proof: the lexicographic measure (pending batch length,
    phase, lateness of the timer queue / length of the closing list) drops in every step (`step_progress`). -/
theorem interrupt_eventually_returns (ms : List Move) (f : Nat → PollIn × Outcome)
    (hint : (reach ms).interrupted = true) (hf : ∀ n, (f n).1.eventfd = true)
    (hg : ∀ n, QuietScripts (runN (reach ms) f n) ∧ (runN (reach ms) f n).pendingEfd = 0) :
    ∃ n, (runN (reach ms) f n).pc = .idle :=
  eventually_returns _ (reach ms) f rfl (inv_reach ms) (invI_reach ms) hint hf hg

/-- ready_eventually_dispatched, conditional form (1): with quiet scripts run() reaches, after finitely many steps, a
    poll with an empty pending batch — it asks the kernel again (or has returned).  Until then the batch only
    shrinks, oldest entry first: every entry is dispatched (`poll_step_drains_batch`) or pruned by set()/remove().
    (2) what a kernel that reports every ready registered socket answers then is buffered in order and its first
    event dispatched at once (`poll_buffers_reported`), and (1) applies to the new batch. -/
theorem kernel_is_asked_again (ms : List Move) (f : Nat → PollIn × Outcome)
    (hg : ∀ n, QuietScripts (runN (reach ms) f n)) :
    ∃ n, (runN (reach ms) f n).pc = .idle ∨
      ∃ now tmo, (runN (reach ms) f n).pc = .poll now tmo ∧ (runN (reach ms) f n).selected = [] :=
  kernel_asked_again _ (reach ms) f rfl (inv_reach ms) hg

example : QuietScripts init := by intro i k a h; simp [init] at h


/-! ### liveness: ready_eventually_dispatched (extension round) -/

/-- entering run() establishes `ClockOk`, every step keeps it (and every poll step re-establishes it) -/
theorem clock_ok_on_entry (s : St) (h : s.pc = .idle) : ClockOk (enterRun s) := by
  intro now hp
  unfold enterRun at hp ⊢
  simp only [h, if_true] at hp ⊢
  injection hp with e
  subst e
  exact Int.le_refl _

theorem clock_ok_kept (s : St) (f : Nat → PollIn × Outcome) (n : Nat) (h : ClockOk s) : ClockOk (runN s f n) :=
  runN_clockOk s f n h

/-- scripts without read / write (timer creation, removals, suspend / resume, object creation, interrupt allowed) never keep
    the closing loop busy: `ClosingCalm` holds along the whole run -/
theorem closing_calm_of_scripts_without_io (ms : List Move) (f : Nat → PollIn × Outcome)
    (h : ∀ i k a, a ∈ (reach ms).scripts i k → NoIOAct a) (n : Nat) : ClosingCalm (runN (reach ms) f n) :=
  closingCalm_run_of_noIO (reach ms) f (inv_reach ms) h n

/-- progress for ARBITRARY scripts (generalises `kernel_is_asked_again`): after every point of every run, run() asks the
    kernel again (poll with an empty pending batch) or has returned.  Lexicographic measure (pending batch length, phase,
    lateness of the timer queue / closing-list length): timers created by callbacks are due after `now`, reads and writes
    outside the closing loop only lengthen the closing list while the phase is higher. -/
theorem kernel_is_asked_again_any_scripts (ms : List Move) (f : Nat → PollIn × Outcome) (hck : ClockOk (reach ms))
    (hg : ∀ n, ClosingCalm (runN (reach ms) f n)) (k : Nat) :
    ∃ m, k ≤ m ∧ ((runN (reach ms) f m).pc = .idle ∨ Query (runN (reach ms) f m)) :=
  kernel_asked_infinitely_often (reach ms) f (inv_reach ms) hck hg k

/-- bounded progress of one event: an event pending in the batch is handed to the dispatch switch after finitely many steps
    (the measure above bounds them) unless run() returns or set()/remove() on its socket prunes it -/
theorem pending_event_dispatched_or_pruned (ms : List Move) (f : Nat → PollIn × Outcome) (i : Id) (fl : Flags)
    (hck : ClockOk (reach ms)) (hg : ∀ n, ClosingCalm (runN (reach ms) f n)) (hp : lookup (reach ms).selected i = some fl) :
    ∃ n, (runN (reach ms) f n).pc = .idle ∨ HandsOut (runN (reach ms) f n) (f n).1 i fl ∨
      PrunedAt (runN (reach ms) f n) (f n).1 (f n).2 i fl :=
  pending_event_fate _ (reach ms) f i fl rfl (inv_reach ms) hck hg hp

/-- ready_eventually_dispatched: along every infinite run of run() from a reachable state, for every sequence of kernel
    answers and send outcomes `f` that is FAIR to socket `i` (`KernelFair`: if the kernel is asked again and again, then again
    and again an answer reports `i` ready) and ARBITRARY callback scripts subject to `ClosingCalm`: after every point `k` of
    the run there is a later step `m` at which run() has returned (interrupt), or hands a non-empty event of `i` to its
    dispatch switch (`dispatch_only_registered_kinds`: the callback is of a kind `i` is registered for), or an event of `i`
    that the kernel reported is pruned by set()/remove() on `i` (`event_pruned_only_through_its_socket`). -/
theorem ready_eventually_dispatched (ms : List Move) (f : Nat → PollIn × Outcome) (i : Id) (hck : ClockOk (reach ms))
    (hg : ∀ n, ClosingCalm (runN (reach ms) f n)) (hfair : KernelFair (reach ms) f i) (k : Nat) :
    ∃ m, k ≤ m ∧ ((runN (reach ms) f m).pc = .idle ∨
      ∃ fl, fl.isZero = false ∧
        (HandsOut (runN (reach ms) f m) (f m).1 i fl ∨ PrunedAt (runN (reach ms) f m) (f m).1 (f m).2 i fl)) :=
  ready_eventually_dispatched_run (reach ms) f i (inv_reach ms) hck hg hfair k

/-- `Poll::set(j, …)` and `Poll::remove(j)` leave the pending event of every other socket alone; `Poll::set(i, ev)` that still
    covers the pending flags of `i` leaves it alone as well -/
theorem poll_set_remove_keep_other_events (s : St) (i j : Id) (ev : Flags) (h : i ≠ j) :
    lookup (pollSet s j ev).selected i = lookup s.selected i ∧ lookup (pollRemove s j).selected i = lookup s.selected i :=
  ⟨pollSet_selKept i s j ev h, pollRemove_selKept i s j h⟩

theorem poll_set_covering_keeps_event (s : St) (i : Id) (ev old fl : Flags) (ho : lookup s.sockets i = some old)
    (hp : lookup s.selected i = some fl) (hnz : fl.isZero = false) (hsub : fl.sub ev) :
    lookup (pollSet s i ev).selected i = some fl :=
  pollSet_selKept_covering s i ev old fl ho hp hnz hsub

/-- what `PrunedAt` means: when no script in effect calls suspend / resume / write / remove on socket `i` (or re-creates an
    object under its id), an event of `i` in the batch of a step is handed out by that step, or is still pending unchanged
    after it, or the closing loop is handling client `i` itself.  For every reachable state, any kernel answer. -/
theorem event_pruned_only_through_its_socket (ms : List Move) (inp : PollIn) (o : Outcome) (i : Id) (fl : Flags)
    (hnt : NoTouch (reach ms).scripts i) (hb : InBatch (reach ms) inp i fl) :
    HandsOut (reach ms) inp i fl ∨ lookup (step (reach ms) inp o).1.selected i = some fl ∨
      ((∃ now tmo, (reach ms).pc = .closing now tmo) ∧ (reach ms).closing.head? = some i) :=
  step_keeps_untouched_event (reach ms) inp o i fl (inv_reach ms) hnt hb

/-- ready_eventually_dispatched for a socket no callback script touches: it IS dispatched again and again (or run() returns, or
    the client failed and gets onClosed instead) -/
theorem ready_eventually_dispatched_untouched_socket (ms : List Move) (f : Nat → PollIn × Outcome) (i : Id)
    (hck : ClockOk (reach ms)) (hg : ∀ n, ClosingCalm (runN (reach ms) f n)) (hnt : NoTouch (reach ms).scripts i)
    (hfair : KernelFair (reach ms) f i) (k : Nat) :
    ∃ m, k ≤ m ∧ ((runN (reach ms) f m).pc = .idle ∨
      (∃ fl, fl.isZero = false ∧ HandsOut (runN (reach ms) f m) (f m).1 i fl) ∨
      ((∃ now tmo, (runN (reach ms) f m).pc = .closing now tmo) ∧ (runN (reach ms) f m).closing.head? = some i)) :=
  ready_eventually_dispatched_untouched (reach ms) f i (inv_reach ms) hck hg hnt hfair k

/-- interrupt_eventually_returns without the restriction to quiet scripts: from ANY reachable state with a pending interrupt
    run() returns after finitely many steps, for ARBITRARY callback scripts (timer creation, read, write, … inside callbacks)
    subject to `ClosingCalm`, every sequence of kernel answers that reports the event descriptor, every send outcome -/
theorem interrupt_eventually_returns_any_scripts (ms : List Move) (f : Nat → PollIn × Outcome) (hck : ClockOk (reach ms))
    (hint : (reach ms).interrupted = true) (hf : ∀ n, (f n).1.eventfd = true)
    (hg : ∀ n, ClosingCalm (runN (reach ms) f n) ∧ (runN (reach ms) f n).pendingEfd = 0) :
    ∃ n, (runN (reach ms) f n).pc = .idle :=
  eventually_returns_gen _ (reach ms) f rfl (inv_reach ms) hck (invI_reach ms) hint hf hg

/-- non-vacuity: two socket-pair clients with unread input, a timer whose callback creates another timer (not a quiet
    script), the kernel reports client 2 before client 1 at every query -/
def exLive : List Move :=
  [.mkPair 1, .mkPair 2, .env (.peerSend 1 5), .env (.peerSend 2 5), .act (.mkTimer 3 7), .script 3 0 [.mkTimer 4 1], .enter]

def exLiveF : Nat → PollIn × Outcome := fun _ => ({ events := [(2, { inn := true }), (1, { inn := true })], dt := 7 }, .all)

example : ClockOk (reach exLive) := clock_ok_on_entry _ (by decide)

example : ∀ n, ClosingCalm (runN (reach exLive) exLiveF n) :=
  closing_calm_of_scripts_without_io exLive exLiveF (by
    intro i k a h
    have : (reach exLive).scripts i k = if i = 3 ∧ k = 0 then [.mkTimer 4 1] else [] := rfl
    rw [this] at h
    split at h
    · simp at h; subst h; trivial
    · simp at h)

example : NoTouch (reach exLive).scripts 1 := by
  intro j k a h
  have : (reach exLive).scripts j k = if j = 3 ∧ k = 0 then [.mkTimer 4 1] else [] := rfl
  rw [this] at h
  split at h
  · simp at h; subst h; simp [Touches]
  · simp at h

/-- the first query (step 3) reports both sockets; client 2 is handed out at once, client 1 stays in the batch and is handed
    out by the next poll step (step 7); the second query (step 10, after the timer callback created timer 4) reports them again -/
example : Query (runN (reach exLive) exLiveF 3) ∧
    ReportsAt (runN (reach exLive) exLiveF 3) (exLiveF 3).1 1 { r := true } ∧
    HandsOut (runN (reach exLive) exLiveF 3) (exLiveF 3).1 2 { r := true } ∧
    InBatch (runN (reach exLive) exLiveF 4) (exLiveF 4).1 1 { r := true } ∧
    HandsOut (runN (reach exLive) exLiveF 7) (exLiveF 7).1 1 { r := true } ∧
    Query (runN (reach exLive) exLiveF 10) ∧ ReportsAt (runN (reach exLive) exLiveF 10) (exLiveF 10).1 1 { r := true } := by
  refine ⟨⟨1000, 7, by decide, by decide⟩, ⟨by decide, by decide⟩, ⟨⟨1000, 7, by decide⟩, by decide⟩, Or.inl (by decide),
    ⟨⟨1007, 1, by decide⟩, by decide⟩, ⟨1007, 1, by decide, by decide⟩, ⟨by decide, by decide⟩⟩

/-- interrupt() sets the flag (idempotently) -/
theorem interrupt_sets_flag (s : St) : (applyAct s none .interrupt).interrupted = true := by
  simp only [applyAct, interrupt]
  split
  · assumption
  · rfl

/-! ### non-vacuity: concrete histories reach the situations above -/

/-- three timers with equal due time, the first removed by the callback of the second -/
def exMoves : List Move :=
  [.act (.mkTimer 1 2), .act (.mkTimer 2 2), .act (.mkTimer 3 2), .script 2 0 [.rmTimer 1, .interrupt],
   .enter, .step {} .all, .step {} .all, .step {} .all, .step { dt := 2 } .all]

example : (reach exMoves).pc = .timers 1002 ∧ (reach exMoves).queue.head? = some (1002, some 1) := by decide

example : (step (reach exMoves) {} .all).2 = [Ev.activated 1 1002 1002] := by decide

example : (step (step (reach exMoves) {} .all).1 {} .all).2 = [Ev.activated 2 1002 1002] ∧
    (step (step (reach exMoves) {} .all).1 {} .all).1.gone 1 = true ∧
    (step (step (reach exMoves) {} .all).1 {} .all).1.interrupted = true := by decide

/-- interrupt() before run(): the first poll reports the event descriptor and run() returns -/
def exIntr : List Move := [.act .interrupt, .enter, .step {} .all, .step {} .all, .step {} .all]

example : (reach exIntr).pc = .poll 1000 300000 ∧ (reach exIntr).selected = [] ∧ (reach exIntr).interrupted = true ∧
    (reach exIntr).pendingEfd = 0 ∧
    (step (reach exIntr) { eventfd := true } .all).1.pc = .idle ∧
    (step (reach exIntr) { eventfd := true } .all).2 = [Ev.returned] := by decide

/-- a failed read queues the client; the closing loop delivers onClosed before the next poll -/
def exClose : List Move :=
  [.mkPair 1, .env (.peerClose 1), .act (.read 1), .enter, .step {} .all, .step {} .all]

example : (reach exClose).pc = .closing 1000 300000 ∧ (reach exClose).closing = [1] ∧
    (step (reach exClose) {} .all).2 = [Ev.onClosed 1] := by decide

/-- a listener whose onAccepted removes the client it is given and returns a callback (D20) -/
def exAccept : List Move :=
  [.mkListener 1, .env (.dial 1), .script 1 0 [.rmNew], .enter, .step {} .all, .step {} .all, .step {} .all,
   .step { events := [(1, { inn := true })] } .all]

example : (reach exAccept).pc = .timers 1000 ∧ (reach exAccept).gone 1000 = true ∧
    (reach exAccept).clients 1000 = none ∧ (reach exAccept).fault = false := by decide

end Nstd.Server.C14
