import Nstd.Server.ModelC13
namespace Nstd.Server.C14
theorem placeholder14 : (1 : Nat) = 1 := rfl
end Nstd.Server.C14
