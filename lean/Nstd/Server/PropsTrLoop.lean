import Nstd.Server.TrC14
import Nstd.Server.LemmasC14S
/-
  Tie by translation, second part (C14 / C13 batch): `Socket::Poll::Private::set` and `remove` (the pruning of buffered
  events), ONE iteration of the timer loop and ONE iteration of the closing loop of `Server::Private::run`, translated from the
  CURRENT Socket.cpp / Server.cpp (Nstd/Generated/ServerTr.lean), are the model's `pollSet`, `pollRemove` and the `.timers` /
  `.closing` cases of `step` — for every model state.
-/
set_option linter.unusedSimpArgs false

namespace Nstd.Server.Tr
open Nstd.Server.C14
open Nstd.Server.C13 (Outcome)
open Nstd.Generated

theorem setId_append_new (l : List (Id × Flags)) (i : Id) (x f : Flags) (h : lookup l i = none) :
    setId (l ++ [(i, x)]) i f = l ++ [(i, f)] := by
  induction l with
  | nil => simp [setId]
  | cons p r ih =>
    obtain ⟨j, g⟩ := p
    simp only [lookup] at h
    by_cases hj : j = i
    · simp [hj] at h
    · simp only [hj, if_false] at h
      have := ih h
      simp only [setId] at this ⊢
      simp [hj, this]

theorem eraseId_setId (l : List (Id × Flags)) (i : Id) (f : Flags) : eraseId (setId l i f) i = eraseId l i := by
  induction l with
  | nil => rfl
  | cons p r ih =>
    obtain ⟨j, g⟩ := p
    unfold setId eraseId at *
    by_cases hj : j = i <;> simp_all

theorem flags_isZero_iff (x : Flags) : (x = ({} : Flags)) ↔ x.isZero = true := by
  obtain ⟨a, b, c, d⟩ := x
  cases a <;> cases b <;> cases c <;> cases d <;> simp [Flags.isZero]

theorem minus_eq (x y : Flags) : finter x (fcompl y) = x.minus y := rfl

/-- `Poll::Private::set(socket, events)` (translated) = the model's `pollSet`, and the `epoll_ctl` calls it makes: none when the
    events are unchanged, one MOD resp. ADD with `mapEvents(events)` otherwise -/
theorem tr_pollSet_eq (s : St) (i : Id) (ev : Flags) :
    (ServerTr.pollSet (PPoll i) ev ⟨s, []⟩).st = pollSet s i ev ∧
    (ServerTr.pollSet (PPoll i) ev ⟨s, []⟩).ctl =
      (match lookup s.sockets i with
       | some old => if old = ev then [] else [(3, ServerTr.mapEvents ev)]
       | none => [(1, ServerTr.mapEvents ev)]) := by
  unfold ServerTr.pollSet pollSet
  cases hso : lookup s.sockets i with
  | none => simp [PPoll, hso, setId_append_new _ _ _ _ hso]
  | some old =>
    by_cases he : old = ev
    · simp [PPoll, hso, he]
    · cases hse : lookup s.selected i with
      | none => by_cases hsel : s.selected = [] <;> simp [PPoll, hso, he, hse, hsel, lookup]
      | some sel =>
        have hsel : s.selected ≠ [] := by intro h; simp [h, lookup] at hse
        have h1 := lookup_setId_self s.selected i (sel.minus (old.minus ev)) sel hse
        by_cases hz : (sel.minus (old.minus ev)).isZero = true
        · have hz' : sel.minus (old.minus ev) = ({} : Flags) := (flags_isZero_iff _).2 hz
          rw [hz'] at h1
          simp [PPoll, hso, he, hse, hsel, minus_eq, h1, hz', eraseId_setId, Flags.isZero]
        · have hz' : ¬ sel.minus (old.minus ev) = ({} : Flags) := fun h => hz ((flags_isZero_iff _).1 h)
          simp [PPoll, hso, he, hse, hsel, minus_eq, h1, hz, hz']

/-- `Poll::Private::remove(socket)` (translated) = the model's `pollRemove` (+ one EPOLL_CTL_DEL iff registered) -/
theorem tr_pollRemove_eq (s : St) (i : Id) :
    (ServerTr.pollRemove (PPoll i) ⟨s, []⟩).st = pollRemove s i ∧
    (ServerTr.pollRemove (PPoll i) ⟨s, []⟩).ctl = (if (lookup s.sockets i).isSome then [(2, {})] else []) := by
  unfold ServerTr.pollRemove pollRemove
  cases hso : lookup s.sockets i <;> by_cases hsel : s.selected = [] <;> simp [PPoll, hso, hsel, eraseId]

/-- one iteration of the timer loop (translated) = the `.timers` case of the model's `step`: the loop is left exactly when the
    model moves on to the closing loop; otherwise the front entry is popped, a user timer is re-queued at
    `executionTime + interval` BEFORE its callback runs, the default timer is re-queued at `now + 300 s` -/
theorem tr_timerIter_eq (s : St) (now : Int) (k : Int) (v : Option Id) (rest : List (Int × Option Id)) (inp : PollIn) (o : Outcome)
    (hpc : s.pc = .timers now) (hq : s.queue = (k, v) :: rest) (hlive : ∀ t, v = some t → (s.timers t).isSome) :
    (k - now ≤ 0 → (ServerTr.timerIter PTimer now ⟨s, none⟩).2 = true ∧
        (ServerTr.timerIter PTimer now ⟨s, none⟩).1.st = (step s inp o).1) ∧
    (¬ k - now ≤ 0 → (ServerTr.timerIter PTimer now ⟨s, none⟩).2 = false ∧
        (ServerTr.timerIter PTimer now ⟨s, none⟩).1.st = s ∧ (step s inp o).1 = { s with pc := .closing now (k - now) }) := by
  unfold ServerTr.timerIter step
  simp only [hpc, hq]
  constructor
  · intro hk
    have hk1 : ¬ now < k := by omega
    have hk2 : ¬ 0 < k - now := by omega
    have hk3 : k ≤ now := by omega
    cases v with
    | none => simp [PTimer, hq, hk, hk1, hk2, hk3, hpc]
    | some t =>
      have := hlive t rfl
      cases ht : s.timers t with
      | none => simp [ht] at this
      | some ti => simp [PTimer, hq, hk, hk1, hk2, hk3, ht, curTimer, upd_at, hpc]
  · intro hk
    have hk1 : now < k := by omega
    have hk2 : 0 < k - now := by omega
    have hk3 : ¬ k ≤ now := by omega
    simp [PTimer, hq, hk, hk1, hk2, hk3, hpc]

/-- one iteration of the closing loop (translated) = the `.closing` case of the model's `step` with a queued client -/
theorem tr_closingIter_eq (s : St) (now tmo : Int) (c : Id) (rest : List Id) (cl : ClientS) (inp : PollIn) (o : Outcome)
    (hpc : s.pc = .closing now tmo) (hcl : s.closing = c :: rest) (hc : s.clients c = some cl) :
    (ServerTr.closingIter PClosing ⟨s, 0⟩).2 = true ∧ (ServerTr.closingIter PClosing ⟨s, 0⟩).1.st = (step s inp o).1 := by
  unfold ServerTr.closingIter step
  simp only [hpc, hcl]
  cases h1 : cl.hasCb <;> cases h2 : cl.removed <;> simp [PClosing, hcl, hc, h1, h2, hpc]

/-- … and the loop is left exactly when `_closingClients` is empty -/
theorem tr_closingIter_exit (s : St) (h : s.closing = []) :
    ServerTr.closingIter PClosing ⟨s, 0⟩ = (⟨s, 0⟩, false) := by
  unfold ServerTr.closingIter
  simp [PClosing, h]

end Nstd.Server.Tr
