import Nstd.Server.TrRt
/-
  Primitives of the translated accept / connect branches of the dispatch chain of `Server::Private::run`
  (Nstd/Generated/ServerTrHand.lean) and their meaning over the event-loop model.  Calls with effects inside the `||` chain
  of the C++ condition (`accept`, `setNonBlocking`, the socket options) are translated with short-circuit evaluation.
  In the model a socket option never fails (`setOption` answers true) — a failing option after a successful accept is not
  modelled (docs/server.md); which options are switched on does not matter for the result (the theorems quantify over them).
-/
namespace Nstd.Server.Tr
open Nstd.Server.C14

structure HandOverPrims (σ : Type) where
  accept : σ → σ × Bool               -- listener.accept(clientSocket, ip, port)
  setNonBlocking : σ → σ × Bool
  setOption : σ → Nat → σ × Bool      -- setKeepAlive / setNoDelay / setSendBufferSize / setReceiveBufferSize (0..3)
  optKeepAlive : σ → Bool             -- _keepAlive
  optNoDelay : σ → Bool
  optSendBuf : σ → Int
  optRecvBuf : σ → Int
  soError : σ → Int                   -- establisher.getAndResetErrorStatus()
  pollRemoveEst : σ → σ               -- _sockets.remove(establisher)
  onAbolished : σ → σ
  newClient : σ → σ                   -- ClientImpl &client = _clients.append(*this)
  swapSocket : σ → σ                  -- client.swap(clientSocket / establisher)
  pollSetClient : σ → Flags → σ       -- _sockets.set(client, flags)
  handOver : σ → σ                    -- client._callback = …->onAccepted(client, ip, port) / onConnected(client)
  hasCallback : σ → Bool              -- client._callback != nullptr
  removedFlag : σ → Bool              -- client._removed
  deleteClient : σ → σ

structure MHand where
  st : St
  nc : Id                             -- the id the new client gets (`nextAuto` when the branch is entered)
  kA : Bool := false
  nD : Bool := false
  sB : Int := 0
  rB : Int := 0

/-- object `i` (listener resp. establisher) whose event is dispatched -/
def PHand (i : Id) (isListener : Bool) : HandOverPrims MHand where
  accept m :=
    match m.st.listeners i with
    | some l => if l.pending = 0 then (m, false)
                else ({ m with st := { m.st with listeners := upd m.st.listeners i (some { l with pending := l.pending - 1 }) } }, true)
    | none => (m, false)
  setNonBlocking m := (m, true)
  setOption m _ := (m, true)
  optKeepAlive m := m.kA
  optNoDelay m := m.nD
  optSendBuf m := m.sB
  optRecvBuf m := m.rB
  soError m := match m.st.ests i with | some e => if e.connected then 0 else 111 | none => 0
  pollRemoveEst m := { m with st := pollRemove m.st i }
  onAbolished m := { m with st := (callback m.st i none).1 }
  newClient m :=
    let s0 := if isListener then m.st else
      match m.st.ests i with
      | some e => { m.st with ests := upd m.st.ests i (some { e with hasSocket := false }) }
      | none => m.st
    { m with st := { s0 with clients := upd s0.clients m.nc (some { hasCb := false, unix := false }),
                             used := upd s0.used m.nc true, order := s0.order ++ [m.nc], nextAuto := m.nc + 1 } }
  swapSocket m := m
  pollSetClient m f := { m with st := pollSet m.st m.nc f }
  handOver m :=
    let r := callback m.st i (some m.nc)
    let cl : Option ClientS := (r.1.clients m.nc).map (fun c => { c with hasCb := !(r.2.any isRetNull) })
    { m with st := { r.1 with clients := upd r.1.clients m.nc cl } }
  hasCallback m := ((m.st.clients m.nc).map (·.hasCb)).getD false
  removedFlag m := ((m.st.clients m.nc).map (·.removed)).getD true
  deleteClient m := { m with st := deleteClient m.st m.nc }

end Nstd.Server.Tr
