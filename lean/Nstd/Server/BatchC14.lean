import Nstd.Server.LemmasC14F
/-
  C14 — the pending batch (`Poll::selectedSockets`) only shrinks between two kernel queries: entries leave it by being
  handed out (oldest first) or by being pruned by set()/remove(); nothing is added and no flag is added to an entry.
-/
namespace Nstd.Server.C14
open Nstd.Server.C13 (Outcome SendRes sendOS)

def Shrinks (s s' : St) : Prop :=
  s'.selected.length ≤ s.selected.length ∧
  ∀ j f', (j, f') ∈ s'.selected → ∃ f, (j, f) ∈ s.selected ∧ f'.sub f

theorem Shrinks.frame {s s' : St} (h : s'.selected = s.selected) : Shrinks s s' := by
  refine ⟨by rw [h]; exact Nat.le_refl _, ?_⟩
  intro j f hm; rw [h] at hm; exact ⟨f, hm, sub_refl f⟩

theorem Shrinks.refl (s : St) : Shrinks s s := Shrinks.frame rfl

theorem sub_trans {a b c : Flags} (h1 : a.sub b) (h2 : b.sub c) : a.sub c :=
  ⟨fun h => h2.1 (h1.1 h), fun h => h2.2.1 (h1.2.1 h), fun h => h2.2.2.1 (h1.2.2.1 h), fun h => h2.2.2.2 (h1.2.2.2 h)⟩

theorem Shrinks.trans {a b c : St} (h1 : Shrinks a b) (h2 : Shrinks b c) : Shrinks a c := by
  refine ⟨Nat.le_trans h2.1 h1.1, ?_⟩
  intro j f hm
  obtain ⟨f1, hm1, hs1⟩ := h2.2 j f hm
  obtain ⟨f2, hm2, hs2⟩ := h1.2 j f1 hm1
  exact ⟨f2, hm2, sub_trans hs1 hs2⟩

theorem minus_sub (a b : Flags) : (a.minus b).sub a := by
  refine ⟨?_, ?_, ?_, ?_⟩ <;> simp [Flags.minus] <;> intro h _ <;> exact h

theorem eraseId_shrinks (l : L) (i : Id) :
    (eraseId l i).length ≤ l.length ∧ ∀ j f, (j, f) ∈ eraseId l i → (j, f) ∈ l := by
  unfold eraseId
  exact ⟨List.length_filter_le _ _, fun j f h => (List.mem_filter.mp h).1⟩

theorem pollSet_shrinks (s : St) (i : Id) (ev : Flags) : Shrinks s (pollSet s i ev) := by
  unfold pollSet
  cases hold : lookup s.sockets i with
  | none => exact Shrinks.frame rfl
  | some old =>
    dsimp only
    split
    · exact Shrinks.refl s
    · cases hsl : lookup s.selected i with
      | none => exact Shrinks.frame rfl
      | some sel =>
        dsimp only
        split
        · obtain ⟨a, b⟩ := eraseId_shrinks s.selected i
          exact ⟨a, fun j f h => ⟨f, b j f h, sub_refl f⟩⟩
        · refine ⟨by simp [setId], ?_⟩
          intro j f hm
          rcases mem_setId _ _ _ _ _ hm with ⟨rfl, rfl⟩ | ⟨_, hm'⟩
          · exact ⟨sel, mem_of_lookup _ _ _ hsl, minus_sub _ _⟩
          · exact ⟨f, hm', sub_refl f⟩

theorem pollRemove_shrinks (s : St) (i : Id) : Shrinks s (pollRemove s i) := by
  unfold pollRemove
  split
  · exact Shrinks.refl s
  · obtain ⟨a, b⟩ := eraseId_shrinks s.selected i
    exact ⟨a, fun j f h => ⟨f, b j f h, sub_refl f⟩⟩

theorem deleteClient_shrinks (s : St) (i : Id) : Shrinks s (deleteClient s i) := by
  unfold deleteClient
  dsimp only
  exact Shrinks.trans (Shrinks.trans (b := { s with closing := s.closing.filter (· ≠ i) }) (Shrinks.frame rfl)
    (pollRemove_shrinks _ i)) (Shrinks.frame rfl)

theorem rmClient_shrinks (s : St) (i : Id) : Shrinks s (rmClient s i) := by
  unfold rmClient
  split
  · split
    · exact deleteClient_shrinks s i
    · exact Shrinks.frame rfl
  · exact Shrinks.refl s

theorem rmListener_shrinks (s : St) (i : Id) : Shrinks s (rmListener s i) := by
  unfold rmListener
  split
  · dsimp only; exact Shrinks.trans (pollRemove_shrinks s i) (Shrinks.frame rfl)
  · exact Shrinks.refl s

theorem rmEst_shrinks (s : St) (i : Id) : Shrinks s (rmEst s i) := by
  unfold rmEst
  split
  · dsimp only; exact Shrinks.trans (pollRemove_shrinks s i) (Shrinks.frame rfl)
  · exact Shrinks.refl s

theorem updSet_shrinks (s : St) (i : Id) (c' : ClientS) (ev : Flags) :
    Shrinks s (pollSet { s with clients := upd s.clients i (some c') } i ev) :=
  Shrinks.trans (b := { s with clients := upd s.clients i (some c') }) (Shrinks.frame rfl) (pollSet_shrinks _ _ _)

theorem updRemove_shrinks (s : St) (i : Id) (c' : ClientS) :
    Shrinks s (pollRemove { s with clients := upd s.clients i (some c') } i) :=
  Shrinks.trans (b := { s with clients := upd s.clients i (some c') }) (Shrinks.frame rfl) (pollRemove_shrinks _ _)

theorem suspend_shrinks (s : St) (i : Id) : Shrinks s (suspend s i) := by
  unfold suspend
  split
  · split
    · exact Shrinks.refl s
    · exact updSet_shrinks s i _ _
  · exact Shrinks.refl s

theorem resume_shrinks (s : St) (i : Id) : Shrinks s (resume s i) := by
  unfold resume
  split
  · split
    · exact Shrinks.refl s
    · exact updSet_shrinks s i _ _
  · exact Shrinks.refl s

theorem read_shrinks (s : St) (i : Id) : Shrinks s (read s i) := by
  unfold read addClosing
  repeat' split
  all_goals exact Shrinks.frame rfl

theorem write_shrinks (s : St) (i : Id) (n : Nat) (o : Outcome) : Shrinks s (write s i n o) := by
  unfold write addClosing
  repeat' split
  all_goals first | exact Shrinks.frame rfl | exact updSet_shrinks s i _ _

theorem mkPair_shrinks (s : St) (i : Id) : Shrinks s (mkPair s i) := by
  unfold mkPair; dsimp only; split
  · exact Shrinks.trans (b := { s with clients := _, used := _, order := _ }) (Shrinks.frame rfl) (pollSet_shrinks _ _ _)
  · exact Shrinks.refl s

theorem mkListener_shrinks (s : St) (i : Id) : Shrinks s (mkListener s i) := by
  unfold mkListener; dsimp only; split
  · exact Shrinks.trans (b := { s with listeners := _, used := _, order := _ }) (Shrinks.frame rfl) (pollSet_shrinks _ _ _)
  · exact Shrinks.refl s

theorem mkEst_shrinks (s : St) (i : Id) : Shrinks s (mkEst s i) := by
  unfold mkEst; dsimp only; split
  · exact Shrinks.trans (b := { s with ests := _, used := _, order := _ }) (Shrinks.frame rfl) (pollSet_shrinks _ _ _)
  · exact Shrinks.refl s

theorem applyAct_shrinks (s : St) (nc : Option Id) (a : Act) : Shrinks s (applyAct s nc a) := by
  cases a <;> simp only [applyAct]
  case mkTimer i iv => unfold mkTimer; dsimp only; split <;> exact Shrinks.frame rfl
  case rmTimer i => unfold rmTimer; split <;> exact Shrinks.frame rfl
  case rmClient i => exact rmClient_shrinks s i
  case rmListener i => exact rmListener_shrinks s i
  case rmEst i => exact rmEst_shrinks s i
  case rmNew => cases nc <;> simp only <;> first | exact Shrinks.refl s | exact rmClient_shrinks s _
  case retNull => exact Shrinks.refl s
  case interrupt => unfold interrupt; split <;> exact Shrinks.frame rfl
  case suspend i => exact suspend_shrinks s i
  case resume i => exact resume_shrinks s i
  case read i => exact read_shrinks s i
  case write i n o => exact write_shrinks s i n o
  case mkPair i => exact mkPair_shrinks s i
  case mkListener i => exact mkListener_shrinks s i
  case mkEst i => exact mkEst_shrinks s i

theorem runActs_shrinks (s : St) (nc : Option Id) (acts : List Act) : Shrinks s (runActs s nc acts) := by
  induction acts generalizing s with
  | nil => exact Shrinks.refl s
  | cons a as ih => exact Shrinks.trans (applyAct_shrinks s nc a) (ih _)

theorem callback_shrinks (s : St) (i : Id) (nc : Option Id) : Shrinks s (callback s i nc).1 := by
  unfold callback
  exact Shrinks.trans (b := { s with calls := _ }) (Shrinks.frame rfl) (runActs_shrinks _ _ _)

theorem writeReady_shrinks (s : St) (i : Id) (o : Outcome) : Shrinks s (writeReady s i o).1 := by
  unfold writeReady
  dsimp only
  repeat' split
  all_goals (try dsimp only)
  all_goals first
    | exact Shrinks.frame rfl
    | exact Shrinks.trans (updRemove_shrinks s i _) (callback_shrinks _ _ _)
    | exact Shrinks.trans (updSet_shrinks s i _ _) (callback_shrinks _ _ _)
    | exact Shrinks.trans (pollSet_shrinks s i _) (callback_shrinks _ _ _)

/-- the hand-over of a new client registers a NEW socket; it cannot be in the batch (batch ⊆ registered) unless
    the id was registered before — in any case `Poll::set` never adds a batch entry -/
theorem handOver_shrinks (s : St) (i nc : Id) (u : Bool) :
    Shrinks s (finishHandOver (callback (newClient s nc u) i (some nc)).1 nc (callback (newClient s nc u) i (some nc)).2) := by
  have h1 : Shrinks s (newClient s nc u) := by
    unfold newClient
    exact Shrinks.trans (b := { s with clients := _, used := _, order := _, nextAuto := _ }) (Shrinks.frame rfl) (pollSet_shrinks _ _ _)
  have h3 : ∀ (s' : St) acts, Shrinks s' (finishHandOver s' nc acts) := by
    intro s' acts
    unfold finishHandOver
    repeat' split
    all_goals first | exact Shrinks.frame rfl | exact deleteClient_shrinks _ _
  exact Shrinks.trans h1 (Shrinks.trans (callback_shrinks _ _ _) (h3 _ _))

theorem dispatch_shrinks (s : St) (ev : Option (Id × Flags)) (o : Outcome) : Shrinks s (dispatch s ev o).1 := by
  unfold dispatch
  split
  · split <;> exact Shrinks.frame rfl
  · rename_i i fl
    split
    · split <;> exact Shrinks.frame rfl
    · split
      · repeat' split
        all_goals first | exact Shrinks.frame rfl | exact callback_shrinks _ _ _
      · split
        · exact writeReady_shrinks s i o
        · split
          · split
            · exact Shrinks.frame rfl
            · split
              · exact Shrinks.refl s
              · dsimp only
                exact Shrinks.trans (b := { s with listeners := _ }) (Shrinks.frame rfl) (handOver_shrinks _ _ _ _)
          · split
            · exact Shrinks.frame rfl
            · dsimp only
              split
              · exact Shrinks.trans (pollRemove_shrinks s i) (callback_shrinks _ _ _)
              · exact Shrinks.trans (pollRemove_shrinks s i)
                  (Shrinks.trans (b := { (pollRemove s i) with ests := _ }) (Shrinks.frame rfl) (handOver_shrinks _ _ _ _))

/-- timer and closing steps never add to the batch -/
theorem step_shrinks_outside_poll (s : St) (inp : PollIn) (o : Outcome) (h : ∀ now tmo, s.pc ≠ .poll now tmo) :
    Shrinks s (step s inp o).1 := by
  unfold step
  split
  · exact Shrinks.refl s
  · repeat' split
    all_goals first
      | exact Shrinks.frame rfl
      | exact Shrinks.trans (b := { s with queue := _, timers := _ }) (Shrinks.frame rfl) (callback_shrinks _ _ _)
  · dsimp only
    repeat' split
    all_goals first
      | exact Shrinks.frame rfl
      | exact Shrinks.trans (b := { s with closing := _ }) (Shrinks.frame rfl) (callback_shrinks _ _ _)
      | exact Shrinks.trans (b := { s with closing := _ }) (Shrinks.frame rfl) (deleteClient_shrinks _ _)
  · rename_i now tmo hpc; exact absurd hpc (h now tmo)

/-- a poll step with a non-empty batch hands out its oldest entry; what remains is (a pruned part of) the rest -/
theorem poll_step_drains (s : St) (inp : PollIn) (o : Outcome) (now tmo : Int) (e : Id × Flags) (r : List (Id × Flags))
    (hpc : s.pc = .poll now tmo) (hsel : s.selected = e :: r) :
    (step s inp o).1.selected.length ≤ r.length ∧
    ∀ j f', (j, f') ∈ (step s inp o).1.selected → ∃ f, (j, f) ∈ r ∧ f'.sub f := by
  have hp : pollStep s inp = ({ s with selected := r }, some e) := by unfold pollStep; rw [hsel]
  have hd := dispatch_shrinks { s with selected := r } (some e) o
  unfold step
  split
  · rename_i h; rw [hpc] at h; cases h
  · rename_i h; rw [hpc] at h; cases h
  · rename_i h; rw [hpc] at h; cases h
  · simp only [hp]
    split
    · exact hd
    · exact hd

end Nstd.Server.C14
