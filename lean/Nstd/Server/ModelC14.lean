import Nstd.Server.ModelC13
/-
  C14 — `Server::Private::run()` (src/Socket/Server.cpp 244-404) and the API it interleaves with
  (`time`, `remove(…)`, `interrupt`, `Client::suspend/resume/read/write`) as a small-step transition
  system, together with `Socket::Poll` (src/Socket/Socket.cpp 1131-1301: `sockets`,
  `selectedSockets`, `set` with pruning, `remove`, one event per `poll`).

  * One step = one iteration piece of `run()` containing at most ONE user callback:
    a timer pop (+ onActivated), a closing-list pop (+ onClosed), or one `poll` + dispatch.
  * User callbacks are scripts: `scripts id k` is the list of API calls the k-th callback
    invocation on object `id` performs (theorems quantify over all scripts).
  * Environment: the virtual clock, the kernel's answer to every `epoll_wait` (any list of
    (socket, native event mask) in any order, whether the event descriptor is reported, how much
    time passed), `send` outcomes, peers sending / closing / dialling.
  * `_queuedTimers` (MultiMap<int64, TimerImpl*>) is modelled at the level of its contract
    (C01, with the repaired lower-bound `find`): a key-sorted list, FIFO among equal keys.
  * The model mirrors the REPAIRED code (fixes/server: `_removed` flag of remove(client), D20;
    poll time-out recomputed after the closing loop).
  * `fault` is set when the real code would go through a null/dangling pointer (callback of a
    client without callback, event for an unknown socket …); `no_fault` is a theorem.
-/
namespace Nstd.Server.C14
open Nstd.Server.C13 (Outcome SendRes sendOS)

abbrev Id := Nat

structure Flags where
  r : Bool := false
  w : Bool := false
  a : Bool := false
  c : Bool := false
  deriving DecidableEq, Repr

namespace Flags
def isZero (x : Flags) : Bool := !(x.r || x.w || x.a || x.c)
/-- `x & ~y` -/
def minus (x y : Flags) : Flags := ⟨x.r && !y.r, x.w && !y.w, x.a && !y.a, x.c && !y.c⟩
def union (x y : Flags) : Flags := ⟨x.r || y.r, x.w || y.w, x.a || y.a, x.c || y.c⟩
/-- every flag of `x` is a flag of `y` -/
def sub (x y : Flags) : Prop := (x.r = true → y.r = true) ∧ (x.w = true → y.w = true) ∧
  (x.a = true → y.a = true) ∧ (x.c = true → y.c = true)
end Flags

/-- native epoll bits: EPOLLIN, EPOLLOUT, EPOLLHUP|EPOLLRDHUP -/
structure Native where
  inn : Bool := false
  out : Bool := false
  hup : Bool := false
  deriving DecidableEq, Repr

/-- `Poll::Private::unmapEvents(nativeEvents, events)` -/
def unmap (n : Native) (ev : Flags) : Flags :=
  let r1 : Flags := if n.inn || n.hup then { r := ev.r, a := ev.a } else {}
  let r2 : Flags := if n.out || (r1.isZero && n.hup) then { w := ev.w, c := ev.c } else {}
  r1.union r2

structure TimerS where
  exec : Int
  interval : Int
  deriving Repr

structure ClientS where
  hasCb : Bool              -- _callback != nullptr
  removed : Bool := false   -- _removed (repair of D20)
  suspended : Bool := false
  backlog : Nat := 0        -- _sendBuffer.size()
  inbox : Nat := 0          -- kernel: unread bytes from the peer
  peerClosed : Bool := false
  unix : Bool := true       -- kernel: socket pair (hang-up is reported without being requested)
  deriving Repr

structure ListenerS where
  pending : Nat := 0        -- kernel: established connections waiting in the accept queue
  deriving Repr

structure EstS where
  connected : Bool := true  -- kernel: the non-blocking connect has completed
  hasSocket : Bool := true  -- false after the socket was handed to the new client
  deriving Repr

inductive Act
  | mkTimer (id : Id) (interval : Int)
  | rmTimer (id : Id)
  | rmClient (id : Id)
  | rmListener (id : Id)
  | rmEst (id : Id)
  | rmNew                    -- inside onAccepted/onConnected: remove the client being handed over
  | retNull                  -- inside onAccepted/onConnected: return a null callback
  | interrupt
  | suspend (id : Id)
  | resume (id : Id)
  | read (id : Id)
  | write (id : Id) (n : Nat) (o : Outcome)
  | mkPair (id : Id)
  | mkListener (id : Id)
  | mkEst (id : Id)
  deriving Repr

inductive Ev
  | activated (t : Id) (now : Int) (due : Int)
  | onRead (c : Id)
  | onWrite (c : Id)
  | onClosed (c : Id)
  | onAccepted (l : Id) (c : Id)
  | onConnected (e : Id) (c : Id)
  | onAbolished (e : Id)
  | returned
  deriving Repr, DecidableEq

inductive Pc
  | idle                 -- not inside run()
  | timers (now : Int)   -- in the timer loop of an iteration that sampled `now`
  | closing (now : Int) (timeout : Int)  -- in the closing loop; `timeout` was computed when the timer loop ended
  | poll (now : Int) (timeout : Int)     -- about to call _sockets.poll(timeout)
  deriving Repr, DecidableEq

structure St where
  clock : Int := 1000
  queue : List (Int × Option Id) := [(0, none)]    -- _queuedTimers with the default timer
  timers : Id → Option TimerS := fun _ => none
  clients : Id → Option ClientS := fun _ => none
  listeners : Id → Option ListenerS := fun _ => none
  ests : Id → Option EstS := fun _ => none
  closing : List Id := []                          -- _closingClients
  sockets : List (Id × Flags) := []                -- Poll::sockets
  selected : List (Id × Flags) := []               -- Poll::selectedSockets
  interrupted : Bool := false
  eventfd : Nat := 0
  pendingEfd : Nat := 0                            -- interrupt() calls from other threads between their two writes
  pc : Pc := .idle
  nextAuto : Id := 1000                            -- ids of accepted / connected clients
  scripts : Id → Nat → List Act := fun _ _ => []
  calls : Id → Nat := fun _ => 0
  used : Id → Bool := fun _ => false               -- ghost: ids ever handed out
  gone : Id → Bool := fun _ => false               -- ghost: ids whose remove()/deletion has completed
  order : List Id := []                            -- ghost: creation order (for printing)
  fault : Bool := false

def init : St := {}

def upd {α} (f : Id → α) (i : Id) (v : α) : Id → α := fun j => if j = i then v else f j

/-! ### Poll -/

def lookup (l : List (Id × Flags)) (i : Id) : Option Flags :=
  match l with
  | [] => none
  | (j, f) :: r => if j = i then some f else lookup r i

def eraseId (l : List (Id × Flags)) (i : Id) : List (Id × Flags) := l.filter (fun p => p.1 ≠ i)

def setId (l : List (Id × Flags)) (i : Id) (f : Flags) : List (Id × Flags) :=
  l.map (fun p => if p.1 = i then (i, f) else p)

/-- `Poll::set(socket, events)` -/
def pollSet (s : St) (i : Id) (ev : Flags) : St :=
  match lookup s.sockets i with
  | some old =>
    if old = ev then s
    else
      let removed := old.minus ev
      let s1 := { s with sockets := setId s.sockets i ev }
      match lookup s.selected i with
      | some sel =>
        let sel' := sel.minus removed
        if sel'.isZero then { s1 with selected := eraseId s.selected i }
        else { s1 with selected := setId s.selected i sel' }
      | none => s1
  | none => { s with sockets := s.sockets ++ [(i, ev)] }

/-- `Poll::remove(socket)` -/
def pollRemove (s : St) (i : Id) : St :=
  match lookup s.sockets i with
  | none => s
  | some _ => { s with sockets := eraseId s.sockets i, selected := eraseId s.selected i }

/-! ### the timer queue (MultiMap contract) -/

/-- `MultiMap::insert(key, value)`: after every entry with a key ≤ `key` -/
def qInsert : List (Int × Option Id) → Int → Option Id → List (Int × Option Id)
  | [], k, v => [(k, v)]
  | (k', v') :: r, k, v => if k < k' then (k, v) :: (k', v') :: r else (k', v') :: qInsert r k v

/-- `remove(TimerImpl&)`: scan from the first entry with the timer's key over the entries with
    that key; erase the entry of the timer if it is met -/
def qEraseTimer : List (Int × Option Id) → Int → Id → List (Int × Option Id)
  | [], _, _ => []
  | (k, v) :: r, key, id =>
    if k < key then (k, v) :: qEraseTimer r key id
    else if k = key then (if v = some id then r else (k, v) :: qEraseTimer r key id)
    else (k, v) :: r

/-! ### API calls (usable at top level and inside callbacks) -/

def markGone (s : St) (i : Id) : St := { s with gone := upd s.gone i true }

def fresh (s : St) (i : Id) : Bool := !s.used i && i < 1000

/-- `Server::time(interval, cb)` (repaired, fixes/server/03: an interval below 1 ms is raised to 1 ms — with
    interval 0 the timer loop of run() never ended) -/
def mkTimer (s : St) (i : Id) (iv0 : Int) : St :=
  if fresh s i then
    let iv : Int := if iv0 < 1 then 1 else iv0
    let t : TimerS := { exec := s.clock + iv, interval := iv }
    { s with timers := upd s.timers i (some t), queue := qInsert s.queue t.exec (some i),
             used := upd s.used i true, order := s.order ++ [i] }
  else s

/-- `Server::remove(Timer&)` -/
def rmTimer (s : St) (i : Id) : St :=
  match s.timers i with
  | some t => markGone { s with queue := qEraseTimer s.queue t.exec i, timers := upd s.timers i none } i
  | none => s

/-- `Private::deleteClient` -/
def deleteClient (s : St) (i : Id) : St :=
  let s1 := { s with closing := s.closing.filter (· ≠ i) }
  let s2 := pollRemove s1 i
  markGone { s2 with clients := upd s2.clients i none } i

/-- `Server::remove(Client&)` (repaired) -/
def rmClient (s : St) (i : Id) : St :=
  match s.clients i with
  | some c =>
    if c.hasCb then deleteClient s i
    else
      { s with clients := upd s.clients i (some { c with removed := true }),
               closing := if s.closing.contains i then s.closing else s.closing ++ [i] }
  | none => s

def rmListener (s : St) (i : Id) : St :=
  match s.listeners i with
  | some _ => let s1 := pollRemove s i; markGone { s1 with listeners := upd s1.listeners i none } i
  | none => s

def rmEst (s : St) (i : Id) : St :=
  match s.ests i with
  | some _ => let s1 := pollRemove s i; markGone { s1 with ests := upd s1.ests i none } i
  | none => s

def interrupt (s : St) : St :=
  if s.interrupted then s else { s with interrupted := true, eventfd := s.eventfd + 1 }

def clientFlags (suspended : Bool) (backlog : Nat) : Flags := { r := !suspended, w := backlog != 0 }

def suspend (s : St) (i : Id) : St :=
  match s.clients i with
  | some c =>
    if c.suspended then s
    else pollSet { s with clients := upd s.clients i (some { c with suspended := true }) } i (clientFlags true c.backlog)
  | none => s

def resume (s : St) (i : Id) : St :=
  match s.clients i with
  | some c =>
    if !c.suspended then s
    else pollSet { s with clients := upd s.clients i (some { c with suspended := false }) } i (clientFlags false c.backlog)
  | none => s

def addClosing (s : St) (i : Id) : St :=
  { s with closing := if s.closing.contains i then s.closing else s.closing ++ [i] }

/-- `Client::read` with a buffer larger than anything queued -/
def read (s : St) (i : Id) : St :=
  match s.clients i with
  | some c =>
    if c.inbox != 0 then { s with clients := upd s.clients i (some { c with inbox := 0 }) }
    else if c.peerClosed then addClosing s i
    else s
  | none => s

/-- the kernel's answer to a send on client `c` given the scripted outcome -/
def sendOn (c : ClientS) (n : Nat) (o : Outcome) : SendRes :=
  match o with
  | .wb => .wouldblock
  | .err => .error
  | o => if c.peerClosed then .error else sendOS n o

/-- `Client::write(data, n)` -/
def write (s : St) (i : Id) (n : Nat) (o : Outcome) : St :=
  match s.clients i with
  | some c =>
    if c.backlog = 0 then
      match sendOn c n o with
      | .error => addClosing s i
      | .sent 0 => addClosing s i
      | .wouldblock =>
        if 0 ≥ n then s
        else pollSet { s with clients := upd s.clients i (some { c with backlog := n }) } i (clientFlags c.suspended n)
      | .sent (k + 1) =>
        if k + 1 ≥ n then s
        else pollSet { s with clients := upd s.clients i (some { c with backlog := n - (k + 1) }) } i
               (clientFlags c.suspended (n - (k + 1)))
    else { s with clients := upd s.clients i (some { c with backlog := c.backlog + n }) }
  | none => s

/-- `Server::pair` / `listen` / `connect` (usable at top level and inside callbacks) -/
def mkPair (s : St) (i : Id) : St :=
  if fresh s i then
    let s1 := { s with clients := upd s.clients i (some { hasCb := true }), used := upd s.used i true, order := s.order ++ [i] }
    pollSet s1 i { r := true }
  else s

def mkListener (s : St) (i : Id) : St :=
  if fresh s i then
    let s1 := { s with listeners := upd s.listeners i (some {}), used := upd s.used i true, order := s.order ++ [i] }
    pollSet s1 i { a := true }
  else s

def mkEst (s : St) (i : Id) : St :=
  if fresh s i then
    let s1 := { s with ests := upd s.ests i (some {}), used := upd s.used i true, order := s.order ++ [i] }
    pollSet s1 i { c := true }
  else s

/-- object `i` is in one of the four pools -/
def liveB (s : St) (i : Id) : Bool :=
  (s.timers i).isSome || (s.clients i).isSome || (s.listeners i).isSome || (s.ests i).isSome

/-- `Server::clear()` (Server.cpp 427-439) with `Poll::clear` (Socket.cpp 1249-1259): every pool, the timer queue, the closing
    set and both poll tables are emptied, the default timer is re-inserted, `_interrupted` is reset.  The event descriptor is
    NOT drained (Poll::clear keeps `eventFd` and only re-creates the epoll descriptor): after an un-consumed interrupt() the
    next epoll_wait reports it once more (spurious wake-up, `clear_stale_wakeup_is_harmless`).  Called outside run() only:
    inside onAccepted/onConnected the C++ would write `client._callback` into freed pool memory. -/
def clearAll (s : St) : St :=
  { s with queue := [(0, none)], timers := fun _ => none, clients := fun _ => none, listeners := fun _ => none,
           ests := fun _ => none, closing := [], sockets := [], selected := [], interrupted := false,
           gone := fun i => s.gone i || liveB s i }

/-- one API call; `newc` = the client being handed to the running onAccepted/onConnected -/
def applyAct (s : St) (newc : Option Id) : Act → St
  | .mkTimer i iv => mkTimer s i iv
  | .rmTimer i => rmTimer s i
  | .rmClient i => rmClient s i
  | .rmListener i => rmListener s i
  | .rmEst i => rmEst s i
  | .rmNew => match newc with | some i => rmClient s i | none => s
  | .retNull => s
  | .interrupt => interrupt s
  | .suspend i => suspend s i
  | .resume i => resume s i
  | .read i => read s i
  | .write i n o => write s i n o
  | .mkPair i => mkPair s i
  | .mkListener i => mkListener s i
  | .mkEst i => mkEst s i

def runActs (s : St) (newc : Option Id) : List Act → St
  | [] => s
  | a :: as => runActs (applyAct s newc a) newc as

def isRetNull : Act → Bool
  | .retNull => true
  | _ => false

/-- invoke the next callback script of object `i` -/
def callback (s : St) (i : Id) (newc : Option Id) : St × List Act :=
  let acts := s.scripts i (s.calls i)
  (runActs { s with calls := upd s.calls i (s.calls i + 1) } newc acts, acts)

/-! ### run() -/

/-- the kernel's answer to one `epoll_wait` -/
structure PollIn where
  events : List (Id × Native) := []
  eventfd : Bool := false        -- the event descriptor is reported readable
  dt : Int := 0                  -- virtual time that passed inside the call

def appendSelected (s : St) : List (Id × Native) → List (Id × Flags) → List (Id × Flags)
  | [], acc => acc
  | (i, n) :: r, acc =>
    match lookup s.sockets i with
    | some ev => if (lookup acc i).isSome then appendSelected s r acc else appendSelected s r (acc ++ [(i, unmap n ev)])
    | none => appendSelected s r acc     -- the kernel only reports registered descriptors

/-- write-ready branch -/
def writeReady (s : St) (i : Id) (o : Outcome) : St × List Ev :=
  match s.clients i with
  | none => ({ s with fault := true }, [])
  | some c =>
    if !c.hasCb then ({ s with fault := true }, []) else
    if c.backlog != 0 then
      match sendOn c c.backlog o with
      | .wouldblock => (s, [])
      | .error =>
        let s1 := pollRemove { s with clients := upd s.clients i (some { c with backlog := 0 }) } i
        ((callback s1 i none).1, [.onClosed i])
      | .sent 0 =>
        let s1 := pollRemove { s with clients := upd s.clients i (some { c with backlog := 0 }) } i
        ((callback s1 i none).1, [.onClosed i])
      | .sent (k + 1) =>
        let b := c.backlog - (k + 1)
        let s1 := { s with clients := upd s.clients i (some { c with backlog := b }) }
        if b = 0 then
          let s2 := pollSet s1 i (clientFlags c.suspended 0)
          ((callback s2 i none).1, [.onWrite i])
        else (s1, [])
    else
      let s2 := pollSet s i (clientFlags c.suspended 0)
      ((callback s2 i none).1, [.onWrite i])

/-- after onAccepted / onConnected returned -/
def finishHandOver (s : St) (nc : Id) (acts : List Act) : St :=
  match s.clients nc with
  | none => { s with fault := true }
  | some c =>
    if acts.any isRetNull || c.removed then deleteClient s nc
    else { s with clients := upd s.clients nc (some { c with hasCb := true }) }

def newClient (s : St) (nc : Id) (unix : Bool) : St :=
  let s1 := { s with clients := upd s.clients nc (some { hasCb := false, unix := unix }),
                     used := upd s.used nc true, order := s.order ++ [nc], nextAuto := nc + 1 }
  pollSet s1 nc { r := true }

/-- dispatch of one poll event (Server.cpp 277-402) -/
def dispatch (s : St) (ev : Option (Id × Flags)) (o : Outcome) : St × List Ev :=
  match ev with
  | none => -- flags == 0: time-out or interrupt
    if s.interrupted then ({ s with interrupted := false, pc := .idle }, [.returned]) else (s, [])
  | some (i, fl) =>
    if fl.isZero then
      if s.interrupted then ({ s with interrupted := false, pc := .idle }, [.returned]) else (s, [])
    else if fl.r then
      match s.clients i with
      | some c => if c.hasCb then ((callback s i none).1, [.onRead i]) else ({ s with fault := true }, [])
      | none => ({ s with fault := true }, [])
    else if fl.w then writeReady s i o
    else if fl.a then
      match s.listeners i with
      | none => ({ s with fault := true }, [])
      | some l =>
        if l.pending = 0 then (s, [])
        else
          let nc := s.nextAuto
          let s1 := { s with listeners := upd s.listeners i (some { l with pending := l.pending - 1 }) }
          let s2 := newClient s1 nc false
          let (s3, acts) := callback s2 i (some nc)
          (finishHandOver s3 nc acts, [.onAccepted i nc])
    else -- connect
      match s.ests i with
      | none => ({ s with fault := true }, [])
      | some e =>
        let s0 := pollRemove s i
        if !e.connected then ((callback s0 i none).1, [.onAbolished i])
        else
          let nc := s.nextAuto
          let s1 := { s0 with ests := upd s0.ests i (some { e with hasSocket := false }) }
          let s2 := newClient s1 nc false
          let (s3, acts) := callback s2 i (some nc)
          (finishHandOver s3 nc acts, [.onConnected i nc])

/-- `Poll::poll`: returns the event and the new state (`none` = flags 0, socket 0) -/
def pollStep (s : St) (inp : PollIn) : St × Option (Id × Flags) :=
  match s.selected with
  | [] =>
    let sel := appendSelected s inp.events []
    let intr := inp.eventfd && s.eventfd != 0
    let s1 := { s with clock := s.clock + inp.dt }
    if sel.isEmpty || intr then
      ({ s1 with selected := sel, eventfd := if intr then 0 else s.eventfd }, none)
    else
      match sel with
      | [] => (s1, none)
      | e :: r => ({ s1 with selected := r }, some e)
  | e :: r => ({ s with selected := r }, some e)

/-- one step of run(); `inp`/`o` are consumed only by a poll step -/
def step (s : St) (inp : PollIn) (o : Outcome) : St × List Ev :=
  match s.pc with
  | .idle => (s, [])
  | .timers now =>
    match s.queue with
    | [] => ({ s with fault := true }, [])      -- the default timer is always queued
    | (k, v) :: rest =>
      if k - now ≤ 0 then
        match v with
        | some t =>
          match s.timers t with
          | some ti =>
            let ti' := { ti with exec := ti.exec + ti.interval }
            let s1 := { s with queue := qInsert rest ti'.exec (some t), timers := upd s.timers t (some ti') }
            ((callback s1 t none).1, [.activated t now k])
          | none => ({ s with queue := rest, fault := true }, [])
        | none => ({ s with queue := qInsert rest (now + 300000) none }, [])
      else ({ s with pc := .closing now (k - now) }, [])
  | .closing now _ =>
    match s.closing with
    | [] =>
      -- (repaired) the time-out is recomputed: onClosed callbacks may have created / removed timers
      match s.queue with
      | [] => ({ s with fault := true }, [])
      | (k, _) :: _ => ({ s with pc := .poll now (if k - now < 0 then 0 else k - now) }, [])
    | c :: rest =>
      let s1 := { s with closing := rest }
      match s.clients c with
      | some cl =>
        if cl.hasCb && !cl.removed then ((callback s1 c none).1, [.onClosed c])
        else (deleteClient s1 c, [])
      | none => ({ s1 with fault := true }, [])
  | .poll _ _ =>
    let (s1, ev) := pollStep s inp
    let (s2, evs) := dispatch s1 ev o
    if s2.pc = .idle then (s2, evs) else ({ s2 with pc := .timers s2.clock }, evs)

/-- `Server::run()` is entered -/
def enterRun (s : St) : St := if s.pc = .idle then { s with pc := .timers s.clock } else s

/-! ### environment actions outside epoll_wait -/

inductive EnvOp
  | peerSend (c : Id) (n : Nat)
  | peerClose (c : Id)
  | dial (l : Id)
  | advance (dt : Int)
  | connFail (e : Id)      -- the pending connect of establisher `e` fails (SO_ERROR will report it)
  deriving Repr

def envStep (s : St) : EnvOp → St
  | .peerSend i n =>
    match s.clients i with
    | some c => if c.peerClosed then s else { s with clients := upd s.clients i (some { c with inbox := c.inbox + n }) }
    | none => s
  | .peerClose i =>
    match s.clients i with
    | some c =>
      -- only socket-pair peers close in the correspondence runs (a TCP peer's FIN/RST timing is not modelled)
      if c.unix then { s with clients := upd s.clients i (some { c with peerClosed := true }) } else s
    | none => s
  | .dial i =>
    match s.listeners i with
    | some l => { s with listeners := upd s.listeners i (some { l with pending := l.pending + 1 }) }
    | none => s
  | .advance dt => { s with clock := s.clock + dt }
  | .connFail i =>
    match s.ests i with
    | some e => { s with ests := upd s.ests i (some { e with connected := false }) }
    | none => s

def setScript (s : St) (i : Id) (k : Nat) (acts : List Act) : St :=
  { s with scripts := fun j n => if j = i ∧ n = k then acts else s.scripts j n }

/-- what the kernel would report for socket `i` (used by the driver to turn a schedule entry into
    a `PollIn`; the theorems quantify over arbitrary `PollIn`) -/
def nativeOf (s : St) (i : Id) : Native :=
  match lookup s.sockets i with
  | none => {}
  | some reg =>
    let wantIn := reg.r || reg.a
    let wantOut := reg.w || reg.c
    match s.clients i, s.listeners i, s.ests i with
    | some c, _, _ =>
      { inn := wantIn && (c.inbox != 0 || c.peerClosed), out := wantOut,
        hup := c.peerClosed && (c.unix || wantIn || wantOut) }
    | none, some l, _ => { inn := wantIn && l.pending != 0 }
    | none, none, some _ => { out := wantOut }
    | none, none, none => {}

end Nstd.Server.C14
