import Nstd.Generated.ServerTrHand
import Nstd.Server.TrC14
/-
  Tie by translation (C14): the accept branch and the connect branch of the dispatch chain of `Server::Private::run`,
  translated from the CURRENT Server.cpp (Nstd/Generated/ServerTrHand.lean; the `||` chain of accept / setNonBlocking /
  socket options with short-circuit evaluation, the hand-over assignment `client._callback = …->onAccepted/onConnected(…)`),
  are the accept / connect cases of the model's `dispatch` — for every model state and every setting of the four socket
  options (in the model an option that is applied succeeds; a failing option is the separate transition `connFail` / not
  modelled after accept).  Hypothesis `hex`: the client just created still exists when the callback returns or was removed
  through `remove(client)` — `InvS.ncLive` in every reachable state (the model faults otherwise, `no_fault`).
-/
set_option linter.unusedSimpArgs false
set_option maxRecDepth 4000
namespace Nstd.Server.Tr
open Nstd.Server.C14
open Nstd.Server.C13 (Outcome)
open Nstd.Generated

theorem deleteClient_upd (s : St) (i : Id) (x : Option ClientS) :
    deleteClient { s with clients := upd s.clients i x } i = deleteClient s i := by
  unfold deleteClient pollRemove
  dsimp only
  cases h : lookup s.sockets i <;> simp [markGone, upd_upd]

/-- the end of both branches: the hand-over callback, then `if (!client._callback || client._removed) deleteClient(client)` -/
theorem ph_tail (i : Id) (b : Bool) (m : MHand) (hx : ((callback m.st i (some m.nc)).1.clients m.nc).isSome) :
    (if (!(PHand i b).hasCallback ((PHand i b).handOver m) || (PHand i b).removedFlag ((PHand i b).handOver m)) = true
      then (PHand i b).deleteClient ((PHand i b).handOver m) else (PHand i b).handOver m).st =
    finishHandOver (callback m.st i (some m.nc)).1 m.nc (callback m.st i (some m.nc)).2 := by
  simp only [PHand, finishHandOver]
  generalize callback m.st i (some m.nc) = R at hx ⊢
  obtain ⟨s3, acts⟩ := R
  simp only at hx ⊢
  cases hc : s3.clients m.nc with
  | none => simp [hc] at hx
  | some c =>
    cases hn : acts.any isRetNull <;> cases hr : c.removed <;>
      simp [hc, hn, hr, upd_at, upd_upd, deleteClient_upd]
/-- accept branch: a failing `accept` changes nothing; otherwise one connection leaves the queue, the new client is registered
    for reading BEFORE onAccepted runs and is deleted right after it when the callback returned null or removed it -/
theorem tr_acceptBranch_eq (s : St) (i : Id) (l : ListenerS) (kA nD : Bool) (sB rB : Int) (o : Outcome)
    (hl : s.listeners i = some l)
    (hex : l.pending ≠ 0 → ((callback (newClient { s with listeners := upd s.listeners i (some { l with pending := l.pending - 1 }) }
        s.nextAuto false) i (some s.nextAuto)).1.clients s.nextAuto).isSome) :
    (ServerTrHand.acceptBranch (PHand i true) ⟨s, s.nextAuto, kA, nD, sB, rB⟩).st = (dispatch s (some (i, { a := true })) o).1 := by
  unfold ServerTrHand.acceptBranch dispatch
  by_cases hp : l.pending = 0
  · simp [PHand, hl, hp, Flags.isZero]
  · have hacc : (PHand i true).accept ⟨s, s.nextAuto, kA, nD, sB, rB⟩ =
        (⟨{ s with listeners := upd s.listeners i (some { l with pending := l.pending - 1 }) }, s.nextAuto, kA, nD, sB, rB⟩, true) := by
      simp [PHand, hl, hp]
    have hopt : ∀ m k, (PHand i true).setOption m k = (m, true) := fun _ _ => rfl
    have hnb : ∀ m, (PHand i true).setNonBlocking m = (m, true) := fun _ => rfl
    simp only [hacc, hopt, hnb, if_true, ite_self]
    rw [ph_tail]
    · simp [PHand, hl, hp, Flags.isZero, newClient]
    · simpa [PHand, newClient] using hex hp

theorem pollRemove_ests (s : St) (i : Id) : (pollRemove s i).ests = s.ests := by
  unfold pollRemove; split <;> rfl

theorem pollRemove_nextAuto (s : St) (i : Id) : (pollRemove s i).nextAuto = s.nextAuto := by
  unfold pollRemove; split <;> rfl

/-- connect branch: Poll::remove first; SO_ERROR ≠ 0 → onAbolished, nothing else; otherwise the establisher's socket moves to a
    new client registered for reading BEFORE onConnected runs, deleted right after it on null / remove -/
theorem tr_connectBranch_eq (s : St) (i : Id) (e : EstS) (kA nD : Bool) (sB rB : Int) (o : Outcome)
    (he : s.ests i = some e)
    (hex : e.connected = true → ((callback (newClient { (pollRemove s i) with ests := upd (pollRemove s i).ests i (some { e with hasSocket := false }) }
        s.nextAuto false) i (some s.nextAuto)).1.clients s.nextAuto).isSome) :
    (ServerTrHand.connectBranch (PHand i false) ⟨s, s.nextAuto, kA, nD, sB, rB⟩).st = (dispatch s (some (i, { c := true })) o).1 := by
  unfold ServerTrHand.connectBranch dispatch
  have hests := pollRemove_ests s i
  cases hcn : e.connected
  · simp [PHand, he, hests, hcn, Flags.isZero]
  · have hso : (PHand i false).soError ((PHand i false).pollRemoveEst ⟨s, s.nextAuto, kA, nD, sB, rB⟩) = 0 := by
      simp [PHand, he, hests, hcn]
    have hopt : ∀ m k, (PHand i false).setOption m k = (m, true) := fun _ _ => rfl
    simp only [hso, hopt, if_true, ite_self, ne_eq, not_true_eq_false, decide_false, decide_true, Bool.false_eq_true, if_false]
    rw [ph_tail]
    · simp [PHand, he, hests, hcn, Flags.isZero, newClient]
    · simpa [PHand, newClient, he, hests] using hex hcn

end Nstd.Server.Tr
