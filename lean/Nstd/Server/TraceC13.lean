import Nstd.Server.LemmasC13
/-
  The observable history of a C13 run (what the harness prints): data of the writes that returned
  true, data returned by the peer's reads, counts returned by the intercepted sends — and the lemmas
  that tie the model's ghost fields to them, plus the per-step facts used by PropsC13.
-/
namespace Nstd.Server.C13

/-- data of the op if it is a write that returned true -/
def trueData (op : Op) (out : Out) : List Nat :=
  match op, out.res with
  | .write d _, .wrote true _ => d
  | _, _ => []

def gotData (out : Out) : List Nat :=
  match out.res with
  | .got d => d
  | _ => []

def sentOf : List (Nat × SendRes) → Nat
  | [] => 0
  | (_, .sent k) :: r => k + sentOf r
  | (_, .wouldblock) :: r => sentOf r
  | (_, .error) :: r => sentOf r

def writesTrue (s : St) : List Op → List Nat
  | [] => []
  | op :: ops => trueData op (stepT s op).2 ++ writesTrue (stepT s op).1 ops

def peerGot (s : St) : List Op → List Nat
  | [] => []
  | op :: ops => gotData (stepT s op).2 ++ peerGot (stepT s op).1 ops

def sentCount (s : St) : List Op → Nat
  | [] => 0
  | op :: ops => sentOf (stepT s op).2.sends + sentCount (stepT s op).1 ops

theorem sendOS_le (n : Nat) (o : Outcome) (k : Nat) (h : sendOS n o = .sent k) : k ≤ n := by
  cases o <;> simp [sendOS] at h
  case cnt c => omega
  case half => by_cases hn : n ≤ 1 <;> simp [hn] at h <;> omega
  case all => omega

/-! ### write -/

theorem write_facts (s : St) (d : List Nat) (o : Outcome) :
    (write s d o).1.accepted = s.accepted ++ trueData (.write d o) (write s d o).2 ∧
    (write s d o).1.received = s.received ∧
    (write s d o).1.handed.length = s.handed.length + sentOf (write s d o).2.sends ∧
    (write s d o).1.suspended = s.suspended ∧
    Cb.onWrite ∉ (write s d o).2.cbs ∧ Cb.onRead ∉ (write s d o).2.cbs ∧
    (s.backlog ≠ [] → (write s d o).1.backlog ≠ []) ∧
    (∃ r p, (write s d o).2.res = .wrote r p) := by
  unfold write
  by_cases he : s.backlog.isEmpty = true
  · simp only [he, if_true]
    cases hr : sendOS d.length o with
    | error => simp [trueData, sentOf, isEmpty_eq_true he]
    | wouldblock =>
      by_cases hz : 0 ≥ d.length
      · simp [hz, trueData, sentOf, isEmpty_eq_true he]
      · simp [hz, trueData, sentOf, setInterest, isEmpty_eq_true he]
    | sent k =>
      have hk := sendOS_le _ _ _ hr
      cases k with
      | zero => simp [trueData, sentOf, isEmpty_eq_true he]
      | succ k =>
        by_cases hz : k + 1 ≥ d.length
        · simp [hz, trueData, sentOf, hand, isEmpty_eq_true he]; omega
        · simp [hz, trueData, sentOf, hand, setInterest, isEmpty_eq_true he]; omega
  · have he' : s.backlog.isEmpty = false := by simpa using he
    simp [he', trueData, sentOf]
    intro h1 h2; exact absurd h2 h1

theorem write_res (s : St) (d : List Nat) (o : Outcome) :
    (∀ p, (write s d o).2.res = .wrote true p → p = (write s d o).1.backlog.length) ∧
    (∀ p, (write s d o).2.res = .wrote false p → p = 0) := by
  unfold write
  by_cases he : s.backlog.isEmpty = true
  · simp only [he, if_true]
    cases hr : sendOS d.length o with
    | error => simp
    | wouldblock =>
      by_cases hz : 0 ≥ d.length
      · simp only [hz, if_true]; simp [isEmpty_eq_true he]
      · simp only [hz, if_false]; simp [setInterest]
    | sent k =>
      cases k with
      | zero => simp
      | succ k =>
        by_cases hz : k + 1 ≥ d.length
        · simp only [hz, if_true]; simp [hand, isEmpty_eq_true he]
        · simp only [hz, if_false]; simp [setInterest, hand]
  · have he' : s.backlog.isEmpty = false := by simpa using he
    simp only [he', Bool.false_eq_true, if_false]; simp

theorem write_postponed (s : St) (d : List Nat) (o : Outcome) (s' : St) (out : Out) (hi : Inv s)
    (hst : step s (.write d o) = some (s', out)) (ret : Bool) (p : Nat) (hres : out.res = .wrote ret p) :
    (ret = true → p = s'.backlog.length ∧ p + s'.handed.length = s'.accepted.length) ∧
    (ret = false → p = 0) := by
  by_cases hd : s.dead = true
  · simp [step, hd] at hst
    obtain ⟨_, rfl⟩ := hst
    simp at hres
  · have hd : s.dead = false := by simpa using hd
    simp only [step, hd, Bool.false_eq_true, if_false, Option.some.injEq] at hst
    have hinv := (write_inv s d o hd hi)
    rw [hst] at hinv
    have hstream := hinv.1.stream hinv.2
    have hlen : s'.handed.length + s'.backlog.length = s'.accepted.length := by
      rw [← hstream]; simp
    have hr := write_res s d o
    rw [hst] at hr
    simp only at hr
    refine ⟨fun h => ?_, fun h => ?_⟩
    · subst h
      have := hr.1 p hres
      exact ⟨this, by omega⟩
    · subst h
      exact hr.2 p hres

/-! ### write-ready / ready -/

theorem writeReady_facts (s : St) (o : Outcome) (hb : s.backlog ≠ []) (hd : s.dead = false) :
    (writeReady s o).1.accepted = s.accepted ∧
    (writeReady s o).1.received = s.received ∧
    (writeReady s o).1.handed.length = s.handed.length + sentOf (writeReady s o).2.sends ∧
    (writeReady s o).2.res = .ok ∧
    Cb.onRead ∉ (writeReady s o).2.cbs ∧
    (Cb.onWrite ∈ (writeReady s o).2.cbs ↔ ((writeReady s o).1.backlog = [] ∧ (writeReady s o).1.dead = false)) ∧
    (writeReady s o).2.cbs.count Cb.onWrite ≤ 1 := by
  unfold writeReady
  have he : s.backlog.isEmpty = false := by cases h : s.backlog <;> simp_all
  simp only [he, Bool.not_false, if_true]
  cases hr : sendOS s.backlog.length o with
  | wouldblock => simp [sentOf, hb]
  | error => simp [sentOf, closeAndRemove]
  | sent k =>
    have hk := sendOS_le _ _ _ hr
    cases k with
    | zero => by_cases hd : s.dead = true <;> simp [sentOf, closeAndRemove, hd]
    | succ k =>
      by_cases hz : (s.backlog.drop (k + 1)).isEmpty = true
      · simp only [hz, if_true]
        have := isEmpty_eq_true hz
        simp [sentOf, hand, setInterest, this, hd] ; omega
      · have hz' : (s.backlog.drop (k + 1)).isEmpty = false := by simpa using hz
        simp only [hz', Bool.false_eq_true, if_false]
        have := isEmpty_eq_false hz'
        simp [sentOf, hand, this]; omega

theorem ready_facts (s : St) (r w : Bool) (o : Outcome) (hi : Inv s) (hd : s.dead = false) :
    (ready s r w o).1.accepted = s.accepted ∧
    (ready s r w o).1.received = s.received ∧
    (ready s r w o).1.handed.length = s.handed.length + sentOf (ready s r w o).2.sends ∧
    (ready s r w o).2.res = .ok ∧
    (Cb.onRead ∈ (ready s r w o).2.cbs → s.suspended = false) ∧
    (Cb.onWrite ∈ (ready s r w o).2.cbs ↔
      (s.backlog ≠ [] ∧ (ready s r w o).1.backlog = [] ∧ (ready s r w o).1.dead = false)) ∧
    (ready s r w o).2.cbs.count Cb.onWrite ≤ 1 := by
  have hint := hi.interest hd
  unfold ready
  by_cases hc : s.closing = true
  · simp [hc, closeAndRemove, sentOf]
  · simp only [hc, Bool.false_eq_true, if_false, hint]
    by_cases h1 : ((!s.suspended) && r && !s.inbox.isEmpty) = true
    · simp only [h1, if_true]
      have : s.suspended = false := by
        cases hs : s.suspended <;> simp [hs] at h1 ⊢
      simp [sentOf, this]
      intro hb hb'; exact absurd hb' hb
    · simp only [h1, Bool.false_eq_true, if_false]
      by_cases h2 : ((!s.backlog.isEmpty) && w) = true
      · simp only [h2, if_true]
        have hb : s.backlog ≠ [] := by
          intro h; simp [h] at h2
        obtain ⟨a, b, c, d, e, f, h⟩ := writeReady_facts s o hb hd
        refine ⟨a, b, c, d, ?_, ?_, h⟩
        · intro hx; exact absurd hx e
        · rw [f]
          constructor
          · rintro ⟨x, y⟩; exact ⟨hb, x, y⟩
          · rintro ⟨_, x, y⟩; exact ⟨x, y⟩
      · simp only [h2, Bool.false_eq_true, if_false]
        simp [sentOf]
        intro hb hb'; exact absurd hb' hb

theorem ready_drains (s : St) (hi : Inv s) (h : s.dead = false) (hc : s.closing = false) (hb : s.backlog ≠ []) :
    ∃ s' out, step s (.ready false true .all) = some (s', out) ∧ s'.backlog = [] ∧
      out.cbs = [Cb.onWrite] ∧ s'.handed = s.handed ++ s.backlog := by
  have hint := hi.interest h
  have he : s.backlog.isEmpty = false := by cases hx : s.backlog <;> simp_all
  simp only [step, h, Bool.false_eq_true, if_false]
  refine ⟨(ready s false true .all).1, (ready s false true .all).2, rfl, ?_⟩
  cases hbl : s.backlog with
  | nil => exact absurd hbl hb
  | cons a t =>
    simp [ready, hc, hint, he, writeReady, sendOS, hbl, hand, setInterest]

/-! ### whole steps -/

theorem stepT_trace (s : St) (op : Op) (hi : Inv s) :
    (stepT s op).1.accepted = s.accepted ++ trueData op (stepT s op).2 ∧
    (stepT s op).1.received = s.received ++ gotData (stepT s op).2 ∧
    (stepT s op).1.handed.length = s.handed.length + sentOf (stepT s op).2.sends := by
  unfold stepT
  by_cases hd : s.dead = true
  · cases op <;> simp [step, hd, gotData, trueData, sentOf]
    case peersend d => cases d <;> simp [sentOf]
    case read m => by_cases he : m = 0 <;> simp [he, sentOf]
  · have hd : s.dead = false := by simpa using hd
    cases op <;> simp only [step, hd, Bool.false_eq_true, if_false]
    case peerread => simp [gotData, trueData, sentOf]
    case peersend d => by_cases he : d.isEmpty = true <;> simp [he, gotData, trueData, sentOf]
    case read m =>
      by_cases he : m = 0 <;> simp [he, gotData, trueData, sentOf]
      unfold read; by_cases hx : s.inbox.isEmpty = true <;> simp [hx, sentOf]
    case suspend =>
      simp [gotData, trueData, sentOf]
      unfold suspend; by_cases hx : s.suspended = true <;> simp [hx, setInterest]
    case resume =>
      simp [gotData, trueData, sentOf]
      unfold resume; by_cases hx : s.suspended = true <;> simp [hx, setInterest]
    case write d o =>
      obtain ⟨a, b, c, _, _, _, _, r, p, hres⟩ := write_facts s d o
      refine ⟨a, ?_, c⟩
      simp [b, gotData, hres]
    case ready r w o =>
      obtain ⟨a, b, c, d, _⟩ := ready_facts s r w o hi hd
      refine ⟨?_, ?_, c⟩
      · simp [a, trueData]
      · simp [b, gotData, d]

theorem runOps_accepted (s : St) (ops : List Op) (hi : Inv s) :
    (runOps s ops).accepted = s.accepted ++ writesTrue s ops := by
  induction ops generalizing s with
  | nil => simp [runOps, writesTrue]
  | cons op ops ih =>
    simp only [runOps, writesTrue]
    rw [ih _ (stepT_inv s op hi), (stepT_trace s op hi).1, List.append_assoc]

theorem runOps_received (s : St) (ops : List Op) (hi : Inv s) :
    (runOps s ops).received = s.received ++ peerGot s ops := by
  induction ops generalizing s with
  | nil => simp [runOps, peerGot]
  | cons op ops ih =>
    simp only [runOps, peerGot]
    rw [ih _ (stepT_inv s op hi), (stepT_trace s op hi).2.1, List.append_assoc]

theorem runOps_handed (s : St) (ops : List Op) (hi : Inv s) :
    (runOps s ops).handed.length = s.handed.length + sentCount s ops := by
  induction ops generalizing s with
  | nil => simp [runOps, sentCount]
  | cons op ops ih =>
    simp only [runOps, sentCount]
    rw [ih _ (stepT_inv s op hi), (stepT_trace s op hi).2.2]; omega

/-- onWrite is delivered by a step exactly when the step drains the backlog of a live client -/
theorem step_onWrite (s : St) (op : Op) (s' : St) (out : Out) (hi : Inv s) (hd : s.dead = false)
    (hst : step s op = some (s', out)) :
    (Cb.onWrite ∈ out.cbs ↔ (s.backlog ≠ [] ∧ s'.backlog = [] ∧ s'.dead = false)) ∧
    out.cbs.count Cb.onWrite ≤ 1 := by
  cases op <;> simp only [step, hd, Bool.false_eq_true, if_false] at hst
  case peerread =>
    injection hst with hst; injection hst with h1 h2; subst h1; subst h2
    simp <;> (try (intro hb hb'; exact absurd hb' hb))
  case peersend d =>
    by_cases he : d.isEmpty = true <;> simp [he] at hst
    obtain ⟨rfl, rfl⟩ := hst
    simp <;> (try (intro hb hb'; exact absurd hb' hb))
  case read m =>
    by_cases he : m = 0 <;> simp [he] at hst
    unfold read at hst
    by_cases hx : s.inbox.isEmpty = true <;> simp [hx] at hst <;> obtain ⟨rfl, rfl⟩ := hst <;> simp <;>
      (try (intro hb hb'; exact absurd hb' hb))
  case suspend =>
    injection hst with hst; injection hst with h1 h2; subst h1; subst h2
    have : (suspend s).backlog = s.backlog := by
      unfold suspend; by_cases hx : s.suspended = true <;> simp [hx, setInterest]
    simp [this] <;> (try (intro hb hb'; exact absurd hb' hb))
  case resume =>
    injection hst with hst; injection hst with h1 h2; subst h1; subst h2
    have : (resume s).backlog = s.backlog := by
      unfold resume; by_cases hx : s.suspended = true <;> simp [hx, setInterest]
    simp [this] <;> (try (intro hb hb'; exact absurd hb' hb))
  case write d o =>
    injection hst with hst
    obtain ⟨_, _, _, _, nw, _, keep, _⟩ := write_facts s d o
    rw [hst] at nw keep
    simp only at nw keep
    refine ⟨⟨fun h => absurd h nw, ?_⟩, ?_⟩
    · rintro ⟨hb, hb', _⟩; exact absurd hb' (keep hb)
    · rw [List.count_eq_zero_of_not_mem nw]; omega
  case ready r w o =>
    injection hst with hst
    obtain ⟨_, _, _, _, _, f, g⟩ := ready_facts s r w o hi hd
    rw [hst] at f g
    exact ⟨f, g⟩

/-- a step from a state with a suspended client never delivers onRead -/
theorem step_no_read (s : St) (op : Op) (s' : St) (out : Out) (hi : Inv s) (hs : s.suspended = true)
    (hst : step s op = some (s', out)) : Cb.onRead ∉ out.cbs := by
  by_cases hd : s.dead = true
  · cases op <;> simp only [step, hd, if_true] at hst
    case peersend d => by_cases he : d.isEmpty = true <;> simp [he] at hst; obtain ⟨_, rfl⟩ := hst; simp
    case read m => by_cases he : m = 0 <;> simp [he] at hst; obtain ⟨_, rfl⟩ := hst; simp
    all_goals (injection hst with hst; injection hst with h1 h2; subst h2; simp)
  · have hd : s.dead = false := by simpa using hd
    cases op <;> simp only [step, hd, Bool.false_eq_true, if_false] at hst
    case peerread => injection hst with hst; injection hst with h1 h2; subst h2; simp
    case peersend d => by_cases he : d.isEmpty = true <;> simp [he] at hst; obtain ⟨_, rfl⟩ := hst; simp
    case read m =>
      by_cases he : m = 0 <;> simp [he] at hst
      unfold read at hst
      by_cases hx : s.inbox.isEmpty = true <;> simp [hx] at hst <;> obtain ⟨_, rfl⟩ := hst <;> simp
    case suspend => injection hst with hst; injection hst with h1 h2; subst h2; simp
    case resume => injection hst with hst; injection hst with h1 h2; subst h2; simp
    case write d o =>
      injection hst with hst
      have := (write_facts s d o).2.2.2.2.2.1
      rw [hst] at this; exact this
    case ready r w o =>
      injection hst with hst
      have := (ready_facts s r w o hi hd).2.2.2.2.1
      rw [hst] at this
      intro hx; have := this hx; simp [hs] at this

end Nstd.Server.C13
