import Nstd.Server.LemmasC14S3
/-
  C14 — histories (`Move`s), the combined invariant along every history, and the frame relation
  `Rel` (program counter, `gone` monotone, interrupt flag / event descriptor) for everything that
  can run inside a callback.
-/
namespace Nstd.Server.C14
open Nstd.Server.C13 (Outcome SendRes sendOS)

/-- what API calls and callback scripts may do to pc / gone / interrupt state -/
def Rel (s s' : St) : Prop :=
  s'.pc = s.pc ∧ (∀ i, s.gone i = true → s'.gone i = true) ∧
  ((s.interrupted = true → 0 < s.eventfd + s.pendingEfd) → (s'.interrupted = true → 0 < s'.eventfd + s'.pendingEfd)) ∧
  (s.interrupted = true → s'.interrupted = true)

theorem Rel.refl (s : St) : Rel s s := ⟨rfl, fun _ h => h, fun h => h, fun h => h⟩

theorem Rel.trans {a b c : St} (h1 : Rel a b) (h2 : Rel b c) : Rel a c :=
  ⟨h2.1.trans h1.1, fun i h => h2.2.1 i (h1.2.1 i h), fun h => h2.2.2.1 (h1.2.2.1 h), fun h => h2.2.2.2 (h1.2.2.2 h)⟩

theorem pollSet_rel (s : St) (i : Id) (ev : Flags) : Rel s (pollSet s i ev) := by
  unfold pollSet
  dsimp only
  repeat' split
  all_goals exact ⟨rfl, fun _ h => h, fun h => h, fun h => h⟩

theorem pollRemove_rel (s : St) (i : Id) : Rel s (pollRemove s i) := by
  unfold pollRemove
  repeat' split
  all_goals exact ⟨rfl, fun _ h => h, fun h => h, fun h => h⟩

theorem markGone_rel (s : St) (i : Id) : Rel s (markGone s i) :=
  ⟨rfl, fun j h => upd_used_mono s.gone i j h, fun h => h, fun h => h⟩

theorem mkTimer_rel (s : St) (i : Id) (iv : Int) : Rel s (mkTimer s i iv) := by
  unfold mkTimer; dsimp only; split <;> exact ⟨rfl, fun _ h => h, fun h => h, fun h => h⟩

theorem rmTimer_rel (s : St) (i : Id) : Rel s (rmTimer s i) := by
  unfold rmTimer
  split
  · exact Rel.trans (b := { s with queue := _, timers := _ }) ⟨rfl, fun _ h => h, fun h => h, fun h => h⟩ (markGone_rel _ _)
  · exact Rel.refl s

theorem deleteClient_rel (s : St) (i : Id) : Rel s (deleteClient s i) := by
  unfold deleteClient
  dsimp only
  refine Rel.trans (b := pollRemove { s with closing := s.closing.filter (· ≠ i) } i) ?_ ?_
  · exact Rel.trans (b := { s with closing := s.closing.filter (· ≠ i) }) ⟨rfl, fun _ h => h, fun h => h, fun h => h⟩ (pollRemove_rel _ _)
  · exact Rel.trans (b := { (pollRemove { s with closing := s.closing.filter (· ≠ i) } i) with clients := _ })
      ⟨rfl, fun _ h => h, fun h => h, fun h => h⟩ (markGone_rel _ _)

theorem rmClient_rel (s : St) (i : Id) : Rel s (rmClient s i) := by
  unfold rmClient
  split
  · split
    · exact deleteClient_rel s i
    · exact ⟨rfl, fun _ h => h, fun h => h, fun h => h⟩
  · exact Rel.refl s

theorem rmListener_rel (s : St) (i : Id) : Rel s (rmListener s i) := by
  unfold rmListener
  split
  · dsimp only
    exact Rel.trans (pollRemove_rel s i) (Rel.trans (b := { (pollRemove s i) with listeners := _ })
      ⟨rfl, fun _ h => h, fun h => h, fun h => h⟩ (markGone_rel _ _))
  · exact Rel.refl s

theorem rmEst_rel (s : St) (i : Id) : Rel s (rmEst s i) := by
  unfold rmEst
  split
  · dsimp only
    exact Rel.trans (pollRemove_rel s i) (Rel.trans (b := { (pollRemove s i) with ests := _ })
      ⟨rfl, fun _ h => h, fun h => h, fun h => h⟩ (markGone_rel _ _))
  · exact Rel.refl s

theorem interrupt_rel (s : St) : Rel s (interrupt s) := by
  unfold interrupt
  split
  · exact Rel.refl s
  · exact ⟨rfl, fun _ h => h, fun _ _ => by show 0 < s.eventfd + 1 + s.pendingEfd; omega, fun _ => rfl⟩

theorem suspend_rel (s : St) (i : Id) : Rel s (suspend s i) := by
  unfold suspend
  split
  · split
    · exact Rel.refl s
    · exact Rel.trans (b := { s with clients := _ }) ⟨rfl, fun _ h => h, fun h => h, fun h => h⟩ (pollSet_rel _ _ _)
  · exact Rel.refl s

theorem resume_rel (s : St) (i : Id) : Rel s (resume s i) := by
  unfold resume
  split
  · split
    · exact Rel.refl s
    · exact Rel.trans (b := { s with clients := _ }) ⟨rfl, fun _ h => h, fun h => h, fun h => h⟩ (pollSet_rel _ _ _)
  · exact Rel.refl s

theorem addClosing_rel (s : St) (i : Id) : Rel s (addClosing s i) := ⟨rfl, fun _ h => h, fun h => h, fun h => h⟩

theorem read_rel (s : St) (i : Id) : Rel s (read s i) := by
  unfold read
  repeat' split
  all_goals first | exact ⟨rfl, fun _ h => h, fun h => h, fun h => h⟩ | exact addClosing_rel _ _

theorem write_rel (s : St) (i : Id) (n : Nat) (o : Outcome) : Rel s (write s i n o) := by
  unfold write
  repeat' split
  all_goals first
    | exact ⟨rfl, fun _ h => h, fun h => h, fun h => h⟩
    | exact addClosing_rel _ _
    | exact Rel.trans (b := { s with clients := _ }) ⟨rfl, fun _ h => h, fun h => h, fun h => h⟩ (pollSet_rel _ _ _)

theorem mkPair_rel (s : St) (i : Id) : Rel s (mkPair s i) := by
  unfold mkPair; dsimp only; split
  · exact Rel.trans (b := { s with clients := _, used := _, order := _ }) ⟨rfl, fun _ h => h, fun h => h, fun h => h⟩ (pollSet_rel _ _ _)
  · exact Rel.refl s

theorem mkListener_rel (s : St) (i : Id) : Rel s (mkListener s i) := by
  unfold mkListener; dsimp only; split
  · exact Rel.trans (b := { s with listeners := _, used := _, order := _ }) ⟨rfl, fun _ h => h, fun h => h, fun h => h⟩ (pollSet_rel _ _ _)
  · exact Rel.refl s

theorem mkEst_rel (s : St) (i : Id) : Rel s (mkEst s i) := by
  unfold mkEst; dsimp only; split
  · exact Rel.trans (b := { s with ests := _, used := _, order := _ }) ⟨rfl, fun _ h => h, fun h => h, fun h => h⟩ (pollSet_rel _ _ _)
  · exact Rel.refl s

theorem applyAct_rel (s : St) (nc : Option Id) (a : Act) : Rel s (applyAct s nc a) := by
  cases a <;> simp only [applyAct]
  case mkTimer i iv => exact mkTimer_rel s i iv
  case rmTimer i => exact rmTimer_rel s i
  case rmClient i => exact rmClient_rel s i
  case rmListener i => exact rmListener_rel s i
  case rmEst i => exact rmEst_rel s i
  case rmNew => cases nc <;> simp only <;> first | exact Rel.refl s | exact rmClient_rel s _
  case retNull => exact Rel.refl s
  case interrupt => exact interrupt_rel s
  case suspend i => exact suspend_rel s i
  case resume i => exact resume_rel s i
  case read i => exact read_rel s i
  case write i n o => exact write_rel s i n o
  case mkPair i => exact mkPair_rel s i
  case mkListener i => exact mkListener_rel s i
  case mkEst i => exact mkEst_rel s i

theorem runActs_rel (s : St) (nc : Option Id) (acts : List Act) : Rel s (runActs s nc acts) := by
  induction acts generalizing s with
  | nil => exact Rel.refl s
  | cons a as ih => exact Rel.trans (applyAct_rel s nc a) (ih _)

theorem callback_rel (s : St) (i : Id) (nc : Option Id) : Rel s (callback s i nc).1 := by
  unfold callback
  exact Rel.trans (b := { s with calls := _ }) ⟨rfl, fun _ h => h, fun h => h, fun h => h⟩ (runActs_rel _ _ _)

theorem newClient_rel (s : St) (nc : Id) (u : Bool) : Rel s (newClient s nc u) := by
  unfold newClient
  exact Rel.trans (b := { s with clients := _, used := _, order := _, nextAuto := _ })
    ⟨rfl, fun _ h => h, fun h => h, fun h => h⟩ (pollSet_rel _ _ _)

theorem finishHandOver_rel (s : St) (nc : Id) (acts : List Act) : Rel s (finishHandOver s nc acts) := by
  unfold finishHandOver
  repeat' split
  all_goals first | exact ⟨rfl, fun _ h => h, fun h => h, fun h => h⟩ | exact deleteClient_rel _ _

theorem writeReady_rel (s : St) (i : Id) (o : Outcome) : Rel s (writeReady s i o).1 := by
  unfold writeReady
  dsimp only
  repeat' split
  all_goals first
    | exact Rel.refl s
    | exact ⟨rfl, fun _ h => h, fun h => h, fun h => h⟩
    | (refine Rel.trans ?_ (callback_rel _ _ _); first
        | exact Rel.trans (b := { s with clients := _ }) ⟨rfl, fun _ h => h, fun h => h, fun h => h⟩ (pollRemove_rel _ _)
        | exact Rel.trans (b := { s with clients := _ }) ⟨rfl, fun _ h => h, fun h => h, fun h => h⟩ (pollSet_rel _ _ _)
        | exact pollSet_rel _ _ _)

/-! ### histories -/

inductive Move
  | act (a : Act)                 -- an API call outside callbacks (interrupt: from any thread)
  | env (e : EnvOp)
  | mkPair (i : Id)
  | mkListener (i : Id)
  | mkEst (i : Id)
  | script (i : Id) (k : Nat) (acts : List Act)
  | enter                         -- Server::run() is called
  | intrBegin                     -- another thread: interrupt() takes the mutex, tests and sets the flag
  | intrEnd                       -- … and then writes the event descriptor
  | step (inp : PollIn) (o : Outcome)
  | clear                         -- Server::clear() called while run() is not active
  | failCreate                    -- listen / connect / pair that returns 0: socket(), bind(), listen(), connect() or a socket
                                  -- option failed (Server.cpp 124-128, 139-142, 186-195): nothing of the Server's state changes

def move (s : St) : Move → St
  | .act a => applyAct s none a
  | .env e => envStep s e
  | .mkPair i => mkPair s i
  | .mkListener i => mkListener s i
  | .mkEst i => mkEst s i
  | .script i k acts => setScript s i k acts
  | .enter => enterRun s
  | .intrBegin => if s.interrupted then s else { s with interrupted := true, pendingEfd := s.pendingEfd + 1 }
  | .intrEnd => if s.pendingEfd = 0 then s else { s with pendingEfd := s.pendingEfd - 1, eventfd := s.eventfd + 1 }
  | .step inp o => (step s inp o).1
  | .clear => if s.pc = .idle then clearAll s else s
  | .failCreate => s

/-- the callbacks a move performs -/
def events (s : St) : Move → List Ev
  | .step inp o => (step s inp o).2
  | _ => []

def runMoves (s : St) : List Move → St
  | [] => s
  | m :: ms => runMoves (move s m) ms

/-- the state after an arbitrary history -/
def reach (ms : List Move) : St := runMoves init ms

structure Inv (s : St) : Prop where
  t : InvT s
  u : InvU s
  s : InvS s none

theorem inv_init : Inv init := ⟨invT_init, invU_init, invS_init⟩

theorem inv_move (s : St) (m : Move) (h : Inv s) : Inv (move s m) := by
  obtain ⟨ht, hu, hs⟩ := h
  cases m <;> simp only [move]
  case act a => exact ⟨applyAct_invT s none a ht, applyAct_invU s none a hu, invS_applyAct s none a hs⟩
  case env e => exact ⟨ht.same (envStep_sameT s e), envStep_invU s e hu, invS_envStep s e hs⟩
  case mkPair i => exact ⟨ht.same (mkPair_sameT s i), mkPair_invU s i hu, invS_mkPair s none i hs⟩
  case mkListener i => exact ⟨ht.same (mkListener_sameT s i), mkListener_invU s i hu, invS_mkListener s none i hs⟩
  case mkEst i => exact ⟨ht.same (mkEst_sameT s i), mkEst_invU s i hu, invS_mkEst s none i hs⟩
  case script i k acts =>
    exact ⟨ht.same ⟨rfl, rfl, fun _ h => h⟩, ⟨hu.auto1, hu.auto2, hu.liveUsed, hu.gone, hu.disj⟩,
      ⟨hs.selSub, hs.kind, hs.hasCb, hs.closing, hs.ncLive, hs.noFault, hs.ncBig⟩⟩
  case enter =>
    unfold enterRun
    split
    · exact ⟨ht.same ⟨rfl, rfl, fun _ h => h⟩, ⟨hu.auto1, hu.auto2, hu.liveUsed, hu.gone, hu.disj⟩,
        ⟨hs.selSub, hs.kind, hs.hasCb, hs.closing, hs.ncLive, hs.noFault, hs.ncBig⟩⟩
    · exact ⟨ht, hu, hs⟩
  case intrBegin =>
    split
    · exact ⟨ht, hu, hs⟩
    · exact ⟨ht.same ⟨rfl, rfl, fun _ h => h⟩, ⟨hu.auto1, hu.auto2, hu.liveUsed, hu.gone, hu.disj⟩,
        ⟨hs.selSub, hs.kind, hs.hasCb, hs.closing, hs.ncLive, hs.noFault, hs.ncBig⟩⟩
  case intrEnd =>
    split
    · exact ⟨ht, hu, hs⟩
    · exact ⟨ht.same ⟨rfl, rfl, fun _ h => h⟩, ⟨hu.auto1, hu.auto2, hu.liveUsed, hu.gone, hu.disj⟩,
        ⟨hs.selSub, hs.kind, hs.hasCb, hs.closing, hs.ncLive, hs.noFault, hs.ncBig⟩⟩
  case step inp o => exact ⟨step_invT s inp o ht, step_invU s inp o hu, step_invS s inp o ht hu hs⟩
  case clear =>
    split
    · refine ⟨⟨?_, ?_, ?_, ⟨0, ?_⟩, ?_, ?_⟩, ⟨hu.auto1, hu.auto2, ?_, ?_, ?_⟩, ⟨?_, ?_, ?_, ?_, ?_, hs.noFault, ?_⟩⟩
      · simp [clearAll, SortedQ]
      · intro i t h; simp [clearAll] at h
      · intro i _; simp [clearAll, entsOf]
      · simp [clearAll]
      · intro i t h; simp [clearAll] at h
      · intro i t h; simp [clearAll] at h
      · intro i h; simp [clearAll, Live] at h
      · intro i h
        refine ⟨?_, by simp [clearAll, Live]⟩
        simp only [clearAll, Bool.or_eq_true] at h
        rcases h with h | h
        · exact (hu.gone i h).1
        · apply hu.liveUsed i
          simp only [liveB, Bool.or_eq_true, Option.isSome_iff_ne_none] at h
          rcases h with ((h | h) | h) | h
          · exact Or.inl h
          · exact Or.inr (Or.inl h)
          · exact Or.inr (Or.inr (Or.inl h))
          · exact Or.inr (Or.inr (Or.inr h))
      · intro i; simp [clearAll]
      · intro i fl h; simp [clearAll] at h
      · intro i reg h; simp [clearAll, lookup] at h
      · intro i c h; simp [clearAll] at h
      · intro i h; simp [clearAll] at h
      · intro i h; cases h
      · intro i h; cases h
    · exact ⟨ht, hu, hs⟩
  case failCreate => exact ⟨ht, hu, hs⟩

theorem inv_runMoves (s : St) (ms : List Move) (h : Inv s) : Inv (runMoves s ms) := by
  induction ms generalizing s with
  | nil => exact h
  | cons m ms ih => exact ih _ (inv_move s m h)

theorem inv_reach (ms : List Move) : Inv (reach ms) := inv_runMoves init ms inv_init

theorem runMoves_append (s : St) (a b : List Move) : runMoves s (a ++ b) = runMoves (runMoves s a) b := by
  induction a generalizing s with
  | nil => rfl
  | cons m ms ih => exact ih _

end Nstd.Server.C14
