import Nstd.Common.Basic
import Nstd.Server.ModelC13
/-
  Line protocol of the Server area.  Two dialects share one driver (and one harness):

  C13 (one client on a socket pair; every op prints
       `<res> sb=<send buffer size> su=<suspended> in=<poll interest> cb=<callbacks> tx=<intercepted sends>`):
     write <hex> <outcome>          Client::write; outcome answers the send() it may issue
     ready <none|r|w|rw> <outcome>  one round of run(): closing loop, one poll (kernel reports the
                                    selected subset of the really-ready events), dispatch
     read <max>                     Client::read
     peersend <hex> / peerread      the peer writes / reads everything that arrived
     suspend / resume
     outcome = wb | err | all | half | <count>
-/
open Nstd.Common
namespace Nstd.Server

namespace C13

def parseOutcome (t : String) : Option Outcome :=
  if t == "wb" then some .wb
  else if t == "err" then some .err
  else if t == "all" then some .all
  else if t == "half" then some .half
  else t.toNat?.map .cnt

def parseSel (t : String) : Option (Bool × Bool) :=
  if t == "none" then some (false, false)
  else if t == "r" then some (true, false)
  else if t == "w" then some (false, true)
  else if t == "rw" then some (true, true)
  else none

def parseOp (ws : List String) : Option Op :=
  match ws with
  | ["write", d, o] => do pure (.write (← fromHex d) (← parseOutcome o))
  | ["ready", sel, o] => do
    let (r, w) ← parseSel sel
    pure (.ready r w (← parseOutcome o))
  | ["read", m] => do pure (.read (← m.toNat?))
  | ["peersend", d] => do pure (.peersend (← fromHex d))
  | ["peerread"] => some .peerread
  | ["suspend"] => some .suspend
  | ["resume"] => some .resume
  | _ => none

def b01 (b : Bool) : String := if b then "1" else "0"

def resStr : Res → String
  | .wrote r p => s!"w{b01 r} {p}"
  | .ok => "ok"
  | .readRes r d => s!"rd{b01 r} {toHex d}"
  | .got d => s!"got {toHex d}"
  | .dead => "dead"

def interestStr : Interest → String
  | none => "none"
  | some (false, false) => "-"
  | some (true, false) => "r"
  | some (false, true) => "w"
  | some (true, true) => "rw"

def cbStr (cbs : List Cb) : String :=
  if cbs.isEmpty then "-" else
    String.join (cbs.map fun | .onRead => "R" | .onWrite => "W" | .onClosed => "C")

def sendStr : Nat × SendRes → String
  | (n, .wouldblock) => s!"{n}>wb"
  | (n, .error) => s!"{n}>err"
  | (n, .sent k) => s!"{n}>{k}"

def txStr (l : List (Nat × SendRes)) : String :=
  if l.isEmpty then "-" else ",".intercalate (l.map sendStr)

def obs (s : St) (o : Out) : String :=
  if o.res == .dead then "dead" else
  let sb := if s.dead then 0 else s.backlog.length
  let su := if s.dead then false else s.suspended
  s!"{resStr o.res} sb={sb} su={b01 su} in={interestStr s.interest} cb={cbStr o.cbs} tx={txStr o.sends}"

end C13

structure DState where
  s13 : C13.St := C13.init

def stepLine (st : DState) (ws : List String) : DState × String :=
  match ws with
  | ["reset"] => ({}, "ok")
  | _ =>
    match C13.parseOp ws with
    | some op =>
      match C13.step st.s13 op with
      | some (s', o) => ({ st with s13 := s' }, C13.obs s' o)
      | none => (st, "bad-op")
    | none => (st, "bad-op")

end Nstd.Server

def main : IO Unit := Nstd.Common.ioLoop ({} : Nstd.Server.DState) Nstd.Server.stepLine
