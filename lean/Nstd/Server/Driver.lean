import Nstd.Common.Basic
import Nstd.Server.ModelC13
import Nstd.Server.ReentC13
import Nstd.Server.ModelC14
/-
  Line protocol of the Server area.  Two dialects share one driver (and one harness):

  C13 (one client on a socket pair; every op prints
       `<res> sb=<send buffer size> su=<suspended> in=<poll interest> cb=<callbacks> tx=<intercepted sends>`):
     write <hex> <outcome>          Client::write; outcome answers the send() it may issue
     ready <none|r|w|rw> <outcome>  one round of run(): closing loop, one poll (kernel reports the
                                    selected subset of the really-ready events), dispatch
     read <max>                     Client::read
     peersend <hex> / peerread      the peer writes / reads everything that arrived
     suspend / resume
     outcome = wb | err | all | half | <count>

  C14 (timers, clients, listeners, establishers under virtual time; every op prints
       `<events or ok> | <live objects with their epoll interest> clk=<virtual clock>`):
     script <id> <k> <acts>     the k-th callback on object <id> performs <acts> (comma separated):
                                mk:<id>:<interval> pair:<id> lis:<id> con:<id> rmt:<id> rmc:<id> rml:<id> rme:<id> rmnew null intr
                                sus:<id> res:<id> rd:<id> wr:<id>:<n>:<outcome>      (`-` = none)
     act <act>                  the same API call at top level
     mkpair <id> | mklisten <id> | mkconn <id>     Server::pair / listen / connect
     psend <id> <n> | pclose <id> | dial <id> | adv <ms> | cfail <id>     environment (cfail: the pending
                                connect of establisher <id> will report an error)
     run <outcome> <entry>...   Server::run(); one entry per epoll_wait call:
                                [I][<id>,<id>,...|-][+<ms>]  (I = interrupt() arrives during the call;
                                ids = sockets the kernel reports, in this order, if really ready;
                                no event: the clock advances by the time-out, else by <ms>);
                                after the last entry every further call is `I`
     runmt <usec>               Server::run() while a REAL second thread calls interrupt() <usec> microseconds after
                                its start (before or during run); epoll_wait really blocks; timers-only histories
-/
open Nstd.Common
namespace Nstd.Server

namespace C13

def parseOutcome (t : String) : Option Outcome :=
  if t == "wb" then some .wb
  else if t == "err" then some .err
  else if t == "all" then some .all
  else if t == "half" then some .half
  else t.toNat?.map .cnt

def parseSel (t : String) : Option (Bool × Bool) :=
  if t == "none" then some (false, false)
  else if t == "r" then some (true, false)
  else if t == "w" then some (false, true)
  else if t == "rw" then some (true, true)
  else none

def parseOp (ws : List String) : Option Op :=
  match ws with
  | ["write", d, o] => do pure (.write (← fromHex d) (← parseOutcome o))
  | ["ready", sel, o] => do
    let (r, w) ← parseSel sel
    pure (.ready r w (← parseOutcome o))
  | ["read", m] => do pure (.read (← m.toNat?))
  | ["peersend", d] => do pure (.peersend (← fromHex d))
  | ["peerread"] => some .peerread
  | ["suspend"] => some .suspend
  | ["resume"] => some .resume
  | _ => none

def b01 (b : Bool) : String := if b then "1" else "0"

def resStr : Res → String
  | .wrote r p => s!"w{b01 r} {p}"
  | .ok => "ok"
  | .readRes r d => s!"rd{b01 r} {toHex d}"
  | .got d => s!"got {toHex d}"
  | .dead => "dead"

def interestStr : Interest → String
  | none => "none"
  | some (false, false) => "-"
  | some (true, false) => "r"
  | some (false, true) => "w"
  | some (true, true) => "rw"

def cbStr (cbs : List Cb) : String :=
  if cbs.isEmpty then "-" else
    String.join (cbs.map fun | .onRead => "R" | .onWrite => "W" | .onClosed => "C")

def sendStr : Nat × SendRes → String
  | (n, .wouldblock) => s!"{n}>wb"
  | (n, .error) => s!"{n}>err"
  | (n, .sent k) => s!"{n}>{k}"

def txStr (l : List (Nat × SendRes)) : String :=
  if l.isEmpty then "-" else ",".intercalate (l.map sendStr)

def obs (s : St) (o : Out) : String :=
  if o.res == .dead then "dead" else
  let sb := if s.dead then 0 else s.backlog.length
  let su := if s.dead then false else s.suspended
  s!"{resStr o.res} sb={sb} su={b01 su} in={interestStr s.interest} cb={cbStr o.cbs} tx={txStr o.sends}"

end C13

namespace C14

def parseAct (t : String) : Option Act :=
  match t.splitOn ":" with
  | ["mk", i, iv] => do pure (.mkTimer (← i.toNat?) (← iv.toNat?))
  | ["pair", i] => do pure (.mkPair (← i.toNat?))
  | ["lis", i] => do pure (.mkListener (← i.toNat?))
  | ["con", i] => do pure (.mkEst (← i.toNat?))
  | ["rmt", i] => do pure (.rmTimer (← i.toNat?))
  | ["rmc", i] => do pure (.rmClient (← i.toNat?))
  | ["rml", i] => do pure (.rmListener (← i.toNat?))
  | ["rme", i] => do pure (.rmEst (← i.toNat?))
  | ["rmnew"] => some .rmNew
  | ["null"] => some .retNull
  | ["intr"] => some .interrupt
  | ["sus", i] => do pure (.suspend (← i.toNat?))
  | ["res", i] => do pure (.resume (← i.toNat?))
  | ["rd", i] => do pure (.read (← i.toNat?))
  | ["wr", i, n, o] => do pure (.write (← i.toNat?) (← n.toNat?) (← C13.parseOutcome o))
  | _ => none

def parseActs (t : String) : Option (List Act) :=
  if t == "-" then some [] else (t.splitOn ",").mapM parseAct

structure Entry where
  intr : Bool
  ids : List Id
  dt : Nat
  forced : List Id := []      -- `id!`: reported ready although nothing is queued (listeners: the accept that follows fails)

def parseEntry (t : String) : Option Entry := do
  let (intr, rest) := if t.startsWith "I" then (true, (t.drop 1).toString) else (false, t)
  let (idsT, dt) ← match rest.splitOn "+" with
    | [a] => some (a, 0)
    | [a, b] => b.toNat?.map (fun d => (a, d))
    | _ => none
  let toks := if idsT == "-" || idsT == "" then [] else idsT.splitOn ","
  let ids ← toks.mapM (fun t => (if t.endsWith "!" then (t.dropEnd 1).toString else t).toNat?)
  let forced := toks.filterMap (fun t => if t.endsWith "!" then (t.dropEnd 1).toString.toNat? else none)
  if !intr && idsT == "" then none else pure { intr := intr, ids := ids, dt := dt, forced := forced }

def nativeNonZero (n : Native) : Bool := n.inn || n.out || n.hup

def ioStr (f : Flags) : String :=
  let i := f.r || f.a
  let o := f.w || f.c
  if i then (if o then "io" else "i") else (if o then "o" else "-")

def interestStr (s : St) (i : Id) : String :=
  match lookup s.sockets i with
  | some f => ioStr f
  | none => "none"

def liveStr (s : St) : String :=
  let items := s.order.filterMap fun i =>
    if (s.timers i).isSome then some s!"t{i}"
    else if (s.clients i).isSome then some s!"c{i}:{interestStr s i}"
    else if (s.listeners i).isSome then some s!"l{i}:{interestStr s i}"
    else if (s.ests i).isSome then some s!"e{i}:{interestStr s i}"
    else none
  (if items.isEmpty then "-" else " ".intercalate items) ++ s!" clk={s.clock}"

def evStr (clk : Int) : Ev → String
  | .activated t _ _ => s!"t{t}@{clk}"
  | .onRead c => s!"c{c}.R@{clk}"
  | .onWrite c => s!"c{c}.W@{clk}"
  | .onClosed c => s!"c{c}.C@{clk}"
  | .onAccepted l c => s!"l{l}.A{c}@{clk}"
  | .onConnected e c => s!"e{e}.N{c}@{clk}"
  | .onAbolished e => s!"e{e}.X@{clk}"
  | .returned => s!"ret@{clk}"

/-- the kernel's answer for one schedule entry (mirrors the harness' epoll_wait) -/
def pollIn (s : St) (timeout : Int) (e : Entry) : PollIn :=
  let evs := e.ids.eraseDups.filterMap fun i =>
    let n := nativeOf s i
    if nativeNonZero n then some (i, n)
    else if e.forced.contains i && (s.listeners i).isSome && (lookup s.sockets i).isSome then some (i, { inn := true })
    else none
  let efd := s.eventfd != 0
  { events := evs, eventfd := efd, dt := if evs.isEmpty && !efd then timeout else e.dt }


/-! ### branch tags: which branch of run() / Poll::poll / the dispatch switch a step of the model takes, and the rare
    situations the generators must reach.  Diagnostics only (op `branches`); the theorems do not depend on them. -/

def isRm (i : Id) : Act → Bool
  | .rmClient j => j == i
  | _ => false

def isRmTimer (i : Id) : Act → Bool
  | .rmTimer j => j == i
  | _ => false

def isMkTimer : Act → Bool
  | .mkTimer _ _ => true
  | _ => false

def scriptOf (s : St) (i : Id) : List Act := s.scripts i (s.calls i)

def handOverTags (pre : String) (s : St) (i : Id) : List String :=
  let acts := scriptOf s i
  if acts.any (fun a => match a with | .rmNew => true | _ => false) then [pre ++ ".removed"]
  else if acts.any isRetNull then [pre ++ ".null"] else [pre ++ ".kept"]

def dispatchTags (s : St) (ev : Option (Id × Flags)) (o : C13.Outcome) : List String :=
  match ev with
  | none => if s.interrupted then ["d.none.return"] else ["d.none.continue"]
  | some (i, fl) =>
    if fl.isZero then (if s.interrupted then ["d.zeroflags.return"] else ["d.zeroflags.continue"])
    else if fl.r then
      ["d.read"] ++ (if (scriptOf s i).any (isRm i) then ["x.remove_self_in_onRead"] else [])
    else if fl.w then
      match s.clients i with
      | none => ["d.write.fault"]
      | some c =>
        (if c.suspended then ["x.write_event_for_suspended_client"] else []) ++
        (if c.backlog != 0 then
          match sendOn c c.backlog o with
          | .wouldblock => ["d.write.wouldblock"]
          | .error => ["d.write.error.onClosed"] ++ (if (scriptOf s i).any (isRm i) then ["x.remove_self_in_onClosed"] else [])
          | .sent 0 => ["d.write.sent0.onClosed"]
          | .sent (k + 1) =>
            if c.backlog - (k + 1) = 0 then
              ["d.write.drained.onWrite"] ++ (if (scriptOf s i).any (isRm i) then ["x.remove_self_in_onWrite"] else [])
            else ["d.write.partial"]
        else ["d.write.empty.onWrite"])
    else if fl.a then
      match s.listeners i with
      | none => ["d.accept.fault"]
      | some l => if l.pending = 0 then ["d.accept.failed"] else handOverTags "d.accept" s i
    else
      match s.ests i with
      | none => ["d.connect.fault"]
      | some e => if !e.connected then ["d.connect.error.onAbolished"] else handOverTags "d.connect" s i

def stepTags (s : St) (inp : PollIn) (o : C13.Outcome) : List String :=
  match s.pc with
  | .idle => []
  | .timers now =>
    match s.queue with
    | [] => ["t.fault"]
    | (k, v) :: rest =>
      if k - now ≤ 0 then
        match v with
        | some t =>
          let acts := scriptOf s t
          ["t.user"] ++
          (match rest with
           | (k2, some _) :: _ => if k2 = k then ["x.two_timers_due_same_tick"] else []
           | _ => []) ++
          (if acts.any (isRmTimer t) then ["x.timer_removes_itself"] else []) ++
          (if acts.any (fun a => match a with
              | .rmTimer u => u != t && (match s.timers u with | some tu => decide (tu.exec - now ≤ 0) | none => false)
              | _ => false) then ["x.timer_removes_another_due_timer"] else []) ++
          (if acts.any isMkTimer then ["x.timer_created_in_onActivated"] else [])
        | none => ["t.default"]
      else ["t.done"]
  | .closing _ _ =>
    match s.closing with
    | [] => ["c.empty"]
    | c :: _ =>
      match s.clients c with
      | some cl =>
        if cl.hasCb && !cl.removed then
          ["c.onClosed"] ++ (if (scriptOf s c).any isMkTimer then ["x.timer_created_in_onClosed"] else []) ++
          (if (scriptOf s c).any (isRm c) then ["x.remove_self_in_onClosed"] else [])
        else ["c.delete"]
      | none => ["c.fault"]
  | .poll _ _ =>
    let (s1, ev) := pollStep s inp
    (match s.selected with
     | [] =>
       let sel := appendSelected s inp.events []
       let intr := inp.eventfd && s.eventfd != 0
       if intr then (if sel.isEmpty then ["p.query.eventfd"] else ["p.query.eventfd+events", "x.interrupt_with_events_of_the_same_epoll_wait"])
       else if sel.isEmpty then ["p.query.timeout"] else ["p.query.events"]
     | _ => ["p.pending"] ++ (if s.interrupted then ["x.interrupt_pending_while_batch_drains"] else [])) ++
    dispatchTags s1 ev o

def bump (l : List (String × Nat)) (k : String) : List (String × Nat) :=
  match l with
  | [] => [(k, 1)]
  | (k', n) :: r => if k' == k then (k', n + 1) :: r else (k', n) :: bump r k

def bumpAll (l : List (String × Nat)) (ks : List String) : List (String × Nat) := ks.foldl bump l

abbrev Tags := List (String × Nat)

def runLoop : Nat → St → C13.Outcome → List Entry → List String → Tags → St × List String × Tags
  | 0, s, _, _, acc, tg => (s, acc ++ ["FUEL"], tg)
  | fuel + 1, s, o, es, acc, tg =>
    match s.pc with
    | .idle => (s, acc, tg)
    | .poll _ timeout =>
      if s.selected.isEmpty then
        let (e, es') : Entry × List Entry := match es with
          | e :: r => (e, r)
          | [] => ({ intr := true, ids := [], dt := 0 }, [])
        let s0 := if e.intr then interrupt s else s
        let inp := pollIn s0 timeout e
        let (s', evs) := step s0 inp o
        runLoop fuel s' o es' (acc ++ evs.map (evStr s'.clock)) (bumpAll tg (stepTags s0 inp o))
      else
        let (s', evs) := step s {} o
        runLoop fuel s' o es (acc ++ evs.map (evStr s'.clock)) (bumpAll tg (stepTags s {} o))
    | _ =>
      let (s', evs) := step s {} o
      runLoop fuel s' o es (acc ++ evs.map (evStr s'.clock)) (bumpAll tg (stepTags s {} o))

def out (s : St) (res : String) : String :=
  if s.fault then "MODEL-FAULT" else s!"{res} | {liveStr s}"

def tagsStr (tg : Tags) : String :=
  if tg.isEmpty then "-" else " ".intercalate (tg.map fun p => s!"{p.1}={p.2}")

def stepLine (s : St) (tg : Tags) (ws : List String) : Option (St × String × Tags) :=
  match ws with
  | ["script", i, k, acts] => do
    let s' := setScript s (← i.toNat?) (← k.toNat?) (← parseActs acts)
    pure (s', out s' "ok", tg)
  | ["act", a] => do
    let s' := applyAct s none (← parseAct a)
    pure (s', out s' "ok", tg)
  | ["mkpair", i] => do let s' := mkPair s (← i.toNat?); pure (s', out s' "ok", tg)
  | ["mklisten", i] => do let s' := mkListener s (← i.toNat?); pure (s', out s' "ok", tg)
  | ["mkconn", i] => do let s' := mkEst s (← i.toNat?); pure (s', out s' "ok", tg)
  | ["psend", i, n] => do
    let n ← n.toNat?
    if n = 0 then none
    let s' := envStep s (.peerSend (← i.toNat?) n); pure (s', out s' "ok", tg)
  | ["pclose", i] => do let s' := envStep s (.peerClose (← i.toNat?)); pure (s', out s' "ok", tg)
  | ["dial", i] => do let s' := envStep s (.dial (← i.toNat?)); pure (s', out s' "ok", tg)
  | ["adv", d] => do let s' := envStep s (.advance (← d.toNat?)); pure (s', out s' "ok", tg)
  | ["cfail", i] => do let s' := envStep s (.connFail (← i.toNat?)); pure (s', out s' "ok", tg)
  -- Server::clear() outside run()
  | ["clear"] => let s' := if s.pc = .idle then clearAll s else s; some (s', out s' "ok", tg)
  -- pair / listen / connect whose socket() fails: null result, nothing changes
  | ["failmk", k] =>
    if ["pair", "listen", "connect", "bind", "listencall", "connectcall", "pairopt"].contains k then
      some (s, out s "ok", tg)      -- Move.failCreate: the state does not change
    else none
  -- the connect event of establisher i will end in onAbolished: a socket option cannot be applied (Server.cpp 396-400); the same
  -- transition as a failed connect (Poll::remove, onAbolished, the establisher stays)
  | ["ofail", i] => do let s' := envStep s (.connFail (← i.toNat?)); pure (s', out s' "ok", tg)
  -- socket options: no effect on the event loop
  | ["opt", k, v] => do
    let _ ← v.toNat?
    if k == "keepalive" || k == "sndbuf" || k == "rcvbuf" || k == "reuse" then pure (s, out s "ok", tg) else none
  | ["runmt", d] => do
    -- a second thread calls interrupt() <d> microseconds after it was started, concurrently with run();
    -- no virtual time passes and the kernel reports nothing but the event descriptor
    let _ ← d.toNat?
    let (s', evs, tg') := runLoop 100000 (enterRun (interrupt s)) .all [] [] tg
    pure (s', out s' (if evs.isEmpty then "-" else " ".intercalate evs), tg')
  | "run" :: o :: entries => do
    let o ← C13.parseOutcome o
    let es ← entries.mapM parseEntry
    let (s', evs, tg') := runLoop 100000 (enterRun s) o es [] tg
    pure (s', out s' (if evs.isEmpty then "-" else " ".intercalate evs), tg')
  -- diagnostics (model driver only): branch-hit counters of all run ops since the process started
  | ["branches"] => some (s, tagsStr tg, tg)
  | _ => none

end C14

structure DState where
  s13 : C13.St := C13.init
  s14 : C14.St := C14.init
  tags : C14.Tags := []
  inner : List C13.Op := []     -- calls queued by `cb <op>`: made inside the next onRead / onWrite (ReentC13.lean)

namespace C13

def innerStr (out : Out) : String :=
  match out.res with
  | .wrote r p => s!"(w{b01 r}.{p})"
  | .readRes r d => s!"(rd{b01 r}.{d.length})"
  | _ => ""

/-- run the queued calls at the callback point; returns the state, the log suffix and the sends they made -/
def runInner (s : St) : List Op → String → List (Nat × SendRes) → St × String × List (Nat × SendRes)
  | [], acc, tx => (s, acc, tx)
  | op :: r, acc, tx =>
    let (s', out) := stepT s op
    let tag := match op with
      | .suspend => "(s)"
      | .resume => "(u)"
      | _ => innerStr out
    runInner s' r (acc ++ tag) (tx ++ out.sends)

def obsR (s : St) (o : Out) (suffix : String) (tx : List (Nat × SendRes)) : String :=
  let sb := if s.dead then 0 else s.backlog.length
  let su := if s.dead then false else s.suspended
  s!"{resStr o.res} sb={sb} su={b01 su} in={interestStr s.interest} cb={cbStr o.cbs}{suffix} tx={txStr (o.sends ++ tx)}"

def isInnerOp : Op → Bool
  | .write _ _ => true
  | .read m => m != 0
  | .suspend => true
  | .resume => true
  | _ => false

end C13

def stepLine (st : DState) (ws : List String) : DState × String :=
  match ws with
  | ["reset"] => ({ tags := st.tags }, "ok")
  | "cb" :: rest =>
    match C13.parseOp rest with
    | some op =>
      if !C13.isInnerOp op || st.inner.length ≥ 8 then (st, "bad-op")
      else if st.s13.dead then (st, "dead")
      else ({ st with inner := st.inner ++ [op] }, C13.obs st.s13 { res := .ok })
    | none => (st, "bad-op")
  | _ =>
    match C13.parseOp ws with
    | some op =>
      match C13.step st.s13 op with
      | some (s', o) =>
        let isReady := match op with | .ready _ _ _ => true | _ => false
        if isReady && C13.delivered o && !st.inner.isEmpty then
          let (s'', suffix, tx) := C13.runInner s' st.inner "" []
          -- run() goes round its loop: the closing loop runs before the next poll (a client failed by an inner write gets onClosed)
          let sel0 := match op with | .ready _ _ oc => C13.Op.ready false false oc | other => other
          let (s3, o3) := C13.stepT s'' sel0
          let suffix' := if o3.cbs.isEmpty then suffix else suffix ++ C13.cbStr o3.cbs
          ({ st with s13 := s3, inner := [] }, C13.obsR s3 o suffix' (tx ++ o3.sends))
        else ({ st with s13 := s' }, C13.obs s' o)
      | none => (st, "bad-op")
    | none =>
      match C14.stepLine st.s14 st.tags ws with
      | some (s', o, tg) => ({ st with s14 := s', tags := tg }, o)
      | none => (st, "bad-op")

end Nstd.Server

def main : IO Unit := Nstd.Common.ioLoop ({} : Nstd.Server.DState) Nstd.Server.stepLine
