import Nstd.Common.Basic
import Nstd.Server.ModelC13
import Nstd.Server.ModelC14
/-
  Line protocol of the Server area.  Two dialects share one driver (and one harness):

  C13 (one client on a socket pair; every op prints
       `<res> sb=<send buffer size> su=<suspended> in=<poll interest> cb=<callbacks> tx=<intercepted sends>`):
     write <hex> <outcome>          Client::write; outcome answers the send() it may issue
     ready <none|r|w|rw> <outcome>  one round of run(): closing loop, one poll (kernel reports the
                                    selected subset of the really-ready events), dispatch
     read <max>                     Client::read
     peersend <hex> / peerread      the peer writes / reads everything that arrived
     suspend / resume
     outcome = wb | err | all | half | <count>

  C14 (timers, clients, listeners, establishers under virtual time; every op prints
       `<events or ok> | <live objects with their epoll interest> clk=<virtual clock>`):
     script <id> <k> <acts>     the k-th callback on object <id> performs <acts> (comma separated):
                                mk:<id>:<interval> pair:<id> lis:<id> con:<id> rmt:<id> rmc:<id> rml:<id> rme:<id> rmnew null intr
                                sus:<id> res:<id> rd:<id> wr:<id>:<n>:<outcome>      (`-` = none)
     act <act>                  the same API call at top level
     mkpair <id> | mklisten <id> | mkconn <id>     Server::pair / listen / connect
     psend <id> <n> | pclose <id> | dial <id> | adv <ms> | cfail <id>     environment (cfail: the pending
                                connect of establisher <id> will report an error)
     run <outcome> <entry>...   Server::run(); one entry per epoll_wait call:
                                [I][<id>,<id>,...|-][+<ms>]  (I = interrupt() arrives during the call;
                                ids = sockets the kernel reports, in this order, if really ready;
                                no event: the clock advances by the time-out, else by <ms>);
                                after the last entry every further call is `I`
     runmt <usec>               Server::run() while a REAL second thread calls interrupt() <usec> microseconds after
                                its start (before or during run); epoll_wait really blocks; timers-only histories
-/
open Nstd.Common
namespace Nstd.Server

namespace C13

def parseOutcome (t : String) : Option Outcome :=
  if t == "wb" then some .wb
  else if t == "err" then some .err
  else if t == "all" then some .all
  else if t == "half" then some .half
  else t.toNat?.map .cnt

def parseSel (t : String) : Option (Bool × Bool) :=
  if t == "none" then some (false, false)
  else if t == "r" then some (true, false)
  else if t == "w" then some (false, true)
  else if t == "rw" then some (true, true)
  else none

def parseOp (ws : List String) : Option Op :=
  match ws with
  | ["write", d, o] => do pure (.write (← fromHex d) (← parseOutcome o))
  | ["ready", sel, o] => do
    let (r, w) ← parseSel sel
    pure (.ready r w (← parseOutcome o))
  | ["read", m] => do pure (.read (← m.toNat?))
  | ["peersend", d] => do pure (.peersend (← fromHex d))
  | ["peerread"] => some .peerread
  | ["suspend"] => some .suspend
  | ["resume"] => some .resume
  | _ => none

def b01 (b : Bool) : String := if b then "1" else "0"

def resStr : Res → String
  | .wrote r p => s!"w{b01 r} {p}"
  | .ok => "ok"
  | .readRes r d => s!"rd{b01 r} {toHex d}"
  | .got d => s!"got {toHex d}"
  | .dead => "dead"

def interestStr : Interest → String
  | none => "none"
  | some (false, false) => "-"
  | some (true, false) => "r"
  | some (false, true) => "w"
  | some (true, true) => "rw"

def cbStr (cbs : List Cb) : String :=
  if cbs.isEmpty then "-" else
    String.join (cbs.map fun | .onRead => "R" | .onWrite => "W" | .onClosed => "C")

def sendStr : Nat × SendRes → String
  | (n, .wouldblock) => s!"{n}>wb"
  | (n, .error) => s!"{n}>err"
  | (n, .sent k) => s!"{n}>{k}"

def txStr (l : List (Nat × SendRes)) : String :=
  if l.isEmpty then "-" else ",".intercalate (l.map sendStr)

def obs (s : St) (o : Out) : String :=
  if o.res == .dead then "dead" else
  let sb := if s.dead then 0 else s.backlog.length
  let su := if s.dead then false else s.suspended
  s!"{resStr o.res} sb={sb} su={b01 su} in={interestStr s.interest} cb={cbStr o.cbs} tx={txStr o.sends}"

end C13

namespace C14

def parseAct (t : String) : Option Act :=
  match t.splitOn ":" with
  | ["mk", i, iv] => do pure (.mkTimer (← i.toNat?) (← iv.toNat?))
  | ["pair", i] => do pure (.mkPair (← i.toNat?))
  | ["lis", i] => do pure (.mkListener (← i.toNat?))
  | ["con", i] => do pure (.mkEst (← i.toNat?))
  | ["rmt", i] => do pure (.rmTimer (← i.toNat?))
  | ["rmc", i] => do pure (.rmClient (← i.toNat?))
  | ["rml", i] => do pure (.rmListener (← i.toNat?))
  | ["rme", i] => do pure (.rmEst (← i.toNat?))
  | ["rmnew"] => some .rmNew
  | ["null"] => some .retNull
  | ["intr"] => some .interrupt
  | ["sus", i] => do pure (.suspend (← i.toNat?))
  | ["res", i] => do pure (.resume (← i.toNat?))
  | ["rd", i] => do pure (.read (← i.toNat?))
  | ["wr", i, n, o] => do pure (.write (← i.toNat?) (← n.toNat?) (← C13.parseOutcome o))
  | _ => none

def parseActs (t : String) : Option (List Act) :=
  if t == "-" then some [] else (t.splitOn ",").mapM parseAct

structure Entry where
  intr : Bool
  ids : List Id
  dt : Nat

def parseEntry (t : String) : Option Entry := do
  let (intr, rest) := if t.startsWith "I" then (true, (t.drop 1).toString) else (false, t)
  let (idsT, dt) ← match rest.splitOn "+" with
    | [a] => some (a, 0)
    | [a, b] => b.toNat?.map (fun d => (a, d))
    | _ => none
  let ids ← if idsT == "-" || idsT == "" then some [] else (idsT.splitOn ",").mapM (·.toNat?)
  if !intr && idsT == "" then none else pure { intr := intr, ids := ids, dt := dt }

def nativeNonZero (n : Native) : Bool := n.inn || n.out || n.hup

def ioStr (f : Flags) : String :=
  let i := f.r || f.a
  let o := f.w || f.c
  if i then (if o then "io" else "i") else (if o then "o" else "-")

def interestStr (s : St) (i : Id) : String :=
  match lookup s.sockets i with
  | some f => ioStr f
  | none => "none"

def liveStr (s : St) : String :=
  let items := s.order.filterMap fun i =>
    if (s.timers i).isSome then some s!"t{i}"
    else if (s.clients i).isSome then some s!"c{i}:{interestStr s i}"
    else if (s.listeners i).isSome then some s!"l{i}:{interestStr s i}"
    else if (s.ests i).isSome then some s!"e{i}:{interestStr s i}"
    else none
  (if items.isEmpty then "-" else " ".intercalate items) ++ s!" clk={s.clock}"

def evStr (clk : Int) : Ev → String
  | .activated t _ _ => s!"t{t}@{clk}"
  | .onRead c => s!"c{c}.R@{clk}"
  | .onWrite c => s!"c{c}.W@{clk}"
  | .onClosed c => s!"c{c}.C@{clk}"
  | .onAccepted l c => s!"l{l}.A{c}@{clk}"
  | .onConnected e c => s!"e{e}.N{c}@{clk}"
  | .onAbolished e => s!"e{e}.X@{clk}"
  | .returned => s!"ret@{clk}"

/-- the kernel's answer for one schedule entry (mirrors the harness' epoll_wait) -/
def pollIn (s : St) (timeout : Int) (e : Entry) : PollIn :=
  let evs := e.ids.eraseDups.filterMap fun i =>
    let n := nativeOf s i
    if nativeNonZero n then some (i, n) else none
  let efd := s.eventfd != 0
  { events := evs, eventfd := efd, dt := if evs.isEmpty && !efd then timeout else e.dt }

def runLoop : Nat → St → C13.Outcome → List Entry → List String → St × List String
  | 0, s, _, _, acc => (s, acc ++ ["FUEL"])
  | fuel + 1, s, o, es, acc =>
    match s.pc with
    | .idle => (s, acc)
    | .poll _ timeout =>
      if s.selected.isEmpty then
        let (e, es') : Entry × List Entry := match es with
          | e :: r => (e, r)
          | [] => ({ intr := true, ids := [], dt := 0 }, [])
        let s0 := if e.intr then interrupt s else s
        let (s', evs) := step s0 (pollIn s0 timeout e) o
        runLoop fuel s' o es' (acc ++ evs.map (evStr s'.clock))
      else
        let (s', evs) := step s {} o
        runLoop fuel s' o es (acc ++ evs.map (evStr s'.clock))
    | _ =>
      let (s', evs) := step s {} o
      runLoop fuel s' o es (acc ++ evs.map (evStr s'.clock))

def out (s : St) (res : String) : String :=
  if s.fault then "MODEL-FAULT" else s!"{res} | {liveStr s}"

def stepLine (s : St) (ws : List String) : Option (St × String) :=
  match ws with
  | ["script", i, k, acts] => do
    let s' := setScript s (← i.toNat?) (← k.toNat?) (← parseActs acts)
    pure (s', out s' "ok")
  | ["act", a] => do
    let s' := applyAct s none (← parseAct a)
    pure (s', out s' "ok")
  | ["mkpair", i] => do let s' := mkPair s (← i.toNat?); pure (s', out s' "ok")
  | ["mklisten", i] => do let s' := mkListener s (← i.toNat?); pure (s', out s' "ok")
  | ["mkconn", i] => do let s' := mkEst s (← i.toNat?); pure (s', out s' "ok")
  | ["psend", i, n] => do
    let n ← n.toNat?
    if n = 0 then none
    let s' := envStep s (.peerSend (← i.toNat?) n); pure (s', out s' "ok")
  | ["pclose", i] => do let s' := envStep s (.peerClose (← i.toNat?)); pure (s', out s' "ok")
  | ["dial", i] => do let s' := envStep s (.dial (← i.toNat?)); pure (s', out s' "ok")
  | ["adv", d] => do let s' := envStep s (.advance (← d.toNat?)); pure (s', out s' "ok")
  | ["cfail", i] => do let s' := envStep s (.connFail (← i.toNat?)); pure (s', out s' "ok")
  | ["runmt", d] => do
    -- a second thread calls interrupt() <d> microseconds after it was started, concurrently with run();
    -- no virtual time passes and the kernel reports nothing but the event descriptor
    let _ ← d.toNat?
    let (s', evs) := runLoop 100000 (enterRun (interrupt s)) .all [] []
    pure (s', out s' (if evs.isEmpty then "-" else " ".intercalate evs))
  | "run" :: o :: entries => do
    let o ← C13.parseOutcome o
    let es ← entries.mapM parseEntry
    let (s', evs) := runLoop 100000 (enterRun s) o es []
    pure (s', out s' (if evs.isEmpty then "-" else " ".intercalate evs))
  | _ => none

end C14

structure DState where
  s13 : C13.St := C13.init
  s14 : C14.St := C14.init

def stepLine (st : DState) (ws : List String) : DState × String :=
  match ws with
  | ["reset"] => ({}, "ok")
  | _ =>
    match C13.parseOp ws with
    | some op =>
      match C13.step st.s13 op with
      | some (s', o) => ({ st with s13 := s' }, C13.obs s' o)
      | none => (st, "bad-op")
    | none =>
      match C14.stepLine st.s14 ws with
      | some (s', o) => ({ st with s14 := s' }, o)
      | none => (st, "bad-op")

end Nstd.Server

def main : IO Unit := Nstd.Common.ioLoop ({} : Nstd.Server.DState) Nstd.Server.stepLine
