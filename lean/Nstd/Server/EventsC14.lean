import Nstd.Server.StepC14
/-
  C14 — which callbacks a step of run() can perform, and to which objects.
-/
namespace Nstd.Server.C14
open Nstd.Server.C13 (Outcome SendRes sendOS)

/-- the object a callback is delivered to is in the object table of its kind -/
def LiveFor (s : St) : Ev → Prop
  | .activated t _ _ => s.timers t ≠ none
  | .onRead c => s.clients c ≠ none
  | .onWrite c => s.clients c ≠ none
  | .onClosed c => s.clients c ≠ none
  | .onAccepted l _ => s.listeners l ≠ none
  | .onConnected e _ => s.ests e ≠ none
  | .onAbolished e => s.ests e ≠ none
  | .returned => True

/-- id of the object that receives the callback -/
def callee : Ev → Option Id
  | .activated t _ _ => some t
  | .onRead c => some c
  | .onWrite c => some c
  | .onClosed c => some c
  | .onAccepted l _ => some l
  | .onConnected e _ => some e
  | .onAbolished e => some e
  | .returned => none

theorem liveFor_live (s : St) (e : Ev) (i : Id) (h : LiveFor s e) (hc : callee e = some i) : Live s i := by
  cases e <;> simp [callee] at hc <;> subst hc <;> simp [LiveFor] at h
  · exact Or.inl h
  · exact Or.inr (Or.inl h)
  · exact Or.inr (Or.inl h)
  · exact Or.inr (Or.inl h)
  · exact Or.inr (Or.inr (Or.inl h))
  · exact Or.inr (Or.inr (Or.inr h))
  · exact Or.inr (Or.inr (Or.inr h))

theorem writeReady_evs' (s : St) (i : Id) (o : Outcome) :
    ∀ e, e ∈ (writeReady s i o).2 → (e = .onClosed i ∨ e = .onWrite i) ∧ s.clients i ≠ none := by
  unfold writeReady
  cases hc : s.clients i with
  | none => simp
  | some c =>
    dsimp only
    repeat' split
    all_goals simp

/-- the event kinds `dispatch` can deliver for a poll event `(i, fl)` -/
def KindFor (i : Id) (fl : Flags) : Ev → Prop
  | .onRead c => c = i ∧ fl.r = true
  | .onWrite c => c = i ∧ fl.w = true ∧ fl.r = false
  | .onClosed c => c = i ∧ fl.w = true ∧ fl.r = false
  | .onAccepted l _ => l = i ∧ fl.a = true ∧ fl.r = false ∧ fl.w = false
  | .onConnected e _ => e = i ∧ fl.c = true ∧ fl.r = false ∧ fl.w = false ∧ fl.a = false
  | .onAbolished e => e = i ∧ fl.c = true ∧ fl.r = false ∧ fl.w = false ∧ fl.a = false
  | .activated _ _ _ => False
  | .returned => True

theorem dispatch_evs (s : St) (ev : Option (Id × Flags)) (o : Outcome) :
    ∀ e, e ∈ (dispatch s ev o).2 → LiveFor s e ∧ (e = .returned ∨ ∃ i fl, ev = some (i, fl) ∧ KindFor i fl e) := by
  unfold dispatch
  split
  · split <;> simp [LiveFor]
  · rename_i i fl
    split
    · split <;> simp [LiveFor]
    · rename_i hnz
      by_cases hr : fl.r = true
      · simp only [hr, if_true]
        repeat' split
        all_goals simp_all [LiveFor, KindFor]
        all_goals (refine ⟨i, fl, ⟨rfl, rfl⟩, ?_⟩; simp_all)
      · have hr' : fl.r = false := by simpa using hr
        simp only [hr', Bool.false_eq_true, if_false]
        by_cases hw : fl.w = true
        · simp only [hw, if_true]
          intro e he
          obtain ⟨h1, h2⟩ := writeReady_evs' s i o e he
          rcases h1 with rfl | rfl
          · exact ⟨h2, Or.inr ⟨i, fl, rfl, rfl, hw, hr'⟩⟩
          · exact ⟨h2, Or.inr ⟨i, fl, rfl, rfl, hw, hr'⟩⟩
        · have hw' : fl.w = false := by simpa using hw
          simp only [hw', Bool.false_eq_true, if_false]
          by_cases ha : fl.a = true
          · simp only [ha, if_true]
            repeat' split
            all_goals simp_all [LiveFor, KindFor]
            all_goals (refine ⟨i, fl, ⟨rfl, rfl⟩, ?_⟩; simp_all)
          · have ha' : fl.a = false := by simpa using ha
            have hcc : fl.c = true := by
              unfold Flags.isZero at hnz
              cases h1 : fl.c with
              | true => rfl
              | false => simp [h1, hr', hw', ha'] at hnz
            simp only [ha', Bool.false_eq_true, if_false]
            repeat' split
            all_goals simp_all [LiveFor, KindFor]
            all_goals (refine ⟨i, fl, ⟨rfl, rfl⟩, ?_⟩; simp_all)

theorem pollStep_tables (s : St) (inp : PollIn) :
    (pollStep s inp).1.clients = s.clients ∧ (pollStep s inp).1.listeners = s.listeners ∧
    (pollStep s inp).1.ests = s.ests ∧ (pollStep s inp).1.sockets = s.sockets ∧
    (pollStep s inp).1.timers = s.timers := by
  unfold pollStep
  dsimp only
  repeat' split
  all_goals exact ⟨rfl, rfl, rfl, rfl, rfl⟩

/-- every callback of a step goes to an object that is in its object table when the step starts;
    a timer is activated only from the head of the queue, when its key is not after `now` -/
theorem step_evs (s : St) (inp : PollIn) (o : Outcome) :
    ∀ e, e ∈ (step s inp o).2 → LiveFor s e ∧
      (∀ t now due, e = .activated t now due →
        s.pc = .timers now ∧ due ≤ now ∧ s.queue.head? = some (due, some t)) := by
  unfold step
  split
  · simp
  · rename_i now hpc
    split
    · simp
    · rename_i k v rest hq
      split
      · rename_i hk
        split
        · split
          · rename_i t ti ht
            intro e he
            simp only [List.mem_singleton] at he
            subst he
            refine ⟨by simp [LiveFor, ht], ?_⟩
            intro t' now' due' heq
            injection heq with h1 h2 h3
            subst h1; subst h2; subst h3
            exact ⟨hpc, by omega, by rw [hq]; rfl⟩
          · simp
        · simp
      · simp
  · split
    · split <;> simp
    · rename_i c rest hcl
      dsimp only
      split
      · rename_i cl hc
        split
        · intro e he
          simp only [List.mem_singleton] at he
          subst he
          exact ⟨by simp [LiveFor, hc], by intro _ _ _ h; simp at h⟩
        · simp
      · simp
  · dsimp only
    have hd := dispatch_evs (pollStep s inp).1 (pollStep s inp).2 o
    obtain ⟨t1, t2, t3, t4, t5⟩ := pollStep_tables s inp
    have key : ∀ e, e ∈ (dispatch (pollStep s inp).1 (pollStep s inp).2 o).2 → LiveFor s e ∧
        (∀ t now due, e = .activated t now due →
          s.pc = .timers now ∧ due ≤ now ∧ s.queue.head? = some (due, some t)) := by
      intro e he
      obtain ⟨h1, h2⟩ := hd e he
      refine ⟨?_, ?_⟩
      · cases e <;> simp only [LiveFor] at h1 ⊢
        · rw [← t5]; exact h1
        · rw [← t1]; exact h1
        · rw [← t1]; exact h1
        · rw [← t1]; exact h1
        · rw [← t2]; exact h1
        · rw [← t3]; exact h1
        · rw [← t3]; exact h1
      · intro t now due heq
        subst heq
        rcases h2 with h2 | ⟨i, fl, _, h2⟩
        · simp at h2
        · simp [KindFor] at h2
    split
    · exact key
    · exact key

end Nstd.Server.C14
