import Nstd.Server.LemmasC14U
/-
  C14 — the socket part of the invariant (`InvS`): every buffered poll event belongs to a registered
  socket and carries only registered flags; a registered socket is a live object whose kind matches its
  flags; every client outside a running onAccepted/onConnected has a callback; the closing list holds
  live clients; and the model never reached a `fault` (null / dangling pointer use in the real code).
-/
namespace Nstd.Server.C14
open Nstd.Server.C13 (Outcome SendRes sendOS)

abbrev L := List (Id × Flags)

/-! ### association lists -/

theorem lookup_setId_self (l : L) (i : Id) (f x : Flags) (h : lookup l i = some x) : lookup (setId l i f) i = some f := by
  induction l with
  | nil => simp [lookup] at h
  | cons a r ih =>
    obtain ⟨j, g⟩ := a
    unfold setId at *
    by_cases hj : j = i
    · simp [lookup, hj]
    · simp only [lookup, hj, if_false] at h
      simp only [List.map_cons, hj, if_false, lookup]
      exact ih h

theorem lookup_setId_ne (l : L) (i j : Id) (f : Flags) (h : j ≠ i) : lookup (setId l i f) j = lookup l j := by
  induction l with
  | nil => simp [setId, lookup]
  | cons a r ih =>
    obtain ⟨k, g⟩ := a
    unfold setId at *
    by_cases hk : k = i
    · subst hk
      simp only [List.map_cons, if_true, lookup]
      have : ¬ k = j := fun e => h e.symm
      simp only [this, if_false]; exact ih
    · simp only [List.map_cons, hk, if_false, lookup]
      by_cases hkj : k = j
      · simp [hkj]
      · simp only [hkj, if_false]; exact ih

theorem eraseId_cons (k : Id) (g : Flags) (r : L) (i : Id) :
    eraseId ((k, g) :: r) i = if k = i then eraseId r i else (k, g) :: eraseId r i := by
  unfold eraseId
  by_cases hk : k = i <;> simp [List.filter_cons, hk]

theorem lookup_eraseId_self (l : L) (i : Id) : lookup (eraseId l i) i = none := by
  induction l with
  | nil => simp [eraseId, lookup]
  | cons a r ih =>
    obtain ⟨k, g⟩ := a
    rw [eraseId_cons]
    by_cases hk : k = i
    · simp only [hk, if_true]; exact ih
    · simp only [hk, if_false, lookup]; exact ih

theorem lookup_eraseId_ne (l : L) (i j : Id) (h : j ≠ i) : lookup (eraseId l i) j = lookup l j := by
  induction l with
  | nil => simp [eraseId, lookup]
  | cons a r ih =>
    obtain ⟨k, g⟩ := a
    rw [eraseId_cons]
    by_cases hk : k = i
    · subst hk
      have : ¬ k = j := fun e => h e.symm
      simp only [if_true, lookup, this, if_false]; exact ih
    · simp only [hk, if_false, lookup]
      by_cases hkj : k = j
      · simp [hkj]
      · simp only [hkj, if_false]; exact ih

theorem lookup_append_self (l : L) (i : Id) (f : Flags) (h : lookup l i = none) : lookup (l ++ [(i, f)]) i = some f := by
  induction l with
  | nil => simp [lookup]
  | cons a r ih =>
    obtain ⟨k, g⟩ := a
    by_cases hk : k = i
    · simp [lookup, hk] at h
    · simp only [lookup, hk, if_false] at h
      simp only [List.cons_append, lookup, hk, if_false]; exact ih h

theorem lookup_append_ne (l : L) (i j : Id) (f : Flags) (h : j ≠ i) : lookup (l ++ [(i, f)]) j = lookup l j := by
  induction l with
  | nil =>
    have : ¬ i = j := fun e => h e.symm
    simp [lookup, this]
  | cons a r ih =>
    obtain ⟨k, g⟩ := a
    by_cases hk : k = j
    · simp [lookup, hk]
    · simp only [List.cons_append, lookup, hk, if_false]; exact ih

theorem mem_of_lookup (l : L) (i : Id) (f : Flags) (h : lookup l i = some f) : (i, f) ∈ l := by
  induction l with
  | nil => simp [lookup] at h
  | cons a r ih =>
    obtain ⟨k, g⟩ := a
    by_cases hk : k = i
    · simp [lookup, hk] at h; simp [hk, h]
    · simp only [lookup, hk, if_false] at h
      exact List.mem_cons_of_mem _ (ih h)

theorem lookup_none_of_not_mem (l : L) (i : Id) (h : ∀ f, (i, f) ∉ l) : lookup l i = none := by
  cases hl : lookup l i with
  | none => rfl
  | some f => exact absurd (mem_of_lookup l i f hl) (h f)

theorem not_mem_of_lookup_none (l : L) (i : Id) (h : lookup l i = none) : ∀ f, (i, f) ∉ l := by
  induction l with
  | nil => simp
  | cons a r ih =>
    obtain ⟨k, g⟩ := a
    by_cases hk : k = i
    · simp [lookup, hk] at h
    · simp only [lookup, hk, if_false] at h
      intro f hf
      rcases List.mem_cons.mp hf with h0 | h0
      · simp at h0; exact hk h0.1.symm
      · exact ih h f h0

theorem mem_setId (l : L) (i j : Id) (f fl : Flags) (h : (j, fl) ∈ setId l i f) :
    (j = i ∧ fl = f) ∨ (j ≠ i ∧ (j, fl) ∈ l) := by
  unfold setId at h
  rw [List.mem_map] at h
  obtain ⟨⟨k, g⟩, hm, he⟩ := h
  by_cases hk : k = i
  · simp [hk] at he; exact Or.inl ⟨he.1.symm, he.2.symm⟩
  · simp [hk] at he; obtain ⟨rfl, rfl⟩ := he; exact Or.inr ⟨hk, hm⟩

theorem mem_eraseId (l : L) (i j : Id) (fl : Flags) (h : (j, fl) ∈ eraseId l i) : j ≠ i ∧ (j, fl) ∈ l := by
  unfold eraseId at h
  rw [List.mem_filter] at h
  exact ⟨by simpa using h.2, h.1⟩

/-! ### flags -/

theorem sub_minus (sel old ev : Flags) (h : sel.sub old) : (sel.minus (old.minus ev)).sub ev := by
  obtain ⟨a, b, c, d⟩ := h
  refine ⟨?_, ?_, ?_, ?_⟩ <;> simp [Flags.minus] <;> intro h1 h2
  · rcases h2 with h2 | h2
    · have := a h1; simp [h2] at this
    · exact h2
  · rcases h2 with h2 | h2
    · have := b h1; simp [h2] at this
    · exact h2
  · rcases h2 with h2 | h2
    · have := c h1; simp [h2] at this
    · exact h2
  · rcases h2 with h2 | h2
    · have := d h1; simp [h2] at this
    · exact h2

theorem unmap_sub (n : Native) (ev : Flags) : (unmap n ev).sub ev := by
  unfold unmap
  dsimp only
  refine ⟨?_, ?_, ?_, ?_⟩ <;> (repeat' split) <;> simp [Flags.union]

theorem sub_refl (f : Flags) : f.sub f := ⟨id, id, id, id⟩

/-! ### the invariant -/

/-- kind of object a registration belongs to -/
def KindOk (s : St) (i : Id) (reg : Flags) : Prop :=
  (∃ c, s.clients i = some c ∧ reg.a = false ∧ reg.c = false) ∨
  (∃ l, s.listeners i = some l ∧ reg.r = false ∧ reg.w = false ∧ reg.c = false) ∨
  (∃ e, s.ests i = some e ∧ reg.r = false ∧ reg.w = false ∧ reg.a = false)

structure InvS (s : St) (nc : Option Id) : Prop where
  selSub : ∀ i fl, (i, fl) ∈ s.selected → ∃ reg, lookup s.sockets i = some reg ∧ fl.sub reg
  kind : ∀ i reg, lookup s.sockets i = some reg → KindOk s i reg
  hasCb : ∀ i c, s.clients i = some c → c.hasCb = true ∨ nc = some i
  closing : ∀ i, i ∈ s.closing → s.clients i ≠ none
  ncLive : ∀ i, nc = some i → ∃ c, s.clients i = some c ∧ c.hasCb = false
  noFault : s.fault = false
  ncBig : ∀ i, nc = some i → 1000 ≤ i

theorem invS_init : InvS init none := by
  refine ⟨?_, ?_, ?_, ?_, ?_, ?_, ?_⟩ <;> simp [init, lookup]

/-- everything but the two poll tables is unchanged -/
def SameX (s s' : St) : Prop :=
  s'.clients = s.clients ∧ s'.listeners = s.listeners ∧ s'.ests = s.ests ∧ s'.closing = s.closing ∧ s'.fault = s.fault

/-- `Poll::set`: what it does to the two tables -/
theorem pollSet_spec (s : St) (i : Id) (ev : Flags)
    (hsel : ∀ j fl, (j, fl) ∈ s.selected → ∃ reg, lookup s.sockets j = some reg ∧ fl.sub reg) :
    SameX s (pollSet s i ev) ∧
    lookup (pollSet s i ev).sockets i = some ev ∧
    (∀ j, j ≠ i → lookup (pollSet s i ev).sockets j = lookup s.sockets j) ∧
    (∀ j fl, (j, fl) ∈ (pollSet s i ev).selected → ∃ reg, lookup (pollSet s i ev).sockets j = some reg ∧ fl.sub reg) := by
  unfold pollSet
  cases hold : lookup s.sockets i with
  | none =>
    dsimp only
    refine ⟨⟨rfl, rfl, rfl, rfl, rfl⟩, lookup_append_self _ _ _ hold, fun j hj => lookup_append_ne _ _ _ _ hj, ?_⟩
    intro j fl hm
    obtain ⟨reg, h1, h2⟩ := hsel j fl hm
    have hji : j ≠ i := by intro e; subst e; rw [hold] at h1; simp at h1
    exact ⟨reg, by rw [lookup_append_ne _ _ _ _ hji]; exact h1, h2⟩
  | some old =>
    dsimp only
    by_cases he : old = ev
    · simp only [he, if_true]
      exact ⟨⟨rfl, rfl, rfl, rfl, rfl⟩, by rw [hold, he], by simp, hsel⟩
    · simp only [he, if_false]
      have hs1 := lookup_setId_self s.sockets i ev old hold
      have hs2 : ∀ j, j ≠ i → lookup (setId s.sockets i ev) j = lookup s.sockets j :=
        fun j hj => lookup_setId_ne _ _ _ _ hj
      cases hsl : lookup s.selected i with
      | none =>
        dsimp only
        refine ⟨⟨rfl, rfl, rfl, rfl, rfl⟩, hs1, hs2, ?_⟩
        intro j fl hm
        have hji : j ≠ i := by intro e; subst e; exact not_mem_of_lookup_none _ _ hsl fl hm
        obtain ⟨reg, h1, h2⟩ := hsel j fl hm
        exact ⟨reg, by rw [hs2 j hji]; exact h1, h2⟩
      | some sel =>
        dsimp only
        have hselsub : sel.sub old := by
          obtain ⟨reg, h1, h2⟩ := hsel i sel (mem_of_lookup _ _ _ hsl)
          rw [hold] at h1; injection h1 with h1; subst h1; exact h2
        split
        · refine ⟨⟨rfl, rfl, rfl, rfl, rfl⟩, hs1, hs2, ?_⟩
          intro j fl hm
          obtain ⟨hji, hm'⟩ := mem_eraseId _ _ _ _ hm
          obtain ⟨reg, h1, h2⟩ := hsel j fl hm'
          exact ⟨reg, by show lookup (setId s.sockets i ev) j = _; rw [hs2 j hji]; exact h1, h2⟩
        · refine ⟨⟨rfl, rfl, rfl, rfl, rfl⟩, hs1, hs2, ?_⟩
          intro j fl hm
          rcases mem_setId _ _ _ _ _ hm with ⟨rfl, rfl⟩ | ⟨hji, hm'⟩
          · exact ⟨ev, hs1, sub_minus sel old ev hselsub⟩
          · obtain ⟨reg, h1, h2⟩ := hsel j fl hm'
            exact ⟨reg, by show lookup (setId s.sockets i ev) j = _; rw [hs2 j hji]; exact h1, h2⟩

/-- `Poll::remove` -/
theorem pollRemove_spec (s : St) (i : Id)
    (hsel : ∀ j fl, (j, fl) ∈ s.selected → ∃ reg, lookup s.sockets j = some reg ∧ fl.sub reg) :
    SameX s (pollRemove s i) ∧
    lookup (pollRemove s i).sockets i = none ∧
    (∀ j, j ≠ i → lookup (pollRemove s i).sockets j = lookup s.sockets j) ∧
    (∀ j fl, (j, fl) ∈ (pollRemove s i).selected → ∃ reg, lookup (pollRemove s i).sockets j = some reg ∧ fl.sub reg) := by
  unfold pollRemove
  cases hold : lookup s.sockets i with
  | none => exact ⟨⟨rfl, rfl, rfl, rfl, rfl⟩, hold, fun _ _ => rfl, hsel⟩
  | some old =>
    dsimp only
    refine ⟨⟨rfl, rfl, rfl, rfl, rfl⟩, lookup_eraseId_self _ _, fun j hj => lookup_eraseId_ne _ _ _ hj, ?_⟩
    intro j fl hm
    obtain ⟨hji, hm'⟩ := mem_eraseId _ _ _ _ hm
    obtain ⟨reg, h1, h2⟩ := hsel j fl hm'
    exact ⟨reg, by rw [lookup_eraseId_ne _ _ _ hji]; exact h1, h2⟩

end Nstd.Server.C14
