import Nstd.Server.ModelC14
/-
  C14 — the timer part of the invariant: the queue is key-sorted, holds exactly one entry per
  live timer (keyed by its execution time), none for removed timers, and always the default timer.
-/
namespace Nstd.Server.C14

abbrev Q := List (Int × Option Id)

def entsOf (q : Q) (i : Id) : Q := q.filter (fun e => e.2 == some i)

def SortedQ (q : Q) : Prop := q.Pairwise (fun a b => a.1 ≤ b.1)

theorem mem_qInsert (q : Q) (k : Int) (v : Option Id) (x : Int × Option Id) :
    x ∈ qInsert q k v ↔ x = (k, v) ∨ x ∈ q := by
  induction q with
  | nil => simp [qInsert]
  | cons a r ih =>
    obtain ⟨k', v'⟩ := a
    unfold qInsert
    by_cases h : k < k'
    · simp [h]
    · simp only [h, if_false, List.mem_cons, ih]
      constructor
      · rintro (h1 | h1 | h1) <;> simp [h1]
      · rintro (h1 | h1 | h1) <;> simp [h1]

theorem sorted_qInsert (q : Q) (k : Int) (v : Option Id) (h : SortedQ q) : SortedQ (qInsert q k v) := by
  induction q with
  | nil => simp [qInsert, SortedQ]
  | cons a r ih =>
    obtain ⟨k', v'⟩ := a
    unfold SortedQ at h
    rw [List.pairwise_cons] at h
    unfold qInsert
    by_cases hk : k < k'
    · simp only [hk, if_true]
      unfold SortedQ
      rw [List.pairwise_cons]
      refine ⟨?_, List.pairwise_cons.mpr h⟩
      intro x hx
      rcases List.mem_cons.mp hx with rfl | hx
      · exact Int.le_of_lt hk
      · have := h.1 x hx; simp at this ⊢; omega
    · simp only [hk, if_false]
      unfold SortedQ
      rw [List.pairwise_cons]
      refine ⟨?_, ih h.2⟩
      intro x hx
      rcases (mem_qInsert r k v x).mp hx with rfl | hx
      · simp; omega
      · exact h.1 x hx

theorem ents_qInsert_ne (q : Q) (k : Int) (v : Option Id) (i : Id) (h : v ≠ some i) :
    entsOf (qInsert q k v) i = entsOf q i := by
  induction q with
  | nil => simp [qInsert, entsOf, h]
  | cons a r ih =>
    obtain ⟨k', v'⟩ := a
    unfold qInsert
    by_cases hk : k < k'
    · simp only [hk, if_true, entsOf, List.filter_cons]
      simp [h]
    · simp only [hk, if_false]
      unfold entsOf at ih ⊢
      simp only [List.filter_cons, ih]

theorem ents_qInsert_self (q : Q) (k : Int) (i : Id) (h : entsOf q i = []) :
    entsOf (qInsert q k (some i)) i = [(k, some i)] := by
  induction q with
  | nil => simp [qInsert, entsOf]
  | cons a r ih =>
    obtain ⟨k', v'⟩ := a
    unfold entsOf at h
    rw [List.filter_cons] at h
    by_cases hv : (v' == some i) = true
    · simp [hv] at h
    · simp only [hv, Bool.false_eq_true, if_false] at h
      unfold qInsert
      by_cases hk : k < k'
      · simp only [hk, if_true, entsOf, List.filter_cons]
        simp [hv, h]
      · simp only [hk, if_false, entsOf, List.filter_cons]
        simp only [hv, Bool.false_eq_true, if_false]
        exact ih h

theorem ents_nil_of_not_mem (q : Q) (i : Id) (h : ∀ k, (k, some i) ∉ q) : entsOf q i = [] := by
  unfold entsOf
  rw [List.filter_eq_nil_iff]
  intro e he
  obtain ⟨k, v⟩ := e
  intro hv
  have : v = some i := by simpa using hv
  subst this
  exact h k he

/-- `qEraseTimer` on a sorted queue that holds exactly one entry of timer `i`, keyed `key` -/
theorem qErase_spec (q : Q) (key : Int) (i : Id) (hs : SortedQ q) (he : entsOf q i = [(key, some i)]) :
    entsOf (qEraseTimer q key i) i = [] ∧
    (∀ j, j ≠ i → entsOf (qEraseTimer q key i) j = entsOf q j) ∧
    SortedQ (qEraseTimer q key i) ∧
    (∀ k, (k, none) ∈ q → (k, none) ∈ qEraseTimer q key i) := by
  induction q with
  | nil => simp [entsOf] at he
  | cons a r ih =>
    obtain ⟨k, v⟩ := a
    have hs' := hs
    unfold SortedQ at hs
    rw [List.pairwise_cons] at hs
    unfold entsOf at he
    rw [List.filter_cons] at he
    unfold qEraseTimer
    by_cases h1 : k < key
    · simp only [h1, if_true]
      have hv : (v == some i) = false := by
        cases hvv : (v == some i) with
        | false => rfl
        | true =>
          simp [hvv] at he
          omega
      simp only [hv, Bool.false_eq_true, if_false] at he
      obtain ⟨a1, a2, a3, a4⟩ := ih hs.2 he
      refine ⟨?_, ?_, ?_, ?_⟩
      · unfold entsOf; rw [List.filter_cons]; simp only [hv, Bool.false_eq_true, if_false]; exact a1
      · intro j hj; unfold entsOf; rw [List.filter_cons, List.filter_cons]
        have := a2 j hj; unfold entsOf at this; rw [this]
      · unfold SortedQ; rw [List.pairwise_cons]
        refine ⟨?_, a3⟩
        intro x hx
        -- every element of the erased queue is an element of r
        have hsub : ∀ (q : Q) x, x ∈ qEraseTimer q key i → x ∈ q := by
          intro q
          induction q with
          | nil => simp [qEraseTimer]
          | cons b t iht =>
            obtain ⟨kb, vb⟩ := b
            intro x hx
            unfold qEraseTimer at hx
            by_cases c1 : kb < key
            · simp only [c1, if_true] at hx
              rcases List.mem_cons.mp hx with rfl | hx
              · simp
              · exact List.mem_cons_of_mem _ (iht x hx)
            · simp only [c1, if_false] at hx
              by_cases c2 : kb = key
              · simp only [c2, if_true] at hx
                by_cases c3 : vb = some i
                · simp only [c3, if_true] at hx; exact List.mem_cons_of_mem _ hx
                · simp only [c3, if_false] at hx
                  rcases List.mem_cons.mp hx with rfl | hx
                  · simp [c2]
                  · exact List.mem_cons_of_mem _ (iht x hx)
              · simp only [c2, if_false] at hx; exact hx
        exact hs.1 x (hsub r x hx)
      · intro k0 hk0
        rcases List.mem_cons.mp hk0 with h0 | h0
        · simp [h0]
        · exact List.mem_cons_of_mem _ (a4 k0 h0)
    · simp only [h1, if_false]
      by_cases h2 : k = key
      · simp only [h2, if_true]
        by_cases h3 : v = some i
        · simp only [h3, if_true]
          subst h3
          rw [show ((some i : Option Id) == some i) = true from by simp] at he
          simp only [if_true] at he
          refine ⟨?_, ?_, hs.2, ?_⟩
          · unfold entsOf; exact (List.cons.inj he).2
          · intro j hj; unfold entsOf; rw [List.filter_cons]
            have : ((some i : Option Id) == some j) = false := by simp; exact fun h => hj h.symm
            simp [this]
          · intro k0 hk0
            rcases List.mem_cons.mp hk0 with h0 | h0
            · simp at h0
            · exact h0
        · simp only [h3, if_false]
          have hv : (v == some i) = false := by simp [h3]
          simp only [hv, Bool.false_eq_true, if_false] at he
          obtain ⟨a1, a2, a3, a4⟩ := ih hs.2 he
          refine ⟨?_, ?_, ?_, ?_⟩
          · unfold entsOf; rw [List.filter_cons]; simp only [hv, Bool.false_eq_true, if_false]; exact a1
          · intro j hj; unfold entsOf; rw [List.filter_cons, List.filter_cons]
            have := a2 j hj; unfold entsOf at this; rw [this]
          · unfold SortedQ; rw [List.pairwise_cons]
            refine ⟨?_, a3⟩
            intro x hx
            have hmem : x ∈ r := by
              -- erased queue ⊆ r  (same argument as above, via filter-free membership)
              have hsub : ∀ (q : Q) x, x ∈ qEraseTimer q key i → x ∈ q := by
                intro q
                induction q with
                | nil => simp [qEraseTimer]
                | cons b t iht =>
                  obtain ⟨kb, vb⟩ := b
                  intro x hx
                  unfold qEraseTimer at hx
                  by_cases c1 : kb < key
                  · simp only [c1, if_true] at hx
                    rcases List.mem_cons.mp hx with rfl | hx
                    · simp
                    · exact List.mem_cons_of_mem _ (iht x hx)
                  · simp only [c1, if_false] at hx
                    by_cases c2 : kb = key
                    · simp only [c2, if_true] at hx
                      by_cases c3 : vb = some i
                      · simp only [c3, if_true] at hx; exact List.mem_cons_of_mem _ hx
                      · simp only [c3, if_false] at hx
                        rcases List.mem_cons.mp hx with rfl | hx
                        · simp [c2]
                        · exact List.mem_cons_of_mem _ (iht x hx)
                    · simp only [c2, if_false] at hx; exact hx
              exact hsub r x hx
            have := hs.1 x hmem
            simpa [h2] using this
          · intro k0 hk0
            rcases List.mem_cons.mp hk0 with h0 | h0
            · simp [h0]
            · exact List.mem_cons_of_mem _ (a4 k0 h0)
      · -- the key has been passed: impossible, the entry of the timer lies further on with a smaller key
        exfalso
        have hgt : key < k := by omega
        have hmem : (key, some i) ∈ (k, v) :: r := by
          have : (key, some i) ∈ List.filter (fun e => e.2 == some i) ((k, v) :: r) := by
            rw [List.filter_cons, he]; simp
          exact (List.mem_filter.mp this).1
        rcases List.mem_cons.mp hmem with h0 | h0
        · simp at h0; omega
        · have := hs.1 _ h0; simp at this; omega

structure InvT (s : St) : Prop where
  sorted : SortedQ s.queue
  live : ∀ i t, s.timers i = some t → entsOf s.queue i = [(t.exec, some i)]
  dead : ∀ i, s.timers i = none → entsOf s.queue i = []
  dflt : ∃ k, (k, none) ∈ s.queue
  usedT : ∀ i t, s.timers i = some t → s.used i = true
  pos : ∀ i t, s.timers i = some t → 0 < t.interval

theorem invT_init : InvT init := by
  refine ⟨?_, ?_, ?_, ⟨0, ?_⟩, ?_, ?_⟩ <;> simp [init, SortedQ, entsOf]

/-- a state change that does not touch the timer structures (and only marks more ids used) -/
def SameT (s s' : St) : Prop :=
  s'.queue = s.queue ∧ s'.timers = s.timers ∧ ∀ i, s.used i = true → s'.used i = true

theorem SameT.refl (s : St) : SameT s s := ⟨rfl, rfl, fun _ h => h⟩

theorem SameT.trans {a b c : St} (h1 : SameT a b) (h2 : SameT b c) : SameT a c :=
  ⟨h2.1.trans h1.1, h2.2.1.trans h1.2.1, fun i h => h2.2.2 i (h1.2.2 i h)⟩

theorem InvT.same {s s' : St} (h : InvT s) (hs : SameT s s') : InvT s' := by
  obtain ⟨q, t, u⟩ := hs
  refine ⟨?_, ?_, ?_, ?_, ?_, ?_⟩
  · rw [q]; exact h.sorted
  · intro i ti hi; rw [q]; rw [t] at hi; exact h.live i ti hi
  · intro i hi; rw [q]; rw [t] at hi; exact h.dead i hi
  · rw [q]; exact h.dflt
  · intro i ti hi; rw [t] at hi; exact u i (h.usedT i ti hi)
  · intro i ti hi; rw [t] at hi; exact h.pos i ti hi

end Nstd.Server.C14
