/-
  Common helpers for the line-protocol drivers: hex coding of byte lists,
  number parsing and the read-eval-print loop.  Core Lean only.
-/
namespace Nstd.Common

def hexDigit (n : Nat) : Char :=
  if n < 10 then Char.ofNat (48 + n) else Char.ofNat (87 + n)

def byteHex (b : Nat) : String :=
  String.ofList [hexDigit (b / 16 % 16), hexDigit (b % 16)]

/-- hex text of a byte list, `-` for the empty list (so that it stays one token) -/
def toHex (bs : List Nat) : String :=
  if bs.isEmpty then "-" else String.join (bs.map byteHex)

def hexVal (c : Char) : Option Nat :=
  if '0' ≤ c ∧ c ≤ '9' then some (c.toNat - 48)
  else if 'a' ≤ c ∧ c ≤ 'f' then some (c.toNat - 87)
  else if 'A' ≤ c ∧ c ≤ 'F' then some (c.toNat - 55)
  else none

def fromHexChars : List Char → Option (List Nat)
  | [] => some []
  | [_] => none
  | a :: b :: rest => do
    let x ← hexVal a
    let y ← hexVal b
    let r ← fromHexChars rest
    pure ((x * 16 + y) :: r)

def fromHex (s : String) : Option (List Nat) :=
  if s == "-" then some [] else fromHexChars s.toList

def words (line : String) : List String :=
  (line.trimAscii.toString.splitOn " ").filter (· ≠ "")

/-- read-eval-print loop: one op line in, one observation line out. -/
partial def ioLoop {σ : Type} (init : σ) (step : σ → List String → σ × String) : IO Unit := do
  let stdin ← IO.getStdin
  let stdout ← IO.getStdout
  let rec go (s : σ) : IO Unit := do
    let line ← stdin.getLine
    if line.isEmpty then
      stdout.flush
      return ()
    let ws := words line
    if ws.isEmpty then go s
    else
      let (s', out) := step s ws
      stdout.putStr (out ++ "\n")
      go s'
  go init

end Nstd.Common
