import Nstd.Life.LemmasCore
/-
  A reference operand behaves as if it had been copied first: executing a micro step with a source
  operand `r` that designates an object with payload p leads to the same state - same memory, blocks,
  containers; only the source named in the log differs - as executing it with a temporary copy `.ext p`.
-/
namespace Nstd.Life

/-- equal up to the log -/
def StEq (a b : State) : Prop :=
  a.per = b.per ∧ a.next = b.next ∧ a.mem = b.mem ∧ a.blk = b.blk ∧ a.nodes = b.nodes ∧ a.arrs = b.arrs

theorem StEq.refl (a : State) : StEq a a := ⟨rfl, rfl, rfl, rfl, rfl, rfl⟩

def OptEq : Option State → Option State → Prop
  | some a, some b => StEq a b
  | none, none => True
  | _, _ => False

theorem StEq.setNode {a b : State} (h : StEq a b) (c : Var) (n : Node) : StEq (a.setNode c n) (b.setNode c n) := by
  obtain ⟨h0, h1, h2, h3, h4, h5⟩ := h
  exact ⟨h0, h1, h2, h3, by simp [State.setNode, h4], h5⟩

theorem StEq.setArr {a b : State} (h : StEq a b) (x : Nat) (n : Arr) : StEq (a.setArr x n) (b.setArr x n) := by
  obtain ⟨h0, h1, h2, h3, h4, h5⟩ := h
  exact ⟨h0, h1, h2, h3, h4, by simp [State.setArr, h5]⟩

theorem StEq.alloc {a b : State} (h : StEq a b) (n : Nat) : StEq (a.alloc n) (b.alloc n) := by
  obtain ⟨h0, h1, h2, h3, h4, h5⟩ := h
  exact ⟨h0, by simp [State.alloc, h1], h2, by simp [State.alloc, h1, h3], h4, h5⟩

theorem StEq.ctor {a b : State} (h : StEq a b) (d : Loc) (s1 s2 : Option Loc) (p : Option Nat) :
    StEq (a.ctor d s1 p) (b.ctor d s2 p) := by
  obtain ⟨h0, h1, h2, h3, h4, h5⟩ := h
  exact ⟨h0, h1, by simp [State.ctor, h2], h3, h4, h5⟩

theorem StEq.assign {a b : State} (h : StEq a b) (d s1 s2 : Loc) (p : Option Nat) :
    StEq (a.assign d s1 p) (b.assign d s2 p) := by
  obtain ⟨h0, h1, h2, h3, h4, h5⟩ := h
  exact ⟨h0, h1, by simp [State.assign, h2], h3, h4, h5⟩

theorem StEq.dtorLocs {a b : State} (h : StEq a b) (ls : List Loc) : StEq (a.dtorLocs ls) (b.dtorLocs ls) := by
  induction ls generalizing a b with
  | nil => exact h
  | cons l rest ih =>
    simp only [State.dtorLocs]
    apply ih
    obtain ⟨h0, h1, h2, h3, h4, h5⟩ := h
    exact ⟨h0, h1, by simp [State.dtor, h2], h3, h4, h5⟩

/-- two constructor lists that agree on destinations and payloads (the named sources may differ) -/
def SameCtors : List (Loc × Option Loc × Option Nat) → List (Loc × Option Loc × Option Nat) → Prop
  | [], [] => True
  | (d1, _, p1) :: r1, (d2, _, p2) :: r2 => d1 = d2 ∧ p1 = p2 ∧ SameCtors r1 r2
  | _, _ => False

theorem StEq.ctorList {a b : State} (h : StEq a b) :
    ∀ (x y : List (Loc × Option Loc × Option Nat)), SameCtors x y → StEq (a.ctorList x) (b.ctorList y)
  | [], [], _ => h
  | (d1, s1, p1) :: r1, (d2, s2, p2) :: r2, hs => by
    obtain ⟨rfl, rfl, hr⟩ := hs
    simp only [State.ctorList]
    exact StEq.ctorList (h.ctor d1 s1 s2 p1) r1 r2 hr
  | [], _ :: _, hs => by cases hs
  | _ :: _, [], hs => by cases hs

/-- two lists of field sources that agree on fields and payloads -/
def SameSrcs : List (Nat × Option Loc × Option Nat) → List (Nat × Option Loc × Option Nat) → Prop
  | [], [] => True
  | (f1, _, p1) :: r1, (f2, _, p2) :: r2 => f1 = f2 ∧ p1 = p2 ∧ SameSrcs r1 r2
  | _, _ => False

theorem sameCtors_of_srcs (it : Item) : ∀ (x y : List (Nat × Option Loc × Option Nat)), SameSrcs x y →
    SameCtors (x.map fun (f, src, p) => (it.loc f, src, p)) (y.map fun (f, src, p) => (it.loc f, src, p))
  | [], [], _ => trivial
  | (f1, s1, p1) :: r1, (f2, s2, p2) :: r2, hs => by
    obtain ⟨rfl, rfl, hr⟩ := hs
    exact ⟨rfl, rfl, sameCtors_of_srcs it r1 r2 hr⟩
  | [], _ :: _, hs => by cases hs
  | _ :: _, [], hs => by cases hs

theorem insertNew_steq (st : State) (c : Var) (pos : Nat) (x y : List (Nat × Option Loc × Option Nat))
    (h : SameSrcs x y) : StEq (insertNew st c pos x) (insertNew st c pos y) := by
  unfold insertNew
  simp only
  generalize (if (c.k.isHash && (st.nodes c).data.isNone) = true then allocData st c else st) = s1
  generalize (if (s1.nodes c).free.isEmpty = true then allocBlock s1 c else s1) = s2
  cases (s2.nodes c).free with
  | nil => exact StEq.refl _
  | cons it rest =>
    simp only [useSlot]
    exact ((StEq.refl s2).ctorList _ _ (sameCtors_of_srcs it x y h)).setNode _ _

end Nstd.Life

namespace Nstd.Life

/-- two resolved operands that differ at most in the location named as source -/
def OpEq : Option (Option Loc × Option Nat) → Option (Option Loc × Option Nat) → Prop
  | none, none => True
  | some (l1, p1), some (l2, p2) => p1 = p2 ∧ l1.isSome = l2.isSome
  | _, _ => False

theorem OpEq.rfl' (x : Option (Option Loc × Option Nat)) : OpEq x x := by
  cases x with
  | none => trivial
  | some lp => exact ⟨rfl, rfl⟩

theorem OptEq.rfl' (x : Option State) : OptEq x x := by
  cases x with
  | none => trivial
  | some s => exact StEq.refl s

theorem mapM_sameSrcs (k1 k2 v1 v2 : Option (Option Loc × Option Nat)) (hk : OpEq k1 k2) (hv : OpEq v1 v2) :
    ∀ (fs : List Nat),
    match fs.mapM (fun f => match (if f = 0 then k1 else v1) with | some (l, p) => some (f, l, p) | none => none),
          fs.mapM (fun f => match (if f = 0 then k2 else v2) with | some (l, p) => some (f, l, p) | none => none) with
    | some x, some y => SameSrcs x y
    | none, none => True
    | _, _ => False
  | [] => by simp [SameSrcs]
  | f :: rest => by
    have ih := mapM_sameSrcs k1 k2 v1 v2 hk hv rest
    simp only [List.mapM_cons, Option.pure_def, Option.bind_eq_bind]
    have hop : OpEq (if f = 0 then k1 else v1) (if f = 0 then k2 else v2) := by
      by_cases hf : f = 0 <;> simp [hf, hk, hv]
    generalize (if f = 0 then k1 else v1) = o1 at hop
    generalize (if f = 0 then k2 else v2) = o2 at hop
    cases o1 with
    | none =>
      cases o2 with
      | none => simp
      | some y => cases hop
    | some x =>
      cases o2 with
      | none => obtain ⟨l, p⟩ := x; cases hop
      | some y =>
        obtain ⟨l1, p1⟩ := x
        obtain ⟨l2, p2⟩ := y
        obtain ⟨rfl, _⟩ := hop
        simp only [Option.bind_some]
        generalize List.mapM (fun f => match (if f = 0 then k1 else v1) with | some (l, p) => some (f, l, p) | none => none) rest = r1 at ih
        generalize List.mapM (fun f => match (if f = 0 then k2 else v2) with | some (l, p) => some (f, l, p) | none => none) rest = r2 at ih
        cases r1 with
        | none => cases r2 with
          | none => simp
          | some y => cases ih
        | some x => cases r2 with
          | none => cases ih
          | some y => simpa [SameSrcs] using ih

theorem putAssign_opteq (st : State) (it : Item) (v1 v2 : Option (Option Loc × Option Nat)) (hv : OpEq v1 v2) :
    OptEq (putAssign st it v1) (putAssign st it v2) := by
  cases v1 with
  | none => cases v2 with
    | none => trivial
    | some y => cases hv
  | some x => cases v2 with
    | none => obtain ⟨l, p⟩ := x; cases hv
    | some y =>
      obtain ⟨l1, p1⟩ := x
      obtain ⟨l2, p2⟩ := y
      obtain ⟨rfl, hl⟩ := hv
      cases l1 with
      | none => cases l2 with
        | none => trivial
        | some b => cases hl
      | some a => cases l2 with
        | none => cases hl
        | some b => exact (StEq.refl st).assign _ a b p1

theorem putResolved_opteq (st : State) (c : Var) (p : Nat) (k1 k2 v1 v2 : Option (Option Loc × Option Nat))
    (x y : List (Nat × Option Loc × Option Nat)) (hk : OpEq k1 k2) (hv : OpEq v1 v2) (hs : SameSrcs x y) :
    OptEq (putResolved st c p k1 v1 x) (putResolved st c p k2 v2 y) := by
  have hins : ∀ q, OptEq (some (insertNew st c q x)) (some (insertNew st c q y)) := fun q => insertNew_steq st c q x y hs
  unfold putResolved
  by_cases hkey : c.k.hasKey = true
  · simp only [hkey, if_true]
    cases k1 with
    | none => cases k2 with
      | none => trivial
      | some b => cases hk
    | some a => cases k2 with
      | none => obtain ⟨l, q⟩ := a; cases hk
      | some b =>
        obtain ⟨l1, q1⟩ := a
        obtain ⟨l2, q2⟩ := b
        obtain ⟨rfl, _⟩ := hk
        cases q1 with
        | none => trivial
        | some kp =>
          simp only
          by_cases hU : c.k = .U
          · simp only [hU, if_true]; exact hins _
          · simp only [hU, if_false]
            cases findField st 0 kp (st.nodes c).items with
            | none => exact hins _
            | some j =>
              simp only
              by_cases hMH : c.k = .M ∨ c.k = .H
              · simp only [hMH, if_true]
                cases (st.nodes c).items[j]? with
                | none => trivial
                | some it => exact putAssign_opteq st it v1 v2 hv
              · simp only [hMH, if_false]; exact StEq.refl st
  · simp only [hkey, Bool.false_eq_true, if_false]; exact hins _

/-- the operands `r` (a reference to an object with payload p) and a temporary copy `.ext p` -/
theorem resolveOpt_opEq (st : State) (r : SrcRef) (l : Loc) (p : Nat) (hr : resolve st r = some (some l, some p)) :
    ∃ x y, resolveOpt st (some r) = some x ∧ resolveOpt st (some (.ext p)) = some y ∧ OpEq x y := by
  refine ⟨some (some l, some p), some (some .ext, some p), by simp [resolveOpt, hr], by simp [resolveOpt, resolve, SrcRef.loc, SrcRef.payload], rfl, rfl⟩

theorem put_tail_opteq (st : State) (c : Var) (pos : Option Nat) (k1 k2 v1 v2 : Option (Option Loc × Option Nat))
    (hk : OpEq k1 k2) (hv : OpEq v1 v2) :
    OptEq
      (match fieldSrcs c.k k1 v1 with
        | none => none
        | some srcs => if pos.getD (st.nodes c).items.length > (st.nodes c).items.length then none
                       else putResolved st c (pos.getD (st.nodes c).items.length) k1 v1 srcs)
      (match fieldSrcs c.k k2 v2 with
        | none => none
        | some srcs => if pos.getD (st.nodes c).items.length > (st.nodes c).items.length then none
                       else putResolved st c (pos.getD (st.nodes c).items.length) k2 v2 srcs) := by
  have hm := mapM_sameSrcs k1 k2 v1 v2 hk hv c.k.fields
  unfold fieldSrcs
  generalize List.mapM (fun f => match (if f = 0 then k1 else v1) with | some (l, p) => some (f, l, p) | none => none) c.k.fields = r1 at hm
  generalize List.mapM (fun f => match (if f = 0 then k2 else v2) with | some (l, p) => some (f, l, p) | none => none) c.k.fields = r2 at hm
  cases r1 with
  | none => cases r2 with
    | none => trivial
    | some y => cases hm
  | some x => cases r2 with
    | none => cases hm
    | some y =>
      simp only
      by_cases hp : pos.getD (st.nodes c).items.length > (st.nodes c).items.length
      · simp only [hp, if_true]; trivial
      · simp only [hp, if_false]; exact putResolved_opteq st c _ k1 k2 v1 v2 x y hk hv hm

/-- `insert(.., value = reference to an own or foreign element)` ≡ `insert(.., copy of that element)` -/
theorem put_value_as_if_copied (st : State) (c : Var) (pos : Option Nat) (k : Option SrcRef) (r : SrcRef) (l : Loc) (p : Nat)
    (hr : resolve st r = some (some l, some p)) :
    OptEq (exec st (.put c pos k (some r))) (exec st (.put c pos k (some (.ext p)))) := by
  unfold exec
  have hval : (Micro.put c pos k (some r)).valid = (Micro.put c pos k (some (.ext p))).valid := rfl
  rw [hval]
  by_cases hv : (Micro.put c pos k (some (.ext p))).valid = true
  · simp only [hv, if_true, exec']
    by_cases ha : (st.nodes c).alive = true
    · simp only [ha, Bool.not_true, Bool.false_eq_true, if_false]
      obtain ⟨x, y, hx, hy, hxy⟩ := resolveOpt_opEq st r l p hr
      rw [hx, hy]
      cases resolveOpt st k with
      | none => trivial
      | some kr => exact put_tail_opteq st c pos kr kr x y (OpEq.rfl' kr) hxy
    · simp [ha]; trivial
  · simp only [hv, Bool.false_eq_true, if_false]; trivial

/-- `insert(key = reference to an own element, ..)` ≡ `insert(copy of that key, ..)` -/
theorem put_key_as_if_copied (st : State) (c : Var) (pos : Option Nat) (v : Option SrcRef) (r : SrcRef) (l : Loc) (p : Nat)
    (hr : resolve st r = some (some l, some p)) :
    OptEq (exec st (.put c pos (some r) v)) (exec st (.put c pos (some (.ext p)) v)) := by
  unfold exec
  have hval : (Micro.put c pos (some r) v).valid = (Micro.put c pos (some (.ext p)) v).valid := rfl
  rw [hval]
  by_cases hv : (Micro.put c pos (some (.ext p)) v).valid = true
  · simp only [hv, if_true, exec']
    by_cases ha : (st.nodes c).alive = true
    · simp only [ha, Bool.not_true, Bool.false_eq_true, if_false]
      obtain ⟨x, y, hx, hy, hxy⟩ := resolveOpt_opEq st r l p hr
      rw [hx, hy]
      simp only
      cases resolveOpt st v with
      | none => trivial
      | some vr => exact put_tail_opteq st c pos x y vr vr hxy (OpEq.rfl' vr)
    · simp [ha]; trivial
  · simp only [hv, Bool.false_eq_true, if_false]; trivial

end Nstd.Life

namespace Nstd.Life

theorem payload_of_resolve {st : State} {r : SrcRef} {l : Option Loc} {p : Option Nat} (hr : resolve st r = some (l, p)) :
    r.payload st = p := by
  unfold resolve at hr
  cases hl : r.loc st with
  | none => simp [hl] at hr
  | some l' => simp only [hl, Option.some.injEq, Prod.mk.injEq] at hr; exact hr.2

theorem resolve_ext (st : State) (p : Nat) : resolve st (.ext p) = some (some .ext, some p) := by
  simp [resolve, SrcRef.loc, SrcRef.payload]

/-- `remove(reference to an own element)` ≡ `remove(copy of it)` (identical states and logs) -/
theorem removeKey_as_if_copied (st : State) (c : Var) (r : SrcRef) (l : Loc) (p : Nat)
    (hr : resolve st r = some (some l, some p)) :
    exec st (.removeKey c r) = exec st (.removeKey c (.ext p)) := by
  have hp := payload_of_resolve hr
  have hp2 : SrcRef.payload st (.ext p) = some p := rfl
  simp only [exec, exec', Micro.valid, hp, hp2]

theorem removeVal_as_if_copied (st : State) (c : Var) (r : SrcRef) (l : Loc) (p : Nat)
    (hr : resolve st r = some (some l, some p)) :
    exec st (.removeVal c r) = exec st (.removeVal c (.ext p)) := by
  have hp := payload_of_resolve hr
  have hp2 : SrcRef.payload st (.ext p) = some p := rfl
  simp only [exec, exec', Micro.valid, hp, hp2]

/-- `*it = reference` ≡ `*it = copy` -/
theorem assignVal_as_if_copied (st : State) (c : Var) (j : Nat) (r : SrcRef) (l : Loc) (p : Nat)
    (hr : resolve st r = some (some l, some p)) :
    OptEq (exec st (.assignVal c j r)) (exec st (.assignVal c j (.ext p))) := by
  unfold exec
  have hval : (Micro.assignVal c j r).valid = (Micro.assignVal c j (.ext p)).valid := rfl
  rw [hval]
  by_cases hv : (Micro.assignVal c j (.ext p)).valid = true
  · simp only [hv, if_true, exec', hr, resolve_ext]
    by_cases h1 : 1 ∉ c.k.fields
    · simp [h1]; trivial
    · simp only [h1, if_false]
      cases (st.nodes c).items[j]? with
      | none => simp; trivial
      | some it => simp; exact (StEq.refl st).assign _ _ _ _
  · simp only [hv, Bool.false_eq_true, if_false]; trivial

/-- placement-new at the end of an array from a reference ≡ from a copy -/
theorem aPush_as_if_copied (st : State) (a : Nat) (r : SrcRef) (l : Loc) (p : Nat)
    (hr : resolve st r = some (some l, some p)) :
    OptEq (exec st (.aPush a r)) (exec st (.aPush a (.ext p))) := by
  unfold exec
  have hval : (Micro.aPush a r).valid = (Micro.aPush a (.ext p)).valid := rfl
  rw [hval]
  by_cases hv : (Micro.aPush a (.ext p)).valid = true
  · simp only [hv, if_true, exec', hr, resolve_ext]
    cases (st.arrs a).store with
    | none => simp; trivial
    | some s =>
      by_cases hc : (st.arrs a).size ≥ (st.arrs a).cap
      · simp [hc]; trivial
      · simp [hc]; exact ((StEq.refl st).ctor _ _ _ _).setArr _ _
  · simp only [hv, Bool.false_eq_true, if_false]; trivial

theorem aAssign_as_if_copied (st : State) (a j : Nat) (r : SrcRef) (l : Loc) (p : Nat)
    (hr : resolve st r = some (some l, some p)) :
    OptEq (exec st (.aAssign a j r)) (exec st (.aAssign a j (.ext p))) := by
  unfold exec
  have hval : (Micro.aAssign a j r).valid = (Micro.aAssign a j (.ext p)).valid := rfl
  rw [hval]
  by_cases hv : (Micro.aAssign a j (.ext p)).valid = true
  · simp only [hv, if_true, exec', hr, resolve_ext]
    cases (st.arrs a).store with
    | none => simp; trivial
    | some s =>
      by_cases hc : j ≥ (st.arrs a).size
      · simp [hc]; trivial
      · simp [hc]; exact (StEq.refl st).assign _ _ _ _
  · simp only [hv, Bool.false_eq_true, if_false]; trivial

end Nstd.Life

namespace Nstd.Life

/-- results equal up to the log -/
def ResEq : Res → Res → Prop
  | .ok a, .ok b => StEq a b
  | .bad, .bad => True
  | .fault, .fault => True
  | _, _ => False

theorem stepRes_single {st : State} {op1 op2 : Op} {m1 m2 : Micro}
    (h1 : compile st op1 = some [m1]) (h2 : compile st op2 = some [m2]) (he : OptEq (exec st m1) (exec st m2)) :
    ResEq (stepRes st op1) (stepRes st op2) := by
  simp only [stepRes, h1, h2, execAll]
  cases e1 : exec st m1 with
  | none => cases e2 : exec st m2 with
    | none => trivial
    | some b => rw [e1, e2] at he; cases he
  | some a => cases e2 : exec st m2 with
    | none => rw [e1, e2] at he; cases he
    | some b => rw [e1, e2] at he; exact he

theorem item_index_lt {st : State} {c : Var} {i f : Nat} {l : Loc} {p : Nat}
    (hr : resolve st (.item c i f) = some (some l, some p)) : i < (st.nodes c).items.length := by
  simp only [resolve, SrcRef.loc] at hr
  by_cases hf : f ∈ c.k.fields
  · simp only [hf, if_true] at hr
    cases hi : (st.nodes c).items[i]? with
    | none => simp [hi] at hr
    | some it => exact (List.getElem?_eq_some_iff.mp hi).1
  · simp [hf] at hr

end Nstd.Life
