import Nstd.Life.LemmasArrTr
set_option linter.unusedSimpArgs false
namespace Nstd.Life.ArrTr
open Nstd.Life.AP
open Nstd.Generated

structure AOk (st : State) (v : Nat) : Prop where
  le1 : v ≤ 1
  alive : (st.arrs v).alive = true
  size_le : ∀ s, (st.arrs v).store = some s → (st.arrs v).size ≤ (st.arrs v).cap
  none_zero : (st.arrs v).store = none → (st.arrs v).size = 0

/-- `Array::reserve(n)` of the model (the effect of the micro step `aReserve v n`) -/
def reserveSt (st : State) (v n : Nat) : State :=
  if n > (st.arrs v).cap || ((st.arrs v).store.isNone && n > 0) then
    let cap := (if n > (st.arrs v).cap then n else (st.arrs v).cap) ||| 3
    let st1 := st.alloc cap
    let st2 := match (st.arrs v).store with
      | some ob => (reserveCopy st1 ob st.next (List.range (st.arrs v).size)).freeBlk ob
      | none => st1
    st2.setArr v { st.arrs v with store := some st.next, cap := cap }
  else st

theorem exec_reserve {st : State} {v : Nat} (h : AOk st v) (n : Nat) :
    exec st (.aReserve v n) = some (reserveSt st v n) := by
  simp only [exec, Micro.valid, decide_eq_true h.le1, if_true, exec', h.alive, reserveSt]
  by_cases hc : (n > (st.arrs v).cap || ((st.arrs v).store.isNone && n > 0)) = true
  · simp only [hc, if_true]; rfl
  · simp only [hc]; rfl

theorem reserve_loop0 (this ob nb n fuel : Nat) (H : Nat → Hdr) (st : State) (hf : n < fuel) :
    LifeArray.reserve_loop1 this (.heap ob n) fuel (mk st H) (.heap ob 0) (.heap nb 0) =
      some (mk (reserveCopy st ob nb (List.range n)) H, .heap ob n, .heap nb n) := by
  have := reserve_loop this ob nb H n fuel 0 st hf
  simpa [List.range_eq_range'] using this

@[simp] theorem alloc_arrs (st : State) (n : Nat) : (st.alloc n).arrs = st.arrs := rfl
@[simp] theorem freeBlk_arrs (st : State) (b : Nat) : (st.freeBlk b).arrs = st.arrs := rfl
@[simp] theorem alloc_next (st : State) (n : Nat) : (st.alloc n).next = st.next + 1 := rfl
@[simp] theorem reserveCopy_arrs (ob nb : Nat) : ∀ (l : List Nat) (st : State), (reserveCopy st ob nb l).arrs = st.arrs
  | [], _ => rfl
  | _ :: rest, st => by simp only [reserveCopy]; rw [reserveCopy_arrs ob nb rest]; rfl

theorem hdrOf_some {x : Arr} {s : Nat} (h : x.store = some s) : hdrOf x = ⟨.heap s 0, .heap s x.size, x.cap⟩ := by
  simp [hdrOf, h]
theorem hdrOf_none {x : Arr} (h : x.store = none) : hdrOf x = ⟨.null, .null, x.cap⟩ := by
  simp [hdrOf, h]

@[simp] theorem hdrOf_mk_some (a : Bool) (s c n : Nat) : hdrOf ⟨a, some s, c, n⟩ = ⟨.heap s 0, .heap s n, c⟩ := rfl
@[simp] theorem hdrOf_mk_none (a : Bool) (c n : Nat) : hdrOf ⟨a, none, c, n⟩ = ⟨.null, .null, c⟩ := rfl

theorem tr_reserve {st : State} {v : Nat} (h : AOk st v) (n fuel : Nat) (hf : (st.arrs v).size < fuel) :
    LifeArray.reserve fuel (rep st) v n = some (rep (reserveSt st v n), ()) := by
  rw [rep_eq]
  unfold LifeArray.reserve reserveSt
  cases hs : (st.arrs v).store with
  | none =>
    have hz := h.none_zero hs
    by_cases h1 : n > (st.arrs v).cap
    · simp [hdrOf_none hs, hdrOf_some, h1, upd_same, rep_setArr, upd_upd, hz]
    · by_cases h2 : n > 0
      · have h2' : n ≠ 0 := by omega
        simp [hdrOf_none hs, hdrOf_some, h1, h2, h2', upd_same, rep_setArr, upd_upd, hz]
      · have h2' : n = 0 := by omega
        simp [hdrOf_none hs, hdrOf_some, h1, h2, h2', upd_same, rep_setArr, upd_upd, hz, rep_eq]
  | some s =>
    by_cases h1 : n > (st.arrs v).cap
    · simp [hdrOf_some hs, h1, upd_same, rep_setArr, upd_upd, reserve_loop0, hf]
    · simp [hdrOf_some hs, h1, upd_same, rep_setArr, upd_upd, rep_eq]

/-- after `reserve(n)` with n > 0 (or with storage already there): storage exists, capacity covers n and the size, the size is unchanged -/
theorem reserveSt_arr {st : State} {v : Nat} (h : AOk st v) (n : Nat) (hn : 0 < n ∨ (st.arrs v).store.isSome = true) :
    ∃ s' c', (reserveSt st v n).arrs v = ⟨true, some s', c', (st.arrs v).size⟩ ∧ n ≤ c' ∧ (st.arrs v).size ≤ c' ∧
      (∀ s, (st.arrs v).store = some s → n ≤ (st.arrs v).cap → reserveSt st v n = st ∧ s' = s) := by
  unfold reserveSt
  have hal := h.alive
  cases hs : (st.arrs v).store with
  | none =>
    have hz := h.none_zero hs
    have hn' : 0 < n := by simpa [hs] using hn
    refine ⟨st.next, (if n > (st.arrs v).cap then n else (st.arrs v).cap) ||| 3, ?_, ?_, ?_, ?_⟩
    · simp [hn', State.setArr, upd_same, hal, hz]
    · by_cases h1 : n > (st.arrs v).cap
      · simp only [h1, if_true]; exact Nat.left_le_or
      · simp only [h1, if_false]; have := @Nat.left_le_or (st.arrs v).cap 3; omega
    · omega
    · intro s h'; cases h'
  | some s =>
    have hle := h.size_le s hs
    by_cases h1 : n > (st.arrs v).cap
    · refine ⟨st.next, n ||| 3, ?_, @Nat.left_le_or n 3, ?_, ?_⟩
      · simp [h1, State.setArr, upd_same, hal]
      · have := @Nat.left_le_or n 3; omega
      · intro s0 _ hle'; omega
    · refine ⟨s, (st.arrs v).cap, ?_, by omega, hle, ?_⟩
      · simp [h1]
        cases hx : st.arrs v with
        | mk a b c d => simp [hx] at hs hal; simp [hs, hal]
      · intro s0 hs0 _; simp [h1]; cases hs0; rfl

/-- the header of v in `rep st` when the storage exists -/
theorem tr_reserveRef_ext {st : State} {v : Nat} (h : AOk st v) (n p fuel : Nat) (hf : (st.arrs v).size < fuel) :
    LifeArray.reserveRef fuel (rep st) v n (.ext p) = some (rep (reserveSt st v n), .ext p) := by
  unfold LifeArray.reserveRef
  have : Ptr.lt (.ext p) ((rep st).hd v).fin = false := by
    rw [rep_eq]; cases hs : (st.arrs v).store <;> simp [hdrOf_none, hdrOf_some, hs, Ptr.lt]
  simp [this, tr_reserve h n fuel hf]

theorem tr_reserveRef_own {st : State} {v : Nat} (h : AOk st v) (n fuel s i : Nat) (hf : (st.arrs v).size < fuel)
    (hs : (st.arrs v).store = some s) (hi : i < (st.arrs v).size) (s' : Nat) (hs' : ((reserveSt st v n).arrs v).store = some s') :
    LifeArray.reserveRef fuel (rep st) v n (.heap s i) = some (rep (reserveSt st v n), .heap s' i) := by
  unfold LifeArray.reserveRef
  have h1 : ((rep st).hd v) = ⟨.heap s 0, .heap s (st.arrs v).size, (st.arrs v).cap⟩ := by rw [rep_eq]; simp [hdrOf_some hs]
  have h2 : ((rep (reserveSt st v n)).hd v).begin = .heap s' 0 := by rw [rep_eq]; simp [hdrOf_some hs']
  simp [h1, hi, tr_reserve h n fuel hf, h2]

/-- `new(_end.item) T(*src)` with `++_end.item`: the micro step `aPush` -/
theorem exec_push {st : State} {v s c sz : Nat} (hv : v ≤ 1) (hx : st.arrs v = ⟨true, some s, c, sz⟩) (hc : sz < c)
    (src : SrcRef) (l : Option Loc) (p : Option Nat) (hr : resolve st src = some (l, p)) :
    exec st (.aPush v src) = some ((st.ctor (.heap s sz 1) l p).setArr v ⟨true, some s, c, sz + 1⟩) := by
  have : ¬ (sz ≥ c) := by omega
  simp [exec, Micro.valid, hv, exec', hx, this, hr]

theorem resolve_ext (st : State) (x : Nat) : resolve st (.ext x) = some (some .ext, some x) := rfl
theorem resolve_elem {st : State} {a s j : Nat} (hs : (st.arrs a).store = some s) (hj : j < (st.arrs a).size) :
    resolve st (.elem a j) = some (some (.heap s j 1), st.mem (.heap s j 1)) := by
  simp [resolve, SrcRef.loc, SrcRef.payload, hs, hj]

theorem size_rep {st : State} {v : Nat} (h : AOk st v) :
    Ptr.diff ((rep st).hd v).fin ((rep st).hd v).begin = some (st.arrs v).size := by
  rw [rep_eq]
  cases hs : (st.arrs v).store with
  | none => simp [hdrOf_none hs, h.none_zero hs]
  | some s => simp [hdrOf_some hs]

@[simp] theorem ctor_arrs (st : State) (d : Loc) (l : Option Loc) (p : Option Nat) : (st.ctor d l p).arrs = st.arrs := rfl
@[simp] theorem dtor_arrs (st : State) (d : Loc) : (st.dtor d).arrs = st.arrs := rfl
@[simp] theorem assign_arrs (st : State) (d l : Loc) (p : Option Nat) : (st.assign d l p).arrs = st.arrs := rfl

/-- the header table of a model state -/
def hdrs (st : State) : Nat → Hdr := fun a => hdrOf (st.arrs a)
theorem rep_mk (st : State) : rep st = mk st (hdrs st) := rfl
theorem hdrs_apply (st : State) (a : Nat) : hdrs st a = hdrOf (st.arrs a) := rfl
@[simp] theorem hdrs_ctor (st : State) (d : Loc) (l : Option Loc) (p : Option Nat) : hdrs (st.ctor d l p) = hdrs st := rfl
@[simp] theorem hdrs_dtor (st : State) (d : Loc) : hdrs (st.dtor d) = hdrs st := rfl
@[simp] theorem hdrs_assign (st : State) (d l : Loc) (p : Option Nat) : hdrs (st.assign d l p) = hdrs st := rfl
@[simp] theorem hdrs_alloc (st : State) (n : Nat) : hdrs (st.alloc n) = hdrs st := rfl
@[simp] theorem hdrs_freeBlk (st : State) (b : Nat) : hdrs (st.freeBlk b) = hdrs st := rfl
@[simp] theorem hdrs_setArr (st : State) (v : Nat) (x : Arr) : hdrs (st.setArr v x) = upd (hdrs st) v (hdrOf x) := hdr_setArr st v x

theorem usub_le {a b : Nat} (h : b ≤ a) : usub a b = a - b := by simp [usub, h]

theorem tr_reserve_mk {st : State} {v : Nat} (h : AOk st v) (n fuel : Nat) (hf : (st.arrs v).size < fuel) :
    LifeArray.reserve fuel (mk st (hdrs st)) v n = some (mk (reserveSt st v n) (hdrs (reserveSt st v n)), ()) :=
  tr_reserve h n fuel hf
theorem tr_reserveRef_ext_mk {st : State} {v : Nat} (h : AOk st v) (n p fuel : Nat) (hf : (st.arrs v).size < fuel) :
    LifeArray.reserveRef fuel (mk st (hdrs st)) v n (.ext p) = some (mk (reserveSt st v n) (hdrs (reserveSt st v n)), .ext p) :=
  tr_reserveRef_ext h n p fuel hf
theorem tr_reserveRef_own_mk {st : State} {v : Nat} (h : AOk st v) (n fuel s i : Nat) (hf : (st.arrs v).size < fuel)
    (hs : (st.arrs v).store = some s) (hi : i < (st.arrs v).size) (s' : Nat) (hs' : ((reserveSt st v n).arrs v).store = some s') :
    LifeArray.reserveRef fuel (mk st (hdrs st)) v n (.heap s i) = some (mk (reserveSt st v n) (hdrs (reserveSt st v n)), .heap s' i) :=
  tr_reserveRef_own h n fuel s i hf hs hi s' hs'

/-- the two proofs below do not depend on whether `append` calls `reserve` unconditionally or only when the element does not fit
    (a fast path that tests the spare capacity first): both shapes are covered by the case split on `size + 1 ≤ capacity` -/
theorem tr_append {st : State} {v : Nat} (h : AOk st v) (x fuel : Nat) (hf : (st.arrs v).size < fuel) :
    ∃ st', stepRes st (.aAppend v x) = .ok st' ∧ LifeArray.append fuel (rep st) v (.ext x) = some (rep st', ()) := by
  obtain ⟨s', c', hx, hn, hsz, hid⟩ := reserveSt_arr h ((st.arrs v).size + 1) (Or.inl (by omega))
  have hp := exec_push h.le1 hx (by omega) (.ext x) _ _ (resolve_ext _ x)
  refine ⟨((reserveSt st v ((st.arrs v).size + 1)).ctor (.heap s' (st.arrs v).size 1) (some .ext) (some x)).setArr v
      ⟨true, some s', c', (st.arrs v).size + 1⟩, ?_, ?_⟩
  · simp only [stepRes, compile, guard', decide_eq_true h.le1, if_true, execAll, exec_reserve h, hp]
  · have hh : hdrs (reserveSt st v ((st.arrs v).size + 1)) v = ⟨.heap s' 0, .heap s' (st.arrs v).size, c'⟩ := by
      simp [hdrs_apply, hx]
    have hr := tr_reserveRef_ext_mk h ((st.arrs v).size + 1) x fuel hf
    cases hs : (st.arrs v).store with
    | none =>
      have hz := h.none_zero hs
      have hh0 : hdrs st v = ⟨.null, .null, (st.arrs v).cap⟩ := by simp [hdrs_apply, hdrOf_none hs]
      rw [hz] at hr
      simp [LifeArray.append, rep_mk, hh0, hz, hr, hh, upd_same, upd_upd] at hh ⊢
      simp [hh, upd_same, upd_upd]
    | some s =>
      have hle := h.size_le s hs
      have hh0 : hdrs st v = ⟨.heap s 0, .heap s (st.arrs v).size, (st.arrs v).cap⟩ := by simp [hdrs_apply, hdrOf_some hs]
      by_cases hfit : (st.arrs v).size + 1 ≤ (st.arrs v).cap
      · obtain ⟨hid1, hs1⟩ := hid s hs hfit
        have hc : (st.arrs v).cap = c' := by rw [hid1] at hx; rw [hx]
        have hu : 1 ≤ usub (st.arrs v).cap (st.arrs v).size := by rw [usub_le hle]; omega
        rw [hid1] at hr hh
        simp [LifeArray.append, rep_mk, hh0, hr, hid1, hu, hs1, hc, upd_same, upd_upd]
      · have hu : ¬ 1 ≤ usub (st.arrs v).cap (st.arrs v).size := by rw [usub_le hle]; omega
        simp [LifeArray.append, rep_mk, hh0, hr, hh, hu, upd_same, upd_upd]

theorem tr_appendRef {st : State} {v : Nat} (h : AOk st v) (i fuel : Nat) (hf : (st.arrs v).size < fuel)
    (s : Nat) (hs : (st.arrs v).store = some s) (hi : i < (st.arrs v).size) :
    ∃ st', stepRes st (.aAppendRef v i) = .ok st' ∧ LifeArray.append fuel (rep st) v (.heap s i) = some (rep st', ()) := by
  obtain ⟨s', c', hx, hn, hsz, hid⟩ := reserveSt_arr h ((st.arrs v).size + 1) (Or.inl (by omega))
  have hs' : ((reserveSt st v ((st.arrs v).size + 1)).arrs v).store = some s' := by rw [hx]
  have hsz' : ((reserveSt st v ((st.arrs v).size + 1)).arrs v).size = (st.arrs v).size := by rw [hx]
  have hp := exec_push h.le1 hx (by omega) (.elem v i) _ _ (resolve_elem hs' (by omega))
  refine ⟨((reserveSt st v ((st.arrs v).size + 1)).ctor (.heap s' (st.arrs v).size 1) (some (.heap s' i 1))
      ((reserveSt st v ((st.arrs v).size + 1)).mem (.heap s' i 1))).setArr v ⟨true, some s', c', (st.arrs v).size + 1⟩, ?_, ?_⟩
  · simp only [stepRes, compile, guard', decide_eq_true h.le1, decide_eq_true hi, Bool.and_self, if_true, execAll, exec_reserve h, hp]
  · have hh : hdrs (reserveSt st v ((st.arrs v).size + 1)) v = ⟨.heap s' 0, .heap s' (st.arrs v).size, c'⟩ := by
      simp [hdrs_apply, hx]
    have hr := tr_reserveRef_own_mk h ((st.arrs v).size + 1) fuel s i hf hs hi s' hs'
    have hle := h.size_le s hs
    have hh0 : hdrs st v = ⟨.heap s 0, .heap s (st.arrs v).size, (st.arrs v).cap⟩ := by simp [hdrs_apply, hdrOf_some hs]
    by_cases hfit : (st.arrs v).size + 1 ≤ (st.arrs v).cap
    · obtain ⟨hid1, hs1⟩ := hid s hs hfit
      have hc : (st.arrs v).cap = c' := by rw [hid1] at hx; rw [hx]
      have hu : 1 ≤ usub (st.arrs v).cap (st.arrs v).size := by rw [usub_le hle]; omega
      rw [hid1] at hr hh
      simp [LifeArray.append, rep_mk, hh0, hr, hid1, hu, hs1, hc, upd_same, upd_upd]
    · have hu : ¬ 1 ≤ usub (st.arrs v).cap (st.arrs v).size := by rw [usub_le hle]; omega
      simp [LifeArray.append, rep_mk, hh0, hr, hh, hu, upd_same, upd_upd]

theorem dtorLocs_arrs : ∀ (l : List Loc) (st : State), (st.dtorLocs l).arrs = st.arrs
  | [], _ => rfl
  | _ :: rest, st => by simp only [State.dtorLocs]; rw [dtorLocs_arrs rest]; rfl
@[simp] theorem hdrs_dtorLocs (l : List Loc) (st : State) : hdrs (st.dtorLocs l) = hdrs st := by
  funext a; simp [hdrs, dtorLocs_arrs]
@[simp] theorem hdrs_dtorSlots (st : State) (b i k : Nat) : hdrs (dtorSlots st b i k) = hdrs st := hdrs_dtorLocs _ _
@[simp] theorem hdrs_dtorRange (st : State) (s : Nat) (l : List Nat) : hdrs (dtorRange st s l) = hdrs st := hdrs_dtorLocs _ _
theorem shiftDown_arrs (s : Nat) : ∀ (l : List Nat) (st : State), (shiftDown st s l).arrs = st.arrs
  | [], _ => rfl
  | _ :: rest, st => by simp only [shiftDown]; rw [shiftDown_arrs s rest]; rfl
@[simp] theorem hdrs_shiftDown (st : State) (s : Nat) (l : List Nat) : hdrs (shiftDown st s l) = hdrs st := by
  funext a; simp [hdrs, shiftDown_arrs]
theorem upd_eq_self {α : Type} [DecidableEq α] {β : Type} (f : α → β) (a : α) (b : β) (h : f a = b) : upd f a b = f := by
  subst h; exact upd_self f a

-- clear / destructor ---------------------------------------------------------------------------------------------------

theorem dtorRange_eq (st : State) (s n : Nat) : dtorRange st s (List.range n) = dtorSlots st s 0 n := by
  simp [dtorRange, dtorSlots, List.range_eq_range']

theorem range'_model (lo hi : Nat) : range' lo hi = List.range' lo (hi - lo) := by
  simp [range', List.range'_eq_map_range, Nat.add_comm]

theorem tr_clear {st : State} {v : Nat} (h : AOk st v) (fuel : Nat) (hf : (st.arrs v).size < fuel) :
    ∃ st', stepRes st (.clear ⟨.A, v⟩) = .ok st' ∧ LifeArray.clear fuel (rep st) v = some (rep st', ()) := by
  cases hs : (st.arrs v).store with
  | none =>
    refine ⟨st, ?_, ?_⟩
    · simp [stepRes, compile, guard', h.le1, execAll, exec, Micro.valid, exec', h.alive, hs]
    · simp [LifeArray.clear, rep_mk, hdrs_apply, hdrOf_none hs]
  | some s =>
    by_cases hz : 0 < (st.arrs v).size
    · refine ⟨(dtorRange st s (range' 0 (st.arrs v).size)).setArr v { st.arrs v with size := 0 }, ?_, ?_⟩
      · simp [stepRes, compile, guard', h.le1, execAll, exec, Micro.valid, exec', h.alive, hs, hz]
      · have hl := clear_loop v s (hdrs st) (st.arrs v).size fuel 0 st hf
        simp only [Nat.zero_add] at hl
        simp [LifeArray.clear, rep_mk, hdrs_apply, hdrOf_some hs, hl, range'_model, upd_same]
        simp [dtorSlots, dtorRange, hs, hdrOf_some hs, hdrs_apply]
    · refine ⟨st, ?_, ?_⟩
      · simp [stepRes, compile, guard', h.le1, execAll, exec, Micro.valid, exec', h.alive, hs, hz]
      · have hz' : (st.arrs v).size = 0 := by omega
        have : 0 < fuel := by omega
        obtain ⟨f, rfl⟩ : ∃ f, fuel = f + 1 := ⟨fuel - 1, by omega⟩
        simp [LifeArray.clear, LifeArray.clear_loop1, rep_mk, hdrs_apply, hdrOf_some hs, hz']
        exact congrArg _ (upd_eq_self _ _ _ (by simp [hdrs_apply, hdrOf_some hs, hz']))

/-- `~Array()` = micro step `aDestroy` (the harness destroys and re-constructs a variable for `new`, `newcap`, `copy`) -/
theorem tr_dtor {st : State} {v : Nat} (h : AOk st v) (fuel : Nat) (hf : (st.arrs v).size < fuel) :
    ∃ st', exec st (.aDestroy v) = some st' ∧ ∃ S', LifeArray.dtor fuel (rep st) v = some (S', ()) ∧
      S'.next = st'.next ∧ S'.mem = st'.mem ∧ S'.blk = st'.blk ∧ S'.log = st'.log ∧ ∀ a, a ≠ v → S'.hd a = (rep st').hd a := by
  cases hs : (st.arrs v).store with
  | none =>
    refine ⟨st.setArr v {}, ?_, rep st, ?_, rfl, rfl, rfl, rfl, ?_⟩
    · simp [exec, Micro.valid, h.le1, exec', h.alive, hs]
    · simp [LifeArray.dtor, rep_mk, hdrs_apply, hdrOf_none hs]
    · intro a ha; simp [rep, State.setArr, upd, ha]
  | some s =>
    refine ⟨((dtorRange st s (List.range (st.arrs v).size)).freeBlk s).setArr v {}, ?_,
      mk ((dtorRange st s (List.range (st.arrs v).size)).freeBlk s) (hdrs st), ?_, rfl, rfl, rfl, rfl, ?_⟩
    · simp [exec, Micro.valid, h.le1, exec', h.alive, hs]
    · have hl := dtor_loop v s (hdrs st) (st.arrs v).size fuel 0 st hf
      simp only [Nat.zero_add] at hl
      simp [LifeArray.dtor, rep_mk, hdrs_apply, hdrOf_some hs, hl, dtorRange_eq]
    · intro a ha; simp [rep, State.setArr, upd, ha, dtorRange_eq, dtorSlots, dtorLocs_arrs, mk, hdrs_apply]

/-- `Array()` / `Array(usize capacity)` on a destroyed variable = micro step `aCreate` -/
theorem tr_ctor {st : State} {v : Nat} (hv : v ≤ 1) (hd : (st.arrs v).alive = false) (cap fuel : Nat) :
    ∃ st', exec st (.aCreate v cap) = some st' ∧ LifeArray.ctorCap fuel (rep st) v cap = some (rep st', ()) ∧
      LifeArray.ctorDefault fuel (rep st) v = LifeArray.ctorCap fuel (rep st) v 0 := by
  refine ⟨st.setArr v { alive := true, cap := cap }, ?_, ?_, rfl⟩
  · simp [exec, Micro.valid, hv, exec', hd]
  · simp [LifeArray.ctorCap, rep_mk]

theorem tr_swap {st : State} {v w : Nat} (h : AOk st v) (h' : AOk st w) (fuel : Nat) :
    ∃ st', stepRes st (.swap ⟨.A, v⟩ w) = .ok st' ∧ LifeArray.swap fuel (rep st) v w = some (rep st', ()) := by
  refine ⟨(st.setArr v (st.arrs w)).setArr w (st.arrs v), ?_, ?_⟩
  · simp [stepRes, compile, guard', h.le1, h'.le1, execAll, exec, Micro.valid, exec', h.alive, h'.alive]
  · by_cases hvw : v = w
    · subst hvw
      simp [LifeArray.swap, rep_mk, upd_same, upd_upd]
      rfl
    · have hwv : w ≠ v := fun e => hvw e.symm
      simp [LifeArray.swap, rep_mk, upd_same, upd_upd, upd_other _ _ _ _ hwv, upd_other _ _ _ _ hvw]
      rfl


-- remove ---------------------------------------------------------------------------------------------------------------

theorem exec_remove {st : State} {v s j : Nat} (h : AOk st v) (hs : (st.arrs v).store = some s) (hj : j < (st.arrs v).size) :
    exec st (.aRemove v j) =
      some (((shiftDown st s (List.range' j ((st.arrs v).size - 1 - j))).dtor (.heap s ((st.arrs v).size - 1) 1)).setArr v
        { st.arrs v with size := (st.arrs v).size - 1 }) := by
  have : ¬ (j ≥ (st.arrs v).size) := by omega
  simp [exec, Micro.valid, h.le1, exec', hs, this, range'_model]

theorem tr_removeIt_core {st : State} {v s j : Nat} (h : AOk st v) (hs : (st.arrs v).store = some s) (hj : j < (st.arrs v).size)
    (fuel : Nat) (hf : (st.arrs v).size < fuel) :
    ∃ st', exec st (.aRemove v j) = some st' ∧ LifeArray.removeIt fuel (rep st) v (.heap s j) = some (rep st', ()) := by
  refine ⟨_, exec_remove h hs hj, ?_⟩
  obtain ⟨d', hl⟩ := removeIt_loop v s (upd (hdrs st) v ⟨.heap s 0, .heap s ((st.arrs v).size - 1), (st.arrs v).cap⟩)
    ((st.arrs v).size - 1 - j) fuel j st .null (by omega)
  rw [show j + ((st.arrs v).size - 1 - j) = (st.arrs v).size - 1 by omega] at hl
  have h1 : 1 ≤ (st.arrs v).size := by omega
  simp [LifeArray.removeIt, rep_mk, hdrs_apply, hdrOf_some hs, subn_heap _ _ _ h1, hl, upd_same, upd_upd, hs]

theorem tr_removeIt {st : State} {v s j : Nat} (h : AOk st v) (hs : (st.arrs v).store = some s) (hj : j < (st.arrs v).size)
    (fuel : Nat) (hf : (st.arrs v).size < fuel) :
    ∃ st', stepRes st (.aRemoveIt v j) = .ok st' ∧ LifeArray.removeIt fuel (rep st) v (.heap s j) = some (rep st', ()) := by
  obtain ⟨st', he, ht⟩ := tr_removeIt_core h hs hj fuel hf
  exact ⟨st', by simp [stepRes, compile, guard', h.le1, hj, execAll, he], ht⟩

theorem tr_remove {st : State} {v : Nat} (h : AOk st v) (j fuel : Nat) (hf : (st.arrs v).size < fuel) :
    ∃ st', stepRes st (.aRemove v j) = .ok st' ∧ LifeArray.remove fuel (rep st) v j = some (rep st', ()) := by
  by_cases hj : j < (st.arrs v).size
  · cases hs : (st.arrs v).store with
    | none => have := h.none_zero hs; omega
    | some s =>
      refine ⟨_, by simp [stepRes, compile, guard', h.le1, hj, execAll, exec_remove h hs hj]; rfl, ?_⟩
      obtain ⟨d', hl⟩ := remove_loop v s (upd (hdrs st) v ⟨.heap s 0, .heap s ((st.arrs v).size - 1), (st.arrs v).cap⟩)
        ((st.arrs v).size - 1 - j) fuel j st .null (by omega)
      rw [show j + ((st.arrs v).size - 1 - j) = (st.arrs v).size - 1 by omega] at hl
      have h1 : 1 ≤ (st.arrs v).size := by omega
      unfold LifeArray.remove
      rw [size_rep h]
      simp [rep_mk, hdrs_apply, hdrOf_some hs, subn_heap _ _ _ h1, hl, upd_same, upd_upd, hs, hj]
  · refine ⟨st, by simp [stepRes, compile, guard', h.le1, hj, execAll], ?_⟩
    unfold LifeArray.remove
    rw [size_rep h]
    simp [hj]

theorem setArr_self (st : State) (v : Nat) (x : Arr) (h : st.arrs v = x) : st.setArr v x = st := by
  cases st; simp only [State.setArr] at *; subst h; simp [upd_self]

theorem setArr_setArr (st : State) (v : Nat) (x y : Arr) : (st.setArr v x).setArr v y = st.setArr v y := by
  simp [State.setArr, upd_upd]

theorem fillSlots_setArr (b : Nat) (src : State → Option Loc × Option Nat) (hsrc : ∀ s a x, src (State.setArr s a x) = src s)
    (v : Nat) (x : Arr) : ∀ (k i : Nat) (st : State), fillSlots (st.setArr v x) b src i k = (fillSlots st b src i k).setArr v x := by
  intro k
  induction k with
  | zero => intro i st; rfl
  | succ k ih =>
    intro i st; simp only [fillSlots, hsrc]
    exact ih (i + 1) (st.ctor (.heap b i 1) (src st).1 (src st).2)

theorem fillSlots_arrs (b : Nat) (src : State → Option Loc × Option Nat) : ∀ (k i : Nat) (st : State), (fillSlots st b src i k).arrs = st.arrs := by
  intro k
  induction k with
  | zero => intro i st; rfl
  | succ k ih => intro i st; simp only [fillSlots]; rw [ih]; rfl
@[simp] theorem hdrs_fillSlots (b : Nat) (src : State → Option Loc × Option Nat) (k i : Nat) (st : State) :
    hdrs (fillSlots st b src i k) = hdrs st := by
  funext a; simp [hdrs, fillSlots_arrs]

/-- `resize` growing: k times `new(i) T(*src)` = k micro steps `aPush v src` -/
theorem exec_pushes (v s c : Nat) (hv : v ≤ 1) (r : SrcRef) (src : State → Option Loc × Option Nat)
    (hsrc : ∀ s a x, src (State.setArr s a x) = src s)
    (hres : ∀ st : State, ∀ sz, st.arrs v = ⟨true, some s, c, sz⟩ → 0 < sz ∨ r.loc st = some (some .ext) → resolve st r = some (src st)) :
    ∀ (k sz : Nat) (st : State), st.arrs v = ⟨true, some s, c, sz⟩ → sz + k ≤ c → (0 < sz ∨ r.loc st = some (some .ext)) →
      execAll st (List.replicate k (.aPush v r)) = some ((fillSlots st s src sz k).setArr v ⟨true, some s, c, sz + k⟩) := by
  intro k
  induction k with
  | zero => intro sz st hx _ _; simp [execAll, fillSlots, setArr_self _ _ _ hx]
  | succ k ih =>
    intro sz st hx hc h0
    have hp := exec_push hv hx (by omega) r _ _ (hres st sz hx h0)
    simp only [List.replicate_succ, execAll, hp]
    have hx2 : ((st.ctor (.heap s sz 1) (src st).1 (src st).2).setArr v ⟨true, some s, c, sz + 1⟩).arrs v = ⟨true, some s, c, sz + 1⟩ := by
      simp [State.setArr, upd_same]
    have h0' : 0 < sz + 1 ∨ r.loc ((st.ctor (.heap s sz 1) (src st).1 (src st).2).setArr v ⟨true, some s, c, sz + 1⟩) = some (some .ext) :=
      Or.inl (by omega)
    rw [ih (sz + 1) _ hx2 (by omega) h0', fillSlots_setArr _ _ hsrc, setArr_setArr]
    simp only [fillSlots]
    rw [show sz + 1 + k = sz + (k + 1) by omega]

theorem tr_reserveOp {st : State} {v : Nat} (h : AOk st v) (n fuel : Nat) (hf : (st.arrs v).size < fuel) :
    ∃ st', stepRes st (.aReserve v n) = .ok st' ∧ LifeArray.reserve fuel (rep st) v n = some (rep st', ()) :=
  ⟨reserveSt st v n, by simp [stepRes, compile, guard', h.le1, execAll, exec_reserve h], tr_reserve h n fuel hf⟩

theorem tr_removeFront {st : State} {v s : Nat} (h : AOk st v) (hs : (st.arrs v).store = some s) (hj : 0 < (st.arrs v).size)
    (fuel : Nat) (hf : (st.arrs v).size < fuel) :
    ∃ st', stepRes st (.aRemoveIt v 0) = .ok st' ∧ LifeArray.removeFront fuel (rep st) v = some (rep st', ()) := by
  obtain ⟨st', h1, h2⟩ := tr_removeIt h hs hj fuel hf
  refine ⟨st', h1, ?_⟩
  have : ((rep st).hd v).begin = .heap s 0 := by simp [rep_mk, hdrs_apply, hdrOf_some hs]
  simp [LifeArray.removeFront, this, h2]

theorem tr_removeBack {st : State} {v s : Nat} (h : AOk st v) (hs : (st.arrs v).store = some s) (hj : 0 < (st.arrs v).size)
    (fuel : Nat) (hf : (st.arrs v).size < fuel) :
    ∃ st', stepRes st (.aRemoveIt v ((st.arrs v).size - 1)) = .ok st' ∧ LifeArray.removeBack fuel (rep st) v = some (rep st', ()) := by
  obtain ⟨st', h1, h2⟩ := tr_removeIt h hs (show (st.arrs v).size - 1 < (st.arrs v).size by omega) fuel hf
  refine ⟨st', h1, ?_⟩
  have : ((rep st).hd v).fin = .heap s (st.arrs v).size := by simp [rep_mk, hdrs_apply, hdrOf_some hs]
  simp [LifeArray.removeBack, this, subn_heap _ _ _ hj, h2]


theorem tr_resize_shrink {st : State} {v : Nat} (h : AOk st v) (n : Nat) (r : Ptr) (fuel : Nat) (hf : (st.arrs v).size < fuel)
    (hn : n < (st.arrs v).size) :
    ∃ st', exec st (.aTruncate v n) = some st' ∧ LifeArray.resize fuel (rep st) v n r = some (rep st', ()) := by
  cases hs : (st.arrs v).store with
  | none => have := h.none_zero hs; omega
  | some s =>
    refine ⟨(dtorRange st s (range' n (st.arrs v).size)).setArr v { st.arrs v with size := n }, ?_, ?_⟩
    · simp [exec, Micro.valid, h.le1, exec', h.alive, hs, hn]
    · have hl := resize_loop1 v s (hdrs st) ((st.arrs v).size - n) fuel n st (by omega)
      rw [show n + ((st.arrs v).size - n) = (st.arrs v).size by omega] at hl
      unfold LifeArray.resize
      rw [size_rep h]
      simp [rep_mk, hdrs_apply, hdrOf_some hs, hn, hl, range'_model, upd_same]
      simp [dtorSlots, dtorRange, hs, hdrOf_some hs, hdrs_apply]

theorem tr_resize_ext {st : State} {v : Nat} (h : AOk st v) (n x fuel : Nat) (hf : (st.arrs v).size + n < fuel) :
    ∃ st', stepRes st (.aResize v n x) = .ok st' ∧ LifeArray.resize fuel (rep st) v n (.ext x) = some (rep st', ()) := by
  by_cases hn : n < (st.arrs v).size
  · obtain ⟨st', h1, h2⟩ := tr_resize_shrink h n (.ext x) fuel (by omega) hn
    exact ⟨st', by simp [stepRes, compile, guard', h.le1, hn, execAll, h1], h2⟩
  · by_cases h0 : 0 < n ∨ (st.arrs v).store.isSome = true
    · obtain ⟨s', c', hx, hle, hsz, hid⟩ := reserveSt_arr h n h0
      have hp := exec_pushes v s' c' h.le1 (.ext x) (fun _ => (some .ext, some x)) (fun _ _ _ => rfl) (fun _ _ _ _ => rfl)
        (n - (st.arrs v).size) (st.arrs v).size (reserveSt st v n) hx (by omega) (Or.inr rfl)
      refine ⟨_, by simp only [stepRes, compile, guard', decide_eq_true h.le1, if_true, hn, if_false, execAll, exec_reserve h]; rw [hp], ?_⟩
      have hh : hdrs (reserveSt st v n) v = ⟨.heap s' 0, .heap s' (st.arrs v).size, c'⟩ := by simp [hdrs_apply, hx]
      have hl := resize_loop2_ext v s' x (hdrs (reserveSt st v n)) (n - (st.arrs v).size) fuel (st.arrs v).size (reserveSt st v n) (by omega)
      rw [show (st.arrs v).size + (n - (st.arrs v).size) = n by omega] at hl
      have hr := tr_reserveRef_ext_mk h n x fuel (by omega)
      have hnn : (st.arrs v).size + (n - (st.arrs v).size) = n := by omega
      -- with or without a fast path that skips `reserve` when the new elements fit: case split on `n ≤ capacity`
      cases hs : (st.arrs v).store with
      | none =>
        have hz := h.none_zero hs
        have hh0 : hdrs st v = ⟨.null, .null, (st.arrs v).cap⟩ := by simp [hdrs_apply, hdrOf_none hs]
        simp only [hz, Nat.sub_zero] at hh hl hr hn
        simp [LifeArray.resize, rep_mk, hh0, hz, hn, hr, hh, hl, upd_same]
      | some s =>
        have hle' := h.size_le s hs
        have hh0 : hdrs st v = ⟨.heap s 0, .heap s (st.arrs v).size, (st.arrs v).cap⟩ := by simp [hdrs_apply, hdrOf_some hs]
        by_cases hfit : n ≤ (st.arrs v).cap
        · obtain ⟨hid1, hs1⟩ := hid s hs hfit
          have hc : (st.arrs v).cap = c' := by rw [hid1] at hx; rw [hx]
          have hu : usub n (st.arrs v).size ≤ usub (st.arrs v).cap (st.arrs v).size := by
            rw [usub_le hle', usub_le (by omega)]; omega
          rw [hid1] at hr hh hl
          subst hs1
          simp [LifeArray.resize, rep_mk, hh0, hn, hr, hid1, hu, hc, hl, upd_same, hnn]
        · have hu : usub (st.arrs v).cap (st.arrs v).size < usub n (st.arrs v).size := by
            rw [usub_le hle', usub_le (by omega)]; omega
          simp [LifeArray.resize, rep_mk, hh0, hn, hr, hh, hu, Nat.not_le.mpr hu, hl, upd_same, hnn]
    · have hn0 : n = 0 := by omega
      have hs : (st.arrs v).store = none := by
        cases hs : (st.arrs v).store with
        | none => rfl
        | some s => simp [hs] at h0
      have hz := h.none_zero hs
      subst hn0
      refine ⟨st, ?_, ?_⟩
      · simp [stepRes, compile, guard', h.le1, hz, execAll, exec_reserve h, reserveSt, hs]
      · obtain ⟨f, rfl⟩ : ∃ f, fuel = f + 1 := ⟨fuel - 1, by omega⟩
        have hr := tr_reserveRef_ext_mk h 0 x (f + 1) (by omega)
        have hh0 : hdrs st v = ⟨.null, .null, (st.arrs v).cap⟩ := by simp [hdrs_apply, hdrOf_none hs]
        have hid0 : reserveSt st v 0 = st := by simp [reserveSt, hs]
        rw [hid0] at hr
        simp [LifeArray.resize, rep_mk, hr, hh0, LifeArray.resize_loop2, hz]
        exact congrArg _ (upd_eq_self _ _ _ hh0)
end Nstd.Life.ArrTr
