import Nstd.Life.LemmasAll
/-
  Blocks are released only by destructors (node containers) and by Array::reserve / ~Array:
  every other micro step keeps every allocated block allocated.
-/
namespace Nstd.Life

def Micro.releases : Micro → Bool
  | .destroy _ => true | .aReserve _ _ => true | .aDestroy _ => true | _ => false

/-- allocated blocks stay allocated -/
def BlkKept (st st' : State) : Prop := ∀ b n, st.blk b = some n → st'.blk b = some n

theorem BlkKept.refl (st : State) : BlkKept st st := fun _ _ h => h
theorem BlkKept.trans {a b c : State} (h1 : BlkKept a b) (h2 : BlkKept b c) : BlkKept a c :=
  fun x n h => h2 x n (h1 x n h)
theorem BlkKept.of_eq {a b : State} (h : b.blk = a.blk) : BlkKept a b := fun _ _ hx => by rw [h]; exact hx

theorem blkKept_alloc {st : State} (h : SInv st) (k : Nat) : BlkKept st (st.alloc k) := by
  intro b n hb
  have : b ≠ st.next := by
    intro he; rw [he, h.blk_lt _ (Nat.le_refl _)] at hb; cases hb
  simp only [alloc_blk, upd, this, if_false]; exact hb

theorem insertNew_blkKept {st : State} (h : SInv st) (c : Var) (p : Nat) (srcs) (ha : (st.nodes c).alive = true)
    (hv : c.valid = true) : BlkKept st (insertNew st c p srcs) := by
  unfold insertNew
  simp only
  have h1 : SInv (if (c.k.isHash && (st.nodes c).data.isNone) = true then allocData st c else st) ∧
      BlkKept st (if (c.k.isHash && (st.nodes c).data.isNone) = true then allocData st c else st) ∧
      ((if (c.k.isHash && (st.nodes c).data.isNone) = true then allocData st c else st).nodes c).alive = true := by
    by_cases hc : (c.k.isHash && (st.nodes c).data.isNone) = true
    · rw [if_pos hc]
      have hd : (st.nodes c).data = none := by
        simp only [Bool.and_eq_true, Option.isNone_iff_eq_none] at hc; exact hc.2
      exact ⟨(allocData_ok h c hd ha hv).1, (blkKept_alloc h 0).trans (BlkKept.of_eq rfl), by simp [allocData, ha]⟩
    · rw [if_neg hc]; exact ⟨h, BlkKept.refl st, ha⟩
  generalize (if (c.k.isHash && (st.nodes c).data.isNone) = true then allocData st c else st) = s1 at h1
  obtain ⟨i1, k1, a1⟩ := h1
  have h2 : BlkKept s1 (if (s1.nodes c).free.isEmpty = true then allocBlock s1 c else s1) := by
    by_cases hc : (s1.nodes c).free.isEmpty = true
    · rw [if_pos hc]; exact (blkKept_alloc i1 (s1.per.f c.k)).trans (BlkKept.of_eq rfl)
    · rw [if_neg hc]; exact BlkKept.refl s1
  generalize (if (s1.nodes c).free.isEmpty = true then allocBlock s1 c else s1) = s2 at h2
  cases (s2.nodes c).free with
  | nil => exact k1.trans h2
  | cons it rest => exact (k1.trans h2).trans (BlkKept.of_eq (by simp [useSlot]))

theorem putResolved_blkKept {st st' : State} (h : SInv st) (c : Var) (p : Nat) (kr vr srcs)
    (ha : (st.nodes c).alive = true) (hv : c.valid = true)
    (he : putResolved st c p kr vr srcs = some st') : BlkKept st st' := by
  have hins : ∀ q, BlkKept st (insertNew st c q srcs) := fun q => insertNew_blkKept h c q srcs ha hv
  unfold putResolved at he
  by_cases hk : c.k.hasKey = true
  · simp only [hk, if_true] at he
    cases kr with
    | none => simp at he
    | some kk =>
      obtain ⟨kl, kp⟩ := kk
      cases kp with
      | none => simp at he
      | some kp =>
        simp only at he
        by_cases hU : c.k = .U
        · simp only [hU, if_true, Option.some.injEq] at he; subst he; exact hins _
        · simp only [hU, if_false] at he
          cases hfind : findField st 0 kp (st.nodes c).items with
          | none => simp only [hfind, Option.some.injEq] at he; subst he; exact hins _
          | some j =>
            simp only [hfind] at he
            by_cases hMH : c.k = .M ∨ c.k = .H
            · simp only [hMH, if_true] at he
              cases hj : (st.nodes c).items[j]? with
              | none => simp [hj] at he
              | some it =>
                simp only [hj] at he
                cases vr with
                | none => simp [putAssign] at he
                | some vv =>
                  obtain ⟨vl, vp⟩ := vv
                  cases vl with
                  | none => simp [putAssign] at he
                  | some vl =>
                    simp only [putAssign, Option.some.injEq] at he
                    subst he; exact BlkKept.of_eq rfl
            · simp only [hMH, if_false, Option.some.injEq] at he; subst he; exact BlkKept.refl st
  · simp only [hk, Bool.false_eq_true, if_false, Option.some.injEq] at he; subst he; exact hins _

theorem removeAt_blkKept (st : State) (c : Var) (j : Nat) (it : Item) : BlkKept st (removeAt st c j it) :=
  BlkKept.of_eq (by simp [removeAt, State.dtorItem])

theorem shiftDown_blk (s : Nat) : ∀ (l : List Nat) (st : State), (shiftDown st s l).blk = st.blk
  | [], _ => rfl
  | i :: rest, st => by simp only [shiftDown]; rw [shiftDown_blk s rest]; rfl

/-- every micro step other than a destructor and `Array::reserve` keeps every allocated block allocated -/
theorem exec_blkKept {st st' : State} (h : SInv st) (m : Micro) (hm : m.releases = false)
    (he : exec st m = some st') : BlkKept st st' := by
  unfold exec at he
  by_cases hv : m.valid = true
  · rw [if_pos hv] at he
    cases m with
    | destroy c => cases hm
    | aReserve a n => cases hm
    | aDestroy a => cases hm
    | put c pos k v =>
      simp only [exec'] at he
      by_cases ha : (st.nodes c).alive = true
      · simp only [ha, Bool.not_true, Bool.false_eq_true, if_false] at he
        cases hkr : resolveOpt st k with
        | none => simp [hkr] at he
        | some kr =>
          simp only [hkr] at he
          cases hvr : resolveOpt st v with
          | none => simp [hvr] at he
          | some vr =>
            simp only [hvr] at he
            cases hsr : fieldSrcs c.k kr vr with
            | none => simp [hsr] at he
            | some srcs =>
              simp only [hsr] at he
              by_cases hpos : pos.getD (st.nodes c).items.length > (st.nodes c).items.length
              · simp [hpos] at he
              · simp only [hpos, if_false] at he
                exact putResolved_blkKept h c _ kr vr srcs ha hv he
      · simp [ha] at he
    | assignVal c j src =>
      simp only [exec'] at he
      by_cases h1 : 1 ∉ c.k.fields
      · simp [h1] at he
      · simp only [h1, if_false, Option.bind_eq_bind] at he
        cases hj : (st.nodes c).items[j]? with
        | none => simp [hj] at he
        | some it =>
          cases hr : resolve st src with
          | none => simp [hj, hr] at he
          | some lp =>
            obtain ⟨l, p⟩ := lp
            cases l with
            | none => simp [hj, hr] at he
            | some l => simp [hj, hr] at he; subst he; exact BlkKept.of_eq rfl
    | remove c j =>
      simp only [exec', Option.bind_eq_bind] at he
      cases hj : (st.nodes c).items[j]? with
      | none => simp [hj] at he
      | some it => simp [hj] at he; subst he; exact removeAt_blkKept st c j it
    | removeKey c k =>
      simp only [exec', Option.bind_eq_bind] at he
      cases hp : k.payload st with
      | none => simp [hp] at he
      | some kp =>
        simp only [hp, Option.bind_some] at he
        cases hf : findField st 0 kp (st.nodes c).items with
        | none => simp [hf] at he; subst he; exact BlkKept.refl st
        | some j =>
          simp only [hf] at he
          cases hj : (st.nodes c).items[j]? with
          | none => simp [hj] at he
          | some it => simp [hj] at he; subst he; exact removeAt_blkKept st c j it
    | removeVal c k =>
      simp only [exec', Option.bind_eq_bind] at he
      cases hp : k.payload st with
      | none => simp [hp] at he
      | some kp =>
        simp only [hp, Option.bind_some] at he
        cases hf : findField st 1 kp (st.nodes c).items with
        | none => simp [hf] at he; subst he; exact BlkKept.refl st
        | some j =>
          simp only [hf] at he
          cases hj : (st.nodes c).items[j]? with
          | none => simp [hj] at he
          | some it => simp [hj] at he; subst he; exact removeAt_blkKept st c j it
    | clear c =>
      simp only [exec'] at he
      by_cases ha : (st.nodes c).alive = true
      · simp only [ha, Bool.not_true, Bool.false_eq_true, if_false, Option.some.injEq] at he
        subst he; exact BlkKept.of_eq (by simp [State.dtorItems])
      · simp [ha] at he
    | create c =>
      simp only [exec'] at he
      by_cases ha : (st.nodes c).alive = true
      · simp [ha] at he
      · simp only [ha, Bool.false_eq_true, if_false, Option.some.injEq] at he
        subst he; exact BlkKept.of_eq (by simp)
    | swap c d =>
      simp only [exec'] at he
      by_cases hg : (!(st.nodes c).alive || !(st.nodes d).alive || c.k != d.k) = true
      · simp [hg] at he
      · simp only [hg, Bool.false_eq_true, if_false, Option.some.injEq] at he
        subst he; exact BlkKept.of_eq rfl
    | aPush a src =>
      simp only [exec', Option.bind_eq_bind] at he
      cases hs : (st.arrs a).store with
      | none => simp [hs] at he
      | some s =>
        simp only [hs, Option.bind_some] at he
        by_cases hc : (st.arrs a).size ≥ (st.arrs a).cap
        · simp [hc] at he
        · simp only [hc, if_false] at he
          cases hr : resolve st src with
          | none => simp [hr] at he
          | some lp => simp [hr] at he; subst he; exact BlkKept.of_eq rfl
    | aTruncate a n =>
      simp only [exec'] at he
      by_cases ha : (st.arrs a).alive = true
      · simp only [ha, Bool.not_true, Bool.false_eq_true, if_false] at he
        cases hs : (st.arrs a).store with
        | none => simp [hs] at he; subst he; exact BlkKept.refl st
        | some s =>
          simp only [hs] at he
          by_cases hn : n < (st.arrs a).size
          · simp only [hn, if_true, Option.some.injEq] at he; subst he; exact BlkKept.of_eq (by simp [dtorRange])
          · simp only [hn, if_false, Option.some.injEq] at he; subst he; exact BlkKept.refl st
      · simp [ha] at he
    | aAssign a j src =>
      simp only [exec', Option.bind_eq_bind] at he
      cases hs : (st.arrs a).store with
      | none => simp [hs] at he
      | some s =>
        simp only [hs, Option.bind_some] at he
        by_cases hc : j ≥ (st.arrs a).size
        · simp [hc] at he
        · simp only [hc, if_false] at he
          cases hr : resolve st src with
          | none => simp [hr] at he
          | some lp =>
            obtain ⟨l, p⟩ := lp
            cases l with
            | none => simp [hr] at he
            | some l => simp [hr] at he; subst he; exact BlkKept.of_eq rfl
    | aRemove a j =>
      simp only [exec', Option.bind_eq_bind] at he
      cases hs : (st.arrs a).store with
      | none => simp [hs] at he
      | some s =>
        simp only [hs, Option.bind_some] at he
        by_cases hc : j ≥ (st.arrs a).size
        · simp [hc] at he
        · simp only [hc, if_false, Option.some.injEq] at he
          subst he; exact BlkKept.of_eq (by simp [shiftDown_blk])
    | aCreate a cap =>
      simp only [exec'] at he
      by_cases ha : (st.arrs a).alive = true
      · simp [ha] at he
      · simp only [ha, Bool.false_eq_true, if_false, Option.some.injEq] at he
        subst he; exact BlkKept.of_eq rfl
    | aSwap a b =>
      simp only [exec'] at he
      by_cases hg : (!(st.arrs a).alive || !(st.arrs b).alive) = true
      · simp [hg] at he
      · simp only [hg, Bool.false_eq_true, if_false, Option.some.injEq] at he
        subst he; exact BlkKept.of_eq rfl
  · rw [if_neg hv] at he; cases he

end Nstd.Life
