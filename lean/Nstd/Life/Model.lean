/-
  Life area (properties C04, C05): slot-level model of the element lifecycle in the eight
  libnstd containers Array, List, Map, MultiMap, HashMap, HashSet, PoolList, PoolMap.

  The model does not re-model AVL rotations or hash chains (areas Avl / Hash do); it models
  *which element objects* the code constructs, copies, assigns, destroys and relinks, in the
  code's order, and where they live:

    * node containers keep their items in blocks of N slots (N per kind: `Per`, read from the sources), a LIFO free list of slots and the
      list of blocks (`List.hpp:insert`, `HashMap.hpp:insert`, `PoolList.hpp:allocateFreeItem`, ...);
      an element never changes its slot; removal pushes the slot on the free list;
    * Array keeps its elements in one storage block `(storage, index)`; `reserve` moves them
      (`Array.hpp:reserve`), `remove` shifts by assignment;
    * every container variable owns sentinel objects (`endItem` holds default constructed
      key/value objects).

  Every model operation emits the lifecycle events the code performs (`Ev`).  Arguments that
  are references are modelled as references (`SrcRef.item`, `SrcRef.elem`): they are resolved
  when the code dereferences them, so `a.append(a[i])`, `l.append(l)`, `m.insert(k, *it)`,
  `s.remove(s)` are expressible as such.

  Structure: an operation (`Op`) is compiled, as the outer C++ function does, into a list of
  micro steps (`Micro` = the inner C++ functions `insert(iterator, value)`, `remove(iterator)`,
  `clear`, `reserve`, ...), each of which is executed by `exec`.
-/
namespace Nstd.Life

inductive Kind
  | A | L | M | U | H | S | P | Q
deriving DecidableEq, Repr

/-- a container variable: kind and index (0 or 1) -/
structure Var where
  k : Kind
  v : Nat
deriving DecidableEq, Repr

/-- location of an element object.  field 0 = key, 1 = value -/
inductive Loc
  | heap (b i f : Nat)
  | sent (c : Var) (f : Nat)
  | ext
deriving DecidableEq, Repr

inductive Ev
  | alloc (b n : Nat)
  | free (b : Nat)
  | ctor (dst : Loc) (src : Option Loc)
  | assign (dst src : Loc)
  | dtor (dst : Loc)
deriving DecidableEq, Repr

/-- the fields of an item in construction order (`Item(key, value)` member order) -/
def Kind.fields : Kind → List Nat
  | .A => [1] | .L => [1] | .M => [0, 1] | .U => [0, 1] | .H => [0, 1] | .S => [0] | .P => [1] | .Q => [1, 0]

/-- the objects of the sentinel `endItem` in construction order -/
def Kind.sentFields : Kind → List Nat
  | .A => [] | .L => [1] | .M => [0, 1] | .U => [0, 1] | .H => [0, 1] | .S => [0] | .P => [] | .Q => [1, 0]

def Kind.isHash : Kind → Bool
  | .H => true | .S => true | .Q => true | _ => false

def Kind.hasKey : Kind → Bool
  | .M => true | .U => true | .H => true | .S => true | .Q => true | _ => false

/-- HashMap/HashSet take slot 0 of a new block and push 1,2,3; the others push 0..3 and pop 3 -/
def Kind.hashOrder : Kind → Bool
  | .H => true | .S => true | _ => false

/-- element objects of pool containers are constructed in place -/
def Kind.isPool : Kind → Bool
  | .P => true | .Q => true | _ => false

structure Item where
  b : Nat
  i : Nat
deriving DecidableEq, Repr

structure Node where
  alive : Bool := false
  items : List Item := []
  free : List Item := []
  blocks : List Nat := []
  data : Option Nat := none
deriving Repr

structure Arr where
  alive : Bool := false
  store : Option Nat := none
  cap : Nat := 0
  size : Nat := 0
deriving Repr

/-- the number of items a node container of each kind allocates at once when its free list is empty
    (`new char[sizeof(ItemBlock) + sizeof(Item) * N]`, threaded into the free list by a loop with the same bound N);
    taken from the sources by the translator (`Nstd/Generated/LifeConst.lean`); every theorem holds for every such
    table with N ≥ 1 -/
structure Per where
  f : Kind → Nat
  pos : ∀ k, 1 ≤ f k

structure State where
  per : Per
  next : Nat
  mem : Loc → Option Nat
  blk : Nat → Option Nat
  nodes : Var → Node
  arrs : Nat → Arr
  log : List Ev

/-- a source operand of a construction / assignment -/
inductive SrcRef
  | ext (p : Nat)               -- temporary of the caller with payload p
  | inplace (p : Nat)           -- no source: constructed in place (default / from a plain argument)
  | item (c : Var) (j f : Nat)  -- field f of the j-th item of c (resolved when dereferenced)
  | elem (a j : Nat)            -- j-th element of array variable a
deriving Repr

inductive Micro
  | put (c : Var) (pos : Option Nat) (k v : Option SrcRef)
  | assignVal (c : Var) (j : Nat) (src : SrcRef)
  | remove (c : Var) (j : Nat)
  | removeKey (c : Var) (k : SrcRef)
  | removeVal (c : Var) (v : SrcRef)
  | clear (c : Var)
  | destroy (c : Var)
  | create (c : Var)
  | swap (c d : Var)
  | aReserve (a n : Nat)
  | aPush (a : Nat) (src : SrcRef)
  | aTruncate (a n : Nat)
  | aAssign (a j : Nat) (src : SrcRef)
  | aRemove (a j : Nat)
  | aDestroy (a : Nat)
  | aCreate (a cap : Nat)
  | aSwap (a b : Nat)
deriving Repr

-- ---------------------------------------------------------------------------------------------
-- state updates

def upd {α : Type} [DecidableEq α] {β : Type} (f : α → β) (a : α) (b : β) : α → β :=
  fun x => if x = a then b else f x

def State.emit (st : State) (e : Ev) : State := { st with log := st.log ++ [e] }

def State.setNode (st : State) (c : Var) (n : Node) : State := { st with nodes := upd st.nodes c n }
def State.setArr (st : State) (a : Nat) (x : Arr) : State := { st with arrs := upd st.arrs a x }

/-- `new char[..]`: a fresh block with n element slots -/
def State.alloc (st : State) (n : Nat) : State :=
  { st with next := st.next + 1, blk := upd st.blk st.next (some n), log := st.log ++ [.alloc st.next n] }

def State.freeBlk (st : State) (b : Nat) : State :=
  { st with blk := upd st.blk b none, log := st.log ++ [.free b] }

def SrcRef.loc (st : State) : SrcRef → Option (Option Loc)
  | .ext _ => some (some .ext)
  | .inplace _ => some none
  | .item c j f =>
    -- a reference to a member the item type does not have is ill-formed (not executable)
    if f ∈ c.k.fields then (st.nodes c).items[j]?.map fun it => some (.heap it.b it.i f) else none
  | .elem a j =>
    match (st.arrs a).store with
    | some s => if j < (st.arrs a).size then some (some (.heap s j 1)) else none
    | none => none

/-- payload read through a source operand (none: the operand does not designate a live object) -/
def SrcRef.payload (st : State) : SrcRef → Option Nat
  | .ext p => some p
  | .inplace p => some p
  | r => match r.loc st with
    | some (some l) => st.mem l
    | _ => none

/-- placement-new of an object at dst, copy-constructed from src (or in place) -/
def State.ctor (st : State) (dst : Loc) (src : Option Loc) (p : Option Nat) : State :=
  { st with mem := upd st.mem dst p, log := st.log ++ [.ctor dst src] }

def State.assign (st : State) (dst src : Loc) (p : Option Nat) : State :=
  { st with mem := upd st.mem dst p, log := st.log ++ [.assign dst src] }

def State.dtor (st : State) (dst : Loc) : State :=
  { st with mem := upd st.mem dst none, log := st.log ++ [.dtor dst] }

def Item.loc (it : Item) (f : Nat) : Loc := .heap it.b it.i f

/-- destructor calls in list order -/
def State.dtorLocs (st : State) : List Loc → State
  | [] => st
  | l :: rest => (st.dtor l).dtorLocs rest

/-- placement-new calls in list order: (destination, source location, payload) -/
def State.ctorList (st : State) : List (Loc × Option Loc × Option Nat) → State
  | [] => st
  | (d, src, p) :: rest => (st.ctor d src p).ctorList rest

/-- the objects of one item in destruction order (reverse construction order) -/
def Item.dtorOrder (k : Kind) (it : Item) : List Loc := k.fields.reverse.map it.loc

def State.dtorItem (st : State) (k : Kind) (it : Item) : State := st.dtorLocs (it.dtorOrder k)

def State.dtorItems (st : State) (k : Kind) (items : List Item) : State :=
  st.dtorLocs (items.flatMap (Item.dtorOrder k))

def State.freeBlocks (st : State) : List Nat → State
  | [] => st
  | b :: rest => (st.freeBlk b).freeBlocks rest

def keyOf (st : State) (it : Item) : Option Nat := st.mem (it.loc 0)
def valOf (st : State) (it : Item) : Option Nat := st.mem (it.loc 1)

/-- index of the first item whose field f holds payload p -/
def findField (st : State) (f p : Nat) : List Item → Option Nat
  | [] => none
  | it :: rest =>
    if st.mem (it.loc f) = some p then some 0
    else (findField st f p rest).map (· + 1)

/-- number of leading items whose key satisfies pr (position in the sorted order) -/
def countWhile (st : State) (pr : Nat → Bool) : List Item → Nat
  | [] => 0
  | it :: rest =>
    match keyOf st it with
    | some k => if pr k then countWhile st pr rest + 1 else 0
    | none => 0

def insertAt {α : Type} (l : List α) (pos : Nat) (x : α) : List α := l.take pos ++ x :: l.drop pos

/-- `if(!data) data = new Item*[capacity]` of the hash containers -/
def allocData (st : State) (c : Var) : State :=
  (st.alloc 0).setNode c { st.nodes c with data := some st.next }

/-- the free list threaded through a new block: HashMap/HashSet take slot 0 and push 1,2,3;
    the others push 0..3 and pop 3 -/
def newSlots (n : Nat) (k : Kind) (b : Nat) : List Item :=
  if k.hashOrder then ⟨b, 0⟩ :: (List.range (n - 1)).map fun j => ⟨b, n - 1 - j⟩
  else (List.range n).map fun j => ⟨b, n - 1 - j⟩

/-- `if(!freeItem)`: a new block of `per c.k` items -/
def allocBlock (st : State) (c : Var) : State :=
  (st.alloc (st.per.f c.k)).setNode c
    { st.nodes c with free := newSlots (st.per.f c.k) c.k st.next, blocks := st.next :: (st.nodes c).blocks }

/-- pop the head of the free list, construct the members there, link the item at position pos -/
def useSlot (st : State) (c : Var) (pos : Nat) (it : Item) (rest : List Item)
    (srcs : List (Nat × Option Loc × Option Nat)) : State :=
  (st.ctorList (srcs.map fun (f, src, p) => (it.loc f, src, p))).setNode c
    { st.nodes c with items := insertAt (st.nodes c).items pos it, free := rest }

/-- link a new item at position pos: allocate the hash table if needed, take a slot, construct -/
def insertNew (st : State) (c : Var) (pos : Nat) (srcs : List (Nat × Option Loc × Option Nat)) : State :=
  let st := if c.k.isHash && (st.nodes c).data.isNone then allocData st c else st
  let st := if (st.nodes c).free.isEmpty then allocBlock st c else st
  match (st.nodes c).free with
  | it :: rest => useSlot st c pos it rest srcs
  | [] => st

def removeAt (st : State) (c : Var) (j : Nat) (it : Item) : State :=
  let n := st.nodes c
  let st := st.dtorItem c.k it
  st.setNode c { n with items := n.items.eraseIdx j, free := it :: n.free }

def resolve (st : State) (r : SrcRef) : Option (Option Loc × Option Nat) :=
  match r.loc st with
  | some l => some (l, r.payload st)
  | none => none

/-- source list of a new item in construction order of the kind -/
def fieldSrcs (kd : Kind) (k v : Option (Option Loc × Option Nat)) : Option (List (Nat × Option Loc × Option Nat)) :=
  kd.fields.mapM fun f =>
    match (if f = 0 then k else v) with
    | some (l, p) => some (f, l, p)
    | none => none

def resolveOpt (st : State) : Option SrcRef → Option (Option (Option Loc × Option Nat))
  | some r => (resolve st r).map some
  | none => some none

/-- `*it = value` on an existing item -/
def putAssign (st : State) (it : Item) : Option (Option Loc × Option Nat) → Option State
  | some (some vl, vp) => some (st.assign (it.loc 1) vl vp)
  | _ => none

/-- insert-or-assign with resolved operands: Map / HashMap overwrite the value of an existing key,
    HashSet / PoolMap leave the existing item alone, MultiMap always inserts (after the equal keys),
    Map inserts at the sorted position, the hash containers and the lists at the given position -/
def putResolved (st : State) (c : Var) (p : Nat) (kr vr : Option (Option Loc × Option Nat))
    (srcs : List (Nat × Option Loc × Option Nat)) : Option State :=
  let n := st.nodes c
  if c.k.hasKey then
    match kr with
    | some (_, some kp) =>
      if c.k = .U then some (insertNew st c (countWhile st (fun x => x ≤ kp) n.items) srcs)
      else
        match findField st 0 kp n.items with
        | some j =>
          if c.k = .M ∨ c.k = .H then
            match n.items[j]? with
            | some it => putAssign st it vr
            | none => none
          else some st
        | none => some (insertNew st c (if c.k = .M then countWhile st (fun x => x < kp) n.items else p) srcs)
    | _ => none
  else some (insertNew st c p srcs)

def reserveCopy (st : State) (ob nb : Nat) : List Nat → State
  | [] => st
  | i :: rest =>
    let st := st.ctor (.heap nb i 1) (some (.heap ob i 1)) (st.mem (.heap ob i 1))
    reserveCopy (st.dtor (.heap ob i 1)) ob nb rest

def dtorRange (st : State) (s : Nat) (l : List Nat) : State := st.dtorLocs (l.map fun i => .heap s i 1)

def shiftDown (st : State) (s : Nat) : List Nat → State
  | [] => st
  | i :: rest => shiftDown (st.assign (.heap s i 1) (.heap s (i + 1) 1) (st.mem (.heap s (i + 1) 1))) s rest

def range' (lo hi : Nat) : List Nat := (List.range (hi - lo)).map (· + lo)

def Var.valid (c : Var) : Bool := c.v ≤ 1 && c.k != .A

/-- the step names only the sixteen variables of the harness -/
def Micro.valid : Micro → Bool
  | .put c _ _ _ => c.valid | .assignVal c _ _ => c.valid | .remove c _ => c.valid | .removeKey c _ => c.valid
  | .removeVal c _ => c.valid | .clear c => c.valid | .destroy c => c.valid | .create c => c.valid
  | .swap c d => c.valid && d.valid
  | .aReserve a _ => a ≤ 1 | .aPush a _ => a ≤ 1 | .aTruncate a _ => a ≤ 1 | .aAssign a _ _ => a ≤ 1
  | .aRemove a _ => a ≤ 1 | .aDestroy a => a ≤ 1 | .aCreate a _ => a ≤ 1 | .aSwap a b => a ≤ 1 && b ≤ 1

/-- execution of one micro step; `none` = the step is not executable in this state
    (index outside the container: undefined behaviour in C++, never produced by `compile`) -/
def exec' (st : State) : Micro → Option State
  | .put c pos k v =>
    let n := st.nodes c
    if !n.alive then none else
    match resolveOpt st k with
    | none => none
    | some kr =>
      match resolveOpt st v with
      | none => none
      | some vr =>
        match fieldSrcs c.k kr vr with
        | none => none
        | some srcs =>
          if pos.getD n.items.length > n.items.length then none
          else putResolved st c (pos.getD n.items.length) kr vr srcs
  | .assignVal c j src => do
    if 1 ∉ c.k.fields then none     -- the items of this kind have no value member
    let it ← (st.nodes c).items[j]?
    let (l, p) ← resolve st src
    let l ← l
    some (st.assign (it.loc 1) l p)
  | .remove c j => do
    let it ← (st.nodes c).items[j]?
    some (removeAt st c j it)
  | .removeKey c k => do
    let kp ← k.payload st
    match findField st 0 kp (st.nodes c).items with
    | some j =>
      let it ← (st.nodes c).items[j]?
      some (removeAt st c j it)
    | none => some st
  | .removeVal c v => do
    let vp ← v.payload st
    match findField st 1 vp (st.nodes c).items with
    | some j =>
      let it ← (st.nodes c).items[j]?
      some (removeAt st c j it)
    | none => some st
  | .clear c =>
    let n := st.nodes c
    if !n.alive then none else
    let st := st.dtorItems c.k n.items
    some (st.setNode c { n with items := [], free := n.items.reverse ++ n.free })
  | .destroy c =>
    let n := st.nodes c
    if !n.alive then none else
    let st := match n.data with | some d => st.freeBlk d | none => st
    let st := st.dtorItems c.k n.items
    let st := st.freeBlocks n.blocks
    let st := st.dtorLocs (c.k.sentFields.reverse.map fun f => .sent c f)
    some (st.setNode c {})
  | .create c =>
    if (st.nodes c).alive then none else
    let st := st.ctorList (c.k.sentFields.map fun f => (.sent c f, none, some 0))
    some (st.setNode c { alive := true })
  | .swap c d =>
    let n := st.nodes c
    let m := st.nodes d
    if !n.alive || !m.alive || c.k != d.k then none else
    some ((st.setNode c m).setNode d n)
  | .aReserve a n =>
    let x := st.arrs a
    if !x.alive then none else
    if n > x.cap || (x.store.isNone && n > 0) then
      let cap := (if n > x.cap then n else x.cap) ||| 3
      let nb := st.next
      let st := st.alloc cap
      let st := match x.store with
        | some ob => (reserveCopy st ob nb (List.range x.size)).freeBlk ob
        | none => st
      some (st.setArr a { x with store := some nb, cap := cap })
    else some st
  | .aPush a src => do
    let x := st.arrs a
    let s ← x.store
    if x.size ≥ x.cap then none
    let (l, p) ← resolve st src
    some ((st.ctor (.heap s x.size 1) l p).setArr a { x with size := x.size + 1 })
  | .aTruncate a n =>
    let x := st.arrs a
    if !x.alive then none else
    match x.store with
    | some s =>
      if n < x.size then some ((dtorRange st s (range' n x.size)).setArr a { x with size := n })
      else some st
    | none => some st
  | .aAssign a j src => do
    let x := st.arrs a
    let s ← x.store
    if j ≥ x.size then none
    let (l, p) ← resolve st src
    let l ← l
    some (st.assign (.heap s j 1) l p)
  | .aRemove a j => do
    let x := st.arrs a
    let s ← x.store
    if j ≥ x.size then none
    let st := shiftDown st s (range' j (x.size - 1))
    some ((st.dtor (.heap s (x.size - 1) 1)).setArr a { x with size := x.size - 1 })
  | .aDestroy a =>
    let x := st.arrs a
    if !x.alive then none else
    let st := match x.store with
      | some s => (dtorRange st s (List.range x.size)).freeBlk s
      | none => st
    some (st.setArr a {})
  | .aCreate a cap =>
    if (st.arrs a).alive then none else
    some (st.setArr a { alive := true, cap := cap })
  | .aSwap a b =>
    let x := st.arrs a
    let y := st.arrs b
    if !x.alive || !y.alive then none else
    some ((st.setArr a y).setArr b x)

def exec (st : State) (m : Micro) : Option State := if m.valid then exec' st m else none

def execAll (st : State) : List Micro → Option State
  | [] => some st
  | m :: rest =>
    match exec st m with
    | some st' => execAll st' rest
    | none => none

-- ---------------------------------------------------------------------------------------------
-- `List::sort()`: the quicksort of List.hpp on node indices.  It relinks nothing and constructs / destroys no stored element:
-- `QuickSort::swap(a, b)` is `T tmp = a->value; a->value = b->value; b->value = tmp;` - one temporary per call and two
-- assignments to value objects.  The control flow depends on the comparisons `ptr2->value < pivot` only; their outcomes are
-- taken from an oracle list while it lasts (an arbitrary, possibly inconsistent `operator<`), the honest `<` on payloads afterwards.

def cmpLt (orc : List Bool) (a b : Nat) : Bool × List Bool :=
  match orc with
  | r :: rest => (r, rest)
  | [] => (decide (a < b), [])

/-- payload list after `swap(a, b)` -/
def swapVals (vals : List Nat) (a b : Nat) : List Nat := (vals.set a (vals.getD b 0)).set b (vals.getD a 0)

/-- the two assignments of `swap(a, b)`; the temporary `tmp` (payload of a) is the caller-side object `.ext` -/
def swapMicros (c : Var) (vals : List Nat) (a b : Nat) : List Micro :=
  [.assignVal c a (.item c b 1), .assignVal c b (.ext (vals.getD a 0))]

structure SortSt where
  p0 : Nat
  p1 : Nat
  vals : List Nat
  ms : List Micro
  orc : List Bool

/-- the `do ... while(ptr2 != right)` loop: `cnt` iterations, `p2` = the node `ptr2` of this iteration -/
def sortLoop (c : Var) (pivot : Nat) : Nat → Nat → SortSt → SortSt
  | 0, _, s => s
  | cnt + 1, p2, s =>
    if (cmpLt s.orc (s.vals.getD p2 0) pivot).1 then
      sortLoop c pivot cnt (p2 + 1)
        ⟨s.p1, s.p1 + 1, swapVals s.vals (s.p1 + 1) p2, s.ms ++ swapMicros c s.vals (s.p1 + 1) p2,
          (cmpLt s.orc (s.vals.getD p2 0) pivot).2⟩
    else sortLoop c pivot cnt (p2 + 1) { s with orc := (cmpLt s.orc (s.vals.getD p2 0) pivot).2 }

/-- `QuickSort::sort(left, right)` (left < right); `none` = out of fuel (never: the ranges shrink) -/
def sortRange (c : Var) : Nat → Nat → Nat → List Nat → List Bool → Option (List Nat × List Micro × List Bool)
  | 0, _, _, _, _ => none
  | fuel + 1, left, right, vals, orc =>
    let s := sortLoop c (vals.getD left 0) (right - left) (left + 1) ⟨left, left, vals, [], orc⟩
    let ms := s.ms ++ swapMicros c s.vals left s.p1
    let vals1 := swapVals s.vals left s.p1
    let p1 := if s.p1 = right then s.p1 else s.p1 + 1
    match (if left = s.p0 then some (vals1, [], s.orc) else sortRange c fuel left s.p0 vals1 s.orc) with
    | none => none
    | some (vals2, ms1, orc2) =>
      match (if p1 = right then some (vals2, [], orc2) else sortRange c fuel p1 right vals2 orc2) with
      | none => none
      | some (vals3, ms2, orc3) => some (vals3, ms ++ ms1 ++ ms2, orc3)

/-- the micro steps of `l.sort()` in state st -/
def sortMicros (st : State) (v : Nat) (orc : List Bool) : Option (List Micro) :=
  let n := (st.nodes ⟨.L, v⟩).items.length
  if n < 2 then some []
  else (sortRange ⟨.L, v⟩ n 0 (n - 1) ((st.nodes ⟨.L, v⟩).items.map fun it => (valOf st it).getD 0) orc).map fun r => r.2.1

-- ---------------------------------------------------------------------------------------------
-- operations (the public functions of the containers, as the harness calls them)

inductive Op
  -- all kinds
  | new (c : Var)
  | newcap (c : Var) (n : Nat)
  | copy (c : Var) (w : Nat)
  | assign (c : Var) (w : Nat)
  | swap (c : Var) (w : Nat)
  | clear (c : Var)
  -- Array
  | aAppend (v x : Nat) | aAppendRef (v i : Nat) | aAppendArr (v w : Nat) | aAppendPtr (v i n : Nat)
  | aResize (v n x : Nat) | aResizeRef (v n i : Nat) | aReserve (v n : Nat)
  | aRemove (v i : Nat) | aRemoveIt (v i : Nat) | aSet (v i x : Nat)
  -- List
  | lInsert (v : Nat) (pos : Option Nat) (x : Nat)           -- none = end (append); some 0 = prepend
  | lInsertRef (v : Nat) (pos : Option Nat) (i : Nat)
  | lInsertList (v : Nat) (pos : Option Nat) (w : Nat)
  | lRemove (v i : Nat) | lRemoveVal (v x : Nat) | lRemoveValRef (v i : Nat) | lSet (v i x : Nat)
  | lSort (v : Nat) (orc : List Bool)      -- `sort()`; orc = outcomes of the first comparisons `a < b` of the element type (any comparator)
  -- Map / MultiMap (c.k = M or U)
  | mInsert (c : Var) (k x : Nat)
  | mInsertHint (c : Var) (pos k x : Nat)
  | mInsertRef (c : Var) (k i : Nat)
  | mInsertMap (c : Var) (w : Nat)
  | mRemove (c : Var) (k : Nat)
  | mRemoveAt (c : Var) (i : Nat)
  | mSet (c : Var) (i x : Nat)
  -- HashMap
  | hInsert (v : Nat) (pos : Option Nat) (k x : Nat)
  | hAppendRef (v k i : Nat)
  | hRemove (v k : Nat) | hRemoveAt (v i : Nat) | hSet (v i x : Nat)
  -- HashSet
  | sInsert (v : Nat) (pos : Option Nat) (k : Nat)
  | sAppendRef (v i : Nat) | sAppendSet (v w : Nat)
  | sRemove (v k : Nat) | sRemoveRef (v i : Nat) | sRemoveSet (v w : Nat) | sRemoveAt (v i : Nat)
  -- PoolList
  | pAppend (v x : Nat) | pRemove (v i : Nat) | pRemoveRef (v i : Nat)
  | pRemoveChain (v i j : Nat)      -- remove(element i) whose destructor removes element j of the same pool (re-entrant removal)
  -- PoolMap
  | qAppend (v k x : Nat) | qRemove (v k : Nat) | qRemoveAt (v i : Nat) | qRemoveRef (v i : Nat)
  | qInsert (v : Nat) (pos : Option Nat) (k x : Nat)          -- insert(position, key); some 0 = at begin()
  | qRemoveChain (v i j : Nat)
deriving Repr

def guard' (b : Bool) (ms : List Micro) : Option (List Micro) := if b then some ms else none

def len (st : State) (c : Var) : Nat := (st.nodes c).items.length

/-- MultiMap::insert(hint, k, v): k is not below the key of the hinted item and equals the key of its successor -/
def hintAmbiguous (st : State) (c : Var) (pos k : Nat) : Bool :=
  match (st.nodes c).items[pos]?, (st.nodes c).items[pos + 1]? with
  | some p, some nx =>
    (match keyOf st p with | some kp => decide (kp ≤ k) | none => true) &&
    (match keyOf st nx with | some kn => decide (kn = k) | none => true)
  | _, _ => false

/-- copy every item of w into c (`for(i = other.begin; i != end; ++i) insert(i->key, i->value)`) -/
def copyItems (c w : Var) (n : Nat) : List Micro :=
  (List.range n).map fun j =>
    .put c none (if c.k.hasKey then some (.item w j 0) else none) (if c.k = .S then none else some (.item w j 1))

/-- `compile st op` = the micro steps the public function performs in state st; none = `bad-op`
    (the harness refuses the line: index outside the container, unknown variable) -/
def compile (st : State) : Op → Option (List Micro)
  | .new c =>
    guard' (c.v ≤ 1) (if c.k = .A then [.aDestroy c.v, .aCreate c.v 0] else [.destroy c, .create c])
  | .newcap c n =>
    guard' (c.v ≤ 1 && (c.k = .A || c.k.isHash))
      (if c.k = .A then [.aDestroy c.v, .aCreate c.v n] else [.destroy c, .create c])
  | .copy c w =>
    guard' (c.v ≤ 1 && w ≤ 1 && c.v ≠ w && !c.k.isPool)
      (if c.k = .A then
        [.aDestroy c.v, .aCreate c.v 0, .aReserve c.v (st.arrs w).cap] ++
          (List.range (st.arrs w).size).map (fun j => .aPush c.v (.elem w j))
       else [.destroy c, .create c] ++ copyItems c ⟨c.k, w⟩ (len st ⟨c.k, w⟩))
  | .assign c w =>
    guard' (c.v ≤ 1 && w ≤ 1 && !c.k.isPool)
      (if c.v = w then []
       else if c.k = .A then
        [.aTruncate c.v 0, .aReserve c.v (st.arrs w).cap] ++
          (List.range (st.arrs w).size).map (fun j => .aPush c.v (.elem w j))
       else [.clear c] ++ copyItems c ⟨c.k, w⟩ (len st ⟨c.k, w⟩))
  | .swap c w =>
    guard' (c.v ≤ 1 && w ≤ 1 && c.k ≠ .M && c.k ≠ .U)
      (if c.k = .A then [.aSwap c.v w] else [.swap c ⟨c.k, w⟩])
  | .clear c => guard' (c.v ≤ 1) (if c.k = .A then [.aTruncate c.v 0] else [.clear c])
  -- Array
  | .aAppend v x => guard' (v ≤ 1) [.aReserve v ((st.arrs v).size + 1), .aPush v (.ext x)]
  | .aAppendRef v i => guard' (v ≤ 1 && i < (st.arrs v).size) [.aReserve v ((st.arrs v).size + 1), .aPush v (.elem v i)]
  | .aAppendArr v w =>
    guard' (v ≤ 1 && w ≤ 1)
      (.aReserve v ((st.arrs v).size + (st.arrs w).size) :: (List.range (st.arrs w).size).map (fun j => .aPush v (.elem w j)))
  | .aAppendPtr v i n =>
    guard' (v ≤ 1 && i + n ≤ (st.arrs v).size)
      (.aReserve v ((st.arrs v).size + n) :: (List.range n).map (fun j => .aPush v (.elem v (i + j))))
  | .aResize v n x =>
    guard' (v ≤ 1)
      (if n < (st.arrs v).size then [.aTruncate v n]
       else .aReserve v n :: List.replicate (n - (st.arrs v).size) (.aPush v (.ext x)))
  | .aResizeRef v n i =>
    guard' (v ≤ 1 && i < (st.arrs v).size)
      (if n < (st.arrs v).size then [.aTruncate v n]
       else .aReserve v n :: List.replicate (n - (st.arrs v).size) (.aPush v (.elem v i)))
  | .aReserve v n => guard' (v ≤ 1) [.aReserve v n]
  | .aRemove v i => guard' (v ≤ 1) (if i < (st.arrs v).size then [.aRemove v i] else [])
  | .aRemoveIt v i => guard' (v ≤ 1 && i < (st.arrs v).size) [.aRemove v i]
  | .aSet v i x => guard' (v ≤ 1 && i < (st.arrs v).size) [.aAssign v i (.ext x)]
  -- List
  | .lInsert v pos x => guard' (v ≤ 1 && pos.getD 0 ≤ len st ⟨.L, v⟩) [.put ⟨.L, v⟩ pos none (some (.ext x))]
  | .lInsertRef v pos i =>
    guard' (v ≤ 1 && pos.getD 0 ≤ len st ⟨.L, v⟩ && i < len st ⟨.L, v⟩) [.put ⟨.L, v⟩ pos none (some (.item ⟨.L, v⟩ i 1))]
  | .lInsertList v pos w =>
    let n := len st ⟨.L, v⟩
    let p := pos.getD n
    guard' (v ≤ 1 && w ≤ 1 && p ≤ n)
      (if v = w then
        -- the list itself: the loop covers the items present at the call and skips its own copies
        (List.range n).map fun j => .put ⟨.L, v⟩ (some (p + j)) none (some (.item ⟨.L, v⟩ (if j < p then j else j + j) 1))
       else (List.range (len st ⟨.L, w⟩)).map fun j => .put ⟨.L, v⟩ (some (p + j)) none (some (.item ⟨.L, w⟩ j 1)))
  | .lRemove v i => guard' (v ≤ 1 && i < len st ⟨.L, v⟩) [.remove ⟨.L, v⟩ i]
  | .lRemoveVal v x => guard' (v ≤ 1) [.removeVal ⟨.L, v⟩ (.ext x)]
  | .lRemoveValRef v i => guard' (v ≤ 1 && i < len st ⟨.L, v⟩) [.removeVal ⟨.L, v⟩ (.item ⟨.L, v⟩ i 1)]
  | .lSet v i x => guard' (v ≤ 1 && i < len st ⟨.L, v⟩) [.assignVal ⟨.L, v⟩ i (.ext x)]
  | .lSort v orc => guard' (v ≤ 1 && (sortMicros st v orc).isSome) ((sortMicros st v orc).getD [])
  -- Map / MultiMap
  | .mInsert c k x => guard' (c.v ≤ 1 && (c.k = .M || c.k = .U)) [.put c none (some (.ext k)) (some (.ext x))]
  | .mInsertHint c pos k x =>
    -- MultiMap: in every case but one the new item lands where the plain insert puts it (after the keys ≤ k): hint = end(); k below the
    -- hinted item (fits before it, or not: root insertion); k not below it and below its successor / it is the last (directly after it);
    -- k above the successor (root insertion).  The one exception is not executable here: k not below the hinted item and EQUAL to the
    -- key of its successor - the item is then inserted into the right subtree of the hinted node, i.e. after those of the equal keys
    -- that happen to be in that subtree (depends on the tree shape, which this model abstracts)
    guard' (c.v ≤ 1 && (c.k = .M || (c.k = .U && !hintAmbiguous st c pos k)) && pos ≤ len st c)
      [.put c none (some (.ext k)) (some (.ext x))]
  | .mInsertRef c k i =>
    guard' (c.v ≤ 1 && (c.k = .M || c.k = .U) && i < len st c) [.put c none (some (.ext k)) (some (.item c i 1))]
  | .mInsertMap c w =>
    guard' (c.v ≤ 1 && w ≤ 1 && c.k = .M) (copyItems c ⟨c.k, w⟩ (len st ⟨c.k, w⟩))
  | .mRemove c k => guard' (c.v ≤ 1 && (c.k = .M || c.k = .U)) [.removeKey c (.ext k)]
  | .mRemoveAt c i => guard' (c.v ≤ 1 && (c.k = .M || c.k = .U) && i < len st c) [.remove c i]
  | .mSet c i x => guard' (c.v ≤ 1 && (c.k = .M || c.k = .U) && i < len st c) [.assignVal c i (.ext x)]
  -- HashMap
  | .hInsert v pos k x =>
    guard' (v ≤ 1 && pos.getD 0 ≤ len st ⟨.H, v⟩) [.put ⟨.H, v⟩ pos (some (.ext k)) (some (.ext x))]
  | .hAppendRef v k i =>
    guard' (v ≤ 1 && i < len st ⟨.H, v⟩) [.put ⟨.H, v⟩ none (some (.ext k)) (some (.item ⟨.H, v⟩ i 1))]
  | .hRemove v k => guard' (v ≤ 1) [.removeKey ⟨.H, v⟩ (.ext k)]
  | .hRemoveAt v i => guard' (v ≤ 1 && i < len st ⟨.H, v⟩) [.remove ⟨.H, v⟩ i]
  | .hSet v i x => guard' (v ≤ 1 && i < len st ⟨.H, v⟩) [.assignVal ⟨.H, v⟩ i (.ext x)]
  -- HashSet
  | .sInsert v pos k => guard' (v ≤ 1 && pos.getD 0 ≤ len st ⟨.S, v⟩) [.put ⟨.S, v⟩ pos (some (.ext k)) none]
  | .sAppendRef v i => guard' (v ≤ 1 && i < len st ⟨.S, v⟩) [.put ⟨.S, v⟩ none (some (.item ⟨.S, v⟩ i 0)) none]
  | .sAppendSet v w => guard' (v ≤ 1 && w ≤ 1) (copyItems ⟨.S, v⟩ ⟨.S, w⟩ (len st ⟨.S, w⟩))
  | .sRemove v k => guard' (v ≤ 1) [.removeKey ⟨.S, v⟩ (.ext k)]
  | .sRemoveRef v i => guard' (v ≤ 1 && i < len st ⟨.S, v⟩) [.removeKey ⟨.S, v⟩ (.item ⟨.S, v⟩ i 0)]
  | .sRemoveSet v w =>
    guard' (v ≤ 1 && w ≤ 1)
      (if v = w then List.replicate (len st ⟨.S, v⟩) (.removeKey ⟨.S, v⟩ (.item ⟨.S, v⟩ 0 0))
       else (List.range (len st ⟨.S, w⟩)).map fun j => .removeKey ⟨.S, v⟩ (.item ⟨.S, w⟩ j 0))
  | .sRemoveAt v i => guard' (v ≤ 1 && i < len st ⟨.S, v⟩) [.remove ⟨.S, v⟩ i]
  -- PoolList
  | .pAppend v x => guard' (v ≤ 1) [.put ⟨.P, v⟩ none none (some (.inplace x))]
  | .pRemove v i => guard' (v ≤ 1 && i < len st ⟨.P, v⟩) [.remove ⟨.P, v⟩ i]
  | .pRemoveRef v i => guard' (v ≤ 1 && i < len st ⟨.P, v⟩) [.remove ⟨.P, v⟩ i]
  -- `remove(x_i)` where `~T` of x_i calls `remove(x_j)` on the same pool: the item i is unlinked before its destructor
  -- runs, the nested removal completes (destroy x_j, push its slot) inside it, then x_i dies and its slot is pushed
  | .pRemoveChain v i j =>
    guard' (v ≤ 1 && i < len st ⟨.P, v⟩ && j < len st ⟨.P, v⟩ && i != j)
      [.remove ⟨.P, v⟩ j, .remove ⟨.P, v⟩ (if j < i then i - 1 else i)]
  -- PoolMap
  | .qAppend v k x => guard' (v ≤ 1) [.put ⟨.Q, v⟩ none (some (.ext k)) (some (.inplace x))]
  | .qRemove v k => guard' (v ≤ 1) [.removeKey ⟨.Q, v⟩ (.ext k)]
  | .qRemoveAt v i => guard' (v ≤ 1 && i < len st ⟨.Q, v⟩) [.remove ⟨.Q, v⟩ i]
  | .qRemoveRef v i => guard' (v ≤ 1 && i < len st ⟨.Q, v⟩) [.remove ⟨.Q, v⟩ i]
  | .qInsert v pos k x =>
    guard' (v ≤ 1 && pos.getD 0 ≤ len st ⟨.Q, v⟩) [.put ⟨.Q, v⟩ pos (some (.ext k)) (some (.inplace x))]
  -- the nested removal is started by the destructor of the KEY object of item i (the first member `~Item` destroys)
  | .qRemoveChain v i j =>
    guard' (v ≤ 1 && i < len st ⟨.Q, v⟩ && j < len st ⟨.Q, v⟩ && i != j)
      [.remove ⟨.Q, v⟩ j, .remove ⟨.Q, v⟩ (if j < i then i - 1 else i)]

/-- result of one operation: rejected (`bad-op`, state unchanged), not executable (`fault`: the model
    claims the real code never gets there) or the new state -/
inductive Res
  | bad
  | fault
  | ok (st : State)

def stepRes (st : State) (op : Op) : Res :=
  match compile st op with
  | none => .bad
  | some ms =>
    match execAll st ms with
    | some st' => .ok st'
    | none => .fault

def step (st : State) (op : Op) : State :=
  match stepRes st op with
  | .ok st' => st'
  | _ => st

def run (st : State) : List Op → State
  | [] => st
  | op :: rest => run (step st op) rest

-- ---------------------------------------------------------------------------------------------
-- construction / destruction of the sixteen variables

def nodeKinds : List Kind := [.L, .M, .U, .H, .S, .P, .Q]

def nodeVars : List Var := nodeKinds.flatMap fun k => [⟨k, 0⟩, ⟨k, 1⟩]

def createAll : List Micro :=
  [.aCreate 0 0, .aCreate 1 0] ++ nodeVars.map .create

def destroyAll : List Micro :=
  [.aDestroy 0, .aDestroy 1] ++ nodeVars.map .destroy

def empty (p : Per) : State :=
  { per := p, next := 0, mem := fun _ => none, blk := fun _ => none, nodes := fun _ => {}, arrs := fun _ => {}, log := [] }

/-- all sixteen variables default-constructed (for a table p of items per block) -/
def init (p : Per) : State := (execAll (empty p) createAll).getD (empty p)

/-- four items per block for every kind (the value in the pinned sources; used in examples) -/
def per4 : Per := ⟨fun _ => 4, fun _ => by decide⟩

def finish (st : State) : State := (execAll st destroyAll).getD st

end Nstd.Life
