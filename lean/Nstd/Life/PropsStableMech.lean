import Nstd.Avl.PropsIds
import Nstd.Seq.Props
import Nstd.Life.HashStable
/-
  C05 at MECHANISM level.  The theorems of `PropsStable.lean` live in the slot-level model of area Life, in which an
  element IS its slot `(block, index)`: they are the *frame* of C05 (in which slots an operation may construct, destroy or
  assign; that nothing else is touched; that blocks are only released by destructors).  That the relinking code itself -
  AVL rotations, the two-children case of `Map::remove`, the prev/next surgery of `List`, the bucket chains of the hash
  containers - never copies an item into another node is the business of the models that contain this code
  (Avl: `Nstd/Avl`, Seq: `Nstd/Seq`, Hash: `Nstd/Hash`; `Nstd/Life/HashStable.lean` puts the hash theorem into three-way form).  This module
  makes those theorems obligations of property C05: every theorem below is a re-statement (same hypotheses, same
  conclusion) of a theorem of the area that owns the mechanism, proved by it.
-/
namespace Nstd.Life.Mech

/-- Map / MultiMap (tree model of area Avl with stored heights, rotations, the four relinking cases of `remove`, hinted
    insert): after ANY operation from a reachable state every item `e = (id, key, value)` of the tree is still in the tree
    unchanged; or (Map) still in the tree under the same id and key and the op is an insert of exactly its key whose value it now
    carries; or the op is a removal that designates exactly this item (`Avl.Removes`) or `clear`, and its id is on the free list.
    Rotations and two-children removal relink, they never copy, release or re-create an item. -/
theorem map_items_relink {multi : Bool} {s : Nstd.Avl.St} (hr : Nstd.Avl.Reach multi s) (op : Nstd.Avl.Op)
    (r : Nstd.Avl.St × Nstd.Avl.Out) (h : Nstd.Avl.step s op = some r) (e : Nat × Int × Int) (he : e ∈ s.t.inorder) :
    Nstd.Avl.Survives s op r.1 e :=
  Nstd.Avl.ids_stable_step hr op r h e he

/-- HashMap / HashSet / PoolMap (chain-list model of area Hash: buckets, `cell` / `nextCell` chains, insertion-order list, free
    list, blocks): for every live item `id` of table `t`, one step either keeps it linked under the SAME id with the same key
    (value unchanged unless this op writes the value of exactly that key) in the table `op.owner t` (the other table after
    swap), or - iff the op releases it - unlinks it onto the free list, or the op destroys / assigns over the whole table
    object.  Bucket-chain surgery never copies an item to another id. -/
theorem hash_items_relink (kind : Nstd.Hash.Kind) (h : Nat → Nat) (s s' : Nstd.Hash.State) (op : Nstd.Hash.Op) (o : Nstd.Hash.Out)
    (hinv : Nstd.Hash.SInv h s) (hs : Nstd.Hash.step kind h s op = some (s', o)) :
    ∀ t id, id ∈ (s.get t).order →
      (¬ op.releases s t id ∧ ¬ op.destroys t ∧
        ∃ t', t' = op.owner t ∧ id ∈ (s'.get t').order ∧
          ((s'.get t').items id).key = ((s.get t).items id).key ∧
          (((s'.get t').items id).value = ((s.get t).items id).value ∨
            ∃ v, op.writes kind t ((s.get t).items id).key v ∧ ((s'.get t').items id).value = v))
      ∨ (op.releases s t id ∧ ¬ op.destroys t ∧ id ∉ (s'.get t).order ∧ id ∈ (s'.get t).free)
      ∨ op.destroys t :=
  HashStable.items_stable_step kind h s s' op o hinv hs

/-- the invariant `Hash.SInv` assumed above holds in every reachable state of the hash machine -/
theorem hash_reachable_inv (kind : Nstd.Hash.Kind) (h : Nat → Nat) (ipb dcap : Nat) (hk : 0 < ipb) (hd : 0 < dcap)
    (ops : List Nstd.Hash.Op) (s : Nstd.Hash.State) (os : List Nstd.Hash.Out)
    (hr : Nstd.Hash.run kind h (Nstd.Hash.initWith ipb dcap) ops = some (s, os)) : Nstd.Hash.SInv h s :=
  HashStable.reachable_inv kind h ipb dcap hk hd ops s os hr

/-- the same at pointer level (heap of items with `cell` / `nextCell` / `prev` / `next` pointers, coupled to the chain-list
    state by `PRel`): a live item keeps its address, key and - unless written by this op - value; a released item is off the
    list and on the `prev`-linked free list. -/
theorem hash_ptr_items_relink (kind : Nstd.Hash.Kind) (h : Nat → Nat) (ps ps' : Nstd.Hash.Ptr.PState) (s : Nstd.Hash.State)
    (op : Nstd.Hash.Op) (o : Nstd.Hash.Out) (hp : Nstd.Hash.Ptr.PRel ps s) (hs : Nstd.Hash.SInv h s)
    (hst : Nstd.Hash.Ptr.pstep kind h ps op = some (ps', o)) (t : Bool) (id : Nat) (l : List Nat)
    (hl : (ps.get t).order = some l) (hid : id ∈ l) (hd : ¬ op.destroys t) :
    ∃ s', Nstd.Hash.step kind h s op = some (s', o) ∧ Nstd.Hash.Ptr.PRel ps' s' ∧
      (¬ op.releases s t id →
        ∃ l', (ps'.get (op.owner t)).order = some l' ∧ id ∈ l' ∧
          ((ps'.get (op.owner t)).items id).key = ((ps.get t).items id).key ∧
          (((ps'.get (op.owner t)).items id).value = ((ps.get t).items id).value ∨
            ∃ v, op.writes kind t ((ps.get t).items id).key v ∧ ((ps'.get (op.owner t)).items id).value = v)) ∧
      (op.releases s t id →
        ∃ l' fl, (ps'.get t).order = some l' ∧ id ∉ l' ∧
          Nstd.Hash.Ptr.FreeL (ps'.get t).items (ps'.get t).freeItem fl ∧ id ∈ fl) :=
  Nstd.Hash.ptr_items_stable_step kind h ps ps' s op o hp hs hst t id l hl hid hd

/- the theorems of area Seq hold for every rounding mask of `Array::reserve` (class `ArrCfg`, irrelevant for List) -/
variable [Nstd.Seq.ArrCfg]

/-- List (chain model of area Seq): `insert` puts the new element into a node that was not part of the list and leaves every
    other `(id, value)` in its node, in order. -/
theorem list_insert_relinks (s : Nstd.Seq.LState) (hs : Nstd.Seq.LState.LInv s) (pos : Nat) (v : Int)
    (r : Nstd.Seq.Res Nstd.Seq.LState) (h : s.insert pos v = some r) :
    ∃ id, id ∉ s.ids ∧ r.st.nodes = s.nodes.take pos ++ (id, v) :: s.nodes.drop pos :=
  Nstd.Seq.never_move_insert s hs pos v r h

/-- List: `insert(pos, list)` / `append(list)` / `prepend(list)` keep the old items in their nodes and in order. -/
theorem list_insertList_relinks (s : Nstd.Seq.LState) (pos : Nat) (vs : List Int) (r : Nstd.Seq.Res Nstd.Seq.LState)
    (h : s.insertList pos vs = some r) :
    s.nodes.Sublist r.st.nodes ∧ r.st.nodes.length = s.nodes.length + vs.length :=
  Nstd.Seq.never_move_insertList s pos vs r h

/-- List: `remove(iterator)` takes exactly the designated node out of the chain; every other item stays in its node. -/
theorem list_remove_relinks (s : Nstd.Seq.LState) (pos : Nat) (r : Nstd.Seq.Res Nstd.Seq.LState) (h : s.remove pos = some r) :
    r.st.nodes = s.nodes.eraseIdx pos ∧ ∃ id x, s.nodes[pos]? = some (id, x) ∧ r.st.free = id :: s.free :=
  Nstd.Seq.never_move_remove s pos r h

/-- List: `swap` hands the two chains over as they are. -/
theorem list_swap_hands_over (s : Nstd.Seq.State) (v : Nat) (hv : v < 2) (r : Nstd.Seq.Res Nstd.Seq.State)
    (h : Nstd.Seq.step s (.lswap v) = some r) :
    r.st.getL v = s.getL (1 - v) ∧ r.st.getL (1 - v) = s.getL v :=
  Nstd.Seq.never_move_swap s v hv r h

/-- List, pointer level (heap of items with value/prev/next, sentinel, `_begin`, `freeItem`): `insert` returns the new item,
    which is the k-th item of the new chain; all other items keep their addresses. -/
theorem list_ptr_insert (p : Nstd.Seq.Ptr.PList) (xs fs : List Nat) (s : Nstd.Seq.LState) (h : Nstd.Seq.Ptr.Rep p xs fs s)
    (k : Nat) (hk : k ≤ xs.length) (v : Int) :
    ∃ p' item fs', Nstd.Seq.Ptr.insert p ((xs.drop k).headD 0) v = some (p', item) ∧
      Nstd.Seq.Ptr.Rep p' (xs.take k ++ item :: xs.drop k) fs' (s.insertRaw k v).1 ∧
      (xs.take k ++ item :: xs.drop k)[k]? = some item :=
  Nstd.Seq.ptr_insert_returns p xs fs s h k hk v

/-- List, pointer level: `remove` unlinks exactly `item`, which becomes the head of the free list; the chain is otherwise
    the same sequence of addresses. -/
theorem list_ptr_remove (p : Nstd.Seq.Ptr.PList) (a b fs : List Nat) (item : Nat) (s : Nstd.Seq.LState)
    (h : Nstd.Seq.Ptr.Rep p (a ++ item :: b) fs s) :
    ∃ p', Nstd.Seq.Ptr.remove p item = some (p', b.headD 0) ∧
      Nstd.Seq.Ptr.Rep p' (a ++ b) (item :: fs)
        { s with nodes := s.nodes.take a.length ++ s.nodes.drop (a.length + 1), free := (item - 1) :: s.free } :=
  Nstd.Seq.ptr_remove_returns p a b fs item s h

/-- List, pointer level: `swap` re-anchors the sentinels and exchanges the headers; no item is copied, moved or modified. -/
theorem list_ptr_swap (H : Nstd.Seq.Ptr2.Heap) (eA eB : Nat) (A B : Nstd.Seq.Ptr2.Hdr) (xsA fsA xsB fsB : List Nat)
    (hne : eA ≠ eB) (nd : (xsA ++ xsB).Nodup)
    (hs : ∀ x ∈ xsA ++ fsA ++ xsB ++ fsB, x ≠ eA ∧ x ≠ eB)
    (ha : Nstd.Seq.Ptr2.RepE H A eA xsA fsA) (hb : Nstd.Seq.Ptr2.RepE H B eB xsB fsB) :
    Nstd.Seq.Ptr2.RepE (Nstd.Seq.Ptr2.swap H eA eB A B).1 (Nstd.Seq.Ptr2.swap H eA eB A B).2.1 eA xsB fsB ∧
    Nstd.Seq.Ptr2.RepE (Nstd.Seq.Ptr2.swap H eA eB A B).1 (Nstd.Seq.Ptr2.swap H eA eB A B).2.2 eB xsA fsA ∧
    (Nstd.Seq.Ptr2.swap H eA eB A B).1.val = H.val ∧
    (Nstd.Seq.Ptr2.swap H eA eB A B).2.1.blocks = B.blocks ∧ (Nstd.Seq.Ptr2.swap H eA eB A B).2.2.blocks = A.blocks :=
  Nstd.Seq.ptr_swap H eA eB A B xsA fsA xsB fsB hne nd hs ha hb

-- which address an insert takes, at the level of the tree model (area Avl) ---------------------------------------------------

/-- Map / MultiMap, every key type (= `Avl.G.insert_takes_free_head`): an operation that creates an item is a plain or hinted insert,
    the new item - the one the returned iterator designates - has the id `alloc.1`: the head of the LIFO free list, or with an
    empty free list the last slot of a freshly allocated block (`Avl.alloc_lifo`); that id is the id of NO live item (an address is
    reused only after its item was removed, or was never used); the free list loses exactly that id. -/
theorem map_insert_takes_free_head {K : Type} [Nstd.Avl.KeyOrder K] (multi : Bool) (ops : List (Nstd.Avl.G.Op K))
    (op : Nstd.Avl.G.Op K) (r : Nstd.Avl.G.St K × Nstd.Avl.Out)
    (h : Nstd.Avl.G.step (Nstd.Avl.G.run multi ops) op = some r) (hc : r.1.size = (Nstd.Avl.G.run multi ops).size + 1) :
    ((∃ k v, op = .insert k v) ∨ (∃ p k v, op = .insertAt p k v)) ∧
    (∃ q, r.2.ret = .it q ∧ (r.1.t.inorder.map (fun e => e.1))[q]? = some (Nstd.Avl.G.run multi ops).alloc.1) ∧
    (Nstd.Avl.G.run multi ops).alloc.1 ∉ (Nstd.Avl.G.run multi ops).t.inorder.map (fun e => e.1) ∧
    r.1.free = (Nstd.Avl.G.run multi ops).alloc.2.free ∧ r.1.blocks = (Nstd.Avl.G.run multi ops).alloc.2.blocks :=
  Nstd.Avl.G.insert_takes_free_head multi ops op r h hc

/-- Map / MultiMap (= `Avl.G.remove_then_insert_reuses`): the item created by the first creating operation after `remove(iterator)`
    gets exactly the address of the item just removed, and the free list is back to what it was. -/
theorem map_remove_then_insert_reuses {K : Type} [Nstd.Avl.KeyOrder K] (multi : Bool) (ops : List (Nstd.Avl.G.Op K)) (p : Nat)
    (r1 : Nstd.Avl.G.St K × Nstd.Avl.Out) (h1 : Nstd.Avl.G.step (Nstd.Avl.G.run multi ops) (.removeAt p) = some r1)
    (op : Nstd.Avl.G.Op K) (r2 : Nstd.Avl.G.St K × Nstd.Avl.Out) (h2 : Nstd.Avl.G.step r1.1 op = some r2)
    (hc : r2.1.size = r1.1.size + 1) :
    ∃ q, r2.2.ret = .it q ∧ (r2.1.t.inorder.map (fun e => e.1))[q]? = (Nstd.Avl.G.run multi ops).order[p]? ∧
      r2.1.free = (Nstd.Avl.G.run multi ops).free :=
  Nstd.Avl.G.remove_then_insert_reuses multi ops p r1 h1 op r2 h2 hc

/-- the allocation order of the node pool of Map / MultiMap (= `Avl.alloc_lifo`; the items-per-block constant is translated from the
    current headers): head of the free list, else the last slot of a fresh block, the other slots pushed highest on top. -/
theorem map_alloc_lifo (s : Nstd.Avl.St) :
    (∀ i rest, s.free = i :: rest → s.alloc = (i, { s with free := rest })) ∧
    (s.free = [] → s.alloc = (Nstd.Avl.ipbOf s.multi * s.blocks + (Nstd.Avl.ipbOf s.multi - 1),
        { s with free := Nstd.Avl.blockItems (Nstd.Avl.ipbOf s.multi * s.blocks) (Nstd.Avl.ipbOf s.multi - 1), blocks := s.blocks + 1 })) :=
  Nstd.Avl.alloc_lifo s

end Nstd.Life.Mech
