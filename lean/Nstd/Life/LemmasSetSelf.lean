import Nstd.Life.LemmasFault
/-
  HashSet with itself as argument: `s.append(s)` changes nothing, `s.remove(s)` empties the set -
  what the same calls with an independent copy of s do.
-/
namespace Nstd.Life
open Ops

theorem findField_of_mem (st : State) (f p : Nat) : ∀ (items : List Item) (it : Item), it ∈ items →
    st.mem (it.loc f) = some p → ∃ j, findField st f p items = some j
  | [], _, h, _ => by cases h
  | a :: rest, it, h, hp => by
    simp only [findField]
    by_cases ha : st.mem (a.loc f) = some p
    · exact ⟨0, by simp [ha]⟩
    · simp only [ha, if_false]
      have hr : it ∈ rest := by
        rcases List.mem_cons.mp h with rfl | hr
        · exact absurd hp ha
        · exact hr
      obtain ⟨j, hj⟩ := findField_of_mem st f p rest it hr hp
      exact ⟨j + 1, by simp [hj]⟩

/-- appending a key the set already contains (given by reference to the own element) changes nothing at all -/
theorem sPutOwn_noop {st : State} (h : SInv st) (v j : Nat) (hv : v ≤ 1) (ha : (st.nodes ⟨.S, v⟩).alive = true)
    (hj : j < (st.nodes ⟨.S, v⟩).items.length) :
    exec st (.put ⟨.S, v⟩ none (some (.item ⟨.S, v⟩ j 0)) none) = some st := by
  have hval : (Micro.put ⟨.S, v⟩ none (some (.item ⟨.S, v⟩ j 0)) none).valid = true := by simp [Micro.valid, Var.valid, hv]
  rw [exec_of_valid hval]
  have hit : (st.nodes ⟨.S, v⟩).items[j]? = some (st.nodes ⟨.S, v⟩).items[j] := List.getElem?_eq_getElem hj
  have hmem : (st.nodes ⟨.S, v⟩).items[j] ∈ (st.nodes ⟨.S, v⟩).items := List.getElem_mem hj
  have hlive := h.items_live ⟨.S, v⟩ _ 0 hmem (by simp [Kind.fields])
  cases hp : st.mem ((st.nodes ⟨.S, v⟩).items[j].loc 0) with
  | none => rw [hp] at hlive; cases hlive
  | some p =>
    obtain ⟨i, hi⟩ := findField_of_mem st 0 p _ _ hmem hp
    have hp' : st.mem (.heap (st.nodes ⟨.S, v⟩).items[j].b (st.nodes ⟨.S, v⟩).items[j].i 0) = some p := hp
    simp [exec', ha, resolveOpt, resolve, SrcRef.loc, SrcRef.payload, Kind.fields, hit, hp', fieldSrcs, putResolved,
      Kind.hasKey, hi]

theorem execAll_const (st : State) : ∀ (ms : List Micro), (∀ m, m ∈ ms → exec st m = some st) → execAll st ms = some st
  | [], _ => rfl
  | m :: rest, h => by
    simp only [execAll, h m (by simp)]
    exact execAll_const st rest (fun m' hm' => h m' (by simp [hm']))

/-- `s.append(s)`: the set is unchanged - same state, no event -/
theorem sAppendSelf_noop {st : State} (h : SInv st) (ha : AllAlive st) (v : Nat) : step st (.sAppendSet v v) = st := by
  unfold step stepRes
  by_cases hv : v ≤ 1
  · have hc : compile st (.sAppendSet v v) = some (copyItems ⟨.S, v⟩ ⟨.S, v⟩ (len st ⟨.S, v⟩)) := by
      simp [compile, guard', hv]
    rw [hc]
    have hal := ha.1 ⟨.S, v⟩ (by simp [Var.valid, hv])
    have : execAll st (copyItems ⟨.S, v⟩ ⟨.S, v⟩ (len st ⟨.S, v⟩)) = some st := by
      apply execAll_const
      intro m hm
      simp only [copyItems, List.mem_map, List.mem_range] at hm
      obtain ⟨j, hj, rfl⟩ := hm
      simpa [Kind.hasKey] using sPutOwn_noop h v j hv hal hj
    simp [this]
  · simp [compile, guard', hv]

/-- `s.remove(s)`: the set is empty afterwards -/
theorem sRemoveSelf_empty {st : State} (h : SInv st) (ha : AllAlive st) (v : Nat) (hv : v ≤ 1) :
    ∃ s, stepRes st (.sRemoveSet v v) = .ok s ∧ absNode s ⟨.S, v⟩ = [] := by
  have hval : (⟨.S, v⟩ : Var).valid = true := by simp [Var.valid, hv]
  have hc : compile st (.sRemoveSet v v) =
      some (List.replicate (len st ⟨.S, v⟩) (.removeKey ⟨.S, v⟩ (.item ⟨.S, v⟩ 0 0))) := by
    simp [compile, guard', hv]
  obtain ⟨s, hs, hI⟩ := loop_def (fun k s => SInv s ∧ (s.nodes ⟨.S, v⟩).items.length = len st ⟨.S, v⟩ - k)
    (List.replicate (len st ⟨.S, v⟩) (.removeKey ⟨.S, v⟩ (.item ⟨.S, v⟩ 0 0))) 0 st ⟨h, by simp [len]⟩
    (fun k m s hk hi => by
      have hkl : k < len st ⟨.S, v⟩ := by
        have := (List.getElem?_eq_some_iff.mp hk).1; simpa using this
      have hm : m = .removeKey ⟨.S, v⟩ (.item ⟨.S, v⟩ 0 0) := by
        have := (List.getElem?_eq_some_iff.mp hk).2; simpa using this.symm
      subst hm
      obtain ⟨s', he, hl⟩ := removeKey_head hi.1 ⟨.S, v⟩ hval (by simp [Kind.fields]) (by rw [hi.2]; omega)
      exact ⟨s', he, (exec_ok hi.1 _ he).1, by rw [hl, hi.2]; omega⟩)
  refine ⟨s, stepRes_ok hc hs, ?_⟩
  have hz : (s.nodes ⟨.S, v⟩).items.length = 0 := by
    have := hI.2; simp only [List.length_replicate, Nat.zero_add] at this; omega
  simp [absNode, List.length_eq_zero_iff.mp hz]

end Nstd.Life
