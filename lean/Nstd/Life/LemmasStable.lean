import Nstd.Life.LemmasPut
import Nstd.Life.LemmasNodeA
import Nstd.Life.LemmasNodeB
import Nstd.Life.LemmasArr
/-
  C05 (stability of the elements a step is not meant to remove), the frame theorems (a step does not
  touch the containers it does not name) and the in-place construction of the pool containers.

  Structure: exact logs of the primitives (D1), the relation `Eff` (log extension + where objects are
  constructed / destroyed + where memory changes), one summary `Sum` per micro step obtained by
  unfolding `exec'` once (`exec_sum`), and the four theorems derived from it with the separation
  facts of `SInv`.
-/
namespace Nstd.Life

def Ev.copiesElement : Ev → Prop
  | .ctor (.heap _ _ 1) (some _) => True   -- copy construction of a value object
  | .assign _ _ => True
  | _ => False

/-- the micro steps the PoolList / PoolMap operations compile to -/
def Micro.poolForm : Micro → Bool
  | .put c _ k v =>
    c.k.isPool && (match v with | some (.inplace _) => true | _ => false) &&
      (match k with | none => true | some (.ext _) => true | _ => false)
  | .remove c _ => c.k.isPool | .removeKey c (.ext _) => c.k.isPool | .clear c => c.k.isPool
  | .destroy c => c.k.isPool | .create c => c.k.isPool | .swap c _ => c.k.isPool
  | _ => false

/-- the node variables a step names -/
def Micro.nodeTargets : Micro → List Var
  | .put c _ _ _ => [c] | .assignVal c _ _ => [c] | .remove c _ => [c] | .removeKey c _ => [c]
  | .removeVal c _ => [c] | .clear c => [c] | .destroy c => [c] | .create c => [c]
  | .swap c d => [c, d]
  | _ => []

/-- the array variables a step names -/
def Micro.arrTargets : Micro → List Nat
  | .aReserve a _ => [a] | .aPush a _ => [a] | .aTruncate a _ => [a] | .aAssign a _ _ => [a]
  | .aRemove a _ => [a] | .aDestroy a => [a] | .aCreate a _ => [a] | .aSwap a b => [a, b]
  | _ => []

end Nstd.Life

namespace Nstd.Life.Stable
open Nstd.Life

-- D1: the logs of the primitives ------------------------------------------------------------------------

@[simp] theorem alloc_log (st : State) (n : Nat) : (st.alloc n).log = st.log ++ [.alloc st.next n] := rfl
@[simp] theorem freeBlk_log (st : State) (b : Nat) : (st.freeBlk b).log = st.log ++ [.free b] := rfl
@[simp] theorem ctor_log (st : State) (d s p) : (st.ctor d s p).log = st.log ++ [.ctor d s] := rfl
@[simp] theorem assign_log (st : State) (d s p) : (st.assign d s p).log = st.log ++ [.assign d s] := rfl
@[simp] theorem dtor_log (st : State) (d) : (st.dtor d).log = st.log ++ [.dtor d] := rfl

theorem dtorLocs_log (st : State) (ls : List Loc) : (st.dtorLocs ls).log = st.log ++ ls.map .dtor := by
  induction ls generalizing st with
  | nil => simp [State.dtorLocs]
  | cons a rest ih => simp [State.dtorLocs, ih]

theorem ctorList_log (st : State) (xs : List (Loc × Option Loc × Option Nat)) :
    (st.ctorList xs).log = st.log ++ xs.map (fun x => .ctor x.1 x.2.1) := by
  induction xs generalizing st with
  | nil => simp [State.ctorList]
  | cons a rest ih => obtain ⟨d, s, p⟩ := a; simp [State.ctorList, ih]

theorem freeBlocks_log (st : State) (bs : List Nat) : (st.freeBlocks bs).log = st.log ++ bs.map .free := by
  induction bs generalizing st with
  | nil => simp [State.freeBlocks]
  | cons a rest ih => simp [State.freeBlocks, ih]

theorem reserveCopy_log (st : State) (ob nb : Nat) (l : List Nat) :
    (reserveCopy st ob nb l).log =
      st.log ++ l.flatMap (fun i => [.ctor (.heap nb i 1) (some (.heap ob i 1)), .dtor (.heap ob i 1)]) := by
  induction l generalizing st with
  | nil => simp [reserveCopy]
  | cons a rest ih => simp [reserveCopy, ih]

theorem shiftDown_log (st : State) (s : Nat) (l : List Nat) :
    (shiftDown st s l).log = st.log ++ l.map (fun i => .assign (.heap s i 1) (.heap s (i + 1) 1)) := by
  induction l generalizing st with
  | nil => simp [shiftDown]
  | cons a rest ih => simp [shiftDown, ih]

theorem reserveCopy_mem_other (st : State) (ob nb : Nat) (l : List Nat) (x : Loc)
    (hx : ∀ i, i ∈ l → x ≠ .heap nb i 1 ∧ x ≠ .heap ob i 1) : (reserveCopy st ob nb l).mem x = st.mem x := by
  induction l generalizing st with
  | nil => rfl
  | cons a rest ih =>
    simp only [reserveCopy]
    rw [ih _ (fun i hi => hx i (by simp [hi]))]
    obtain ⟨h1, h2⟩ := hx a (by simp)
    simp only [dtor_mem, ctor_mem, upd_other _ _ _ _ h2, upd_other _ _ _ _ h1]

theorem shiftDown_mem_other (st : State) (s : Nat) (l : List Nat) (x : Loc)
    (hx : ∀ i, i ∈ l → x ≠ .heap s i 1) : (shiftDown st s l).mem x = st.mem x := by
  induction l generalizing st with
  | nil => rfl
  | cons a rest ih =>
    simp only [shiftDown]
    rw [ih _ (fun i hi => hx i (by simp [hi]))]
    simp only [assign_mem, upd_other _ _ _ _ (hx a (by simp))]

@[simp] theorem reserveCopy_nodes (st : State) (ob nb : Nat) (l : List Nat) : (reserveCopy st ob nb l).nodes = st.nodes := by
  induction l generalizing st with
  | nil => rfl
  | cons a rest ih => simp [reserveCopy, ih]
@[simp] theorem reserveCopy_arrs (st : State) (ob nb : Nat) (l : List Nat) : (reserveCopy st ob nb l).arrs = st.arrs := by
  induction l generalizing st with
  | nil => rfl
  | cons a rest ih => simp [reserveCopy, ih]
@[simp] theorem shiftDown_nodes (st : State) (s : Nat) (l : List Nat) : (shiftDown st s l).nodes = st.nodes := by
  induction l generalizing st with
  | nil => rfl
  | cons a rest ih => simp [shiftDown, ih]
@[simp] theorem shiftDown_arrs (st : State) (s : Nat) (l : List Nat) : (shiftDown st s l).arrs = st.arrs := by
  induction l generalizing st with
  | nil => rfl
  | cons a rest ih => simp [shiftDown, ih]

-- the effect of a sequence of primitives -------------------------------------------------------------------

/-- the event constructs or destroys the object at l -/
def cdAt : Ev → Loc → Prop
  | .ctor d _, l => l = d
  | .dtor d, l => l = d
  | _, _ => False

theorem cdAt_of_recycles {e : Ev} {it : Item} (h : e.recycles it) : ∃ f, cdAt e (it.loc f) := by
  cases e with
  | alloc b n => cases h
  | free b => cases h
  | assign d s => cases h
  | ctor d s =>
    cases d with
    | heap b i f => obtain ⟨rfl, rfl⟩ := h; exact ⟨f, rfl⟩
    | sent c f => cases h
    | ext => cases h
  | dtor d =>
    cases d with
    | heap b i f => obtain ⟨rfl, rfl⟩ := h; exact ⟨f, rfl⟩
    | sent c f => cases h
    | ext => cases h

/-- st' extends the log of st by evs, objects are constructed / destroyed only inside CD, memory changes only
    inside CD ∪ AS -/
def Eff (st st' : State) (evs : List Ev) (CD AS : Loc → Prop) : Prop :=
  st'.log = st.log ++ evs ∧ (∀ e, e ∈ evs → ∀ l, cdAt e l → CD l) ∧ (∀ l, ¬ CD l → ¬ AS l → st'.mem l = st.mem l)

section eff
variable {CD AS : Loc → Prop}

theorem Eff.same {st st' : State} (hl : st'.log = st.log) (hm : st'.mem = st.mem) : Eff st st' [] CD AS := by
  refine ⟨by simp [hl], ?_, fun _ _ _ => by rw [hm]⟩
  intro e he; cases he

theorem Eff.trans {a b c : State} {e1 e2 : List Ev} (h1 : Eff a b e1 CD AS) (h2 : Eff b c e2 CD AS) :
    Eff a c (e1 ++ e2) CD AS := by
  obtain ⟨l1, c1, m1⟩ := h1
  obtain ⟨l2, c2, m2⟩ := h2
  refine ⟨by rw [l2, l1, List.append_assoc], ?_, fun l h3 h4 => by rw [m2 l h3 h4, m1 l h3 h4]⟩
  intro e he
  rcases List.mem_append.mp he with he | he
  · exact c1 e he
  · exact c2 e he

theorem Eff.setNode {st st' : State} {evs : List Ev} (h : Eff st st' evs CD AS) (c : Var) (n : Node) :
    Eff st (st'.setNode c n) evs CD AS := h

theorem Eff.setArr {st st' : State} {evs : List Ev} (h : Eff st st' evs CD AS) (a : Nat) (x : Arr) :
    Eff st (st'.setArr a x) evs CD AS := h

theorem eff_alloc (st : State) (n : Nat) : Eff st (st.alloc n) [.alloc st.next n] CD AS := by
  refine ⟨rfl, ?_, fun _ _ _ => rfl⟩
  intro e he l hc
  simp only [List.mem_singleton] at he; subst he; cases hc

theorem eff_freeBlk (st : State) (b : Nat) : Eff st (st.freeBlk b) [.free b] CD AS := by
  refine ⟨rfl, ?_, fun _ _ _ => rfl⟩
  intro e he l hc
  simp only [List.mem_singleton] at he; subst he; cases hc

theorem eff_freeBlocks (st : State) (bs : List Nat) : Eff st (st.freeBlocks bs) (bs.map .free) CD AS := by
  refine ⟨freeBlocks_log st bs, ?_, fun _ _ _ => by rw [freeBlocks_mem]⟩
  intro e he l hc
  obtain ⟨b, _, rfl⟩ := List.mem_map.mp he
  cases hc

theorem eff_ctor (st : State) (d : Loc) (s : Option Loc) (p : Option Nat) (hd : CD d) :
    Eff st (st.ctor d s p) [.ctor d s] CD AS := by
  refine ⟨rfl, ?_, ?_⟩
  · intro e he l hc
    simp only [List.mem_singleton] at he; subst he
    have hc : l = d := hc
    rw [hc]; exact hd
  · intro l h1 _
    have : l ≠ d := fun e => h1 (e ▸ hd)
    rw [ctor_mem, upd_other _ _ _ _ this]

theorem eff_dtor (st : State) (d : Loc) (hd : CD d) : Eff st (st.dtor d) [.dtor d] CD AS := by
  refine ⟨rfl, ?_, ?_⟩
  · intro e he l hc
    simp only [List.mem_singleton] at he; subst he
    have hc : l = d := hc
    rw [hc]; exact hd
  · intro l h1 _
    have : l ≠ d := fun e => h1 (e ▸ hd)
    rw [dtor_mem, upd_other _ _ _ _ this]

theorem eff_assign (st : State) (d s : Loc) (p : Option Nat) (hd : CD d ∨ AS d) :
    Eff st (st.assign d s p) [.assign d s] CD AS := by
  refine ⟨rfl, ?_, ?_⟩
  · intro e he l hc
    simp only [List.mem_singleton] at he; subst he
    cases hc
  · intro l h1 h2
    have : l ≠ d := by
      intro e; subst e
      rcases hd with hd | hd
      · exact h1 hd
      · exact h2 hd
    rw [assign_mem, upd_other _ _ _ _ this]

theorem eff_dtorLocs (st : State) (ls : List Loc) (h : ∀ l, l ∈ ls → CD l) :
    Eff st (st.dtorLocs ls) (ls.map .dtor) CD AS := by
  refine ⟨dtorLocs_log st ls, ?_, ?_⟩
  · intro e he l hc
    obtain ⟨d, hd, rfl⟩ := List.mem_map.mp he
    have hc : l = d := hc
    rw [hc]; exact h d hd
  · intro l h1 _
    rw [dtorLocs_mem]
    have : l ∉ ls := fun hl => h1 (h l hl)
    simp only [this, if_false]

theorem eff_ctorList (st : State) (xs : List (Loc × Option Loc × Option Nat)) (h : ∀ x, x ∈ xs → CD x.1) :
    Eff st (st.ctorList xs) (xs.map (fun x => .ctor x.1 x.2.1)) CD AS := by
  refine ⟨ctorList_log st xs, ?_, ?_⟩
  · intro e he l hc
    obtain ⟨x, hx, rfl⟩ := List.mem_map.mp he
    have hc : l = x.1 := hc
    rw [hc]; exact h x hx
  · intro l h1 _
    apply ctorList_mem_other
    intro hl
    obtain ⟨x, hx, rfl⟩ := List.mem_map.mp hl
    exact h1 (h x hx)

theorem eff_reserveCopy (st : State) (ob nb : Nat) (l : List Nat)
    (h : ∀ i, i ∈ l → CD (.heap nb i 1) ∧ CD (.heap ob i 1)) :
    Eff st (reserveCopy st ob nb l)
      (l.flatMap (fun i => [.ctor (.heap nb i 1) (some (.heap ob i 1)), .dtor (.heap ob i 1)])) CD AS := by
  refine ⟨reserveCopy_log st ob nb l, ?_, ?_⟩
  · intro e he x hc
    obtain ⟨i, hi, he⟩ := List.mem_flatMap.mp he
    simp only [List.mem_cons, List.not_mem_nil, or_false] at he
    rcases he with rfl | rfl
    · have hc : x = _ := hc
      rw [hc]; exact (h i hi).1
    · have hc : x = _ := hc
      rw [hc]; exact (h i hi).2
  · intro x h1 _
    apply reserveCopy_mem_other
    intro i hi
    exact ⟨fun e => h1 (e ▸ (h i hi).1), fun e => h1 (e ▸ (h i hi).2)⟩

theorem eff_shiftDown (st : State) (s : Nat) (l : List Nat) (h : ∀ i, i ∈ l → CD (.heap s i 1)) :
    Eff st (shiftDown st s l) (l.map (fun i => .assign (.heap s i 1) (.heap s (i + 1) 1))) CD AS := by
  refine ⟨shiftDown_log st s l, ?_, ?_⟩
  · intro e he x hc
    obtain ⟨i, _, rfl⟩ := List.mem_map.mp he
    cases hc
  · intro x h1 _
    apply shiftDown_mem_other
    intro i hi e
    exact h1 (e ▸ h i hi)

end eff

-- where a step constructs / destroys objects and where it changes memory -----------------------------------

/-- a slot of the free list of c or of a block allocated from now on -/
def FreeOrFresh (st : State) (c : Var) (l : Loc) : Prop :=
  (∃ it f, it ∈ (st.nodes c).free ∧ l = it.loc f) ∨ (∃ b i f, st.next ≤ b ∧ l = .heap b i f)

/-- the value object of an item of c -/
def ValOf (st : State) (c : Var) (l : Loc) : Prop := ∃ it, it ∈ (st.nodes c).items ∧ l = it.loc 1

/-- a member object of an item the step is meant to remove -/
def Removed (st : State) (m : Micro) (c : Var) (l : Loc) : Prop :=
  ∃ it f, it ∈ (st.nodes c).items ∧ m.removes st c it ∧ l = it.loc f

def SentOf (c : Var) (l : Loc) : Prop := ∃ f, l = .sent c f

/-- a slot of the storage block of array a or of a block allocated from now on -/
def ArrSet (st : State) (a : Nat) (l : Loc) : Prop :=
  (∃ s i f, (st.arrs a).store = some s ∧ l = .heap s i f) ∨ (∃ b i f, st.next ≤ b ∧ l = .heap b i f)

/-- where the step may construct / destroy objects -/
def cdSet (st : State) (m : Micro) (l : Loc) : Prop :=
  match m with
  | .put c _ _ _ => FreeOrFresh st c l
  | .assignVal _ _ _ => False
  | .remove c j => Removed st (.remove c j) c l
  | .removeKey c k => Removed st (.removeKey c k) c l
  | .removeVal c v => Removed st (.removeVal c v) c l
  | .clear c => Removed st (.clear c) c l
  | .destroy c => Removed st (.destroy c) c l ∨ SentOf c l
  | .create c => SentOf c l
  | .swap _ _ => False
  | .aReserve a _ => ArrSet st a l
  | .aPush a _ => ArrSet st a l
  | .aTruncate a _ => ArrSet st a l
  | .aAssign a _ _ => ArrSet st a l
  | .aRemove a _ => ArrSet st a l
  | .aDestroy a => ArrSet st a l
  | .aCreate _ _ => False
  | .aSwap _ _ => False

/-- where the step may assign (besides the places of `cdSet`) -/
def asSet (st : State) (m : Micro) (l : Loc) : Prop :=
  match m with
  | .put c _ _ _ => ValOf st c l
  | .assignVal c _ _ => ValOf st c l
  | _ => False

/-- summary of one executed micro step -/
structure Sum (st st' : State) (m : Micro) (evs : List Ev) : Prop where
  eff : Eff st st' evs (cdSet st m) (asSet st m)
  items : SInv st → ∀ c it, it ∈ (st.nodes c).items → ¬ m.removes st c it →
    it ∈ (st'.nodes (m.moves c)).items ∧ (m.moves c).k = c.k
  destroyed : ∀ c it, it ∈ (st.nodes c).items → m.removes st c it → Destroyed evs it c
  fnode : ∀ c, c ∉ m.nodeTargets → st'.nodes c = st.nodes c
  farr : ∀ a, a ∉ m.arrTargets → st'.arrs a = st.arrs a
  nocopy : m.poolForm = true → ∀ e, e ∈ evs → ¬ e.copiesElement

/-- a step on the node container c0 -/
theorem Sum.ofNode {st st' : State} {m : Micro} {evs : List Ev} (c0 : Var)
    (hremc : ∀ c it, m.removes st c it → c = c0) (hmv : ∀ c, m.moves c = c)
    (hnt : ∀ c, c ∉ m.nodeTargets → c ≠ c0)
    (heff : Eff st st' evs (cdSet st m) (asSet st m))
    (hO : ∀ c, c ≠ c0 → st'.nodes c = st.nodes c)
    (hI : SInv st → ∀ it, it ∈ (st.nodes c0).items → ¬ m.removes st c0 it → it ∈ (st'.nodes c0).items)
    (hD : ∀ it, it ∈ (st.nodes c0).items → m.removes st c0 it → Destroyed evs it c0)
    (hA : st'.arrs = st.arrs)
    (hnc : m.poolForm = true → ∀ e, e ∈ evs → ¬ e.copiesElement) : Sum st st' m evs := by
  refine ⟨heff, ?_, ?_, fun c hc => hO c (hnt c hc), fun a _ => by rw [hA], hnc⟩
  · intro h c it hi hr
    rw [hmv]
    refine ⟨?_, rfl⟩
    by_cases hc : c = c0
    · subst hc; exact hI h it hi hr
    · rw [hO c hc]; exact hi
  · intro c it hi hr
    obtain rfl := hremc c it hr
    exact hD it hi hr

/-- a step on an array -/
theorem Sum.ofArr {st st' : State} {m : Micro} {evs : List Ev}
    (hrem : ∀ c it, ¬ m.removes st c it) (hmv : ∀ c, m.moves c = c) (hpf : m.poolForm = false)
    (heff : Eff st st' evs (cdSet st m) (asSet st m))
    (hN : st'.nodes = st.nodes) (hfarr : ∀ a, a ∉ m.arrTargets → st'.arrs a = st.arrs a) : Sum st st' m evs := by
  refine ⟨heff, ?_, fun c it _ hr => absurd hr (hrem c it), fun c _ => by rw [hN], hfarr, ?_⟩
  · intro _ c it hi _
    rw [hmv, hN]; exact ⟨hi, rfl⟩
  · intro hp; rw [hpf] at hp; cases hp

theorem not_copies_dtor (l : Loc) : ¬ (Ev.dtor l).copiesElement := by simp [Ev.copiesElement]
theorem not_copies_free (b : Nat) : ¬ (Ev.free b).copiesElement := by simp [Ev.copiesElement]
theorem not_copies_alloc (b n : Nat) : ¬ (Ev.alloc b n).copiesElement := by simp [Ev.copiesElement]
theorem not_copies_sent (c : Var) (f : Nat) (s : Option Loc) : ¬ (Ev.ctor (.sent c f) s).copiesElement := by
  simp [Ev.copiesElement]
theorem not_copies_ctor (b i f : Nat) (s : Option Loc) (h : f = 0 ∨ s = none) :
    ¬ (Ev.ctor (.heap b i f) s).copiesElement := by
  rcases h with rfl | rfl
  · unfold Ev.copiesElement; split <;> simp_all
  · unfold Ev.copiesElement; split <;> simp_all

-- put ------------------------------------------------------------------------------------------------------

theorem insertNew_eff {AS : Loc → Prop} (st : State) (c : Var) (pos : Nat)
    (srcs : List (Nat × Option Loc × Option Nat)) :
    ∃ evs, Eff st (insertNew st c pos srcs) evs (FreeOrFresh st c) AS ∧
      (∀ c', c' ≠ c → (insertNew st c pos srcs).nodes c' = st.nodes c') ∧
      (∀ it, it ∈ (st.nodes c).items → it ∈ ((insertNew st c pos srcs).nodes c).items) ∧
      (insertNew st c pos srcs).arrs = st.arrs ∧
      (∀ e, e ∈ evs → (∃ b n, e = .alloc b n) ∨ (∃ (it : Item) (x : Nat × Option Loc × Option Nat), x ∈ srcs ∧ e = .ctor (it.loc x.1) x.2.1)) := by
  -- step 1: the hash table
  obtain ⟨st1, hst1, e1, f1, n1, fr1, it1, o1, a1, s1⟩ : ∃ st1,
      st1 = (if c.k.isHash && (st.nodes c).data.isNone then allocData st c else st) ∧
      ∃ e1, Eff st st1 e1 (FreeOrFresh st c) AS ∧ st.next ≤ st1.next ∧
        (st1.nodes c).free = (st.nodes c).free ∧ (st1.nodes c).items = (st.nodes c).items ∧
        (∀ c', c' ≠ c → st1.nodes c' = st.nodes c') ∧ st1.arrs = st.arrs ∧
        (∀ e, e ∈ e1 → ∃ b n, e = .alloc b n) := by
    refine ⟨_, rfl, ?_⟩
    by_cases hc : (c.k.isHash && (st.nodes c).data.isNone) = true
    · rw [if_pos hc]
      refine ⟨[.alloc st.next 0], (eff_alloc st 0).setNode c _, Nat.le_succ _, ?_, ?_, ?_, rfl, ?_⟩
      · simp only [allocData, setNode_get]
      · simp only [allocData, setNode_get]
      · intro c' hc'; simp only [allocData, setNode_nodes, upd_other _ _ _ _ hc', alloc_nodes]
      · intro e he; simp only [List.mem_singleton] at he; exact ⟨_, _, he⟩
    · rw [if_neg hc]
      exact ⟨[], Eff.same rfl rfl, Nat.le_refl _, rfl, rfl, fun _ _ => rfl, rfl, fun e he => by cases he⟩
  -- step 2: the item block
  obtain ⟨st2, hst2, e2, f2, fr2, it2, o2, a2, s2⟩ : ∃ st2,
      st2 = (if (st1.nodes c).free.isEmpty then allocBlock st1 c else st1) ∧
      ∃ e2, Eff st1 st2 e2 (FreeOrFresh st c) AS ∧
        ((st2.nodes c).free = (st1.nodes c).free ∨ ∀ it, it ∈ (st2.nodes c).free → it.b = st1.next) ∧
        (st2.nodes c).items = (st1.nodes c).items ∧
        (∀ c', c' ≠ c → st2.nodes c' = st1.nodes c') ∧ st2.arrs = st1.arrs ∧
        (∀ e, e ∈ e2 → ∃ b n, e = .alloc b n) := by
    refine ⟨_, rfl, ?_⟩
    by_cases hc : (st1.nodes c).free.isEmpty = true
    · rw [if_pos hc]
      refine ⟨[.alloc st1.next (st1.per.f c.k)], (eff_alloc st1 (st1.per.f c.k)).setNode c _, Or.inr ?_, ?_, ?_, rfl, ?_⟩
      · intro it hit
        simp only [allocBlock, setNode_get] at hit
        exact ((newSlots_mem _ c.k st1.next it (st1.per.pos c.k)).mp hit).1
      · simp only [allocBlock, setNode_get]
      · intro c' hc'; simp only [allocBlock, setNode_nodes, upd_other _ _ _ _ hc', alloc_nodes]
      · intro e he; simp only [List.mem_singleton] at he; exact ⟨_, _, he⟩
    · rw [if_neg hc]
      exact ⟨[], Eff.same rfl rfl, Or.inl rfl, rfl, fun _ _ => rfl, rfl, fun e he => by cases he⟩
  have heq : insertNew st c pos srcs =
      (match (st2.nodes c).free with | it :: rest => useSlot st2 c pos it rest srcs | [] => st2) := by
    subst hst2 hst1; rfl
  rw [heq]
  cases hfr : (st2.nodes c).free with
  | nil =>
    simp only
    refine ⟨e1 ++ e2, f1.trans f2, ?_, ?_, ?_, ?_⟩
    · intro c' hc'; rw [o2 c' hc', o1 c' hc']
    · intro it hit; rw [it2, it1]; exact hit
    · rw [a2, a1]
    · intro e he
      rcases List.mem_append.mp he with he | he
      · exact Or.inl (s1 e he)
      · exact Or.inl (s2 e he)
  | cons it rest =>
    simp only
    have hslot : ∀ f, FreeOrFresh st c (it.loc f) := by
      intro f
      have hmem : it ∈ (st2.nodes c).free := by rw [hfr]; simp
      rcases fr2 with h | h
      · left; exact ⟨it, f, by rw [← fr1, ← h]; exact hmem, rfl⟩
      · right; exact ⟨it.b, it.i, f, by rw [h it hmem]; exact n1, rfl⟩
    have f3 : Eff st2 (useSlot st2 c pos it rest srcs)
        ((srcs.map fun (x : Nat × Option Loc × Option Nat) => (it.loc x.1, x.2.1, x.2.2)).map
          (fun x => Ev.ctor x.1 x.2.1)) (FreeOrFresh st c) AS := by
      refine (eff_ctorList st2 _ ?_).setNode c _
      intro x hx
      obtain ⟨y, _, rfl⟩ := List.mem_map.mp hx
      exact hslot y.1
    refine ⟨_, (f1.trans f2).trans f3, ?_, ?_, ?_, ?_⟩
    · intro c' hc'
      simp only [useSlot, setNode_nodes, upd_other _ _ _ _ hc', ctorList_nodes]
      rw [o2 c' hc', o1 c' hc']
    · intro it' hit'
      simp only [useSlot, setNode_get]
      rw [mem_insertAt, it2, it1]; exact Or.inr hit'
    · simp only [useSlot, setNode_arrs, ctorList_arrs]; rw [a2, a1]
    · intro e he
      rcases List.mem_append.mp he with he | he
      · rcases List.mem_append.mp he with he | he
        · exact Or.inl (s1 e he)
        · exact Or.inl (s2 e he)
      · right
        simp only [List.map_map, List.mem_map, Function.comp] at he
        obtain ⟨x, hx, rfl⟩ := he
        exact ⟨it, x, hx, rfl⟩

theorem putResolved_cases {st st' : State} (c : Var) (p : Nat) (kr vr : Option (Option Loc × Option Nat))
    (srcs : List (Nat × Option Loc × Option Nat)) (he : putResolved st c p kr vr srcs = some st') :
    (∃ q, st' = insertNew st c q srcs) ∨
    (∃ it vl vp, it ∈ (st.nodes c).items ∧ (c.k = .M ∨ c.k = .H) ∧ st' = st.assign (it.loc 1) vl vp) ∨
    st' = st := by
  unfold putResolved at he
  by_cases hk : c.k.hasKey = true
  · simp only [hk, if_true] at he
    cases kr with
    | none => simp at he
    | some kk =>
      obtain ⟨kl, kp⟩ := kk
      cases kp with
      | none => simp at he
      | some kp =>
        simp only at he
        by_cases hU : c.k = .U
        · simp only [hU, if_true, Option.some.injEq] at he
          exact Or.inl ⟨_, he.symm⟩
        · simp only [hU, if_false] at he
          cases hfind : findField st 0 kp (st.nodes c).items with
          | none =>
            simp only [hfind, Option.some.injEq] at he
            exact Or.inl ⟨_, he.symm⟩
          | some j =>
            simp only [hfind] at he
            by_cases hMH : c.k = .M ∨ c.k = .H
            · simp only [hMH, if_true] at he
              cases hj : (st.nodes c).items[j]? with
              | none => simp [hj] at he
              | some it =>
                simp only [hj] at he
                cases vr with
                | none => simp [putAssign] at he
                | some vv =>
                  obtain ⟨vl, vp⟩ := vv
                  cases vl with
                  | none => simp [putAssign] at he
                  | some vl =>
                    simp only [putAssign, Option.some.injEq] at he
                    exact Or.inr (Or.inl ⟨it, vl, vp, List.mem_of_getElem? hj, hMH, he.symm⟩)
            · simp only [hMH, if_false, Option.some.injEq] at he
              exact Or.inr (Or.inr he.symm)
  · simp only [hk, Bool.false_eq_true, if_false, Option.some.injEq] at he
    exact Or.inl ⟨_, he.symm⟩

theorem fieldSrcs_shape (k v : Option (Option Loc × Option Nat)) (fs : List Nat)
    (srcs : List (Nat × Option Loc × Option Nat))
    (h : fs.mapM (fun f => match (if f = 0 then k else v) with
      | some (l, p) => some (f, l, p)
      | none => none) = some srcs) :
    ∀ x, x ∈ srcs → (x.1 = 0 ∧ k = some (x.2.1, x.2.2)) ∨ (x.1 ≠ 0 ∧ v = some (x.2.1, x.2.2)) := by
  induction fs generalizing srcs with
  | nil =>
    simp only [List.mapM_nil, Option.pure_def, Option.some.injEq] at h
    subst h; intro x hx; cases hx
  | cons f rest ih =>
    simp only [List.mapM_cons, Option.pure_def, Option.bind_eq_bind, Option.bind_eq_some_iff, Option.some.injEq] at h
    obtain ⟨y, hy, ys, hys, rfl⟩ := h
    intro x hx
    simp only [List.mem_cons] at hx
    rcases hx with rfl | hx
    · by_cases hf0 : f = 0
      · simp only [hf0, if_true] at hy
        cases hkk : k with
        | none => rw [hkk] at hy; cases hy
        | some lp =>
          obtain ⟨l, p⟩ := lp
          rw [hkk] at hy
          simp only [Option.some.injEq] at hy
          subst hy
          exact Or.inl ⟨rfl, rfl⟩
      · simp only [hf0, if_false] at hy
        cases hvv : v with
        | none => rw [hvv] at hy; cases hy
        | some lp =>
          obtain ⟨l, p⟩ := lp
          rw [hvv] at hy
          simp only [Option.some.injEq] at hy
          subst hy
          exact Or.inr ⟨hf0, rfl⟩
    · exact ih ys hys x hx

theorem sum_put {st st' : State} (c : Var) (pos : Option Nat) (k v : Option SrcRef)
    (he : exec' st (.put c pos k v) = some st') : ∃ evs, Sum st st' (.put c pos k v) evs := by
  simp only [exec'] at he
  by_cases ha : (st.nodes c).alive = true
  · simp only [ha, Bool.not_true, Bool.false_eq_true, if_false] at he
    cases hkr : resolveOpt st k with
    | none => simp [hkr] at he
    | some kr =>
      simp only [hkr] at he
      cases hvr : resolveOpt st v with
      | none => simp [hvr] at he
      | some vr =>
        simp only [hvr] at he
        cases hsr : fieldSrcs c.k kr vr with
        | none => simp [hsr] at he
        | some srcs =>
          simp only [hsr] at he
          by_cases hpos : pos.getD (st.nodes c).items.length > (st.nodes c).items.length
          · simp [hpos] at he
          · simp only [hpos, if_false] at he
            have hnt : ∀ c', c' ∉ (Micro.put c pos k v).nodeTargets → c' ≠ c := by
              intro c' h1 h2; exact h1 (by simp [Micro.nodeTargets, h2])
            rcases putResolved_cases c _ kr vr srcs he with ⟨q, rfl⟩ | ⟨it, vl, vp, hit, hMH, rfl⟩ | rfl
            · obtain ⟨evs, f, o, i, a, sh⟩ := insertNew_eff (AS := asSet st (.put c pos k v)) st c q srcs
              refine ⟨evs, Sum.ofNode c (fun _ _ h => False.elim h) (fun _ => rfl) hnt f o
                (fun _ it hi _ => i it hi) (fun _ _ h => False.elim h) a ?_⟩
              intro hp e he'
              simp only [Micro.poolForm, Bool.and_eq_true] at hp
              obtain ⟨⟨_, hpv⟩, _⟩ := hp
              rcases sh e he' with ⟨b, n, rfl⟩ | ⟨it, x, hx, rfl⟩
              · exact not_copies_alloc b n
              · apply not_copies_ctor
                rcases fieldSrcs_shape kr vr c.k.fields srcs hsr x hx with ⟨h0, _⟩ | ⟨_, h1⟩
                · exact Or.inl h0
                · right
                  cases v with
                  | none => simp at hpv
                  | some r =>
                    cases r with
                    | inplace q' =>
                      simp only [resolveOpt, resolve, SrcRef.loc, SrcRef.payload, Option.map_some,
                        Option.some.injEq] at hvr
                      rw [← hvr] at h1
                      simp only [Option.some.injEq, Prod.mk.injEq] at h1
                      exact h1.1.symm
                    | ext q' => simp at hpv
                    | item c' j f => simp at hpv
                    | elem a' j => simp at hpv
            · refine ⟨[.assign (it.loc 1) vl], Sum.ofNode c (fun _ _ h => False.elim h) (fun _ => rfl) hnt
                (eff_assign st _ vl vp (Or.inr ⟨it, hit, rfl⟩)) (fun _ _ => rfl)
                (fun _ it hi _ => hi) (fun _ _ h => False.elim h) rfl ?_⟩
              intro hp
              simp only [Micro.poolForm, Bool.and_eq_true] at hp
              obtain ⟨⟨hpk, _⟩, _⟩ := hp
              rcases hMH with h | h <;> rw [h] at hpk <;> simp [Kind.isPool] at hpk
            · exact ⟨[], Sum.ofNode c (fun _ _ h => False.elim h) (fun _ => rfl) hnt
                (Eff.same rfl rfl) (fun _ _ => rfl) (fun _ it hi _ => hi) (fun _ _ h => False.elim h) rfl
                (fun _ e he' => by cases he')⟩
  · simp [ha] at he

-- the other node steps -------------------------------------------------------------------------------------

theorem nt_single {m : Micro} {c0 : Var} (h : m.nodeTargets = [c0]) : ∀ c, c ∉ m.nodeTargets → c ≠ c0 := by
  intro c h1 h2; exact h1 (by rw [h, h2]; simp)

theorem sum_assignVal {st st' : State} (c : Var) (j : Nat) (src : SrcRef)
    (he : exec' st (.assignVal c j src) = some st') : ∃ evs, Sum st st' (.assignVal c j src) evs := by
  simp only [exec'] at he
  by_cases hf : 1 ∈ c.k.fields
  · cases hj : (st.nodes c).items[j]? with
    | none => simp [hf, hj] at he
    | some it =>
      cases hr : resolve st src with
      | none => simp [hf, hj, hr] at he
      | some lp =>
        obtain ⟨l, p⟩ := lp
        cases l with
        | none => simp [hf, hj, hr] at he
        | some l =>
          simp [hf, hj, hr] at he
          subst he
          exact ⟨[.assign (it.loc 1) l], Sum.ofNode c (fun _ _ h => False.elim h) (fun _ => rfl) (nt_single rfl)
            (eff_assign st _ l p (Or.inr ⟨it, List.mem_of_getElem? hj, rfl⟩)) (fun _ _ => rfl)
            (fun _ it hi _ => hi) (fun _ _ h => False.elim h) rfl
            (fun hp => by simp [Micro.poolForm] at hp)⟩
  · simp [hf] at he

theorem removeAt_sum {st : State} (m : Micro) (c0 : Var) (j : Nat) (it0 : Item)
    (hj : (st.nodes c0).items[j]? = some it0)
    (hrem : ∀ c it, m.removes st c it ↔ (c = c0 ∧ (st.nodes c0).items[j]? = some it))
    (hcd : ∀ l, Removed st m c0 l → cdSet st m l) (hmv : ∀ c, m.moves c = c)
    (hnt : ∀ c, c ∉ m.nodeTargets → c ≠ c0) :
    Sum st (removeAt st c0 j it0) m ((it0.dtorOrder c0.k).map .dtor) := by
  have hmem : it0 ∈ (st.nodes c0).items := List.mem_of_getElem? hj
  refine Sum.ofNode c0 (fun c it h => ((hrem c it).mp h).1) hmv hnt ?_ ?_ ?_ ?_ ?_ ?_
  · refine (eff_dtorLocs st (it0.dtorOrder c0.k) ?_).setNode c0 _
    intro l hl
    obtain ⟨f, _, rfl⟩ := (NodeA.mem_dtorOrder _ _ _).mp hl
    exact hcd _ ⟨it0, f, hmem, (hrem _ _).mpr ⟨rfl, hj⟩, rfl⟩
  · intro c hc
    simp only [removeAt, State.dtorItem, setNode_nodes, upd_other _ _ _ _ hc, dtorLocs_nodes]
  · intro _ it hit hr
    simp only [removeAt, setNode_get]
    rw [List.mem_eraseIdx_iff_getElem?]
    obtain ⟨i, hi⟩ := List.mem_iff_getElem?.mp hit
    refine ⟨i, ?_, hi⟩
    intro e; subst e
    exact hr ((hrem _ _).mpr ⟨rfl, hi⟩)
  · intro it _ hr f hf
    have h1 := ((hrem _ _).mp hr).2
    rw [hj] at h1; cases h1
    exact List.mem_map.mpr ⟨_, (NodeA.mem_dtorOrder _ _ _).mpr ⟨f, hf, rfl⟩, rfl⟩
  · simp only [removeAt, State.dtorItem, setNode_arrs, dtorLocs_arrs]
  · intro _ e he
    obtain ⟨l, _, rfl⟩ := List.mem_map.mp he
    exact not_copies_dtor l

/-- a step that removes nothing and does nothing -/
theorem Sum.noop {st : State} {m : Micro} (c0 : Var) (hrem : ∀ c it, ¬ m.removes st c it)
    (hmv : ∀ c, m.moves c = c) (hnt : ∀ c, c ∉ m.nodeTargets → c ≠ c0) : Sum st st m [] :=
  Sum.ofNode c0 (fun c it h => absurd h (hrem c it)) hmv hnt (Eff.same rfl rfl) (fun _ _ => rfl)
    (fun _ it hi _ => hi) (fun it _ h => absurd h (hrem c0 it)) rfl (fun _ e he => by cases he)

theorem sum_remove {st st' : State} (c : Var) (j : Nat)
    (he : exec' st (.remove c j) = some st') : ∃ evs, Sum st st' (.remove c j) evs := by
  simp only [exec'] at he
  cases hj : (st.nodes c).items[j]? with
  | none => simp [hj] at he
  | some it =>
    simp [hj] at he
    subst he
    exact ⟨_, removeAt_sum (.remove c j) c j it hj (fun _ _ => Iff.rfl) (fun _ h => h) (fun _ => rfl) (nt_single rfl)⟩

theorem sum_removeKey {st st' : State} (c : Var) (k : SrcRef)
    (he : exec' st (.removeKey c k) = some st') : ∃ evs, Sum st st' (.removeKey c k) evs := by
  simp only [exec'] at he
  cases hp : k.payload st with
  | none => simp [hp] at he
  | some kp =>
    cases hf : findField st 0 kp (st.nodes c).items with
    | none =>
      simp [hp, hf] at he
      subst he
      refine ⟨[], Sum.noop c ?_ (fun _ => rfl) (nt_single rfl)⟩
      rintro c' it ⟨_, kp', j', h1, h2, _⟩
      rw [hp] at h1; cases h1
      rw [hf] at h2; cases h2
    | some j =>
      cases hj : (st.nodes c).items[j]? with
      | none => simp [hp, hf, hj] at he
      | some it =>
        simp [hp, hf, hj] at he
        subst he
        refine ⟨_, removeAt_sum (.removeKey c k) c j it hj ?_ (fun _ h => h) (fun _ => rfl) (nt_single rfl)⟩
        intro c' it'
        constructor
        · rintro ⟨rfl, kp', j', h1, h2, h3⟩
          rw [hp] at h1; cases h1
          rw [hf] at h2; cases h2
          exact ⟨rfl, h3⟩
        · rintro ⟨rfl, h3⟩
          exact ⟨rfl, kp, j, hp, hf, h3⟩

theorem sum_removeVal {st st' : State} (c : Var) (v : SrcRef)
    (he : exec' st (.removeVal c v) = some st') : ∃ evs, Sum st st' (.removeVal c v) evs := by
  simp only [exec'] at he
  cases hp : v.payload st with
  | none => simp [hp] at he
  | some vp =>
    cases hf : findField st 1 vp (st.nodes c).items with
    | none =>
      simp [hp, hf] at he
      subst he
      refine ⟨[], Sum.noop c ?_ (fun _ => rfl) (nt_single rfl)⟩
      rintro c' it ⟨_, vp', j', h1, h2, _⟩
      rw [hp] at h1; cases h1
      rw [hf] at h2; cases h2
    | some j =>
      cases hj : (st.nodes c).items[j]? with
      | none => simp [hp, hf, hj] at he
      | some it =>
        simp [hp, hf, hj] at he
        subst he
        refine ⟨_, removeAt_sum (.removeVal c v) c j it hj ?_ (fun _ h => h) (fun _ => rfl) (nt_single rfl)⟩
        intro c' it'
        constructor
        · rintro ⟨rfl, vp', j', h1, h2, h3⟩
          rw [hp] at h1; cases h1
          rw [hf] at h2; cases h2
          exact ⟨rfl, h3⟩
        · rintro ⟨rfl, h3⟩
          exact ⟨rfl, vp, j, hp, hf, h3⟩

theorem sum_clear {st st' : State} (c : Var)
    (he : exec' st (.clear c) = some st') : ∃ evs, Sum st st' (.clear c) evs := by
  simp only [exec'] at he
  cases hA : (st.nodes c).alive with
  | false => simp [hA] at he
  | true =>
    have hg : ¬ ((!(st.nodes c).alive) = true) := by simp [hA]
    rw [if_neg hg] at he
    have he := Option.some.inj he
    subst he
    refine ⟨((st.nodes c).items.flatMap (Item.dtorOrder c.k)).map .dtor,
      Sum.ofNode c (fun _ _ h => h) (fun _ => rfl) (nt_single rfl) ?_ ?_ ?_ ?_ ?_ ?_⟩
    · refine (eff_dtorLocs st _ ?_).setNode c _
      intro l hl
      obtain ⟨it, f, hit, _, rfl⟩ := (NodeB.mem_allLocs _ _ _).mp hl
      exact ⟨it, f, hit, rfl, rfl⟩
    · intro c' hc
      simp only [State.dtorItems, setNode_nodes, upd_other _ _ _ _ hc, dtorLocs_nodes]
    · intro _ it _ hr; exact absurd rfl hr
    · intro it hit _ f hf
      exact List.mem_map.mpr ⟨_, (NodeB.mem_allLocs _ _ _).mpr ⟨it, f, hit, hf, rfl⟩, rfl⟩
    · simp only [State.dtorItems, setNode_arrs, dtorLocs_arrs]
    · intro _ e he
      obtain ⟨l, _, rfl⟩ := List.mem_map.mp he
      exact not_copies_dtor l

theorem destroy_sum {st s1 : State} {e0 : List Ev} (c : Var)
    (f0 : Eff st s1 e0 (cdSet st (.destroy c)) (asSet st (.destroy c)))
    (hn1 : s1.nodes = st.nodes) (ha1 : s1.arrs = st.arrs) (hs0 : ∀ e, e ∈ e0 → ¬ e.copiesElement) :
    ∃ evs, Sum st ((((s1.dtorItems c.k (st.nodes c).items).freeBlocks (st.nodes c).blocks).dtorLocs
        (c.k.sentFields.reverse.map fun f => Loc.sent c f)).setNode c {}) (.destroy c) evs := by
  refine ⟨((e0 ++ ((st.nodes c).items.flatMap (Item.dtorOrder c.k)).map .dtor) ++ (st.nodes c).blocks.map .free) ++
      (c.k.sentFields.reverse.map fun f => Loc.sent c f).map .dtor,
    Sum.ofNode c (fun _ _ h => h) (fun _ => rfl) (nt_single rfl) ?_ ?_ ?_ ?_ ?_ ?_⟩
  · refine Eff.setNode (((f0.trans (eff_dtorLocs s1 _ ?_)).trans (eff_freeBlocks _ _)).trans (eff_dtorLocs _ _ ?_)) c _
    · intro l hl
      obtain ⟨it, f, hit, _, rfl⟩ := (NodeB.mem_allLocs _ _ _).mp hl
      exact Or.inl ⟨it, f, hit, rfl, rfl⟩
    · intro l hl
      obtain ⟨f, _, rfl⟩ := (NodeB.mem_sentLocs c l).mp hl
      exact Or.inr ⟨f, rfl⟩
  · intro c' hc
    simp only [State.dtorItems, setNode_nodes, upd_other _ _ _ _ hc, dtorLocs_nodes, freeBlocks_nodes, hn1]
  · intro _ it _ hr; exact absurd rfl hr
  · intro it hit _ f hf
    simp only [List.mem_append]
    exact Or.inl (Or.inl (Or.inr
      (List.mem_map.mpr ⟨_, (NodeB.mem_allLocs _ _ _).mpr ⟨it, f, hit, hf, rfl⟩, rfl⟩)))
  · simp only [State.dtorItems, setNode_arrs, dtorLocs_arrs, freeBlocks_arrs, ha1]
  · intro _ e he
    simp only [List.mem_append] at he
    rcases he with ((he | he) | he) | he
    · exact hs0 e he
    · obtain ⟨l, _, rfl⟩ := List.mem_map.mp he; exact not_copies_dtor l
    · obtain ⟨b, _, rfl⟩ := List.mem_map.mp he; exact not_copies_free b
    · obtain ⟨l, _, rfl⟩ := List.mem_map.mp he; exact not_copies_dtor l

theorem sum_destroy {st st' : State} (c : Var)
    (he : exec' st (.destroy c) = some st') : ∃ evs, Sum st st' (.destroy c) evs := by
  simp only [exec'] at he
  cases hA : (st.nodes c).alive with
  | false => simp [hA] at he
  | true =>
    have hg : ¬ ((!(st.nodes c).alive) = true) := by simp [hA]
    rw [if_neg hg] at he
    have he := Option.some.inj he
    subst he
    cases hd : (st.nodes c).data with
    | none => exact destroy_sum (s1 := st) (e0 := []) c (Eff.same rfl rfl) rfl rfl (fun e he => by cases he)
    | some d =>
      refine destroy_sum (s1 := st.freeBlk d) (e0 := [.free d]) c (eff_freeBlk st d) rfl rfl ?_
      intro e he
      simp only [List.mem_singleton] at he; subst he
      exact not_copies_free d

theorem sum_create {st st' : State} (c : Var)
    (he : exec' st (.create c) = some st') : ∃ evs, Sum st st' (.create c) evs := by
  simp only [exec'] at he
  cases hA : (st.nodes c).alive with
  | true => simp [hA] at he
  | false =>
    have hg : ¬ ((st.nodes c).alive = true) := by simp [hA]
    rw [if_neg hg] at he
    have he := Option.some.inj he
    subst he
    refine ⟨_, Sum.ofNode c (fun _ _ h => False.elim h) (fun _ => rfl) (nt_single rfl)
      ((eff_ctorList st (c.k.sentFields.map fun f => (Loc.sent c f, none, some 0)) ?_).setNode c _) ?_ ?_
      (fun _ _ h => False.elim h) ?_ ?_⟩
    · intro x hx
      obtain ⟨f, _, rfl⟩ := List.mem_map.mp hx
      exact ⟨f, rfl⟩
    · intro c' hc
      simp only [setNode_nodes, upd_other _ _ _ _ hc, ctorList_nodes]
    · intro h it hit _
      rw [h.dead_node c hA] at hit; cases hit
    · simp only [setNode_arrs, ctorList_arrs]
    · intro _ e he
      simp only [List.map_map, List.mem_map, Function.comp] at he
      obtain ⟨f, _, rfl⟩ := he
      exact not_copies_sent c f none

theorem sum_swap {st st' : State} (c d : Var)
    (he : exec' st (.swap c d) = some st') : ∃ evs, Sum st st' (.swap c d) evs := by
  simp only [exec'] at he
  by_cases hg : (!(st.nodes c).alive || !(st.nodes d).alive || c.k != d.k) = true
  · simp [hg] at he
  · rw [if_neg hg] at he
    have he := Option.some.inj he
    subst he
    simp only [Bool.or_eq_true, Bool.not_eq_true', bne_iff_ne, ne_eq, not_or, Bool.not_eq_false,
      Decidable.not_not] at hg
    obtain ⟨_, hkk⟩ := hg
    refine ⟨[], Eff.same rfl rfl, ?_, fun _ _ _ h => False.elim h, ?_, fun _ _ => rfl, fun _ e he => by cases he⟩
    · intro _ x it hit _
      simp only [Micro.moves, setNode_nodes]
      by_cases h1 : x = c
      · subst h1
        simp only [if_true]
        rw [upd_same]; exact ⟨hit, hkk.symm⟩
      · simp only [h1, if_false]
        by_cases h2 : x = d
        · subst h2
          simp only [if_true]
          rw [upd_other _ _ _ _ (fun e => h1 e.symm), upd_same]; exact ⟨hit, hkk⟩
        · simp only [h2, if_false]
          rw [upd_other _ _ _ _ h2, upd_other _ _ _ _ h1]; exact ⟨hit, trivial⟩
    · intro x hx
      simp only [Micro.nodeTargets, List.mem_cons, List.not_mem_nil, or_false, not_or] at hx
      simp only [setNode_nodes]
      rw [upd_other _ _ _ _ hx.2, upd_other _ _ _ _ hx.1]

-- the array steps ------------------------------------------------------------------------------------------

theorem at_single {m : Micro} {a0 : Nat} (h : m.arrTargets = [a0]) : ∀ a, a ∉ m.arrTargets → a ≠ a0 := by
  intro a h1 h2; exact h1 (by rw [h, h2]; simp)

theorem arrSet_store {st : State} {a s : Nat} (hs : (st.arrs a).store = some s) (i f : Nat) :
    ArrSet st a (.heap s i f) := Or.inl ⟨s, i, f, hs, rfl⟩

theorem arrSet_fresh (st : State) (a i f : Nat) : ArrSet st a (.heap st.next i f) :=
  Or.inr ⟨st.next, i, f, Nat.le_refl _, rfl⟩

theorem sum_aReserve {st st' : State} (a n : Nat)
    (he : exec' st (.aReserve a n) = some st') : ∃ evs, Sum st st' (.aReserve a n) evs := by
  simp only [exec'] at he
  cases hA : (st.arrs a).alive with
  | false => simp [hA] at he
  | true =>
    have hg : ¬ ((!(st.arrs a).alive) = true) := by simp [hA]
    rw [if_neg hg] at he
    by_cases hc : (decide (n > (st.arrs a).cap) || (st.arrs a).store.isNone && decide (n > 0)) = true
    · rw [if_pos hc] at he
      have he := Option.some.inj he
      subst he
      cases hs : (st.arrs a).store with
      | none =>
        simp only []
        refine ⟨_, Sum.ofArr (fun _ _ h => h) (fun _ => rfl) rfl ((eff_alloc st _).setArr a _) rfl ?_⟩
        intro a' ha'
        simp only [setArr_arrs, upd_other _ _ _ _ (at_single rfl a' ha'), alloc_arrs]
      | some ob =>
        simp only []
        refine ⟨_, Sum.ofArr (fun _ _ h => h) (fun _ => rfl) rfl
          ((((eff_alloc st _).trans (eff_reserveCopy _ ob st.next (List.range (st.arrs a).size) ?_)).trans
            (eff_freeBlk _ ob)).setArr a _) ?_ ?_⟩
        · intro i _
          exact ⟨arrSet_fresh st a i 1, arrSet_store hs i 1⟩
        · simp only [setArr_nodes, freeBlk_nodes, reserveCopy_nodes, alloc_nodes]
        · intro a' ha'
          simp only [setArr_arrs, upd_other _ _ _ _ (at_single rfl a' ha'), freeBlk_arrs, reserveCopy_arrs,
            alloc_arrs]
    · rw [if_neg hc] at he
      have he := Option.some.inj he
      subst he
      exact ⟨[], Sum.ofArr (fun _ _ h => h) (fun _ => rfl) rfl (Eff.same rfl rfl) rfl (fun _ _ => rfl)⟩

theorem sum_aPush {st st' : State} (a : Nat) (src : SrcRef)
    (he : exec' st (.aPush a src) = some st') : ∃ evs, Sum st st' (.aPush a src) evs := by
  simp only [exec'] at he
  cases hs : (st.arrs a).store with
  | none => simp [hs] at he
  | some s =>
    by_cases hj : (st.arrs a).size ≥ (st.arrs a).cap
    · simp [hs, hj] at he
    · cases hr : resolve st src with
      | none => simp [hs, hj, hr] at he
      | some lp =>
        obtain ⟨l, p⟩ := lp
        simp [hs, hj, hr] at he
        subst he
        refine ⟨_, Sum.ofArr (fun _ _ h => h) (fun _ => rfl) rfl
          ((eff_ctor st _ l p (arrSet_store hs _ 1)).setArr a _) rfl ?_⟩
        intro a' ha'
        simp only [setArr_arrs, upd_other _ _ _ _ (at_single rfl a' ha'), ctor_arrs]

theorem sum_aTruncate {st st' : State} (a n : Nat)
    (he : exec' st (.aTruncate a n) = some st') : ∃ evs, Sum st st' (.aTruncate a n) evs := by
  simp only [exec'] at he
  cases hA : (st.arrs a).alive with
  | false => simp [hA] at he
  | true =>
    have hg : ¬ ((!(st.arrs a).alive) = true) := by simp [hA]
    rw [if_neg hg] at he
    have hnoop : ∃ evs, Sum st st (.aTruncate a n) evs :=
      ⟨[], Sum.ofArr (fun _ _ h => h) (fun _ => rfl) rfl (Eff.same rfl rfl) rfl (fun _ _ => rfl)⟩
    cases hs : (st.arrs a).store with
    | none =>
      simp only [hs, Option.some.injEq] at he
      subst he; exact hnoop
    | some s =>
      by_cases hn : n < (st.arrs a).size
      · simp only [hs, hn, if_true, Option.some.injEq] at he
        subst he
        refine ⟨_, Sum.ofArr (fun _ _ h => h) (fun _ => rfl) rfl
          ((eff_dtorLocs st ((range' n (st.arrs a).size).map fun i => Loc.heap s i 1) ?_).setArr a _) ?_ ?_⟩
        · intro l hl
          obtain ⟨i, _, rfl⟩ := (Arr.mem_heapLocs _ _ _).mp hl
          exact arrSet_store hs i 1
        · simp only [setArr_nodes, dtorRange, dtorLocs_nodes]
        · intro a' ha'
          simp only [setArr_arrs, upd_other _ _ _ _ (at_single rfl a' ha'), dtorRange, dtorLocs_arrs]
      · simp only [hs, hn, if_false, Option.some.injEq] at he
        subst he; exact hnoop

theorem sum_aAssign {st st' : State} (a j : Nat) (src : SrcRef)
    (he : exec' st (.aAssign a j src) = some st') : ∃ evs, Sum st st' (.aAssign a j src) evs := by
  simp only [exec'] at he
  cases hs : (st.arrs a).store with
  | none => simp [hs] at he
  | some s =>
    by_cases hj : j ≥ (st.arrs a).size
    · simp [hs, hj] at he
    · cases hr : resolve st src with
      | none => simp [hs, hj, hr] at he
      | some lp =>
        obtain ⟨l, p⟩ := lp
        cases l with
        | none => simp [hs, hj, hr] at he
        | some l =>
          simp [hs, hj, hr] at he
          subst he
          exact ⟨_, Sum.ofArr (fun _ _ h => h) (fun _ => rfl) rfl
            (eff_assign st _ l p (Or.inl (arrSet_store hs j 1))) rfl (fun _ _ => rfl)⟩

theorem sum_aRemove {st st' : State} (a j : Nat)
    (he : exec' st (.aRemove a j) = some st') : ∃ evs, Sum st st' (.aRemove a j) evs := by
  simp only [exec'] at he
  cases hs : (st.arrs a).store with
  | none => simp [hs] at he
  | some s =>
    by_cases hj : j ≥ (st.arrs a).size
    · simp [hs, hj] at he
    · simp [hs, hj] at he
      subst he
      refine ⟨_, Sum.ofArr (fun _ _ h => h) (fun _ => rfl) rfl
        (((eff_shiftDown st s (range' j ((st.arrs a).size - 1)) (fun i _ => arrSet_store hs i 1)).trans
          (eff_dtor _ _ (arrSet_store hs _ 1))).setArr a _) ?_ ?_⟩
      · simp only [setArr_nodes, dtor_nodes, shiftDown_nodes]
      · intro a' ha'
        simp only [setArr_arrs, upd_other _ _ _ _ (at_single rfl a' ha'), dtor_arrs, shiftDown_arrs]

theorem sum_aDestroy {st st' : State} (a : Nat)
    (he : exec' st (.aDestroy a) = some st') : ∃ evs, Sum st st' (.aDestroy a) evs := by
  simp only [exec'] at he
  cases hA : (st.arrs a).alive with
  | false => simp [hA] at he
  | true =>
    have hg : ¬ ((!(st.arrs a).alive) = true) := by simp [hA]
    rw [if_neg hg] at he
    have he := Option.some.inj he
    subst he
    cases hs : (st.arrs a).store with
    | none =>
      simp only []
      refine ⟨[], Sum.ofArr (fun _ _ h => h) (fun _ => rfl) rfl (Eff.same rfl rfl) rfl ?_⟩
      intro a' ha'
      simp only [setArr_arrs, upd_other _ _ _ _ (at_single rfl a' ha')]
    | some s =>
      simp only []
      refine ⟨_, Sum.ofArr (fun _ _ h => h) (fun _ => rfl) rfl
        (((eff_dtorLocs st ((List.range (st.arrs a).size).map fun i => Loc.heap s i 1) ?_).trans
          (eff_freeBlk _ s)).setArr a _) ?_ ?_⟩
      · intro l hl
        obtain ⟨i, _, rfl⟩ := (Arr.mem_heapLocs _ _ _).mp hl
        exact arrSet_store hs i 1
      · simp only [setArr_nodes, freeBlk_nodes, dtorRange, dtorLocs_nodes]
      · intro a' ha'
        simp only [setArr_arrs, upd_other _ _ _ _ (at_single rfl a' ha'), freeBlk_arrs, dtorRange, dtorLocs_arrs]

theorem sum_aCreate {st st' : State} (a cap : Nat)
    (he : exec' st (.aCreate a cap) = some st') : ∃ evs, Sum st st' (.aCreate a cap) evs := by
  simp only [exec'] at he
  cases hA : (st.arrs a).alive with
  | true => simp [hA] at he
  | false =>
    have hg : ¬ ((st.arrs a).alive = true) := by simp [hA]
    rw [if_neg hg] at he
    have he := Option.some.inj he
    subst he
    refine ⟨[], Sum.ofArr (fun _ _ h => h) (fun _ => rfl) rfl (Eff.same rfl rfl) rfl ?_⟩
    intro a' ha'
    simp only [setArr_arrs, upd_other _ _ _ _ (at_single rfl a' ha')]

theorem sum_aSwap {st st' : State} (a b : Nat)
    (he : exec' st (.aSwap a b) = some st') : ∃ evs, Sum st st' (.aSwap a b) evs := by
  simp only [exec'] at he
  by_cases hg : (!(st.arrs a).alive || !(st.arrs b).alive) = true
  · simp [hg] at he
  · rw [if_neg hg] at he
    have he := Option.some.inj he
    subst he
    refine ⟨[], Sum.ofArr (fun _ _ h => h) (fun _ => rfl) rfl (Eff.same rfl rfl) rfl ?_⟩
    intro x hx
    simp only [Micro.arrTargets, List.mem_cons, List.not_mem_nil, or_false, not_or] at hx
    simp only [setArr_arrs]
    rw [upd_other _ _ _ _ hx.2, upd_other _ _ _ _ hx.1]

/-- every executed micro step has a summary -/
theorem exec_sum {st st' : State} (m : Micro) (he : exec' st m = some st') : ∃ evs, Sum st st' m evs := by
  cases m with
  | put c pos k v => exact sum_put c pos k v he
  | assignVal c j src => exact sum_assignVal c j src he
  | remove c j => exact sum_remove c j he
  | removeKey c k => exact sum_removeKey c k he
  | removeVal c v => exact sum_removeVal c v he
  | clear c => exact sum_clear c he
  | destroy c => exact sum_destroy c he
  | create c => exact sum_create c he
  | swap c d => exact sum_swap c d he
  | aReserve a n => exact sum_aReserve a n he
  | aPush a src => exact sum_aPush a src he
  | aTruncate a n => exact sum_aTruncate a n he
  | aAssign a j src => exact sum_aAssign a j src he
  | aRemove a j => exact sum_aRemove a j he
  | aDestroy a => exact sum_aDestroy a he
  | aCreate a cap => exact sum_aCreate a cap he
  | aSwap a b => exact sum_aSwap a b he

-- separation facts of the invariant --------------------------------------------------------------------------

theorem item_not_fresh {st : State} (h : SInv st) {c : Var} {it : Item} (hi : it ∈ (st.nodes c).items)
    (f : Nat) : ¬ ∃ b i f', st.next ≤ b ∧ it.loc f = .heap b i f' := by
  rintro ⟨b, i, f', hb, e⟩
  simp only [Item.loc, Loc.heap.injEq] at e
  have := h.owns_lt (h.item_block (List.mem_append_left _ hi))
  omega

theorem item_notFreeOrFresh {st : State} (h : SInv st) {c : Var} {it : Item} (hi : it ∈ (st.nodes c).items)
    (c0 : Var) (f : Nat) : ¬ FreeOrFresh st c0 (it.loc f) := by
  rintro (⟨it', f', hfree, e⟩ | hfresh)
  · obtain ⟨rfl, _⟩ := loc_inj e
    obtain rfl := h.slot_owner (List.mem_append_left _ hi) (List.mem_append_right _ hfree)
    exact (List.nodup_append.mp (h.slots_nodup c)).2.2 it hi it hfree rfl
  · exact item_not_fresh h hi f hfresh

theorem item_notArrSet {st : State} (h : SInv st) {c : Var} {it : Item} (hi : it ∈ (st.nodes c).items)
    (a : Nat) (f : Nat) : ¬ ArrSet st a (it.loc f) := by
  rintro (⟨s, i, f', hs, e⟩ | hfresh)
  · simp only [Item.loc, Loc.heap.injEq] at e
    exact h.slot_not_arr (List.mem_append_left _ hi) hs e.1
  · exact item_not_fresh h hi f hfresh

theorem item_notRemoved {st : State} (h : SInv st) {c : Var} {it : Item} (hi : it ∈ (st.nodes c).items)
    (m : Micro) (hr : ¬ m.removes st c it) (c0 : Var) (f : Nat) : ¬ Removed st m c0 (it.loc f) := by
  rintro ⟨it', f', hi', hr', e⟩
  obtain ⟨rfl, _⟩ := loc_inj e
  obtain rfl := h.slot_owner (List.mem_append_left _ hi) (List.mem_append_left _ hi')
  exact hr hr'

theorem item_notSent (it : Item) (c0 : Var) (f : Nat) : ¬ SentOf c0 (it.loc f) := by
  rintro ⟨f', e⟩; cases e

/-- no object is constructed or destroyed in the slot of an item the step is not meant to remove -/
theorem sep_cd {st : State} (h : SInv st) (m : Micro) {c : Var} {it : Item} (hi : it ∈ (st.nodes c).items)
    (hr : ¬ m.removes st c it) (f : Nat) : ¬ cdSet st m (it.loc f) := by
  cases m with
  | put c0 pos k v => exact item_notFreeOrFresh h hi c0 f
  | assignVal c0 j src => exact id
  | remove c0 j => exact item_notRemoved h hi _ hr c0 f
  | removeKey c0 k => exact item_notRemoved h hi _ hr c0 f
  | removeVal c0 v => exact item_notRemoved h hi _ hr c0 f
  | clear c0 => exact item_notRemoved h hi _ hr c0 f
  | destroy c0 =>
    rintro (h1 | h1)
    · exact item_notRemoved h hi _ hr c0 f h1
    · exact item_notSent it c0 f h1
  | create c0 => exact item_notSent it c0 f
  | swap c0 d0 => exact id
  | aReserve a n => exact item_notArrSet h hi a f
  | aPush a src => exact item_notArrSet h hi a f
  | aTruncate a n => exact item_notArrSet h hi a f
  | aAssign a j src => exact item_notArrSet h hi a f
  | aRemove a j => exact item_notArrSet h hi a f
  | aDestroy a => exact item_notArrSet h hi a f
  | aCreate a cap => exact id
  | aSwap a b => exact id

/-- the key object of an item is never assigned -/
theorem sep_as_key {st : State} (m : Micro) (it : Item) : ¬ asSet st m (it.loc 0) := by
  have hv : ∀ c0, ¬ ValOf st c0 (it.loc 0) := by
    rintro c0 ⟨it', _, e⟩
    have := (loc_inj e).2
    cases this
  cases m with
  | put c0 pos k v => exact hv c0
  | assignVal c0 j src => exact hv c0
  | _ => exact id

theorem removes_target {st : State} {m : Micro} {c : Var} {it : Item} (hr : m.removes st c it) :
    c ∈ m.nodeTargets := by
  cases m with
  | remove c0 j => rw [hr.1]; simp [Micro.nodeTargets]
  | removeKey c0 k => rw [hr.1]; simp [Micro.nodeTargets]
  | removeVal c0 v => rw [hr.1]; simp [Micro.nodeTargets]
  | clear c0 =>
    have hr : c = c0 := hr
    rw [hr]; simp [Micro.nodeTargets]
  | destroy c0 =>
    have hr : c = c0 := hr
    rw [hr]; simp [Micro.nodeTargets]
  | _ => exact False.elim hr

/-- a step assigns only to items of the container it names -/
theorem frame_as {st : State} (h : SInv st) (m : Micro) {c : Var} {it : Item} (hi : it ∈ (st.nodes c).items)
    (hc : c ∉ m.nodeTargets) (f : Nat) : ¬ asSet st m (it.loc f) := by
  have hv : ∀ c0, c ≠ c0 → ¬ ValOf st c0 (it.loc f) := by
    rintro c0 hne ⟨it', hi', e⟩
    obtain ⟨rfl, _⟩ := loc_inj e
    exact hne (h.slot_owner (List.mem_append_left _ hi) (List.mem_append_left _ hi'))
  cases m with
  | put c0 pos k v => exact hv c0 (fun e => hc (by simp [Micro.nodeTargets, e]))
  | assignVal c0 j src => exact hv c0 (fun e => hc (by simp [Micro.nodeTargets, e]))
  | _ => exact id

-- the same for the elements of an array the step does not name

theorem elem_not_fresh {st : State} (h : SInv st) {a s : Nat} (hs : (st.arrs a).store = some s) (i : Nat) :
    ¬ ∃ b i' f', st.next ≤ b ∧ Loc.heap s i 1 = .heap b i' f' := by
  rintro ⟨b, i', f', hb, e⟩
  simp only [Loc.heap.injEq] at e
  have := h.owns_lt (o := .arr a) hs
  omega

theorem elem_not_slot {st : State} (h : SInv st) {a s : Nat} (hs : (st.arrs a).store = some s) (i : Nat)
    {c0 : Var} {it' : Item} (hi' : it' ∈ (st.nodes c0).items ++ (st.nodes c0).free) (f' : Nat) :
    Loc.heap s i 1 ≠ it'.loc f' := by
  intro e
  simp only [Item.loc, Loc.heap.injEq] at e
  exact h.slot_not_arr hi' hs e.1.symm

theorem elem_notArrSet {st : State} (h : SInv st) {a s : Nat} (hs : (st.arrs a).store = some s) (i : Nat)
    (a0 : Nat) (hne : a ≠ a0) : ¬ ArrSet st a0 (.heap s i 1) := by
  rintro (⟨s', i', f', hs', e⟩ | hfresh)
  · simp only [Loc.heap.injEq] at e
    have := h.own_unique (.arr a) (.arr a0) s hs (by rw [e.1]; exact hs')
    cases this; exact hne rfl
  · exact elem_not_fresh h hs i hfresh

theorem frame_arr_sets {st : State} (h : SInv st) (m : Micro) {a s : Nat} (hs : (st.arrs a).store = some s)
    (i : Nat) (ha : a ∉ m.arrTargets) : ¬ cdSet st m (.heap s i 1) ∧ ¬ asSet st m (.heap s i 1) := by
  have hF : ∀ c0, ¬ FreeOrFresh st c0 (.heap s i 1) := by
    rintro c0 (⟨it', f', hfree, e⟩ | hfresh)
    · exact elem_not_slot h hs i (List.mem_append_right _ hfree) f' e
    · exact elem_not_fresh h hs i hfresh
  have hV : ∀ c0, ¬ ValOf st c0 (.heap s i 1) := by
    rintro c0 ⟨it', hi', e⟩
    exact elem_not_slot h hs i (List.mem_append_left _ hi') 1 e
  have hR : ∀ m' c0, ¬ Removed st m' c0 (.heap s i 1) := by
    rintro m' c0 ⟨it', f', hi', _, e⟩
    exact elem_not_slot h hs i (List.mem_append_left _ hi') f' e
  have hS : ∀ c0, ¬ SentOf c0 (.heap s i 1) := by
    rintro c0 ⟨f', e⟩; cases e
  have hA : ∀ a0, a ≠ a0 → ¬ ArrSet st a0 (.heap s i 1) := fun a0 hne => elem_notArrSet h hs i a0 hne
  cases m with
  | put c0 pos k v => exact ⟨hF c0, hV c0⟩
  | assignVal c0 j src => exact ⟨id, hV c0⟩
  | remove c0 j => exact ⟨hR _ c0, id⟩
  | removeKey c0 k => exact ⟨hR _ c0, id⟩
  | removeVal c0 v => exact ⟨hR _ c0, id⟩
  | clear c0 => exact ⟨hR _ c0, id⟩
  | destroy c0 => exact ⟨fun h1 => h1.elim (hR _ c0) (hS c0), id⟩
  | create c0 => exact ⟨hS c0, id⟩
  | swap c0 d0 => exact ⟨id, id⟩
  | aReserve a0 n => exact ⟨hA a0 (fun e => ha (by simp [Micro.arrTargets, e])), id⟩
  | aPush a0 src => exact ⟨hA a0 (fun e => ha (by simp [Micro.arrTargets, e])), id⟩
  | aTruncate a0 n => exact ⟨hA a0 (fun e => ha (by simp [Micro.arrTargets, e])), id⟩
  | aAssign a0 j src => exact ⟨hA a0 (fun e => ha (by simp [Micro.arrTargets, e])), id⟩
  | aRemove a0 j => exact ⟨hA a0 (fun e => ha (by simp [Micro.arrTargets, e])), id⟩
  | aDestroy a0 => exact ⟨hA a0 (fun e => ha (by simp [Micro.arrTargets, e])), id⟩
  | aCreate a0 cap => exact ⟨id, id⟩
  | aSwap a0 b0 => exact ⟨id, id⟩

-- the theorems ---------------------------------------------------------------------------------------------

theorem exec_exec' {st st' : State} {m : Micro} (he : exec st m = some st') : exec' st m = some st' := by
  unfold exec at he
  by_cases hv : m.valid = true
  · rw [if_pos hv] at he; exact he
  · rw [if_neg hv] at he; cases he

/-- C05: every element a step is not meant to remove stays an item in the same slot, no object is constructed or
    destroyed in its slot, its key is unchanged; every member object of a removed element is destroyed -/
theorem exec_stable {st st' : State} (h : SInv st) (m : Micro) (he : exec st m = some st') :
    ∃ evs, st'.log = st.log ++ evs ∧
      ∀ c it, it ∈ (st.nodes c).items →
        (¬ m.removes st c it ∧ Kept st st' evs it c (m.moves c)) ∨ (m.removes st c it ∧ Destroyed evs it c) := by
  obtain ⟨evs, s⟩ := exec_sum m (exec_exec' he)
  refine ⟨evs, s.eff.1, ?_⟩
  intro c it hi
  by_cases hr : m.removes st c it
  · exact Or.inr ⟨hr, s.destroyed c it hi hr⟩
  · obtain ⟨h1, h2⟩ := s.items h c it hi hr
    refine Or.inl ⟨hr, h1, h2, ?_, ?_⟩
    · intro e he' hrec
      obtain ⟨f, hf⟩ := cdAt_of_recycles hrec
      exact sep_cd h m hi hr f (s.eff.2.1 e he' _ hf)
    · exact s.eff.2.2 _ (sep_cd h m hi hr 0) (sep_as_key m it)

/-- a step changes neither the node variables it does not name nor the objects of their items -/
theorem exec_frame_node {st st' : State} (h : SInv st) (m : Micro) (he : exec st m = some st') (c : Var)
    (hc : c ∉ m.nodeTargets) :
    st'.nodes c = st.nodes c ∧ ∀ it f, it ∈ (st.nodes c).items → st'.mem (it.loc f) = st.mem (it.loc f) := by
  obtain ⟨evs, s⟩ := exec_sum m (exec_exec' he)
  refine ⟨s.fnode c hc, ?_⟩
  intro it f hi
  exact s.eff.2.2 _ (sep_cd h m hi (fun hr => hc (removes_target hr)) f) (frame_as h m hi hc f)

/-- a step changes neither the array variables it does not name nor their elements -/
theorem exec_frame_arr {st st' : State} (h : SInv st) (m : Micro) (he : exec st m = some st') (a : Nat)
    (ha : a ∉ m.arrTargets) :
    st'.arrs a = st.arrs a ∧
      ∀ s i, (st.arrs a).store = some s → i < (st.arrs a).size → st'.mem (.heap s i 1) = st.mem (.heap s i 1) := by
  obtain ⟨evs, s⟩ := exec_sum m (exec_exec' he)
  refine ⟨s.farr a ha, ?_⟩
  intro s' i hs _
  obtain ⟨h1, h2⟩ := frame_arr_sets h m hs i ha
  exact s.eff.2.2 _ h1 h2

/-- the steps of the pool containers construct the value objects in place and never assign -/
theorem exec_pool {st st' : State} (m : Micro) (hp : m.poolForm = true) (he : exec st m = some st') :
    ∃ evs, st'.log = st.log ++ evs ∧ ∀ e, e ∈ evs → ¬ e.copiesElement := by
  obtain ⟨evs, s⟩ := exec_sum m (exec_exec' he)
  exact ⟨evs, s.eff.1, s.nocopy hp⟩

end Nstd.Life.Stable
