import Nstd.Life.Spec
/-
  Counting consequences of the checker automaton: in an accepted log, for every location the number of
  constructions exceeds the number of destructions by one exactly when the object is live at the end
  (so: equal numbers when nothing is live), and every block id is allocated at most once and freed
  as often as allocated when no block is left.
-/
namespace Nstd.Life

def b2n (b : Bool) : Nat := if b then 1 else 0

def ctorCount (l : Loc) : List Ev → Nat
  | [] => 0
  | .ctor d _ :: rest => (if d = l then 1 else 0) + ctorCount l rest
  | _ :: rest => ctorCount l rest

def dtorCount (l : Loc) : List Ev → Nat
  | [] => 0
  | .dtor d :: rest => (if d = l then 1 else 0) + dtorCount l rest
  | _ :: rest => dtorCount l rest

def allocCount (b : Nat) : List Ev → Nat
  | [] => 0
  | .alloc x _ :: rest => (if x = b then 1 else 0) + allocCount b rest
  | _ :: rest => allocCount b rest

def freeCount (b : Nat) : List Ev → Nat
  | [] => 0
  | .free x :: rest => (if x = b then 1 else 0) + freeCount b rest
  | _ :: rest => freeCount b rest

theorem Chk.step_ctor {c c1 : Chk} {d : Loc} {src : Option Loc} (hs : c.step (.ctor d src) = some c1) :
    c.live d = false ∧ c1 = { c with live := upd c.live d true } := by
  cases src with
  | none =>
    simp only [Chk.step] at hs
    by_cases hg : (c.slotOk d && !c.live d && true) = true
    · simp only [hg, if_true, Option.some.injEq] at hs
      simp only [Bool.and_true, Bool.and_eq_true, Bool.not_eq_true'] at hg
      exact ⟨hg.2, hs.symm⟩
    · simp [hg] at hs
  | some s =>
    simp only [Chk.step] at hs
    by_cases hg : (c.slotOk d && !c.live d && c.srcOk s) = true
    · simp only [hg, if_true, Option.some.injEq] at hs
      simp only [Bool.and_eq_true, Bool.not_eq_true'] at hg
      exact ⟨hg.1.2, hs.symm⟩
    · simp [hg] at hs

theorem Chk.run_objects (l : Loc) : ∀ (evs : List Ev) (c c' : Chk), c.run evs = some c' →
    ctorCount l evs + b2n (c.live l) = dtorCount l evs + b2n (c'.live l)
  | [], c, c', h => by
    simp only [Chk.run, Option.some.injEq] at h; subst h; simp [ctorCount, dtorCount]
  | e :: rest, c, c', h => by
    simp only [Chk.run] at h
    cases hs : c.step e with
    | none => rw [hs] at h; cases h
    | some c1 =>
      rw [hs] at h
      have ih := Chk.run_objects l rest c1 c' h
      cases e with
      | alloc b n =>
        simp only [Chk.step] at hs
        by_cases hu : c.used b = true
        · simp [hu] at hs
        · simp only [hu, Bool.false_eq_true, if_false, Option.some.injEq] at hs
          subst hs; simpa [ctorCount, dtorCount] using ih
      | free b =>
        simp only [Chk.step] at hs
        cases hb : c.blk b with
        | none => simp [hb] at hs
        | some n =>
          simp only [hb] at hs
          by_cases he : c.blockEmpty b n = true
          · simp only [he, if_true, Option.some.injEq] at hs
            subst hs; simpa [ctorCount, dtorCount] using ih
          · simp [he] at hs
      | ctor d src =>
        obtain ⟨hdl, rfl⟩ := Chk.step_ctor hs
        simp only [ctorCount, dtorCount]
        by_cases hd : d = l
        · subst hd
          simp only [if_true, hdl, b2n, Bool.false_eq_true, if_false] at ih ⊢
          simp only [upd, if_true] at ih
          omega
        · have : upd c.live d true l = c.live l := by simp [upd, Ne.symm hd]
          simp only [this] at ih
          simp only [hd, if_false]; omega
      | assign d s =>
        simp only [Chk.step] at hs
        by_cases hg : (c.live d && c.srcOk s) = true
        · simp only [hg, if_true, Option.some.injEq] at hs
          subst hs; simpa [ctorCount, dtorCount] using ih
        · simp [hg] at hs
      | dtor d =>
        simp only [Chk.step] at hs
        by_cases hg : c.live d = true
        · simp only [hg, if_true, Option.some.injEq] at hs
          subst hs
          simp only [ctorCount, dtorCount]
          by_cases hd : d = l
          · subst hd
            simp only [if_true, hg, b2n] at ih ⊢
            simp only [upd, if_true, Bool.false_eq_true, if_false] at ih
            omega
          · have : upd c.live d false l = c.live l := by simp [upd, Ne.symm hd]
            simp only [this] at ih
            simp only [hd, if_false]; omega
        · simp [hg] at hs

theorem Chk.run_blocks (b : Nat) : ∀ (evs : List Ev) (c c' : Chk), c.run evs = some c' →
    (∀ x, (c.blk x).isSome = true → c.used x = true) →
    allocCount b evs + b2n (c.blk b).isSome = freeCount b evs + b2n (c'.blk b).isSome ∧
    allocCount b evs + b2n (c.used b) = b2n (c'.used b)
  | [], c, c', h, _ => by
    simp only [Chk.run, Option.some.injEq] at h; subst h; simp [allocCount, freeCount]
  | e :: rest, c, c', h, hw => by
    simp only [Chk.run] at h
    cases hs : c.step e with
    | none => rw [hs] at h; cases h
    | some c1 =>
      rw [hs] at h
      cases e with
      | alloc x n =>
        simp only [Chk.step] at hs
        by_cases hu : c.used x = true
        · simp [hu] at hs
        · simp only [hu, Bool.false_eq_true, if_false, Option.some.injEq] at hs
          subst hs
          have ih := Chk.run_blocks b rest _ c' h (by
            intro y hy
            simp only [upd] at hy ⊢
            by_cases hyx : y = x
            · simp [hyx]
            · simp only [hyx, if_false] at hy ⊢; exact hw y hy)
          simp only [allocCount, freeCount]
          by_cases hx : x = b
          · subst hx
            have hu' : c.used x = false := by simpa using hu
            simp only [upd, if_true, Option.isSome_some, b2n] at ih
            -- a block that was never used is not allocated: needed?  use only the `used` part for the bound
            simp only [if_true, hu', b2n, Bool.false_eq_true, if_false]
            have hbn : (c.blk x).isSome = false := by
              cases hb : (c.blk x).isSome with
              | false => rfl
              | true => rw [hw x hb] at hu'; cases hu'
            simp only [hbn, Bool.false_eq_true, if_false]
            omega
          · have h1 : upd c.blk x (some n) b = c.blk b := by simp [upd, Ne.symm hx]
            have h2 : upd c.used x true b = c.used b := by simp [upd, Ne.symm hx]
            simp only [h1, h2] at ih
            simp only [hx, if_false]; omega
      | free x =>
        simp only [Chk.step] at hs
        cases hb : c.blk x with
        | none => simp [hb] at hs
        | some n =>
          simp only [hb] at hs
          by_cases he : c.blockEmpty x n = true
          · simp only [he, if_true, Option.some.injEq] at hs
            subst hs
            have ih := Chk.run_blocks b rest _ c' h (by
              intro y hy
              simp only [upd] at hy
              by_cases hyx : y = x
              · simp [hyx] at hy
              · simp only [hyx, if_false] at hy; exact hw y hy)
            simp only [allocCount, freeCount]
            by_cases hx : x = b
            · subst hx
              simp only [upd, if_true, Option.isSome_none, b2n, Bool.false_eq_true, if_false] at ih
              simp only [if_true, hb, Option.isSome_some, b2n]
              omega
            · have h1 : upd c.blk x none b = c.blk b := by simp [upd, Ne.symm hx]
              simp only [h1] at ih
              simp only [hx, if_false]; omega
          · simp [he] at hs
      | ctor d src =>
        obtain ⟨_, rfl⟩ := Chk.step_ctor hs
        have ih := Chk.run_blocks b rest _ c' h hw
        simpa [allocCount, freeCount] using ih
      | assign d s =>
        simp only [Chk.step] at hs
        by_cases hg : (c.live d && c.srcOk s) = true
        · simp only [hg, if_true, Option.some.injEq] at hs
          subst hs
          have ih := Chk.run_blocks b rest _ c' h hw
          simpa [allocCount, freeCount] using ih
        · simp [hg] at hs
      | dtor d =>
        simp only [Chk.step] at hs
        by_cases hg : c.live d = true
        · simp only [hg, if_true, Option.some.injEq] at hs
          subst hs
          have ih := Chk.run_blocks b rest _ c' h hw
          simpa [allocCount, freeCount] using ih
        · simp [hg] at hs

end Nstd.Life
