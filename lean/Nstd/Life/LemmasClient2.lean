import Nstd.Life.LemmasClient
import Nstd.Life.LemmasKeys
/-
  C05 client form, second part: which operations end the life of a pointer (`Op.removes` spelled out for clear and
  re-construction), and the sub-object case `m.insert(key, *m.find(key))`: exactly one self-assignment of the value object.
-/
namespace Nstd.Life

/-- in a state with the invariant in which all variables are alive (every reachable state) an operation that compiles is executed
    completely, so `Op.removes` is decided by the compiled micro steps alone -/
theorem removes_iff_compiled {st : State} (h : SInv st) (ha : Ops.AllAlive st) (op : Op) (c : Var) (it : Item) :
    Op.removes st op c it ↔ ∃ ms, compile st op = some ms ∧ MicrosRemove st ms c it := by
  constructor
  · rintro ⟨ms, h1, _, h3⟩; exact ⟨ms, h1, h3⟩
  · rintro ⟨ms, h1, h3⟩
    refine ⟨ms, h1, ?_, h3⟩
    have hnf := Ops.no_fault_st h ha op
    unfold stepRes at hnf
    rw [h1] at hnf
    simp only at hnf
    cases he : execAll st ms with
    | none => rw [he] at hnf; exact absurd rfl hnf
    | some s => rfl

/-- `clear()` removes exactly the elements of the cleared container -/
theorem removes_clear {st : State} (h : SInv st) (ha : Ops.AllAlive st) (c0 : Var) (hv : c0.valid = true) (c : Var) (it : Item) :
    Op.removes st (.clear c0) c it ↔ c = c0 := by
  have hv' := hv
  simp only [Var.valid, Bool.and_eq_true, decide_eq_true_eq, bne_iff_ne, ne_eq] at hv'
  rw [removes_iff_compiled h ha]
  simp only [compile, guard', hv'.1, decide_true, if_true, if_neg hv'.2, Option.some.injEq, exists_eq_left']
  rw [microsRemove_single]
  rfl

/-- destruction + re-construction of a container (`new`: the destructor runs) removes exactly its elements -/
theorem removes_new {st : State} (h : SInv st) (ha : Ops.AllAlive st) (c0 : Var) (hv : c0.valid = true) (c : Var) (it : Item) :
    Op.removes st (.new c0) c it ↔ c = c0 := by
  have hv' := hv
  simp only [Var.valid, Bool.and_eq_true, decide_eq_true_eq, bne_iff_ne, ne_eq] at hv'
  rw [removes_iff_compiled h ha]
  simp only [compile, guard', hv'.1, decide_true, if_true, if_neg hv'.2, Option.some.injEq, exists_eq_left']
  simp only [MicrosRemove, Micro.removes]
  constructor
  · rintro (hc | ⟨_, _, _, hf | ⟨_, _, _, hf⟩⟩)
    · exact hc
    · exact False.elim hf
    · exact False.elim hf
  · exact Or.inl

-- the sub-object case -----------------------------------------------------------------------------------------------

theorem eq_of_nodup_map {α β : Type} (f : α → β) : ∀ (l : List α), (l.map f).Nodup →
    ∀ a b, a ∈ l → b ∈ l → f a = f b → a = b
  | [], _, a, _, ha, _, _ => by cases ha
  | x :: rest, h, a, b, ha, hb, hf => by
    simp only [List.map_cons, List.nodup_cons, List.mem_map, not_exists, not_and] at h
    rcases List.mem_cons.mp ha with rfl | ha' <;> rcases List.mem_cons.mp hb with rfl | hb'
    · rfl
    · exact absurd hf.symm (h.1 b hb')
    · exact absurd hf (h.1 a ha')
    · exact eq_of_nodup_map f rest h.2 a b ha' hb' hf

/-- the keys of a Map / HashMap are pairwise different -/
theorem keys_nodup {st : State} (hk : Copy.KeysOk st) (c : Var) (hc : c.k = .M ∨ c.k = .H) : (Copy.keysOf st c).Nodup := by
  rcases hc with hc | hc
  · have := (hk c).1 hc
    refine this.imp ?_
    rintro a b ⟨x, y, rfl, rfl, hlt⟩ e
    cases e; omega
  · exact (hk c).2.2 (Or.inl hc)

/-- `m.insert(key, *m.find(key))` / `h.append(key, *h.find(key))` (Map, HashMap; the argument is the value sub-object of the
    element the call is about to overwrite): the step performs exactly ONE event, the self-assignment `value = value` of that
    value object, and changes nothing - memory, item lists, blocks are as before.  So for a value type whose self-assignment is
    the identity (as `List`, `Array`, `Map`, `HashMap`, `HashSet` are: `assign_self_noop`, repair D2) nothing moves and nothing is
    copied; a value type that re-allocates on self-assignment (seeded change C05-4) breaks exactly this composition. -/
theorem put_own_value_self_assign {st st' : State} (h : SInv st) (hk : Copy.KeysOk st) (c : Var) (hc : c.k = .M ∨ c.k = .H)
    (pos : Option Nat) (i kp : Nat) (it : Item) (hi : (st.nodes c).items[i]? = some it) (hkey : keyOf st it = some kp)
    (he : exec st (.put c pos (some (.ext kp)) (some (.item c i 1))) = some st') :
    st'.log = st.log ++ [.assign (it.loc 1) (it.loc 1)] ∧ st'.mem = st.mem ∧ st'.nodes = st.nodes ∧ st'.blk = st.blk := by
  have he' := Stable.exec_exec' he
  have h1 : 1 ∈ c.k.fields := by rcases hc with hc | hc <;> simp [hc, Kind.fields]
  have hU : c.k ≠ .U := by rcases hc with hc | hc <;> simp [hc]
  have hhk : c.k.hasKey = true := by rcases hc with hc | hc <;> simp [hc, Kind.hasKey]
  have himem : it ∈ (st.nodes c).items := List.mem_of_getElem? hi
  -- the key is found, at the item itself
  cases hfind : findField st 0 kp (st.nodes c).items with
  | none =>
    exact absurd (List.mem_map.mpr ⟨it, himem, hkey⟩) (Copy.findField_none st kp _ hfind)
  | some j =>
    obtain ⟨it', hj, hkey'⟩ := Assign.findField_spec st 0 kp _ j hfind
    have hsame : it' = it :=
      eq_of_nodup_map (keyOf st) _ (keys_nodup hk c hc) it' it (List.mem_of_getElem? hj) himem
        (by rw [hkey]; exact hkey')
    subst hsame
    have hlive := h.items_live c it' 1 himem h1
    cases hp : st.mem (it'.loc 1) with
    | none => rw [hp] at hlive; cases hlive
    | some vp =>
      have hp' : st.mem (.heap it'.b it'.i 1) = some vp := hp
      have hr : resolve st (.item c i 1) = some (some (it'.loc 1), some vp) := by
        simp [resolve, SrcRef.loc, SrcRef.payload, h1, hi, Item.loc, hp']
      obtain ⟨ck, cv⟩ := c
      simp only at hc h1 hU hhk
      have hrk : resolveOpt st (some (.ext kp)) = some (some (some .ext, some kp)) := by
        simp [resolveOpt, resolve, SrcRef.loc, SrcRef.payload]
      have hrv : resolveOpt st (some (.item ⟨ck, cv⟩ i 1)) = some (some (some (it'.loc 1), some vp)) := by
        simp only [resolveOpt, hr, Option.map_some]
      have hfs : fieldSrcs ck (some (some .ext, some kp)) (some (some (it'.loc 1), some vp)) =
          some [(0, some .ext, some kp), (1, some (it'.loc 1), some vp)] := by
        rcases hc with rfl | rfl <;> simp [fieldSrcs, Kind.fields]
      by_cases ha : (st.nodes ⟨ck, cv⟩).alive = true
      · simp only [exec', ha, Bool.not_true, Bool.false_eq_true, if_false, hrk, hrv, hfs] at he'
        by_cases hpos : pos.getD (st.nodes ⟨ck, cv⟩).items.length > (st.nodes ⟨ck, cv⟩).items.length
        · simp [hpos] at he'
        · simp only [hpos, if_false, putResolved, hhk, if_true, hU, hfind, hc, hj, putAssign, Option.some.injEq] at he'
          subst he'
          refine ⟨rfl, ?_, rfl, rfl⟩
          funext l
          simp only [assign_mem, upd]
          by_cases hl : l = it'.loc 1
          · rw [if_pos hl, hl, hp]
          · rw [if_neg hl]
      · simp [exec', ha] at he'

end Nstd.Life
