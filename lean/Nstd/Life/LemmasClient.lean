import Nstd.Life.LemmasStableSharp
import Nstd.Life.LemmasAssign
/-
  C05, client-facing form: a pointer to an element (its slot) stays valid over EVERY history of further operations
  until exactly the operation that removes the element (remove / clear / destructor / re-construction of the
  container that owns it at that moment); swap hands the element to the other variable, the pointer stays valid.
-/
namespace Nstd.Life

open Stable in
/-- the value object of an element a step does not remove: unchanged, or the step's events contain an assignment to that
    very object (`*it = v`, or the insert-or-assign of the element's own key into Map / HashMap) -/
theorem exec_value_or_assigned {st st' : State} (h : SInv st) (m : Micro) (he : exec st m = some st') (c : Var) (it : Item)
    (hi : it ∈ (st.nodes c).items) (hr : ¬ m.removes st c it) :
    ∃ evs, st'.log = st.log ++ evs ∧
      (st'.mem (it.loc 1) = st.mem (it.loc 1) ∨ ∃ src, Ev.assign (it.loc 1) src ∈ evs) := by
  have he' := Stable.exec_exec' he
  obtain ⟨evs, sm⟩ := Stable.exec_sum m he'
  have hcd := Stable.sep_cd h m hi hr 1
  have hplain : (∀ l, ¬ Stable.asSet st m l) →
      ∃ evs, st'.log = st.log ++ evs ∧
        (st'.mem (it.loc 1) = st.mem (it.loc 1) ∨ ∃ src, Ev.assign (it.loc 1) src ∈ evs) :=
    fun hn => ⟨evs, sm.eff.1, Or.inl (sm.eff.2.2 _ hcd (hn _))⟩
  -- the state after one assignment to the value object of item it'
  have hassign : ∀ (it' : Item) (vl : Loc) (vp : Option Nat), st' = st.assign (it'.loc 1) vl vp →
      ∃ evs, st'.log = st.log ++ evs ∧
        (st'.mem (it.loc 1) = st.mem (it.loc 1) ∨ ∃ src, Ev.assign (it.loc 1) src ∈ evs) := by
    intro it' vl vp hst
    subst hst
    refine ⟨[.assign (it'.loc 1) vl], rfl, ?_⟩
    by_cases hii : it' = it
    · subst hii; exact Or.inr ⟨vl, by simp⟩
    · left
      have hne : it.loc 1 ≠ it'.loc 1 := by
        intro e
        simp only [Item.loc, Loc.heap.injEq, and_true] at e
        apply hii
        cases it; cases it'; simp_all
      rw [assign_mem, upd_other _ _ _ _ hne]
  cases m with
  | put c0 pos k v =>
    rcases Assign.put_cases c0 pos k v he' with ⟨q, srcs, rfl⟩ | rfl | ⟨it', vl, vp, _, _, _, hst, _⟩
    · obtain ⟨evs', heff, _⟩ := Stable.insertNew_eff (AS := fun _ => False) st c0 q srcs
      exact ⟨evs', heff.1, Or.inl (heff.2.2 _ (Stable.item_notFreeOrFresh h hi c0 1) (fun hf => hf))⟩
    · exact ⟨[], by simp, Or.inl rfl⟩
    · exact hassign it' vl vp hst
  | assignVal c0 j src =>
    simp only [exec'] at he'
    by_cases hf : 1 ∈ c0.k.fields
    · cases hj : (st.nodes c0).items[j]? with
      | none => simp [hf, hj] at he'
      | some it' =>
        cases hrs : resolve st src with
        | none => simp [hf, hj, hrs] at he'
        | some lp =>
          obtain ⟨l, p⟩ := lp
          cases l with
          | none => simp [hf, hj, hrs] at he'
          | some l =>
            simp [hf, hj, hrs] at he'
            exact hassign it' l p he'.symm
    · simp [hf] at he'
  | remove c0 j => exact hplain fun _ hf => hf
  | removeKey c0 k => exact hplain fun _ hf => hf
  | removeVal c0 v => exact hplain fun _ hf => hf
  | clear c0 => exact hplain fun _ hf => hf
  | destroy c0 => exact hplain fun _ hf => hf
  | create c0 => exact hplain fun _ hf => hf
  | swap c0 d0 => exact hplain fun _ hf => hf
  | aReserve a n => exact hplain fun _ hf => hf
  | aPush a src => exact hplain fun _ hf => hf
  | aTruncate a n => exact hplain fun _ hf => hf
  | aAssign a j src => exact hplain fun _ hf => hf
  | aRemove a j => exact hplain fun _ hf => hf
  | aDestroy a => exact hplain fun _ hf => hf
  | aCreate a cap => exact hplain fun _ hf => hf
  | aSwap a b => exact hplain fun _ hf => hf

/-- what holds for an element over a stretch of execution: either it was not removed, it is `Kept` (same slot, now an item of
    c', no construction / destruction in its slot, key unchanged) and its value object is unchanged unless the events contain
    an assignment to that very object - or it was removed and every member object of it was destroyed -/
def Valid (st st' : State) (evs : List Ev) (it : Item) (c : Var) (removed : Prop) : Prop :=
  (¬ removed ∧ (∃ c', Kept st st' evs it c c') ∧
      (st'.mem (it.loc 1) = st.mem (it.loc 1) ∨ ∃ src, Ev.assign (it.loc 1) src ∈ evs)) ∨
  (removed ∧ Destroyed evs it c)

theorem destroyed_kind {evs : List Ev} {it : Item} {c c' : Var} (hk : c'.k = c.k) (h : Destroyed evs it c') :
    Destroyed evs it c := by
  intro f hf
  exact h f (hk ▸ hf)

theorem destroyed_append_right {e1 e2 : List Ev} {it : Item} {c : Var} (h : Destroyed e2 it c) : Destroyed (e1 ++ e2) it c :=
  fun f hf => List.mem_append_right _ (h f hf)

theorem destroyed_append_left {e1 e2 : List Ev} {it : Item} {c : Var} (h : Destroyed e1 it c) : Destroyed (e1 ++ e2) it c :=
  fun f hf => List.mem_append_left _ (h f hf)

/-- the value clause composes along two stretches -/
theorem value_trans {st s1 st' : State} {e1 e2 : List Ev} {it : Item}
    (h1 : s1.mem (it.loc 1) = st.mem (it.loc 1) ∨ ∃ src, Ev.assign (it.loc 1) src ∈ e1)
    (h2 : st'.mem (it.loc 1) = s1.mem (it.loc 1) ∨ ∃ src, Ev.assign (it.loc 1) src ∈ e2) :
    st'.mem (it.loc 1) = st.mem (it.loc 1) ∨ ∃ src, Ev.assign (it.loc 1) src ∈ e1 ++ e2 := by
  rcases h1 with h1 | ⟨s, hs⟩
  · rcases h2 with h2 | ⟨s, hs⟩
    · exact Or.inl (h2.trans h1)
    · exact Or.inr ⟨s, List.mem_append_right _ hs⟩
  · exact Or.inr ⟨s, List.mem_append_left _ hs⟩

/-- list of micro steps -/
theorem execAll_valid {st st' : State} (h : SInv st) (ms : List Micro) (he : execAll st ms = some st') :
    ∃ evs, st'.log = st.log ++ evs ∧ ∀ c it, it ∈ (st.nodes c).items → Valid st st' evs it c (MicrosRemove st ms c it) := by
  induction ms generalizing st with
  | nil =>
    simp only [execAll, Option.some.injEq] at he
    subst he
    exact ⟨[], by simp, fun c it hi => Or.inl ⟨fun hr => hr, ⟨c, kept_refl st it c hi⟩, Or.inl rfl⟩⟩
  | cons m rest ih =>
    simp only [execAll] at he
    cases hm : exec st m with
    | none => rw [hm] at he; cases he
    | some s1 =>
      rw [hm] at he
      obtain ⟨i1, _⟩ := exec_ok h m hm
      obtain ⟨e1, l1, k1⟩ := Stable.exec_stable h m hm
      obtain ⟨e2, l2, k2⟩ := ih i1 he
      refine ⟨e1 ++ e2, by rw [l2, l1, List.append_assoc], ?_⟩
      intro c it hi
      rcases k1 c it hi with ⟨hnr, hk⟩ | ⟨hr, hd⟩
      · obtain ⟨e1', l1', v1⟩ := exec_value_or_assigned h m hm c it hi hnr
        have hee : e1' = e1 := List.append_cancel_left (l1'.symm.trans l1)
        subst hee
        rcases k2 (m.moves c) it hk.1 with ⟨hnr2, ⟨c2, hk2⟩, v2⟩ | ⟨hr2, hd2⟩
        · refine Or.inl ⟨?_, ⟨c2, kept_trans hk hk2⟩, value_trans v1 v2⟩
          rintro (hr | ⟨_, st1, hst1, hr1⟩)
          · exact hnr hr
          · rw [hm] at hst1; cases hst1; exact hnr2 hr1
        · exact Or.inr ⟨Or.inr ⟨hnr, s1, hm, hr2⟩, destroyed_append_right (destroyed_kind hk.2.1 hd2)⟩
      · exact Or.inr ⟨Or.inl hr, destroyed_append_left hd⟩

/-- one operation -/
theorem step_valid {st : State} (h : SInv st) (op : Op) :
    ∃ evs, (step st op).log = st.log ++ evs ∧
      ∀ c it, it ∈ (st.nodes c).items → Valid st (step st op) evs it c (Op.removes st op c it) := by
  have hsame : (∀ c it, ¬ Op.removes st op c it) → step st op = st →
      ∃ evs, (step st op).log = st.log ++ evs ∧
        ∀ c it, it ∈ (st.nodes c).items → Valid st (step st op) evs it c (Op.removes st op c it) := by
    intro hnr hst
    rw [hst]
    exact ⟨[], by simp, fun c it hi => Or.inl ⟨hnr c it, ⟨c, kept_refl st it c hi⟩, Or.inl rfl⟩⟩
  cases hc : compile st op with
  | none =>
    apply hsame
    · rintro c it ⟨ms, h1, _⟩; rw [hc] at h1; cases h1
    · simp [step, stepRes, hc]
  | some ms =>
    cases he : execAll st ms with
    | none =>
      apply hsame
      · rintro c it ⟨ms', h1, h2, _⟩
        rw [hc] at h1; cases h1
        rw [he] at h2; cases h2
      · simp [step, stepRes, hc, he]
    | some st' =>
      have hst : step st op = st' := by simp [step, stepRes, hc, he]
      rw [hst]
      obtain ⟨evs, hl, hk⟩ := execAll_valid h ms he
      refine ⟨evs, hl, ?_⟩
      intro c it hi
      have hiff : Op.removes st op c it ↔ MicrosRemove st ms c it := by
        constructor
        · rintro ⟨ms', h1, _, h3⟩
          rw [hc] at h1; cases h1; exact h3
        · intro h3; exact ⟨ms, hc, by simp [he], h3⟩
      rcases hk c it hi with ⟨h1, h2⟩ | ⟨h1, h2⟩
      · exact Or.inl ⟨fun hr => h1 (hiff.mp hr), h2⟩
      · exact Or.inr ⟨hiff.mpr h1, h2⟩

/-- the history removes element `it` of container c: one of its operations, evaluated in the state it is executed in,
    removes it (`Op.removes`); until then the element is followed into the variable that owns it (swap) -/
def HistRemoves : State → List Op → Var → Item → Prop
  | _, [], _, _ => False
  | st, op :: rest, c, it =>
    Op.removes st op c it ∨
      (¬ Op.removes st op c it ∧ ∃ c', it ∈ ((step st op).nodes c').items ∧ HistRemoves (step st op) rest c' it)

/-- a whole history of operations -/
theorem run_valid {st : State} (h : SInv st) (ops : List Op) :
    ∃ evs, (run st ops).log = st.log ++ evs ∧
      ∀ c it, it ∈ (st.nodes c).items → Valid st (run st ops) evs it c (HistRemoves st ops c it) := by
  induction ops generalizing st with
  | nil =>
    exact ⟨[], by simp [run], fun c it hi => Or.inl ⟨fun hr => hr, ⟨c, kept_refl st it c hi⟩, Or.inl rfl⟩⟩
  | cons op rest ih =>
    obtain ⟨i1, _⟩ := step_ok h op
    obtain ⟨e1, l1, k1⟩ := step_valid h op
    obtain ⟨e2, l2, k2⟩ := ih i1
    refine ⟨e1 ++ e2, by simp only [run]; rw [l2, l1, List.append_assoc], ?_⟩
    intro c it hi
    simp only [run]
    rcases k1 c it hi with ⟨hnr, ⟨c1, hk⟩, v1⟩ | ⟨hr, hd⟩
    · rcases k2 c1 it hk.1 with ⟨hnr2, ⟨c2, hk2⟩, v2⟩ | ⟨hr2, hd2⟩
      · refine Or.inl ⟨?_, ⟨c2, kept_trans hk hk2⟩, value_trans v1 v2⟩
        rintro (hr | ⟨_, c', hi', hr'⟩)
        · exact hnr hr
        · -- the owner after the operation is unique
          have hcc : c' = c1 := i1.slot_owner (List.mem_append_left _ hi') (List.mem_append_left _ hk.1)
          subst hcc
          exact hnr2 hr'
      · exact Or.inr ⟨Or.inr ⟨hnr, c1, hk.1, hr2⟩, destroyed_append_right (destroyed_kind hk.2.1 hd2)⟩
    · exact Or.inr ⟨Or.inl hr, destroyed_append_left hd⟩

-- what removes an element, what does not -------------------------------------------------------------------------

/-- swap removes nothing (it hands the elements over) -/
theorem swap_removes_nothing (st : State) (c : Var) (w : Nat) (c0 : Var) (it : Item) : ¬ Op.removes st (.swap c w) c0 it := by
  rintro ⟨ms, h1, _, h3⟩
  simp only [compile] at h1
  obtain ⟨_, rfl⟩ := Ops.guard_some h1
  by_cases hA : c.k = .A
  · rw [if_pos hA] at h3
    rcases h3 with h | ⟨_, _, _, h⟩ <;> exact h
  · rw [if_neg hA] at h3
    rcases h3 with h | ⟨_, _, _, h⟩ <;> exact h

/-- a history of insertions and swaps removes no element -/
theorem hist_insertions_swaps_remove_nothing : ∀ (ops : List Op) (st : State) (c : Var) (it : Item),
    (∀ op, op ∈ ops → op.isInsertion = true ∨ ∃ c0 w, op = .swap c0 w) → ¬ HistRemoves st ops c it
  | [], _, _, _, _ => fun h => h
  | op :: rest, st, c, it, hp => by
    have hop : ¬ Op.removes st op c it := by
      rcases hp op (by simp) with hi | ⟨c0, w, rfl⟩
      · exact insertion_removes_nothing st op hi c it
      · exact swap_removes_nothing st c0 w c it
    rintro (h | ⟨_, c', _, h⟩)
    · exact hop h
    · exact hist_insertions_swaps_remove_nothing rest _ c' it (fun op' h' => hp op' (by simp [h'])) h

theorem nodup_insertAt_not_mem {α : Type} {l : List α} {q : Nat} {x : α} (h : (insertAt l q x).Nodup) : x ∉ l := by
  unfold insertAt at h
  obtain ⟨_, h2, h3⟩ := List.nodup_append.mp h
  intro hx
  rw [← List.take_append_drop q l] at hx
  rcases List.mem_append.mp hx with hx | hx
  · exact h3 x hx x (by simp) rfl
  · exact (List.nodup_cons.mp h2).1 hx

/-- an insertion step either leaves the item list as it is (the key exists: the value of that item is overwritten, or,
    HashSet / PoolMap, nothing happens) or links exactly ONE new item, in a slot that no element of the container occupies,
    and keeps every other item: the element whose address `append` / `insert` returns -/
theorem put_links_item {st st' : State} (h : SInv st) (c : Var) (pos : Option Nat) (k v : Option SrcRef)
    (he : exec st (.put c pos k v) = some st') :
    (st'.nodes c).items = (st.nodes c).items ∨
    ∃ it q, (st'.nodes c).items = insertAt (st.nodes c).items q it ∧ it ∉ (st.nodes c).items := by
  have h' := (exec_ok h _ he).1
  rcases Assign.put_cases c pos k v (Stable.exec_exec' he) with ⟨q, srcs, rfl⟩ | rfl | ⟨it', vl, vp, _, _, _, rfl, _⟩
  · obtain ⟨it, hit⟩ := Ops.insertNew_items st c q srcs
    refine Or.inr ⟨it, q, hit, ?_⟩
    have hnd := (List.nodup_append.mp (h'.slots_nodup c)).1
    rw [hit] at hnd
    exact nodup_insertAt_not_mem hnd
  · exact Or.inl rfl
  · exact Or.inl rfl

end Nstd.Life
