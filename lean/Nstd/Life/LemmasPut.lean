import Nstd.Life.LemmasNode
/-
  `put` (insert-or-assign) keeps the invariant and emits an accepted event sequence.
  `insertNew` is decomposed into three steps: allocate the hash table, allocate an item block,
  construct the item in the head slot of the free list.
-/
namespace Nstd.Life

-- list facts about insertAt -------------------------------------------------------------------------

theorem insertAt_perm {α : Type} (l : List α) (p : Nat) (a : α) : (insertAt l p a).Perm (a :: l) := by
  unfold insertAt
  have h1 : (l.take p ++ a :: l.drop p).Perm (a :: (l.take p ++ l.drop p)) := List.perm_middle
  rw [List.take_append_drop] at h1
  exact h1

theorem mem_insertAt {α : Type} (l : List α) (p : Nat) (a x : α) : x ∈ insertAt l p a ↔ x = a ∨ x ∈ l := by
  rw [(insertAt_perm l p a).mem_iff]; simp

theorem setNode_setNode (st : State) (c : Var) (n1 n2 : Node) : (st.setNode c n1).setNode c n2 = st.setNode c n2 := by
  simp only [State.setNode]
  congr 1
  funext x
  simp only [upd]
  by_cases h : x = c <;> simp [h]

@[simp] theorem setNode_get (st : State) (c : Var) (n : Node) : (st.setNode c n).nodes c = n := upd_same _ _ _

-- the three steps -------------------------------------------------------------------------------------

theorem allocData_ok {st : State} (h : SInv st) (c : Var) (hd : (st.nodes c).data = none)
    (ha : (st.nodes c).alive = true) (hv : c.valid = true) :
    SInv (allocData st c) ∧ Trace st (allocData st c) := by
  constructor
  · refine node_alloc h c { st.nodes c with data := some st.next } 0 rfl rfl rfl rfl rfl rfl rfl ha ha hv
      (h.slots_nodup c) (h.slots_in c) (h.blocks_nodup c) ?_ ?_ ?_ ?_
    · intro d hd' hmem
      simp only [Option.some.injEq] at hd'
      subst hd'
      exact Nat.lt_irrefl _ (h.owns_lt (o := .node c) (Or.inl hmem))
    · intro x hx
      have : x ≠ st.next := fun he => Nat.lt_irrefl _ (he ▸ h.owns_lt (o := .node c) (Or.inl hx))
      simp only [allocData, setNode_blk, alloc_blk]
      rw [upd_other _ _ _ _ this]; exact h.blocks_blk c x hx
    · intro d hd'
      simp only [Option.some.injEq] at hd'
      subst hd'
      simp only [allocData, setNode_blk, alloc_blk]
      exact upd_same _ _ _
    · intro x
      simp only [hd, Option.some.injEq, reduceCtorEq, or_false]
      constructor
      · rintro (hx | hx)
        · exact Or.inl hx
        · exact Or.inr hx.symm
      · rintro (hx | hx)
        · exact Or.inl hx
        · exact Or.inr hx.symm
  · exact Trace.trans (trace_alloc st 0) (Trace.of_same rfl rfl rfl rfl)

theorem newSlots_mem (n : Nat) (k : Kind) (b : Nat) (it : Item) (hn : 1 ≤ n) :
    it ∈ newSlots n k b ↔ it.b = b ∧ it.i < n := by
  cases it with
  | mk b' i =>
    unfold newSlots
    by_cases hk : k.hashOrder = true
    · simp only [hk, if_true, List.mem_cons, Item.mk.injEq, List.mem_map, List.mem_range]
      constructor
      · rintro (⟨rfl, rfl⟩ | ⟨j, hj, rfl, rfl⟩)
        · exact ⟨rfl, by omega⟩
        · exact ⟨rfl, by omega⟩
      · rintro ⟨rfl, hi⟩
        by_cases h0 : i = 0
        · exact Or.inl ⟨rfl, h0⟩
        · exact Or.inr ⟨n - 1 - i, by omega, rfl, by omega⟩
    · simp only [hk, Bool.false_eq_true, if_false, Item.mk.injEq, List.mem_map, List.mem_range]
      constructor
      · rintro ⟨j, hj, rfl, rfl⟩
        exact ⟨rfl, by omega⟩
      · rintro ⟨rfl, hi⟩
        exact ⟨n - 1 - i, by omega, rfl, by omega⟩

theorem newSlots_ne_nil (n : Nat) (k : Kind) (b : Nat) (hn : 1 ≤ n) : newSlots n k b ≠ [] := by
  intro he
  have := (newSlots_mem n k b ⟨b, 0⟩ hn).mpr ⟨rfl, (show 0 < n by omega)⟩
  rw [he] at this; cases this

theorem newSlots_nodup (n : Nat) (k : Kind) (b : Nat) : (newSlots n k b).Nodup := by
  have hmap : ∀ m, ((List.range m).map fun j => (⟨b, n - 1 - j⟩ : Item)).Nodup ∨ n < m := by
    intro m
    by_cases hm : n < m
    · exact Or.inr hm
    · left
      rw [List.nodup_iff_pairwise_ne, List.pairwise_map]
      refine List.Pairwise.imp_of_mem ?_ (List.pairwise_lt_range (n := m))
      intro x y hx hy hlt e
      simp only [List.mem_range] at hx hy
      simp only [Item.mk.injEq, true_and] at e
      omega
  unfold newSlots
  by_cases hk : k.hashOrder = true
  · simp only [hk, if_true, List.nodup_cons, List.mem_map, List.mem_range, Item.mk.injEq, true_and, not_exists,
      not_and]
    refine ⟨fun j hj => by omega, ?_⟩
    rcases hmap (n - 1) with h | h
    · exact h
    · omega
  · simp only [hk, Bool.false_eq_true, if_false]
    rcases hmap n with h | h
    · exact h
    · omega

theorem allocBlock_ok {st : State} (h : SInv st) (c : Var) (hf : (st.nodes c).free = [])
    (ha : (st.nodes c).alive = true) (hv : c.valid = true) :
    SInv (allocBlock st c) ∧ Trace st (allocBlock st c) := by
  have hlt : ∀ x, x ∈ (st.nodes c).blocks → x < st.next := fun x hx => h.owns_lt (o := .node c) (Or.inl hx)
  have hitems : ∀ it, it ∈ (st.nodes c).items → it.b ∈ (st.nodes c).blocks ∧ it.i < st.per.f c.k :=
    fun it hi => h.slots_in c it (List.mem_append_left _ hi)
  constructor
  · refine node_alloc h c { st.nodes c with free := newSlots (st.per.f c.k) c.k st.next, blocks := st.next :: (st.nodes c).blocks }
      (st.per.f c.k) rfl rfl rfl rfl rfl rfl rfl ha ha hv ?_ ?_ ?_ ?_ ?_ ?_ ?_
    · have h0 := h.slots_nodup c
      rw [hf, List.append_nil] at h0
      refine List.nodup_append.mpr ⟨h0, newSlots_nodup _ _ _, ?_⟩
      intro a ha' b hb' hab
      subst hab
      have := (newSlots_mem _ _ _ _ (st.per.pos c.k)).mp hb'
      have h2 := hlt _ (hitems a ha').1
      omega
    · intro it hi
      simp only [List.mem_append] at hi
      rcases hi with hi | hi
      · exact ⟨List.mem_cons_of_mem _ (hitems it hi).1, (hitems it hi).2⟩
      · have := (newSlots_mem _ _ _ _ (st.per.pos c.k)).mp hi
        exact ⟨by simp [this.1], this.2⟩
    · refine List.nodup_cons.mpr ⟨fun hm => Nat.lt_irrefl _ (hlt _ hm), h.blocks_nodup c⟩
    · intro d hd hm
      simp only [List.mem_cons] at hm
      rcases hm with hm | hm
      · subst hm; exact Nat.lt_irrefl _ (h.owns_lt (o := .node c) (Or.inr hd))
      · exact h.data_notin c d hd hm
    · intro x hx
      simp only [List.mem_cons] at hx
      simp only [allocBlock, setNode_blk, alloc_blk]
      rcases hx with hx | hx
      · subst hx; exact upd_same _ _ _
      · have : x ≠ st.next := fun he => Nat.lt_irrefl _ (he ▸ hlt x hx)
        rw [upd_other _ _ _ _ this]; exact h.blocks_blk c x hx
    · intro d hd
      have : d ≠ st.next := fun he => Nat.lt_irrefl _ (he ▸ h.owns_lt (o := .node c) (Or.inr hd))
      simp only [allocBlock, setNode_blk, alloc_blk]
      rw [upd_other _ _ _ _ this]; exact h.data_blk c d hd
    · intro x
      simp only [List.mem_cons]
      constructor
      · rintro ((hx | hx) | hx)
        · exact Or.inr hx
        · exact Or.inl (Or.inl hx)
        · exact Or.inl (Or.inr hx)
      · rintro ((hx | hx) | hx)
        · exact Or.inl (Or.inr hx)
        · exact Or.inr hx
        · exact Or.inl (Or.inl hx)
  · exact Trace.trans (trace_alloc st (st.per.f c.k)) (Trace.of_same rfl rfl rfl rfl)

theorem useSlot_ok {st : State} (h : SInv st) (c : Var) (pos : Nat) (it : Item) (rest : List Item)
    (srcs : List (Nat × Option Loc × Option Nat))
    (hfree : (st.nodes c).free = it :: rest)
    (hf : srcs.map (·.1) = c.k.fields)
    (hp : ∀ x, x ∈ srcs → x.2.2.isSome = true)
    (hs : ∀ x, x ∈ srcs → ∀ s, x.2.1 = some s → SrcLive st s) :
    SInv (useSlot st c pos it rest srcs) ∧ Trace st (useSlot st c pos it rest srcs) := by
  have hitfree : it ∈ (st.nodes c).free := by rw [hfree]; exact List.mem_cons_self
  have hitin : it ∈ (st.nodes c).items ++ (st.nodes c).free := List.mem_append_right _ hitfree
  have hnd0 := h.slots_nodup c
  rw [hfree] at hnd0
  have hnotitems : it ∉ (st.nodes c).items := fun hm =>
    (List.nodup_append.mp (h.slots_nodup c)).2.2 it hm it hitfree rfl
  have hnotrest : it ∉ rest := (List.nodup_cons.mp (List.nodup_append.mp hnd0).2.1).1
  -- the destinations
  have hdst : (srcs.map fun (x : Nat × Option Loc × Option Nat) => (it.loc x.1, x.2.1, x.2.2)).map (·.1) = c.k.fields.map it.loc := by
    rw [← hf]; simp [List.map_map, Function.comp_def]
  have hxs : (srcs.map fun ((f, src, p) : Nat × Option Loc × Option Nat) => (it.loc f, src, p)) =
      (srcs.map fun (x : Nat × Option Loc × Option Nat) => (it.loc x.1, x.2.1, x.2.2)) := rfl
  have hdstmem : ∀ l, l ∈ c.k.fields.map it.loc ↔ ∃ f, f ∈ c.k.fields ∧ l = it.loc f := by
    intro l; simp only [List.mem_map]; constructor
    · rintro ⟨f, hf', rfl⟩; exact ⟨f, hf', rfl⟩
    · rintro ⟨f, hf', rfl⟩; exact ⟨f, hf', rfl⟩
  have hpx : ∀ x, x ∈ (srcs.map fun (x : Nat × Option Loc × Option Nat) => (it.loc x.1, x.2.1, x.2.2)) → x.2.2.isSome = true := by
    intro x hx
    simp only [List.mem_map] at hx
    obtain ⟨y, hy, rfl⟩ := hx
    exact hp y hy
  have hndd : (c.k.fields.map it.loc).Nodup := by
    have := fields_nodup c.k
    unfold List.Nodup at this ⊢
    rw [List.pairwise_map]
    exact this.imp fun hab he => hab (loc_inj he).2
  constructor
  · refine node_local h c (insertAt (st.nodes c).items pos it) rest ?_ ?_ ?_ ?_ ?_ ?_ ?_ ?_ ?_ ?_
    · simp only [useSlot, setNode_nodes, ctorList_nodes]
    · simp only [useSlot, setNode_arrs, ctorList_arrs]
    · simp only [useSlot, setNode_blk, ctorList_blk]
    · simp only [useSlot, setNode_next, ctorList_next]
    · simp only [useSlot, setNode_per, ctorList_per]
    · have hperm : (insertAt (st.nodes c).items pos it ++ rest).Perm ((st.nodes c).items ++ it :: rest) := by
        refine ((insertAt_perm _ pos it).append_right rest).trans ?_
        exact (List.perm_middle (l₁ := (st.nodes c).items) (a := it) (l₂ := rest)).symm
      exact hperm.nodup_iff.mpr hnd0
    · intro it'
      simp only [List.mem_append, mem_insertAt, hfree, List.mem_cons]
      constructor
      · rintro ((h1 | h1) | h1)
        · exact Or.inr (Or.inl h1)
        · exact Or.inl h1
        · exact Or.inr (Or.inr h1)
      · rintro (h1 | h1 | h1)
        · exact Or.inl (Or.inr h1)
        · exact Or.inl (Or.inl h1)
        · exact Or.inr h1
    · intro l hl
      simp only [useSlot, setNode_mem, hxs]
      rw [ctorList_mem_other]
      rw [hdst, hdstmem]
      rintro ⟨f, _, rfl⟩
      exact hl ⟨it, f, hitin, rfl⟩
    · intro it' f hi'
      simp only [useSlot, setNode_mem, hxs]
      by_cases he : it' = it
      · subst he
        simp only [mem_insertAt, true_or, true_and]
        constructor
        · intro hm
          by_cases hff : f ∈ c.k.fields
          · exact hff
          · rw [ctorList_mem_other] at hm
            · rw [h.free_dead hitfree f] at hm; cases hm
            · rw [hdst, hdstmem]
              rintro ⟨f', hf', he'⟩
              exact hff ((loc_inj he').2 ▸ hf')
        · intro hff
          apply ctorList_mem_dst _ _ _ (by rw [hdst]; exact hndd) hpx
          rw [hdst, hdstmem]; exact ⟨f, hff, rfl⟩
      · have hnd : it'.loc f ∉ (srcs.map fun (x : Nat × Option Loc × Option Nat) => (it.loc x.1, x.2.1, x.2.2)).map (·.1) := by
          rw [hdst, hdstmem]
          rintro ⟨f', _, he'⟩
          exact he (loc_inj he').1
        rw [ctorList_mem_other _ _ _ hnd]
        simp only [List.mem_append, mem_insertAt] at hi'
        rcases hi' with (h1 | h1) | h1
        · exact absurd h1 he
        · rw [h.item_live_iff h1 f, mem_insertAt]
          exact ⟨fun hff => ⟨Or.inr h1, hff⟩, fun hh => hh.2⟩
        · have hfr : it' ∈ (st.nodes c).free := by rw [hfree]; exact List.mem_cons_of_mem _ h1
          rw [h.free_dead hfr f, mem_insertAt]
          constructor
          · intro hm; cases hm
          · rintro ⟨h2 | h2, _⟩
            · exact absurd h2 he
            · exact absurd rfl ((List.nodup_append.mp (h.slots_nodup c)).2.2 it' h2 it' hfr)
    · intro ha
      have := h.dead_node c ha
      rw [this] at hfree; cases hfree
  · refine Trace.trans (trace_ctorList st _ ?_ ?_ ?_ ?_ ?_) (Trace.of_same rfl rfl rfl rfl)
    · rw [hxs, hdst]; exact hndd
    · intro x hx
      rw [hxs] at hx
      simp only [List.mem_map] at hx
      obtain ⟨y, hy, rfl⟩ := hx
      have hyf : y.1 ∈ c.k.fields := by rw [← hf]; exact List.mem_map_of_mem hy
      have hb := h.blocks_blk c it.b (h.slots_in c it hitin).1
      simp only [chkOf, Chk.slotOk, Item.loc, hb, (h.slots_in c it hitin).2, fields_lt _ _ hyf, decide_true, Bool.and_self]
    · intro x hx
      rw [hxs] at hx
      simp only [List.mem_map] at hx
      obtain ⟨y, hy, rfl⟩ := hx
      exact h.free_dead hitfree y.1
    · rw [hxs]; exact hpx
    · intro x hx s hs'
      rw [hxs] at hx
      simp only [List.mem_map] at hx
      obtain ⟨y, hy, rfl⟩ := hx
      exact hs y hy s hs'

end Nstd.Life

namespace Nstd.Life

theorem SrcLive.of_mem {st st' : State} (hm : st'.mem = st.mem) {s : Loc} (h : SrcLive st s) : SrcLive st' s := by
  unfold SrcLive at *; rw [hm]; exact h

theorem insertNew_ok {st : State} (h : SInv st) (c : Var) (pos : Nat) (srcs : List (Nat × Option Loc × Option Nat))
    (ha : (st.nodes c).alive = true) (hv : c.valid = true)
    (hf : srcs.map (·.1) = c.k.fields)
    (hp : ∀ x, x ∈ srcs → x.2.2.isSome = true)
    (hs : ∀ x, x ∈ srcs → ∀ s, x.2.1 = some s → SrcLive st s) :
    SInv (insertNew st c pos srcs) ∧ Trace st (insertNew st c pos srcs) := by
  -- step 1: the hash table
  obtain ⟨st1, hst1, h1, t1, hm1, ha1⟩ : ∃ st1, st1 = (if c.k.isHash && (st.nodes c).data.isNone then allocData st c else st) ∧
      SInv st1 ∧ Trace st st1 ∧ st1.mem = st.mem ∧ (st1.nodes c).alive = true := by
    refine ⟨_, rfl, ?_⟩
    by_cases hc : (c.k.isHash && (st.nodes c).data.isNone) = true
    · rw [if_pos hc]
      have hd : (st.nodes c).data = none := by
        simp only [Bool.and_eq_true, Option.isNone_iff_eq_none] at hc; exact hc.2
      obtain ⟨i1, t1⟩ := allocData_ok h c hd ha hv
      exact ⟨i1, t1, rfl, by simp [allocData, ha]⟩
    · rw [if_neg hc]
      exact ⟨h, Trace.refl st, rfl, ha⟩
  -- step 2: the item block
  obtain ⟨st2, hst2, h2, t2, hm2, ha2⟩ : ∃ st2, st2 = (if (st1.nodes c).free.isEmpty then allocBlock st1 c else st1) ∧
      SInv st2 ∧ Trace st1 st2 ∧ st2.mem = st1.mem ∧ (st2.nodes c).free ≠ [] := by
    refine ⟨_, rfl, ?_⟩
    by_cases hc : (st1.nodes c).free.isEmpty = true
    · rw [if_pos hc]
      have hfr : (st1.nodes c).free = [] := List.isEmpty_iff.mp hc
      obtain ⟨i2, t2⟩ := allocBlock_ok h1 c hfr ha1 hv
      refine ⟨i2, t2, rfl, ?_⟩
      simp only [allocBlock, setNode_get]
      intro he
      exact newSlots_ne_nil _ _ _ (st1.per.pos c.k) he
    · rw [if_neg hc]
      refine ⟨h1, Trace.refl st1, rfl, ?_⟩
      intro he; rw [he] at hc; exact hc rfl
  have heq : insertNew st c pos srcs =
      (match (st2.nodes c).free with | it :: rest => useSlot st2 c pos it rest srcs | [] => st2) := by
    subst hst2 hst1; rfl
  rw [heq]
  cases hfr : (st2.nodes c).free with
  | nil => exact absurd hfr ha2
  | cons it rest =>
    simp only
    have hs2 : ∀ x, x ∈ srcs → ∀ s, x.2.1 = some s → SrcLive st2 s := by
      intro x hx s hs'
      exact SrcLive.of_mem (hm2.trans hm1) (hs x hx s hs')
    obtain ⟨i3, t3⟩ := useSlot_ok h2 c pos it rest srcs hfr hf hp hs2
    exact ⟨i3, (t1.trans t2).trans t3⟩

end Nstd.Life

namespace Nstd.Life

theorem mapM_fields {P : Option Loc → Option Nat → Prop} (k v : Option (Option Loc × Option Nat))
    (hk : ∀ l p, k = some (l, p) → P l p) (hv : ∀ l p, v = some (l, p) → P l p)
    (fs : List Nat) (srcs : List (Nat × Option Loc × Option Nat))
    (h : fs.mapM (fun f => match (if f = 0 then k else v) with
      | some (l, p) => some (f, l, p)
      | none => none) = some srcs) :
    srcs.map (·.1) = fs ∧ ∀ x, x ∈ srcs → P x.2.1 x.2.2 := by
  induction fs generalizing srcs with
  | nil =>
    simp only [List.mapM_nil, Option.pure_def, Option.some.injEq] at h
    subst h; simp
  | cons f rest ih =>
    simp only [List.mapM_cons, Option.pure_def, Option.bind_eq_bind, Option.bind_eq_some_iff, Option.some.injEq] at h
    obtain ⟨y, hy, ys, hys, rfl⟩ := h
    obtain ⟨ih1, ih2⟩ := ih ys hys
    by_cases hf0 : f = 0
    · simp only [hf0, if_true] at hy
      cases hkk : k with
      | none => rw [hkk] at hy; cases hy
      | some lp =>
        obtain ⟨l, p⟩ := lp
        rw [hkk] at hy
        simp only [Option.some.injEq] at hy
        subst hy
        refine ⟨by simp [ih1, hf0], ?_⟩
        intro x hx
        simp only [List.mem_cons] at hx
        rcases hx with rfl | hx
        · exact hk l p hkk
        · exact ih2 x hx
    · simp only [hf0, if_false] at hy
      cases hvv : v with
      | none => rw [hvv] at hy; cases hy
      | some lp =>
        obtain ⟨l, p⟩ := lp
        rw [hvv] at hy
        simp only [Option.some.injEq] at hy
        subst hy
        refine ⟨by simp [ih1], ?_⟩
        intro x hx
        simp only [List.mem_cons] at hx
        rcases hx with rfl | hx
        · exact hv l p hvv
        · exact ih2 x hx

end Nstd.Life

namespace Nstd.Life

/-- what `resolve_live` gives for a resolved operand -/
def Resolved (st : State) (l : Option Loc) (p : Option Nat) : Prop :=
  p.isSome = true ∧ ∀ s, l = some s → SrcLive st s

theorem resolveOpt_live {st : State} (h : SInv st) (r : Option SrcRef) (x : Option (Option Loc × Option Nat))
    (hr : resolveOpt st r = some x) : ∀ l p, x = some (l, p) → Resolved st l p := by
  intro l p hx
  subst hx
  cases r with
  | none => simp [resolveOpt] at hr
  | some r =>
    simp only [resolveOpt, Option.map_eq_some_iff, Option.some.injEq] at hr
    obtain ⟨y, hy, rfl⟩ := hr
    exact resolve_live h r l p hy

theorem putResolved_ok {st st' : State} (h : SInv st) (c : Var) (p : Nat) (kr vr : Option (Option Loc × Option Nat))
    (srcs : List (Nat × Option Loc × Option Nat))
    (ha : (st.nodes c).alive = true) (hv : c.valid = true)
    (hvr : ∀ l q, vr = some (l, q) → Resolved st l q)
    (hf : srcs.map (·.1) = c.k.fields)
    (hp : ∀ x, x ∈ srcs → Resolved st x.2.1 x.2.2)
    (he : putResolved st c p kr vr srcs = some st') : SInv st' ∧ Trace st st' := by
  have hins : ∀ q, SInv (insertNew st c q srcs) ∧ Trace st (insertNew st c q srcs) :=
    fun q => insertNew_ok h c q srcs ha hv hf (fun x hx => (hp x hx).1) (fun x hx => (hp x hx).2)
  unfold putResolved at he
  by_cases hk : c.k.hasKey = true
  · simp only [hk, if_true] at he
    cases kr with
    | none => simp at he
    | some kk =>
      obtain ⟨kl, kp⟩ := kk
      cases kp with
      | none => simp at he
      | some kp =>
        simp only at he
        by_cases hU : c.k = .U
        · simp only [hU, if_true, Option.some.injEq] at he
          subst he; exact hins _
        · simp only [hU, if_false] at he
          cases hfind : findField st 0 kp (st.nodes c).items with
          | none =>
            simp only [hfind, Option.some.injEq] at he
            subst he; exact hins _
          | some j =>
            simp only [hfind] at he
            by_cases hMH : c.k = .M ∨ c.k = .H
            · simp only [hMH, if_true] at he
              cases hj : (st.nodes c).items[j]? with
              | none => simp [hj] at he
              | some it =>
                simp only [hj] at he
                cases vr with
                | none => simp [putAssign] at he
                | some vv =>
                  obtain ⟨vl, vp⟩ := vv
                  cases vl with
                  | none => simp [putAssign] at he
                  | some vl =>
                    simp only [putAssign, Option.some.injEq] at he
                    subst he
                    obtain ⟨hvp, hvs⟩ := hvr (some vl) vp rfl
                    have h1f : 1 ∈ c.k.fields := by
                      rcases hMH with hM | hH
                      · rw [hM]; simp [Kind.fields]
                      · rw [hH]; simp [Kind.fields]
                    have hlive := h.items_live c it 1 (List.mem_of_getElem? hj) h1f
                    refine ⟨h.of_same_live rfl rfl rfl rfl ?_, trace_assign st _ vl vp hlive (hvs vl rfl) hvp⟩
                    intro l
                    simp only [assign_mem, upd]
                    by_cases hl : l = it.loc 1
                    · simp only [hl, if_true, hvp, hlive]
                    · simp only [hl, if_false]
            · simp only [hMH, if_false, Option.some.injEq] at he
              subst he; exact ⟨h, Trace.refl _⟩
  · simp only [hk, Bool.false_eq_true, if_false, Option.some.injEq] at he
    subst he; exact hins _

theorem put_ok {st st' : State} (h : SInv st) (c : Var) (pos : Option Nat) (k v : Option SrcRef) (hv : c.valid = true)
    (he : exec' st (.put c pos k v) = some st') : SInv st' ∧ Trace st st' := by
  simp only [exec'] at he
  by_cases ha : (st.nodes c).alive = true
  · simp only [ha, Bool.not_true, Bool.false_eq_true, if_false] at he
    cases hkr : resolveOpt st k with
    | none => simp [hkr] at he
    | some kr =>
      simp only [hkr] at he
      cases hvr : resolveOpt st v with
      | none => simp [hvr] at he
      | some vr =>
        simp only [hvr] at he
        cases hsr : fieldSrcs c.k kr vr with
        | none => simp [hsr] at he
        | some srcs =>
          simp only [hsr] at he
          by_cases hpos : pos.getD (st.nodes c).items.length > (st.nodes c).items.length
          · simp [hpos] at he
          · simp only [hpos, if_false] at he
            have hm := mapM_fields (P := Resolved st) kr vr (resolveOpt_live h k kr hkr) (resolveOpt_live h v vr hvr)
              c.k.fields srcs hsr
            exact putResolved_ok h c _ kr vr srcs ha hv (resolveOpt_live h v vr hvr) hm.1 hm.2 he
  · simp [ha] at he

end Nstd.Life
