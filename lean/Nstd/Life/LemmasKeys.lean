import Nstd.Life.LemmasCopy
/-
  F2: the keys of the keyed containers stay sorted (Map strictly, MultiMap weakly) resp. pairwise
  distinct (HashMap, HashSet, PoolMap) in every reachable state.
-/
namespace Nstd.Life.Copy
open Nstd.Life

def keysOf (st : State) (c : Var) : List (Option Nat) := (st.nodes c).items.map (keyOf st)

def LtK (a b : Option Nat) : Prop := ∃ x y, a = some x ∧ b = some y ∧ x < y
def LeK (a b : Option Nat) : Prop := ∃ x y, a = some x ∧ b = some y ∧ x ≤ y

def KeysOk (st : State) : Prop :=
  ∀ c : Var, (c.k = .M → (keysOf st c).Pairwise (fun a b => ∃ x y, a = some x ∧ b = some y ∧ x < y)) ∧
             (c.k = .U → (keysOf st c).Pairwise (fun a b => ∃ x y, a = some x ∧ b = some y ∧ x ≤ y)) ∧
             ((c.k = .H ∨ c.k = .S ∨ c.k = .Q) → (keysOf st c).Nodup)

theorem items_nodup' {st : State} (h : SInv st) (c : Var) : (st.nodes c).items.Nodup :=
  (List.nodup_append.mp (h.slots_nodup c)).1

-- list facts ---------------------------------------------------------------------------------------------------

/-- `countWhile` on the key list -/
def cw (pr : Nat → Bool) : List (Option Nat) → Nat
  | [] => 0
  | some k :: rest => if pr k then cw pr rest + 1 else 0
  | none :: _ => 0

theorem countWhile_eq (st : State) (pr : Nat → Bool) (items : List Item) :
    countWhile st pr items = cw pr (items.map (keyOf st)) := by
  induction items with
  | nil => rfl
  | cons it rest ih =>
    simp only [countWhile, List.map_cons]
    cases hk : keyOf st it with
    | none => simp [cw]
    | some k => simp only [cw, ih]

theorem findField_none (st : State) (p : Nat) (items : List Item) (h : findField st 0 p items = none) :
    some p ∉ items.map (keyOf st) := by
  induction items with
  | nil => simp
  | cons it rest ih =>
    simp only [findField] at h
    by_cases hc : st.mem (it.loc 0) = some p
    · simp [hc] at h
    · simp only [hc, if_false, Option.map_eq_none_iff] at h
      simp only [List.map_cons, List.mem_cons, not_or]
      exact ⟨fun e => hc e.symm, ih h⟩

theorem insertAt_zero {α : Type} (l : List α) (x : α) : insertAt l 0 x = x :: l := by simp [insertAt]

theorem insertAt_succ {α : Type} (a : α) (l : List α) (q : Nat) (x : α) :
    insertAt (a :: l) (q + 1) x = a :: insertAt l q x := by simp [insertAt]

/-- inserting at the position `cw pr` keeps a list sorted with respect to R -/
theorem insert_sorted (R : Option Nat → Option Nat → Prop) (pr : Nat → Bool) (x : Option Nat) :
    ∀ (l : List (Option Nat)), (∀ a, a ∈ l → ∃ k, a = some k) →
    (∀ k, some k ∈ l → pr k = true → R (some k) x) → (∀ k, some k ∈ l → pr k = false → R x (some k)) →
    (∀ a b, R x a → R a b → R x b) → l.Pairwise R → (insertAt l (cw pr l) x).Pairwise R
  | [], _, _, _, _, _ => by simp [insertAt, cw]
  | a :: rest, hsome, h1, h2, htr, hp => by
    obtain ⟨k, rfl⟩ := hsome a (by simp)
    rw [List.pairwise_cons] at hp
    by_cases hk : pr k = true
    · simp only [cw, hk, if_true, insertAt_succ]
      rw [List.pairwise_cons]
      constructor
      · intro b hb
        rcases (mem_insertAt _ _ _ _).mp hb with rfl | hb
        · exact h1 k (by simp) hk
        · exact hp.1 b hb
      · exact insert_sorted R pr x rest (fun a ha => hsome a (by simp [ha]))
          (fun k' hk' => h1 k' (by simp [hk'])) (fun k' hk' => h2 k' (by simp [hk'])) htr hp.2
    · have hk' : pr k = false := by simpa using hk
      simp only [cw, hk', Bool.false_eq_true, if_false, insertAt_zero]
      rw [List.pairwise_cons]
      refine ⟨?_, List.pairwise_cons.mpr hp⟩
      intro b hb
      simp only [List.mem_cons] at hb
      rcases hb with rfl | hb
      · exact h2 k (by simp) hk'
      · exact htr _ _ (h2 k (by simp) hk') (hp.1 b hb)

theorem ctorList_mem_val (st : State) (xs : List (Loc × Option Loc × Option Nat)) (hn : (xs.map (·.1)).Nodup)
    (x : Loc × Option Loc × Option Nat) (hx : x ∈ xs) : (st.ctorList xs).mem x.1 = x.2.2 := by
  induction xs generalizing st with
  | nil => cases hx
  | cons a rest ih =>
    obtain ⟨d, s, p⟩ := a
    simp only [List.map_cons, List.nodup_cons] at hn
    simp only [State.ctorList]
    simp only [List.mem_cons] at hx
    rcases hx with rfl | hx
    · rw [ctorList_mem_other _ _ _ hn.1]; simp [upd]
    · exact ih _ hn.2 hx

/-- the inserted item and what its member objects hold -/
theorem insertNew_full (s : State) (c : Var) (pos : Nat) (srcs : List (Nat × Option Loc × Option Nat))
    (hnd : (srcs.map (·.1)).Nodup) :
    ∃ it, ((insertNew s c pos srcs).nodes c).items = insertAt (s.nodes c).items pos it ∧
      ∀ x, x ∈ srcs → (insertNew s c pos srcs).mem (it.loc x.1) = x.2.2 := by
  obtain ⟨st1, hst1, i1⟩ : ∃ st1, st1 = (if c.k.isHash && (s.nodes c).data.isNone then allocData s c else s) ∧
      (st1.nodes c).items = (s.nodes c).items := by
    refine ⟨_, rfl, ?_⟩
    by_cases hc : (c.k.isHash && (s.nodes c).data.isNone) = true
    · rw [if_pos hc]; simp only [allocData, setNode_get]
    · rw [if_neg hc]
  obtain ⟨st2, hst2, i2, f2⟩ : ∃ st2, st2 = (if (st1.nodes c).free.isEmpty then allocBlock st1 c else st1) ∧
      (st2.nodes c).items = (st1.nodes c).items ∧ (st2.nodes c).free ≠ [] := by
    refine ⟨_, rfl, ?_⟩
    by_cases hc : (st1.nodes c).free.isEmpty = true
    · rw [if_pos hc]
      refine ⟨by simp only [allocBlock, setNode_get], ?_⟩
      simp only [allocBlock, setNode_get]
      intro he
      have := (newSlots_mem c.k st1.next ⟨st1.next, 0⟩).mpr ⟨rfl, Nat.zero_lt_succ 3⟩
      rw [he] at this; cases this
    · rw [if_neg hc]
      exact ⟨rfl, fun he => by rw [he] at hc; exact hc rfl⟩
  have heq : insertNew s c pos srcs =
      (match (st2.nodes c).free with | it :: rest => useSlot st2 c pos it rest srcs | [] => st2) := by
    subst hst2 hst1; rfl
  rw [heq]
  cases hfr : (st2.nodes c).free with
  | nil => exact absurd hfr f2
  | cons it rest =>
    refine ⟨it, ?_, ?_⟩
    · simp only [useSlot, setNode_get]; rw [i2, i1]
    · intro x hx
      simp only [useSlot, setNode_mem]
      have hnd' : ((srcs.map fun (y : Nat × Option Loc × Option Nat) => (it.loc y.1, y.2.1, y.2.2)).map (·.1)).Nodup := by
        rw [List.map_map]
        have : ((fun (z : Loc × Option Loc × Option Nat) => z.1) ∘
            fun (y : Nat × Option Loc × Option Nat) => (it.loc y.1, y.2.1, y.2.2)) = (fun f => it.loc f) ∘ (·.1) := by
          funext y; rfl
        rw [this, ← List.map_map]
        exact Arr.nodup_map_inj _ (fun a b e => (loc_inj e).2) _ hnd
      exact ctorList_mem_val st2 _ hnd' (it.loc x.1, x.2.1, x.2.2) (List.mem_map.mpr ⟨x, hx, rfl⟩)

-- the steps that add no key ---------------------------------------------------------------------------------------

theorem keysOk_of_sublist {st st' : State} (hk : KeysOk st)
    (hsub : ∀ c', ∃ c'', c''.k = c'.k ∧ (keysOf st' c').Sublist (keysOf st c'')) : KeysOk st' := by
  intro c'
  obtain ⟨c'', hkk, hs⟩ := hsub c'
  obtain ⟨h1, h2, h3⟩ := hk c''
  rw [hkk] at h1 h2 h3
  exact ⟨fun e => (h1 e).sublist hs, fun e => (h2 e).sublist hs, fun e => (h3 e).sublist hs⟩

theorem keys_sublist {st st' : State} {c' c'' : Var} (hs : (st'.nodes c').items.Sublist (st.nodes c'').items)
    (hkeys : ∀ it, it ∈ (st'.nodes c').items → st'.mem (it.loc 0) = st.mem (it.loc 0)) :
    (keysOf st' c').Sublist (keysOf st c'') := by
  unfold keysOf
  have : (st'.nodes c').items.map (keyOf st') = (st'.nodes c').items.map (keyOf st) := by
    apply List.map_congr_left
    intro it hit
    exact hkeys it hit
  rw [this]
  exact hs.map _

theorem nodup_eraseIdx_not_mem {α : Type} {l : List α} {j : Nat} {a : α} (hn : l.Nodup) (hj : l[j]? = some a) :
    a ∉ l.eraseIdx j := by
  have hP := NodeA.perm_eraseIdx ([] : List α) l j a hj
  rw [List.append_nil] at hP
  have hnd := hP.nodup_iff.mpr hn
  intro hx
  exact (List.nodup_append.mp hnd).2.2 a hx a (by simp) rfl

/-- the items of every container after a step other than put / swap: a sublist of the items before, none of
    them one the step is meant to remove -/
theorem items_shape {st st' : State} (h : SInv st) (m : Micro) (he : exec' st m = some st')
    (hput : ∀ c p k v, m ≠ .put c p k v) (hswap : ∀ c d, m ≠ .swap c d) (c' : Var) :
    (st'.nodes c').items.Sublist (st.nodes c').items ∧ ∀ it, it ∈ (st'.nodes c').items → ¬ m.removes st c' it := by
  obtain ⟨evs, sm⟩ := Stable.exec_sum m he
  have hother : c' ∉ m.nodeTargets →
      (st'.nodes c').items.Sublist (st.nodes c').items ∧ ∀ it, it ∈ (st'.nodes c').items → ¬ m.removes st c' it := by
    intro hc
    rw [sm.fnode c' hc]
    exact ⟨List.Sublist.refl _, fun it _ hr => hc (Stable.removes_target hr)⟩
  have hrm : ∀ c0 j it0, (st.nodes c0).items[j]? = some it0 →
      ((removeAt st c0 j it0).nodes c0).items.Sublist (st.nodes c0).items ∧
      ∀ it, it ∈ ((removeAt st c0 j it0).nodes c0).items → ¬ (st.nodes c0).items[j]? = some it := by
    intro c0 j it0 hj
    simp only [removeAt, setNode_get]
    refine ⟨List.eraseIdx_sublist _ _, ?_⟩
    intro it hit hj'
    exact nodup_eraseIdx_not_mem (Copy.items_nodup' h c0) hj' hit
  cases m with
  | put c p k v => exact absurd rfl (hput c p k v)
  | swap c d => exact absurd rfl (hswap c d)
  | assignVal c j src =>
    by_cases hc : c' = c
    · subst hc
      refine ⟨?_, fun _ _ hr => hr⟩
      simp only [exec'] at he
      by_cases hf : 1 ∈ c'.k.fields
      · cases hj : (st.nodes c').items[j]? with
        | none => simp [hf, hj] at he
        | some it =>
          cases hr : resolve st src with
          | none => simp [hf, hj, hr] at he
          | some lp =>
            obtain ⟨l, p⟩ := lp
            cases l with
            | none => simp [hf, hj, hr] at he
            | some l => simp [hf, hj, hr] at he; subst he; exact List.Sublist.refl _
      · simp [hf] at he
    · exact hother (by simp [Micro.nodeTargets, hc])
  | remove c j =>
    by_cases hc : c' = c
    · subst hc
      simp only [exec'] at he
      cases hj : (st.nodes c').items[j]? with
      | none => simp [hj] at he
      | some it0 =>
        simp [hj] at he
        subst he
        obtain ⟨h1, h2⟩ := hrm c' j it0 hj
        exact ⟨h1, fun it hit hr => h2 it hit hr.2⟩
    · exact hother (by simp [Micro.nodeTargets, hc])
  | removeKey c k =>
    by_cases hc : c' = c
    · subst hc
      simp only [exec'] at he
      cases hp : k.payload st with
      | none => simp [hp] at he
      | some kp =>
        cases hf : findField st 0 kp (st.nodes c').items with
        | none =>
          simp [hp, hf] at he; subst he
          refine ⟨List.Sublist.refl _, ?_⟩
          rintro it _ ⟨_, kp', j', h1, h2, _⟩
          rw [hp] at h1; cases h1; rw [hf] at h2; cases h2
        | some j =>
          cases hj : (st.nodes c').items[j]? with
          | none => simp [hp, hf, hj] at he
          | some it0 =>
            simp [hp, hf, hj] at he
            subst he
            obtain ⟨h1, h2⟩ := hrm c' j it0 hj
            refine ⟨h1, ?_⟩
            rintro it hit ⟨_, kp', j', e1, e2, e3⟩
            rw [hp] at e1; cases e1; rw [hf] at e2; cases e2
            exact h2 it hit e3
    · exact hother (by simp [Micro.nodeTargets, hc])
  | removeVal c k =>
    by_cases hc : c' = c
    · subst hc
      simp only [exec'] at he
      cases hp : k.payload st with
      | none => simp [hp] at he
      | some kp =>
        cases hf : findField st 1 kp (st.nodes c').items with
        | none =>
          simp [hp, hf] at he; subst he
          refine ⟨List.Sublist.refl _, ?_⟩
          rintro it _ ⟨_, kp', j', h1, h2, _⟩
          rw [hp] at h1; cases h1; rw [hf] at h2; cases h2
        | some j =>
          cases hj : (st.nodes c').items[j]? with
          | none => simp [hp, hf, hj] at he
          | some it0 =>
            simp [hp, hf, hj] at he
            subst he
            obtain ⟨h1, h2⟩ := hrm c' j it0 hj
            refine ⟨h1, ?_⟩
            rintro it hit ⟨_, kp', j', e1, e2, e3⟩
            rw [hp] at e1; cases e1; rw [hf] at e2; cases e2
            exact h2 it hit e3
    · exact hother (by simp [Micro.nodeTargets, hc])
  | clear c =>
    by_cases hc : c' = c
    · subst hc
      have : (st'.nodes c').items = [] := by
        simp only [exec'] at he
        cases hA : (st.nodes c').alive with
        | false => simp [hA] at he
        | true =>
          have hg : ¬ ((!(st.nodes c').alive) = true) := by simp [hA]
          rw [if_neg hg] at he
          have he := Option.some.inj he
          subst he; simp
      rw [this]
      exact ⟨List.nil_sublist _, fun _ hit => by cases hit⟩
    · exact hother (by simp [Micro.nodeTargets, hc])
  | destroy c =>
    by_cases hc : c' = c
    · subst hc
      have : (st'.nodes c').items = [] := by
        simp only [exec'] at he
        cases hA : (st.nodes c').alive with
        | false => simp [hA] at he
        | true =>
          have hg : ¬ ((!(st.nodes c').alive) = true) := by simp [hA]
          rw [if_neg hg] at he
          have he := Option.some.inj he
          subst he; simp
      rw [this]
      exact ⟨List.nil_sublist _, fun _ hit => by cases hit⟩
    · exact hother (by simp [Micro.nodeTargets, hc])
  | create c =>
    by_cases hc : c' = c
    · subst hc
      have : (st'.nodes c').items = [] := by
        simp only [exec'] at he
        cases hA : (st.nodes c').alive with
        | true => simp [hA] at he
        | false =>
          have hg : ¬ ((st.nodes c').alive = true) := by simp [hA]
          rw [if_neg hg] at he
          have he := Option.some.inj he
          subst he; simp
      rw [this]
      exact ⟨List.nil_sublist _, fun _ hit => by cases hit⟩
    · exact hother (by simp [Micro.nodeTargets, hc])
  | aReserve a n => exact hother (by simp [Micro.nodeTargets])
  | aPush a src => exact hother (by simp [Micro.nodeTargets])
  | aTruncate a n => exact hother (by simp [Micro.nodeTargets])
  | aAssign a j src => exact hother (by simp [Micro.nodeTargets])
  | aRemove a j => exact hother (by simp [Micro.nodeTargets])
  | aDestroy a => exact hother (by simp [Micro.nodeTargets])
  | aCreate a cap => exact hother (by simp [Micro.nodeTargets])
  | aSwap a b => exact hother (by simp [Micro.nodeTargets])

end Nstd.Life.Copy
