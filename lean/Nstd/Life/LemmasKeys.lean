import Nstd.Life.LemmasCopy
/-
  F2: the keys of the keyed containers stay sorted (Map strictly, MultiMap weakly) resp. pairwise
  distinct (HashMap, HashSet, PoolMap) in every reachable state.
-/
namespace Nstd.Life.Copy
open Nstd.Life

def keysOf (st : State) (c : Var) : List (Option Nat) := (st.nodes c).items.map (keyOf st)

def LtK (a b : Option Nat) : Prop := ∃ x y, a = some x ∧ b = some y ∧ x < y
def LeK (a b : Option Nat) : Prop := ∃ x y, a = some x ∧ b = some y ∧ x ≤ y

def KeysOk (st : State) : Prop :=
  ∀ c : Var, (c.k = .M → (keysOf st c).Pairwise (fun a b => ∃ x y, a = some x ∧ b = some y ∧ x < y)) ∧
             (c.k = .U → (keysOf st c).Pairwise (fun a b => ∃ x y, a = some x ∧ b = some y ∧ x ≤ y)) ∧
             ((c.k = .H ∨ c.k = .S ∨ c.k = .Q) → (keysOf st c).Nodup)

theorem items_nodup' {st : State} (h : SInv st) (c : Var) : (st.nodes c).items.Nodup :=
  (List.nodup_append.mp (h.slots_nodup c)).1

-- list facts ---------------------------------------------------------------------------------------------------

/-- `countWhile` on the key list -/
def cw (pr : Nat → Bool) : List (Option Nat) → Nat
  | [] => 0
  | some k :: rest => if pr k then cw pr rest + 1 else 0
  | none :: _ => 0

theorem countWhile_eq (st : State) (pr : Nat → Bool) (items : List Item) :
    countWhile st pr items = cw pr (items.map (keyOf st)) := by
  induction items with
  | nil => rfl
  | cons it rest ih =>
    simp only [countWhile, List.map_cons]
    cases hk : keyOf st it with
    | none => simp [cw]
    | some k => simp only [cw, ih]

theorem findField_none (st : State) (p : Nat) (items : List Item) (h : findField st 0 p items = none) :
    some p ∉ items.map (keyOf st) := by
  induction items with
  | nil => simp
  | cons it rest ih =>
    simp only [findField] at h
    by_cases hc : st.mem (it.loc 0) = some p
    · simp [hc] at h
    · simp only [hc, if_false, Option.map_eq_none_iff] at h
      simp only [List.map_cons, List.mem_cons, not_or]
      exact ⟨fun e => hc e.symm, ih h⟩

theorem insertAt_zero {α : Type} (l : List α) (x : α) : insertAt l 0 x = x :: l := by simp [insertAt]

theorem insertAt_succ {α : Type} (a : α) (l : List α) (q : Nat) (x : α) :
    insertAt (a :: l) (q + 1) x = a :: insertAt l q x := by simp [insertAt]

/-- inserting at the position `cw pr` keeps a list sorted with respect to R -/
theorem insert_sorted (R : Option Nat → Option Nat → Prop) (pr : Nat → Bool) (x : Option Nat) :
    ∀ (l : List (Option Nat)), (∀ a, a ∈ l → ∃ k, a = some k) →
    (∀ k, some k ∈ l → pr k = true → R (some k) x) → (∀ k, some k ∈ l → pr k = false → R x (some k)) →
    (∀ a b, R x a → R a b → R x b) → l.Pairwise R → (insertAt l (cw pr l) x).Pairwise R
  | [], _, _, _, _, _ => by simp [insertAt, cw]
  | a :: rest, hsome, h1, h2, htr, hp => by
    obtain ⟨k, rfl⟩ := hsome a (by simp)
    rw [List.pairwise_cons] at hp
    by_cases hk : pr k = true
    · simp only [cw, hk, if_true, insertAt_succ]
      rw [List.pairwise_cons]
      constructor
      · intro b hb
        rcases (mem_insertAt _ _ _ _).mp hb with rfl | hb
        · exact h1 k (by simp) hk
        · exact hp.1 b hb
      · exact insert_sorted R pr x rest (fun a ha => hsome a (by simp [ha]))
          (fun k' hk' => h1 k' (by simp [hk'])) (fun k' hk' => h2 k' (by simp [hk'])) htr hp.2
    · have hk' : pr k = false := by simpa using hk
      simp only [cw, hk', Bool.false_eq_true, if_false, insertAt_zero]
      rw [List.pairwise_cons]
      refine ⟨?_, List.pairwise_cons.mpr hp⟩
      intro b hb
      simp only [List.mem_cons] at hb
      rcases hb with rfl | hb
      · exact h2 k (by simp) hk'
      · exact htr _ _ (h2 k (by simp) hk') (hp.1 b hb)

theorem ctorList_mem_val (st : State) (xs : List (Loc × Option Loc × Option Nat)) (hn : (xs.map (·.1)).Nodup)
    (x : Loc × Option Loc × Option Nat) (hx : x ∈ xs) : (st.ctorList xs).mem x.1 = x.2.2 := by
  induction xs generalizing st with
  | nil => cases hx
  | cons a rest ih =>
    obtain ⟨d, s, p⟩ := a
    simp only [List.map_cons, List.nodup_cons] at hn
    simp only [State.ctorList]
    simp only [List.mem_cons] at hx
    rcases hx with rfl | hx
    · rw [ctorList_mem_other _ _ _ hn.1]; simp [upd]
    · exact ih _ hn.2 hx

/-- the inserted item and what its member objects hold -/
theorem insertNew_full (s : State) (c : Var) (pos : Nat) (srcs : List (Nat × Option Loc × Option Nat))
    (hnd : (srcs.map (·.1)).Nodup) :
    ∃ it, ((insertNew s c pos srcs).nodes c).items = insertAt (s.nodes c).items pos it ∧
      ∀ x, x ∈ srcs → (insertNew s c pos srcs).mem (it.loc x.1) = x.2.2 := by
  obtain ⟨st1, hst1, i1⟩ : ∃ st1, st1 = (if c.k.isHash && (s.nodes c).data.isNone then allocData s c else s) ∧
      (st1.nodes c).items = (s.nodes c).items := by
    refine ⟨_, rfl, ?_⟩
    by_cases hc : (c.k.isHash && (s.nodes c).data.isNone) = true
    · rw [if_pos hc]; simp only [allocData, setNode_get]
    · rw [if_neg hc]
  obtain ⟨st2, hst2, i2, f2⟩ : ∃ st2, st2 = (if (st1.nodes c).free.isEmpty then allocBlock st1 c else st1) ∧
      (st2.nodes c).items = (st1.nodes c).items ∧ (st2.nodes c).free ≠ [] := by
    refine ⟨_, rfl, ?_⟩
    by_cases hc : (st1.nodes c).free.isEmpty = true
    · rw [if_pos hc]
      refine ⟨by simp only [allocBlock, setNode_get], ?_⟩
      simp only [allocBlock, setNode_get]
      intro he
      exact newSlots_ne_nil _ _ _ (st1.per.pos c.k) he
    · rw [if_neg hc]
      exact ⟨rfl, fun he => by rw [he] at hc; exact hc rfl⟩
  have heq : insertNew s c pos srcs =
      (match (st2.nodes c).free with | it :: rest => useSlot st2 c pos it rest srcs | [] => st2) := by
    subst hst2 hst1; rfl
  rw [heq]
  cases hfr : (st2.nodes c).free with
  | nil => exact absurd hfr f2
  | cons it rest =>
    refine ⟨it, ?_, ?_⟩
    · simp only [useSlot, setNode_get]; rw [i2, i1]
    · intro x hx
      simp only [useSlot, setNode_mem]
      have hnd' : ((srcs.map fun (y : Nat × Option Loc × Option Nat) => (it.loc y.1, y.2.1, y.2.2)).map (·.1)).Nodup := by
        rw [List.map_map]
        have : ((fun (z : Loc × Option Loc × Option Nat) => z.1) ∘
            fun (y : Nat × Option Loc × Option Nat) => (it.loc y.1, y.2.1, y.2.2)) = (fun f => it.loc f) ∘ (·.1) := by
          funext y; rfl
        rw [this, ← List.map_map]
        exact Arr.nodup_map_inj _ (fun a b e => (loc_inj e).2) _ hnd
      exact ctorList_mem_val st2 _ hnd' (it.loc x.1, x.2.1, x.2.2) (List.mem_map.mpr ⟨x, hx, rfl⟩)

-- the steps that add no key ---------------------------------------------------------------------------------------

theorem keysOk_of_sublist {st st' : State} (hk : KeysOk st)
    (hsub : ∀ c', ∃ c'', c''.k = c'.k ∧ (keysOf st' c').Sublist (keysOf st c'')) : KeysOk st' := by
  intro c'
  obtain ⟨c'', hkk, hs⟩ := hsub c'
  obtain ⟨h1, h2, h3⟩ := hk c''
  rw [hkk] at h1 h2 h3
  exact ⟨fun e => (h1 e).sublist hs, fun e => (h2 e).sublist hs, fun e => (h3 e).sublist hs⟩

theorem keys_sublist {st st' : State} {c' c'' : Var} (hs : (st'.nodes c').items.Sublist (st.nodes c'').items)
    (hkeys : ∀ it, it ∈ (st'.nodes c').items → st'.mem (it.loc 0) = st.mem (it.loc 0)) :
    (keysOf st' c').Sublist (keysOf st c'') := by
  unfold keysOf
  have : (st'.nodes c').items.map (keyOf st') = (st'.nodes c').items.map (keyOf st) := by
    apply List.map_congr_left
    intro it hit
    exact hkeys it hit
  rw [this]
  exact hs.map _

theorem nodup_eraseIdx_not_mem {α : Type} {l : List α} {j : Nat} {a : α} (hn : l.Nodup) (hj : l[j]? = some a) :
    a ∉ l.eraseIdx j := by
  have hP := NodeA.perm_eraseIdx ([] : List α) l j a hj
  rw [List.append_nil] at hP
  have hnd := hP.nodup_iff.mpr hn
  intro hx
  exact (List.nodup_append.mp hnd).2.2 a hx a (by simp) rfl

/-- the items of every container after a step other than put / swap: a sublist of the items before, none of
    them one the step is meant to remove -/
theorem items_shape {st st' : State} (h : SInv st) (m : Micro) (he : exec' st m = some st')
    (hput : ∀ c p k v, m ≠ .put c p k v) (hswap : ∀ c d, m ≠ .swap c d) (c' : Var) :
    (st'.nodes c').items.Sublist (st.nodes c').items ∧ ∀ it, it ∈ (st'.nodes c').items → ¬ m.removes st c' it := by
  obtain ⟨evs, sm⟩ := Stable.exec_sum m he
  have hother : c' ∉ m.nodeTargets →
      (st'.nodes c').items.Sublist (st.nodes c').items ∧ ∀ it, it ∈ (st'.nodes c').items → ¬ m.removes st c' it := by
    intro hc
    rw [sm.fnode c' hc]
    exact ⟨List.Sublist.refl _, fun it _ hr => hc (Stable.removes_target hr)⟩
  have hrm : ∀ c0 j it0, (st.nodes c0).items[j]? = some it0 →
      ((removeAt st c0 j it0).nodes c0).items.Sublist (st.nodes c0).items ∧
      ∀ it, it ∈ ((removeAt st c0 j it0).nodes c0).items → ¬ (st.nodes c0).items[j]? = some it := by
    intro c0 j it0 hj
    simp only [removeAt, setNode_get]
    refine ⟨List.eraseIdx_sublist _ _, ?_⟩
    intro it hit hj'
    exact nodup_eraseIdx_not_mem (Copy.items_nodup' h c0) hj' hit
  cases m with
  | put c p k v => exact absurd rfl (hput c p k v)
  | swap c d => exact absurd rfl (hswap c d)
  | assignVal c j src =>
    by_cases hc : c' = c
    · subst hc
      refine ⟨?_, fun _ _ hr => hr⟩
      simp only [exec'] at he
      by_cases hf : 1 ∈ c'.k.fields
      · cases hj : (st.nodes c').items[j]? with
        | none => simp [hf, hj] at he
        | some it =>
          cases hr : resolve st src with
          | none => simp [hf, hj, hr] at he
          | some lp =>
            obtain ⟨l, p⟩ := lp
            cases l with
            | none => simp [hf, hj, hr] at he
            | some l => simp [hf, hj, hr] at he; subst he; exact List.Sublist.refl _
      · simp [hf] at he
    · exact hother (by simp [Micro.nodeTargets, hc])
  | remove c j =>
    by_cases hc : c' = c
    · subst hc
      simp only [exec'] at he
      cases hj : (st.nodes c').items[j]? with
      | none => simp [hj] at he
      | some it0 =>
        simp [hj] at he
        subst he
        obtain ⟨h1, h2⟩ := hrm c' j it0 hj
        exact ⟨h1, fun it hit hr => h2 it hit hr.2⟩
    · exact hother (by simp [Micro.nodeTargets, hc])
  | removeKey c k =>
    by_cases hc : c' = c
    · subst hc
      simp only [exec'] at he
      cases hp : k.payload st with
      | none => simp [hp] at he
      | some kp =>
        cases hf : findField st 0 kp (st.nodes c').items with
        | none =>
          simp [hp, hf] at he; subst he
          refine ⟨List.Sublist.refl _, ?_⟩
          rintro it _ ⟨_, kp', j', h1, h2, _⟩
          rw [hp] at h1; cases h1; rw [hf] at h2; cases h2
        | some j =>
          cases hj : (st.nodes c').items[j]? with
          | none => simp [hp, hf, hj] at he
          | some it0 =>
            simp [hp, hf, hj] at he
            subst he
            obtain ⟨h1, h2⟩ := hrm c' j it0 hj
            refine ⟨h1, ?_⟩
            rintro it hit ⟨_, kp', j', e1, e2, e3⟩
            rw [hp] at e1; cases e1; rw [hf] at e2; cases e2
            exact h2 it hit e3
    · exact hother (by simp [Micro.nodeTargets, hc])
  | removeVal c k =>
    by_cases hc : c' = c
    · subst hc
      simp only [exec'] at he
      cases hp : k.payload st with
      | none => simp [hp] at he
      | some kp =>
        cases hf : findField st 1 kp (st.nodes c').items with
        | none =>
          simp [hp, hf] at he; subst he
          refine ⟨List.Sublist.refl _, ?_⟩
          rintro it _ ⟨_, kp', j', h1, h2, _⟩
          rw [hp] at h1; cases h1; rw [hf] at h2; cases h2
        | some j =>
          cases hj : (st.nodes c').items[j]? with
          | none => simp [hp, hf, hj] at he
          | some it0 =>
            simp [hp, hf, hj] at he
            subst he
            obtain ⟨h1, h2⟩ := hrm c' j it0 hj
            refine ⟨h1, ?_⟩
            rintro it hit ⟨_, kp', j', e1, e2, e3⟩
            rw [hp] at e1; cases e1; rw [hf] at e2; cases e2
            exact h2 it hit e3
    · exact hother (by simp [Micro.nodeTargets, hc])
  | clear c =>
    by_cases hc : c' = c
    · subst hc
      have : (st'.nodes c').items = [] := by
        simp only [exec'] at he
        cases hA : (st.nodes c').alive with
        | false => simp [hA] at he
        | true =>
          have hg : ¬ ((!(st.nodes c').alive) = true) := by simp [hA]
          rw [if_neg hg] at he
          have he := Option.some.inj he
          subst he; simp
      rw [this]
      exact ⟨List.nil_sublist _, fun _ hit => by cases hit⟩
    · exact hother (by simp [Micro.nodeTargets, hc])
  | destroy c =>
    by_cases hc : c' = c
    · subst hc
      have : (st'.nodes c').items = [] := by
        simp only [exec'] at he
        cases hA : (st.nodes c').alive with
        | false => simp [hA] at he
        | true =>
          have hg : ¬ ((!(st.nodes c').alive) = true) := by simp [hA]
          rw [if_neg hg] at he
          have he := Option.some.inj he
          subst he; simp
      rw [this]
      exact ⟨List.nil_sublist _, fun _ hit => by cases hit⟩
    · exact hother (by simp [Micro.nodeTargets, hc])
  | create c =>
    by_cases hc : c' = c
    · subst hc
      have : (st'.nodes c').items = [] := by
        simp only [exec'] at he
        cases hA : (st.nodes c').alive with
        | true => simp [hA] at he
        | false =>
          have hg : ¬ ((st.nodes c').alive = true) := by simp [hA]
          rw [if_neg hg] at he
          have he := Option.some.inj he
          subst he; simp
      rw [this]
      exact ⟨List.nil_sublist _, fun _ hit => by cases hit⟩
    · exact hother (by simp [Micro.nodeTargets, hc])
  | aReserve a n => exact hother (by simp [Micro.nodeTargets])
  | aPush a src => exact hother (by simp [Micro.nodeTargets])
  | aTruncate a n => exact hother (by simp [Micro.nodeTargets])
  | aAssign a j src => exact hother (by simp [Micro.nodeTargets])
  | aRemove a j => exact hother (by simp [Micro.nodeTargets])
  | aDestroy a => exact hother (by simp [Micro.nodeTargets])
  | aCreate a cap => exact hother (by simp [Micro.nodeTargets])
  | aSwap a b => exact hother (by simp [Micro.nodeTargets])

-- put ----------------------------------------------------------------------------------------------------------

theorem putResolved_shape {st st' : State} (c : Var) (p : Nat) (kr vr : Option (Option Loc × Option Nat))
    (srcs : List (Nat × Option Loc × Option Nat)) (he : putResolved st c p kr vr srcs = some st') :
    (st'.nodes = st.nodes ∧ ∃ l kp j, kr = some (l, some kp) ∧ c.k ≠ .U ∧
        findField st 0 kp (st.nodes c).items = some j) ∨
    (∃ q, st' = insertNew st c q srcs ∧ (c.k.hasKey = false → q = p) ∧
      (c.k.hasKey = true → ∃ l kp, kr = some (l, some kp) ∧
        (c.k = .U → q = countWhile st (fun x => x ≤ kp) (st.nodes c).items) ∧
        (c.k ≠ .U → findField st 0 kp (st.nodes c).items = none ∧
          (c.k = .M → q = countWhile st (fun x => x < kp) (st.nodes c).items) ∧ (c.k ≠ .M → q = p)))) := by
  unfold putResolved at he
  by_cases hk : c.k.hasKey = true
  · have hnf : ∀ {P : Prop}, c.k.hasKey = false → P := fun hk' => by rw [hk] at hk'; cases hk'
    simp only [hk, if_true] at he
    cases kr with
    | none => simp at he
    | some kk =>
      obtain ⟨kl, kp⟩ := kk
      cases kp with
      | none => simp at he
      | some kp =>
        simp only at he
        by_cases hU : c.k = .U
        · simp only [hU, if_true, Option.some.injEq] at he
          refine Or.inr ⟨_, he.symm, hnf, fun _ => ⟨kl, kp, rfl, fun _ => rfl, fun hn => absurd hU hn⟩⟩
        · simp only [hU, if_false] at he
          cases hfind : findField st 0 kp (st.nodes c).items with
          | none =>
            simp only [hfind, Option.some.injEq] at he
            refine Or.inr ⟨_, he.symm, hnf,
              fun _ => ⟨kl, kp, rfl, fun hu => absurd hu hU, fun _ => ⟨hfind, ?_, ?_⟩⟩⟩
            · intro hM; simp [hM]
            · intro hM; simp [hM]
          | some j =>
            simp only [hfind] at he
            by_cases hMH : c.k = .M ∨ c.k = .H
            · simp only [hMH, if_true] at he
              cases hj : (st.nodes c).items[j]? with
              | none => simp [hj] at he
              | some it =>
                simp only [hj] at he
                cases vr with
                | none => simp [putAssign] at he
                | some vv =>
                  obtain ⟨vl, vp⟩ := vv
                  cases vl with
                  | none => simp [putAssign] at he
                  | some vl =>
                    simp only [putAssign, Option.some.injEq] at he
                    subst he; exact Or.inl ⟨rfl, kl, kp, j, rfl, hU, hfind⟩
            · simp only [hMH, if_false, Option.some.injEq] at he
              subst he; exact Or.inl ⟨rfl, kl, kp, j, rfl, hU, hfind⟩
  · simp only [hk, Bool.false_eq_true, if_false, Option.some.injEq] at he
    exact Or.inr ⟨_, he.symm, fun _ => rfl, fun hk' => absurd hk' hk⟩

theorem keys_some {st : State} (h : SInv st) (c : Var) (hk : c.k.hasKey = true) :
    ∀ a, a ∈ keysOf st c → ∃ k, a = some k := by
  intro a ha
  simp only [keysOf, List.mem_map] at ha
  obtain ⟨it, hit, rfl⟩ := ha
  have := h.items_live c it 0 hit ((Ops.hasKey_iff c.k).mp hk)
  cases hm : st.mem (it.loc 0) with
  | none => rw [hm] at this; cases this
  | some k => exact ⟨k, hm⟩

theorem keysOk_put {st st' : State} (h : SInv st) (hk : KeysOk st) (c : Var) (pos : Option Nat)
    (k v : Option SrcRef) (he : exec st (.put c pos k v) = some st') : KeysOk st' := by
  obtain ⟨evs, _, hst⟩ := Stable.exec_stable h _ he
  have hkey : ∀ c' it, it ∈ (st.nodes c').items → st'.mem (it.loc 0) = st.mem (it.loc 0) := by
    intro c' it hit
    rcases hst c' it hit with ⟨_, _, _, _, h4⟩ | ⟨hr, _⟩
    · exact h4
    · exact False.elim hr
  have hsame : ∀ c', st'.nodes c' = st.nodes c' → keysOf st' c' = keysOf st c' := by
    intro c' hn
    unfold keysOf
    rw [hn]
    apply List.map_congr_left
    intro it hit
    exact hkey c' it hit
  obtain ⟨_, _, hoth, _, _⟩ := Ops.put_post c pos k v he
  intro c'
  by_cases hc : c' ≠ c
  · rw [hsame c' (hoth c' hc)]; exact hk c'
  have hc : c' = c := Decidable.not_not.mp hc
  subst hc
  have he' := Stable.exec_exec' he
  simp only [exec'] at he'
  by_cases ha : ¬ (st.nodes c').alive = true
  · simp [ha] at he'
  have ha : (st.nodes c').alive = true := Decidable.not_not.mp ha
  simp only [ha, Bool.not_true, Bool.false_eq_true, if_false] at he'
  cases hkr : resolveOpt st k with
  | none => simp [hkr] at he'
  | some kr =>
    simp only [hkr] at he'
    cases hvr : resolveOpt st v with
    | none => simp [hvr] at he'
    | some vr =>
      simp only [hvr] at he'
      cases hsr : fieldSrcs c'.k kr vr with
      | none => simp [hsr] at he'
      | some srcs =>
        simp only [hsr] at he'
        by_cases hpos : pos.getD (st.nodes c').items.length > (st.nodes c').items.length
        · simp [hpos] at he'
        · simp only [hpos, if_false] at he'
          rcases putResolved_shape c' _ kr vr srcs he' with ⟨hn, _⟩ | ⟨q, rfl, _, hq⟩
          · rw [hsame c' (by rw [hn])]; exact hk c'
          · have hfs := (mapM_fields (P := fun _ _ => True) kr vr (fun _ _ _ => trivial) (fun _ _ _ => trivial)
              c'.k.fields srcs hsr).1
            obtain ⟨it, hit, hmem⟩ := insertNew_full st c' q srcs (by rw [hfs]; exact fields_nodup _)
            have hkeys : keysOf (insertNew st c' q srcs) c' =
                insertAt (keysOf st c') q ((insertNew st c' q srcs).mem (it.loc 0)) := by
              unfold keysOf
              rw [hit, map_insertAt]
              congr 1
              apply List.map_congr_left
              intro it' hit'
              exact hkey c' it' hit'
            -- the keyed kinds
            have hkeyed : c'.k.hasKey = true → ∃ kp, (insertNew st c' q srcs).mem (it.loc 0) = some kp ∧
                (c'.k = .U → q = cw (fun x => x ≤ kp) (keysOf st c')) ∧
                (c'.k ≠ .U → some kp ∉ keysOf st c' ∧ (c'.k = .M → q = cw (fun x => x < kp) (keysOf st c'))) := by
              intro hkk
              obtain ⟨l, kp, rfl, hU, hnU⟩ := hq hkk
              have h0 : 0 ∈ srcs.map (·.1) := by rw [hfs]; exact (Ops.hasKey_iff _).mp hkk
              obtain ⟨x, hx, hx0⟩ := List.mem_map.mp h0
              have hxk : x.2.2 = some kp := by
                rcases Stable.fieldSrcs_shape _ vr c'.k.fields srcs hsr x hx with ⟨_, e⟩ | ⟨ne, _⟩
                · simp only [Option.some.injEq, Prod.mk.injEq] at e; exact e.2.symm
                · exact absurd hx0 ne
              refine ⟨kp, by rw [← hxk, ← hmem x hx, hx0], ?_, ?_⟩
              · intro hu; rw [hU hu, countWhile_eq]; rfl
              · intro hnu
                obtain ⟨hf, hM, _⟩ := hnU hnu
                refine ⟨findField_none st kp _ hf, ?_⟩
                intro hm; rw [hM hm, countWhile_eq]; rfl
            rw [hkeys]
            obtain ⟨k1, k2, k3⟩ := hk c'
            refine ⟨?_, ?_, ?_⟩
            · intro hM
              have hkk : c'.k.hasKey = true := by rw [hM]; rfl
              obtain ⟨kp, hkp, _, hnU⟩ := hkeyed hkk
              obtain ⟨hnot, hqm⟩ := hnU (by rw [hM]; simp)
              rw [hkp, hqm hM]
              apply insert_sorted _ _ _ _ (keys_some h c' hkk)
              · intro a _ hpr
                exact ⟨a, kp, rfl, rfl, by simpa using hpr⟩
              · intro a ha hpr
                have h1 : ¬ a < kp := by simpa using hpr
                have h2 : a ≠ kp := fun e => hnot (e ▸ ha)
                exact ⟨kp, a, rfl, rfl, by omega⟩
              · rintro a b ⟨x1, y1, e1, e2, l1⟩ ⟨x2, y2, e3, e4, l2⟩
                subst e2; cases e3
                exact ⟨x1, y2, e1, e4, by omega⟩
              · exact k1 hM
            · intro hU
              have hkk : c'.k.hasKey = true := by rw [hU]; rfl
              obtain ⟨kp, hkp, hqu, _⟩ := hkeyed hkk
              rw [hkp, hqu hU]
              apply insert_sorted _ _ _ _ (keys_some h c' hkk)
              · intro a _ hpr
                exact ⟨a, kp, rfl, rfl, by simpa using hpr⟩
              · intro a ha hpr
                have h1 : ¬ a ≤ kp := by simpa using hpr
                exact ⟨kp, a, rfl, rfl, by omega⟩
              · rintro a b ⟨x1, y1, e1, e2, l1⟩ ⟨x2, y2, e3, e4, l2⟩
                subst e2; cases e3
                exact ⟨x1, y2, e1, e4, by omega⟩
              · exact k2 hU
            · intro hHSQ
              have hkk : c'.k.hasKey = true := by
                rcases hHSQ with e | e | e <;> rw [e] <;> rfl
              obtain ⟨kp, hkp, _, hnU⟩ := hkeyed hkk
              obtain ⟨hnot, _⟩ := hnU (by rcases hHSQ with e | e | e <;> rw [e] <;> simp)
              rw [hkp]
              exact (insertAt_perm _ _ _).nodup_iff.mpr (List.nodup_cons.mpr ⟨hnot, k3 hHSQ⟩)

-- all steps ----------------------------------------------------------------------------------------------------

theorem keysOk_exec {st st' : State} (h : SInv st) (hk : KeysOk st) (m : Micro) (he : exec st m = some st') :
    KeysOk st' := by
  by_cases hput : ∃ c p k v, m = .put c p k v
  · obtain ⟨c, p, k, v, rfl⟩ := hput
    exact keysOk_put h hk c p k v he
  by_cases hswap : ∃ c d, m = .swap c d
  · obtain ⟨c, d, rfl⟩ := hswap
    have he' := Stable.exec_exec' he
    simp only [exec'] at he'
    by_cases hg : (!(st.nodes c).alive || !(st.nodes d).alive || c.k != d.k) = true
    · simp [hg] at he'
    · rw [if_neg hg] at he'
      have he' := Option.some.inj he'
      subst he'
      simp only [Bool.or_eq_true, Bool.not_eq_true', bne_iff_ne, ne_eq, not_or, Bool.not_eq_false,
        Decidable.not_not] at hg
      obtain ⟨_, hkk⟩ := hg
      have hko : ∀ (s : State) (x : Var) (n : Node), keyOf (s.setNode x n) = keyOf s := fun _ _ _ => rfl
      apply keysOk_of_sublist hk
      intro c'
      by_cases h1 : c' = d
      · subst h1
        refine ⟨c, hkk, ?_⟩
        have : keysOf ((st.setNode c (st.nodes c')).setNode c' (st.nodes c)) c' = keysOf st c := by
          simp [keysOf, hko]
        rw [this]; exact List.Sublist.refl _
      · by_cases h2 : c' = c
        · subst h2
          refine ⟨d, hkk.symm, ?_⟩
          have : keysOf ((st.setNode c' (st.nodes d)).setNode d (st.nodes c')) c' = keysOf st d := by
            simp [keysOf, hko, upd_same, upd_other _ _ _ _ h1]
          rw [this]; exact List.Sublist.refl _
        · refine ⟨c', rfl, ?_⟩
          have : keysOf ((st.setNode c (st.nodes d)).setNode d (st.nodes c)) c' = keysOf st c' := by
            simp [keysOf, hko, upd_other _ _ _ _ h1, upd_other _ _ _ _ h2]
          rw [this]; exact List.Sublist.refl _
  · obtain ⟨evs, _, hst⟩ := Stable.exec_stable h _ he
    apply keysOk_of_sublist hk
    intro c'
    obtain ⟨hs, hnr⟩ := items_shape h m (Stable.exec_exec' he)
      (fun c p k v e => hput ⟨c, p, k, v, e⟩) (fun c d e => hswap ⟨c, d, e⟩) c'
    refine ⟨c', rfl, keys_sublist hs ?_⟩
    intro it hit
    rcases hst c' it (hs.subset hit) with ⟨_, _, _, _, h4⟩ | ⟨hr, _⟩
    · exact h4
    · exact absurd hr (hnr it hit)

theorem keysOk_execAll {st st' : State} (h : SInv st) (hk : KeysOk st) (ms : List Micro)
    (he : execAll st ms = some st') : KeysOk st' := by
  induction ms generalizing st with
  | nil => simp only [execAll, Option.some.injEq] at he; subst he; exact hk
  | cons m rest ih =>
    simp only [execAll] at he
    cases hm : exec st m with
    | none => rw [hm] at he; cases he
    | some s1 =>
      rw [hm] at he
      exact ih (exec_ok h m hm).1 (keysOk_exec h hk m hm) he

theorem keysOk_step {st : State} (h : SInv st) (hk : KeysOk st) (op : Op) : KeysOk (step st op) := by
  unfold step stepRes
  cases hc : compile st op with
  | none => exact hk
  | some ms =>
    simp only
    cases he : execAll st ms with
    | none => exact hk
    | some st' => exact keysOk_execAll h hk ms he

theorem keysOk_run {st : State} (h : SInv st) (hk : KeysOk st) (ops : List Op) : KeysOk (run st ops) := by
  induction ops generalizing st with
  | nil => exact hk
  | cons op rest ih => exact ih (step_ok h op).1 (keysOk_step h hk op)

theorem keysOk_empty (p : Per) : KeysOk (empty p) := by
  intro c
  simp [keysOf, empty]

theorem keysOk_init (p : Per) : KeysOk (init p) :=
  keysOk_execAll (sinv_empty p) (keysOk_empty p) createAll (init_defined p)

/-- in every reachable state the keys of the keyed containers are sorted resp. pairwise distinct -/
theorem keysOk_reach (p : Per) (ops : List Op) : KeysOk (run (init p) ops) := keysOk_run (sinv_init p).1 (keysOk_init p) ops

end Nstd.Life.Copy
