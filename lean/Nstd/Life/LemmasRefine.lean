import Nstd.Life.LemmasCopyNode
import Nstd.Life.LemmasSetSelf
/-
  "op(c, c) behaves like  t := copy of c; op(c, t)":  the alias operations of List, Array, HashSet and Map
  yield the same abstract value as the same operation applied to an independent copy.
-/
namespace Nstd.Life.Refine
open Nstd.Life

/-- the facts available in a reachable state -/
structure Reach (st : State) : Prop where
  inv : SInv st
  alive : Ops.AllAlive st
  keys : Copy.KeysOk st

theorem Reach.of_run (p : Per) (ops : List Op) : Reach (run (init p) ops) :=
  ⟨(reach_ok p ops).1, Ops.allAlive_reach p ops, Copy.keysOk_reach p ops⟩

theorem Reach.step {st : State} (r : Reach st) (op : Op) : Reach (step st op) :=
  ⟨(step_ok r.inv op).1, r.alive.of_flags (Ops.step_flags st op), Copy.keysOk_step r.inv r.keys op⟩

theorem step_of_ok {st s : State} {op : Op} (h : stepRes st op = .ok s) : step st op = s := by
  unfold step; rw [h]

theorem other_le {v : Nat} (hv : v ≤ 1) : 1 - v ≤ 1 ∧ v ≠ 1 - v := by omega

-- G1: the operations with another container as argument ----------------------------------------------------------

/-- `l.insert(position p, other list)` -/
theorem lInsertOther_abs_st {st : State} (h : SInv st) (ha : Ops.AllAlive st) (v w : Nat) (hv : v ≤ 1) (hw : w ≤ 1)
    (hne : v ≠ w) (pos : Option Nat)
    (hp : pos.getD (absNode st ⟨.L, v⟩).length ≤ (absNode st ⟨.L, v⟩).length) :
    absNode (step st (.lInsertList v pos w)) ⟨.L, v⟩ =
      (absNode st ⟨.L, v⟩).take (pos.getD (absNode st ⟨.L, v⟩).length) ++ absNode st ⟨.L, w⟩ ++
      (absNode st ⟨.L, v⟩).drop (pos.getD (absNode st ⟨.L, v⟩).length) := by
  have hcv : (⟨.L, v⟩ : Var).valid = true := Ops.valid_of hv (by simp)
  have hwc : (⟨.L, w⟩ : Var) ≠ ⟨.L, v⟩ := by
    intro e; simp only [Var.mk.injEq, true_and] at e; exact hne e.symm
  have hlenv : len st ⟨.L, v⟩ = (absNode st ⟨.L, v⟩).length := by simp [len, absNode]
  have hlenw : len st ⟨.L, w⟩ = (absNode st ⟨.L, w⟩).length := by simp [len, absNode]
  generalize hA : absNode st ⟨.L, v⟩ = A at hp hlenv ⊢
  generalize hB : absNode st ⟨.L, w⟩ = B at hlenw ⊢
  generalize hpd : pos.getD A.length = p at hp ⊢
  have hlenA : (A.take p).length = p := by simp; omega
  obtain ⟨s', hs', _, _, hab, _⟩ := Ops.loop_def
    (fun j x => SInv x ∧ (x.nodes ⟨.L, v⟩).alive = true ∧
      absNode x ⟨.L, v⟩ = A.take p ++ B.take j ++ A.drop p ∧ absNode x ⟨.L, w⟩ = B)
    ((List.range B.length).map fun j =>
      Micro.put ⟨.L, v⟩ (some (p + j)) none (some (.item ⟨.L, w⟩ j 1)))
    0 st ⟨h, ha.1 _ hcv, by simp [hA], hB⟩ (by
      intro j m x hm ⟨ix, ax, cx, wx⟩
      obtain ⟨hj, rfl⟩ := Ops.range_map_get hm
      simp only [Nat.zero_add] at cx ⊢
      have hlenB : (B.take j).length = j := by simp; omega
      have hget : (absNode x ⟨.L, w⟩)[j]? = some B[j] := by rw [wx]; exact List.getElem?_eq_getElem hj
      obtain ⟨hfst, hres, hpay⟩ := itemL_src (st := x) ⟨.L, w⟩ rfl j _ hget
      have hlen : (x.nodes ⟨.L, v⟩).items.length = (absNode x ⟨.L, v⟩).length := by simp [absNode]
      obtain ⟨x', hx', habs, ax'⟩ := putL_abs ix ⟨.L, v⟩ rfl hcv ax (p + j)
        (by rw [hlen, cx]; simp only [List.length_append, hlenA, hlenB, List.length_drop]; omega)
        (.item ⟨.L, w⟩ j 1) (B[j]).2 ⟨hres, hpay⟩
      obtain ⟨fn, fm⟩ := Stable.exec_frame_node ix _ hx' ⟨.L, w⟩ (by simp [Micro.nodeTargets, hwc])
      refine ⟨x', hx', (exec_ok ix _ hx').1, ax', ?_, by rw [Ops.absNode_congr _ fn fm, wx]⟩
      rw [habs, cx]
      have hx : ((none : Option Nat), (B[j]).2) = B[j] := by rw [← hfst]
      rw [hx]
      have := insertAt_mid (A.take p) (B.take j) (A.drop p) B[j]
      rw [hlenA, hlenB] at this
      rw [this, List.take_add_one, List.getElem?_eq_getElem hj]; rfl)
  have hcomp : compile st (.lInsertList v pos w) = some ((List.range B.length).map fun j =>
      Micro.put ⟨.L, v⟩ (some (p + j)) none (some (.item ⟨.L, w⟩ j 1))) := by
    simp only [compile, hlenv, hlenw, hpd, guard', hv, hw, hp, decide_true, Bool.and_self, if_true, hne, if_false]
  rw [Copy.step_eq hcomp hs', hab]
  simp

/-- `a.append(other array)` -/
theorem aAppendOther_abs_st {st : State} (h : SInv st) (ha : Ops.AllAlive st) (v w : Nat) (hv : v ≤ 1) (hw : w ≤ 1)
    (hne : v ≠ w) :
    absArr (step st (.aAppendArr v w)) v = absArr st v ++ absArr st w := by
  have hne' : w ≠ v := fun e => hne e.symm
  obtain ⟨s1, h1⟩ := Ops.aReserve_def (s := st) v ((st.arrs v).size + (st.arrs w).size) hv (ha.2 v hv)
  obtain ⟨habs, hsize, _, hcap, hstore, hoth⟩ := aReserve_abs h v _ (Stable.exec_exec' h1)
  obtain ⟨fa, fm⟩ := Stable.exec_frame_arr h _ h1 w (by simp [Micro.arrTargets, hne'])
  obtain ⟨s', hs', hab⟩ := Copy.pushes_other_abs (exec_ok h _ h1).1 v w (st.arrs w).size hv hne'
    (by rw [hoth w hne']; exact Nat.le_refl _) (fun hn => hstore (by omega)) (by rw [hsize]; exact hcap)
  have hcomp : compile st (.aAppendArr v w) = some (.aReserve v ((st.arrs v).size + (st.arrs w).size) ::
      (List.range (st.arrs w).size).map (fun j => .aPush v (.elem w j))) := by
    simp [compile, guard', hv, hw]
  have hexec : execAll st (.aReserve v ((st.arrs v).size + (st.arrs w).size) ::
      (List.range (st.arrs w).size).map (fun j => .aPush v (.elem w j))) = some s' := by
    simp only [execAll, h1]; exact hs'
  rw [Copy.step_eq hcomp hexec, hab, habs, Ops.absArr_congr w fa fm,
    List.take_of_length_le (by rw [absArr_length st w h]; exact Nat.le_refl _)]

theorem lInsertOther_abs (p : Per) (ops : List Op) (v w : Nat) (hv : v ≤ 1) (hw : w ≤ 1) (hne : v ≠ w) (pos : Option Nat)
    (hp : pos.getD (absNode (run (init p) ops) ⟨.L, v⟩).length ≤ (absNode (run (init p) ops) ⟨.L, v⟩).length) :
    absNode (step (run (init p) ops) (.lInsertList v pos w)) ⟨.L, v⟩ =
      (absNode (run (init p) ops) ⟨.L, v⟩).take (pos.getD (absNode (run (init p) ops) ⟨.L, v⟩).length) ++
      absNode (run (init p) ops) ⟨.L, w⟩ ++
      (absNode (run (init p) ops) ⟨.L, v⟩).drop (pos.getD (absNode (run (init p) ops) ⟨.L, v⟩).length) :=
  lInsertOther_abs_st (reach_ok p ops).1 (Ops.allAlive_reach p ops) v w hv hw hne pos hp

theorem aAppendOther_abs (p : Per) (ops : List Op) (v w : Nat) (hv : v ≤ 1) (hw : w ≤ 1) (hne : v ≠ w) :
    absArr (step (run (init p) ops) (.aAppendArr v w)) v = absArr (run (init p) ops) v ++ absArr (run (init p) ops) w :=
  aAppendOther_abs_st (reach_ok p ops).1 (Ops.allAlive_reach p ops) v w hv hw hne

-- G2: refinement -------------------------------------------------------------------------------------------------

/-- the state after `t := copy of c` (t = the other variable of the kind): t has the value of c, c is untouched -/
theorem after_copy_node {st : State} (r : Reach st) (k : Kind) (v : Nat) (hv : v ≤ 1) (hk : k ≠ .A)
    (hp : k.isPool = false) :
    absNode (step st (.copy ⟨k, 1 - v⟩ v)) ⟨k, 1 - v⟩ = absNode st ⟨k, v⟩ ∧
    absNode (step st (.copy ⟨k, 1 - v⟩ v)) ⟨k, v⟩ = absNode st ⟨k, v⟩ := by
  obtain ⟨hw, hne⟩ := other_le hv
  constructor
  · exact (Copy.copy_equal_node_st r.inv r.alive r.keys ⟨k, 1 - v⟩ v (Ops.valid_of hw hk) hp hv
      (fun e => hne e.symm)).1
  · unfold step stepRes
    cases hcp : compile st (.copy ⟨k, 1 - v⟩ v) with
    | none => rfl
    | some ms =>
      simp only
      cases he : execAll st ms with
      | none => rfl
      | some st' =>
        have hnt : (⟨k, v⟩ : Var) ∉ (Op.copy ⟨k, 1 - v⟩ v).nodeTargets := by
          simp only [Op.nodeTargets, hk, if_false, List.mem_cons, List.not_mem_nil, or_false, Var.mk.injEq,
            true_and]
          exact hne
        obtain ⟨n, m⟩ := Ops.execAll_frame_node r.inv ms ⟨k, v⟩
          (fun m hm hcm => hnt ((Ops.compile_targets hcp m hm).1 _ hcm)) he
        exact Ops.absNode_congr _ n m

theorem list_insert_self_refines (p : Per) (ops : List Op) (v : Nat) (hv : v ≤ 1) (pos : Option Nat)
    (hp : pos.getD (absNode (run (init p) ops) ⟨.L, v⟩).length ≤ (absNode (run (init p) ops) ⟨.L, v⟩).length) :
    absNode (step (run (init p) ops) (.lInsertList v pos v)) ⟨.L, v⟩ =
    absNode (step (step (run (init p) ops) (.copy ⟨.L, 1 - v⟩ v)) (.lInsertList v pos (1 - v))) ⟨.L, v⟩ := by
  have r := Reach.of_run p ops
  obtain ⟨hw, hne⟩ := other_le hv
  obtain ⟨ht, hc⟩ := after_copy_node r .L v hv (by simp) rfl
  have r1 := r.step (.copy ⟨.L, 1 - v⟩ v)
  obtain ⟨s, hs, hab⟩ := lInsertSelf_abs r.inv v hv (r.alive.1 _ (Ops.valid_of hv (by simp))) pos hp
  rw [step_of_ok hs, hab, lInsertOther_abs_st r1.inv r1.alive v (1 - v) hv hw hne pos (by rw [hc]; exact hp), hc, ht]

theorem array_append_self_refines (p : Per) (ops : List Op) (v : Nat) (hv : v ≤ 1) :
    absArr (step (run (init p) ops) (.aAppendArr v v)) v =
    absArr (step (step (run (init p) ops) (.copy ⟨.A, 1 - v⟩ v)) (.aAppendArr v (1 - v))) v := by
  have r := Reach.of_run p ops
  obtain ⟨hw, hne⟩ := other_le hv
  have r1 := r.step (.copy ⟨.A, 1 - v⟩ v)
  have ht := (Copy.copy_equal_array_st r.inv r.alive (1 - v) v hw hv (fun e => hne e.symm)).1
  have hc : absArr (step (run (init p) ops) (.copy ⟨.A, 1 - v⟩ v)) v = absArr (run (init p) ops) v :=
    (Ops.step_frame_arr p ops (.copy ⟨.A, 1 - v⟩ v) v (by
      simp only [Op.arrTargets, if_true, List.mem_cons, List.not_mem_nil, or_false]; exact hne)).2
  obtain ⟨s, hs, hab⟩ := aAppendSelf_abs r.inv v hv (r.alive.2 v hv)
  rw [step_of_ok hs, hab, aAppendOther_abs_st r1.inv r1.alive v (1 - v) hv hw hne, hc, ht]
  congr 1
  have := range_get_self (absArr (run (init p) ops) v)
  rw [absArr_length _ v r.inv] at this
  exact this

-- HashSet ----------------------------------------------------------------------------------------------------

theorem keys_of_abs_eq {x : State} {c w' : Var} (hk : c.k.hasKey = true) (hkw : w'.k = c.k)
    (hab : absNode x w' = absNode x c) : Copy.keysOf x w' = Copy.keysOf x c := by
  rw [Copy.keysOf_abs x c hk, Copy.keysOf_abs x w' (by rw [hkw]; exact hk), hab]

/-- appending a key the set already contains (given by reference to an element of another set) changes nothing -/
theorem sPutOther_noop {x : State} (h : SInv x) (v w j : Nat) (hv : v ≤ 1)
    (ha : (x.nodes ⟨.S, v⟩).alive = true) (hj : j < (x.nodes ⟨.S, w⟩).items.length)
    (hkeys : Copy.keysOf x ⟨.S, w⟩ = Copy.keysOf x ⟨.S, v⟩) :
    exec x (.put ⟨.S, v⟩ none (some (.item ⟨.S, w⟩ j 0)) none) = some x := by
  have hval : (Micro.put ⟨.S, v⟩ none (some (.item ⟨.S, w⟩ j 0)) none).valid = true := by
    simp [Micro.valid, Var.valid, hv]
  rw [Ops.exec_of_valid hval]
  have hit : (x.nodes ⟨.S, w⟩).items[j]? = some (x.nodes ⟨.S, w⟩).items[j] := List.getElem?_eq_getElem hj
  have hmemw : (x.nodes ⟨.S, w⟩).items[j] ∈ (x.nodes ⟨.S, w⟩).items := List.getElem_mem hj
  have hlive := h.items_live ⟨.S, w⟩ _ 0 hmemw (by simp [Kind.fields])
  cases hp : x.mem ((x.nodes ⟨.S, w⟩).items[j].loc 0) with
  | none => rw [hp] at hlive; cases hlive
  | some p =>
    -- the same key is in v
    have hin : some p ∈ Copy.keysOf x ⟨.S, v⟩ := by
      rw [← hkeys]
      simp only [Copy.keysOf, List.mem_map]
      exact ⟨_, hmemw, hp⟩
    simp only [Copy.keysOf, List.mem_map] at hin
    obtain ⟨it, hitv, hkv⟩ := hin
    obtain ⟨i, hi⟩ := findField_of_mem x 0 p _ it hitv hkv
    have hp' : x.mem (.heap (x.nodes ⟨.S, w⟩).items[j].b (x.nodes ⟨.S, w⟩).items[j].i 0) = some p := hp
    simp [exec', ha, resolveOpt, resolve, SrcRef.loc, SrcRef.payload, Kind.fields, hit, hp', fieldSrcs, putResolved,
      Kind.hasKey, hi]

/-- `s.append(t)` where t has the same keys: nothing changes -/
theorem sAppendSame_noop {x : State} (h : SInv x) (ha : Ops.AllAlive x) (v w : Nat) (hv : v ≤ 1) (hw : w ≤ 1)
    (hkeys : Copy.keysOf x ⟨.S, w⟩ = Copy.keysOf x ⟨.S, v⟩) : step x (.sAppendSet v w) = x := by
  have hc : compile x (.sAppendSet v w) = some (copyItems ⟨.S, v⟩ ⟨.S, w⟩ (len x ⟨.S, w⟩)) := by
    simp [compile, guard', hv, hw]
  have hal := ha.1 ⟨.S, v⟩ (by simp [Var.valid, hv])
  have : execAll x (copyItems ⟨.S, v⟩ ⟨.S, w⟩ (len x ⟨.S, w⟩)) = some x := by
    apply execAll_const
    intro m hm
    simp only [copyItems, List.mem_map, List.mem_range] at hm
    obtain ⟨j, hj, rfl⟩ := hm
    simpa [Kind.hasKey] using sPutOther_noop h v w j hv hal hj hkeys
  exact Copy.step_eq hc this

theorem set_append_self_refines (p : Per) (ops : List Op) (v : Nat) (hv : v ≤ 1) :
    absNode (step (run (init p) ops) (.sAppendSet v v)) ⟨.S, v⟩ =
    absNode (step (step (run (init p) ops) (.copy ⟨.S, 1 - v⟩ v)) (.sAppendSet v (1 - v))) ⟨.S, v⟩ := by
  have r := Reach.of_run p ops
  obtain ⟨hw, hne⟩ := other_le hv
  obtain ⟨ht, hc⟩ := after_copy_node r .S v hv (by simp) rfl
  have r1 := r.step (.copy ⟨.S, 1 - v⟩ v)
  rw [sAppendSelf_noop r.inv r.alive v,
    sAppendSame_noop r1.inv r1.alive v (1 - v) hv hw (keys_of_abs_eq rfl rfl (by rw [ht, hc])), hc]

/-- removing the key of the first item -/
theorem removeKey_at_head {x : State} (c : Var) (hv : c.valid = true) (k : SrcRef) (p : Nat)
    (hp : k.payload x = some p) (it0 : Item) (rest : List Item) (hi : (x.nodes c).items = it0 :: rest)
    (hk0 : x.mem (it0.loc 0) = some p) : exec x (.removeKey c k) = some (removeAt x c 0 it0) := by
  rw [Ops.exec_of_valid (show (Micro.removeKey c k).valid = true from hv)]
  simp [exec', hp, findField, hi, hk0]

theorem keys_removeAt_head {x : State} (h : SInv x) (c : Var) (it0 : Item) (rest : List Item)
    (hi : (x.nodes c).items = it0 :: rest) :
    Copy.keysOf (removeAt x c 0 it0) c = rest.map (keyOf x) := by
  have hnd := Copy.items_nodup' h c
  rw [hi, List.nodup_cons] at hnd
  simp only [Copy.keysOf, removeAt, setNode_get, hi, List.eraseIdx_cons_zero]
  apply List.map_congr_left
  intro it' hit'
  simp only [keyOf, setNode_mem, State.dtorItem, dtorLocs_mem]
  have : it'.loc 0 ∉ it0.dtorOrder c.k := by
    intro hd
    obtain ⟨f, _, e⟩ := (NodeA.mem_dtorOrder _ _ _).mp hd
    obtain ⟨rfl, _⟩ := loc_inj e
    exact hnd.1 hit'
  simp only [this, if_false]

/-- `s.remove(t)` where t has the same keys in the same order: s is empty afterwards -/
theorem sRemoveSame_empty {st1 : State} (h : SInv st1) (v w : Nat) (hv : v ≤ 1) (hw : w ≤ 1) (hne : v ≠ w)
    (hkeys : Copy.keysOf st1 ⟨.S, v⟩ = Copy.keysOf st1 ⟨.S, w⟩) :
    absNode (step st1 (.sRemoveSet v w)) ⟨.S, v⟩ = [] := by
  have hval : (⟨.S, v⟩ : Var).valid = true := by simp [Var.valid, hv]
  have hwc : (⟨.S, w⟩ : Var) ≠ ⟨.S, v⟩ := by
    intro e; simp only [Var.mk.injEq, true_and] at e; exact hne e.symm
  have hc : compile st1 (.sRemoveSet v w) =
      some ((List.range (len st1 ⟨.S, w⟩)).map fun j => .removeKey ⟨.S, v⟩ (.item ⟨.S, w⟩ j 0)) := by
    simp [compile, guard', hv, hw, hne]
  have hKlen : (Copy.keysOf st1 ⟨.S, w⟩).length = len st1 ⟨.S, w⟩ := by simp [Copy.keysOf, len]
  obtain ⟨s', hs', _, _, _, hk'⟩ := Ops.loop_def
    (fun j x => SInv x ∧ x.nodes ⟨.S, w⟩ = st1.nodes ⟨.S, w⟩ ∧
      (∀ it f, it ∈ (st1.nodes ⟨.S, w⟩).items → x.mem (it.loc f) = st1.mem (it.loc f)) ∧
      Copy.keysOf x ⟨.S, v⟩ = (Copy.keysOf st1 ⟨.S, w⟩).drop j)
    ((List.range (len st1 ⟨.S, w⟩)).map fun j => Micro.removeKey ⟨.S, v⟩ (.item ⟨.S, w⟩ j 0)) 0 st1
    ⟨h, rfl, fun _ _ _ => rfl, by simp [hkeys]⟩ (by
      intro j m x hm ⟨ix, wn, wm, kx⟩
      obtain ⟨hj, rfl⟩ := Ops.range_map_get hm
      simp only [Nat.zero_add] at kx ⊢
      have hji : j < (st1.nodes ⟨.S, w⟩).items.length := hj
      have hitw : (x.nodes ⟨.S, w⟩).items[j]? = some (st1.nodes ⟨.S, w⟩).items[j] := by
        rw [wn]; exact List.getElem?_eq_getElem hji
      have hmemw : (st1.nodes ⟨.S, w⟩).items[j] ∈ (st1.nodes ⟨.S, w⟩).items := List.getElem_mem hji
      have hlive := h.items_live ⟨.S, w⟩ _ 0 hmemw (by simp [Kind.fields])
      cases hp : st1.mem ((st1.nodes ⟨.S, w⟩).items[j].loc 0) with
      | none => rw [hp] at hlive; cases hlive
      | some p =>
        have hpx : x.mem (.heap (st1.nodes ⟨.S, w⟩).items[j].b (st1.nodes ⟨.S, w⟩).items[j].i 0) = some p := by
          have := wm _ 0 hmemw; rw [hp] at this; exact this
        have hpay : SrcRef.payload x (.item ⟨.S, w⟩ j 0) = some p := by
          simp [SrcRef.payload, SrcRef.loc, Kind.fields, hitw, hpx]
        have hKj : (Copy.keysOf st1 ⟨.S, w⟩)[j]? = some (some p) := by
          simp only [Copy.keysOf, List.getElem?_map, List.getElem?_eq_getElem hji, Option.map_some, keyOf, hp]
        -- the first item of v has this key
        have hdrop : (Copy.keysOf st1 ⟨.S, w⟩).drop j = some p :: (Copy.keysOf st1 ⟨.S, w⟩).drop (j + 1) := by
          have hjl : j < (Copy.keysOf st1 ⟨.S, w⟩).length := by rw [hKlen]; exact hj
          rw [List.drop_eq_getElem_cons hjl]
          congr 1
          have := List.getElem?_eq_getElem hjl
          rw [hKj] at this
          exact (Option.some.inj this).symm
        rw [hdrop] at kx
        cases hi : (x.nodes ⟨.S, v⟩).items with
        | nil => simp [Copy.keysOf, hi] at kx
        | cons it0 rest =>
          have hk0 : x.mem (it0.loc 0) = some p := by
            simp only [Copy.keysOf, hi, List.map_cons, List.cons.injEq] at kx
            exact kx.1
          have hx' := removeKey_at_head ⟨.S, v⟩ hval (.item ⟨.S, w⟩ j 0) p hpay it0 rest hi hk0
          obtain ⟨fn, fm⟩ := Stable.exec_frame_node ix _ hx' ⟨.S, w⟩ (by simp [Micro.nodeTargets, hwc])
          refine ⟨_, hx', (exec_ok ix _ hx').1, by rw [fn, wn], ?_, ?_⟩
          · intro it f hit
            rw [fm it f (by rw [wn]; exact hit), wm it f hit]
          · rw [keys_removeAt_head ix ⟨.S, v⟩ it0 rest hi]
            simp only [Copy.keysOf, hi, List.map_cons, List.cons.injEq] at kx
            exact kx.2)
  rw [Copy.step_eq hc hs']
  have hz : Copy.keysOf s' ⟨.S, v⟩ = [] := by
    rw [hk']
    apply List.drop_eq_nil_of_le
    simp [hKlen]
  have : (s'.nodes ⟨.S, v⟩).items = [] := by
    simpa [Copy.keysOf] using hz
  simp [absNode, this]

theorem set_remove_self_refines (p : Per) (ops : List Op) (v : Nat) (hv : v ≤ 1) :
    absNode (step (run (init p) ops) (.sRemoveSet v v)) ⟨.S, v⟩ =
    absNode (step (step (run (init p) ops) (.copy ⟨.S, 1 - v⟩ v)) (.sRemoveSet v (1 - v))) ⟨.S, v⟩ := by
  have r := Reach.of_run p ops
  obtain ⟨hw, hne⟩ := other_le hv
  obtain ⟨ht, hc⟩ := after_copy_node r .S v hv (by simp) rfl
  have r1 := r.step (.copy ⟨.S, 1 - v⟩ v)
  obtain ⟨s, hs, hab⟩ := sRemoveSelf_empty r.inv r.alive v hv
  rw [step_of_ok hs, hab, sRemoveSame_empty r1.inv v (1 - v) hv hw hne
    (keys_of_abs_eq (c := ⟨.S, 1 - v⟩) rfl rfl (by rw [ht, hc]))]

-- Map --------------------------------------------------------------------------------------------------------

theorem findField_spec (st : State) (f p : Nat) : ∀ (items : List Item) (j : Nat),
    findField st f p items = some j → ∃ it, items[j]? = some it ∧ st.mem (it.loc f) = some p
  | [], j, h => by simp [findField] at h
  | a :: rest, j, h => by
    simp only [findField] at h
    by_cases hc : st.mem (a.loc f) = some p
    · simp only [hc, if_true, Option.some.injEq] at h
      subst h; exact ⟨a, by simp, hc⟩
    · simp only [hc, if_false, Option.map_eq_some_iff] at h
      obtain ⟨j', hj', rfl⟩ := h
      obtain ⟨it, h1, h2⟩ := findField_spec st f p rest j' hj'
      exact ⟨it, by simpa using h1, h2⟩

theorem nodup_map_inj_on {α β : Type} (f : α → β) : ∀ (l : List α), (l.map f).Nodup →
    ∀ a b, a ∈ l → b ∈ l → f a = f b → a = b
  | [], _, _, _, ha, _, _ => by cases ha
  | x :: rest, hn, a, b, ha, hb, hab => by
    simp only [List.map_cons, List.nodup_cons, List.mem_map, not_exists, not_and] at hn
    simp only [List.mem_cons] at ha hb
    rcases ha with rfl | ha
    · rcases hb with rfl | hb
      · rfl
      · exact absurd hab.symm (hn.1 b hb)
    · rcases hb with rfl | hb
      · exact absurd hab (hn.1 a ha)
      · exact nodup_map_inj_on f rest hn.2 a b ha hb hab

theorem keysM_nodup {x : State} (hko : Copy.KeysOk x) (c : Var) (hk : c.k = .M) : (Copy.keysOf x c).Nodup := by
  have := (hko c).1 hk
  rw [List.nodup_iff_pairwise_ne]
  refine this.imp ?_
  rintro a b ⟨p, q, rfl, rfl, hlt⟩ e
  cases e; omega

/-- `m.insert(key of item j of t, value of item j of t)` where item j of m has the same key and value:
    the value is overwritten by an equal one, nothing else happens -/
theorem putM_same {x : State} (h : SInv x) (hko : Copy.KeysOk x) (v w j : Nat) (hv : v ≤ 1)
    (ha : (x.nodes ⟨.M, v⟩).alive = true)
    (hjw : j < (x.nodes ⟨.M, w⟩).items.length) (hjv : j < (x.nodes ⟨.M, v⟩).items.length)
    (hkey : x.mem ((x.nodes ⟨.M, w⟩).items[j].loc 0) = x.mem ((x.nodes ⟨.M, v⟩).items[j].loc 0))
    (hval : x.mem ((x.nodes ⟨.M, w⟩).items[j].loc 1) = x.mem ((x.nodes ⟨.M, v⟩).items[j].loc 1)) :
    ∃ x', exec x (.put ⟨.M, v⟩ none (some (.item ⟨.M, w⟩ j 0)) (some (.item ⟨.M, w⟩ j 1))) = some x' ∧
      x'.nodes = x.nodes ∧ ∀ l, x'.mem l = x.mem l := by
  have hvalid : (Micro.put ⟨.M, v⟩ none (some (.item ⟨.M, w⟩ j 0)) (some (.item ⟨.M, w⟩ j 1))).valid = true := by
    simp [Micro.valid, Var.valid, hv]
  rw [Ops.exec_of_valid hvalid]
  have hitw : (x.nodes ⟨.M, w⟩).items[j]? = some (x.nodes ⟨.M, w⟩).items[j] := List.getElem?_eq_getElem hjw
  have hmemv : (x.nodes ⟨.M, v⟩).items[j] ∈ (x.nodes ⟨.M, v⟩).items := List.getElem_mem hjv
  have hlive := h.items_live ⟨.M, v⟩ _ 0 hmemv (by simp [Kind.fields])
  cases hp : x.mem ((x.nodes ⟨.M, v⟩).items[j].loc 0) with
  | none => rw [hp] at hlive; cases hlive
  | some p =>
    obtain ⟨i, hi⟩ := findField_of_mem x 0 p _ _ hmemv hp
    obtain ⟨it', hit', hk'⟩ := findField_spec x 0 p _ i hi
    -- the item found is item j itself (keys are distinct)
    have heq : it' = (x.nodes ⟨.M, v⟩).items[j] :=
      nodup_map_inj_on (keyOf x) _ (keysM_nodup hko ⟨.M, v⟩ rfl) _ _ (List.mem_of_getElem? hit') hmemv
        (by simp only [keyOf]; rw [hk', hp])
    subst heq
    have hp' : x.mem (.heap (x.nodes ⟨.M, w⟩).items[j].b (x.nodes ⟨.M, w⟩).items[j].i 0) = some p := by
      have := hkey; rw [hp] at this; exact this
    refine ⟨x.assign ((x.nodes ⟨.M, v⟩).items[j].loc 1) ((x.nodes ⟨.M, w⟩).items[j].loc 1)
      (x.mem ((x.nodes ⟨.M, w⟩).items[j].loc 1)), ?_, rfl, ?_⟩
    · simp [exec', ha, resolveOpt, resolve, SrcRef.loc, SrcRef.payload, Kind.fields, hitw, hp', fieldSrcs, putResolved,
        Kind.hasKey, hi, hit', putAssign, Item.loc]
    · intro l
      simp only [assign_mem, upd]
      split
      · next hl => rw [hl, hval]
      · rfl

/-- `m.insert(t)` where t has the same abstract value as m (in particular t = m): the value of m is unchanged -/
theorem mInsertSame_abs {x : State} (h : SInv x) (hko : Copy.KeysOk x) (ha : Ops.AllAlive x) (v w : Nat)
    (hv : v ≤ 1) (hw : w ≤ 1) (hab : absNode x ⟨.M, w⟩ = absNode x ⟨.M, v⟩) :
    absNode (step x (.mInsertMap ⟨.M, v⟩ w)) ⟨.M, v⟩ = absNode x ⟨.M, v⟩ := by
  have hcv : (⟨.M, v⟩ : Var).valid = true := Ops.valid_of hv (by simp)
  have hc : compile x (.mInsertMap ⟨.M, v⟩ w) = some (copyItems ⟨.M, v⟩ ⟨.M, w⟩ (len x ⟨.M, w⟩)) := by
    simp [compile, guard', hv, hw]
  have hlen : (x.nodes ⟨.M, w⟩).items.length = (x.nodes ⟨.M, v⟩).items.length := by
    rw [← Copy.absNode_length, ← Copy.absNode_length, hab]
  obtain ⟨s', hs', _, _, hn', hm'⟩ := Ops.loop_def
    (fun _ y => SInv y ∧ Copy.KeysOk y ∧ y.nodes = x.nodes ∧ ∀ l, y.mem l = x.mem l)
    (copyItems ⟨.M, v⟩ ⟨.M, w⟩ (len x ⟨.M, w⟩)) 0 x ⟨h, hko, rfl, fun _ => rfl⟩ (by
      intro j m y hm ⟨iy, ky, ny, my⟩
      obtain ⟨hj, rfl⟩ := Ops.range_map_get hm
      simp only [len] at hj
      have hjv : j < (x.nodes ⟨.M, v⟩).items.length := by omega
      -- entry j of both maps
      have hent : (absNode x ⟨.M, w⟩)[j]? = (absNode x ⟨.M, v⟩)[j]? := by rw [hab]
      simp only [absNode, List.getElem?_map, List.getElem?_eq_getElem hj, List.getElem?_eq_getElem hjv,
        Option.map_some, Option.some.injEq, Prod.mk.injEq, Kind.hasKey, if_true, reduceCtorEq, if_false,
        keyOf, valOf] at hent
      obtain ⟨x', hx', hn, hmm⟩ := putM_same iy ky v w j hv (by rw [ny]; exact ha.1 _ hcv)
        (by rw [ny]; exact hj) (by rw [ny]; exact hjv)
        (by simp only [ny, my]; exact hent.1) (by simp only [ny, my]; exact hent.2)
      refine ⟨x', ?_, (exec_ok iy _ hx').1, Copy.keysOk_exec iy ky _ hx', by rw [hn, ny], fun l => by rw [hmm, my]⟩
      simpa [Kind.hasKey] using hx')
  rw [Copy.step_eq hc hs']
  exact Ops.absNode_congr _ (by rw [hn']) (fun it f _ => hm' _)

theorem map_insert_self_refines (p : Per) (ops : List Op) (v : Nat) (hv : v ≤ 1) :
    absNode (step (run (init p) ops) (.mInsertMap ⟨.M, v⟩ v)) ⟨.M, v⟩ =
    absNode (step (step (run (init p) ops) (.copy ⟨.M, 1 - v⟩ v)) (.mInsertMap ⟨.M, v⟩ (1 - v))) ⟨.M, v⟩ := by
  have r := Reach.of_run p ops
  obtain ⟨hw, hne⟩ := other_le hv
  obtain ⟨ht, hc⟩ := after_copy_node r .M v hv (by simp) rfl
  have r1 := r.step (.copy ⟨.M, 1 - v⟩ v)
  rw [mInsertSame_abs r.inv r.keys r.alive v v hv hv rfl,
    mInsertSame_abs r1.inv r1.keys r1.alive v (1 - v) hv hw (by rw [ht, hc]), hc]

end Nstd.Life.Refine
