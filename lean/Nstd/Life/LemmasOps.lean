import Nstd.Life.LemmasAll
import Nstd.Life.LemmasStable
import Nstd.Life.LemmasAlias
import Nstd.Life.LemmasSort
/-
  Operation level: the destructors are always defined (E1), the pool containers construct in place (E2),
  operations leave the containers they do not name alone (E3), the model never faults (E4).
-/
namespace Nstd.Life

/-- the operations of PoolList / PoolMap -/
def Op.isPoolOp : Op → Bool
  | .pAppend .. | .pRemove .. | .pRemoveRef .. | .qAppend .. | .qRemove .. | .qRemoveAt .. | .qRemoveRef .. => true
  | .pRemoveChain .. | .qInsert .. | .qRemoveChain .. => true
  | .new c | .clear c => c.k.isPool
  | .newcap c _ => c.k.isPool
  | .swap c _ => c.k.isPool
  | _ => false

/-- the node variables an operation may modify (not the ones it only reads) -/
def Op.nodeTargets : Op → List Var
  | .new c => if c.k = .A then [] else [c]
  | .newcap c _ => if c.k = .A then [] else [c]
  | .copy c _ => if c.k = .A then [] else [c]
  | .assign c _ => if c.k = .A then [] else [c]
  | .clear c => if c.k = .A then [] else [c]
  | .swap c w => if c.k = .A then [] else [c, ⟨c.k, w⟩]
  | .lInsert v _ _ => [⟨.L, v⟩] | .lInsertRef v _ _ => [⟨.L, v⟩] | .lInsertList v _ _ => [⟨.L, v⟩]
  | .lRemove v _ => [⟨.L, v⟩] | .lRemoveVal v _ => [⟨.L, v⟩] | .lRemoveValRef v _ => [⟨.L, v⟩] | .lSet v _ _ => [⟨.L, v⟩]
  | .lSort v _ => [⟨.L, v⟩]
  | .mInsert c _ _ => [c] | .mInsertHint c _ _ _ => [c] | .mInsertRef c _ _ => [c] | .mInsertMap c _ => [c]
  | .mRemove c _ => [c] | .mRemoveAt c _ => [c] | .mSet c _ _ => [c]
  | .hInsert v _ _ _ => [⟨.H, v⟩] | .hAppendRef v _ _ => [⟨.H, v⟩] | .hRemove v _ => [⟨.H, v⟩]
  | .hRemoveAt v _ => [⟨.H, v⟩] | .hSet v _ _ => [⟨.H, v⟩]
  | .sInsert v _ _ => [⟨.S, v⟩] | .sAppendRef v _ => [⟨.S, v⟩] | .sAppendSet v _ => [⟨.S, v⟩] | .sRemove v _ => [⟨.S, v⟩]
  | .sRemoveRef v _ => [⟨.S, v⟩] | .sRemoveSet v _ => [⟨.S, v⟩] | .sRemoveAt v _ => [⟨.S, v⟩]
  | .pAppend v _ => [⟨.P, v⟩] | .pRemove v _ => [⟨.P, v⟩] | .pRemoveRef v _ => [⟨.P, v⟩]
  | .qAppend v _ _ => [⟨.Q, v⟩] | .qRemove v _ => [⟨.Q, v⟩] | .qRemoveAt v _ => [⟨.Q, v⟩] | .qRemoveRef v _ => [⟨.Q, v⟩]
  | .pRemoveChain v _ _ => [⟨.P, v⟩] | .qInsert v _ _ _ => [⟨.Q, v⟩] | .qRemoveChain v _ _ => [⟨.Q, v⟩]
  | _ => []

def Op.arrTargets : Op → List Nat
  | .new c => if c.k = .A then [c.v] else []
  | .newcap c _ => if c.k = .A then [c.v] else []
  | .copy c _ => if c.k = .A then [c.v] else []
  | .assign c _ => if c.k = .A then [c.v] else []
  | .clear c => if c.k = .A then [c.v] else []
  | .swap c w => if c.k = .A then [c.v, w] else []
  | .aAppend v _ => [v] | .aAppendRef v _ => [v] | .aAppendArr v _ => [v] | .aAppendPtr v _ _ => [v]
  | .aResize v _ _ => [v] | .aResizeRef v _ _ => [v] | .aReserve v _ => [v]
  | .aRemove v _ => [v] | .aRemoveIt v _ => [v] | .aSet v _ _ => [v]
  | _ => []

end Nstd.Life

namespace Nstd.Life.Ops
open Nstd.Life

-- E1: the alive flags ------------------------------------------------------------------------------------------

def AllAlive (st : State) : Prop :=
  (∀ c : Var, c.valid = true → (st.nodes c).alive = true) ∧ (∀ a, a ≤ 1 → (st.arrs a).alive = true)

/-- the alive flag of node variable c after the step, given the flag before -/
def nAlive : Micro → Var → Bool → Bool
  | .destroy c0, c, b => if c = c0 then false else b
  | .create c0, c, b => if c = c0 then true else b
  | _, _, b => b

def aAlive : Micro → Nat → Bool → Bool
  | .aDestroy a0, a, b => if a = a0 then false else b
  | .aCreate a0 _, a, b => if a = a0 then true else b
  | _, _, b => b

theorem alive_upd (f : Var → Node) (c : Var) (n : Node) (c' : Var) :
    (upd f c n c').alive = if c' = c then n.alive else (f c').alive := by
  simp only [upd]; split <;> rfl

theorem aalive_upd (f : Nat → Arr) (a : Nat) (x : Arr) (a' : Nat) :
    (upd f a x a').alive = if a' = a then x.alive else (f a').alive := by
  simp only [upd]; split <;> rfl

theorem insertNew_alive (st : State) (c : Var) (pos : Nat) (srcs : List (Nat × Option Loc × Option Nat)) (c' : Var) :
    ((insertNew st c pos srcs).nodes c').alive = (st.nodes c').alive := by
  obtain ⟨st1, hst1, a1⟩ : ∃ st1, st1 = (if c.k.isHash && (st.nodes c).data.isNone then allocData st c else st) ∧
      ∀ x, (st1.nodes x).alive = (st.nodes x).alive := by
    refine ⟨_, rfl, ?_⟩
    intro x
    by_cases hc : (c.k.isHash && (st.nodes c).data.isNone) = true
    · rw [if_pos hc]
      simp only [allocData, setNode_nodes, alloc_nodes, alive_upd]
      split
      · next h => rw [h]
      · rfl
    · rw [if_neg hc]
  obtain ⟨st2, hst2, a2⟩ : ∃ st2, st2 = (if (st1.nodes c).free.isEmpty then allocBlock st1 c else st1) ∧
      ∀ x, (st2.nodes x).alive = (st1.nodes x).alive := by
    refine ⟨_, rfl, ?_⟩
    intro x
    by_cases hc : (st1.nodes c).free.isEmpty = true
    · rw [if_pos hc]
      simp only [allocBlock, setNode_nodes, alloc_nodes, alive_upd]
      split
      · next h => rw [h]
      · rfl
    · rw [if_neg hc]
  have heq : insertNew st c pos srcs =
      (match (st2.nodes c).free with | it :: rest => useSlot st2 c pos it rest srcs | [] => st2) := by
    subst hst2 hst1; rfl
  rw [heq]
  cases (st2.nodes c).free with
  | nil => simp only; rw [a2, a1]
  | cons it rest =>
    simp only [useSlot, setNode_nodes, ctorList_nodes, alive_upd]
    split
    · next h => rw [h, a2, a1]
    · rw [a2, a1]

theorem exec_alive {st st' : State} (m : Micro) (he : exec' st m = some st') :
    (∀ c, (st'.nodes c).alive = nAlive m c (st.nodes c).alive) ∧
    (∀ a, (st'.arrs a).alive = aAlive m a (st.arrs a).alive) := by
  obtain ⟨evs, s⟩ := Stable.exec_sum m he
  cases m with
  | put c pos k v =>
    refine ⟨?_, fun a => by rw [s.farr a (by simp [Micro.arrTargets])]; rfl⟩
    intro x
    simp only [exec'] at he
    by_cases ha : (st.nodes c).alive = true
    · simp only [ha, Bool.not_true, Bool.false_eq_true, if_false] at he
      cases hkr : resolveOpt st k with
      | none => simp [hkr] at he
      | some kr =>
        simp only [hkr] at he
        cases hvr : resolveOpt st v with
        | none => simp [hvr] at he
        | some vr =>
          simp only [hvr] at he
          cases hsr : fieldSrcs c.k kr vr with
          | none => simp [hsr] at he
          | some srcs =>
            simp only [hsr] at he
            by_cases hpos : pos.getD (st.nodes c).items.length > (st.nodes c).items.length
            · simp [hpos] at he
            · simp only [hpos, if_false] at he
              rcases Stable.putResolved_cases c _ kr vr srcs he with ⟨q, rfl⟩ | ⟨it, vl, vp, _, _, rfl⟩ | rfl
              · exact insertNew_alive st c q srcs x
              · rfl
              · rfl
    · simp [ha] at he
  | assignVal c j src =>
    refine ⟨?_, fun a => by rw [s.farr a (by simp [Micro.arrTargets])]; rfl⟩
    intro x
    simp only [exec'] at he
    by_cases hf : 1 ∈ c.k.fields
    · cases hj : (st.nodes c).items[j]? with
      | none => simp [hf, hj] at he
      | some it =>
        cases hr : resolve st src with
        | none => simp [hf, hj, hr] at he
        | some lp =>
          obtain ⟨l, p⟩ := lp
          cases l with
          | none => simp [hf, hj, hr] at he
          | some l => simp [hf, hj, hr] at he; subst he; rfl
    · simp [hf] at he
  | remove c j =>
    refine ⟨?_, fun a => by rw [s.farr a (by simp [Micro.arrTargets])]; rfl⟩
    intro x
    simp only [exec'] at he
    cases hj : (st.nodes c).items[j]? with
    | none => simp [hj] at he
    | some it =>
      simp [hj] at he
      subst he
      simp only [removeAt, State.dtorItem, setNode_nodes, dtorLocs_nodes, alive_upd, nAlive]
      split
      · next h => rw [h]
      · rfl
  | removeKey c k =>
    refine ⟨?_, fun a => by rw [s.farr a (by simp [Micro.arrTargets])]; rfl⟩
    intro x
    simp only [exec'] at he
    cases hp : k.payload st with
    | none => simp [hp] at he
    | some kp =>
      cases hf : findField st 0 kp (st.nodes c).items with
      | none => simp [hp, hf] at he; subst he; rfl
      | some j =>
        cases hj : (st.nodes c).items[j]? with
        | none => simp [hp, hf, hj] at he
        | some it =>
          simp [hp, hf, hj] at he
          subst he
          simp only [removeAt, State.dtorItem, setNode_nodes, dtorLocs_nodes, alive_upd, nAlive]
          split
          · next h => rw [h]
          · rfl
  | removeVal c v =>
    refine ⟨?_, fun a => by rw [s.farr a (by simp [Micro.arrTargets])]; rfl⟩
    intro x
    simp only [exec'] at he
    cases hp : v.payload st with
    | none => simp [hp] at he
    | some vp =>
      cases hf : findField st 1 vp (st.nodes c).items with
      | none => simp [hp, hf] at he; subst he; rfl
      | some j =>
        cases hj : (st.nodes c).items[j]? with
        | none => simp [hp, hf, hj] at he
        | some it =>
          simp [hp, hf, hj] at he
          subst he
          simp only [removeAt, State.dtorItem, setNode_nodes, dtorLocs_nodes, alive_upd, nAlive]
          split
          · next h => rw [h]
          · rfl
  | clear c =>
    refine ⟨?_, fun a => by rw [s.farr a (by simp [Micro.arrTargets])]; rfl⟩
    intro x
    simp only [exec'] at he
    cases hA : (st.nodes c).alive with
    | false => simp [hA] at he
    | true =>
      have hg : ¬ ((!(st.nodes c).alive) = true) := by simp [hA]
      rw [if_neg hg] at he
      have he := Option.some.inj he
      subst he
      simp only [State.dtorItems, setNode_nodes, dtorLocs_nodes, alive_upd, nAlive]
      split
      · next h => rw [h]
      · rfl
  | destroy c =>
    refine ⟨?_, fun a => by rw [s.farr a (by simp [Micro.arrTargets])]; rfl⟩
    intro x
    by_cases hx : x = c
    · subst hx
      simp only [exec'] at he
      cases hA : (st.nodes x).alive with
      | false => simp [hA] at he
      | true =>
        have hg : ¬ ((!(st.nodes x).alive) = true) := by simp [hA]
        rw [if_neg hg] at he
        have he := Option.some.inj he
        subst he
        simp [nAlive]
    · rw [s.fnode x (by simp [Micro.nodeTargets, hx])]
      simp [nAlive, hx]
  | create c =>
    refine ⟨?_, fun a => by rw [s.farr a (by simp [Micro.arrTargets])]; rfl⟩
    intro x
    by_cases hx : x = c
    · subst hx
      simp only [exec'] at he
      cases hA : (st.nodes x).alive with
      | true => simp [hA] at he
      | false =>
        have hg : ¬ ((st.nodes x).alive = true) := by simp [hA]
        rw [if_neg hg] at he
        have he := Option.some.inj he
        subst he
        simp [nAlive]
    · rw [s.fnode x (by simp [Micro.nodeTargets, hx])]
      simp [nAlive, hx]
  | swap c d =>
    refine ⟨?_, fun a => by rw [s.farr a (by simp [Micro.arrTargets])]; rfl⟩
    intro x
    simp only [exec'] at he
    by_cases hg : (!(st.nodes c).alive || !(st.nodes d).alive || c.k != d.k) = true
    · simp [hg] at he
    · rw [if_neg hg] at he
      have he := Option.some.inj he
      subst he
      simp only [Bool.or_eq_true, Bool.not_eq_true', bne_iff_ne, ne_eq, not_or, Bool.not_eq_false,
        Decidable.not_not] at hg
      obtain ⟨⟨hac, had⟩, _⟩ := hg
      simp only [setNode_nodes, alive_upd, nAlive]
      split
      · next h => rw [h, hac, had]
      · split
        · next h => rw [h, hac, had]
        · rfl
  | aReserve a n =>
    refine ⟨fun c => by rw [s.fnode c (by simp [Micro.nodeTargets])]; rfl, ?_⟩
    intro x
    simp only [exec'] at he
    cases hA : (st.arrs a).alive with
    | false => simp [hA] at he
    | true =>
      have hg : ¬ ((!(st.arrs a).alive) = true) := by simp [hA]
      rw [if_neg hg] at he
      by_cases hc : (decide (n > (st.arrs a).cap) || (st.arrs a).store.isNone && decide (n > 0)) = true
      · rw [if_pos hc] at he
        have he := Option.some.inj he
        subst he
        simp only [aAlive, setArr_arrs, aalive_upd]
        split
        · next h => rw [h]
        · cases (st.arrs a).store <;> simp [Stable.reserveCopy_arrs]
      · rw [if_neg hc] at he
        have he := Option.some.inj he
        subst he; rfl
  | aPush a src =>
    refine ⟨fun c => by rw [s.fnode c (by simp [Micro.nodeTargets])]; rfl, ?_⟩
    intro x
    simp only [exec'] at he
    cases hs : (st.arrs a).store with
    | none => simp [hs] at he
    | some s' =>
      by_cases hj : (st.arrs a).size ≥ (st.arrs a).cap
      · simp [hs, hj] at he
      · cases hr : resolve st src with
        | none => simp [hs, hj, hr] at he
        | some lp =>
          obtain ⟨l, p⟩ := lp
          simp [hs, hj, hr] at he
          subst he
          simp only [aAlive, setArr_arrs, ctor_arrs, aalive_upd]
          split
          · next h => rw [h]
          · rfl
  | aTruncate a n =>
    refine ⟨fun c => by rw [s.fnode c (by simp [Micro.nodeTargets])]; rfl, ?_⟩
    intro x
    simp only [exec'] at he
    cases hA : (st.arrs a).alive with
    | false => simp [hA] at he
    | true =>
      have hg : ¬ ((!(st.arrs a).alive) = true) := by simp [hA]
      rw [if_neg hg] at he
      cases hs : (st.arrs a).store with
      | none => simp only [hs, Option.some.injEq] at he; subst he; rfl
      | some s' =>
        by_cases hn : n < (st.arrs a).size
        · simp only [hs, hn, if_true, Option.some.injEq] at he
          subst he
          simp only [aAlive, setArr_arrs, dtorRange, dtorLocs_arrs, aalive_upd]
          split
          · next h => rw [h]
          · rfl
        · simp only [hs, hn, if_false, Option.some.injEq] at he
          subst he; rfl
  | aAssign a j src =>
    refine ⟨fun c => by rw [s.fnode c (by simp [Micro.nodeTargets])]; rfl, ?_⟩
    intro x
    simp only [exec'] at he
    cases hs : (st.arrs a).store with
    | none => simp [hs] at he
    | some s' =>
      by_cases hj : j ≥ (st.arrs a).size
      · simp [hs, hj] at he
      · cases hr : resolve st src with
        | none => simp [hs, hj, hr] at he
        | some lp =>
          obtain ⟨l, p⟩ := lp
          cases l with
          | none => simp [hs, hj, hr] at he
          | some l => simp [hs, hj, hr] at he; subst he; rfl
  | aRemove a j =>
    refine ⟨fun c => by rw [s.fnode c (by simp [Micro.nodeTargets])]; rfl, ?_⟩
    intro x
    simp only [exec'] at he
    cases hs : (st.arrs a).store with
    | none => simp [hs] at he
    | some s' =>
      by_cases hj : j ≥ (st.arrs a).size
      · simp [hs, hj] at he
      · simp [hs, hj] at he
        subst he
        simp only [aAlive, setArr_arrs, dtor_arrs, Stable.shiftDown_arrs, aalive_upd]
        split
        · next h => rw [h]
        · rfl
  | aDestroy a =>
    refine ⟨fun c => by rw [s.fnode c (by simp [Micro.nodeTargets])]; rfl, ?_⟩
    intro x
    by_cases hx : x = a
    · subst hx
      simp only [exec'] at he
      cases hA : (st.arrs x).alive with
      | false => simp [hA] at he
      | true =>
        have hg : ¬ ((!(st.arrs x).alive) = true) := by simp [hA]
        rw [if_neg hg] at he
        have he := Option.some.inj he
        subst he
        simp [aAlive, upd_same]
    · rw [s.farr x (by simp [Micro.arrTargets, hx])]
      simp [aAlive, hx]
  | aCreate a cap =>
    refine ⟨fun c => by rw [s.fnode c (by simp [Micro.nodeTargets])]; rfl, ?_⟩
    intro x
    by_cases hx : x = a
    · subst hx
      simp only [exec'] at he
      cases hA : (st.arrs x).alive with
      | true => simp [hA] at he
      | false =>
        have hg : ¬ ((st.arrs x).alive = true) := by simp [hA]
        rw [if_neg hg] at he
        have he := Option.some.inj he
        subst he
        simp [aAlive, upd_same]
    · rw [s.farr x (by simp [Micro.arrTargets, hx])]
      simp [aAlive, hx]
  | aSwap a b =>
    refine ⟨fun c => by rw [s.fnode c (by simp [Micro.nodeTargets])]; rfl, ?_⟩
    intro x
    simp only [exec'] at he
    by_cases hg : (!(st.arrs a).alive || !(st.arrs b).alive) = true
    · simp [hg] at he
    · rw [if_neg hg] at he
      have he := Option.some.inj he
      subst he
      simp only [Bool.or_eq_true, Bool.not_eq_true', not_or, Bool.not_eq_false] at hg
      obtain ⟨hac, had⟩ := hg
      simp only [setArr_arrs, aalive_upd, aAlive]
      split
      · next h => rw [h, hac, had]
      · split
        · next h => rw [h, hac, had]
        · rfl

theorem insertNew_per (st : State) (c : Var) (pos : Nat) (srcs : List (Nat × Option Loc × Option Nat)) :
    (insertNew st c pos srcs).per = st.per := by
  obtain ⟨st1, hst1, a1⟩ : ∃ st1, st1 = (if c.k.isHash && (st.nodes c).data.isNone then allocData st c else st) ∧
      st1.per = st.per := by
    refine ⟨_, rfl, ?_⟩
    by_cases hc : (c.k.isHash && (st.nodes c).data.isNone) = true
    · rw [if_pos hc]; rfl
    · rw [if_neg hc]
  obtain ⟨st2, hst2, a2⟩ : ∃ st2, st2 = (if (st1.nodes c).free.isEmpty then allocBlock st1 c else st1) ∧
      st2.per = st1.per := by
    refine ⟨_, rfl, ?_⟩
    by_cases hc : (st1.nodes c).free.isEmpty = true
    · rw [if_pos hc]; rfl
    · rw [if_neg hc]
  have heq : insertNew st c pos srcs =
      (match (st2.nodes c).free with | it :: rest => useSlot st2 c pos it rest srcs | [] => st2) := by
    subst hst2 hst1; rfl
  rw [heq]
  cases (st2.nodes c).free with
  | nil => simp only; rw [a2, a1]
  | cons it rest => simp only [useSlot, setNode_per, ctorList_per]; rw [a2, a1]

/-- no step changes the table of items per block -/
theorem exec'_per {st st' : State} (m : Micro) (he : exec' st m = some st') : st'.per = st.per := by
  cases m with
  | put c pos k v =>
    simp only [exec'] at he
    by_cases ha : (st.nodes c).alive = true
    · simp only [ha, Bool.not_true, Bool.false_eq_true, if_false] at he
      cases hkr : resolveOpt st k with
      | none => simp [hkr] at he
      | some kr =>
        simp only [hkr] at he
        cases hvr : resolveOpt st v with
        | none => simp [hvr] at he
        | some vr =>
          simp only [hvr] at he
          cases hsr : fieldSrcs c.k kr vr with
          | none => simp [hsr] at he
          | some srcs =>
            simp only [hsr] at he
            by_cases hpos : pos.getD (st.nodes c).items.length > (st.nodes c).items.length
            · simp [hpos] at he
            · simp only [hpos, if_false] at he
              rcases Stable.putResolved_cases c _ kr vr srcs he with ⟨q, rfl⟩ | ⟨it, vl, vp, _, _, rfl⟩ | rfl
              · exact insertNew_per st c q srcs
              · rfl
              · rfl
    · simp [ha] at he
  | assignVal c j src =>
    simp only [exec'] at he
    by_cases hf : 1 ∈ c.k.fields
    · cases hj : (st.nodes c).items[j]? with
      | none => simp [hf, hj] at he
      | some it =>
        cases hr : resolve st src with
        | none => simp [hf, hj, hr] at he
        | some lp =>
          obtain ⟨l, p⟩ := lp
          cases l with
          | none => simp [hf, hj, hr] at he
          | some l => simp [hf, hj, hr] at he; subst he; rfl
    · simp [hf] at he
  | remove c j =>
    simp only [exec'] at he
    cases hj : (st.nodes c).items[j]? with
    | none => simp [hj] at he
    | some it => simp [hj] at he; subst he; simp [removeAt, State.dtorItem]
  | removeKey c k =>
    simp only [exec'] at he
    cases hp : k.payload st with
    | none => simp [hp] at he
    | some kp =>
      cases hf : findField st 0 kp (st.nodes c).items with
      | none => simp [hp, hf] at he; subst he; rfl
      | some j =>
        cases hj : (st.nodes c).items[j]? with
        | none => simp [hp, hf, hj] at he
        | some it => simp [hp, hf, hj] at he; subst he; simp [removeAt, State.dtorItem]
  | removeVal c v =>
    simp only [exec'] at he
    cases hp : v.payload st with
    | none => simp [hp] at he
    | some vp =>
      cases hf : findField st 1 vp (st.nodes c).items with
      | none => simp [hp, hf] at he; subst he; rfl
      | some j =>
        cases hj : (st.nodes c).items[j]? with
        | none => simp [hp, hf, hj] at he
        | some it => simp [hp, hf, hj] at he; subst he; simp [removeAt, State.dtorItem]
  | clear c =>
    simp only [exec'] at he
    cases hA : (st.nodes c).alive with
    | false => simp [hA] at he
    | true =>
      have hg : ¬ ((!(st.nodes c).alive) = true) := by simp [hA]
      rw [if_neg hg] at he
      have he := Option.some.inj he
      subst he; simp [State.dtorItems]
  | destroy c =>
    simp only [exec'] at he
    cases hA : (st.nodes c).alive with
    | false => simp [hA] at he
    | true =>
      have hg : ¬ ((!(st.nodes c).alive) = true) := by simp [hA]
      rw [if_neg hg] at he
      have he := Option.some.inj he
      subst he
      cases (st.nodes c).data <;> simp [State.dtorItems]
  | create c =>
    simp only [exec'] at he
    cases hA : (st.nodes c).alive with
    | true => simp [hA] at he
    | false =>
      have hg : ¬ ((st.nodes c).alive = true) := by simp [hA]
      rw [if_neg hg] at he
      have he := Option.some.inj he
      subst he; simp
  | swap c d =>
    simp only [exec'] at he
    by_cases hg : (!(st.nodes c).alive || !(st.nodes d).alive || c.k != d.k) = true
    · simp [hg] at he
    · rw [if_neg hg] at he
      have he := Option.some.inj he
      subst he; rfl
  | aReserve a n =>
    simp only [exec'] at he
    cases hA : (st.arrs a).alive with
    | false => simp [hA] at he
    | true =>
      have hg : ¬ ((!(st.arrs a).alive) = true) := by simp [hA]
      rw [if_neg hg] at he
      by_cases hc : (decide (n > (st.arrs a).cap) || (st.arrs a).store.isNone && decide (n > 0)) = true
      · rw [if_pos hc] at he
        have he := Option.some.inj he
        subst he
        cases (st.arrs a).store <;> simp
      · rw [if_neg hc] at he
        have he := Option.some.inj he
        subst he; rfl
  | aPush a src =>
    simp only [exec'] at he
    cases hs : (st.arrs a).store with
    | none => simp [hs] at he
    | some s' =>
      by_cases hj : (st.arrs a).size ≥ (st.arrs a).cap
      · simp [hs, hj] at he
      · cases hr : resolve st src with
        | none => simp [hs, hj, hr] at he
        | some lp =>
          obtain ⟨l, p⟩ := lp
          simp [hs, hj, hr] at he
          subst he; rfl
  | aTruncate a n =>
    simp only [exec'] at he
    cases hA : (st.arrs a).alive with
    | false => simp [hA] at he
    | true =>
      have hg : ¬ ((!(st.arrs a).alive) = true) := by simp [hA]
      rw [if_neg hg] at he
      cases hs : (st.arrs a).store with
      | none => simp only [hs, Option.some.injEq] at he; subst he; rfl
      | some s' =>
        by_cases hn : n < (st.arrs a).size
        · simp only [hs, hn, if_true, Option.some.injEq] at he
          subst he; simp [dtorRange]
        · simp only [hs, hn, if_false, Option.some.injEq] at he
          subst he; rfl
  | aAssign a j src =>
    simp only [exec'] at he
    cases hs : (st.arrs a).store with
    | none => simp [hs] at he
    | some s' =>
      by_cases hj : j ≥ (st.arrs a).size
      · simp [hs, hj] at he
      · cases hr : resolve st src with
        | none => simp [hs, hj, hr] at he
        | some lp =>
          obtain ⟨l, p⟩ := lp
          cases l with
          | none => simp [hs, hj, hr] at he
          | some l => simp [hs, hj, hr] at he; subst he; rfl
  | aRemove a j =>
    simp only [exec'] at he
    cases hs : (st.arrs a).store with
    | none => simp [hs] at he
    | some s' =>
      by_cases hj : j ≥ (st.arrs a).size
      · simp [hs, hj] at he
      · simp [hs, hj] at he
        subst he; simp
  | aDestroy a =>
    simp only [exec'] at he
    cases hA : (st.arrs a).alive with
    | false => simp [hA] at he
    | true =>
      have hg : ¬ ((!(st.arrs a).alive) = true) := by simp [hA]
      rw [if_neg hg] at he
      have he := Option.some.inj he
      subst he
      cases (st.arrs a).store <;> simp [dtorRange]
  | aCreate a cap =>
    simp only [exec'] at he
    cases hA : (st.arrs a).alive with
    | true => simp [hA] at he
    | false =>
      have hg : ¬ ((st.arrs a).alive = true) := by simp [hA]
      rw [if_neg hg] at he
      have he := Option.some.inj he
      subst he; rfl
  | aSwap a b =>
    simp only [exec'] at he
    by_cases hg : (!(st.arrs a).alive || !(st.arrs b).alive) = true
    · simp [hg] at he
    · rw [if_neg hg] at he
      have he := Option.some.inj he
      subst he; rfl

theorem exec_per {st st' : State} (m : Micro) (he : exec st m = some st') : st'.per = st.per :=
  exec'_per m (Stable.exec_exec' he)

theorem execAll_per {st st' : State} (ms : List Micro) (he : execAll st ms = some st') : st'.per = st.per := by
  induction ms generalizing st with
  | nil => simp only [execAll, Option.some.injEq] at he; subst he; rfl
  | cons m rest ih =>
    simp only [execAll] at he
    cases hm : exec st m with
    | none => rw [hm] at he; cases he
    | some s1 => rw [hm] at he; rw [ih he, exec_per m hm]

theorem step_per (st : State) (op : Op) : (step st op).per = st.per := by
  unfold step stepRes
  cases hc : compile st op with
  | none => rfl
  | some ms =>
    simp only
    cases he : execAll st ms with
    | none => rfl
    | some st' => exact execAll_per ms he

theorem run_per (st : State) (ops : List Op) : (run st ops).per = st.per := by
  induction ops generalizing st with
  | nil => rfl
  | cons op rest ih => simp only [run]; rw [ih, step_per]

theorem init_per (p : Per) : (init p).per = p := by
  rw [execAll_per createAll (init_defined p)]; rfl

/-- the table of items per block of a reachable state is the one the history started with -/
theorem reach_per (p : Per) (ops : List Op) : (run (init p) ops).per = p := by
  rw [run_per, init_per]

/-- the steps that do not construct / destroy a variable -/
def plain : Micro → Bool
  | .destroy _ => false | .create _ => false | .aDestroy _ => false | .aCreate _ _ => false
  | _ => true

/-- the lists `compile` produces: a variable is destroyed only to be re-created at once -/
def Shape (ms : List Micro) : Prop :=
  ms.all plain = true ∨ (∃ c rest, ms = .destroy c :: .create c :: rest ∧ rest.all plain = true) ∨
    (∃ a n rest, ms = .aDestroy a :: .aCreate a n :: rest ∧ rest.all plain = true)

theorem guard_some {b : Bool} {ms ms' : List Micro} (h : guard' b ms = some ms') : b = true ∧ ms' = ms := by
  unfold guard' at h
  cases b with
  | true => simp at h; exact ⟨rfl, h.symm⟩
  | false => simp at h

/-- the compiled steps of `sort()` -/
theorem sortMicros_getD_ok (st : State) (v : Nat) (orc : List Bool) :
    SortOk ⟨.L, v⟩ (st.nodes ⟨.L, v⟩).items.length ((sortMicros st v orc).getD []) := by
  obtain ⟨ms, h, ok⟩ := sortMicros_ok st v orc
  rw [h]; exact ok

set_option linter.unusedSimpArgs false in
theorem compile_shape {st : State} {op : Op} {ms : List Micro} (h : compile st op = some ms) : Shape ms := by
  cases op <;> simp only [compile] at h <;> obtain ⟨_, rfl⟩ := guard_some h <;>
    (repeat' split) <;>
    first
    | (left; simp [plain, copyItems, List.all_eq_true]; done)
    | (right; left; exact ⟨_, _, rfl, by simp [plain, copyItems, List.all_eq_true]⟩)
    | (right; right; exact ⟨_, _, _, rfl, by simp [plain, copyItems, List.all_eq_true]⟩)
    | (left; exact List.all_eq_true.mpr (fun m hm => by
        obtain ⟨j, src, rfl, _⟩ := sortMicros_getD_ok _ _ _ m hm; rfl))

def FlagsSame (st st' : State) : Prop :=
  (∀ c, (st'.nodes c).alive = (st.nodes c).alive) ∧ (∀ a, (st'.arrs a).alive = (st.arrs a).alive)

theorem FlagsSame.refl (st : State) : FlagsSame st st := ⟨fun _ => rfl, fun _ => rfl⟩

theorem FlagsSame.trans {a b c : State} (h1 : FlagsSame a b) (h2 : FlagsSame b c) : FlagsSame a c :=
  ⟨fun x => by rw [h2.1, h1.1], fun x => by rw [h2.2, h1.2]⟩

theorem exec_plain {st st' : State} {m : Micro} (hp : plain m = true) (he : exec st m = some st') :
    FlagsSame st st' := by
  obtain ⟨h1, h2⟩ := exec_alive m (Stable.exec_exec' he)
  constructor
  · intro c; rw [h1]; cases m <;> simp [plain] at hp <;> rfl
  · intro a; rw [h2]; cases m <;> simp [plain] at hp <;> rfl

theorem execAll_plain {st st' : State} (ms : List Micro) (hp : ms.all plain = true)
    (he : execAll st ms = some st') : FlagsSame st st' := by
  induction ms generalizing st with
  | nil => simp only [execAll, Option.some.injEq] at he; subst he; exact FlagsSame.refl _
  | cons m rest ih =>
    simp only [List.all_cons, Bool.and_eq_true] at hp
    simp only [execAll] at he
    cases hm : exec st m with
    | none => rw [hm] at he; cases he
    | some s1 =>
      rw [hm] at he
      exact (exec_plain hp.1 hm).trans (ih hp.2 he)

theorem destroy_create_flags {st s1 s2 : State} (c : Var) (h1 : exec st (.destroy c) = some s1)
    (h2 : exec s1 (.create c) = some s2) : FlagsSame st s2 := by
  have h1' := Stable.exec_exec' h1
  have ha : (st.nodes c).alive = true := by
    simp only [exec'] at h1'
    cases hA : (st.nodes c).alive with
    | false => simp [hA] at h1'
    | true => rfl
  obtain ⟨a1, b1⟩ := exec_alive _ h1'
  obtain ⟨a2, b2⟩ := exec_alive _ (Stable.exec_exec' h2)
  constructor
  · intro x
    rw [a2, a1]
    simp only [nAlive]
    by_cases hx : x = c
    · simp [hx, ha]
    · simp [hx]
  · intro a; rw [b2, b1]; rfl

theorem aDestroy_aCreate_flags {st s1 s2 : State} (a n : Nat) (h1 : exec st (.aDestroy a) = some s1)
    (h2 : exec s1 (.aCreate a n) = some s2) : FlagsSame st s2 := by
  have h1' := Stable.exec_exec' h1
  have ha : (st.arrs a).alive = true := by
    simp only [exec'] at h1'
    cases hA : (st.arrs a).alive with
    | false => simp [hA] at h1'
    | true => rfl
  obtain ⟨a1, b1⟩ := exec_alive _ h1'
  obtain ⟨a2, b2⟩ := exec_alive _ (Stable.exec_exec' h2)
  constructor
  · intro c; rw [a2, a1]; rfl
  · intro x
    rw [b2, b1]
    simp only [aAlive]
    by_cases hx : x = a
    · simp [hx, ha]
    · simp [hx]

theorem execAll_shape {st st' : State} (ms : List Micro) (hs : Shape ms) (he : execAll st ms = some st') :
    FlagsSame st st' := by
  rcases hs with hp | ⟨c, rest, rfl, hp⟩ | ⟨a, n, rest, rfl, hp⟩
  · exact execAll_plain ms hp he
  · simp only [execAll] at he
    cases h1 : exec st (.destroy c) with
    | none => rw [h1] at he; cases he
    | some s1 =>
      rw [h1] at he
      simp only at he
      cases h2 : exec s1 (.create c) with
      | none => rw [h2] at he; cases he
      | some s2 =>
        rw [h2] at he
        exact (destroy_create_flags c h1 h2).trans (execAll_plain rest hp he)
  · simp only [execAll] at he
    cases h1 : exec st (.aDestroy a) with
    | none => rw [h1] at he; cases he
    | some s1 =>
      rw [h1] at he
      simp only at he
      cases h2 : exec s1 (.aCreate a n) with
      | none => rw [h2] at he; cases he
      | some s2 =>
        rw [h2] at he
        exact (aDestroy_aCreate_flags a n h1 h2).trans (execAll_plain rest hp he)

theorem step_flags (st : State) (op : Op) : FlagsSame st (step st op) := by
  unfold step stepRes
  cases hc : compile st op with
  | none => exact FlagsSame.refl _
  | some ms =>
    simp only
    cases he : execAll st ms with
    | none => exact FlagsSame.refl _
    | some st' => exact execAll_shape ms (compile_shape hc) he

theorem AllAlive.of_flags {st st' : State} (h : AllAlive st) (f : FlagsSame st st') : AllAlive st' :=
  ⟨fun c hc => by rw [f.1]; exact h.1 c hc, fun a ha => by rw [f.2]; exact h.2 a ha⟩

theorem allAlive_run {st : State} (h : AllAlive st) (ops : List Op) : AllAlive (run st ops) := by
  induction ops generalizing st with
  | nil => exact h
  | cons op rest ih => exact ih (h.of_flags (step_flags st op))

theorem init_nodes_alive (p : Per) : ∀ c, c ∈ nodeVars → ((init p).nodes c).alive = true := by
  intro c hc
  simp only [nodeVars, nodeKinds, List.flatMap_cons, List.flatMap_nil, List.append_nil, List.cons_append,
    List.nil_append, List.mem_cons, List.not_mem_nil, or_false] at hc
  rcases hc with rfl | rfl | rfl | rfl | rfl | rfl | rfl | rfl | rfl | rfl | rfl | rfl | rfl | rfl <;> rfl
theorem init_arrs_alive (p : Per) : ((init p).arrs 0).alive = true ∧ ((init p).arrs 1).alive = true := ⟨rfl, rfl⟩
theorem nodeVars_nodup : nodeVars.Nodup := by decide
theorem nodeVars_valid : ∀ c, c ∈ nodeVars → c.valid = true := by decide

theorem allAlive_init (p : Per) : AllAlive (init p) := by
  constructor
  · intro c hc; exact init_nodes_alive p c (valid_mem_nodeVars c hc)
  · intro a ha
    have : a = 0 ∨ a = 1 := by omega
    rcases this with rfl | rfl
    · exact (init_arrs_alive p).1
    · exact (init_arrs_alive p).2

/-- in every reachable state all sixteen variables are alive -/
theorem allAlive_reach (p : Per) (ops : List Op) : AllAlive (run (init p) ops) := allAlive_run (allAlive_init p) ops

theorem destroyList_defined : ∀ (vars : List Var) (st : State), vars.Nodup →
    (∀ c, c ∈ vars → c.valid = true ∧ (st.nodes c).alive = true) →
    ∃ st', execAll st (vars.map .destroy) = some st'
  | [], st, _, _ => ⟨st, rfl⟩
  | v :: rest, st, hnd, hv => by
    rw [List.nodup_cons] at hnd
    obtain ⟨hvv, hva⟩ := hv v (by simp)
    have h1 : ∃ s1, exec st (.destroy v) = some s1 := by
      simp [exec, Micro.valid, exec', hvv, hva]
    obtain ⟨s1, h1⟩ := h1
    obtain ⟨hn, _⟩ := exec_destroy_nodes v h1
    obtain ⟨st', h2⟩ := destroyList_defined rest s1 hnd.2 (by
      intro c hc
      have hne : c ≠ v := fun e => hnd.1 (e ▸ hc)
      obtain ⟨h3, h4⟩ := hv c (by simp [hc])
      exact ⟨h3, by rw [hn, upd_other _ _ _ _ hne]; exact h4⟩)
    exact ⟨st', by simp only [List.map_cons, execAll, h1]; exact h2⟩

theorem destroyAll_defined {st : State} (h : AllAlive st) : ∃ st', execAll st destroyAll = some st' := by
  have h0 : ∃ s0, exec st (.aDestroy 0) = some s0 := by
    simp [exec, Micro.valid, exec', h.2 0 (by omega)]
  obtain ⟨s0, h0⟩ := h0
  obtain ⟨a0, n0⟩ := exec_aDestroy_arrs 0 h0
  have h1 : ∃ s1, exec s0 (.aDestroy 1) = some s1 := by
    have : (s0.arrs 1).alive = true := by
      rw [a0, upd_other _ _ _ _ (by omega)]; exact h.2 1 (by omega)
    simp [exec, Micro.valid, exec', this]
  obtain ⟨s1, h1⟩ := h1
  obtain ⟨a1, n1⟩ := exec_aDestroy_arrs 1 h1
  obtain ⟨st', h2⟩ := destroyList_defined nodeVars s1 nodeVars_nodup (by
    intro c hc
    have hv := nodeVars_valid c hc
    exact ⟨hv, by rw [n1, n0]; exact h.1 c hv⟩)
  exact ⟨st', by simp only [destroyAll, List.cons_append, List.nil_append, execAll, h0, h1]; exact h2⟩

/-- the destructors of the sixteen variables are executable after every history -/
theorem finish_defined (p : Per) (ops : List Op) : ∃ st', execAll (run (init p) ops) destroyAll = some st' :=
  destroyAll_defined (allAlive_reach p ops)

-- E2: the pool containers at operation level ---------------------------------------------------------------

theorem compile_pool {st : State} {op : Op} {ms : List Micro} (hp : op.isPoolOp = true)
    (h : compile st op = some ms) : ∀ m, m ∈ ms → m.poolForm = true := by
  cases op <;> simp [Op.isPoolOp] at hp <;> simp only [compile] at h <;> obtain ⟨_, rfl⟩ := guard_some h <;>
    (repeat' split) <;> simp_all [Micro.poolForm, Kind.isPool]

theorem execAll_pool {st st' : State} (ms : List Micro) (hp : ∀ m, m ∈ ms → m.poolForm = true)
    (he : execAll st ms = some st') : ∃ evs, st'.log = st.log ++ evs ∧ ∀ e, e ∈ evs → ¬ e.copiesElement := by
  induction ms generalizing st with
  | nil =>
    simp only [execAll, Option.some.injEq] at he; subst he
    exact ⟨[], by simp, fun e he => by cases he⟩
  | cons m rest ih =>
    simp only [execAll] at he
    cases hm : exec st m with
    | none => rw [hm] at he; cases he
    | some s1 =>
      rw [hm] at he
      obtain ⟨e1, l1, c1⟩ := Stable.exec_pool m (hp m (by simp)) hm
      obtain ⟨e2, l2, c2⟩ := ih (fun m' hm' => hp m' (by simp [hm'])) he
      refine ⟨e1 ++ e2, by rw [l2, l1, List.append_assoc], ?_⟩
      intro e he'
      rcases List.mem_append.mp he' with h | h
      · exact c1 e h
      · exact c2 e h

/-- the operations of PoolList / PoolMap construct their value objects in place and never assign -/
theorem step_pool (st : State) (op : Op) (hp : op.isPoolOp = true) :
    ∃ evs, (step st op).log = st.log ++ evs ∧ ∀ e, e ∈ evs → ¬ e.copiesElement := by
  have hnone : ∃ evs, st.log = st.log ++ evs ∧ ∀ e, e ∈ evs → ¬ e.copiesElement :=
    ⟨[], by simp, fun e he => by cases he⟩
  unfold step stepRes
  cases hc : compile st op with
  | none => exact hnone
  | some ms =>
    simp only
    cases he : execAll st ms with
    | none => exact hnone
    | some st' => exact execAll_pool ms (compile_pool hp hc) he

-- E3: independence at operation level ------------------------------------------------------------------------

theorem compile_targets {st : State} {op : Op} {ms : List Micro} (h : compile st op = some ms) :
    ∀ m, m ∈ ms → (∀ c, c ∈ m.nodeTargets → c ∈ op.nodeTargets) ∧ (∀ a, a ∈ m.arrTargets → a ∈ op.arrTargets) := by
  cases op <;> simp only [compile] at h <;> obtain ⟨_, rfl⟩ := guard_some h <;>
    simp only [Op.nodeTargets, Op.arrTargets] <;> (repeat' split) <;>
    first
    | (simp_all [Micro.nodeTargets, Micro.arrTargets, copyItems]; done)
    | (intro m hm; obtain ⟨j, src, rfl, _⟩ := sortMicros_getD_ok _ _ _ m hm; simp [Micro.nodeTargets, Micro.arrTargets])

theorem execAll_frame_node {st st' : State} (h : SInv st) (ms : List Micro) (c : Var)
    (hms : ∀ m, m ∈ ms → c ∉ m.nodeTargets) (he : execAll st ms = some st') :
    st'.nodes c = st.nodes c ∧ ∀ it f, it ∈ (st.nodes c).items → st'.mem (it.loc f) = st.mem (it.loc f) := by
  induction ms generalizing st with
  | nil => simp only [execAll, Option.some.injEq] at he; subst he; exact ⟨rfl, fun _ _ _ => rfl⟩
  | cons m rest ih =>
    simp only [execAll] at he
    cases hm : exec st m with
    | none => rw [hm] at he; cases he
    | some s1 =>
      rw [hm] at he
      obtain ⟨n1, m1⟩ := Stable.exec_frame_node h m hm c (hms m (by simp))
      obtain ⟨n2, m2⟩ := ih (exec_ok h m hm).1 (fun m' hm' => hms m' (by simp [hm'])) he
      refine ⟨by rw [n2, n1], ?_⟩
      intro it f hi
      rw [m2 it f (by rw [n1]; exact hi), m1 it f hi]

theorem execAll_frame_arr {st st' : State} (h : SInv st) (ms : List Micro) (a : Nat)
    (hms : ∀ m, m ∈ ms → a ∉ m.arrTargets) (he : execAll st ms = some st') :
    st'.arrs a = st.arrs a ∧
      ∀ s i, (st.arrs a).store = some s → i < (st.arrs a).size → st'.mem (.heap s i 1) = st.mem (.heap s i 1) := by
  induction ms generalizing st with
  | nil => simp only [execAll, Option.some.injEq] at he; subst he; exact ⟨rfl, fun _ _ _ _ => rfl⟩
  | cons m rest ih =>
    simp only [execAll] at he
    cases hm : exec st m with
    | none => rw [hm] at he; cases he
    | some s1 =>
      rw [hm] at he
      obtain ⟨n1, m1⟩ := Stable.exec_frame_arr h m hm a (hms m (by simp))
      obtain ⟨n2, m2⟩ := ih (exec_ok h m hm).1 (fun m' hm' => hms m' (by simp [hm'])) he
      refine ⟨by rw [n2, n1], ?_⟩
      intro s i hs hi
      rw [m2 s i (by rw [n1]; exact hs) (by rw [n1]; exact hi), m1 s i hs hi]

theorem absNode_congr {st st' : State} (c : Var) (hn : st'.nodes c = st.nodes c)
    (hm : ∀ it f, it ∈ (st.nodes c).items → st'.mem (it.loc f) = st.mem (it.loc f)) :
    absNode st' c = absNode st c := by
  unfold absNode
  rw [hn]
  apply List.map_congr_left
  intro it hit
  simp only [keyOf, valOf, hm it _ hit]

theorem absArr_congr {st st' : State} (a : Nat) (ha : st'.arrs a = st.arrs a)
    (hm : ∀ s i, (st.arrs a).store = some s → i < (st.arrs a).size → st'.mem (.heap s i 1) = st.mem (.heap s i 1)) :
    absArr st' a = absArr st a := by
  unfold absArr
  rw [ha]
  cases hs : (st.arrs a).store with
  | none => rfl
  | some s =>
    simp only
    apply List.map_congr_left
    intro i hi
    exact hm s i hs (List.mem_range.mp hi)

/-- an operation leaves every node container it does not name unchanged (variable and abstract value) -/
theorem step_frame_node (p : Per) (ops : List Op) (op : Op) (c : Var) (hc : c ∉ op.nodeTargets) :
    ((step (run (init p) ops) op).nodes c = (run (init p) ops).nodes c) ∧
      absNode (step (run (init p) ops) op) c = absNode (run (init p) ops) c := by
  have h := (reach_ok p ops).1
  generalize run (init p) ops = st at h
  unfold step stepRes
  cases hcp : compile st op with
  | none => exact ⟨rfl, rfl⟩
  | some ms =>
    simp only
    cases he : execAll st ms with
    | none => exact ⟨rfl, rfl⟩
    | some st' =>
      obtain ⟨n, m⟩ := execAll_frame_node h ms c
        (fun m hm hcm => hc ((compile_targets hcp m hm).1 c hcm)) he
      exact ⟨n, absNode_congr c n m⟩

/-- an operation leaves every array it does not name unchanged (variable and abstract value) -/
theorem step_frame_arr (p : Per) (ops : List Op) (op : Op) (a : Nat) (ha : a ∉ op.arrTargets) :
    ((step (run (init p) ops) op).arrs a = (run (init p) ops).arrs a) ∧
      absArr (step (run (init p) ops) op) a = absArr (run (init p) ops) a := by
  have h := (reach_ok p ops).1
  generalize run (init p) ops = st at h
  unfold step stepRes
  cases hcp : compile st op with
  | none => exact ⟨rfl, rfl⟩
  | some ms =>
    simp only
    cases he : execAll st ms with
    | none => exact ⟨rfl, rfl⟩
    | some st' =>
      obtain ⟨n, m⟩ := execAll_frame_arr h ms a
        (fun m hm hcm => ha ((compile_targets hcp m hm).2 a hcm)) he
      exact ⟨n, absArr_congr a n m⟩

end Nstd.Life.Ops
