import Nstd.Life.LemmasAll
import Nstd.Life.LemmasAlias
import Nstd.Life.LemmasOps
import Nstd.Life.LemmasSrc
import Nstd.Life.LemmasBlk
import Nstd.Life.LemmasFault
import Nstd.Life.LemmasCopy
import Nstd.Life.LemmasCopyNode
import Nstd.Life.LemmasSetSelf
import Nstd.Life.LemmasRefine
import Nstd.Life.LemmasCount
import Nstd.Life.LemmasSortExec
/-
  Property theorems of the Life area.

  C04  containers construct and destroy each element exactly once; copies are deep; self-arguments
       behave as if copied first.
  C05  elements of node and pool containers never move while they live.

  Model: Nstd/Life/Model.lean (slot-level model of Array, List, Map, MultiMap, HashMap, HashSet,
  PoolList, PoolMap: two variables of each kind, operations `Op` incl. the alias operations, compiled
  into micro steps that emit the lifecycle event log).  Judge of the log: the automaton `Chk` of
  Nstd/Life/Spec.lean.  `run (init p) ops` = the state after an arbitrary history `ops` starting from the
  sixteen default-constructed variables; `destroyAll` = their destructors.  `p : Per` = the number of items a
  node container of each kind allocates per block (blocks of N items, for every table N ≥ 1): every theorem
  about reachable states holds for every such table.
-/
namespace Nstd.Life

/-- C04 `lifecycle_ok`.  For EVERY history of operations (including `a = a`, `a.append(a[i])`,
    `a.resize(n, a[i])`, `a.append(&a[i], n)`, `l.append(l)`, `l.insert(pos, l)`, `m.insert(k, *it)`,
    `s.append(s)`, `s.remove(s)`, copy construction, swap ...), followed by the destructors of all variables,
    the complete event log (from the construction of the variables on) is accepted by the checker:
    per slot the events match (construct assign* destroy)*, every source of a copy or assignment
    is a live object, objects are constructed only inside allocated blocks, no block id is allocated twice,
    a block is freed only while allocated and with no live object inside, and at the end nothing is live
    and no block is allocated (no leak, no double free, no use after destruction). -/
theorem lifecycle_ok (p : Per) (ops : List Op) :
    ∃ st', execAll (run (init p) ops) destroyAll = some st' ∧ WellFormed st'.log := by
  obtain ⟨st', hd⟩ := Ops.finish_defined p ops
  obtain ⟨i1, t1⟩ := reach_ok p ops
  obtain ⟨i2, t2⟩ := execAll_ok i1 destroyAll hd
  obtain ⟨hn, ha⟩ := destroyAll_effect i1 hd
  exact ⟨st', hd, chkOf st', trace_from_empty (t1.trans t2), clean_of_empty i2 hn ha⟩

/-- C04 `exactly_once`.  The counting form of `lifecycle_ok`: in the complete log of EVERY history (construction of
    the variables, the operations, the destructors), for every object location the number of constructions equals
    the number of destructions (and by acceptance they alternate: construct, destroy, construct, ...), every block
    id is allocated at most once, and freed exactly as often as it is allocated. -/
theorem exactly_once (p : Per) (ops : List Op) :
    ∃ st', execAll (run (init p) ops) destroyAll = some st' ∧
      (∀ l, ctorCount l st'.log = dtorCount l st'.log) ∧
      (∀ b, allocCount b st'.log ≤ 1 ∧ allocCount b st'.log = freeCount b st'.log) := by
  obtain ⟨st', hd, c, hrun, hclean⟩ := lifecycle_ok p ops
  refine ⟨st', hd, ?_, ?_⟩
  · intro l
    have := Chk.run_objects l st'.log Chk.init c hrun
    simpa [Chk.init, b2n, hclean.1 l] using this
  · intro b
    have := Chk.run_blocks b st'.log Chk.init c hrun (by intro x hx; simp [Chk.init] at hx)
    simp only [Chk.init, Option.isSome_none, b2n, Bool.false_eq_true, if_false, Nat.add_zero, hclean.2 b] at this
    constructor
    · rw [this.2]; split <;> omega
    · exact this.1

/-- C04 `linked_objects_live`.  "Never touched after its destruction", the part the event log cannot express: the log has
    no event for the key comparisons, hashing and `==` walks of find / insert / remove (they depend on the tree shape and the
    bucket chains, which this model abstracts).  What the model does establish: in every reachable state every object
    reachable through a container - each member object of each linked item, each array element below `size`, each
    sentinel object - is live, and conversely every live object is one of these (`SInv.live_owned`); so lookup code that
    dereferences only linked items and the caller's arguments touches live objects only.  That the real lookup code
    touches nothing else is checked by the harness ledger (counter `u`: any comparison, hash or copy that touches a
    destroyed object), not by a theorem. -/
theorem linked_objects_live (p : Per) (ops : List Op) :
    (∀ c it f, it ∈ ((run (init p) ops).nodes c).items → f ∈ c.k.fields → ((run (init p) ops).mem (it.loc f)).isSome = true) ∧
    (∀ a s i, ((run (init p) ops).arrs a).store = some s → i < ((run (init p) ops).arrs a).size →
        ((run (init p) ops).mem (.heap s i 1)).isSome = true) ∧
    (∀ c f, ((run (init p) ops).nodes c).alive = true → f ∈ c.k.sentFields → ((run (init p) ops).mem (.sent c f)).isSome = true) ∧
    (∀ l, ((run (init p) ops).mem l).isSome = true → LiveLoc (run (init p) ops) l) :=
  ⟨(reach_ok p ops).1.items_live, (reach_ok p ops).1.elems_live, (reach_ok p ops).1.sent_live, (reach_ok p ops).1.live_owned⟩

/-- C04 `no_fault`.  In every reachable state every operation is either rejected by its guard (`bad-op`:
    index outside the container, unknown variable - the harness refuses the same lines) or executes all its
    micro steps: the model never takes a "cannot happen" exit (`fault`), in particular not in the loops of the
    alias operations (`l.insert(pos, l)`, `a.append(a)`, `s.remove(s)`, `m.insert(m)`, `a.append(&a[i], n)`).
    Hence `lifecycle_ok` and the other theorems speak about complete executions, not about aborted ones. -/
theorem no_fault (p : Per) (ops : List Op) (op : Op) : stepRes (run (init p) ops) op ≠ Res.fault :=
  Ops.no_fault p ops op

/-- C04, prefix form: at every point of every history the log so far is accepted by the checker
    (so no misuse has happened yet), whether or not the destructors follow. -/
theorem lifecycle_prefix_ok (p : Per) (ops : List Op) : ∃ c, Chk.init.run (run (init p) ops).log = some c :=
  ⟨_, trace_from_empty (reach_ok p ops).2⟩

/-- C04 `blocks_released_only_by_destructor`.  In every reachable state, every micro step other than a
    container destructor (`destroy`, `aDestroy`: ~List, ~Map, ..., ~Array, also as part of re-construction) and
    `Array::reserve` (which moves the elements and releases the old storage) keeps every allocated block
    allocated: insert, remove, clear, swap, assignment never free memory (clear keeps the blocks for reuse). -/
theorem blocks_released_only_by_destructor (p : Per) (ops : List Op) (m : Micro) (hm : m.releases = false) (st' : State)
    (he : exec (run (init p) ops) m = some st') : ∀ b n, (run (init p) ops).blk b = some n → st'.blk b = some n :=
  exec_blkKept (reach_ok p ops).1 m hm he

/-- a concrete history with alias operations on several containers (evaluated by the kernel): the destructors
    are defined for it, as `lifecycle_ok` says for every history -/
def sampleOps : List Op :=
  [.lInsert 0 none 1, .lInsert 0 none 2, .lInsertList 0 (some 1) 0, .assign ⟨.L, 0⟩ 0, .copy ⟨.L, 1⟩ 0,
   .aAppend 0 5, .aAppend 0 6, .aAppend 0 7, .aAppend 0 8, .aAppendRef 0 0, .aResizeRef 0 9 1, .aAppendArr 0 0,
   .mInsert ⟨.M, 0⟩ 3 30, .mInsertRef ⟨.M, 0⟩ 3 0, .mInsertMap ⟨.M, 0⟩ 0, .copy ⟨.U, 1⟩ 0,
   .hInsert 0 none 4 40, .sInsert 0 none 4, .sRemoveSet 0 0, .pAppend 0 9, .qAppend 0 1 2, .swap ⟨.P, 0⟩ 1]

example : (execAll (run (init per4) sampleOps) destroyAll).isSome = true := by decide +kernel

-- C04: copies are deep ----------------------------------------------------------------------------------------

/-- C04 `copy_fresh`.  In every reachable state two different container variables never share an element
    slot, and an element slot of a node container is never inside the storage of an array: whatever a copy
    construction / assignment / insert-from-other-container produced lives in slots of its own
    (a shallow copy, as the implicit MultiMap copy was, is impossible). -/
theorem copy_fresh (p : Per) (ops : List Op) (c c' : Var) (it : Item)
    (h1 : it ∈ ((run (init p) ops).nodes c).items) (h2 : it ∈ ((run (init p) ops).nodes c').items) : c = c' :=
  (reach_ok p ops).1.slot_owner (List.mem_append_left _ h1) (List.mem_append_left _ h2)

theorem copy_fresh_arr (p : Per) (ops : List Op) (a a' s : Nat)
    (h1 : ((run (init p) ops).arrs a).store = some s) (h2 : ((run (init p) ops).arrs a').store = some s) : a = a' := by
  have := (reach_ok p ops).1.own_unique (.arr a) (.arr a') s h1 h2
  cases this; rfl

/-- C04 `copy_independent`.  In every reachable state, an operation leaves every container it does not
    target exactly as it was - same slots, same abstract value (payloads of all keys and values): so after
    `b = a` / `B b(a)` / `b.insert(a)` / `b.append(a)`, whatever is later done to one of the two (insert, remove,
    overwrite, clear, destruction, self-referential operations ...) is invisible in the other.
    (`Op.nodeTargets op` = the variables the operation may modify: `copy c w`, `assign c w`, `insertList v p w`,
    `insertMap c w`, `appendSet v w`, `removeSet v w` target only the destination; swap targets both.) -/
theorem copy_independent (p : Per) (ops : List Op) (op : Op) (c : Var) (hc : c ∉ op.nodeTargets) :
    (step (run (init p) ops) op).nodes c = (run (init p) ops).nodes c ∧
      absNode (step (run (init p) ops) op) c = absNode (run (init p) ops) c :=
  Ops.step_frame_node p ops op c hc

theorem copy_independent_arr (p : Per) (ops : List Op) (op : Op) (a : Nat) (ha : a ∉ op.arrTargets) :
    (step (run (init p) ops) op).arrs a = (run (init p) ops).arrs a ∧
      absArr (step (run (init p) ops) op) a = absArr (run (init p) ops) a :=
  Ops.step_frame_arr p ops op a ha

/-- C04 `copy_equal` (List, Array).  Right after `B b(a)` (copy) and after `b = a` (assign, b ≠ a) the copy has
    exactly the contents of its source, in every reachable state. -/
theorem copy_equal_list (p : Per) (ops : List Op) (v w : Nat) (hv : v ≤ 1) (hw : w ≤ 1) (hne : v ≠ w) :
    absNode (step (run (init p) ops) (.copy ⟨.L, v⟩ w)) ⟨.L, v⟩ = absNode (run (init p) ops) ⟨.L, w⟩ ∧
    absNode (step (run (init p) ops) (.assign ⟨.L, v⟩ w)) ⟨.L, v⟩ = absNode (run (init p) ops) ⟨.L, w⟩ :=
  Copy.copy_equal_list p ops v w hv hw hne

theorem copy_equal_array (p : Per) (ops : List Op) (v w : Nat) (hv : v ≤ 1) (hw : w ≤ 1) (hne : v ≠ w) :
    absArr (step (run (init p) ops) (.copy ⟨.A, v⟩ w)) v = absArr (run (init p) ops) w ∧
    absArr (step (run (init p) ops) (.assign ⟨.A, v⟩ w)) v = absArr (run (init p) ops) w :=
  Copy.copy_equal_array p ops v w hv hw hne

/-- C04 `copy_equal` (List, Map, MultiMap, HashMap, HashSet): right after copy construction `B b(a)` and after
    assignment `b = a` (b ≠ a) the destination has exactly the contents (keys and values, in iteration order)
    of the source, in every reachable state.  (For the keyed kinds this rests on `keys_ok` below.) -/
theorem copy_equal_node (p : Per) (ops : List Op) (c : Var) (w : Nat) (hc : c.valid = true) (hp : c.k.isPool = false)
    (hw : w ≤ 1) (hne : c.v ≠ w) :
    absNode (step (run (init p) ops) (.copy c w)) c = absNode (run (init p) ops) ⟨c.k, w⟩ ∧
    absNode (step (run (init p) ops) (.assign c w)) c = absNode (run (init p) ops) ⟨c.k, w⟩ :=
  Copy.copy_equal_node p ops c w hc hp hw hne

/-- in every reachable state of the model the keys of a Map are strictly increasing, those of a MultiMap
    non-decreasing, those of HashMap / HashSet / PoolMap pairwise different (an invariant of this model needed for
    `copy_equal_node`; the corresponding facts about the real trees and hash tables are C01/C02) -/
theorem keys_ok (p : Per) (ops : List Op) : Copy.KeysOk (run (init p) ops) := Copy.keysOk_reach p ops

-- C04: self arguments behave as if copied first ------------------------------------------------------------------

/-- `c = c` (every kind, every state): nothing happens - no event, same state. -/
theorem assign_self_noop (st : State) (c : Var) : step st (.assign c c.v) = st := by
  unfold step stepRes
  by_cases hg : (c.v ≤ 1 ∧ c.k.isPool = false)
  · simp [compile, guard', hg, execAll]
  · simp [compile, guard', hg]

/-- `a.append(a[i])` in any reachable state never faults and equals `x = a[i]; a.append(x)`:
    both append the payload the element had before the call (also when the storage is reallocated). -/
theorem append_ref_as_if_copied (p : Per) (ops : List Op) (v i x : Nat) (hv : v ≤ 1)
    (hx : (absArr (run (init p) ops) v)[i]? = some (some x)) :
    ∃ s1 s2, stepRes (run (init p) ops) (.aAppendRef v i) = .ok s1 ∧ stepRes (run (init p) ops) (.aAppend v x) = .ok s2 ∧
      absArr s1 v = absArr s2 v ∧ absArr s1 v = absArr (run (init p) ops) v ++ [some x] := by
  have h := (reach_ok p ops).1
  obtain ⟨s1, h1, a1⟩ := aAppendRef_abs h v i (some x) hv hx
  obtain ⟨s2, h2, a2⟩ := aAppend_abs h v x hv (alive_of_abs h hx)
  exact ⟨s1, s2, h1, h2, by rw [a1, a2], a1⟩

/-- `a.resize(n, a[i])` (growing) equals `x = a[i]; a.resize(n, x)`. -/
theorem resize_ref_as_if_copied (p : Per) (ops : List Op) (v n i x : Nat) (hv : v ≤ 1)
    (hx : (absArr (run (init p) ops) v)[i]? = some (some x)) (hn : ((run (init p) ops).arrs v).size ≤ n) :
    ∃ s1 s2, stepRes (run (init p) ops) (.aResizeRef v n i) = .ok s1 ∧ stepRes (run (init p) ops) (.aResize v n x) = .ok s2 ∧
      absArr s1 v = absArr s2 v ∧
      absArr s1 v = absArr (run (init p) ops) v ++ List.replicate (n - ((run (init p) ops).arrs v).size) (some x) := by
  have h := (reach_ok p ops).1
  obtain ⟨s1, h1, a1⟩ := aResizeRef_abs h v n i (some x) hv hx hn
  obtain ⟨s2, h2, a2⟩ := aResize_abs h v n x hv (alive_of_abs h hx) hn
  exact ⟨s1, s2, h1, h2, by rw [a1, a2], a1⟩

/-- `a.append(&a[i], n)` with the range inside the array appends a copy of the old elements i .. i+n-1. -/
theorem append_ptr_as_if_copied (p : Per) (ops : List Op) (v i n : Nat) (hv : v ≤ 1)
    (ha : ((run (init p) ops).arrs v).alive = true) (hin : i + n ≤ ((run (init p) ops).arrs v).size) :
    ∃ s, stepRes (run (init p) ops) (.aAppendPtr v i n) = .ok s ∧
      absArr s v = absArr (run (init p) ops) v ++ (List.range n).map (fun j => ((absArr (run (init p) ops) v)[i + j]?).join) :=
  aAppendPtr_abs (reach_ok p ops).1 v i n hv ha hin

/-- `a.append(a)` appends a copy of the old contents. -/
theorem append_self_as_if_copied (p : Per) (ops : List Op) (v : Nat) (hv : v ≤ 1) (ha : ((run (init p) ops).arrs v).alive = true) :
    ∃ s, stepRes (run (init p) ops) (.aAppendArr v v) = .ok s ∧
      absArr s v = absArr (run (init p) ops) v ++ absArr (run (init p) ops) v := by
  have h := (reach_ok p ops).1
  obtain ⟨s, h1, a1⟩ := aAppendSelf_abs h v hv ha
  refine ⟨s, h1, ?_⟩
  rw [a1, ← absArr_length _ v h, range_get_self]

/-- `l.append(l)` (pos = none), `l.prepend(l)` (pos = some 0), `l.insert(it_p, l)`: terminates without fault and
    yields  (elements before p) ++ (a copy of the whole original list) ++ (elements from p on) -
    what inserting an independent copy of the list yields. -/
theorem list_insert_self_as_if_copied (p : Per) (ops : List Op) (v : Nat) (hv : v ≤ 1)
    (ha : ((run (init p) ops).nodes ⟨.L, v⟩).alive = true) (pos : Option Nat)
    (hp : pos.getD (absNode (run (init p) ops) ⟨.L, v⟩).length ≤ (absNode (run (init p) ops) ⟨.L, v⟩).length) :
    ∃ s, stepRes (run (init p) ops) (.lInsertList v pos v) = .ok s ∧
      absNode s ⟨.L, v⟩ =
        (absNode (run (init p) ops) ⟨.L, v⟩).take (pos.getD (absNode (run (init p) ops) ⟨.L, v⟩).length) ++
        absNode (run (init p) ops) ⟨.L, v⟩ ++
        (absNode (run (init p) ops) ⟨.L, v⟩).drop (pos.getD (absNode (run (init p) ops) ⟨.L, v⟩).length) :=
  lInsertSelf_abs (reach_ok p ops).1 v hv ha pos hp

/-- C04 `ref_arg_as_if_copied` (micro-step level, every state): a step whose source operand is a reference
    `r` to an object with payload p - an element of the container itself, `m.insert(k, *m.find(k2))`,
    `l.insert(pos, *it)`, `s.append(*it)`, `a[i] = a[j]`, `l.remove(*it)` ... - leads to the same memory, blocks
    and containers as the same step applied to a temporary copy `.ext p` of that object (`StEq` = equal up to
    the log, where only the named source differs); it faults iff the other does. -/
theorem ref_arg_as_if_copied (st : State) (r : SrcRef) (l : Loc) (p : Nat)
    (hr : resolve st r = some (some l, some p)) :
    (∀ c pos k, OptEq (exec st (.put c pos k (some r))) (exec st (.put c pos k (some (.ext p))))) ∧
    (∀ c pos v, OptEq (exec st (.put c pos (some r) v)) (exec st (.put c pos (some (.ext p)) v))) ∧
    (∀ c j, OptEq (exec st (.assignVal c j r)) (exec st (.assignVal c j (.ext p)))) ∧
    (∀ c, exec st (.removeKey c r) = exec st (.removeKey c (.ext p))) ∧
    (∀ c, exec st (.removeVal c r) = exec st (.removeVal c (.ext p))) ∧
    (∀ a, OptEq (exec st (.aPush a r)) (exec st (.aPush a (.ext p)))) ∧
    (∀ a j, OptEq (exec st (.aAssign a j r)) (exec st (.aAssign a j (.ext p)))) :=
  ⟨fun c pos k => put_value_as_if_copied st c pos k r l p hr, fun c pos v => put_key_as_if_copied st c pos v r l p hr,
   fun c j => assignVal_as_if_copied st c j r l p hr, fun c => removeKey_as_if_copied st c r l p hr,
   fun c => removeVal_as_if_copied st c r l p hr, fun a => aPush_as_if_copied st a r l p hr,
   fun a j => aAssign_as_if_copied st a j r l p hr⟩

/-- operation level: `m.insert(k, *it_i)` (Map, MultiMap), `h.append(k, *it_i)` (HashMap), `l.insert(pos, *it_i)`
    (List) with `it_i` an element of the container itself equal the same call with a copy x of that element. -/
theorem map_insert_own_value_as_if_copied (st : State) (c : Var) (k i x : Nat) (l : Loc)
    (hr : resolve st (.item c i 1) = some (some l, some x)) :
    ResEq (stepRes st (.mInsertRef c k i)) (stepRes st (.mInsert c k x)) := by
  have hi := item_index_lt hr
  by_cases hg : (c.v ≤ 1 ∧ (c.k = .M ∨ c.k = .U))
  · exact stepRes_single (m1 := .put c none (some (.ext k)) (some (.item c i 1))) (m2 := .put c none (some (.ext k)) (some (.ext x)))
      (by simp [compile, guard', hg, len, hi]) (by simp [compile, guard', hg])
      (put_value_as_if_copied st c none _ _ l x hr)
  · simp [stepRes, compile, guard', hg, ResEq]

theorem hash_append_own_value_as_if_copied (st : State) (v k i x : Nat) (l : Loc)
    (hr : resolve st (.item ⟨.H, v⟩ i 1) = some (some l, some x)) :
    ResEq (stepRes st (.hAppendRef v k i)) (stepRes st (.hInsert v none k x)) := by
  have hi := item_index_lt hr
  by_cases hg : v ≤ 1
  · exact stepRes_single (m1 := .put ⟨.H, v⟩ none (some (.ext k)) (some (.item ⟨.H, v⟩ i 1)))
      (m2 := .put ⟨.H, v⟩ none (some (.ext k)) (some (.ext x)))
      (by simp [compile, guard', hg, len, hi]) (by simp [compile, guard', hg])
      (put_value_as_if_copied st _ none _ _ l x hr)
  · simp [stepRes, compile, guard', hg, ResEq]

theorem list_insert_own_element_as_if_copied (st : State) (v : Nat) (pos : Option Nat) (i x : Nat) (l : Loc)
    (hr : resolve st (.item ⟨.L, v⟩ i 1) = some (some l, some x)) :
    ResEq (stepRes st (.lInsertRef v pos i)) (stepRes st (.lInsert v pos x)) := by
  have hi := item_index_lt hr
  by_cases hg : (v ≤ 1 ∧ pos.getD 0 ≤ len st ⟨.L, v⟩)
  · exact stepRes_single (m1 := .put ⟨.L, v⟩ pos none (some (.item ⟨.L, v⟩ i 1))) (m2 := .put ⟨.L, v⟩ pos none (some (.ext x)))
      (by have := hg.2; simp only [len] at this; simp [compile, guard', hg.1, len, hi, this])
      (by simp [compile, guard', hg])
      (put_value_as_if_copied st _ pos _ _ l x hr)
  · simp [stepRes, compile, guard', hg, ResEq]

/-- `s.append(s)` (HashSet): nothing changes - what appending an independent copy of s does (all keys present). -/
theorem set_append_self_noop (p : Per) (ops : List Op) (v : Nat) : step (run (init p) ops) (.sAppendSet v v) = run (init p) ops :=
  sAppendSelf_noop (reach_ok p ops).1 (Ops.allAlive_reach p ops) v

/-- `s.remove(s)` (HashSet): terminates without fault and leaves the empty set - what removing an independent
    copy of s does. -/
theorem set_remove_self_empties (p : Per) (ops : List Op) (v : Nat) (hv : v ≤ 1) :
    ∃ s, stepRes (run (init p) ops) (.sRemoveSet v v) = .ok s ∧ absNode s ⟨.S, v⟩ = [] :=
  sRemoveSelf_empty (reach_ok p ops).1 (Ops.allAlive_reach p ops) v hv

/-- C04 `self_arg_as_if_copied`, literal refinement form: an operation whose argument is the container itself
    yields the same value as first copy-constructing a temporary `t` from the container (the other variable
    `1 - v` of the kind serves as `t`) and passing `t` - for every history, every position. -/
theorem list_insert_self_refines (p : Per) (ops : List Op) (v : Nat) (hv : v ≤ 1) (pos : Option Nat)
    (hp : pos.getD (absNode (run (init p) ops) ⟨.L, v⟩).length ≤ (absNode (run (init p) ops) ⟨.L, v⟩).length) :
    absNode (step (run (init p) ops) (.lInsertList v pos v)) ⟨.L, v⟩ =
    absNode (step (step (run (init p) ops) (.copy ⟨.L, 1 - v⟩ v)) (.lInsertList v pos (1 - v))) ⟨.L, v⟩ :=
  Refine.list_insert_self_refines p ops v hv pos hp

theorem array_append_self_refines (p : Per) (ops : List Op) (v : Nat) (hv : v ≤ 1) :
    absArr (step (run (init p) ops) (.aAppendArr v v)) v =
    absArr (step (step (run (init p) ops) (.copy ⟨.A, 1 - v⟩ v)) (.aAppendArr v (1 - v))) v :=
  Refine.array_append_self_refines p ops v hv

theorem set_append_self_refines (p : Per) (ops : List Op) (v : Nat) (hv : v ≤ 1) :
    absNode (step (run (init p) ops) (.sAppendSet v v)) ⟨.S, v⟩ =
    absNode (step (step (run (init p) ops) (.copy ⟨.S, 1 - v⟩ v)) (.sAppendSet v (1 - v))) ⟨.S, v⟩ :=
  Refine.set_append_self_refines p ops v hv

theorem set_remove_self_refines (p : Per) (ops : List Op) (v : Nat) (hv : v ≤ 1) :
    absNode (step (run (init p) ops) (.sRemoveSet v v)) ⟨.S, v⟩ =
    absNode (step (step (run (init p) ops) (.copy ⟨.S, 1 - v⟩ v)) (.sRemoveSet v (1 - v))) ⟨.S, v⟩ :=
  Refine.set_remove_self_refines p ops v hv

theorem map_insert_self_refines (p : Per) (ops : List Op) (v : Nat) (hv : v ≤ 1) :
    absNode (step (run (init p) ops) (.mInsertMap ⟨.M, v⟩ v)) ⟨.M, v⟩ =
    absNode (step (step (run (init p) ops) (.copy ⟨.M, 1 - v⟩ v)) (.mInsertMap ⟨.M, v⟩ (1 - v))) ⟨.M, v⟩ :=
  Refine.map_insert_self_refines p ops v hv

/-- non-vacuity of the alias theorems: a reachable state with a full array (size 3 = capacity 3) and a list -/
def aliasOps : List Op := [.aAppend 0 5, .aAppend 0 6, .aAppend 0 7, .lInsert 0 none 1, .lInsert 0 none 2]
example : (absArr (run (init per4) aliasOps) 0)[0]? = some (some 5) ∧ ((run (init per4) aliasOps).arrs 0).size = 3 ∧
    ((run (init per4) aliasOps).arrs 0).cap = 3 ∧ ((run (init per4) aliasOps).arrs 0).alive = true ∧
    ((run (init per4) aliasOps).nodes ⟨.L, 0⟩).alive = true ∧ (absNode (run (init per4) aliasOps) ⟨.L, 0⟩).length = 2 := by
  decide +kernel

-- C04: List::sort -------------------------------------------------------------------------------------------------------

/-- C04 `sort_only_assigns`.  `l.sort()` (model op `lSort v orc`: the quicksort of List.hpp on the nodes; `orc` dictates the outcomes of
    the first comparisons `a < b` of the element type, i.e. ANY comparator, consistent or not, honest `<` afterwards), in EVERY state:
    the operation never faults (`no_fault`), it changes no item list, no free list, no block and no array - it relinks nothing,
    constructs and destroys NO stored element, allocates and frees nothing - and every event it emits is an assignment to the value
    object of a node of this list whose source is the value object of a node of this list or the caller-side temporary `tmp` of
    `QuickSort::swap` (`T tmp = a->value; a->value = b->value; b->value = tmp;`: one temporary per swap call, copy-constructed from
    `a->value` and destroyed at the end of the call - the only objects `sort` creates; each shows as one assignment from `ext`).
    Since all these objects are items of the list, they are live (`linked_objects_live`), whatever the comparator answers: no
    comparator can make `sort` touch a destroyed object or leave the list (`LemmasSort.sortRange_ok`: every node index stays inside
    [left, right], the recursion fuel suffices). -/
theorem sort_only_assigns (st : State) (v : Nat) (orc : List Bool) :
    (step st (.lSort v orc)).nodes = st.nodes ∧ (step st (.lSort v orc)).blk = st.blk ∧ (step st (.lSort v orc)).arrs = st.arrs ∧
      ∃ evs, (step st (.lSort v orc)).log = st.log ++ evs ∧ ∀ e, e ∈ evs → SortEv st ⟨.L, v⟩ e :=
  step_sort st v orc

/-- `sort()` always compiles: for every state, list and comparator the simulated quicksort terminates within its fuel and every
    step is an assignment to a node inside the list -/
theorem sort_compiles (st : State) (v : Nat) (orc : List Bool) :
    ∃ ms, sortMicros st v orc = some ms ∧ SortOk ⟨.L, v⟩ (st.nodes ⟨.L, v⟩).items.length ms :=
  sortMicros_ok st v orc

/-- non-vacuity: sorting 3 1 2 under the honest comparator and under an inconsistent one (first five answers: yes no yes yes no) -/
def sortOps : List Op := [.lInsert 0 none 3, .lInsert 0 none 1, .lInsert 0 none 2]
example : absNode (step (run (init per4) sortOps) (.lSort 0 [])) ⟨.L, 0⟩ = [(none, some 1), (none, some 2), (none, some 3)] ∧
    (absNode (step (run (init per4) sortOps) (.lSort 0 [true, false, true, true, false])) ⟨.L, 0⟩).length = 3 ∧
    ((step (run (init per4) sortOps) (.lSort 0 [])).log.length > (run (init per4) sortOps).log.length) = true := by decide +kernel

end Nstd.Life
