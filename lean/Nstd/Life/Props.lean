import Nstd.Life.Model
namespace Nstd.Life
theorem init_alive : (init.nodes ⟨.L, 0⟩).alive = true := by decide
end Nstd.Life
