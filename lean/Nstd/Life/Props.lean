import Nstd.Life.LemmasAll
/-
  Property theorems of the Life area.

  C04  containers construct and destroy each element exactly once; copies are deep; self-arguments
       behave as if copied first.
  C05  elements of node and pool containers never move while they live.

  Model: Nstd/Life/Model.lean (slot-level model of Array, List, Map, MultiMap, HashMap, HashSet,
  PoolList, PoolMap: two variables of each kind, operations `Op` incl. the alias operations, compiled
  into micro steps that emit the lifecycle event log).  Judge of the log: the automaton `Chk` of
  Nstd/Life/Spec.lean.  `run init ops` = the state after an arbitrary history `ops` starting from the
  sixteen default-constructed variables; `destroyAll` = their destructors.
-/
namespace Nstd.Life

/-- C04 `lifecycle_ok`.  For EVERY history of operations (including `a = a`, `a.append(a[i])`,
    `a.resize(n, a[i])`, `a.append(&a[i], n)`, `l.append(l)`, `l.insert(pos, l)`, `m.insert(k, *it)`,
    `s.append(s)`, `s.remove(s)`, copy construction, swap ...), followed by the destructors of all variables,
    the complete event log (from the construction of the variables on) is accepted by the checker:
    per slot the events match (construct (assign | read)* destroy)*, every source of a copy or assignment
    is a live object, objects are constructed only inside allocated blocks, no block id is allocated twice,
    a block is freed only while allocated and with no live object inside, and at the end nothing is live
    and no block is allocated (no leak, no double free, no use after destruction). -/
theorem lifecycle_ok (ops : List Op) (st' : State) (hd : execAll (run init ops) destroyAll = some st') :
    WellFormed st'.log := by
  obtain ⟨i1, t1⟩ := reach_ok ops
  obtain ⟨i2, t2⟩ := execAll_ok i1 destroyAll hd
  obtain ⟨hn, ha⟩ := destroyAll_effect i1 hd
  exact ⟨chkOf st', trace_from_empty (t1.trans t2), clean_of_empty i2 hn ha⟩

/-- C04, prefix form: at every point of every history the log so far is accepted by the checker
    (so no misuse has happened yet), whether or not the destructors follow. -/
theorem lifecycle_prefix_ok (ops : List Op) : ∃ c, Chk.init.run (run init ops).log = some c :=
  ⟨_, trace_from_empty (reach_ok ops).2⟩

/-- non-vacuity of `lifecycle_ok`: a history with alias operations on several containers for which the
    destructors are defined (the hypothesis `hd` is met), and whose log is therefore well-formed -/
def sampleOps : List Op :=
  [.lInsert 0 none 1, .lInsert 0 none 2, .lInsertList 0 (some 1) 0, .assign ⟨.L, 0⟩ 0, .copy ⟨.L, 1⟩ 0,
   .aAppend 0 5, .aAppend 0 6, .aAppend 0 7, .aAppend 0 8, .aAppendRef 0 0, .aResizeRef 0 9 1, .aAppendArr 0 0,
   .mInsert ⟨.M, 0⟩ 3 30, .mInsertRef ⟨.M, 0⟩ 3 0, .mInsertMap ⟨.M, 0⟩ 0, .copy ⟨.U, 1⟩ 0,
   .hInsert 0 none 4 40, .sInsert 0 none 4, .sRemoveSet 0 0, .pAppend 0 9, .qAppend 0 1 2, .swap ⟨.P, 0⟩ 1]

example : (execAll (run init sampleOps) destroyAll).isSome = true := by decide +kernel

end Nstd.Life
