import Nstd.Common.Basic
import Nstd.Life.Model
import Nstd.Generated.LifeConst
/-
  Line protocol of the Life area (same op lines as harness/life.cpp).
  argv[1] = C04:  `<K> <var0> | <var1> # c= d= live= u= dd= ov= b= t= # <events of this op>`
  argv[1] = C05:  `<K> <var0> | <var1> # u= dd= ov=`   elements flagged s (kept its slot, untouched) / n (constructed by this op)
-/
open Nstd.Common
namespace Nstd.Life

def Kind.letter : Kind → String
  | .A => "A" | .L => "L" | .M => "M" | .U => "U" | .H => "H" | .S => "S" | .P => "P" | .Q => "Q"

def Kind.ofLetter : String → Option Kind
  | "A" => some .A | "L" => some .L | "M" => some .M | "U" => some .U
  | "H" => some .H | "S" => some .S | "P" => some .P | "Q" => some .Q | _ => none

def fld (f : Nat) : String := if f = 0 then "k" else "v"

def Loc.str : Loc → String
  | .heap b i f => s!"{b}.{i}{fld f}"
  | .sent c f => s!"s{c.k.letter}{c.v}{fld f}"
  | .ext => "x"

def Ev.str : Ev → String
  | .alloc b n => s!"N{b}:{n}"
  | .free b => s!"F{b}"
  | .ctor d none => s!"C{d.str}"
  | .ctor d (some s) => s!"C{d.str}<{s.str}"
  | .assign d s => s!"A{d.str}<{s.str}"
  | .dtor d => s!"D{d.str}"

def pay : Option Nat → String
  | some p => toString p
  | none => "-1"

def isCtorAt (b i : Nat) : Ev → Bool
  | .ctor (.heap b' i' _) _ => b = b' && i = i'
  | _ => false

def showVar (st : State) (c05 : Bool) (c : Var) : String :=
  if c.k = .A then
    let x := st.arrs c.v
    let es := match x.store with
      | some s => (List.range x.size).map fun i => pay (st.mem (.heap s i 1))
      | none => []
    s!"{x.cap}/" ++ (if es.isEmpty then "-" else " ".intercalate es)
  else
    let n := st.nodes c
    let es := n.items.map fun it =>
      let body :=
        if c.k = .L || c.k = .P then pay (valOf st it)
        else if c.k = .S then pay (keyOf st it)
        else pay (keyOf st it) ++ ":" ++ pay (valOf st it)
      if c05 then body ++ (if st.log.any (isCtorAt it.b it.i) then "n" else "s") else body
    if es.isEmpty then "-" else " ".intercalate es

structure DState where
  st : State
  c : Nat
  d : Nat
  b : Nat

def count (p : Ev → Bool) (l : List Ev) : Nat := (l.filter p).length

def DState.absorb (ds : DState) (st : State) : DState :=
  { st := { st with log := [] }
    c := ds.c + count (fun e => match e with | .ctor .. => true | _ => false) st.log
    d := ds.d + count (fun e => match e with | .dtor .. => true | _ => false) st.log
    b := ds.b + count (fun e => match e with | .alloc .. => true | _ => false) st.log
          - count (fun e => match e with | .free .. => true | _ => false) st.log }

/-- items per block as the translator found them in the current sources (allocation size and free-list threading loop agree;
    a value of 0 does not type-check: the tie is broken) -/
def genPer : Per :=
  ⟨fun k => match k with
    | .A => 1 | .L => Nstd.Generated.Life.listItems | .M => Nstd.Generated.Life.mapItems | .U => Nstd.Generated.Life.multiMapItems
    | .H => Nstd.Generated.Life.hashMapItems | .S => Nstd.Generated.Life.hashSetItems
    | .P => Nstd.Generated.Life.poolListItems | .Q => Nstd.Generated.Life.poolMapItems,
   fun k => by cases k <;> decide⟩

def dinit : DState := (DState.absorb ⟨empty genPer, 0, 0, 0⟩ (init genPer))

/-- the release of a block without element slots (the table of a hash container) is printed `Ft<b>`: the comparison does not fix
    its position inside the op (it concerns no element); `pre` = the state before the op -/
def evStr (pre : State) (log : List Ev) : Ev → String
  | .free b => if pre.blk b == some 0 || log.any (fun e => e == .alloc b 0) then s!"Ft{b}" else s!"F{b}"
  | e => e.str

def counters (pre : State) (ds : DState) (c05 : Bool) (log : List Ev) : String :=
  if c05 then
    -- assignments to container-held objects and copy constructions from container-held objects during this op
    let nas := count (fun e => match e with | .assign .. => true | _ => false) log
    let ncp := count (fun e => match e with | .ctor _ (some .ext) => false | .ctor _ (some _) => true | _ => false) log
    s!" # u=0 dd=0 ov=0 as={nas} cp={ncp}"
  else s!" # c={ds.c} d={ds.d} live={ds.c - ds.d} u=0 dd=0 ov=0 b={ds.b} t=0 # " ++
    (if log.isEmpty then "-" else " ".intercalate (log.map (evStr pre log)))

def posArg (s : String) : Option (Option Nat) := s.toNat?.map some

def parseOp (k : Kind) (name : String) (a : List Nat) : Option Op :=
  match name, a with
  | "new", [v] => some (.new ⟨k, v⟩)
  | "newcap", [v, n] => some (.newcap ⟨k, v⟩ n)
  | "copy", [v, w] => some (.copy ⟨k, v⟩ w)
  | "assign", [v, w] => some (.assign ⟨k, v⟩ w)
  | "swap", [v, w] => some (.swap ⟨k, v⟩ w)
  | "clear", [v] => some (.clear ⟨k, v⟩)
  | _, _ =>
  match k, name, a with
  | .A, "append", [v, x] => some (.aAppend v x)
  | .A, "appendref", [v, i] => some (.aAppendRef v i)
  | .A, "appendarr", [v, w] => some (.aAppendArr v w)
  | .A, "appendptr", [v, i, n] => some (.aAppendPtr v i n)
  | .A, "resize", [v, n, x] => some (.aResize v n x)
  | .A, "resizeref", [v, n, i] => some (.aResizeRef v n i)
  | .A, "reserve", [v, n] => some (.aReserve v n)
  | .A, "remove", [v, i] => some (.aRemove v i)
  | .A, "removeit", [v, i] => some (.aRemoveIt v i)
  | .A, "set", [v, i, x] => some (.aSet v i x)
  | .L, "append", [v, x] => some (.lInsert v none x)
  | .L, "prepend", [v, x] => some (.lInsert v (some 0) x)
  | .L, "insert", [v, p, x] => some (.lInsert v (some p) x)
  | .L, "appendref", [v, i] => some (.lInsertRef v none i)
  | .L, "prependref", [v, i] => some (.lInsertRef v (some 0) i)
  | .L, "insertref", [v, p, i] => some (.lInsertRef v (some p) i)
  | .L, "appendlist", [v, w] => some (.lInsertList v none w)
  | .L, "prependlist", [v, w] => some (.lInsertList v (some 0) w)
  | .L, "insertlist", [v, p, w] => some (.lInsertList v (some p) w)
  | .L, "remove", [v, i] => some (.lRemove v i)
  | .L, "removeval", [v, x] => some (.lRemoveVal v x)
  | .L, "removevalref", [v, i] => some (.lRemoveValRef v i)
  | .L, "set", [v, i, x] => some (.lSet v i x)
  | .L, "sort", [v] => some (.lSort v [])
  | .L, "sortwith", [v, nb, bits] => if nb ≤ 24 then some (.lSort v ((List.range nb).map fun i => (bits >>> i) % 2 == 1)) else none
  | .M, "insert", [v, kk, x] => some (.mInsert ⟨.M, v⟩ kk x)
  | .M, "inserthint", [v, p, kk, x] => some (.mInsertHint ⟨.M, v⟩ p kk x)
  | .M, "insertref", [v, kk, i] => some (.mInsertRef ⟨.M, v⟩ kk i)
  | .M, "insertmap", [v, w] => some (.mInsertMap ⟨.M, v⟩ w)
  | .M, "remove", [v, kk] => some (.mRemove ⟨.M, v⟩ kk)
  | .M, "removeat", [v, i] => some (.mRemoveAt ⟨.M, v⟩ i)
  | .M, "set", [v, i, x] => some (.mSet ⟨.M, v⟩ i x)
  | .U, "insert", [v, kk, x] => some (.mInsert ⟨.U, v⟩ kk x)
  | .U, "insertref", [v, kk, i] => some (.mInsertRef ⟨.U, v⟩ kk i)
  | .U, "inserthint", [v, p, kk, x] => some (.mInsertHint ⟨.U, v⟩ p kk x)
  | .U, "remove", [v, kk] => some (.mRemove ⟨.U, v⟩ kk)
  | .U, "removeat", [v, i] => some (.mRemoveAt ⟨.U, v⟩ i)
  | .U, "set", [v, i, x] => some (.mSet ⟨.U, v⟩ i x)
  | .H, "append", [v, kk, x] => some (.hInsert v none kk x)
  | .H, "prepend", [v, kk, x] => some (.hInsert v (some 0) kk x)
  | .H, "insert", [v, p, kk, x] => some (.hInsert v (some p) kk x)
  | .H, "appendref", [v, kk, i] => some (.hAppendRef v kk i)
  | .H, "remove", [v, kk] => some (.hRemove v kk)
  | .H, "removeat", [v, i] => some (.hRemoveAt v i)
  | .H, "set", [v, i, x] => some (.hSet v i x)
  | .S, "append", [v, kk] => some (.sInsert v none kk)
  | .S, "prepend", [v, kk] => some (.sInsert v (some 0) kk)
  | .S, "insert", [v, p, kk] => some (.sInsert v (some p) kk)
  | .S, "appendref", [v, i] => some (.sAppendRef v i)
  | .S, "appendset", [v, w] => some (.sAppendSet v w)
  | .S, "remove", [v, kk] => some (.sRemove v kk)
  | .S, "removeref", [v, i] => some (.sRemoveRef v i)
  | .S, "removeset", [v, w] => some (.sRemoveSet v w)
  | .S, "removeat", [v, i] => some (.sRemoveAt v i)
  | .P, "append", [v, x] => some (.pAppend v x)
  | .P, "append0", [v] => some (.pAppend v 0)
  | .P, "remove", [v, i] => some (.pRemove v i)
  | .P, "removeref", [v, i] => some (.pRemoveRef v i)
  | .P, "append2", [v, x, y] => some (.pAppend v (x + y))
  | .P, "appendn", [v, k, x] => if 3 ≤ k && k ≤ 7 then some (.pAppend v (x + k - 1)) else none
  | .P, "removechain", [v, i, j] => some (.pRemoveChain v i j)
  | .Q, "append", [v, kk, x] => some (.qAppend v kk x)
  | .Q, "remove", [v, kk] => some (.qRemove v kk)
  | .Q, "removeat", [v, i] => some (.qRemoveAt v i)
  | .Q, "removeref", [v, i] => some (.qRemoveRef v i)
  | .Q, "prepend", [v, kk, x] => some (.qInsert v (some 0) kk x)
  | .Q, "insert", [v, p, kk, x] => some (.qInsert v (some p) kk x)
  | .Q, "removechain", [v, i, j] => some (.qRemoveChain v i j)
  | _, _, _ => none

/-- `removeFront()` / `removeBack()` = `remove(begin())` / `remove(--end())`: the remove-by-iterator operation of the
    kind at the first / last position (rejected on an empty container, as by the harness) -/
def removeEnd (st : State) (k : Kind) (v : Nat) (front : Bool) : Option Op :=
  let n := if k = .A then (st.arrs v).size else len st ⟨k, v⟩
  if n = 0 then none else
  let i := if front then 0 else n - 1
  match k with
  | .A => some (.aRemoveIt v i) | .L => some (.lRemove v i) | .M => some (.mRemoveAt ⟨.M, v⟩ i) | .U => some (.mRemoveAt ⟨.U, v⟩ i)
  | .H => some (.hRemoveAt v i) | .S => some (.sRemoveAt v i) | .P => some (.pRemove v i) | .Q => some (.qRemoveAt v i)

def stepLine (c05 : Bool) (ds : DState) (ws : List String) : DState × String :=
  match ws with
  | ["reset"] => (dinit, "reset")
  | ["destroyall"] =>
    match execAll ds.st destroyAll with
    | none => (dinit, "FAULT")
    | some st1 =>
      let ds1 := ds.absorb st1
      let out := "end" ++ counters ds.st ds1 c05 st1.log
      match execAll ds1.st createAll with
      | none => (dinit, "FAULT")
      | some st2 => (ds1.absorb st2, out)
  | opname :: args =>
    match opname.splitOn ".", args.mapM String.toNat? with
    | [kl, name], some a =>
      match Kind.ofLetter kl with
      | none => (ds, "bad-op")
      | some k =>
        match (match name, a with
               | "removefront", [v] => removeEnd ds.st k v true
               | "removeback", [v] => removeEnd ds.st k v false
               | _, _ => parseOp k name a) with
        | none => (ds, "bad-op")
        | some op =>
          match stepRes ds.st op with
          | .bad => (ds, "bad-op")
          | .fault => (dinit, "FAULT")
          | .ok st' =>
            let ds' := ds.absorb st'
            let out := k.letter ++ " " ++ showVar st' c05 ⟨k, 0⟩ ++ " | " ++ showVar st' c05 ⟨k, 1⟩ ++ counters ds.st ds' c05 st'.log
            (ds', out)
    | _, _ => (ds, "bad-op")
  | [] => (ds, "bad-op")

end Nstd.Life

def main (args : List String) : IO Unit :=
  Nstd.Common.ioLoop Nstd.Life.dinit (Nstd.Life.stepLine (args.head? == some "C05"))
