import Nstd.Life.LemmasFault
/-
  What executing `List::sort()` does: nothing but assignments between value objects of nodes of the list (and from the
  temporary of `swap`); item lists, free lists, blocks, arrays untouched.
-/
namespace Nstd.Life

/-- an event of `sort()`: an assignment to the value object of a node of list c, from the value object of a node of c or from
    the temporary `tmp` of `QuickSort::swap` -/
def SortEv (st : State) (c : Var) (e : Ev) : Prop :=
  ∃ it src, it ∈ (st.nodes c).items ∧ e = .assign (it.loc 1) src ∧ (src = .ext ∨ ∃ it', it' ∈ (st.nodes c).items ∧ src = it'.loc 1)

theorem assignVal_exec {s s1 : State} {c : Var} {j : Nat} {src : SrcRef} (he : exec s (.assignVal c j src) = some s1) :
    ∃ it l p, (s.nodes c).items[j]? = some it ∧ resolve s src = some (some l, p) ∧ s1 = s.assign (it.loc 1) l p := by
  have h1 := Stable.exec_exec' he
  simp only [exec'] at h1
  by_cases hf : 1 ∈ c.k.fields
  · cases hj : (s.nodes c).items[j]? with
    | none => simp [hf, hj] at h1
    | some it =>
      cases hr : resolve s src with
      | none => simp [hf, hj, hr] at h1
      | some lp =>
        obtain ⟨l, p⟩ := lp
        cases l with
        | none => simp [hf, hj, hr] at h1
        | some l =>
          simp [hf, hj, hr] at h1
          exact ⟨it, l, p, rfl, rfl, h1.symm⟩
  · simp [hf] at h1

theorem sortOk_exec {c : Var} : ∀ (ms : List Micro) (s s' : State),
    SortOk c (s.nodes c).items.length ms → execAll s ms = some s' →
    s'.nodes = s.nodes ∧ s'.blk = s.blk ∧ s'.arrs = s.arrs ∧ s'.next = s.next ∧
      ∃ evs, s'.log = s.log ++ evs ∧ ∀ e, e ∈ evs → SortEv s c e
  | [], s, s', _, he => by
    simp only [execAll, Option.some.injEq] at he; subst he
    exact ⟨rfl, rfl, rfl, rfl, [], by simp, fun e h => by cases h⟩
  | m :: rest, s, s', hok, he => by
    simp only [execAll] at he
    cases hm : exec s m with
    | none => rw [hm] at he; cases he
    | some s1 =>
      rw [hm] at he
      obtain ⟨j, src, rfl, hj, hsrc⟩ := hok m (by simp)
      obtain ⟨it, l, p, hit, hr, rfl⟩ := assignVal_exec hm
      have hmem : it ∈ (s.nodes c).items := List.mem_of_getElem? hit
      have hev : SortEv s c (.assign (it.loc 1) l) := by
        refine ⟨it, l, hmem, rfl, ?_⟩
        rcases hsrc with ⟨q, rfl⟩ | ⟨j', rfl, hj'⟩
        · left
          simp [resolve, SrcRef.loc] at hr
          exact hr.1.symm
        · right
          refine ⟨(s.nodes c).items[j'], List.getElem_mem hj', ?_⟩
          simp only [resolve, SrcRef.loc] at hr
          split at hr
          · rename_i l0 hl0
            split at hl0
            · simp only [List.getElem?_eq_getElem hj', Option.map_some, Option.some.injEq] at hl0
              simp only [Option.some.injEq, Prod.mk.injEq] at hr
              have := hl0.trans hr.1
              simp only [Option.some.injEq] at this
              rw [← this]; rfl
            · cases hl0
          · cases hr
      simp only at he
      obtain ⟨n1, b1, a1, x1, evs, l1, e1⟩ := sortOk_exec rest (s.assign (it.loc 1) l p) s'
        (fun m' hm' => hok m' (by simp [hm'])) he
      refine ⟨n1, b1, a1, x1, .assign (it.loc 1) l :: evs, by rw [l1]; simp [State.assign], ?_⟩
      intro e he'
      rcases List.mem_cons.mp he' with rfl | he'
      · exact hev
      · exact e1 e he'

/-- `l.sort()` as an operation, any state, any comparator: if it runs (`ok`), it changed no item list, free list, block or array and
    emitted only `SortEv` events; it never faults (`nf_lSort`) -/
theorem step_sort (st : State) (v : Nat) (orc : List Bool) :
    (step st (.lSort v orc)).nodes = st.nodes ∧ (step st (.lSort v orc)).blk = st.blk ∧ (step st (.lSort v orc)).arrs = st.arrs ∧
      ∃ evs, (step st (.lSort v orc)).log = st.log ++ evs ∧ ∀ e, e ∈ evs → SortEv st ⟨.L, v⟩ e := by
  have hsame : step st (.lSort v orc) = st →
      (step st (.lSort v orc)).nodes = st.nodes ∧ (step st (.lSort v orc)).blk = st.blk ∧ (step st (.lSort v orc)).arrs = st.arrs ∧
        ∃ evs, (step st (.lSort v orc)).log = st.log ++ evs ∧ ∀ e, e ∈ evs → SortEv st ⟨.L, v⟩ e := by
    intro h; rw [h]; exact ⟨rfl, rfl, rfl, [], by simp, fun e h => by cases h⟩
  cases hc : compile st (.lSort v orc) with
  | none => exact hsame (by simp [step, stepRes, hc])
  | some ms =>
    cases he : execAll st ms with
    | none => exact hsame (by simp [step, stepRes, hc, he])
    | some st' =>
      have hst : step st (.lSort v orc) = st' := by simp [step, stepRes, hc, he]
      rw [hst]
      simp only [compile] at hc
      obtain ⟨_, rfl⟩ := Ops.guard_some hc
      obtain ⟨n1, b1, a1, _, evs, l1, e1⟩ := sortOk_exec _ st st' (Ops.sortMicros_getD_ok st v orc) he
      exact ⟨n1, b1, a1, evs, l1, e1⟩

end Nstd.Life
