import Nstd.Life.LemmasStableOps
import Nstd.Life.LemmasOps
import Nstd.Life.LemmasBlk
import Nstd.Life.LemmasAssign
import Nstd.Life.LemmasStableSharp
import Nstd.Life.LemmasClient
import Nstd.Life.LemmasClient2
import Nstd.Life.LemmasReuse
/-
  Property theorems for C05: elements of List, Map, MultiMap, HashMap, HashSet, PoolList and PoolMap
  never move while they live; swap hands the elements over without relocating them; the pool
  containers construct each element in place and never copy it.

  In the model an element is identified with the slot (block, index) its member objects live in;
  the event log records every construction / destruction with its slot.  "Not moved" = the element is
  still an item of the container in the SAME slot, the log of the operation contains no construction and
  no destruction in that slot (`Ev.recycles`), and its key is unchanged (`Kept`).
  `p : Per` = the items per block of each kind (blocks of N items, for every table N ≥ 1).
-/
namespace Nstd.Life

/-- C05 `stable_sharp` (headline).  For EVERY table of block sizes, EVERY history `ops`, every further operation `op` and
    every element `it` of any node or pool container `c`, exactly one of two things happens, decided by what the operation
    is meant to do (`Op.removes`: some executed micro step of the operation is a `remove`/`removeKey`/`removeVal`/`clear`/
    destructor designating this very element, evaluated in the intermediate states):
    * the operation does NOT remove the element, and the element is `Kept`: still an item, in the same slot, of a container
      of its kind (c itself; the other variable after a swap), no object was constructed or destroyed in its slot, its key
      is unchanged;
    * the operation removes the element, and every member object of it was destroyed.
    So an operation never destroys an element it is not meant to remove, and never relocates one
    (relocation by copy-and-destroy would be "not removed, yet not Kept"). -/
theorem stable_sharp (p : Per) (ops : List Op) (op : Op) :
    ∃ evs, (step (run (init p) ops) op).log = (run (init p) ops).log ++ evs ∧
      ∀ c it, it ∈ ((run (init p) ops).nodes c).items →
        (¬ Op.removes (run (init p) ops) op c it ∧ ∃ c', Kept (run (init p) ops) (step (run (init p) ops) op) evs it c c') ∨
        (Op.removes (run (init p) ops) op c it ∧ Destroyed evs it c) :=
  step_stable_sharp p ops op

/-- the same for a single micro step (the inner functions `insert(it, v)`, `remove(it)`, `remove(key)`, `clear`, `swap` ...),
    with the container named exactly (`m.moves c`) -/
theorem stable_step (p : Per) (ops : List Op) (m : Micro) (st' : State) (he : exec (run (init p) ops) m = some st') :
    ∃ evs, st'.log = (run (init p) ops).log ++ evs ∧
      ∀ c it, it ∈ ((run (init p) ops).nodes c).items →
        (¬ m.removes (run (init p) ops) c it ∧ Kept (run (init p) ops) st' evs it c (m.moves c)) ∨
        (m.removes (run (init p) ops) c it ∧ Destroyed evs it c) :=
  Stable.exec_stable (reach_ok p ops).1 m he

/-- what `Op.removes` means for the remove-by-iterator operations: exactly the designated element -/
theorem removes_list_remove (st : State) (v i : Nat) (c : Var) (it : Item) :
    Op.removes st (.lRemove v i) c it ↔ (v ≤ 1 ∧ i < len st ⟨.L, v⟩) ∧ c = ⟨.L, v⟩ ∧ (st.nodes ⟨.L, v⟩).items[i]? = some it :=
  removes_lRemove st v i c it

/-- and for every insertion operation (insert / append / prepend / insert-or-assign, from a value, from a reference to an
    own element, from another container or from the container itself): nothing is removed, in any state -/
theorem insertions_remove_nothing (st : State) (op : Op) (hp : op.isInsertion = true) (c : Var) (it : Item) :
    ¬ Op.removes st op c it :=
  insertion_removes_nothing st op hp c it

/-- C05 `keyless_payload_kept`: an element of List / PoolList that a step does not remove keeps its payload, unless the
    step is the overwrite `*it = v` (`assignVal`) on that container. -/
theorem keyless_payload_kept (p : Per) (ops : List Op) (m : Micro) (st' : State) (he : exec (run (init p) ops) m = some st')
    (c : Var) (it : Item) (hi : it ∈ ((run (init p) ops).nodes c).items) (hr : ¬ m.removes (run (init p) ops) c it)
    (hk : c.k.hasKey = false) :
    st'.mem (it.loc 1) = (run (init p) ops).mem (it.loc 1) ∨ ∃ j src, m = .assignVal c j src :=
  exec_keeps_value (reach_ok p ops).1 m he c it hi hr hk

/-- C05 `stable` (weak form, kept as a corollary: `Kept ∨ Destroyed` without saying which; see `stable_sharp`).  For EVERY history `ops`, every further operation `op` (insertions, removals of other
    elements, rebalancing inserts into maps, copies from or into other containers, self-referential
    arguments, swap ...) and every element `it` of any node or pool container `c`: after the operation
    either the element is still an item, in the same slot, of a container of the same kind (c itself; the
    other variable after a swap), no object was constructed or destroyed in its slot during the operation and
    its key is unchanged - or every member object of the element was destroyed by the operation
    (it was removed).  WHICH of the two holds for which element is `stable_sharp`. -/
theorem stable (p : Per) (ops : List Op) (op : Op) :
    ∃ evs, (step (run (init p) ops) op).log = (run (init p) ops).log ++ evs ∧
      ∀ c it, it ∈ ((run (init p) ops).nodes c).items →
        (∃ c', Kept (run (init p) ops) (step (run (init p) ops) op) evs it c c') ∨ Destroyed evs it c := by
  have h := (reach_ok p ops).1
  have hsame : ∃ evs, (run (init p) ops).log = (run (init p) ops).log ++ evs ∧
      ∀ c it, it ∈ ((run (init p) ops).nodes c).items →
        (∃ c', Kept (run (init p) ops) (run (init p) ops) evs it c c') ∨ Destroyed evs it c :=
    ⟨[], by simp, fun c it hi => Or.inl ⟨c, ⟨hi, rfl, fun _ he => absurd he List.not_mem_nil, rfl⟩⟩⟩
  unfold step stepRes
  cases hc : compile (run (init p) ops) op with
  | none => exact hsame
  | some ms =>
    simp only
    cases he : execAll (run (init p) ops) ms with
    | none => exact hsame
    | some st' => exact execAll_stable h ms he

/-- C05, sharp form per step: an insertion (`insert` / `append` / `prepend` / insert-or-assign, with any
    source operand, including a reference to an element of the container itself) removes nothing and relocates
    nothing - every element of every container keeps its slot. -/
theorem insert_keeps_all (p : Per) (ops : List Op) (c : Var) (pos : Option Nat) (k v : Option SrcRef) (st' : State)
    (he : exec (run (init p) ops) (.put c pos k v) = some st') :
    ∃ evs, st'.log = (run (init p) ops).log ++ evs ∧
      ∀ c0 it, it ∈ ((run (init p) ops).nodes c0).items → Kept (run (init p) ops) st' evs it c0 c0 := by
  obtain ⟨evs, hl, hk⟩ := Stable.exec_stable (reach_ok p ops).1 _ he
  refine ⟨evs, hl, ?_⟩
  intro c0 it hi
  rcases hk c0 it hi with ⟨_, hkept⟩ | ⟨hrem, _⟩
  · exact hkept
  · exact absurd hrem (by simp [Micro.removes])

/-- C05, sharp form per step: `remove(iterator)` destroys exactly the designated element; every other element of
    every container keeps its slot. -/
theorem remove_keeps_others (p : Per) (ops : List Op) (c : Var) (j : Nat) (st' : State)
    (he : exec (run (init p) ops) (.remove c j) = some st') :
    ∃ evs, st'.log = (run (init p) ops).log ++ evs ∧
      ∀ c0 it, it ∈ ((run (init p) ops).nodes c0).items →
        ¬ (c0 = c ∧ ((run (init p) ops).nodes c).items[j]? = some it) → Kept (run (init p) ops) st' evs it c0 c0 := by
  obtain ⟨evs, hl, hk⟩ := Stable.exec_stable (reach_ok p ops).1 _ he
  refine ⟨evs, hl, ?_⟩
  intro c0 it hi hne
  rcases hk c0 it hi with ⟨_, hkept⟩ | ⟨hrem, _⟩
  · exact hkept
  · exact absurd hrem hne

/-- C05 `removal_only_destroys`: `remove(iterator)`, `remove(key)`, `remove(value)` and `clear` emit nothing but
    destructor calls - no assignment and no construction: a removal never copies a neighbour's key or value into the
    removed node (the textbook "replace by the in-order neighbour" deletion is excluded), it relinks. -/
theorem removal_only_destroys (st st' : State) (m : Micro)
    (hm : (∃ c j, m = .remove c j) ∨ (∃ c k, m = .removeKey c k) ∨ (∃ c v, m = .removeVal c v) ∨ (∃ c, m = .clear c))
    (he : exec st m = some st') :
    ∃ evs, st'.log = st.log ++ evs ∧ ∀ e, e ∈ evs → ∃ l, e = .dtor l :=
  Assign.removal_only_dtors m hm he

/-- C05 `assign_only_value`: the only assignment a step on a node container ever performs has the VALUE object of an
    existing item of that container as destination (insert of an existing key into Map / HashMap, `*it = v`);
    key objects are never assigned. -/
theorem assign_only_value (st st' : State) (m : Micro) (c : Var) (hc : m.nodeTargets = [c] ∨ ∃ d, m.nodeTargets = [c, d])
    (he : exec st m = some st') :
    ∃ evs, st'.log = st.log ++ evs ∧ ∀ dst src, Ev.assign dst src ∈ evs → ∃ it, it ∈ (st.nodes c).items ∧ dst = it.loc 1 :=
  Assign.node_assign_only_value m c hc he

/-- C05 `overwrite_same_key`: in an insertion the overwritten value belongs to the item that carries the inserted key. -/
theorem overwrite_same_key (st st' : State) (c : Var) (pos : Option Nat) (k v : Option SrcRef)
    (he : exec st (.put c pos k v) = some st') :
    ∃ evs, st'.log = st.log ++ evs ∧ ∀ dst src, Ev.assign dst src ∈ evs →
      ∃ it r kp, it ∈ (st.nodes c).items ∧ dst = it.loc 1 ∧ k = some r ∧ r.payload st = some kp ∧ keyOf st it = some kp :=
  Assign.put_assign_same_key c pos k v he

/-- C05 `swap_hands_over`: swap exchanges the item lists (and free lists, blocks, hash tables) of the two
    variables; no event is emitted and no object is touched: every element keeps its slot and now belongs
    to the other variable. -/
theorem swap_hands_over (st st' : State) (c d : Var) (he : exec st (.swap c d) = some st') :
    st'.nodes c = st.nodes d ∧ st'.nodes d = st.nodes c ∧ st'.log = st.log ∧ st'.mem = st.mem := by
  unfold exec at he
  by_cases hv : (Micro.swap c d).valid = true
  · rw [if_pos hv] at he
    simp only [exec'] at he
    by_cases hg : (!(st.nodes c).alive || !(st.nodes d).alive || c.k != d.k) = true
    · simp [hg] at he
    · simp only [hg, Bool.false_eq_true, if_false, Option.some.injEq] at he
      subst he
      refine ⟨?_, by simp [upd_same], rfl, rfl⟩
      by_cases hcd : c = d
      · subst hcd; simp [upd_same]
      · simp [upd_same, upd_other _ _ _ _ hcd]
  · rw [if_neg hv] at he; cases he

/-- C05 `blocks_stay`: the item blocks (the memory the element addresses point into) are allocated once and
    released only by the destructor of the container: in every reachable state every step that is not a
    container destructor or `Array::reserve` keeps every allocated block allocated - insert, remove, clear, swap
    never free a block, so element addresses stay valid memory for the whole life of the container. -/
theorem blocks_stay (p : Per) (ops : List Op) (m : Micro) (hm : m.releases = false) (st' : State)
    (he : exec (run (init p) ops) m = some st') : ∀ b n, (run (init p) ops).blk b = some n → st'.blk b = some n :=
  exec_blkKept (reach_ok p ops).1 m hm he

/-- C05 `pool_in_place` (micro-step level): the steps the PoolList / PoolMap operations consist of
    (`append` constructs the element in place from plain arguments; `remove`, `clear`, destructor, swap)
    emit no copy construction of an element object and no assignment. -/
theorem pool_in_place (st st' : State) (m : Micro) (hp : m.poolForm = true) (he : exec st m = some st') :
    ∃ evs, st'.log = st.log ++ evs ∧ ∀ e, e ∈ evs → ¬ e.copiesElement :=
  Stable.exec_pool m hp he

/-- C05 `pool_in_place`, operation level: for every state and every PoolList / PoolMap operation
    (`append`, `remove(iterator)`, `remove(element&)`, `remove(key)`, `clear`, re-construction, swap) the events of
    the operation contain no copy construction of an element object and no assignment: elements are constructed
    in place (one `construct` without source per element, by `lifecycle_ok` exactly one per lifetime) and never
    copied or moved afterwards.  (The key object of a PoolMap item is copy-constructed from the caller's key.) -/
theorem pool_ops_in_place (st : State) (op : Op) (hp : op.isPoolOp = true) :
    ∃ evs, (step st op).log = st.log ++ evs ∧ ∀ e, e ∈ evs → ¬ e.copiesElement :=
  Ops.step_pool st op hp

/-- non-vacuity: a reachable state with elements in every node kind, an insertion and a removal that succeed -/
def stableOps : List Op :=
  [.lInsert 0 none 1, .lInsert 0 none 2, .mInsert ⟨.M, 0⟩ 3 30, .mInsert ⟨.U, 0⟩ 3 30, .hInsert 0 none 4 40,
   .sInsert 0 none 4, .pAppend 0 9, .qAppend 0 1 2]
example : (exec (run (init per4) stableOps) (.put ⟨.L, 0⟩ (some 1) none (some (.item ⟨.L, 0⟩ 0 1)))).isSome = true ∧
    (exec (run (init per4) stableOps) (.remove ⟨.M, 0⟩ 0)).isSome = true ∧
    (exec (run (init per4) stableOps) (.swap ⟨.P, 0⟩ ⟨.P, 1⟩)).isSome = true ∧
    ((run (init per4) stableOps).nodes ⟨.Q, 0⟩).items.length = 1 := by decide +kernel

-- C05 for the clients (Server pools, Future worker contexts, Callback slots): a pointer stays valid until exactly the removal ----

/-- C05 `pointer_valid_until_removed` (client-facing corollary, the statement the clients of the guarantee rely on: `Server` keeps
    `PoolList` elements of clients / timers / listeners by address, `Future`'s thread pool its worker contexts, `Callback` its slots).
    Take ANY reachable state (after any history `ops0`) and any element `it` of any node or pool container `c` in it - e.g. the
    element whose address `PoolList::append`, `PoolMap::insert`, `List::append`, `HashMap::insert`, `Map::insert` has just returned
    (`insert_links_one_item`).  Then for EVERY further history `ops` - insertions and removals of other elements anywhere, rebalancing,
    bucket-chain surgery, copies, assignments, clear / destruction of OTHER containers, self-referential arguments, re-entrant removals,
    swaps - exactly one of two things holds, decided by `HistRemoves` (some operation of `ops`, evaluated in the state it runs in and
    following the element through swaps, is a remove / clear / destructor / re-construction designating this very element):
    * the history does not remove the element: it is `Kept` - still an item, in the SAME slot, of a container `c'` of its kind (c itself,
      or the other variable when an odd number of swaps handed it over), no object was constructed or destroyed in its slot during
      the whole history, its key is unchanged - and its value object is unchanged too unless the events contain an assignment TO THAT
      VERY OBJECT (which by `assign_only_value` / `overwrite_same_key` is the explicit overwrite `*it = v` or the insert-or-assign
      of the element's own key into Map / HashMap);
    * the history removes the element, and every member object of it was destroyed (the pointer dies exactly then, not before). -/
theorem pointer_valid_until_removed (p : Per) (ops0 ops : List Op) :
    ∃ evs, (run (run (init p) ops0) ops).log = (run (init p) ops0).log ++ evs ∧
      ∀ c it, it ∈ ((run (init p) ops0).nodes c).items →
        Valid (run (init p) ops0) (run (run (init p) ops0) ops) evs it c (HistRemoves (run (init p) ops0) ops c it) :=
  run_valid (reach_ok p ops0).1 ops

/-- the same for one operation and for one micro step are `stable_sharp` / `stable_step`; this is the one-operation form with the
    value clause -/
theorem pointer_valid_step (p : Per) (ops0 : List Op) (op : Op) :
    ∃ evs, (step (run (init p) ops0) op).log = (run (init p) ops0).log ++ evs ∧
      ∀ c it, it ∈ ((run (init p) ops0).nodes c).items →
        Valid (run (init p) ops0) (step (run (init p) ops0) op) evs it c (Op.removes (run (init p) ops0) op c it) :=
  step_valid (reach_ok p ops0).1 op

/-- what does NOT end the life of a pointer: no history made of insertions (single elements, own elements, whole containers, the
    container itself) and swaps removes any element of any container - in any state. -/
theorem insertions_and_swaps_never_invalidate (st : State) (ops : List Op)
    (hp : ∀ op, op ∈ ops → op.isInsertion = true ∨ ∃ c0 w, op = .swap c0 w) (c : Var) (it : Item) :
    ¬ HistRemoves st ops c it :=
  hist_insertions_swaps_remove_nothing ops st c it hp

/-- where the pointer comes from: in a reachable state an insertion step (`append` / `prepend` / `insert`, in-place construction of the
    pool containers included) either leaves the item list as it is (existing key: overwrite of that item's value, or nothing) or links
    exactly ONE new item, in a slot no element of the container occupied, keeping all others - the element whose address the call returns. -/
theorem insert_links_one_item (p : Per) (ops : List Op) (c : Var) (pos : Option Nat) (k v : Option SrcRef) (st' : State)
    (he : exec (run (init p) ops) (.put c pos k v) = some st') :
    (st'.nodes c).items = ((run (init p) ops).nodes c).items ∨
    ∃ it q, (st'.nodes c).items = insertAt ((run (init p) ops).nodes c).items q it ∧ it ∉ ((run (init p) ops).nodes c).items :=
  put_links_item (reach_ok p ops).1 c pos k v he

/-- non-vacuity of `pointer_valid_until_removed`: the PoolList element appended first in `stableOps` lives in slot (block, 3); the
    history `clientOps` (an append, a swap to the other variable, an append there, a re-entrant removal of two OTHER elements, a swap
    back) leaves it an item of variable 0 in that slot; appending `.pRemove 0 0` removes exactly it -/
def clientOps : List Op := [.pAppend 0 10, .pAppend 0 11, .swap ⟨.P, 0⟩ 1, .pAppend 1 12, .pRemoveChain 1 1 2, .swap ⟨.P, 1⟩ 0]
example : ((run (init per4) stableOps).nodes ⟨.P, 0⟩).items.head? = ((run (run (init per4) stableOps) clientOps).nodes ⟨.P, 0⟩).items.head? ∧
    ((run (init per4) stableOps).nodes ⟨.P, 0⟩).items.length = 1 ∧
    ((run (run (init per4) stableOps) clientOps).nodes ⟨.P, 0⟩).items.length = 2 ∧
    ((run (run (init per4) stableOps) (clientOps ++ [.pRemove 0 0])).nodes ⟨.P, 0⟩).items.length = 1 := by decide +kernel

/-- what DOES end the life of a pointer, besides the removal of the element itself (`removes_list_remove` and its siblings):
    `clear()` of the container that owns it, and the destructor of that container (here: `new`, destruction + re-construction of
    the variable) - each removes exactly the elements of that container, those of every other container live on. -/
theorem clear_and_destruction_remove_own_elements (p : Per) (ops : List Op) (c0 : Var) (hv : c0.valid = true) (c : Var) (it : Item) :
    (Op.removes (run (init p) ops) (.clear c0) c it ↔ c = c0) ∧ (Op.removes (run (init p) ops) (.new c0) c it ↔ c = c0) :=
  ⟨removes_clear (reach_ok p ops).1 (Ops.allAlive_reach p ops) c0 hv c it,
   removes_new (reach_ok p ops).1 (Ops.allAlive_reach p ops) c0 hv c it⟩

/-- C05 / C04, assignment from a sub-object: `m.insert(key, *m.find(key))`, `h.append(key, *h.find(key))` (Map, HashMap) - the
    argument is the value object of the very element the call overwrites.  In every reachable state the step performs exactly ONE
    event, the self-assignment `value = value` of that value object, and changes nothing: memory, item lists and blocks are as
    before, every pointer stays valid.  So with a value type whose self-assignment is the identity (the nstd containers after
    repair D2: `assign_self_noop`) `Map<K, List<T>>::insert(key, *map.find(key))` moves and copies nothing; a value type that
    re-allocates on self-assignment (seeded change C05-4) breaks exactly this composition, which the correspondence run shows
    on the real `List` (`L.assign v v`). -/
theorem insert_own_value_is_self_assignment (p : Per) (ops : List Op) (c : Var) (hc : c.k = .M ∨ c.k = .H) (pos : Option Nat)
    (i kp : Nat) (it : Item) (hi : ((run (init p) ops).nodes c).items[i]? = some it) (hkey : keyOf (run (init p) ops) it = some kp)
    (st' : State) (he : exec (run (init p) ops) (.put c pos (some (.ext kp)) (some (.item c i 1))) = some st') :
    st'.log = (run (init p) ops).log ++ [.assign (it.loc 1) (it.loc 1)] ∧ st'.mem = (run (init p) ops).mem ∧
      st'.nodes = (run (init p) ops).nodes ∧ st'.blk = (run (init p) ops).blk :=
  put_own_value_self_assign (reach_ok p ops).1 (Copy.keysOk_reach p ops) c hc pos i kp it hi hkey he

/-- non-vacuity: in `stableOps` the Map holds key 3; inserting (3, value of item 0) is executable -/
example : ((run (init per4) stableOps).nodes ⟨.M, 0⟩).items.length = 1 ∧
    (exec (run (init per4) stableOps) (.put ⟨.M, 0⟩ none (some (.ext 3)) (some (.item ⟨.M, 0⟩ 0 1)))).isSome = true := by decide +kernel

-- C05: List::sort - the nodes stay, the values are exchanged ---------------------------------------------------------------

/-- C05 `sort_keeps_nodes_swaps_values`.  `l.sort()` under any comparator, in every reachable state: it removes no element of any
    container (`Op.removes` is false), every node keeps its slot and its place in every item list (`nodes` unchanged), nothing is
    constructed or destroyed in any slot (all events are `SortEv` assignments) - so in the terms of `pointer_valid_until_removed`
    every POINTER / iterator to an element stays valid across `sort` (the element is `Kept`) - but it is the VALUES that are sorted:
    the value object a pointer designates is assigned to by the swaps (that clause of `Valid`: unchanged "unless the events contain an
    assignment to that very object"), so afterwards the pointer may see another value.  `sort` moves values between addresses, not
    nodes; a client that keeps element addresses across `sort` keeps valid memory but not "its" value. -/
theorem sort_keeps_nodes_swaps_values (p : Per) (ops : List Op) (v : Nat) (orc : List Bool) :
    (step (run (init p) ops) (.lSort v orc)).nodes = (run (init p) ops).nodes ∧
    (∀ c it, ¬ Op.removes (run (init p) ops) (.lSort v orc) c it) ∧
    ∃ evs, (step (run (init p) ops) (.lSort v orc)).log = (run (init p) ops).log ++ evs ∧
      (∀ e, e ∈ evs → SortEv (run (init p) ops) ⟨.L, v⟩ e) ∧
      ∀ c it, it ∈ ((run (init p) ops).nodes c).items →
        Valid (run (init p) ops) (step (run (init p) ops) (.lSort v orc)) evs it c False := by
  obtain ⟨hn, _, _, evs, hl, hev⟩ := step_sort (run (init p) ops) v orc
  refine ⟨hn, fun c it => sort_removes_nothing _ v orc c it, evs, hl, hev, ?_⟩
  obtain ⟨evs', hl', hv⟩ := step_valid (reach_ok p ops).1 (.lSort v orc)
  have hee : evs' = evs := List.append_cancel_left (hl'.symm.trans hl)
  subst hee
  intro c it hi
  rcases hv c it hi with ⟨_, h2⟩ | ⟨h1, _⟩
  · exact Or.inl ⟨fun h => h, h2⟩
  · exact absurd h1 (sort_removes_nothing _ v orc c it)

-- C05: which address an insertion takes (LIFO free list) - "an address is reused only after its element was removed" ------------

/-- C05 `insert_takes_free_head` (List, HashMap, HashSet, PoolList, PoolMap, and the slot side of Map / MultiMap; the tree side is
    `Mech.map_insert_takes_free_head`).  In every reachable state an insertion step that links a new item takes
    * the HEAD of the container's free list - the slot released most recently - leaving the rest of the free list and the blocks as
      they are; or, the free list being empty,
    * the first slot in hand-out order of a block `b` never allocated before (`newSlots`: slot 0 for HashMap / HashSet, the last slot
      for the others), the other slots of the block becoming the free list;
    and in both cases that slot holds no element of ANY container at that moment (`slot_reused_only_after_removal`). -/
theorem insert_takes_free_head (p : Per) (ops : List Op) (c : Var) (pos : Option Nat) (k v : Option SrcRef) (st' : State)
    (he : exec (run (init p) ops) (.put c pos k v) = some st')
    (hg : (st'.nodes c).items.length = ((run (init p) ops).nodes c).items.length + 1) :
    (∀ it rest, ((run (init p) ops).nodes c).free = it :: rest →
      (∃ q, (st'.nodes c).items = insertAt ((run (init p) ops).nodes c).items q it) ∧ (st'.nodes c).free = rest ∧
        (st'.nodes c).blocks = ((run (init p) ops).nodes c).blocks) ∧
    (((run (init p) ops).nodes c).free = [] →
      ∃ b it rest q, (run (init p) ops).next ≤ b ∧ newSlots ((run (init p) ops).per.f c.k) c.k b = it :: rest ∧
        (st'.nodes c).items = insertAt ((run (init p) ops).nodes c).items q it ∧ (st'.nodes c).free = rest ∧
        (st'.nodes c).blocks = b :: ((run (init p) ops).nodes c).blocks) :=
  put_takes_free_head c pos k v he hg

/-- C05 `remove_then_insert_reuses`: the first insertion into a container after `remove(iterator)` constructs its item in exactly the
    slot just released, and free list and blocks are back to what they were before the removal (any state). -/
theorem remove_then_insert_reuses (st s1 s2 : State) (c : Var) (j : Nat) (h1 : exec st (.remove c j) = some s1)
    (pos : Option Nat) (k v : Option SrcRef) (h2 : exec s1 (.put c pos k v) = some s2)
    (hg : (s2.nodes c).items.length = (s1.nodes c).items.length + 1) :
    ∃ it q, (st.nodes c).items[j]? = some it ∧ (s2.nodes c).items = insertAt ((st.nodes c).items.eraseIdx j) q it ∧
      (s2.nodes c).free = (st.nodes c).free ∧ (s2.nodes c).blocks = (st.nodes c).blocks :=
  remove_then_put_reuses c j h1 pos k v h2 hg

/-- C05 `slot_reused_only_after_removal`: the slot an insertion constructs its new item in is, in the state before, the slot of NO
    element of any container: an address designates a new element only after the element that lived there was removed (or it was
    never used). -/
theorem slot_reused_only_after_removal (p : Per) (ops : List Op) (c : Var) (pos : Option Nat) (k v : Option SrcRef) (st' : State)
    (he : exec (run (init p) ops) (.put c pos k v) = some st') (it : Item) (q : Nat)
    (hq : (st'.nodes c).items = insertAt ((run (init p) ops).nodes c).items q it) (hnew : it ∉ ((run (init p) ops).nodes c).items) :
    ∀ c', it ∉ ((run (init p) ops).nodes c').items :=
  put_new_item_unused (reach_ok p ops).1 c pos k v he it q hq hnew

/-- non-vacuity: remove the first PoolList element of `stableOps`, append again - executable, the container grows -/
example : (exec (run (init per4) stableOps) (.remove ⟨.P, 0⟩ 0)).isSome = true ∧
    ((step (step (run (init per4) stableOps) (.pRemove 0 0)) (.pAppend 0 5)).nodes ⟨.P, 0⟩).items =
      ((run (init per4) stableOps).nodes ⟨.P, 0⟩).items := by decide +kernel

end Nstd.Life
