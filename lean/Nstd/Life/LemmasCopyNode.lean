import Nstd.Life.LemmasKeys
/-
  F2, second part: a copy of a keyed container (Map, MultiMap, HashMap, HashSet) or of a List has the
  value of its source.  Uses the key invariant `KeysOk` of the source.
-/
namespace Nstd.Life.Copy
open Nstd.Life

def entryOf (x : State) (k : Kind) (it : Item) : Option Nat × Option Nat :=
  (if k.hasKey then keyOf x it else none, if k = .S then none else valOf x it)

theorem absNode_eq (x : State) (c : Var) : absNode x c = (x.nodes c).items.map (entryOf x c.k) := rfl

theorem findField_some_mem (st : State) (p : Nat) : ∀ (items : List Item) (j : Nat),
    findField st 0 p items = some j → some p ∈ items.map (keyOf st)
  | [], j, h => by simp [findField] at h
  | it :: rest, j, h => by
    simp only [findField] at h
    by_cases hc : st.mem (it.loc 0) = some p
    · simp only [List.map_cons, List.mem_cons]; exact Or.inl hc.symm
    · simp only [hc, if_false, Option.map_eq_some_iff] at h
      obtain ⟨j', hj', _⟩ := h
      simp only [List.map_cons, List.mem_cons]
      exact Or.inr (findField_some_mem st p rest j' hj')

/-- one step of the copy loop: the entry of item j of the source is appended to the destination -/
theorem put_copy_step {x : State} (ix : SInv x) (c w' : Var) (hc : c.valid = true) (hk : w'.k = c.k)
    (ax : (x.nodes c).alive = true) (j : Nat) (itw : Item) (hj : (x.nodes w').items[j]? = some itw)
    (hfresh : c.k.hasKey = true → c.k ≠ .U → keyOf x itw ∉ keysOf x c)
    (hend : ∀ kp, keyOf x itw = some kp →
      (c.k = .U → cw (fun a => a ≤ kp) (keysOf x c) = (x.nodes c).items.length) ∧
      (c.k = .M → cw (fun a => a < kp) (keysOf x c) = (x.nodes c).items.length)) :
    ∃ x', exec x (.put c none (if c.k.hasKey then some (.item w' j 0) else none)
        (if c.k = .S then none else some (.item w' j 1))) = some x' ∧
      absNode x' c = absNode x c ++ [entryOf x c.k itw] := by
  have hjw : j < (x.nodes w').items.length := (List.getElem?_eq_some_iff.mp hj).1
  have hdef := Ops.put_def ix c none (if c.k.hasKey then some (.item w' j 0) else none)
    (if c.k = .S then none else some (.item w' j 1)) hc ax (by simp)
    (by
      intro r hr
      by_cases hkey : c.k.hasKey = true
      · simp only [hkey, if_true, Option.some.injEq] at hr
        subst hr
        exact Ops.srcOK_item (by rw [hk]; exact (Ops.hasKey_iff c.k).mp hkey) hjw
      · simp [hkey] at hr)
    (by intro h0; have := (Ops.hasKey_iff c.k).mpr h0; simp [this])
    (by
      intro r hr
      by_cases hS : c.k = .S
      · simp [hS] at hr
      · simp only [hS, if_false, Option.some.injEq] at hr
        subst hr
        exact Ops.srcOK_item (by rw [hk]; exact (Ops.one_mem_fields c.k).mpr hS) hjw)
    (by intro h1; have := (Ops.one_mem_fields c.k).mp h1; simp [this])
    (by
      intro _ r hr
      by_cases hS : c.k = .S
      · simp [hS] at hr
      · simp only [hS, if_false, Option.some.injEq] at hr
        subst hr; trivial)
  obtain ⟨x', hx'⟩ := hdef
  refine ⟨x', hx', ?_⟩
  have he' := Stable.exec_exec' hx'
  simp only [exec', ax, Bool.not_true, Bool.false_eq_true, if_false] at he'
  cases hkr : resolveOpt x (if c.k.hasKey then some (.item w' j 0) else none) with
  | none => simp [hkr] at he'
  | some kr =>
    simp only [hkr] at he'
    cases hvr : resolveOpt x (if c.k = .S then none else some (.item w' j 1)) with
    | none => simp [hvr] at he'
    | some vr =>
      simp only [hvr] at he'
      cases hsr : fieldSrcs c.k kr vr with
      | none => simp [hsr] at he'
      | some srcs =>
        simp only [hsr, Option.getD_none, Nat.lt_irrefl, gt_iff_lt, if_false] at he'
        -- the resolved operands
        have hkr' : c.k.hasKey = true → kr = some (some (itw.loc 0), keyOf x itw) := by
          intro hkey
          have h0 : 0 ∈ w'.k.fields := by rw [hk]; exact (Ops.hasKey_iff c.k).mp hkey
          simp only [hkey, if_true] at hkr
          simp [resolveOpt, resolve, SrcRef.loc, SrcRef.payload, h0, hj] at hkr
          rw [← hkr]; rfl
        have hkr'' : c.k.hasKey = false → kr = none := by
          intro hkey
          simp only [hkey, Bool.false_eq_true, if_false] at hkr
          simp [resolveOpt] at hkr
          exact hkr.symm
        have hvr' : c.k ≠ .S → vr = some (some (itw.loc 1), valOf x itw) := by
          intro hS
          have h1 : 1 ∈ w'.k.fields := by rw [hk]; exact (Ops.one_mem_fields c.k).mpr hS
          simp only [hS, if_false] at hvr
          simp [resolveOpt, resolve, SrcRef.loc, SrcRef.payload, h1, hj] at hvr
          rw [← hvr]; rfl
        have hfs := (mapM_fields (P := fun _ _ => True) kr vr (fun _ _ _ => trivial) (fun _ _ _ => trivial)
          c.k.fields srcs hsr).1
        rcases putResolved_shape c _ kr vr srcs he' with ⟨_, l, kp, j', hkk, hnU, hfind⟩ | ⟨q, rfl, hq0, hq1⟩
        · -- the key was found: impossible
          exfalso
          cases hkey : c.k.hasKey with
          | false => rw [hkr'' hkey] at hkk; cases hkk
          | true =>
            rw [hkr' hkey] at hkk
            simp only [Option.some.injEq, Prod.mk.injEq] at hkk
            apply hfresh hkey hnU
            rw [hkk.2]
            exact findField_some_mem x kp _ j' hfind
        · -- the item is inserted at the end
          have hq : q = (x.nodes c).items.length := by
            cases hkey : c.k.hasKey with
            | false => exact hq0 hkey
            | true =>
              obtain ⟨l, kp, hkk, hU, hnU⟩ := hq1 hkey
              rw [hkr' hkey] at hkk
              simp only [Option.some.injEq, Prod.mk.injEq] at hkk
              obtain ⟨eU, eM⟩ := hend kp hkk.2
              by_cases hu : c.k = .U
              · rw [hU hu, countWhile_eq]; exact eU hu
              · obtain ⟨_, hM, hnM⟩ := hnU hu
                by_cases hm : c.k = .M
                · rw [hM hm, countWhile_eq]; exact eM hm
                · exact hnM hm
          subst hq
          obtain ⟨it, hit, hmem⟩ := insertNew_full x c (x.nodes c).items.length srcs
            (by rw [hfs]; exact fields_nodup _)
          obtain ⟨evs, heff, _⟩ := Stable.insertNew_eff (AS := fun _ => False) x c (x.nodes c).items.length srcs
          have hold : ∀ it', it' ∈ (x.nodes c).items → ∀ f,
              (insertNew x c (x.nodes c).items.length srcs).mem (it'.loc f) = x.mem (it'.loc f) :=
            fun it' hit' f => heff.2.2 _ (Stable.item_notFreeOrFresh ix hit' c f) (fun hf => hf)
          rw [absNode_eq, absNode_eq, hit, insertAt_end, List.map_append]
          congr 1
          · apply List.map_congr_left
            intro it' hit'
            simp only [entryOf, keyOf, valOf, hold it' hit']
          · simp only [List.map_cons, List.map_nil, List.cons.injEq, and_true]
            simp only [entryOf, Prod.mk.injEq]
            constructor
            · cases hkey : c.k.hasKey with
              | false => simp
              | true =>
                simp only [if_true]
                have h0 : 0 ∈ srcs.map (·.1) := by rw [hfs]; exact (Ops.hasKey_iff _).mp hkey
                obtain ⟨y, hy, hy0⟩ := List.mem_map.mp h0
                have hyk : y.2.2 = keyOf x itw := by
                  rcases Stable.fieldSrcs_shape kr vr c.k.fields srcs hsr y hy with ⟨_, e⟩ | ⟨ne, _⟩
                  · rw [hkr' hkey] at e
                    simp only [Option.some.injEq, Prod.mk.injEq] at e; exact e.2.symm
                  · exact absurd hy0 ne
                have hm := hmem y hy
                rw [hy0, hyk] at hm
                exact hm
            · by_cases hS : c.k = .S
              · simp [hS]
              · simp only [hS, if_false]
                have h1 : 1 ∈ srcs.map (·.1) := by rw [hfs]; exact (Ops.one_mem_fields _).mpr hS
                obtain ⟨y, hy, hy1⟩ := List.mem_map.mp h1
                have hyk : y.2.2 = valOf x itw := by
                  rcases Stable.fieldSrcs_shape kr vr c.k.fields srcs hsr y hy with ⟨e0, _⟩ | ⟨_, e⟩
                  · rw [hy1] at e0; cases e0
                  · rw [hvr' hS] at e
                    simp only [Option.some.injEq, Prod.mk.injEq] at e; exact e.2.symm
                have hm := hmem y hy
                rw [hy1, hyk] at hm
                exact hm

theorem cw_all (pr : Nat → Bool) : ∀ l : List (Option Nat),
    (∀ a, a ∈ l → ∃ k, a = some k ∧ pr k = true) → cw pr l = l.length
  | [], _ => rfl
  | a :: rest, h => by
    obtain ⟨k, rfl, hk⟩ := h a (by simp)
    simp only [cw, hk, if_true, List.length_cons]
    rw [cw_all pr rest (fun b hb => h b (by simp [hb]))]

theorem pairwise_take_get {α : Type} {R : α → α → Prop} {l : List α} (hp : l.Pairwise R) {j : Nat}
    (hj : j < l.length) : ∀ a, a ∈ l.take j → R a l[j] := by
  intro a ha
  have hsplit : l = l.take j ++ l.drop j := (List.take_append_drop j l).symm
  rw [hsplit, List.pairwise_append] at hp
  apply hp.2.2 a ha
  rw [List.drop_eq_getElem_cons hj]
  exact List.mem_cons_self

theorem keysOf_abs (x : State) (c : Var) (hk : c.k.hasKey = true) : keysOf x c = (absNode x c).map (·.1) := by
  rw [absNode_eq, List.map_map]
  unfold keysOf
  apply List.map_congr_left
  intro it _
  simp [entryOf, hk]

/-- copying all items of w' into the empty container c of the same kind: c gets the value of w' -/
theorem copy_loop {s : State} (h : SInv s) (hko : KeysOk s) (c w' : Var) (hc : c.valid = true) (hk : w'.k = c.k)
    (hne : w' ≠ c) (ha : (s.nodes c).alive = true) (he : (s.nodes c).items = []) :
    ∃ s', execAll s (copyItems c w' (len s w')) = some s' ∧ absNode s' c = absNode s w' := by
  have hlen : len s w' = (absNode s w').length := by simp [len, absNode]
  have hklen : (keysOf s w').length = (absNode s w').length := by simp [keysOf, absNode]
  obtain ⟨s', hs', _, _, hab, _⟩ := Ops.loop_def
    (fun j x => SInv x ∧ (x.nodes c).alive = true ∧ absNode x c = (absNode s w').take j ∧
      x.nodes w' = s.nodes w' ∧ ∀ it f, it ∈ (s.nodes w').items → x.mem (it.loc f) = s.mem (it.loc f))
    (copyItems c w' (len s w')) 0 s ⟨h, ha, by simp [absNode, he], rfl, fun _ _ _ => rfl⟩ (by
      intro j m x hm ⟨ix, ax, cx, wn, wm⟩
      obtain ⟨hj, rfl⟩ := Ops.range_map_get hm
      simp only [Nat.zero_add] at cx ⊢
      rw [hlen] at hj
      have hji : j < (s.nodes w').items.length := by rw [← absNode_length]; exact hj
      have hjk : j < (keysOf s w').length := by rw [hklen]; exact hj
      -- the item of the source
      have hitw : (x.nodes w').items[j]? = some (s.nodes w').items[j] := by
        rw [wn]; exact List.getElem?_eq_getElem hji
      have hmem : (s.nodes w').items[j] ∈ (s.nodes w').items := List.getElem_mem hji
      have hkeyx : keyOf x (s.nodes w').items[j] = (keysOf s w')[j] := by
        simp only [keysOf, List.getElem_map, keyOf]; exact wm _ 0 hmem
      have hentry : entryOf x c.k (s.nodes w').items[j] = (absNode s w')[j] := by
        simp only [absNode_eq, List.getElem_map, entryOf, keyOf, valOf, wm _ _ hmem, hk]
      have hkc : c.k.hasKey = true → keysOf x c = (keysOf s w').take j := by
        intro hkey
        rw [keysOf_abs x c hkey, cx, keysOf_abs s w' (by rw [hk]; exact hkey), List.map_take]
      have hlc : (x.nodes c).items.length = j := by
        rw [← absNode_length, cx, List.length_take]; omega
      obtain ⟨k1, k2, k3⟩ := hko w'
      rw [hk] at k1 k2 k3
      obtain ⟨x', hx', habs⟩ := put_copy_step ix c w' hc hk ax j _ hitw
        (by
          intro hkey hnU hin
          rw [hkc hkey, hkeyx] at hin
          have hcases : c.k = .M ∨ (c.k = .H ∨ c.k = .S ∨ c.k = .Q) := by
            cases hck : c.k <;> simp_all [Kind.hasKey]
          rcases hcases with hM | hHSQ
          · obtain ⟨a, b, e1, e2, hlt⟩ := pairwise_take_get (k1 hM) hjk _ hin
            rw [e1] at e2; cases e2; omega
          · exact pairwise_take_get (List.nodup_iff_pairwise_ne.mp (k3 hHSQ)) hjk _ hin rfl)
        (by
          intro kp hkp
          rw [hkeyx] at hkp
          constructor
          · intro hU
            have hkey : c.k.hasKey = true := by rw [hU]; rfl
            rw [hkc hkey, cw_all, List.length_take, hlc]; omega
            intro a ha
            obtain ⟨a', b, e1, e2, hle⟩ := pairwise_take_get (k2 hU) hjk a ha
            rw [hkp] at e2; cases e2
            exact ⟨a', e1, by simpa using hle⟩
          · intro hM
            have hkey : c.k.hasKey = true := by rw [hM]; rfl
            rw [hkc hkey, cw_all, List.length_take, hlc]; omega
            intro a ha
            obtain ⟨a', b, e1, e2, hlt⟩ := pairwise_take_get (k1 hM) hjk a ha
            rw [hkp] at e2; cases e2
            exact ⟨a', e1, by simpa using hlt⟩)
      obtain ⟨fn, fm⟩ := Stable.exec_frame_node ix _ hx' w' (by simp [Micro.nodeTargets, hne])
      obtain ⟨_, _, _, _, a1⟩ := Ops.put_post c none _ _ hx'
      refine ⟨x', hx', (exec_ok ix _ hx').1, by rw [a1]; exact ax, ?_, by rw [fn, wn], ?_⟩
      · rw [habs, cx, hentry, List.take_add_one, List.getElem?_eq_getElem hj]; rfl
      · intro it f hit
        rw [fm it f (by rw [wn]; exact hit), wm it f hit])
  refine ⟨s', hs', ?_⟩
  have hcl : (copyItems c w' (len s w')).length = (absNode s w').length := by simp [copyItems, hlen]
  rw [hab, Nat.zero_add, hcl, List.take_length]

theorem copy_equal_node_st {st : State} (h : SInv st) (ha : Ops.AllAlive st) (hko : KeysOk st) (c : Var) (w : Nat)
    (hc : c.valid = true) (hp : c.k.isPool = false) (hw : w ≤ 1) (hne : c.v ≠ w) :
    absNode (step st (.copy c w)) c = absNode st ⟨c.k, w⟩ ∧
    absNode (step st (.assign c w)) c = absNode st ⟨c.k, w⟩ := by
  have hcv : c.v ≤ 1 ∧ c.k ≠ .A := by
    simp only [Var.valid, Bool.and_eq_true, decide_eq_true_eq, bne_iff_ne, ne_eq] at hc; exact hc
  have hwc : (⟨c.k, w⟩ : Var) ≠ c := by
    intro e
    have : (⟨c.k, w⟩ : Var).v = c.v := by rw [e]
    exact hne this.symm
  constructor
  · obtain ⟨s1, s2, e1, e2, i2, f2, o2⟩ := Ops.dc_def h c hc (ha.1 _ hc)
    have hex2 : execAll st [.destroy c, .create c] = some s2 := by simp [execAll, e1, e2]
    have hw2 : absNode s2 ⟨c.k, w⟩ = absNode st ⟨c.k, w⟩ := by
      obtain ⟨fn, fm⟩ := Ops.execAll_frame_node h [.destroy c, .create c] ⟨c.k, w⟩
        (by intro m hm; simp only [List.mem_cons, List.not_mem_nil, or_false] at hm
            rcases hm with rfl | rfl <;> simp [Micro.nodeTargets, hwc]) hex2
      exact Ops.absNode_congr _ fn fm
    obtain ⟨s', hs', hab⟩ := copy_loop i2 (keysOk_execAll h hko _ hex2) c ⟨c.k, w⟩ hc rfl hwc
      (by rw [f2.1]; exact ha.1 _ hc) (by rw [create_nodes _ e2])
    have hlen : len s2 ⟨c.k, w⟩ = len st ⟨c.k, w⟩ := by simp only [len]; rw [o2 _ hwc]
    rw [hlen] at hs'
    have hcomp : compile st (.copy c w) =
        some ([.destroy c, .create c] ++ copyItems c ⟨c.k, w⟩ (len st ⟨c.k, w⟩)) := by
      simp [compile, guard', hcv.1, hw, hne, hp, hcv.2]
    have hexec : execAll st ([.destroy c, .create c] ++ copyItems c ⟨c.k, w⟩ (len st ⟨c.k, w⟩)) = some s' := by
      simp only [List.cons_append, List.nil_append, execAll, e1, e2]; exact hs'
    rw [step_eq hcomp hexec, hab, hw2]
  · obtain ⟨s1, e1⟩ := Ops.clear_def (s := st) c hc (ha.1 _ hc)
    obtain ⟨i1, f1, _⟩ := Ops.step_post h e1
    have hal : (s1.nodes c).alive = true := by
      rw [(Ops.exec_alive _ (Stable.exec_exec' e1)).1 c]; exact ha.1 _ hc
    have hw1 : absNode s1 ⟨c.k, w⟩ = absNode st ⟨c.k, w⟩ := by
      obtain ⟨fn, fm⟩ := Stable.exec_frame_node h _ e1 ⟨c.k, w⟩ (by simp [Micro.nodeTargets, hwc])
      exact Ops.absNode_congr _ fn fm
    obtain ⟨s', hs', hab⟩ := copy_loop i1 (keysOk_exec h hko _ e1) c ⟨c.k, w⟩ hc rfl hwc hal (clear_items _ e1)
    have hlen : len s1 ⟨c.k, w⟩ = len st ⟨c.k, w⟩ := by
      simp only [len]; rw [f1 _ (by simp [Micro.nodeTargets, hwc])]
    rw [hlen] at hs'
    have hcomp : compile st (.assign c w) =
        some ([.clear c] ++ copyItems c ⟨c.k, w⟩ (len st ⟨c.k, w⟩)) := by
      simp [compile, guard', hcv.1, hw, hne, hp, hcv.2]
    have hexec : execAll st ([.clear c] ++ copyItems c ⟨c.k, w⟩ (len st ⟨c.k, w⟩)) = some s' := by
      simp only [List.cons_append, List.nil_append, execAll, e1]; exact hs'
    rw [step_eq hcomp hexec, hab, hw1]

/-- a copy of a node container (List, Map, MultiMap, HashMap, HashSet) has the value of its source -/
theorem copy_equal_node (p : Per) (ops : List Op) (c : Var) (w : Nat) (hc : c.valid = true) (hp : c.k.isPool = false)
    (hw : w ≤ 1) (hne : c.v ≠ w) :
    absNode (step (run (init p) ops) (.copy c w)) c = absNode (run (init p) ops) ⟨c.k, w⟩ ∧
    absNode (step (run (init p) ops) (.assign c w)) c = absNode (run (init p) ops) ⟨c.k, w⟩ :=
  copy_equal_node_st (reach_ok p ops).1 (Ops.allAlive_reach p ops) (keysOk_reach p ops) c w hc hp hw hne

end Nstd.Life.Copy
