import Nstd.Life.LemmasArrTr2
set_option linter.unusedSimpArgs false
namespace Nstd.Life.ArrTr
open Nstd.Life.AP
open Nstd.Generated

theorem copySlots_setArr (db sb v : Nat) (x : Arr) : ∀ (k di si : Nat) (st : State),
    copySlots (st.setArr v x) db di sb si k = (copySlots st db di sb si k).setArr v x := by
  intro k
  induction k with
  | zero => intro di si st; rfl
  | succ k ih => intro di si st; simp only [copySlots]; exact ih (di + 1) (si + 1) (st.ctor _ _ _)

theorem copySlots_arrs (db sb : Nat) : ∀ (k di si : Nat) (st : State), (copySlots st db di sb si k).arrs = st.arrs := by
  intro k
  induction k with
  | zero => intro di si st; rfl
  | succ k ih => intro di si st; simp only [copySlots]; rw [ih]; rfl
@[simp] theorem hdrs_copySlots (db sb k di si : Nat) (st : State) : hdrs (copySlots st db di sb si k) = hdrs st := by
  funext a; simp [hdrs, copySlots_arrs]

/-- a chain of `aPush v (elem w j)`, j = si .. si+k-1, from ANOTHER array w -/
theorem exec_copy_other (v w s c sb : Nat) (hv : v ≤ 1) (hne : w ≠ v) : ∀ (k sz si : Nat) (st : State),
    st.arrs v = ⟨true, some s, c, sz⟩ → sz + k ≤ c → (st.arrs w).store = some sb → si + k ≤ (st.arrs w).size →
    execAll st ((List.range' si k).map fun j => .aPush v (.elem w j)) =
      some ((copySlots st s sz sb si k).setArr v ⟨true, some s, c, sz + k⟩) := by
  intro k
  induction k with
  | zero => intro sz si st hx _ _ _; simp [execAll, copySlots, setArr_self _ _ _ hx]
  | succ k ih =>
    intro sz si st hx hc hw hb
    have hp := exec_push hv hx (by omega) (.elem w si) _ _ (resolve_elem hw (by omega))
    simp only [List.range'_succ, List.map_cons, execAll, hp]
    have hx2 : ((st.ctor (.heap s sz 1) (some (.heap sb si 1)) (st.mem (.heap sb si 1))).setArr v ⟨true, some s, c, sz + 1⟩).arrs v
        = ⟨true, some s, c, sz + 1⟩ := by simp [State.setArr, upd_same]
    have hw2 : ((st.ctor (.heap s sz 1) (some (.heap sb si 1)) (st.mem (.heap sb si 1))).setArr v ⟨true, some s, c, sz + 1⟩).arrs w
        = st.arrs w := by simp [State.setArr, upd_other _ _ _ _ hne]
    rw [ih (sz + 1) (si + 1) _ hx2 (by omega) (by rw [hw2]; exact hw) (by rw [hw2]; omega), copySlots_setArr, setArr_setArr]
    simp only [copySlots]
    rw [show sz + 1 + k = sz + (k + 1) by omega]

/-- a chain of `aPush v (elem v j)`, j = si .. si+k-1, from the array ITSELF: the source index stays below the growing size -/
theorem exec_copy_self (v s c : Nat) (hv : v ≤ 1) : ∀ (k sz si : Nat) (st : State),
    st.arrs v = ⟨true, some s, c, sz⟩ → sz + k ≤ c → (k = 0 ∨ si < sz) →
    execAll st ((List.range' si k).map fun j => .aPush v (.elem v j)) =
      some ((copySlots st s sz s si k).setArr v ⟨true, some s, c, sz + k⟩) := by
  intro k
  induction k with
  | zero => intro sz si st hx _ _; simp [execAll, copySlots, setArr_self _ _ _ hx]
  | succ k ih =>
    intro sz si st hx hc hb
    have hsi : si < sz := by omega
    have hp := exec_push hv hx (by omega) (.elem v si) _ _ (resolve_elem (by rw [hx]) (by rw [hx]; exact hsi))
    simp only [List.range'_succ, List.map_cons, execAll, hp]
    have hx2 : ((st.ctor (.heap s sz 1) (some (.heap s si 1)) (st.mem (.heap s si 1))).setArr v ⟨true, some s, c, sz + 1⟩).arrs v
        = ⟨true, some s, c, sz + 1⟩ := by simp [State.setArr, upd_same]
    rw [ih (sz + 1) (si + 1) _ hx2 (by omega) (Or.inr (by omega)), copySlots_setArr, setArr_setArr]
    simp only [copySlots]
    rw [show sz + 1 + k = sz + (k + 1) by omega]


theorem lt_irrefl (p : Ptr) : Ptr.lt p p = false := by cases p <;> simp [Ptr.lt]

theorem reserveSt_other (st : State) (v n w : Nat) (hne : w ≠ v) : (reserveSt st v n).arrs w = st.arrs w := by
  unfold reserveSt
  by_cases hc : (n > (st.arrs v).cap || ((st.arrs v).store.isNone && n > 0)) = true
  · simp only [hc, if_true]
    cases (st.arrs v).store <;> simp [State.setArr, upd_other _ _ _ _ hne]
  · simp only [hc]; rfl

theorem hdrs_reserveSt_other (st : State) (v n w : Nat) (hne : w ≠ v) : hdrs (reserveSt st v n) w = hdrs st w := by
  simp [hdrs_apply, reserveSt_other st v n w hne]

theorem size_mk {st : State} {v : Nat} (h : AOk st v) :
    Ptr.diff (hdrs st v).fin (hdrs st v).begin = some (st.arrs v).size := size_rep h

theorem tr_size_mk {st : State} {w : Nat} (h : AOk st w) (fuel : Nat) :
    LifeArray.size fuel (mk st (hdrs st)) w = some (mk st (hdrs st), (st.arrs w).size) := by
  simp [LifeArray.size, size_mk h]

/-- `a.append(b)`, b another array -/
theorem tr_appendArr_other {st : State} {v w : Nat} (h : AOk st v) (hw : AOk st w) (hne : w ≠ v) (fuel : Nat)
    (hf : (st.arrs v).size + (st.arrs w).size < fuel) :
    ∃ st', stepRes st (.aAppendArr v w) = .ok st' ∧ LifeArray.appendArr fuel (rep st) v w = some (rep st', ()) := by
  have hr := tr_reserve_mk h ((st.arrs v).size + (st.arrs w).size) fuel (by omega)
  obtain ⟨f, rfl⟩ : ∃ f, fuel = f + 1 := ⟨fuel - 1, by omega⟩
  by_cases hk : (st.arrs w).size = 0
  · refine ⟨reserveSt st v ((st.arrs v).size + (st.arrs w).size), ?_, ?_⟩
    · simp [stepRes, compile, guard', h.le1, hw.le1, hk, execAll, exec_reserve h]
    · simp [LifeArray.appendArr, rep_mk, size_mk h, tr_size_mk hw, hr, hk, LifeArray.appendArr_loop1, lt_irrefl] at hr ⊢
      simp [hr, LifeArray.appendArr_loop1, lt_irrefl]
      exact congrArg _ (upd_eq_self _ _ _ rfl)
  · cases hsw : (st.arrs w).store with
    | none => have := hw.none_zero hsw; omega
    | some sb =>
      obtain ⟨s', c', hx, hn, hsz, _⟩ := reserveSt_arr h ((st.arrs v).size + (st.arrs w).size) (Or.inl (by omega))
      have hcp := exec_copy_other v w s' c' sb h.le1 hne (st.arrs w).size (st.arrs v).size 0
        (reserveSt st v ((st.arrs v).size + (st.arrs w).size)) hx (by omega)
        (by rw [reserveSt_other _ _ _ _ hne]; exact hsw) (by rw [reserveSt_other _ _ _ _ hne]; omega)
      refine ⟨_, by simp only [stepRes, compile, guard', decide_eq_true h.le1, decide_eq_true hw.le1, Bool.and_self, if_true, execAll,
        exec_reserve h, List.range_eq_range']; rw [hcp], ?_⟩
      have hh : hdrs (reserveSt st v ((st.arrs v).size + (st.arrs w).size)) v = ⟨.heap s' 0, .heap s' (st.arrs v).size, c'⟩ := by
        simp [hdrs_apply, hx]
      have hhw : hdrs (reserveSt st v ((st.arrs v).size + (st.arrs w).size)) w = ⟨.heap sb 0, .heap sb (st.arrs w).size, (st.arrs w).cap⟩ := by
        rw [hdrs_reserveSt_other _ _ _ _ hne]; simp [hdrs_apply, hdrOf_some hsw]
      have hl := appendArr_loop v s' sb (hdrs (reserveSt st v ((st.arrs v).size + (st.arrs w).size))) (st.arrs w).size (f + 1)
        (st.arrs v).size 0 (reserveSt st v ((st.arrs v).size + (st.arrs w).size)) (by omega)
      simp only [Nat.zero_add] at hl
      simp [LifeArray.appendArr, rep_mk, size_mk h, tr_size_mk hw, hr, hh, hhw, hl, upd_same]

/-- `a.append(a)` -/
theorem tr_appendArr_self {st : State} {v : Nat} (h : AOk st v) (fuel : Nat) (hf : (st.arrs v).size + (st.arrs v).size < fuel) :
    ∃ st', stepRes st (.aAppendArr v v) = .ok st' ∧ LifeArray.appendArr fuel (rep st) v v = some (rep st', ()) := by
  have hr := tr_reserve_mk h ((st.arrs v).size + (st.arrs v).size) fuel (by omega)
  obtain ⟨f, rfl⟩ : ∃ f, fuel = f + 1 := ⟨fuel - 1, by omega⟩
  by_cases hk : (st.arrs v).size = 0
  · refine ⟨reserveSt st v ((st.arrs v).size + (st.arrs v).size), ?_, ?_⟩
    · simp [stepRes, compile, guard', h.le1, hk, execAll, exec_reserve h]
    · simp [LifeArray.appendArr, rep_mk, size_mk h, tr_size_mk h, hr, hk, LifeArray.appendArr_loop1, lt_irrefl] at hr ⊢
      simp [hr, LifeArray.appendArr_loop1, lt_irrefl]
      exact congrArg _ (upd_eq_self _ _ _ rfl)
  · obtain ⟨s', c', hx, hn, hsz, _⟩ := reserveSt_arr h ((st.arrs v).size + (st.arrs v).size) (Or.inl (by omega))
    have hcp := exec_copy_self v s' c' h.le1 (st.arrs v).size (st.arrs v).size 0
      (reserveSt st v ((st.arrs v).size + (st.arrs v).size)) hx (by omega) (Or.inr (by omega))
    refine ⟨_, by simp only [stepRes, compile, guard', decide_eq_true h.le1, Bool.and_self, if_true, execAll,
      exec_reserve h, List.range_eq_range']; rw [hcp], ?_⟩
    have hh : hdrs (reserveSt st v ((st.arrs v).size + (st.arrs v).size)) v = ⟨.heap s' 0, .heap s' (st.arrs v).size, c'⟩ := by
      simp [hdrs_apply, hx]
    have hl := appendArr_loop v s' s' (hdrs (reserveSt st v ((st.arrs v).size + (st.arrs v).size))) (st.arrs v).size (f + 1)
      (st.arrs v).size 0 (reserveSt st v ((st.arrs v).size + (st.arrs v).size)) (by omega)
    simp only [Nat.zero_add] at hl
    simp [LifeArray.appendArr, rep_mk, size_mk h, tr_size_mk h, hr, hh, hl, upd_same]
end Nstd.Life.ArrTr
