import Nstd.Life.Model
/-
  Pointer-level machine for `Array<T>` (Array.hpp): the TARGET of the translator tools/gen_life.py.

  The translator turns the bodies of the member functions of Array.hpp, statement by statement, into Lean functions over
  this machine (lean/Nstd/Generated/LifeArray.lean); Nstd/Life/PropsArrTr.lean proves that each of them computes exactly what
  the hand-written slot-level model (`compile` + `exec` of Nstd/Life/Model.lean) computes - same memory, same block table,
  same event log, same container header - on every state that represents a model state.

  What the machine contains (and nothing else):
    * `Ptr`: a value of type `T*` / `const T*`: null, the address of slot i of heap block b, or the address of an object of
      the caller (`ext p`: the temporary a `const T&` parameter is bound to, with payload p);
    * `Hdr`: the three data members of an Array object (`_begin.item`, `_end.item`, `_capacity`);
    * `PS`: heap (`next`, `mem`, `blk`, `log` - the same components as in `State`) and the Array objects `hd i`;
      two references to Array objects alias iff they carry the same index;
    * the effect of the five lifetime statements: `new char[sizeof(T) * n]`, `delete[] (char*)p`, `new(d) T(*s)`, `p->~T()`,
      `*d = *s`; each emits the event the model emits (`Ev`).
  A statement whose operands make it undefined in C++ (dereferencing null, pointer difference between different blocks,
  arithmetic on a pointer to a single object, `delete[]` of something that is not the start of a block) yields `none`.
-/
namespace Nstd.Life.AP

inductive Ptr
  | null
  | heap (b i : Nat)
  | ext (p : Nat)
deriving DecidableEq, Repr

structure Hdr where
  begin : Ptr := .null
  fin : Ptr := .null
  cap : Nat := 0
deriving DecidableEq, Repr

structure PS where
  next : Nat
  mem : Loc → Option Nat
  blk : Nat → Option Nat
  log : List Ev
  hd : Nat → Hdr

def PS.setHd (S : PS) (a : Nat) (h : Hdr) : PS := { S with hd := upd S.hd a h }

/-- `p + n` -/
def Ptr.add : Ptr → Nat → Option Ptr
  | .heap b i, n => some (.heap b (i + n))
  | p, 0 => some p
  | _, _ => none

/-- `p - n` -/
def Ptr.subn : Ptr → Nat → Option Ptr
  | .heap b i, n => if n ≤ i then some (.heap b (i - n)) else none
  | p, 0 => some p
  | _, _ => none

/-- `p - q` (number of elements) -/
def Ptr.diff : Ptr → Ptr → Option Nat
  | .null, .null => some 0
  | .heap b i, .heap b' j => if b = b' ∧ j ≤ i then some (i - j) else none
  | _, _ => none

/-- `p < q`.  Inside one block: by index.  Between different allocations the C++ result is unspecified but consistent; the
    machine answers by ONE fixed total order in which every block is a contiguous interval (null, then the heap blocks by
    number, then the caller's objects).  The translated code uses `<` / `>=` between different allocations only in the range
    test `ref >= _begin.item && ref < _end.item`, whose value is the same under every such order. -/
def Ptr.lt : Ptr → Ptr → Bool
  | .null, .null => false
  | .null, _ => true
  | .heap _ _, .null => false
  | .heap b i, .heap b' j => decide (b < b' ∨ (b = b' ∧ i < j))
  | .heap _ _, .ext _ => true
  | .ext _, .null => false
  | .ext _, .heap _ _ => false
  | .ext p, .ext q => decide (p < q)

/-- `a - b` on `usize` (64 bit): wraps around when b > a -/
def usub (a b : Nat) : Nat := if b ≤ a then a - b else a + 2 ^ 64 - b

/-- `new char[sizeof(T) * n]`: a fresh block with n element slots; the result points at slot 0 -/
def PS.newBlock (S : PS) (n : Nat) : PS × Ptr :=
  ({ S with next := S.next + 1, blk := upd S.blk S.next (some n), log := S.log ++ [.alloc S.next n] }, .heap S.next 0)

/-- `delete[] (char*)p` -/
def PS.deleteBlock (S : PS) : Ptr → Option PS
  | .heap b 0 => some { S with blk := upd S.blk b none, log := S.log ++ [.free b] }
  | _ => none

/-- the object a pointer designates, as a source of a copy: location and payload -/
def PS.src (S : PS) : Ptr → Option (Loc × Option Nat)
  | .heap b i => some (.heap b i 1, S.mem (.heap b i 1))
  | .ext p => some (.ext, some p)
  | .null => none

/-- `new(d) T(*s)` -/
def PS.construct (S : PS) (d s : Ptr) : Option PS :=
  match d, S.src s with
  | .heap b i, some (l, p) => some { S with mem := upd S.mem (.heap b i 1) p, log := S.log ++ [.ctor (.heap b i 1) (some l)] }
  | _, _ => none

/-- `p->~T()` -/
def PS.destroy (S : PS) : Ptr → Option PS
  | .heap b i => some { S with mem := upd S.mem (.heap b i 1) none, log := S.log ++ [.dtor (.heap b i 1)] }
  | _ => none

/-- `*d = *s` -/
def PS.assignObj (S : PS) (d s : Ptr) : Option PS :=
  match d, S.src s with
  | .heap b i, some (l, p) => some { S with mem := upd S.mem (.heap b i 1) p, log := S.log ++ [.assign (.heap b i 1) l] }
  | _, _ => none

-- ---------------------------------------------------------------------------------------------
-- representation of a model state

/-- the header of a model array: `_begin.item` = slot 0 of the storage block (null before the first allocation),
    `_end.item` = slot `size` -/
def hdrOf (x : Arr) : Hdr :=
  match x.store with
  | some s => ⟨.heap s 0, .heap s x.size, x.cap⟩
  | none => ⟨.null, .null, x.cap⟩

def rep (st : State) : PS :=
  { next := st.next, mem := st.mem, blk := st.blk, log := st.log, hd := fun a => hdrOf (st.arrs a) }

end Nstd.Life.AP
