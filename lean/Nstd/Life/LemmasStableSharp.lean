import Nstd.Life.LemmasStableOps
import Nstd.Life.LemmasFault
/-
  C05, sharp form at the level of lists of micro steps and of operations: an element is destroyed by an
  operation only if the operation is meant to remove it (`Op.removes`), otherwise it is kept.
-/
namespace Nstd.Life

/-- the executed list of micro steps removes element `it` of container c (evaluated in the intermediate states; a swap
    earlier in the list moves the element to the other variable) -/
def MicrosRemove : State → List Micro → Var → Item → Prop
  | _, [], _, _ => False
  | st, m :: rest, c, it =>
    m.removes st c it ∨ (¬ m.removes st c it ∧ ∃ st1, exec st m = some st1 ∧ MicrosRemove st1 rest (m.moves c) it)

/-- the operation removes element `it` of container c -/
def Op.removes (st : State) (op : Op) (c : Var) (it : Item) : Prop :=
  ∃ ms, compile st op = some ms ∧ (execAll st ms).isSome = true ∧ MicrosRemove st ms c it

theorem kept_refl (st : State) (it : Item) (c : Var) (hi : it ∈ (st.nodes c).items) : Kept st st [] it c c :=
  ⟨hi, rfl, fun _ he => absurd he List.not_mem_nil, rfl⟩

/-- C05 at the level of a list of micro steps, sharp form -/
theorem execAll_stable_sharp {st st' : State} (h : SInv st) (ms : List Micro) (he : execAll st ms = some st') :
    ∃ evs, st'.log = st.log ++ evs ∧ ∀ c it, it ∈ (st.nodes c).items →
      (¬ MicrosRemove st ms c it ∧ ∃ c', Kept st st' evs it c c') ∨ (MicrosRemove st ms c it ∧ Destroyed evs it c) := by
  induction ms generalizing st with
  | nil =>
    simp only [execAll, Option.some.injEq] at he
    subst he
    exact ⟨[], by simp, fun c it hi => Or.inl ⟨fun hr => hr, c, kept_refl st it c hi⟩⟩
  | cons m rest ih =>
    simp only [execAll] at he
    cases hm : exec st m with
    | none => rw [hm] at he; cases he
    | some s1 =>
      rw [hm] at he
      obtain ⟨i1, _⟩ := exec_ok h m hm
      obtain ⟨e1, l1, k1⟩ := Stable.exec_stable h m hm
      obtain ⟨e2, l2, k2⟩ := ih i1 he
      refine ⟨e1 ++ e2, by rw [l2, l1, List.append_assoc], ?_⟩
      intro c it hi
      rcases k1 c it hi with ⟨hnr, hk⟩ | ⟨hr, hd⟩
      · rcases k2 (m.moves c) it hk.1 with ⟨hnr2, c2, hk2⟩ | ⟨hr2, hd2⟩
        · refine Or.inl ⟨?_, c2, kept_trans hk hk2⟩
          rintro (hr | ⟨_, st1, hst1, hr1⟩)
          · exact hnr hr
          · rw [hm] at hst1; cases hst1; exact hnr2 hr1
        · refine Or.inr ⟨Or.inr ⟨hnr, s1, hm, hr2⟩, ?_⟩
          intro f hf
          have hkk : (m.moves c).k = c.k := hk.2.1
          exact List.mem_append_right _ (hd2 f (hkk ▸ hf))
      · refine Or.inr ⟨Or.inl hr, ?_⟩
        intro f hf
        exact List.mem_append_left _ (hd f hf)

theorem step_stable_sharp_st {st : State} (h : SInv st) (op : Op) :
    ∃ evs, (step st op).log = st.log ++ evs ∧
      ∀ c it, it ∈ (st.nodes c).items →
        (¬ Op.removes st op c it ∧ ∃ c', Kept st (step st op) evs it c c') ∨
        (Op.removes st op c it ∧ Destroyed evs it c) := by
  have hsame : (∀ c it, ¬ Op.removes st op c it) → step st op = st →
      ∃ evs, (step st op).log = st.log ++ evs ∧
        ∀ c it, it ∈ (st.nodes c).items →
          (¬ Op.removes st op c it ∧ ∃ c', Kept st (step st op) evs it c c') ∨
          (Op.removes st op c it ∧ Destroyed evs it c) := by
    intro hnr hst
    rw [hst]
    exact ⟨[], by simp, fun c it hi => Or.inl ⟨hnr c it, c, kept_refl st it c hi⟩⟩
  cases hc : compile st op with
  | none =>
    apply hsame
    · rintro c it ⟨ms, h1, _⟩; rw [hc] at h1; cases h1
    · simp [step, stepRes, hc]
  | some ms =>
    cases he : execAll st ms with
    | none =>
      apply hsame
      · rintro c it ⟨ms', h1, h2, _⟩
        rw [hc] at h1; cases h1
        rw [he] at h2; cases h2
      · simp [step, stepRes, hc, he]
    | some st' =>
      have hst : step st op = st' := by simp [step, stepRes, hc, he]
      rw [hst]
      obtain ⟨evs, hl, hk⟩ := execAll_stable_sharp h ms he
      refine ⟨evs, hl, ?_⟩
      intro c it hi
      have hiff : Op.removes st op c it ↔ MicrosRemove st ms c it := by
        constructor
        · rintro ⟨ms', h1, _, h3⟩
          rw [hc] at h1; cases h1; exact h3
        · intro h3; exact ⟨ms, hc, by simp [he], h3⟩
      rcases hk c it hi with ⟨h1, h2⟩ | ⟨h1, h2⟩
      · exact Or.inl ⟨fun hr => h1 (hiff.mp hr), h2⟩
      · exact Or.inr ⟨hiff.mpr h1, h2⟩

/-- C05 `stable`, sharp form: in every reachable state, every operation destroys exactly the elements it is
    meant to remove and keeps every other element where and what it was -/
theorem step_stable_sharp (p : Per) (ops : List Op) (op : Op) :
    ∃ evs, (step (run (init p) ops) op).log = (run (init p) ops).log ++ evs ∧
      ∀ c it, it ∈ ((run (init p) ops).nodes c).items →
        (¬ Op.removes (run (init p) ops) op c it ∧
          ∃ c', Kept (run (init p) ops) (step (run (init p) ops) op) evs it c c') ∨
        (Op.removes (run (init p) ops) op c it ∧ Destroyed evs it c) :=
  step_stable_sharp_st (reach_ok p ops).1 op

-- what `Op.removes` means for the individual operations ---------------------------------------------------------

theorem microsRemove_single (st : State) (m : Micro) (c : Var) (it : Item) :
    MicrosRemove st [m] c it ↔ m.removes st c it := by
  simp only [MicrosRemove]
  constructor
  · rintro (h | ⟨_, _, _, h⟩)
    · exact h
    · exact False.elim h
  · exact Or.inl

/-- an operation that compiles to a single micro step -/
theorem removes_single {st : State} {op : Op} {g : Bool} {m : Micro} (hc : compile st op = guard' g [m])
    (c : Var) (it : Item) :
    Op.removes st op c it ↔ g = true ∧ (exec st m).isSome = true ∧ m.removes st c it := by
  constructor
  · rintro ⟨ms, h1, h2, h3⟩
    rw [hc] at h1
    obtain ⟨hg, rfl⟩ := Ops.guard_some h1
    refine ⟨hg, ?_, (microsRemove_single st m c it).mp h3⟩
    simp only [execAll] at h2
    cases hm : exec st m with
    | none => rw [hm] at h2; cases h2
    | some s => rfl
  · rintro ⟨hg, h2, h3⟩
    refine ⟨[m], by rw [hc, hg]; rfl, ?_, (microsRemove_single st m c it).mpr h3⟩
    cases hm : exec st m with
    | none => rw [hm] at h2; cases h2
    | some s => simp [execAll, hm]

/-- removal of the element at a position -/
theorem removes_remove_at {st : State} {op : Op} {g : Bool} {c0 : Var} {i : Nat}
    (hc : compile st op = guard' g [.remove c0 i]) (hv : g = true → c0.valid = true) (c : Var) (it : Item) :
    Op.removes st op c it ↔ g = true ∧ c = c0 ∧ (st.nodes c0).items[i]? = some it := by
  rw [removes_single hc]
  constructor
  · rintro ⟨hg, _, hr⟩; exact ⟨hg, hr.1, hr.2⟩
  · rintro ⟨hg, rfl, hi⟩
    refine ⟨hg, ?_, rfl, hi⟩
    obtain ⟨s, hs⟩ := Ops.remove_def (s := st) c i (hv hg) (List.getElem?_eq_some_iff.mp hi).1
    rw [hs]; rfl

theorem removes_lRemove (st : State) (v i : Nat) (c : Var) (it : Item) :
    Op.removes st (.lRemove v i) c it ↔
      (v ≤ 1 ∧ i < len st ⟨.L, v⟩) ∧ c = ⟨.L, v⟩ ∧ (st.nodes ⟨.L, v⟩).items[i]? = some it := by
  rw [removes_remove_at (c0 := ⟨.L, v⟩) (i := i) (g := decide (v ≤ 1) && decide (i < len st ⟨.L, v⟩)) rfl
    (fun hg => by simp only [Bool.and_eq_true, decide_eq_true_eq] at hg; exact Ops.valid_of hg.1 (by simp))]
  simp only [Bool.and_eq_true, decide_eq_true_eq]

theorem removes_mRemoveAt (st : State) (c0 : Var) (i : Nat) (c : Var) (it : Item) :
    Op.removes st (.mRemoveAt c0 i) c it ↔
      ((c0.v ≤ 1 ∧ (c0.k = .M ∨ c0.k = .U)) ∧ i < len st c0) ∧ c = c0 ∧ (st.nodes c0).items[i]? = some it := by
  rw [removes_remove_at (c0 := c0) (i := i)
    (g := decide (c0.v ≤ 1) && (decide (c0.k = .M) || decide (c0.k = .U)) && decide (i < len st c0)) rfl
    (fun hg => by
      simp only [Bool.and_eq_true, Bool.or_eq_true, decide_eq_true_eq] at hg
      exact Ops.valid_of hg.1.1 (Ops.mu_ne_A hg.1.2))]
  simp only [Bool.and_eq_true, Bool.or_eq_true, decide_eq_true_eq]

theorem removes_hRemoveAt (st : State) (v i : Nat) (c : Var) (it : Item) :
    Op.removes st (.hRemoveAt v i) c it ↔
      (v ≤ 1 ∧ i < len st ⟨.H, v⟩) ∧ c = ⟨.H, v⟩ ∧ (st.nodes ⟨.H, v⟩).items[i]? = some it := by
  rw [removes_remove_at (c0 := ⟨.H, v⟩) (i := i) (g := decide (v ≤ 1) && decide (i < len st ⟨.H, v⟩)) rfl
    (fun hg => by simp only [Bool.and_eq_true, decide_eq_true_eq] at hg; exact Ops.valid_of hg.1 (by simp))]
  simp only [Bool.and_eq_true, decide_eq_true_eq]

theorem removes_sRemoveAt (st : State) (v i : Nat) (c : Var) (it : Item) :
    Op.removes st (.sRemoveAt v i) c it ↔
      (v ≤ 1 ∧ i < len st ⟨.S, v⟩) ∧ c = ⟨.S, v⟩ ∧ (st.nodes ⟨.S, v⟩).items[i]? = some it := by
  rw [removes_remove_at (c0 := ⟨.S, v⟩) (i := i) (g := decide (v ≤ 1) && decide (i < len st ⟨.S, v⟩)) rfl
    (fun hg => by simp only [Bool.and_eq_true, decide_eq_true_eq] at hg; exact Ops.valid_of hg.1 (by simp))]
  simp only [Bool.and_eq_true, decide_eq_true_eq]

theorem removes_pRemove (st : State) (v i : Nat) (c : Var) (it : Item) :
    Op.removes st (.pRemove v i) c it ↔
      (v ≤ 1 ∧ i < len st ⟨.P, v⟩) ∧ c = ⟨.P, v⟩ ∧ (st.nodes ⟨.P, v⟩).items[i]? = some it := by
  rw [removes_remove_at (c0 := ⟨.P, v⟩) (i := i) (g := decide (v ≤ 1) && decide (i < len st ⟨.P, v⟩)) rfl
    (fun hg => by simp only [Bool.and_eq_true, decide_eq_true_eq] at hg; exact Ops.valid_of hg.1 (by simp))]
  simp only [Bool.and_eq_true, decide_eq_true_eq]

theorem removes_qRemoveAt (st : State) (v i : Nat) (c : Var) (it : Item) :
    Op.removes st (.qRemoveAt v i) c it ↔
      (v ≤ 1 ∧ i < len st ⟨.Q, v⟩) ∧ c = ⟨.Q, v⟩ ∧ (st.nodes ⟨.Q, v⟩).items[i]? = some it := by
  rw [removes_remove_at (c0 := ⟨.Q, v⟩) (i := i) (g := decide (v ≤ 1) && decide (i < len st ⟨.Q, v⟩)) rfl
    (fun hg => by simp only [Bool.and_eq_true, decide_eq_true_eq] at hg; exact Ops.valid_of hg.1 (by simp))]
  simp only [Bool.and_eq_true, decide_eq_true_eq]

-- insertions remove nothing

def Micro.isPut : Micro → Bool
  | .put _ _ _ _ => true
  | _ => false

/-- a list of `put` steps removes nothing -/
theorem microsRemove_puts : ∀ (ms : List Micro) (st : State) (c : Var) (it : Item),
    (∀ m, m ∈ ms → m.isPut = true) → ¬ MicrosRemove st ms c it
  | [], _, _, _, _ => fun h => h
  | m :: rest, st, c, it, hp => by
    have hm := hp m (by simp)
    cases m with
    | put c0 pos k v =>
      rintro (h | ⟨_, st1, _, h⟩)
      · exact h
      · exact microsRemove_puts rest st1 c it (fun m' hm' => hp m' (by simp [hm'])) h
    | _ => simp [Micro.isPut] at hm

/-- the insertion operations (single elements, references to own elements, whole containers) -/
def Op.isInsertion : Op → Bool
  | .lInsert .. | .lInsertRef .. | .lInsertList .. => true
  | .mInsert .. | .mInsertHint .. | .mInsertRef .. | .mInsertMap .. => true
  | .hInsert .. | .hAppendRef .. => true
  | .sInsert .. | .sAppendRef .. | .sAppendSet .. => true
  | .pAppend .. | .qAppend .. | .qInsert .. => true
  | _ => false

theorem compile_puts {st : State} {op : Op} {ms : List Micro} (hp : op.isInsertion = true)
    (h : compile st op = some ms) : ∀ m, m ∈ ms → m.isPut = true := by
  cases op <;> simp [Op.isInsertion] at hp <;> simp only [compile] at h <;>
    obtain ⟨_, rfl⟩ := Ops.guard_some h <;> (repeat' split) <;> simp [Micro.isPut, copyItems]

/-- an insertion operation removes no element (of any container) -/
theorem insertion_removes_nothing (st : State) (op : Op) (hp : op.isInsertion = true) (c : Var) (it : Item) :
    ¬ Op.removes st op c it := by
  rintro ⟨ms, h1, _, h3⟩
  exact microsRemove_puts ms st c it (compile_puts hp h1) h3

-- the value of the elements of the containers without key (List, PoolList) -----------------------------------

/-- for the containers without key the value object of a kept element is unchanged too, except by the
    explicit overwrite `*it = v` (`assignVal`) of that container -/
theorem exec_keeps_value {st st' : State} (h : SInv st) (m : Micro) (he : exec st m = some st') (c : Var) (it : Item)
    (hi : it ∈ (st.nodes c).items) (hr : ¬ m.removes st c it) (hk : c.k.hasKey = false) :
    st'.mem (it.loc 1) = st.mem (it.loc 1) ∨ ∃ j src, m = .assignVal c j src := by
  have he' := Stable.exec_exec' he
  obtain ⟨evs, sm⟩ := Stable.exec_sum m he'
  have hcd := Stable.sep_cd h m hi hr 1
  -- steps that assign nothing
  have hplain : (∀ l, ¬ Stable.asSet st m l) → st'.mem (it.loc 1) = st.mem (it.loc 1) :=
    fun hn => sm.eff.2.2 _ hcd (hn _)
  cases m with
  | put c0 pos k v =>
    left
    by_cases hc : c = c0
    · subst hc
      -- a container without key: the put links a new item
      simp only [exec'] at he'
      by_cases ha : (st.nodes c).alive = true
      · simp only [ha, Bool.not_true, Bool.false_eq_true, if_false] at he'
        cases hkr : resolveOpt st k with
        | none => simp [hkr] at he'
        | some kr =>
          simp only [hkr] at he'
          cases hvr : resolveOpt st v with
          | none => simp [hvr] at he'
          | some vr =>
            simp only [hvr] at he'
            cases hsr : fieldSrcs c.k kr vr with
            | none => simp [hsr] at he'
            | some srcs =>
              simp only [hsr] at he'
              by_cases hpos : pos.getD (st.nodes c).items.length > (st.nodes c).items.length
              · simp [hpos] at he'
              · simp only [hpos, if_false] at he'
                rcases Ops.putResolved_cases' c _ kr vr srcs he' with ⟨q, rfl⟩ | ⟨hk', _⟩
                · obtain ⟨evs', heff, _⟩ := Stable.insertNew_eff (AS := fun _ => False) st c q srcs
                  exact heff.2.2 _ (Stable.item_notFreeOrFresh h hi c 1) (fun hf => hf)
                · rw [hk] at hk'; cases hk'
      · simp [ha] at he'
    · exact sm.eff.2.2 _ hcd (Stable.frame_as h _ hi (by simp [Micro.nodeTargets, hc]) 1)
  | assignVal c0 j src =>
    by_cases hc : c = c0
    · subst hc; exact Or.inr ⟨j, src, rfl⟩
    · exact Or.inl (sm.eff.2.2 _ hcd (Stable.frame_as h _ hi (by simp [Micro.nodeTargets, hc]) 1))
  | remove c0 j => exact Or.inl (hplain fun _ hf => hf)
  | removeKey c0 k => exact Or.inl (hplain fun _ hf => hf)
  | removeVal c0 v => exact Or.inl (hplain fun _ hf => hf)
  | clear c0 => exact Or.inl (hplain fun _ hf => hf)
  | destroy c0 => exact Or.inl (hplain fun _ hf => hf)
  | create c0 => exact Or.inl (hplain fun _ hf => hf)
  | swap c0 d0 => exact Or.inl (hplain fun _ hf => hf)
  | aReserve a n => exact Or.inl (hplain fun _ hf => hf)
  | aPush a src => exact Or.inl (hplain fun _ hf => hf)
  | aTruncate a n => exact Or.inl (hplain fun _ hf => hf)
  | aAssign a j src => exact Or.inl (hplain fun _ hf => hf)
  | aRemove a j => exact Or.inl (hplain fun _ hf => hf)
  | aDestroy a => exact Or.inl (hplain fun _ hf => hf)
  | aCreate a cap => exact Or.inl (hplain fun _ hf => hf)
  | aSwap a b => exact Or.inl (hplain fun _ hf => hf)

end Nstd.Life
