import Nstd.Life.Spec
/-
  Core of the C04 proof: the checker state determined by a model state (`chkOf`), the relation
  `Trace st st'` (the events appended between st and st' are accepted by the checker, which moves
  from `chkOf st` to `chkOf st'`), one lemma per primitive state update, and the state invariant `SInv`.
-/
namespace Nstd.Life

/-- (generates the equation lemmas of `exec'` once, in the common ancestor of all lemma files) -/
theorem exec'_anchor (st : State) (a b : Nat) (h : (exec' st (.aSwap a b)).isSome = true) : (st.arrs a).alive = true := by
  simp only [exec'] at h
  cases ha : (st.arrs a).alive with
  | true => rfl
  | false => simp [ha] at h

def chkOf (st : State) : Chk :=
  ⟨fun l => (st.mem l).isSome, st.blk, fun b => decide (b < st.next)⟩

theorem chk_ext {a b : Chk} (h1 : ∀ l, a.live l = b.live l) (h2 : ∀ x, a.blk x = b.blk x)
    (h3 : ∀ x, a.used x = b.used x) : a = b := by
  cases a; cases b
  simp only [Chk.mk.injEq]
  exact ⟨funext h1, funext h2, funext h3⟩

theorem Chk.run_append (c : Chk) (e1 e2 : List Ev) :
    c.run (e1 ++ e2) = (c.run e1).bind fun c' => c'.run e2 := by
  induction e1 generalizing c with
  | nil => simp [Chk.run]
  | cons e rest ih =>
    simp only [List.cons_append, Chk.run]
    cases h : c.step e with
    | none => simp
    | some c' => simp [ih]

def Trace (st st' : State) : Prop :=
  ∃ evs, st'.log = st.log ++ evs ∧ (chkOf st).run evs = some (chkOf st')

theorem Trace.refl (st : State) : Trace st st := ⟨[], by simp, by simp [Chk.run]⟩

theorem Trace.trans {a b c : State} (h1 : Trace a b) (h2 : Trace b c) : Trace a c := by
  obtain ⟨e1, l1, r1⟩ := h1
  obtain ⟨e2, l2, r2⟩ := h2
  refine ⟨e1 ++ e2, by rw [l2, l1, List.append_assoc], ?_⟩
  rw [Chk.run_append, r1]
  simpa using r2

/-- a step that changes neither memory, blocks, the block counter nor the log -/
theorem Trace.of_same {a b : State} (hm : b.mem = a.mem) (hb : b.blk = a.blk) (hn : b.next = a.next)
    (hl : b.log = a.log) : Trace a b := by
  refine ⟨[], by simp [hl], ?_⟩
  simp only [Chk.run, chkOf, hm, hb, hn]

-- field lemmas of the primitive updates -----------------------------------------------------------
section fields
variable (st : State)

@[simp] theorem setNode_per (c n) : (st.setNode c n).per = st.per := rfl
@[simp] theorem setArr_per (a x) : (st.setArr a x).per = st.per := rfl
@[simp] theorem alloc_per (n) : (st.alloc n).per = st.per := rfl
@[simp] theorem freeBlk_per (b) : (st.freeBlk b).per = st.per := rfl
@[simp] theorem ctor_per (d s p) : (st.ctor d s p).per = st.per := rfl
@[simp] theorem assign_per (d s p) : (st.assign d s p).per = st.per := rfl
@[simp] theorem dtor_per (d) : (st.dtor d).per = st.per := rfl
@[simp] theorem setNode_mem (c n) : (st.setNode c n).mem = st.mem := rfl
@[simp] theorem setNode_blk (c n) : (st.setNode c n).blk = st.blk := rfl
@[simp] theorem setNode_next (c n) : (st.setNode c n).next = st.next := rfl
@[simp] theorem setNode_log (c n) : (st.setNode c n).log = st.log := rfl
@[simp] theorem setNode_arrs (c n) : (st.setNode c n).arrs = st.arrs := rfl
@[simp] theorem setNode_nodes (c n) : (st.setNode c n).nodes = upd st.nodes c n := rfl

@[simp] theorem setArr_mem (a x) : (st.setArr a x).mem = st.mem := rfl
@[simp] theorem setArr_blk (a x) : (st.setArr a x).blk = st.blk := rfl
@[simp] theorem setArr_next (a x) : (st.setArr a x).next = st.next := rfl
@[simp] theorem setArr_log (a x) : (st.setArr a x).log = st.log := rfl
@[simp] theorem setArr_nodes (a x) : (st.setArr a x).nodes = st.nodes := rfl
@[simp] theorem setArr_arrs (a x) : (st.setArr a x).arrs = upd st.arrs a x := rfl

@[simp] theorem alloc_mem (n) : (st.alloc n).mem = st.mem := rfl
@[simp] theorem alloc_blk (n) : (st.alloc n).blk = upd st.blk st.next (some n) := rfl
@[simp] theorem alloc_next (n) : (st.alloc n).next = st.next + 1 := rfl
@[simp] theorem alloc_nodes (n) : (st.alloc n).nodes = st.nodes := rfl
@[simp] theorem alloc_arrs (n) : (st.alloc n).arrs = st.arrs := rfl

@[simp] theorem freeBlk_mem (b) : (st.freeBlk b).mem = st.mem := rfl
@[simp] theorem freeBlk_blk (b) : (st.freeBlk b).blk = upd st.blk b none := rfl
@[simp] theorem freeBlk_next (b) : (st.freeBlk b).next = st.next := rfl
@[simp] theorem freeBlk_nodes (b) : (st.freeBlk b).nodes = st.nodes := rfl
@[simp] theorem freeBlk_arrs (b) : (st.freeBlk b).arrs = st.arrs := rfl

@[simp] theorem ctor_mem (d s p) : (st.ctor d s p).mem = upd st.mem d p := rfl
@[simp] theorem ctor_blk (d s p) : (st.ctor d s p).blk = st.blk := rfl
@[simp] theorem ctor_next (d s p) : (st.ctor d s p).next = st.next := rfl
@[simp] theorem ctor_nodes (d s p) : (st.ctor d s p).nodes = st.nodes := rfl
@[simp] theorem ctor_arrs (d s p) : (st.ctor d s p).arrs = st.arrs := rfl

@[simp] theorem assign_mem (d s p) : (st.assign d s p).mem = upd st.mem d p := rfl
@[simp] theorem assign_blk (d s p) : (st.assign d s p).blk = st.blk := rfl
@[simp] theorem assign_next (d s p) : (st.assign d s p).next = st.next := rfl
@[simp] theorem assign_nodes (d s p) : (st.assign d s p).nodes = st.nodes := rfl
@[simp] theorem assign_arrs (d s p) : (st.assign d s p).arrs = st.arrs := rfl

@[simp] theorem dtor_mem (d) : (st.dtor d).mem = upd st.mem d none := rfl
@[simp] theorem dtor_blk (d) : (st.dtor d).blk = st.blk := rfl
@[simp] theorem dtor_next (d) : (st.dtor d).next = st.next := rfl
@[simp] theorem dtor_nodes (d) : (st.dtor d).nodes = st.nodes := rfl
@[simp] theorem dtor_arrs (d) : (st.dtor d).arrs = st.arrs := rfl
end fields

theorem upd_same {α β : Type} [DecidableEq α] (f : α → β) (a : α) (b : β) : upd f a b a = b := by simp [upd]
theorem upd_other {α β : Type} [DecidableEq α] (f : α → β) (a x : α) (b : β) (h : x ≠ a) : upd f a b x = f x := by
  simp [upd, h]

-- one Trace lemma per primitive ------------------------------------------------------------------------

theorem trace_alloc (st : State) (n : Nat) : Trace st (st.alloc n) := by
  refine ⟨[.alloc st.next n], rfl, ?_⟩
  simp only [Chk.run, Chk.step, chkOf, Nat.lt_irrefl, decide_false, Bool.false_eq_true, if_false]
  congr 1
  apply chk_ext
  · intro l; rfl
  · intro x; rfl
  · intro x
    simp only [upd, alloc_next]
    by_cases h : x = st.next
    · simp [h]
    · simp only [h, if_false]
      exact decide_eq_decide.mpr (by omega)

theorem blockEmpty_of (st : State) (b n : Nat)
    (he : ∀ i, i < n → ∀ f, f < 2 → st.mem (.heap b i f) = none) : (chkOf st).blockEmpty b n = true := by
  simp only [Chk.blockEmpty, chkOf, List.all_eq_true, List.mem_range]
  intro i hi
  simp [he i hi 0 (by omega), he i hi 1 (by omega)]

theorem trace_free (st : State) (b n : Nat) (h : st.blk b = some n)
    (he : ∀ i, i < n → ∀ f, f < 2 → st.mem (.heap b i f) = none) : Trace st (st.freeBlk b) := by
  refine ⟨[.free b], rfl, ?_⟩
  have hb : (chkOf st).blk b = some n := h
  simp only [Chk.run, Chk.step, hb, blockEmpty_of st b n he, if_true]
  rfl

/-- the source of a copy / assignment is the caller's temporary or a live object -/
def SrcLive (st : State) (s : Loc) : Prop := s = .ext ∨ (st.mem s).isSome = true

theorem srcOk_of {st : State} {s : Loc} (h : SrcLive st s) : (chkOf st).srcOk s = true := by
  cases s with
  | ext => rfl
  | heap b i f => rcases h with h | h; · cases h
                  · exact h
  | sent c f => rcases h with h | h; · cases h
                · exact h

theorem trace_ctor (st : State) (d : Loc) (src : Option Loc) (p : Option Nat)
    (hs : (chkOf st).slotOk d = true) (hd : st.mem d = none) (hp : p.isSome = true)
    (hsrc : ∀ s, src = some s → SrcLive st s) : Trace st (st.ctor d src p) := by
  refine ⟨[.ctor d src], rfl, ?_⟩
  have h1 : (chkOf st).live d = false := by simp [chkOf, hd]
  have h3 : (chkOf st).step (.ctor d src) = some { chkOf st with live := upd (chkOf st).live d true } := by
    cases src with
    | none => simp [Chk.step, hs, h1]
    | some s => simp [Chk.step, hs, h1, srcOk_of (hsrc s rfl)]
  simp only [Chk.run, h3]
  congr 1
  apply chk_ext
  · intro l
    simp only [chkOf, ctor_mem, upd]
    by_cases h : l = d
    · simp [h, hp]
    · simp [h]
  · intro x; rfl
  · intro x; rfl

theorem trace_assign (st : State) (d s : Loc) (p : Option Nat)
    (hd : (st.mem d).isSome = true) (hs : SrcLive st s) (hp : p.isSome = true) : Trace st (st.assign d s p) := by
  refine ⟨[.assign d s], rfl, ?_⟩
  have h1 : (chkOf st).live d = true := hd
  simp only [Chk.run, Chk.step, h1, srcOk_of hs, Bool.and_self, if_true]
  congr 1
  apply chk_ext
  · intro l
    simp only [chkOf, assign_mem, upd]
    by_cases h : l = d
    · simp [h, hp, hd]
    · simp [h]
  · intro x; rfl
  · intro x; rfl

theorem trace_dtor (st : State) (d : Loc) (hd : (st.mem d).isSome = true) : Trace st (st.dtor d) := by
  refine ⟨[.dtor d], rfl, ?_⟩
  have h1 : (chkOf st).live d = true := hd
  simp only [Chk.run, Chk.step, h1, if_true]
  congr 1
  apply chk_ext
  · intro l
    simp only [chkOf, dtor_mem, upd]
    by_cases h : l = d
    · simp [h]
    · simp [h]
  · intro x; rfl
  · intro x; rfl

-- lists of destructor / constructor calls ------------------------------------------------------------

theorem dtorLocs_mem (st : State) (ls : List Loc) (l : Loc) :
    (st.dtorLocs ls).mem l = if l ∈ ls then none else st.mem l := by
  induction ls generalizing st with
  | nil => simp [State.dtorLocs]
  | cons a rest ih =>
    simp only [State.dtorLocs, ih, dtor_mem, upd, List.mem_cons]
    by_cases h1 : l ∈ rest
    · simp [h1]
    · by_cases h2 : l = a
      · simp [h1, h2]
      · simp [h1, h2]

@[simp] theorem dtorLocs_per (st : State) (ls : List Loc) : (st.dtorLocs ls).per = st.per := by
  induction ls generalizing st with
  | nil => rfl
  | cons a rest ih => simp [State.dtorLocs, ih]
@[simp] theorem dtorLocs_blk (st : State) (ls : List Loc) : (st.dtorLocs ls).blk = st.blk := by
  induction ls generalizing st with
  | nil => rfl
  | cons a rest ih => simp [State.dtorLocs, ih]
@[simp] theorem dtorLocs_next (st : State) (ls : List Loc) : (st.dtorLocs ls).next = st.next := by
  induction ls generalizing st with
  | nil => rfl
  | cons a rest ih => simp [State.dtorLocs, ih]
@[simp] theorem dtorLocs_nodes (st : State) (ls : List Loc) : (st.dtorLocs ls).nodes = st.nodes := by
  induction ls generalizing st with
  | nil => rfl
  | cons a rest ih => simp [State.dtorLocs, ih]
@[simp] theorem dtorLocs_arrs (st : State) (ls : List Loc) : (st.dtorLocs ls).arrs = st.arrs := by
  induction ls generalizing st with
  | nil => rfl
  | cons a rest ih => simp [State.dtorLocs, ih]

theorem trace_dtorLocs (st : State) (ls : List Loc) (hn : ls.Nodup)
    (hl : ∀ l, l ∈ ls → (st.mem l).isSome = true) : Trace st (st.dtorLocs ls) := by
  induction ls generalizing st with
  | nil => exact Trace.refl st
  | cons a rest ih =>
    simp only [State.dtorLocs]
    have ha := hl a (by simp)
    refine Trace.trans (trace_dtor st a ha) (ih _ (List.nodup_cons.mp hn).2 ?_)
    intro l hlr
    have hne : l ≠ a := by
      intro h; subst h; exact (List.nodup_cons.mp hn).1 hlr
    simp only [dtor_mem, upd, hne, if_false]
    exact hl l (by simp [hlr])

@[simp] theorem ctorList_per (st : State) (xs : List (Loc × Option Loc × Option Nat)) : (st.ctorList xs).per = st.per := by
  induction xs generalizing st with
  | nil => rfl
  | cons a rest ih => obtain ⟨d, s, p⟩ := a; simp [State.ctorList, ih]
@[simp] theorem ctorList_blk (st : State) (xs : List (Loc × Option Loc × Option Nat)) : (st.ctorList xs).blk = st.blk := by
  induction xs generalizing st with
  | nil => rfl
  | cons a rest ih => obtain ⟨d, s, p⟩ := a; simp [State.ctorList, ih]
@[simp] theorem ctorList_next (st : State) (xs : List (Loc × Option Loc × Option Nat)) : (st.ctorList xs).next = st.next := by
  induction xs generalizing st with
  | nil => rfl
  | cons a rest ih => obtain ⟨d, s, p⟩ := a; simp [State.ctorList, ih]
@[simp] theorem ctorList_nodes (st : State) (xs : List (Loc × Option Loc × Option Nat)) : (st.ctorList xs).nodes = st.nodes := by
  induction xs generalizing st with
  | nil => rfl
  | cons a rest ih => obtain ⟨d, s, p⟩ := a; simp [State.ctorList, ih]
@[simp] theorem ctorList_arrs (st : State) (xs : List (Loc × Option Loc × Option Nat)) : (st.ctorList xs).arrs = st.arrs := by
  induction xs generalizing st with
  | nil => rfl
  | cons a rest ih => obtain ⟨d, s, p⟩ := a; simp [State.ctorList, ih]

/-- memory outside the destinations is untouched -/
theorem ctorList_mem_other (st : State) (xs : List (Loc × Option Loc × Option Nat)) (l : Loc)
    (h : l ∉ xs.map (·.1)) : (st.ctorList xs).mem l = st.mem l := by
  induction xs generalizing st with
  | nil => rfl
  | cons a rest ih =>
    obtain ⟨d, s, p⟩ := a
    simp only [List.map_cons, List.mem_cons, not_or] at h
    simp only [State.ctorList]
    rw [ih _ h.2]
    simp [upd, h.1]

/-- the destinations hold their payloads afterwards (all payloads defined) -/
theorem ctorList_mem_dst (st : State) (xs : List (Loc × Option Loc × Option Nat)) (l : Loc)
    (hn : (xs.map (·.1)).Nodup) (hp : ∀ x, x ∈ xs → x.2.2.isSome = true) (h : l ∈ xs.map (·.1)) :
    ((st.ctorList xs).mem l).isSome = true := by
  induction xs generalizing st with
  | nil => simp at h
  | cons a rest ih =>
    obtain ⟨d, s, p⟩ := a
    simp only [List.map_cons, List.nodup_cons] at hn
    simp only [State.ctorList]
    simp only [List.map_cons, List.mem_cons] at h
    rcases h with h | h
    · subst h
      rw [ctorList_mem_other _ _ _ hn.1]
      simpa [upd] using hp (l, s, p) (by simp)
    · exact ih _ hn.2 (fun x hx => hp x (by simp [hx])) h

theorem trace_ctorList (st : State) (xs : List (Loc × Option Loc × Option Nat))
    (hn : (xs.map (·.1)).Nodup)
    (hslot : ∀ x, x ∈ xs → (chkOf st).slotOk x.1 = true)
    (hdead : ∀ x, x ∈ xs → st.mem x.1 = none)
    (hp : ∀ x, x ∈ xs → x.2.2.isSome = true)
    (hsrc : ∀ x, x ∈ xs → ∀ s, x.2.1 = some s → SrcLive st s) : Trace st (st.ctorList xs) := by
  induction xs generalizing st with
  | nil => exact Trace.refl st
  | cons a rest ih =>
    obtain ⟨d, s, p⟩ := a
    simp only [List.map_cons, List.nodup_cons] at hn
    simp only [State.ctorList]
    have hmem : (d, s, p) ∈ (d, s, p) :: rest := List.mem_cons_self
    refine Trace.trans (trace_ctor st d s p (hslot _ hmem) (hdead _ hmem) (hp _ hmem) (hsrc _ hmem)) ?_
    apply ih _ hn.2
    · intro x hx
      have := hslot x (by simp [hx])
      simpa [chkOf, Chk.slotOk] using this
    · intro x hx
      have hne : x.1 ≠ d := by
        intro h; apply hn.1; rw [← h]; exact List.mem_map_of_mem hx
      simp only [ctor_mem, upd, hne, if_false]
      exact hdead x (by simp [hx])
    · intro x hx; exact hp x (by simp [hx])
    · intro x hx s' hs'
      rcases hsrc x (by simp [hx]) s' hs' with h | h
      · exact Or.inl h
      · right
        simp only [ctor_mem, upd]
        by_cases h2 : s' = d
        · simp [h2, hp (d, s, p) (by simp)]
        · simpa [h2] using h

@[simp] theorem freeBlocks_per (st : State) (bs : List Nat) : (st.freeBlocks bs).per = st.per := by
  induction bs generalizing st with
  | nil => rfl
  | cons a rest ih => simp [State.freeBlocks, ih]
@[simp] theorem freeBlocks_mem (st : State) (bs : List Nat) : (st.freeBlocks bs).mem = st.mem := by
  induction bs generalizing st with
  | nil => rfl
  | cons a rest ih => simp [State.freeBlocks, ih]
@[simp] theorem freeBlocks_next (st : State) (bs : List Nat) : (st.freeBlocks bs).next = st.next := by
  induction bs generalizing st with
  | nil => rfl
  | cons a rest ih => simp [State.freeBlocks, ih]
@[simp] theorem freeBlocks_nodes (st : State) (bs : List Nat) : (st.freeBlocks bs).nodes = st.nodes := by
  induction bs generalizing st with
  | nil => rfl
  | cons a rest ih => simp [State.freeBlocks, ih]
@[simp] theorem freeBlocks_arrs (st : State) (bs : List Nat) : (st.freeBlocks bs).arrs = st.arrs := by
  induction bs generalizing st with
  | nil => rfl
  | cons a rest ih => simp [State.freeBlocks, ih]
theorem freeBlocks_blk (st : State) (bs : List Nat) (b : Nat) :
    (st.freeBlocks bs).blk b = if b ∈ bs then none else st.blk b := by
  induction bs generalizing st with
  | nil => simp [State.freeBlocks]
  | cons a rest ih =>
    simp only [State.freeBlocks, ih, freeBlk_blk, upd, List.mem_cons]
    by_cases h1 : b ∈ rest
    · simp [h1]
    · by_cases h2 : b = a
      · simp [h1, h2]
      · simp [h1, h2]

theorem trace_freeBlocks (st : State) (bs : List Nat) (n : Nat) (hn : bs.Nodup)
    (hb : ∀ b, b ∈ bs → st.blk b = some n)
    (he : ∀ b, b ∈ bs → ∀ i, i < n → ∀ f, f < 2 → st.mem (.heap b i f) = none) : Trace st (st.freeBlocks bs) := by
  induction bs generalizing st with
  | nil => exact Trace.refl st
  | cons a rest ih =>
    simp only [State.freeBlocks]
    refine Trace.trans (trace_free st a n (hb a (by simp)) (he a (by simp))) (ih _ (List.nodup_cons.mp hn).2 ?_ ?_)
    · intro b hbr
      have hne : b ≠ a := by
        intro h; subst h; exact (List.nodup_cons.mp hn).1 hbr
      simp only [freeBlk_blk, upd, hne, if_false]
      exact hb b (by simp [hbr])
    · intro b hbr
      exact he b (by simp [hbr])

-- the state invariant --------------------------------------------------------------------------------------

/-- a live object is a field of an item of a node container, an element of an array or a sentinel -/
def LiveLoc (st : State) (l : Loc) : Prop :=
  (∃ c it f, it ∈ (st.nodes c).items ∧ f ∈ c.k.fields ∧ l = it.loc f) ∨
  (∃ a s i, (st.arrs a).store = some s ∧ i < (st.arrs a).size ∧ l = .heap s i 1) ∨
  (∃ c f, (st.nodes c).alive = true ∧ f ∈ c.k.sentFields ∧ l = .sent c f)

/-- block ownership -/
inductive Owner
  | node (c : Var)
  | arr (a : Nat)
deriving DecidableEq

def owns (st : State) : Owner → Nat → Prop
  | .node c, b => b ∈ (st.nodes c).blocks ∨ (st.nodes c).data = some b
  | .arr a, b => (st.arrs a).store = some b

structure SInv (st : State) : Prop where
  slots_nodup : ∀ c, ((st.nodes c).items ++ (st.nodes c).free).Nodup
  slots_in : ∀ c it, it ∈ (st.nodes c).items ++ (st.nodes c).free → it.b ∈ (st.nodes c).blocks ∧ it.i < st.per.f c.k
  blocks_nodup : ∀ c, (st.nodes c).blocks.Nodup
  data_notin : ∀ c d, (st.nodes c).data = some d → d ∉ (st.nodes c).blocks
  own_unique : ∀ o o' b, owns st o b → owns st o' b → o = o'
  blocks_blk : ∀ c b, b ∈ (st.nodes c).blocks → st.blk b = some (st.per.f c.k)
  data_blk : ∀ c d, (st.nodes c).data = some d → st.blk d = some 0
  store_blk : ∀ a s, (st.arrs a).store = some s → st.blk s = some (st.arrs a).cap
  blk_own : ∀ b n, st.blk b = some n → ∃ o, owns st o b
  blk_lt : ∀ b, st.next ≤ b → st.blk b = none
  items_live : ∀ c it f, it ∈ (st.nodes c).items → f ∈ c.k.fields → (st.mem (it.loc f)).isSome = true
  elems_live : ∀ a s i, (st.arrs a).store = some s → i < (st.arrs a).size → (st.mem (.heap s i 1)).isSome = true
  sent_live : ∀ c f, (st.nodes c).alive = true → f ∈ c.k.sentFields → (st.mem (.sent c f)).isSome = true
  live_owned : ∀ l, (st.mem l).isSome = true → LiveLoc st l
  arr_size : ∀ a s, (st.arrs a).store = some s → (st.arrs a).size ≤ (st.arrs a).cap
  arr_none : ∀ a, (st.arrs a).store = none → (st.arrs a).size = 0
  dead_node : ∀ c, (st.nodes c).alive = false → st.nodes c = {}
  dead_arr : ∀ a, (st.arrs a).alive = false → st.arrs a = {}
  invalid_node : ∀ c, c.valid = false → st.nodes c = {}
  invalid_arr : ∀ a, 1 < a → st.arrs a = {}

theorem fields_lt (k : Kind) (f : Nat) (h : f ∈ k.fields) : f < 2 := by
  cases k <;> simp [Kind.fields] at h <;> omega

theorem sentFields_lt (k : Kind) (f : Nat) (h : f ∈ k.sentFields) : f < 2 := by
  cases k <;> simp [Kind.sentFields] at h <;> omega

theorem fields_nodup (k : Kind) : k.fields.Nodup := by cases k <;> simp [Kind.fields]
theorem sentFields_nodup (k : Kind) : k.sentFields.Nodup := by cases k <;> simp [Kind.sentFields]

/-- the caller's temporary is never part of the model memory -/
theorem SInv.ext_dead {st : State} (h : SInv st) : st.mem .ext = none := by
  cases hm : st.mem .ext with
  | none => rfl
  | some p =>
    exfalso
    have := h.live_owned .ext (by simp [hm])
    rcases this with ⟨c, it, f, _, _, h3⟩ | ⟨a, s, i, _, _, h3⟩ | ⟨c, f, _, _, h3⟩
    · cases h3
    · cases h3
    · cases h3

/-- a heap slot of a block nobody owns holds no live object -/
theorem SInv.dead_of_unowned {st : State} (h : SInv st) (b i f : Nat) (hb : st.blk b = none) :
    st.mem (.heap b i f) = none := by
  cases hm : st.mem (.heap b i f) with
  | none => rfl
  | some p =>
    exfalso
    have := h.live_owned (.heap b i f) (by simp [hm])
    rcases this with ⟨c, it, f', h1, _, h3⟩ | ⟨a, s, i', h1, _, h3⟩ | ⟨c, f', _, _, h3⟩
    · simp only [Item.loc, Loc.heap.injEq] at h3
      have := h.blocks_blk c it.b (h.slots_in c it (by simp [h1])).1
      rw [← h3.1, hb] at this; cases this
    · simp only [Loc.heap.injEq] at h3
      have := h.store_blk a s h1
      rw [← h3.1, hb] at this; cases this
    · cases h3

/-- a resolved source operand designates the caller's temporary or a live object and yields a payload -/
theorem resolve_live {st : State} (h : SInv st) (r : SrcRef) (l : Option Loc) (p : Option Nat)
    (hr : resolve st r = some (l, p)) : p.isSome = true ∧ ∀ s, l = some s → SrcLive st s := by
  cases r with
  | ext q =>
    simp only [resolve, SrcRef.loc, SrcRef.payload, Option.some.injEq, Prod.mk.injEq] at hr
    obtain ⟨rfl, rfl⟩ := hr
    exact ⟨rfl, fun s hs => Or.inl (by cases hs; rfl)⟩
  | inplace q =>
    simp only [resolve, SrcRef.loc, SrcRef.payload, Option.some.injEq, Prod.mk.injEq] at hr
    obtain ⟨rfl, rfl⟩ := hr
    exact ⟨rfl, fun s hs => by cases hs⟩
  | item c j f =>
    simp only [resolve, SrcRef.loc, SrcRef.payload] at hr
    by_cases hf : f ∈ c.k.fields
    · simp only [hf, if_true] at hr
      cases hj : (st.nodes c).items[j]? with
      | none => simp [hj] at hr
      | some it =>
        simp only [hj, Option.map_some, Option.some.injEq, Prod.mk.injEq] at hr
        obtain ⟨rfl, rfl⟩ := hr
        have hmem : it ∈ (st.nodes c).items := List.mem_of_getElem? hj
        have hl := h.items_live c it f hmem hf
        exact ⟨hl, fun s hs => Or.inr (by cases hs; exact hl)⟩
    · simp [hf] at hr
  | elem a j =>
    simp only [resolve, SrcRef.loc, SrcRef.payload] at hr
    cases hs : (st.arrs a).store with
    | none => simp [hs] at hr
    | some s =>
      simp only [hs] at hr
      by_cases hj : j < (st.arrs a).size
      · simp only [hj, if_true, Option.some.injEq, Prod.mk.injEq] at hr
        obtain ⟨rfl, rfl⟩ := hr
        have hl := h.elems_live a s j hs hj
        exact ⟨hl, fun s' hs' => Or.inr (by cases hs'; exact hl)⟩
      · simp [hj] at hr

/-- a state that differs only in payloads (same containers, blocks, liveness) keeps the invariant -/
theorem SInv.of_same_live {st st' : State} (h : SInv st) (hn : st'.nodes = st.nodes) (ha : st'.arrs = st.arrs)
    (hb : st'.blk = st.blk) (hx : st'.next = st.next)
    (hm : ∀ l, (st'.mem l).isSome = (st.mem l).isSome) (hp : st'.per = st.per := by rfl) : SInv st' := by
  have hl : ∀ l, LiveLoc st l → LiveLoc st' l := by
    intro l hl; simpa only [LiveLoc, hn, ha] using hl
  have ho : ∀ o b, owns st' o b ↔ owns st o b := by
    intro o b; cases o <;> simp only [owns, hn, ha]
  constructor
  · simpa only [hn] using h.slots_nodup
  · simpa only [hn, hp] using h.slots_in
  · simpa only [hn] using h.blocks_nodup
  · simpa only [hn] using h.data_notin
  · intro o o' b h1 h2; exact h.own_unique o o' b ((ho o b).mp h1) ((ho o' b).mp h2)
  · simpa only [hn, hb, hp] using h.blocks_blk
  · simpa only [hn, hb] using h.data_blk
  · simpa only [ha, hb] using h.store_blk
  · intro b n hbn
    rw [hb] at hbn
    obtain ⟨o, ho'⟩ := h.blk_own b n hbn
    exact ⟨o, (ho o b).mpr ho'⟩
  · simpa only [hx, hb] using h.blk_lt
  · intro c it f h1 h2; rw [hm]; rw [hn] at h1; exact h.items_live c it f h1 h2
  · intro a s i h1 h2; rw [hm]; rw [ha] at h1 h2; exact h.elems_live a s i h1 h2
  · intro c f h1 h2; rw [hm]; rw [hn] at h1; exact h.sent_live c f h1 h2
  · intro l hl'; rw [hm] at hl'; exact hl l (h.live_owned l hl')
  · simpa only [ha] using h.arr_size
  · simpa only [ha] using h.arr_none
  · simpa only [hn] using h.dead_node
  · simpa only [ha] using h.dead_arr
  · simpa only [hn] using h.invalid_node
  · simpa only [ha] using h.invalid_arr

end Nstd.Life
