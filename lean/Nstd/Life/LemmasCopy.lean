import Nstd.Life.LemmasFault
/-
  C04, second part: a copy (copy constructor / assignment operator) has the value of its source.
  F1: List and Array.
-/
namespace Nstd.Life.Copy
open Nstd.Life

theorem step_eq {st st' : State} {op : Op} {ms : List Micro} (hc : compile st op = some ms)
    (he : execAll st ms = some st') : step st op = st' := by
  unfold step; rw [stepRes_ok hc he]

theorem insertAt_end {α : Type} (l : List α) (x : α) : insertAt l l.length x = l ++ [x] := by
  simp [insertAt]

theorem put_none_eq (s : State) (c : Var) (k v : Option SrcRef) :
    exec s (.put c none k v) = exec s (.put c (some (s.nodes c).items.length) k v) := by
  unfold exec
  simp only [Micro.valid, exec', Option.getD_none, Option.getD_some]

theorem absNode_length (s : State) (c : Var) : (absNode s c).length = (s.nodes c).items.length := by
  simp [absNode]

theorem create_nodes {s s' : State} (c : Var) (he : exec s (.create c) = some s') :
    s'.nodes c = { alive := true } := by
  have he' := Stable.exec_exec' he
  simp only [exec'] at he'
  cases hA : (s.nodes c).alive with
  | true => simp [hA] at he'
  | false =>
    have hg : ¬ ((s.nodes c).alive = true) := by simp [hA]
    rw [if_neg hg] at he'
    have he' := Option.some.inj he'
    subst he'
    simp

theorem clear_items {s s' : State} (c : Var) (he : exec s (.clear c) = some s') :
    (s'.nodes c).items = [] := by
  have he' := Stable.exec_exec' he
  simp only [exec'] at he'
  cases hA : (s.nodes c).alive with
  | false => simp [hA] at he'
  | true =>
    have hg : ¬ ((!(s.nodes c).alive) = true) := by simp [hA]
    rw [if_neg hg] at he'
    have he' := Option.some.inj he'
    subst he'
    simp

-- List -------------------------------------------------------------------------------------------------------

/-- copying all items of the list w' into the empty list c -/
theorem copyL_loop {s : State} (h : SInv s) (c w' : Var) (hck : c.k = .L) (hwk : w'.k = .L) (hc : c.valid = true)
    (hne : w' ≠ c) (ha : (s.nodes c).alive = true) (he : (s.nodes c).items = []) :
    ∃ s', execAll s (copyItems c w' (len s w')) = some s' ∧ absNode s' c = absNode s w' := by
  have hlen : len s w' = (absNode s w').length := by simp [len, absNode]
  obtain ⟨s', hs', _, _, hab, _⟩ := Ops.loop_def
    (fun j x => SInv x ∧ (x.nodes c).alive = true ∧ absNode x c = (absNode s w').take j ∧
      absNode x w' = absNode s w')
    (copyItems c w' (len s w')) 0 s ⟨h, ha, by simp [absNode, he], rfl⟩ (by
      intro j m x hm ⟨ix, ax, cx, wx⟩
      obtain ⟨hj, hm⟩ := Ops.range_map_get hm
      simp only [hck, Kind.hasKey, Bool.false_eq_true, if_false, reduceCtorEq] at hm
      subst hm
      simp only [Nat.zero_add] at cx ⊢
      rw [hlen] at hj
      have hget : (absNode x w')[j]? = some (absNode s w')[j] := by
        rw [wx]; exact List.getElem?_eq_getElem hj
      obtain ⟨hfst, hres, hpay⟩ := itemL_src (st := x) w' hwk j _ hget
      rw [put_none_eq]
      obtain ⟨x', hx', habs, ax'⟩ := putL_abs ix c hck hc ax (x.nodes c).items.length (Nat.le_refl _)
        (.item w' j 1) ((absNode s w')[j]).2 ⟨hres, hpay⟩
      obtain ⟨fn, fm⟩ := Stable.exec_frame_node ix _ hx' w' (by simp [Micro.nodeTargets, hne])
      refine ⟨x', hx', (exec_ok ix _ hx').1, ax', ?_, ?_⟩
      · rw [habs, ← absNode_length, insertAt_end, cx, List.take_add_one, List.getElem?_eq_getElem hj]
        have : ((none : Option Nat), ((absNode s w')[j]).2) = (absNode s w')[j] := by rw [← hfst]
        rw [this]; rfl
      · rw [Ops.absNode_congr w' fn fm, wx])
  refine ⟨s', hs', ?_⟩
  have hcl : (copyItems c w' (len s w')).length = (absNode s w').length := by simp [copyItems, hlen]
  rw [hab, Nat.zero_add, hcl, List.take_length]

theorem copy_equal_list_st {st : State} (h : SInv st) (ha : Ops.AllAlive st) (v w : Nat) (hv : v ≤ 1) (hw : w ≤ 1)
    (hne : v ≠ w) :
    absNode (step st (.copy ⟨.L, v⟩ w)) ⟨.L, v⟩ = absNode st ⟨.L, w⟩ ∧
    absNode (step st (.assign ⟨.L, v⟩ w)) ⟨.L, v⟩ = absNode st ⟨.L, w⟩ := by
  have hcv : (⟨.L, v⟩ : Var).valid = true := Ops.valid_of hv (by simp)
  have hwc : (⟨.L, w⟩ : Var) ≠ ⟨.L, v⟩ := by
    intro e; simp only [Var.mk.injEq, true_and] at e; exact hne e.symm
  constructor
  · -- copy constructor
    obtain ⟨s1, s2, e1, e2, i2, f2, o2⟩ := Ops.dc_def h ⟨.L, v⟩ hcv (ha.1 _ hcv)
    have hw2 : absNode s2 ⟨.L, w⟩ = absNode st ⟨.L, w⟩ := by
      obtain ⟨fn, fm⟩ := Ops.execAll_frame_node h [.destroy ⟨.L, v⟩, .create ⟨.L, v⟩] ⟨.L, w⟩
        (by intro m hm; simp only [List.mem_cons, List.not_mem_nil, or_false] at hm
            rcases hm with rfl | rfl <;> simp [Micro.nodeTargets, hwc])
        (show execAll st [.destroy ⟨.L, v⟩, .create ⟨.L, v⟩] = some s2 by simp [execAll, e1, e2])
      exact Ops.absNode_congr _ fn fm
    obtain ⟨s', hs', hab⟩ := copyL_loop i2 ⟨.L, v⟩ ⟨.L, w⟩ rfl rfl hcv hwc
      (by rw [f2.1]; exact ha.1 _ hcv) (by rw [create_nodes _ e2])
    have hlen : len s2 ⟨.L, w⟩ = len st ⟨.L, w⟩ := by simp only [len]; rw [o2 _ hwc]
    rw [hlen] at hs'
    have hcomp : compile st (.copy ⟨.L, v⟩ w) =
        some ([.destroy ⟨.L, v⟩, .create ⟨.L, v⟩] ++ copyItems ⟨.L, v⟩ ⟨.L, w⟩ (len st ⟨.L, w⟩)) := by
      simp [compile, guard', hv, hw, hne, Kind.isPool]
    have hexec : execAll st ([.destroy ⟨.L, v⟩, .create ⟨.L, v⟩] ++ copyItems ⟨.L, v⟩ ⟨.L, w⟩ (len st ⟨.L, w⟩)) =
        some s' := by
      simp only [List.cons_append, List.nil_append, execAll, e1, e2]; exact hs'
    rw [step_eq hcomp hexec, hab, hw2]
  · -- assignment operator
    obtain ⟨s1, e1⟩ := Ops.clear_def (s := st) ⟨.L, v⟩ hcv (ha.1 _ hcv)
    obtain ⟨i1, f1, _⟩ := Ops.step_post h e1
    have hal : (s1.nodes ⟨.L, v⟩).alive = true := by
      rw [(Ops.exec_alive _ (Stable.exec_exec' e1)).1 ⟨.L, v⟩]; exact ha.1 _ hcv
    have hw1 : absNode s1 ⟨.L, w⟩ = absNode st ⟨.L, w⟩ := by
      obtain ⟨fn, fm⟩ := Stable.exec_frame_node h _ e1 ⟨.L, w⟩ (by simp [Micro.nodeTargets, hwc])
      exact Ops.absNode_congr _ fn fm
    obtain ⟨s', hs', hab⟩ := copyL_loop i1 ⟨.L, v⟩ ⟨.L, w⟩ rfl rfl hcv hwc hal (clear_items _ e1)
    have hlen : len s1 ⟨.L, w⟩ = len st ⟨.L, w⟩ := by
      simp only [len]; rw [f1 _ (by simp [Micro.nodeTargets, hwc])]
    rw [hlen] at hs'
    have hcomp : compile st (.assign ⟨.L, v⟩ w) =
        some ([.clear ⟨.L, v⟩] ++ copyItems ⟨.L, v⟩ ⟨.L, w⟩ (len st ⟨.L, w⟩)) := by
      simp [compile, guard', hv, hw, hne, Kind.isPool]
    have hexec : execAll st ([.clear ⟨.L, v⟩] ++ copyItems ⟨.L, v⟩ ⟨.L, w⟩ (len st ⟨.L, w⟩)) = some s' := by
      simp only [List.cons_append, List.nil_append, execAll, e1]; exact hs'
    rw [step_eq hcomp hexec, hab, hw1]

/-- a List copy has the value of its source -/
theorem copy_equal_list (p : Per) (ops : List Op) (v w : Nat) (hv : v ≤ 1) (hw : w ≤ 1) (hne : v ≠ w) :
    absNode (step (run (init p) ops) (.copy ⟨.L, v⟩ w)) ⟨.L, v⟩ = absNode (run (init p) ops) ⟨.L, w⟩ ∧
    absNode (step (run (init p) ops) (.assign ⟨.L, v⟩ w)) ⟨.L, v⟩ = absNode (run (init p) ops) ⟨.L, w⟩ :=
  copy_equal_list_st (reach_ok p ops).1 (Ops.allAlive_reach p ops) v w hv hw hne

-- Array ------------------------------------------------------------------------------------------------------

theorem absArr_nil {s : State} (h : SInv s) (v : Nat) (hz : (s.arrs v).size = 0) : absArr s v = [] := by
  apply List.eq_nil_of_length_eq_zero
  rw [absArr_length s v h, hz]

/-- placement-news at the end of v from the first n elements of another array w: appends their payloads -/
theorem pushes_other_abs {s : State} (h : SInv s) (v w n : Nat) (hv : v ≤ 1) (hvw : w ≠ v)
    (hn : n ≤ (s.arrs w).size) (hst : 0 < n → (s.arrs v).store.isSome = true)
    (hcap : (s.arrs v).size + n ≤ (s.arrs v).cap) :
    ∃ s', execAll s ((List.range n).map fun j => Micro.aPush v (.elem w j)) = some s' ∧
      absArr s' v = absArr s v ++ (absArr s w).take n := by
  obtain ⟨s', he, _, _, _, _, _, _, hab⟩ := Ops.loop_def
    (fun k x => SInv x ∧ x.arrs w = s.arrs w ∧ absArr x w = absArr s w ∧
      (x.arrs v).size = (s.arrs v).size + k ∧
      (x.arrs v).cap = (s.arrs v).cap ∧ (x.arrs v).store = (s.arrs v).store ∧
      absArr x v = absArr s v ++ (absArr s w).take k)
    ((List.range n).map fun j => Micro.aPush v (.elem w j)) 0 s ⟨h, rfl, rfl, rfl, rfl, rfl, by simp⟩ (by
      intro k m x hm ⟨ix, wx, awx, sx, cx, stx, avx⟩
      obtain ⟨hk, rfl⟩ := Ops.range_map_get hm
      simp only [Nat.zero_add] at sx avx ⊢
      obtain ⟨x', hx'⟩ := Ops.aPush_def v (.elem w k) hv (by rw [stx]; exact hst (by omega)) (by omega)
        (Ops.srcOK_elem' ix (by rw [wx]; omega))
      have hx'' := Stable.exec_exec' hx'
      obtain ⟨hc2, hst2, _⟩ := aPush_shape v _ hx''
      obtain ⟨habs, hsz⟩ := aPush_abs ix v _ hx''
      obtain ⟨fa, fm⟩ := Stable.exec_frame_arr ix _ hx' w (by simp [Micro.arrTargets, hvw])
      have hklen : k < (absArr s w).length := by rw [absArr_length s w h]; omega
      have hget : (absArr x w)[k]? = some (absArr s w)[k] := by
        rw [awx]; exact List.getElem?_eq_getElem hklen
      obtain ⟨_, hpay⟩ := elem_payload ix hget
      refine ⟨x', hx', (exec_ok ix _ hx').1, by rw [fa, wx], by rw [Ops.absArr_congr w fa fm, awx],
        by rw [hsz, sx]; omega, by rw [hc2, cx], by rw [hst2, stx], ?_⟩
      rw [habs, avx, hpay, List.take_add_one, List.getElem?_eq_getElem hklen]
      simp)
  exact ⟨s', he, by simpa using hab⟩

/-- `reserve(cap of w)` on an empty array v, then copy-construct all elements of w: v has the value of w -/
theorem reserve_copy_abs {s : State} (h : SInv s) (v w : Nat) (hv : v ≤ 1) (hvw : w ≠ v)
    (hal : (s.arrs v).alive = true) (hsz : (s.arrs v).size = 0) :
    ∃ s', execAll s (Micro.aReserve v (s.arrs w).cap ::
      (List.range (s.arrs w).size).map fun j => Micro.aPush v (.elem w j)) = some s' ∧
      absArr s' v = absArr s w := by
  obtain ⟨s1, h1⟩ := Ops.aReserve_def (s := s) v (s.arrs w).cap hv hal
  obtain ⟨habs, hsize, _, hcap, hstore, hoth⟩ := aReserve_abs h v _ (Stable.exec_exec' h1)
  obtain ⟨fa, fm⟩ := Stable.exec_frame_arr h _ h1 w (by simp [Micro.arrTargets, hvw])
  have hle := Ops.size_le_cap h w
  obtain ⟨s', hs', hab⟩ := pushes_other_abs (exec_ok h _ h1).1 v w (s.arrs w).size hv hvw
    (by rw [hoth w hvw]; exact Nat.le_refl _) (fun hn => hstore (by omega)) (by rw [hsize, hsz]; omega)
  refine ⟨s', by simp only [execAll, h1]; exact hs', ?_⟩
  rw [hab, habs, absArr_nil h v hsz, Ops.absArr_congr w fa fm, List.nil_append,
    List.take_of_length_le (by rw [absArr_length s w h]; exact Nat.le_refl _)]

theorem copy_equal_array_st {st : State} (h : SInv st) (ha : Ops.AllAlive st) (v w : Nat) (hv : v ≤ 1)
    (hw : w ≤ 1) (hne : v ≠ w) :
    absArr (step st (.copy ⟨.A, v⟩ w)) v = absArr st w ∧
    absArr (step st (.assign ⟨.A, v⟩ w)) v = absArr st w := by
  have hne' : w ≠ v := fun e => hne e.symm
  constructor
  · obtain ⟨s1, s2, e1, e2, i2, a2, o2⟩ := Ops.adc_def h v 0 hv (ha.2 _ hv)
    have hw2 : absArr s2 w = absArr st w := by
      obtain ⟨fa, fm⟩ := Ops.execAll_frame_arr h [.aDestroy v, .aCreate v 0] w
        (by intro m hm; simp only [List.mem_cons, List.not_mem_nil, or_false] at hm
            rcases hm with rfl | rfl <;> simp [Micro.arrTargets, hne'])
        (show execAll st [.aDestroy v, .aCreate v 0] = some s2 by simp [execAll, e1, e2])
      exact Ops.absArr_congr _ fa fm
    obtain ⟨s', hs', hab⟩ := reserve_copy_abs i2 v w hv hne' (by rw [a2]) (by rw [a2])
    rw [o2 w hne'] at hs'
    have hcomp : compile st (.copy ⟨.A, v⟩ w) =
        some ([.aDestroy v, .aCreate v 0, .aReserve v (st.arrs w).cap] ++
          (List.range (st.arrs w).size).map (fun j => .aPush v (.elem w j))) := by
      simp [compile, guard', hv, hw, hne, Kind.isPool]
    have hexec : execAll st ([.aDestroy v, .aCreate v 0, .aReserve v (st.arrs w).cap] ++
          (List.range (st.arrs w).size).map (fun j => .aPush v (.elem w j))) = some s' := by
      simp only [List.cons_append, List.nil_append]
      simp only [execAll, e1, e2] at hs' ⊢
      exact hs'
    rw [step_eq hcomp hexec, hab, hw2]
  · obtain ⟨s1, e1⟩ := Ops.aTruncate_def (s := st) v 0 hv (ha.2 _ hv)
    obtain ⟨i1, _, f1⟩ := Ops.step_post h e1
    have hal : (s1.arrs v).alive = true := by
      rw [(Ops.exec_alive _ (Stable.exec_exec' e1)).2 v]; exact ha.2 _ hv
    have hw1 : absArr s1 w = absArr st w := by
      obtain ⟨fa, fm⟩ := Stable.exec_frame_arr h _ e1 w (by simp [Micro.arrTargets, hne'])
      exact Ops.absArr_congr _ fa fm
    obtain ⟨s', hs', hab⟩ := reserve_copy_abs i1 v w hv hne' hal (Ops.aTruncate0_size h v e1)
    rw [f1 w (by simp [Micro.arrTargets, hne'])] at hs'
    have hcomp : compile st (.assign ⟨.A, v⟩ w) =
        some ([.aTruncate v 0, .aReserve v (st.arrs w).cap] ++
          (List.range (st.arrs w).size).map (fun j => .aPush v (.elem w j))) := by
      simp [compile, guard', hv, hw, hne, Kind.isPool]
    have hexec : execAll st ([.aTruncate v 0, .aReserve v (st.arrs w).cap] ++
          (List.range (st.arrs w).size).map (fun j => .aPush v (.elem w j))) = some s' := by
      simp only [List.cons_append, List.nil_append]
      simp only [execAll, e1] at hs' ⊢
      exact hs'
    rw [step_eq hcomp hexec, hab, hw1]

/-- an Array copy has the value of its source -/
theorem copy_equal_array (p : Per) (ops : List Op) (v w : Nat) (hv : v ≤ 1) (hw : w ≤ 1) (hne : v ≠ w) :
    absArr (step (run (init p) ops) (.copy ⟨.A, v⟩ w)) v = absArr (run (init p) ops) w ∧
    absArr (step (run (init p) ops) (.assign ⟨.A, v⟩ w)) v = absArr (run (init p) ops) w :=
  copy_equal_array_st (reach_ok p ops).1 (Ops.allAlive_reach p ops) v w hv hw hne

end Nstd.Life.Copy
