import Nstd.Life.ArrPtr
import Nstd.Generated.LifeArray
/-
  The loops of Array.hpp, as translated by tools/gen_life.py (Nstd/Generated/LifeArray.lean), compute the recursive
  functions of the slot-level model (`dtorLocs`, `reserveCopy`, `shiftDown`, chains of `ctor`) - for every start index
  and every number of iterations, whenever the fuel exceeds the number of iterations.
-/
namespace Nstd.Life.ArrTr
open Nstd.Life.AP
open Nstd.Generated

/-- the machine state that carries the heap of the model state `st` and the headers `H` -/
def mk (st : State) (H : Nat → Hdr) : PS := ⟨st.next, st.mem, st.blk, st.log, H⟩

theorem rep_eq (st : State) : rep st = mk st (fun a => hdrOf (st.arrs a)) := rfl

@[simp] theorem mk_hd (st : State) (H : Nat → Hdr) : (mk st H).hd = H := rfl
@[simp] theorem mk_setHd (st : State) (H : Nat → Hdr) (a : Nat) (h : Hdr) : (mk st H).setHd a h = mk st (upd H a h) := rfl
@[simp] theorem mk_setArr (st : State) (H : Nat → Hdr) (a : Nat) (x : Arr) : mk (st.setArr a x) H = mk st H := rfl
@[simp] theorem mk_destroy (st : State) (H : Nat → Hdr) (b i : Nat) :
    (mk st H).destroy (.heap b i) = some (mk (st.dtor (.heap b i 1)) H) := rfl
@[simp] theorem mk_construct_heap (st : State) (H : Nat → Hdr) (b i b' i' : Nat) :
    (mk st H).construct (.heap b i) (.heap b' i') =
      some (mk (st.ctor (.heap b i 1) (some (.heap b' i' 1)) (st.mem (.heap b' i' 1))) H) := rfl
@[simp] theorem mk_construct_ext (st : State) (H : Nat → Hdr) (b i p : Nat) :
    (mk st H).construct (.heap b i) (.ext p) = some (mk (st.ctor (.heap b i 1) (some .ext) (some p)) H) := rfl
@[simp] theorem mk_assign_heap (st : State) (H : Nat → Hdr) (b i b' i' : Nat) :
    (mk st H).assignObj (.heap b i) (.heap b' i') =
      some (mk (st.assign (.heap b i 1) (.heap b' i' 1) (st.mem (.heap b' i' 1))) H) := rfl
@[simp] theorem mk_newBlock (st : State) (H : Nat → Hdr) (n : Nat) :
    (mk st H).newBlock n = (mk (st.alloc n) H, .heap st.next 0) := rfl
@[simp] theorem mk_deleteBlock (st : State) (H : Nat → Hdr) (b : Nat) :
    (mk st H).deleteBlock (.heap b 0) = some (mk (st.freeBlk b) H) := rfl

@[simp] theorem add_heap (b i n : Nat) : Ptr.add (.heap b i) n = some (.heap b (i + n)) := rfl
@[simp] theorem add_zero (p : Ptr) : Ptr.add p 0 = some p := by cases p <;> rfl
@[simp] theorem diff_heap (b i j : Nat) (h : j ≤ i) : Ptr.diff (.heap b i) (.heap b j) = some (i - j) := by
  simp [Ptr.diff, h]
@[simp] theorem diff_null : Ptr.diff .null .null = some 0 := rfl
theorem subn_heap (b i n : Nat) (h : n ≤ i) : Ptr.subn (.heap b i) n = some (.heap b (i - n)) := by
  simp [Ptr.subn, h]
@[simp] theorem lt_heap (b i j : Nat) : Ptr.lt (.heap b i) (.heap b j) = decide (i < j) := by
  simp [Ptr.lt]

theorem upd_same {α : Type} [DecidableEq α] {β : Type} (f : α → β) (a : α) (b : β) : upd f a b a = b := by simp [upd]
theorem upd_other {α : Type} [DecidableEq α] {β : Type} (f : α → β) (a x : α) (b : β) (h : x ≠ a) : upd f a b x = f x := by
  simp [upd, h]
theorem upd_upd {α : Type} [DecidableEq α] {β : Type} (f : α → β) (a : α) (b c : β) : upd (upd f a b) a c = upd f a c := by
  funext x; by_cases h : x = a <;> simp [upd, h]
theorem upd_self {α : Type} [DecidableEq α] {β : Type} (f : α → β) (a : α) : upd f a (f a) = f := by
  funext x; by_cases h : x = a <;> simp [upd, h]

/-- the header table of a model state after `setArr` -/
theorem hdr_setArr (st : State) (a : Nat) (x : Arr) :
    (fun i => hdrOf ((st.setArr a x).arrs i)) = upd (fun i => hdrOf (st.arrs i)) a (hdrOf x) := by
  funext i; by_cases h : i = a <;> simp [State.setArr, upd, h]

theorem rep_setArr (st : State) (a : Nat) (x : Arr) :
    rep (st.setArr a x) = mk st (upd (fun i => hdrOf (st.arrs i)) a (hdrOf x)) := by
  rw [rep_eq, hdr_setArr]; rfl

-- ---------------------------------------------------------------------------------------------
-- loops

/-- destructor calls on the slots i, i+1, .., i+k-1 of block b -/
def dtorSlots (st : State) (b i k : Nat) : State := st.dtorLocs ((List.range' i k).map fun j => .heap b j 1)

theorem dtorSlots_succ (st : State) (b i k : Nat) :
    dtorSlots st b i (k + 1) = dtorSlots (st.dtor (.heap b i 1)) b (i + 1) k := by
  simp [dtorSlots, List.range'_succ, State.dtorLocs]

@[simp] theorem dtorSlots_zero (st : State) (b i : Nat) : dtorSlots st b i 0 = st := rfl

theorem heap_ne {b i j : Nat} (h : i ≠ j) : (Ptr.heap b i = Ptr.heap b j) = False := by
  simp [h]

theorem clear_loop (this b : Nat) (H : Nat → Hdr) : ∀ (k fuel i : Nat) (st : State), k < fuel →
    LifeArray.clear_loop1 this (.heap b (i + k)) fuel (mk st H) (.heap b i) = some (mk (dtorSlots st b i k) H, .heap b (i + k)) := by
  intro k
  induction k with
  | zero => intro fuel i st hf; cases fuel with
    | zero => omega
    | succ f => simp [LifeArray.clear_loop1]
  | succ k ih => intro fuel i st hf; cases fuel with
    | zero => omega
    | succ f =>
      have hne : i ≠ i + (k + 1) := by omega
      have := ih f (i + 1) (st.dtor (.heap b i 1)) (by omega)
      rw [show i + 1 + k = i + (k + 1) by omega] at this
      simp [LifeArray.clear_loop1, this, dtorSlots_succ]

theorem dtor_loop (this b : Nat) (H : Nat → Hdr) : ∀ (k fuel i : Nat) (st : State), k < fuel →
    LifeArray.dtor_loop1 this (.heap b (i + k)) fuel (mk st H) (.heap b i) = some (mk (dtorSlots st b i k) H, .heap b (i + k)) := by
  intro k
  induction k with
  | zero => intro fuel i st hf; cases fuel with
    | zero => omega
    | succ f => simp [LifeArray.dtor_loop1]
  | succ k ih => intro fuel i st hf; cases fuel with
    | zero => omega
    | succ f =>
      have hne : i ≠ i + (k + 1) := by omega
      have := ih f (i + 1) (st.dtor (.heap b i 1)) (by omega)
      rw [show i + 1 + k = i + (k + 1) by omega] at this
      simp [LifeArray.dtor_loop1, this, dtorSlots_succ]

theorem resize_loop1 (this b : Nat) (H : Nat → Hdr) : ∀ (k fuel i : Nat) (st : State), k < fuel →
    LifeArray.resize_loop1 this (.heap b (i + k)) fuel (mk st H) (.heap b i) = some (mk (dtorSlots st b i k) H, .heap b (i + k)) := by
  intro k
  induction k with
  | zero => intro fuel i st hf; cases fuel with
    | zero => omega
    | succ f => simp [LifeArray.resize_loop1]
  | succ k ih => intro fuel i st hf; cases fuel with
    | zero => omega
    | succ f =>
      have hne : i ≠ i + (k + 1) := by omega
      have := ih f (i + 1) (st.dtor (.heap b i 1)) (by omega)
      rw [show i + 1 + k = i + (k + 1) by omega] at this
      simp [LifeArray.resize_loop1, this, dtorSlots_succ]

/-- `reserve`: copy-construct slot j of the new block from slot j of the old one, destroy the old one; j = i .. i+k-1 -/
theorem reserve_loop (this ob nb : Nat) (H : Nat → Hdr) : ∀ (k fuel i : Nat) (st : State), k < fuel →
    LifeArray.reserve_loop1 this (.heap ob (i + k)) fuel (mk st H) (.heap ob i) (.heap nb i) =
      some (mk (reserveCopy st ob nb (List.range' i k)) H, .heap ob (i + k), .heap nb (i + k)) := by
  intro k
  induction k with
  | zero => intro fuel i st hf; cases fuel with
    | zero => omega
    | succ f => simp [LifeArray.reserve_loop1, reserveCopy]
  | succ k ih => intro fuel i st hf; cases fuel with
    | zero => omega
    | succ f =>
      have hne : i ≠ i + (k + 1) := by omega
      have := ih f (i + 1) ((st.ctor (.heap nb i 1) (some (.heap ob i 1)) (st.mem (.heap ob i 1))).dtor (.heap ob i 1)) (by omega)
      rw [show i + 1 + k = i + (k + 1) by omega] at this
      simp [LifeArray.reserve_loop1, this, List.range'_succ, reserveCopy]

/-- copy-construct slot di+j of block db from slot si+j of block sb, j = 0 .. k-1 (the source is read when it is copied) -/
def copySlots (st : State) (db di sb si : Nat) : Nat → State
  | 0 => st
  | k + 1 => copySlots (st.ctor (.heap db di 1) (some (.heap sb si 1)) (st.mem (.heap sb si 1))) db (di + 1) sb (si + 1) k

theorem copyCtor_loop (this db sb : Nat) (H : Nat → Hdr) : ∀ (k fuel di si : Nat) (st : State), k < fuel →
    LifeArray.copyCtor_loop1 this (.heap sb (si + k)) fuel (mk st H) (.heap sb si) (.heap db di) =
      some (mk (copySlots st db di sb si k) H, .heap sb (si + k), .heap db (di + k)) := by
  intro k
  induction k with
  | zero => intro fuel di si st hf; cases fuel with
    | zero => omega
    | succ f => simp [LifeArray.copyCtor_loop1, copySlots]
  | succ k ih => intro fuel di si st hf; cases fuel with
    | zero => omega
    | succ f =>
      have hne : si ≠ si + (k + 1) := by omega
      have := ih f (di + 1) (si + 1) (st.ctor (.heap db di 1) (some (.heap sb si 1)) (st.mem (.heap sb si 1))) (by omega)
      rw [show si + 1 + k = si + (k + 1) by omega, show di + 1 + k = di + (k + 1) by omega] at this
      simp [LifeArray.copyCtor_loop1, this, copySlots]

theorem assign_loop (this db sb : Nat) (H : Nat → Hdr) : ∀ (k fuel di si : Nat) (st : State), k < fuel →
    LifeArray.assign_loop1 this (.heap sb (si + k)) fuel (mk st H) (.heap sb si) (.heap db di) =
      some (mk (copySlots st db di sb si k) H, .heap sb (si + k), .heap db (di + k)) := by
  intro k
  induction k with
  | zero => intro fuel di si st hf; cases fuel with
    | zero => omega
    | succ f => simp [LifeArray.assign_loop1, copySlots]
  | succ k ih => intro fuel di si st hf; cases fuel with
    | zero => omega
    | succ f =>
      have hne : si ≠ si + (k + 1) := by omega
      have := ih f (di + 1) (si + 1) (st.ctor (.heap db di 1) (some (.heap sb si 1)) (st.mem (.heap sb si 1))) (by omega)
      rw [show si + 1 + k = si + (k + 1) by omega, show di + 1 + k = di + (k + 1) by omega] at this
      simp [LifeArray.assign_loop1, this, copySlots]

theorem appendArr_loop (this db sb : Nat) (H : Nat → Hdr) : ∀ (k fuel di si : Nat) (st : State), k < fuel →
    LifeArray.appendArr_loop1 this (.heap db (di + k)) fuel (mk st H) (.heap db di) (.heap sb si) =
      some (mk (copySlots st db di sb si k) H, .heap db (di + k), .heap sb (si + k)) := by
  intro k
  induction k with
  | zero => intro fuel di si st hf; cases fuel with
    | zero => omega
    | succ f => simp [LifeArray.appendArr_loop1, copySlots]
  | succ k ih => intro fuel di si st hf; cases fuel with
    | zero => omega
    | succ f =>
      have hlt : di < di + (k + 1) := by omega
      have := ih f (di + 1) (si + 1) (st.ctor (.heap db di 1) (some (.heap sb si 1)) (st.mem (.heap sb si 1))) (by omega)
      rw [show si + 1 + k = si + (k + 1) by omega, show di + 1 + k = di + (k + 1) by omega] at this
      simp [LifeArray.appendArr_loop1, hlt, this, copySlots]

theorem appendPtr_loop (this db sb : Nat) (H : Nat → Hdr) : ∀ (k fuel di si : Nat) (st : State), k < fuel →
    LifeArray.appendPtr_loop1 this (.heap db (di + k)) fuel (mk st H) (.heap db di) (.heap sb si) =
      some (mk (copySlots st db di sb si k) H, .heap db (di + k), .heap sb (si + k)) := by
  intro k
  induction k with
  | zero => intro fuel di si st hf; cases fuel with
    | zero => omega
    | succ f => simp [LifeArray.appendPtr_loop1, copySlots]
  | succ k ih => intro fuel di si st hf; cases fuel with
    | zero => omega
    | succ f =>
      have hlt : di < di + (k + 1) := by omega
      have := ih f (di + 1) (si + 1) (st.ctor (.heap db di 1) (some (.heap sb si 1)) (st.mem (.heap sb si 1))) (by omega)
      rw [show si + 1 + k = si + (k + 1) by omega, show di + 1 + k = di + (k + 1) by omega] at this
      simp [LifeArray.appendPtr_loop1, hlt, this, copySlots]

/-- `resize`: k copies of ONE source object into the slots i .. i+k-1 of block b -/
def fillSlots (st : State) (b : Nat) (src : State → Option Loc × Option Nat) : Nat → Nat → State
  | _, 0 => st
  | i, k + 1 => fillSlots (st.ctor (.heap b i 1) (src st).1 (src st).2) b src (i + 1) k

theorem resize_loop2_heap (this b sb si : Nat) (H : Nat → Hdr) : ∀ (k fuel i : Nat) (st : State), k < fuel →
    LifeArray.resize_loop2 this (.heap b (i + k)) (.heap sb si) fuel (mk st H) (.heap b i) =
      some (mk (fillSlots st b (fun s => (some (.heap sb si 1), s.mem (.heap sb si 1))) i k) H, .heap b (i + k)) := by
  intro k
  induction k with
  | zero => intro fuel i st hf; cases fuel with
    | zero => omega
    | succ f => simp [LifeArray.resize_loop2, fillSlots]
  | succ k ih => intro fuel i st hf; cases fuel with
    | zero => omega
    | succ f =>
      have hne : i ≠ i + (k + 1) := by omega
      have := ih f (i + 1) (st.ctor (.heap b i 1) (some (.heap sb si 1)) (st.mem (.heap sb si 1))) (by omega)
      rw [show i + 1 + k = i + (k + 1) by omega] at this
      simp [LifeArray.resize_loop2, this, fillSlots]

theorem resize_loop2_ext (this b p : Nat) (H : Nat → Hdr) : ∀ (k fuel i : Nat) (st : State), k < fuel →
    LifeArray.resize_loop2 this (.heap b (i + k)) (.ext p) fuel (mk st H) (.heap b i) =
      some (mk (fillSlots st b (fun _ => (some .ext, some p)) i k) H, .heap b (i + k)) := by
  intro k
  induction k with
  | zero => intro fuel i st hf; cases fuel with
    | zero => omega
    | succ f => simp [LifeArray.resize_loop2, fillSlots]
  | succ k ih => intro fuel i st hf; cases fuel with
    | zero => omega
    | succ f =>
      have hne : i ≠ i + (k + 1) := by omega
      have := ih f (i + 1) (st.ctor (.heap b i 1) (some .ext) (some p)) (by omega)
      rw [show i + 1 + k = i + (k + 1) by omega] at this
      simp [LifeArray.resize_loop2, this, fillSlots]

/-- `remove`: `*dest = *(++pos)` for pos = i .. i+k-1 -/
theorem remove_loop (this b : Nat) (H : Nat → Hdr) : ∀ (k fuel i : Nat) (st : State) (d : Ptr), k < fuel →
    ∃ d', LifeArray.remove_loop1 this (.heap b (i + k)) fuel (mk st H) d (.heap b i) =
      some (mk (shiftDown st b (List.range' i k)) H, d', .heap b (i + k)) := by
  intro k
  induction k with
  | zero => intro fuel i st d hf; cases fuel with
    | zero => omega
    | succ f => exact ⟨d, by simp [LifeArray.remove_loop1, shiftDown]⟩
  | succ k ih => intro fuel i st d hf; cases fuel with
    | zero => omega
    | succ f =>
      have hlt : i < i + (k + 1) := by omega
      obtain ⟨d', hd⟩ := ih f (i + 1) (st.assign (.heap b i 1) (.heap b (i + 1) 1) (st.mem (.heap b (i + 1) 1))) (.heap b i) (by omega)
      rw [show i + 1 + k = i + (k + 1) by omega] at hd
      exact ⟨d', by simp [LifeArray.remove_loop1, hlt, hd, List.range'_succ, shiftDown]⟩

theorem removeIt_loop (this b : Nat) (H : Nat → Hdr) : ∀ (k fuel i : Nat) (st : State) (d : Ptr), k < fuel →
    ∃ d', LifeArray.removeIt_loop1 this (.heap b (i + k)) fuel (mk st H) d (.heap b i) =
      some (mk (shiftDown st b (List.range' i k)) H, d', .heap b (i + k)) := by
  intro k
  induction k with
  | zero => intro fuel i st d hf; cases fuel with
    | zero => omega
    | succ f => exact ⟨d, by simp [LifeArray.removeIt_loop1, shiftDown]⟩
  | succ k ih => intro fuel i st d hf; cases fuel with
    | zero => omega
    | succ f =>
      have hlt : i < i + (k + 1) := by omega
      obtain ⟨d', hd⟩ := ih f (i + 1) (st.assign (.heap b i 1) (.heap b (i + 1) 1) (st.mem (.heap b (i + 1) 1))) (.heap b i) (by omega)
      rw [show i + 1 + k = i + (k + 1) by omega] at hd
      exact ⟨d', by simp [LifeArray.removeIt_loop1, hlt, hd, List.range'_succ, shiftDown]⟩

end Nstd.Life.ArrTr
