import Nstd.Life.LemmasAll
/-
  Alias operations behave as if the argument had been copied first (C04, third part), and
  copies are independent (C04, second part): lemmas at the level of abstract values.
-/
namespace Nstd.Life

-- Array: reserve keeps the abstract value --------------------------------------------------------------------

theorem reserveCopy_mem_other (ob nb : Nat) : ∀ (l : List Nat) (st : State) (x : Loc),
    (∀ i, i ∈ l → x ≠ .heap nb i 1 ∧ x ≠ .heap ob i 1) → (reserveCopy st ob nb l).mem x = st.mem x
  | [], _, _, _ => rfl
  | j :: rest, st, x, hx => by
    simp only [reserveCopy]
    rw [reserveCopy_mem_other ob nb rest _ x (fun i hi => hx i (List.mem_cons_of_mem _ hi))]
    obtain ⟨h1, h2⟩ := hx j List.mem_cons_self
    simp only [dtor_mem, ctor_mem, upd, h1, h2, if_false]

theorem reserveCopy_payload (ob nb : Nat) (hne : ob ≠ nb) : ∀ (l : List Nat) (st : State), l.Nodup →
    ∀ i, i ∈ l → (reserveCopy st ob nb l).mem (.heap nb i 1) = st.mem (.heap ob i 1)
  | [], _, _, _, hi => absurd hi List.not_mem_nil
  | j :: rest, st, hnd, i, hi => by
    rw [List.nodup_cons] at hnd
    simp only [reserveCopy]
    by_cases hij : i = j
    · subst hij
      rw [reserveCopy_mem_other ob nb rest _ _ ?_]
      · have : Loc.heap nb i 1 ≠ Loc.heap ob i 1 := by
          intro he; simp only [Loc.heap.injEq] at he; exact hne he.1.symm
        simp only [dtor_mem, ctor_mem, upd, this, if_false, if_true]
      · intro k hk
        have hki : k ≠ i := fun he => hnd.1 (he ▸ hk)
        constructor
        · intro he; simp only [Loc.heap.injEq] at he; exact hki he.2.1.symm
        · intro he; simp only [Loc.heap.injEq] at he; exact hne he.1.symm
    · have hi' : i ∈ rest := by simpa [hij] using hi
      rw [reserveCopy_payload ob nb hne rest _ hnd.2 i hi']
      have h1 : Loc.heap ob i 1 ≠ Loc.heap ob j 1 := by
        intro he; simp only [Loc.heap.injEq] at he; exact hij he.2.1
      have h2 : Loc.heap ob i 1 ≠ Loc.heap nb j 1 := by
        intro he; simp only [Loc.heap.injEq] at he; exact hne he.1
      simp only [dtor_mem, ctor_mem, upd, h1, h2, if_false]

theorem reserveCopy_arrs (ob nb : Nat) : ∀ (l : List Nat) (st : State), (reserveCopy st ob nb l).arrs = st.arrs
  | [], _ => rfl
  | j :: rest, st => by simp only [reserveCopy]; rw [reserveCopy_arrs ob nb rest]; rfl

/-- what `reserve(n)` does to the array variable: same abstract value, same size, afterwards there is a
    storage of capacity ≥ n (if n > 0 or there was one before) -/
theorem aReserve_abs {st st' : State} (h : SInv st) (a n : Nat) (he : exec' st (.aReserve a n) = some st') :
    absArr st' a = absArr st a ∧ (st'.arrs a).size = (st.arrs a).size ∧ (st'.arrs a).alive = true ∧
    n ≤ (st'.arrs a).cap ∧ (0 < n → (st'.arrs a).store.isSome = true) ∧
    (∀ b, b ≠ a → st'.arrs b = st.arrs b) := by
  simp only [exec'] at he
  by_cases ha : (st.arrs a).alive = true
  · simp only [ha, Bool.not_true, Bool.false_eq_true, if_false] at he
    by_cases hc : (decide (n > (st.arrs a).cap) || (st.arrs a).store.isNone && decide (n > 0)) = true
    · simp only [hc, if_true, Option.some.injEq] at he
      subst he
      have hcap : n ≤ (if n > (st.arrs a).cap then n else (st.arrs a).cap) ||| 3 := by
        refine Nat.le_trans ?_ Nat.left_le_or
        by_cases hn : n > (st.arrs a).cap
        · simp [hn]
        · simp only [hn, if_false]; omega
      cases hs : (st.arrs a).store with
      | none =>
        have hz := h.arr_none a hs
        refine ⟨?_, ?_, ?_, ?_, ?_, ?_⟩
        · simp [absArr, hs, hz, upd_same]
        · simp [upd_same]
        · simp [upd_same, ha]
        · simpa [upd_same] using hcap
        · intro _; simp [upd_same]
        · intro b hb; simp [upd_other _ _ _ _ hb]
      | some ob =>
        have hob : ob < st.next := h.owns_lt (o := .arr a) hs
        have hne : ob ≠ st.next := by omega
        refine ⟨?_, ?_, ?_, ?_, ?_, ?_⟩
        · simp only [absArr, setArr_arrs, upd_same, setArr_mem, freeBlk_mem, hs]
          apply List.map_congr_left
          intro i hi
          rw [reserveCopy_payload ob st.next hne _ _ List.nodup_range i hi]
          rfl
        · simp [upd_same]
        · simp [upd_same, ha]
        · simpa [upd_same] using hcap
        · intro _; simp [upd_same]
        · intro b hb; simp [upd_other _ _ _ _ hb, reserveCopy_arrs]
    · simp only [hc, Bool.false_eq_true, if_false, Option.some.injEq] at he
      subst he
      simp only [Bool.or_eq_true, decide_eq_true_eq, Bool.and_eq_true, Option.isNone_iff_eq_none, not_or, not_and] at hc
      refine ⟨rfl, rfl, ha, by omega, ?_, fun _ _ => rfl⟩
      intro hn
      cases hs : (st.arrs a).store with
      | none => exact absurd hn (hc.2 hs)
      | some s => rfl
  · simp [ha] at he

/-- `new(end) T(src)` appends the payload read through the source operand -/
theorem aPush_abs {st st' : State} (h : SInv st) (a : Nat) (src : SrcRef) (he : exec' st (.aPush a src) = some st') :
    absArr st' a = absArr st a ++ [src.payload st] ∧ (st'.arrs a).size = (st.arrs a).size + 1 := by
  simp only [exec'] at he
  cases hs : (st.arrs a).store with
  | none => simp [hs] at he
  | some s =>
    simp only [hs, Option.bind_eq_bind, Option.bind_some] at he
    by_cases hc : (st.arrs a).size ≥ (st.arrs a).cap
    · simp [hc] at he
    · simp only [hc, if_false] at he
      cases hr : resolve st src with
      | none => simp [hr] at he
      | some lp =>
        obtain ⟨l, p⟩ := lp
        simp only [hr, Option.bind_some, Option.some.injEq] at he
        subst he
        have hp : p = src.payload st := by
          unfold resolve at hr
          cases hl : src.loc st with
          | none => simp [hl] at hr
          | some l' => simp only [hl, Option.some.injEq, Prod.mk.injEq] at hr; exact hr.2.symm
        refine ⟨?_, by simp [upd_same]⟩
        simp only [absArr, setArr_arrs, upd_same, setArr_mem, ctor_mem, hs, List.range_succ, List.map_append,
          List.map_cons, List.map_nil]
        congr 1
        · apply List.map_congr_left
          intro i hi
          have : Loc.heap s i 1 ≠ Loc.heap s (st.arrs a).size 1 := by
            intro he; simp only [Loc.heap.injEq] at he
            have := List.mem_range.mp hi; omega
          simp only [upd, this, if_false]
        · simp [upd, hp]

end Nstd.Life

namespace Nstd.Life

theorem absArr_get {st : State} {a s i : Nat} (hs : (st.arrs a).store = some s) (hi : i < (st.arrs a).size) :
    (absArr st a)[i]? = some (st.mem (.heap s i 1)) := by
  simp [absArr, hs, hi]

theorem absArr_length (st : State) (a : Nat) (h : SInv st) : (absArr st a).length = (st.arrs a).size := by
  unfold absArr
  cases hs : (st.arrs a).store with
  | none => simp [h.arr_none a hs]
  | some s => simp

theorem elem_payload {st : State} {a i : Nat} {x : Option Nat} (h : SInv st) (hx : (absArr st a)[i]? = some x) :
    (resolve st (.elem a i)).isSome = true ∧ SrcRef.payload st (.elem a i) = x := by
  have hlen := absArr_length st a h
  have hi : i < (st.arrs a).size := by
    rw [← hlen]
    exact (List.getElem?_eq_some_iff.mp hx).1
  cases hs : (st.arrs a).store with
  | none => rw [h.arr_none a hs] at hi; omega
  | some s =>
    rw [absArr_get hs hi] at hx
    simp only [Option.some.injEq] at hx
    simp [resolve, SrcRef.loc, SrcRef.payload, hs, hi, hx]

/-- `reserve(size + k)` followed by one placement-new at the end never faults and appends the payload of the source,
    provided the source is resolvable after the reserve with payload p -/
theorem reserve_push {st : State} (h : SInv st) (v n : Nat) (hv : v ≤ 1) (ha : (st.arrs v).alive = true)
    (hn : (st.arrs v).size < n) (src : SrcRef) (p : Option Nat)
    (hsrc : ∀ st1, SInv st1 → absArr st1 v = absArr st v → (resolve st1 src).isSome = true ∧ src.payload st1 = p) :
    ∃ s, execAll st [.aReserve v n, .aPush v src] = some s ∧
      absArr s v = absArr st v ++ [p] := by
  have hval1 : (Micro.aReserve v n).valid = true := by simp [Micro.valid, hv]
  have hval2 : (Micro.aPush v src).valid = true := by simp [Micro.valid, hv]
  have hr : ∃ s1, exec' st (.aReserve v n) = some s1 := by
    simp only [exec', ha, Bool.not_true, Bool.false_eq_true, if_false]
    by_cases hc : (decide (n > (st.arrs v).cap) || (st.arrs v).store.isNone && decide (n > 0)) = true
    · rw [if_pos hc]; exact ⟨_, rfl⟩
    · rw [if_neg hc]; exact ⟨_, rfl⟩
  obtain ⟨s1, hs1⟩ := hr
  have he1 : exec st (.aReserve v n) = some s1 := by unfold exec; rw [if_pos hval1]; exact hs1
  obtain ⟨i1, _⟩ := exec_ok h _ he1
  obtain ⟨habs, hsize, _, hcap, hstore, _⟩ := aReserve_abs h v n hs1
  obtain ⟨hres, hpay⟩ := hsrc s1 i1 habs
  have hst : (s1.arrs v).store.isSome = true := hstore (by omega)
  have hp : ∃ s2, exec' s1 (.aPush v src) = some s2 := by
    simp only [exec']
    cases hs : (s1.arrs v).store with
    | none => rw [hs] at hst; cases hst
    | some s =>
      have hlt : ¬ (s1.arrs v).size ≥ (s1.arrs v).cap := by omega
      cases hr : resolve s1 src with
      | none => rw [hr] at hres; cases hres
      | some lp => simp [hlt]
  obtain ⟨s2, hs2⟩ := hp
  have he2 : exec s1 (.aPush v src) = some s2 := by unfold exec; rw [if_pos hval2]; exact hs2
  refine ⟨s2, by simp [execAll, he1, he2], ?_⟩
  rw [(aPush_abs i1 v src hs2).1, habs, hpay]

end Nstd.Life

namespace Nstd.Life

theorem aPush_shape {st st' : State} (a : Nat) (src : SrcRef) (he : exec' st (.aPush a src) = some st') :
    (st'.arrs a).cap = (st.arrs a).cap ∧ (st'.arrs a).store = (st.arrs a).store ∧ (st'.arrs a).alive = (st.arrs a).alive := by
  simp only [exec'] at he
  cases hs : (st.arrs a).store with
  | none => simp [hs] at he
  | some s =>
    simp only [hs, Option.bind_eq_bind, Option.bind_some] at he
    by_cases hc : (st.arrs a).size ≥ (st.arrs a).cap
    · simp [hc] at he
    · simp only [hc, if_false] at he
      cases hr : resolve st src with
      | none => simp [hr] at he
      | some lp =>
        simp only [hr, Option.bind_some, Option.some.injEq] at he
        subst he
        simp [upd_same, hs]

/-- a run of placement-news at the end of an array with room: never faults, appends the payloads.
    The sources may refer to the array itself: each must be resolvable, with the stated payload, in every
    state whose abstract value extends the one at the start (`abs0`). -/
theorem push_all (v : Nat) (hv : v ≤ 1) (abs0 : List (Option Nat)) :
    ∀ (srcs : List SrcRef) (ps : List (Option Nat)) (st : State), SInv st → srcs.length = ps.length →
    (srcs ≠ [] → (st.arrs v).store.isSome = true) → (st.arrs v).size + srcs.length ≤ (st.arrs v).cap →
    abs0 <+: absArr st v →
    (∀ st1, SInv st1 → abs0 <+: absArr st1 v → ∀ (k : Nat) (r : SrcRef), srcs[k]? = some r →
        (resolve st1 r).isSome = true ∧ some (r.payload st1) = ps[k]?) →
    ∃ s, execAll st (srcs.map (.aPush v)) = some s ∧ absArr s v = absArr st v ++ ps
  | [], ps, st, _, hlen, _, _, _, _ => by
    have : ps = [] := List.length_eq_zero_iff.mp hlen.symm
    subst this
    exact ⟨st, rfl, by simp⟩
  | r :: rest, ps, st, h, hlen, hst, hcap, hpre, hsrc => by
    cases ps with
    | nil => simp at hlen
    | cons p ps' =>
      simp only [List.length_cons, Nat.add_right_cancel_iff] at hlen
      obtain ⟨hres, hpay⟩ := hsrc st h hpre 0 r rfl
      simp only [List.getElem?_cons_zero, Option.some.injEq] at hpay
      have hval : (Micro.aPush v r).valid = true := by simp [Micro.valid, hv]
      have hp : ∃ s2, exec' st (.aPush v r) = some s2 := by
        simp only [exec']
        cases hs : (st.arrs v).store with
        | none => have := hst (by simp); rw [hs] at this; cases this
        | some s =>
          have hlt : ¬ (st.arrs v).size ≥ (st.arrs v).cap := by simp only [List.length_cons] at hcap; omega
          cases hr : resolve st r with
          | none => rw [hr] at hres; cases hres
          | some lp => simp [hlt]
      obtain ⟨s2, hs2⟩ := hp
      have he2 : exec st (.aPush v r) = some s2 := by unfold exec; rw [if_pos hval]; exact hs2
      obtain ⟨i2, _⟩ := exec_ok h _ he2
      obtain ⟨habs, hsz⟩ := aPush_abs h v r hs2
      obtain ⟨hc2, hst2, _⟩ := aPush_shape v r hs2
      have hpre2 : abs0 <+: absArr s2 v := by rw [habs]; exact hpre.trans (List.prefix_append _ _)
      obtain ⟨s, hs, hab⟩ := push_all v hv abs0 rest ps' s2 i2 hlen (fun _ => by rw [hst2]; exact hst (by simp))
        (by rw [hsz, hc2]; simp only [List.length_cons] at hcap; omega) hpre2
        (fun st1 i1 hp1 k r' hk => by
          have := hsrc st1 i1 hp1 (k + 1) r' (by simpa using hk)
          simpa using this)
      refine ⟨s, by simp [execAll, he2, hs], ?_⟩
      rw [hab, habs, hpay]; simp

end Nstd.Life

namespace Nstd.Life

theorem prefix_get {α : Type} {l1 l2 : List α} (hp : l1 <+: l2) {j : Nat} {x : α} (hx : l1[j]? = some x) : l2[j]? = some x := by
  obtain ⟨t, rfl⟩ := hp
  have hj : j < l1.length := (List.getElem?_eq_some_iff.mp hx).1
  rw [List.getElem?_append_left hj]; exact hx

/-- a reference to element j of the array itself keeps designating the same payload while the array only grows -/
theorem elem_src_ok (v j : Nat) (abs0 : List (Option Nat)) (x : Option Nat) (hx : abs0[j]? = some x)
    (st1 : State) (i1 : SInv st1) (hp : abs0 <+: absArr st1 v) :
    (resolve st1 (.elem v j)).isSome = true ∧ SrcRef.payload st1 (.elem v j) = x :=
  elem_payload i1 (prefix_get hp hx)

theorem ext_src_ok (st1 : State) (x : Nat) : (resolve st1 (.ext x)).isSome = true ∧ SrcRef.payload st1 (.ext x) = some x := by
  simp [resolve, SrcRef.loc, SrcRef.payload]

/-- `reserve(n)` then a run of placement-news at the end: the shape of append / resize (growing) -/
theorem reserve_pushes {st : State} (h : SInv st) (v n : Nat) (hv : v ≤ 1) (ha : (st.arrs v).alive = true)
    (srcs : List SrcRef) (ps : List (Option Nat)) (hlen : srcs.length = ps.length)
    (hn : (st.arrs v).size + srcs.length ≤ n)
    (hsrc : ∀ st1, SInv st1 → absArr st v <+: absArr st1 v → ∀ (k : Nat) (r : SrcRef), srcs[k]? = some r →
        (resolve st1 r).isSome = true ∧ some (r.payload st1) = ps[k]?) :
    ∃ s, execAll st (.aReserve v n :: srcs.map (.aPush v)) = some s ∧ absArr s v = absArr st v ++ ps := by
  have hval1 : (Micro.aReserve v n).valid = true := by simp [Micro.valid, hv]
  have hr : ∃ s1, exec' st (.aReserve v n) = some s1 := by
    simp only [exec', ha, Bool.not_true, Bool.false_eq_true, if_false]
    by_cases hc : (decide (n > (st.arrs v).cap) || (st.arrs v).store.isNone && decide (n > 0)) = true
    · rw [if_pos hc]; exact ⟨_, rfl⟩
    · rw [if_neg hc]; exact ⟨_, rfl⟩
  obtain ⟨s1, hs1⟩ := hr
  have he1 : exec st (.aReserve v n) = some s1 := by unfold exec; rw [if_pos hval1]; exact hs1
  obtain ⟨i1, _⟩ := exec_ok h _ he1
  obtain ⟨habs, hsize, _, hcap, hstore, _⟩ := aReserve_abs h v n hs1
  obtain ⟨s, hs, hab⟩ := push_all v hv (absArr st v) srcs ps s1 i1 hlen
    (fun hne => hstore (by
      have : 0 < srcs.length := List.length_pos_iff.mpr hne
      omega))
    (by rw [hsize]; omega) (by rw [habs]; exact List.prefix_refl _) hsrc
  exact ⟨s, by simp [execAll, he1, hs], by rw [hab, habs]⟩

end Nstd.Life

namespace Nstd.Life

theorem stepRes_ok {st s : State} {op : Op} {ms : List Micro} (hc : compile st op = some ms)
    (he : execAll st ms = some s) : stepRes st op = .ok s := by
  simp [stepRes, hc, he]

theorem alive_of_abs {st : State} (h : SInv st) {v i : Nat} {x : Option Nat} (hx : (absArr st v)[i]? = some x) :
    (st.arrs v).alive = true := by
  cases ha : (st.arrs v).alive with
  | true => rfl
  | false =>
    have := h.dead_arr v ha
    simp [absArr, this] at hx

theorem size_of_abs {st : State} (h : SInv st) {v i : Nat} {x : Option Nat} (hx : (absArr st v)[i]? = some x) :
    i < (st.arrs v).size := by
  rw [← absArr_length st v h]; exact (List.getElem?_eq_some_iff.mp hx).1

/-- `a.append(x)` -/
theorem aAppend_abs {st : State} (h : SInv st) (v x : Nat) (hv : v ≤ 1) (ha : (st.arrs v).alive = true) :
    ∃ s, stepRes st (.aAppend v x) = .ok s ∧ absArr s v = absArr st v ++ [some x] := by
  obtain ⟨s, hs, hab⟩ := reserve_pushes h v ((st.arrs v).size + 1) hv ha [.ext x] [some x] rfl (by simp)
    (fun st1 _ _ k r hk => by
      cases k with
      | zero => simp only [List.getElem?_cons_zero, Option.some.injEq] at hk; subst hk; simp [ext_src_ok]
      | succ k => simp at hk)
  exact ⟨s, stepRes_ok (by simp [compile, guard', hv]) hs, hab⟩

/-- `a.append(a[i])` -/
theorem aAppendRef_abs {st : State} (h : SInv st) (v i : Nat) (x : Option Nat) (hv : v ≤ 1)
    (hx : (absArr st v)[i]? = some x) :
    ∃ s, stepRes st (.aAppendRef v i) = .ok s ∧ absArr s v = absArr st v ++ [x] := by
  obtain ⟨s, hs, hab⟩ := reserve_pushes h v ((st.arrs v).size + 1) hv (alive_of_abs h hx) [.elem v i] [x] rfl (by simp)
    (fun st1 i1 hp k r hk => by
      cases k with
      | zero =>
        simp only [List.getElem?_cons_zero, Option.some.injEq] at hk; subst hk
        have := elem_src_ok v i _ x hx st1 i1 hp
        simp [this]
      | succ k => simp at hk)
  exact ⟨s, stepRes_ok (by simp [compile, guard', hv, size_of_abs h hx]) hs, hab⟩

/-- `a.resize(n, x)` growing -/
theorem aResize_abs {st : State} (h : SInv st) (v n x : Nat) (hv : v ≤ 1) (ha : (st.arrs v).alive = true)
    (hn : (st.arrs v).size ≤ n) :
    ∃ s, stepRes st (.aResize v n x) = .ok s ∧ absArr s v = absArr st v ++ List.replicate (n - (st.arrs v).size) (some x) := by
  obtain ⟨s, hs, hab⟩ := reserve_pushes h v n hv ha (List.replicate (n - (st.arrs v).size) (.ext x))
    (List.replicate (n - (st.arrs v).size) (some x)) (by simp) (by simp; omega)
    (fun st1 _ _ k r hk => by
      rw [List.getElem?_replicate] at hk ⊢
      by_cases hkk : k < n - (st.arrs v).size
      · simp only [hkk, if_true, Option.some.injEq] at hk ⊢; subst hk; simp [ext_src_ok]
      · simp [hkk] at hk)
  refine ⟨s, stepRes_ok (ms := .aReserve v n :: List.replicate (n - (st.arrs v).size) (.aPush v (.ext x))) ?_ (by simpa using hs), hab⟩
  have : ¬ n < (st.arrs v).size := by omega
  simp [compile, guard', hv, this]

/-- `a.resize(n, a[i])` growing -/
theorem aResizeRef_abs {st : State} (h : SInv st) (v n i : Nat) (x : Option Nat) (hv : v ≤ 1)
    (hx : (absArr st v)[i]? = some x) (hn : (st.arrs v).size ≤ n) :
    ∃ s, stepRes st (.aResizeRef v n i) = .ok s ∧ absArr s v = absArr st v ++ List.replicate (n - (st.arrs v).size) x := by
  obtain ⟨s, hs, hab⟩ := reserve_pushes h v n hv (alive_of_abs h hx) (List.replicate (n - (st.arrs v).size) (.elem v i))
    (List.replicate (n - (st.arrs v).size) x) (by simp) (by simp; omega)
    (fun st1 i1 hp k r hk => by
      rw [List.getElem?_replicate] at hk ⊢
      by_cases hkk : k < n - (st.arrs v).size
      · simp only [hkk, if_true, Option.some.injEq] at hk ⊢; subst hk
        have := elem_src_ok v i _ x hx st1 i1 hp
        simp [this]
      · simp [hkk] at hk)
  refine ⟨s, stepRes_ok (ms := .aReserve v n :: List.replicate (n - (st.arrs v).size) (.aPush v (.elem v i))) ?_ (by simpa using hs), hab⟩
  have : ¬ n < (st.arrs v).size := by omega
  simp [compile, guard', hv, this, size_of_abs h hx]

end Nstd.Life

namespace Nstd.Life

/-- reserve, then copy-construct n elements of the array itself (indices g 0 .. g (n-1), all inside the old size) at the end -/
theorem reserve_push_own {st : State} (h : SInv st) (v n m : Nat) (g : Nat → Nat) (hv : v ≤ 1) (ha : (st.arrs v).alive = true)
    (hm : (st.arrs v).size + n ≤ m) (hg : ∀ k, k < n → g k < (st.arrs v).size) :
    ∃ s, execAll st (.aReserve v m :: (List.range n).map (fun j => .aPush v (.elem v (g j)))) = some s ∧
      absArr s v = absArr st v ++ (List.range n).map (fun j => ((absArr st v)[g j]?).join) := by
  have := reserve_pushes h v m hv ha ((List.range n).map (fun j => SrcRef.elem v (g j)))
    ((List.range n).map (fun j => ((absArr st v)[g j]?).join)) (by simp) (by simpa using hm)
    (fun st1 i1 hp k r hk => by
      simp only [List.getElem?_map] at hk ⊢
      by_cases hkk : k < n
      · rw [List.getElem?_range hkk] at hk ⊢
        simp only [Option.map_some, Option.some.injEq] at hk ⊢
        subst hk
        have hlt : g k < (absArr st v).length := by rw [absArr_length st v h]; exact hg k hkk
        have hx : (absArr st v)[g k]? = some ((absArr st v)[g k]) := List.getElem?_eq_getElem hlt
        have := elem_src_ok v (g k) _ _ hx st1 i1 hp
        simp [this, hx]
      · have : (List.range n)[k]? = none := by simp; omega
        simp [this] at hk)
  simpa [List.map_map, Function.comp_def] using this

/-- `a.append(&a[i], n)` -/
theorem aAppendPtr_abs {st : State} (h : SInv st) (v i n : Nat) (hv : v ≤ 1) (ha : (st.arrs v).alive = true)
    (hin : i + n ≤ (st.arrs v).size) :
    ∃ s, stepRes st (.aAppendPtr v i n) = .ok s ∧
      absArr s v = absArr st v ++ (List.range n).map (fun j => ((absArr st v)[i + j]?).join) := by
  obtain ⟨s, hs, hab⟩ := reserve_push_own h v n ((st.arrs v).size + n) (fun j => i + j) hv ha (Nat.le_refl _)
    (fun k hk => by omega)
  exact ⟨s, stepRes_ok (by simp [compile, guard', hv, hin]) hs, hab⟩

/-- `a.append(a)` -/
theorem aAppendSelf_abs {st : State} (h : SInv st) (v : Nat) (hv : v ≤ 1) (ha : (st.arrs v).alive = true) :
    ∃ s, stepRes st (.aAppendArr v v) = .ok s ∧
      absArr s v = absArr st v ++ (List.range (st.arrs v).size).map (fun j => ((absArr st v)[j]?).join) := by
  obtain ⟨s, hs, hab⟩ := reserve_push_own h v (st.arrs v).size ((st.arrs v).size + (st.arrs v).size) (fun j => j) hv ha
    (Nat.le_refl _) (fun k hk => hk)
  exact ⟨s, stepRes_ok (by simp [compile, guard', hv]) hs, hab⟩

/-- the list of all elements, read index by index, is the list itself -/
theorem range_get_self {α : Type} (l : List (Option α)) : (List.range l.length).map (fun j => (l[j]?).join) = l := by
  apply List.ext_getElem?
  intro k
  simp only [List.getElem?_map]
  by_cases hk : k < l.length
  · rw [List.getElem?_range hk]; simp [List.getElem?_eq_getElem hk]
  · have h1 : (List.range l.length)[k]? = none := by simp; omega
    have h2 : l[k]? = none := by simp; omega
    simp [h1, h2]

end Nstd.Life

namespace Nstd.Life

-- List: insert-or-append of one element at the abstract level ---------------------------------------------

theorem execAll_append (st : State) (a b : List Micro) :
    execAll st (a ++ b) = (execAll st a).bind fun s => execAll s b := by
  induction a generalizing st with
  | nil => simp [execAll]
  | cons m rest ih =>
    simp only [List.cons_append, execAll]
    cases exec st m with
    | none => simp
    | some s => simp [ih]

theorem absNode_L (st : State) (c : Var) (hk : c.k = .L) :
    absNode st c = (st.nodes c).items.map fun it => (none, st.mem (it.loc 1)) := by
  simp [absNode, hk, Kind.hasKey, valOf]

theorem map_insertAt {α β : Type} (f : α → β) (l : List α) (p : Nat) (x : α) :
    (insertAt l p x).map f = insertAt (l.map f) p (f x) := by
  simp [insertAt, List.map_take, List.map_drop]

/-- `l.insert(position p, src)` on a List variable: never faults (position and source valid) and inserts the payload -/
theorem putL_abs {st : State} (h : SInv st) (c : Var) (hk : c.k = .L) (hv : c.valid = true) (ha : (st.nodes c).alive = true)
    (p : Nat) (hp : p ≤ (st.nodes c).items.length) (src : SrcRef) (x : Option Nat)
    (hsrc : (resolve st src).isSome = true ∧ src.payload st = x) :
    ∃ s, exec st (.put c (some p) none (some src)) = some s ∧ absNode s c = insertAt (absNode st c) p (none, x) ∧
      (s.nodes c).alive = true := by
  obtain ⟨hres, hpay⟩ := hsrc
  cases hr : resolve st src with
  | none => rw [hr] at hres; cases hres
  | some lp =>
    obtain ⟨l, pl⟩ := lp
    have hpl : pl = x := by
      unfold resolve at hr
      cases hl : src.loc st with
      | none => simp [hl] at hr
      | some l' => simp only [hl, Option.some.injEq, Prod.mk.injEq] at hr; rw [← hr.2]; exact hpay
    subst hpl
    have hlive := resolve_live h src l pl hr
    -- the state
    have hexec : exec st (.put c (some p) none (some src)) = some (insertNew st c p [(1, l, pl)]) := by
      unfold exec
      have : (Micro.put c (some p) none (some src)).valid = true := hv
      rw [if_pos this]
      have hnp : ¬ p > (st.nodes c).items.length := by omega
      simp [exec', ha, resolveOpt, hr, fieldSrcs, hk, Kind.fields, putResolved, Kind.hasKey, hnp]
    refine ⟨_, hexec, ?_⟩
    -- effect on the abstract value: go through the three steps
    unfold insertNew
    have hnh : c.k.isHash = false := by rw [hk]; rfl
    simp only [hnh, Bool.false_and, Bool.false_eq_true, if_false]
    -- step 2
    obtain ⟨st2, hst2, h2, hitems, hmem, hfree, ha2⟩ : ∃ st2, st2 = (if (st.nodes c).free.isEmpty then allocBlock st c else st) ∧
        SInv st2 ∧ (st2.nodes c).items = (st.nodes c).items ∧ st2.mem = st.mem ∧ (st2.nodes c).free ≠ [] ∧
        (st2.nodes c).alive = true := by
      refine ⟨_, rfl, ?_⟩
      by_cases hc : (st.nodes c).free.isEmpty = true
      · rw [if_pos hc]
        have hfr : (st.nodes c).free = [] := List.isEmpty_iff.mp hc
        refine ⟨(allocBlock_ok h c hfr ha hv).1, by simp [allocBlock], rfl, ?_, by simp [allocBlock, ha]⟩
        simp only [allocBlock, setNode_get]
        intro he
        exact newSlots_ne_nil _ _ _ (st.per.pos c.k) he
      · rw [if_neg hc]
        exact ⟨h, rfl, rfl, fun he => by rw [he] at hc; exact hc rfl, ha⟩
    rw [← hst2]
    cases hfr : (st2.nodes c).free with
    | nil => exact absurd hfr hfree
    | cons it rest =>
      simp only
      have hitfree : it ∈ (st2.nodes c).free := by rw [hfr]; exact List.mem_cons_self
      have hnot : ∀ it', it' ∈ (st2.nodes c).items → it' ≠ it := by
        intro it' hi' he
        subst he
        exact (List.nodup_append.mp (h2.slots_nodup c)).2.2 it' hi' it' hitfree rfl
      refine ⟨?_, by simp [useSlot, ha2]⟩
      rw [absNode_L _ _ hk, absNode_L _ _ hk]
      simp only [useSlot, setNode_get, setNode_mem, List.map_cons, List.map_nil, State.ctorList, ctor_mem]
      rw [map_insertAt, hitems]
      congr 1
      · apply List.map_congr_left
        intro it' hi'
        have hne : it'.loc 1 ≠ it.loc 1 := fun he => hnot it' (hitems ▸ hi') (loc_inj he).1
        simp only [upd, hne, if_false, hmem]
      · simp [upd]

end Nstd.Life

namespace Nstd.Life

theorem itemL_src {st : State} (c : Var) (hk : c.k = .L) (j : Nat) (e : Option Nat × Option Nat)
    (he : (absNode st c)[j]? = some e) :
    e.1 = none ∧ (resolve st (.item c j 1)).isSome = true ∧ SrcRef.payload st (.item c j 1) = e.2 := by
  rw [absNode_L _ _ hk] at he
  simp only [List.getElem?_map, Option.map_eq_some_iff] at he
  obtain ⟨it, hit, rfl⟩ := he
  have h1 : 1 ∈ c.k.fields := by rw [hk]; simp [Kind.fields]
  simp [resolve, SrcRef.loc, SrcRef.payload, h1, hit, Item.loc]

theorem insertAt_mid {α : Type} (A B C : List α) (x : α) : insertAt (A ++ B ++ C) (A.length + B.length) x = A ++ (B ++ [x]) ++ C := by
  unfold insertAt
  have h1 : (A ++ B ++ C).take (A.length + B.length) = A ++ B := by
    rw [← List.length_append]; exact List.take_left' rfl
  have h2 : (A ++ B ++ C).drop (A.length + B.length) = C := by
    rw [← List.length_append]; exact List.drop_left' rfl
  rw [h1, h2]; simp

/-- `l.insert(position p, l)` on the list itself: the loop over the items present at the call, skipping its own copies -/
theorem selfInsert_loop {st : State} (h : SInv st) (v : Nat) (hv : v ≤ 1) (ha : (st.nodes ⟨.L, v⟩).alive = true)
    (p : Nat) (hp : p ≤ (absNode st ⟨.L, v⟩).length) :
    ∀ t, t ≤ (absNode st ⟨.L, v⟩).length →
    ∃ s, execAll st ((List.range t).map fun j =>
        Micro.put ⟨.L, v⟩ (some (p + j)) none (some (.item ⟨.L, v⟩ (if j < p then j else j + j) 1))) = some s ∧
      SInv s ∧ (s.nodes ⟨.L, v⟩).alive = true ∧
      absNode s ⟨.L, v⟩ = (absNode st ⟨.L, v⟩).take p ++ (absNode st ⟨.L, v⟩).take t ++ (absNode st ⟨.L, v⟩).drop p := by
  intro t
  induction t with
  | zero => intro _; exact ⟨st, rfl, h, ha, by simp⟩
  | succ t ih =>
    intro ht
    obtain ⟨s, hs, i1, ha1, hab⟩ := ih (by omega)
    let l := absNode st ⟨.L, v⟩
    have hl : absNode st ⟨.L, v⟩ = l := rfl
    rw [hl] at hab hp ht ⊢
    have htl : t < l.length := by omega
    have hlenA : (l.take p).length = p := by simp; omega
    have hlenB : (l.take t).length = t := by simp; omega
    -- the source of step t designates l[t]
    have hsrcidx : (absNode s ⟨.L, v⟩)[if t < p then t else t + t]? = some l[t] := by
      rw [hab]
      by_cases htp : t < p
      · simp only [htp, if_true]
        rw [List.append_assoc, List.getElem?_append_left (by omega)]
        rw [List.getElem?_take_of_lt htp]; exact List.getElem?_eq_getElem htl
      · simp only [htp, if_false]
        rw [List.getElem?_append_right (by simp; omega)]
        simp only [List.length_append, hlenA, hlenB]
        rw [List.getElem?_drop]
        have : p + (t + t - (p + t)) = t := by omega
        rw [this]; exact List.getElem?_eq_getElem htl
    obtain ⟨hfst, hres, hpay⟩ := itemL_src (st := s) ⟨.L, v⟩ rfl _ _ hsrcidx
    have hlen : (s.nodes ⟨.L, v⟩).items.length = (absNode s ⟨.L, v⟩).length := by simp [absNode]
    obtain ⟨s', he', hab', ha'⟩ := putL_abs i1 ⟨.L, v⟩ rfl (by simp [Var.valid, hv]) ha1 (p + t)
      (by rw [hlen, hab]; simp only [List.length_append, hlenA, hlenB, List.length_drop]; omega)
      (.item ⟨.L, v⟩ (if t < p then t else t + t) 1) (l[t]).2 ⟨hres, hpay⟩
    refine ⟨s', ?_, (exec_ok i1 _ he').1, ha', ?_⟩
    · rw [List.range_succ, List.map_append, execAll_append, hs]
      simp [execAll, he']
    · rw [hab', hab]
      have hx : ((none : Option Nat), (l[t]).2) = l[t] := by
        rw [← hfst]
      rw [hx]
      have := insertAt_mid (l.take p) (l.take t) (l.drop p) l[t]
      rw [hlenA, hlenB] at this
      rw [this]
      congr 2
      rw [List.take_succ]
      simp [List.getElem?_eq_getElem htl]

end Nstd.Life

namespace Nstd.Life

/-- `l.append(l)` (pos = none), `l.prepend(l)` (pos = some 0), `l.insert(it_p, l)`: never faults and yields
    the elements before p, a copy of the whole original list, the elements from p on -/
theorem lInsertSelf_abs {st : State} (h : SInv st) (v : Nat) (hv : v ≤ 1) (ha : (st.nodes ⟨.L, v⟩).alive = true)
    (pos : Option Nat) (hp : pos.getD (absNode st ⟨.L, v⟩).length ≤ (absNode st ⟨.L, v⟩).length) :
    ∃ s, stepRes st (.lInsertList v pos v) = .ok s ∧
      absNode s ⟨.L, v⟩ = (absNode st ⟨.L, v⟩).take (pos.getD (absNode st ⟨.L, v⟩).length) ++ absNode st ⟨.L, v⟩ ++
        (absNode st ⟨.L, v⟩).drop (pos.getD (absNode st ⟨.L, v⟩).length) := by
  have hlen : len st ⟨.L, v⟩ = (absNode st ⟨.L, v⟩).length := by simp [len, absNode]
  obtain ⟨s, hs, _, _, hab⟩ := selfInsert_loop h v hv ha (pos.getD (absNode st ⟨.L, v⟩).length) hp
    (absNode st ⟨.L, v⟩).length (Nat.le_refl _)
  refine ⟨s, stepRes_ok ?_ hs, by simpa using hab⟩
  simp only [compile, hlen, guard', hv, hp, decide_true, Bool.and_self, if_true]

end Nstd.Life
