import Nstd.Life.LemmasOps
/-
  E4: the model never faults in a reachable state.  Part 1: when a micro step is executable
  (`…_def`) and what it leaves in place for the next step of a compiled list.
-/
namespace Nstd.Life.Ops
open Nstd.Life

theorem exec_of_valid {s : State} {m : Micro} (hv : m.valid = true) : exec s m = exec' s m := by
  unfold exec; rw [if_pos hv]

theorem findField_lt (st : State) (f p : Nat) : ∀ (items : List Item) (j : Nat),
    findField st f p items = some j → j < items.length
  | [], j, h => by simp [findField] at h
  | it :: rest, j, h => by
    simp only [findField] at h
    by_cases hc : st.mem (it.loc f) = some p
    · simp only [hc, if_true, Option.some.injEq] at h
      subst h; simp
    · simp only [hc, if_false, Option.map_eq_some_iff] at h
      obtain ⟨j', hj', rfl⟩ := h
      have := findField_lt st f p rest j' hj'
      simp only [List.length_cons]; omega

theorem hasKey_iff (k : Kind) : k.hasKey = true ↔ 0 ∈ k.fields := by
  cases k <;> simp [Kind.hasKey, Kind.fields]

theorem one_mem_fields (k : Kind) : 1 ∈ k.fields ↔ k ≠ .S := by
  cases k <;> simp [Kind.fields]

-- sources ---------------------------------------------------------------------------------------------------

def SrcOK (s : State) (r : SrcRef) : Prop := (resolve s r).isSome = true

theorem srcOK_ext (s : State) (x : Nat) : SrcOK s (.ext x) := by simp [SrcOK, resolve, SrcRef.loc]
theorem srcOK_inplace (s : State) (x : Nat) : SrcOK s (.inplace x) := by simp [SrcOK, resolve, SrcRef.loc]

theorem srcOK_item {s : State} {w : Var} {j f : Nat} (hf : f ∈ w.k.fields) (hj : j < (s.nodes w).items.length) :
    SrcOK s (.item w j f) := by
  simp [SrcOK, resolve, SrcRef.loc, hf, List.getElem?_eq_getElem hj]

theorem srcOK_elem {s : State} {a j x : Nat} (hs : (s.arrs a).store = some x) (hj : j < (s.arrs a).size) :
    SrcOK s (.elem a j) := by
  simp [SrcOK, resolve, SrcRef.loc, hs, hj]

theorem srcOK_elem' {s : State} (h : SInv s) {a j : Nat} (hj : j < (s.arrs a).size) : SrcOK s (.elem a j) := by
  cases hs : (s.arrs a).store with
  | none => rw [h.arr_none a hs] at hj; omega
  | some x => exact srcOK_elem hs hj

def NotInplace : SrcRef → Prop
  | .inplace _ => False
  | _ => True

theorem resolve_loc_some {s : State} {r : SrcRef} (hn : NotInplace r) {l : Option Loc} {p : Option Nat}
    (hr : resolve s r = some (l, p)) : ∃ l', l = some l' := by
  cases r with
  | inplace q => cases hn
  | ext q =>
    simp only [resolve, SrcRef.loc, Option.some.injEq, Prod.mk.injEq] at hr
    exact ⟨_, hr.1.symm⟩
  | item c j f =>
    simp only [resolve, SrcRef.loc] at hr
    by_cases hf : f ∈ c.k.fields
    · simp only [hf, if_true] at hr
      cases hj : (s.nodes c).items[j]? with
      | none => simp [hj] at hr
      | some it =>
        simp only [hj, Option.map_some, Option.some.injEq, Prod.mk.injEq] at hr
        exact ⟨_, hr.1.symm⟩
    · simp [hf] at hr
  | elem a j =>
    simp only [resolve, SrcRef.loc] at hr
    cases hs : (s.arrs a).store with
    | none => simp [hs] at hr
    | some x =>
      simp only [hs] at hr
      by_cases hj : j < (s.arrs a).size
      · simp only [hj, if_true, Option.some.injEq, Prod.mk.injEq] at hr
        exact ⟨_, hr.1.symm⟩
      · simp [hj] at hr

/-- a resolvable operand yields a payload -/
theorem srcOK_payload {s : State} (h : SInv s) {r : SrcRef} (hr : SrcOK s r) :
    ∃ l p, resolve s r = some (l, some p) ∧ r.payload s = some p := by
  unfold SrcOK at hr
  cases hx : resolve s r with
  | none => rw [hx] at hr; cases hr
  | some lp =>
    obtain ⟨l, p⟩ := lp
    have hp := (resolve_live h r l p hx).1
    cases p with
    | none => cases hp
    | some q =>
      refine ⟨l, q, rfl, ?_⟩
      unfold resolve at hx
      cases hl : r.loc s with
      | none => simp [hl] at hx
      | some l' =>
        simp only [hl, Option.some.injEq, Prod.mk.injEq] at hx
        exact hx.2

-- put -------------------------------------------------------------------------------------------------------

theorem mapM_def (kr vr : Option (Option Loc × Option Nat)) : ∀ fs : List Nat,
    (∀ f, f ∈ fs → (if f = 0 then kr else vr) ≠ none) →
    ∃ srcs, fs.mapM (fun f => match (if f = 0 then kr else vr) with
      | some (l, p) => some (f, l, p)
      | none => none) = some srcs
  | [], _ => ⟨[], rfl⟩
  | f :: rest, h => by
    obtain ⟨ys, hys⟩ := mapM_def kr vr rest (fun f' hf' => h f' (by simp [hf']))
    have hf := h f (by simp)
    cases hx : (if f = 0 then kr else vr) with
    | none => exact absurd hx hf
    | some lp =>
      obtain ⟨l, p⟩ := lp
      refine ⟨(f, l, p) :: ys, ?_⟩
      simp only [List.mapM_cons, hx, hys, Option.pure_def, Option.bind_eq_bind, Option.bind_some]

theorem putResolved_def {s : State} (c : Var) (p : Nat) (kr vr : Option (Option Loc × Option Nat))
    (srcs : List (Nat × Option Loc × Option Nat))
    (hkey : c.k.hasKey = true → ∃ l kp, kr = some (l, some kp))
    (hval : c.k = .M ∨ c.k = .H → ∃ vl vp, vr = some (some vl, vp)) :
    ∃ s', putResolved s c p kr vr srcs = some s' := by
  unfold putResolved
  by_cases hk : c.k.hasKey = true
  · obtain ⟨l, kp, rfl⟩ := hkey hk
    simp only [hk, if_true]
    by_cases hU : c.k = .U
    · simp only [hU, if_true]; exact ⟨_, rfl⟩
    · simp only [hU, if_false]
      cases hfind : findField s 0 kp (s.nodes c).items with
      | none => exact ⟨_, rfl⟩
      | some j =>
        simp only
        by_cases hMH : c.k = .M ∨ c.k = .H
        · simp only [hMH, if_true]
          have hj := findField_lt s 0 kp _ j hfind
          rw [List.getElem?_eq_getElem hj]
          obtain ⟨vl, vp, rfl⟩ := hval hMH
          exact ⟨_, rfl⟩
        · simp only [hMH, if_false]; exact ⟨_, rfl⟩
  · simp only [hk, Bool.false_eq_true, if_false]; exact ⟨_, rfl⟩

theorem resolveOpt_def {s : State} (k : Option SrcRef) (hk : ∀ r, k = some r → SrcOK s r) :
    ∃ kr, resolveOpt s k = some kr ∧ (k = none → kr = none) ∧
      (∀ r, k = some r → ∃ l p, kr = some (l, p) ∧ resolve s r = some (l, p)) := by
  cases k with
  | none =>
    refine ⟨none, rfl, fun _ => rfl, ?_⟩
    intro r hr; cases hr
  | some r =>
    have := hk r rfl
    unfold SrcOK at this
    cases hx : resolve s r with
    | none => rw [hx] at this; cases this
    | some lp =>
      obtain ⟨l, p⟩ := lp
      refine ⟨some (l, p), by simp [resolveOpt, hx], ?_, ?_⟩
      · intro h; cases h
      · intro r' hr'; cases hr'; exact ⟨l, p, rfl, hx⟩

/-- when `put` is executable -/
theorem put_def {s : State} (h : SInv s) (c : Var) (pos : Option Nat) (k v : Option SrcRef)
    (hv : c.valid = true) (ha : (s.nodes c).alive = true)
    (hpos : pos.getD (s.nodes c).items.length ≤ (s.nodes c).items.length)
    (hk : ∀ r, k = some r → SrcOK s r) (hk0 : 0 ∈ c.k.fields → k ≠ none)
    (hvv : ∀ r, v = some r → SrcOK s r) (hv1 : 1 ∈ c.k.fields → v ≠ none)
    (hMH : c.k = .M ∨ c.k = .H → ∀ r, v = some r → NotInplace r) :
    ∃ s', exec s (.put c pos k v) = some s' := by
  rw [exec_of_valid (show (Micro.put c pos k v).valid = true from hv)]
  obtain ⟨kr, hkr, hkn, hks⟩ := resolveOpt_def k hk
  obtain ⟨vr, hvr, hvn, hvs⟩ := resolveOpt_def v hvv
  have hsr : ∃ srcs, fieldSrcs c.k kr vr = some srcs := by
    apply mapM_def
    intro f hf
    by_cases hf0 : f = 0
    · subst hf0
      simp only [if_true]
      cases k with
      | none => exact absurd rfl (hk0 hf)
      | some r => obtain ⟨l, p, rfl, _⟩ := hks r rfl; simp
    · simp only [hf0, if_false]
      have hf1 : f = 1 := by
        have := fields_lt c.k f hf; omega
      subst hf1
      cases v with
      | none => exact absurd rfl (hv1 hf)
      | some r => obtain ⟨l, p, rfl, _⟩ := hvs r rfl; simp
  obtain ⟨srcs, hsr⟩ := hsr
  have hnp : ¬ pos.getD (s.nodes c).items.length > (s.nodes c).items.length := by omega
  simp only [exec', ha, Bool.not_true, Bool.false_eq_true, if_false, hkr, hvr, hsr, hnp]
  apply putResolved_def
  · intro hkey
    have h0 := (hasKey_iff c.k).mp hkey
    cases k with
    | none => exact absurd rfl (hk0 h0)
    | some r =>
      obtain ⟨l, p, rfl, hr⟩ := hks r rfl
      have hp := (resolve_live h r l p hr).1
      cases p with
      | none => cases hp
      | some q => exact ⟨l, q, rfl⟩
  · intro hmh
    have h1 : 1 ∈ c.k.fields := by
      rcases hmh with e | e <;> rw [e] <;> simp [Kind.fields]
    cases v with
    | none => exact absurd rfl (hv1 h1)
    | some r =>
      obtain ⟨l, p, rfl, hr⟩ := hvs r rfl
      obtain ⟨l', rfl⟩ := resolve_loc_some (hMH hmh r rfl) hr
      exact ⟨l', p, rfl⟩

theorem insertNew_items (s : State) (c : Var) (pos : Nat) (srcs : List (Nat × Option Loc × Option Nat)) :
    ∃ it, ((insertNew s c pos srcs).nodes c).items = insertAt (s.nodes c).items pos it := by
  obtain ⟨st1, hst1, i1⟩ : ∃ st1, st1 = (if c.k.isHash && (s.nodes c).data.isNone then allocData s c else s) ∧
      (st1.nodes c).items = (s.nodes c).items := by
    refine ⟨_, rfl, ?_⟩
    by_cases hc : (c.k.isHash && (s.nodes c).data.isNone) = true
    · rw [if_pos hc]; simp only [allocData, setNode_get]
    · rw [if_neg hc]
  obtain ⟨st2, hst2, i2, f2⟩ : ∃ st2, st2 = (if (st1.nodes c).free.isEmpty then allocBlock st1 c else st1) ∧
      (st2.nodes c).items = (st1.nodes c).items ∧ (st2.nodes c).free ≠ [] := by
    refine ⟨_, rfl, ?_⟩
    by_cases hc : (st1.nodes c).free.isEmpty = true
    · rw [if_pos hc]
      refine ⟨by simp only [allocBlock, setNode_get], ?_⟩
      simp only [allocBlock, setNode_get]
      intro he
      exact newSlots_ne_nil _ _ _ (st1.per.pos c.k) he
    · rw [if_neg hc]
      exact ⟨rfl, fun he => by rw [he] at hc; exact hc rfl⟩
  have heq : insertNew s c pos srcs =
      (match (st2.nodes c).free with | it :: rest => useSlot st2 c pos it rest srcs | [] => st2) := by
    subst hst2 hst1; rfl
  rw [heq]
  cases hfr : (st2.nodes c).free with
  | nil => exact absurd hfr f2
  | cons it rest =>
    refine ⟨it, ?_⟩
    simp only [useSlot, setNode_get]
    rw [i2, i1]

theorem insertAt_length {α : Type} (l : List α) (p : Nat) (x : α) : (insertAt l p x).length = l.length + 1 := by
  have := (insertAt_perm l p x).length_eq
  simpa using this

theorem putResolved_cases' {st st' : State} (c : Var) (p : Nat) (kr vr : Option (Option Loc × Option Nat))
    (srcs : List (Nat × Option Loc × Option Nat)) (he : putResolved st c p kr vr srcs = some st') :
    (∃ q, st' = insertNew st c q srcs) ∨
    (c.k.hasKey = true ∧ ((∃ (it : Item) (vl : Loc) (vp : Option Nat), st' = st.assign (it.loc 1) vl vp) ∨ st' = st)) := by
  by_cases hk : c.k.hasKey = true
  · rcases Stable.putResolved_cases c p kr vr srcs he with h | ⟨it, vl, vp, _, _, h⟩ | h
    · exact Or.inl h
    · exact Or.inr ⟨hk, Or.inl ⟨it, vl, vp, h⟩⟩
    · exact Or.inr ⟨hk, Or.inr h⟩
  · unfold putResolved at he
    simp only [hk, Bool.false_eq_true, if_false, Option.some.injEq] at he
    exact Or.inl ⟨_, he.symm⟩

/-- what `put` leaves in place: the target container only grows (by one for the containers without key),
    everything else is untouched -/
theorem put_post {s s' : State} (c : Var) (pos : Option Nat) (k v : Option SrcRef)
    (he : exec s (.put c pos k v) = some s') :
    (s.nodes c).items.length ≤ (s'.nodes c).items.length ∧
    (c.k.hasKey = false → (s'.nodes c).items.length = (s.nodes c).items.length + 1) ∧
    (∀ c', c' ≠ c → s'.nodes c' = s.nodes c') ∧ s'.arrs = s.arrs ∧ (s'.nodes c).alive = (s.nodes c).alive := by
  have he' := Stable.exec_exec' he
  obtain ⟨evs, sm⟩ := Stable.exec_sum _ he'
  have hal := (exec_alive _ he').1 c
  refine ⟨?_, ?_, fun c' hc' => sm.fnode c' (by simp [Micro.nodeTargets, hc']), ?_, hal⟩
  all_goals
    simp only [exec'] at he'
    by_cases ha : (s.nodes c).alive = true
    · simp only [ha, Bool.not_true, Bool.false_eq_true, if_false] at he'
      cases hkr : resolveOpt s k with
      | none => simp [hkr] at he'
      | some kr =>
        simp only [hkr] at he'
        cases hvr : resolveOpt s v with
        | none => simp [hvr] at he'
        | some vr =>
          simp only [hvr] at he'
          cases hsr : fieldSrcs c.k kr vr with
          | none => simp [hsr] at he'
          | some srcs =>
            simp only [hsr] at he'
            by_cases hpos : pos.getD (s.nodes c).items.length > (s.nodes c).items.length
            · simp [hpos] at he'
            · simp only [hpos, if_false] at he'
              rcases putResolved_cases' c _ kr vr srcs he' with ⟨q, rfl⟩ | ⟨hk, ⟨it, vl, vp, rfl⟩ | rfl⟩
              · obtain ⟨it, hit⟩ := insertNew_items s c q srcs
                first
                | (rw [hit, insertAt_length]; omega)
                | (intro _; rw [hit, insertAt_length])
                | (funext a; exact sm.farr a (by simp [Micro.arrTargets]))
              · first
                | exact Nat.le_refl _
                | (intro hk'; rw [hk] at hk'; cases hk')
                | rfl
              · first
                | exact Nat.le_refl _
                | (intro hk'; rw [hk] at hk'; cases hk')
                | rfl
    · simp [ha] at he'

-- the other node steps --------------------------------------------------------------------------------------

theorem assignVal_def {s : State} (c : Var) (j : Nat) (src : SrcRef) (hv : c.valid = true)
    (hf : 1 ∈ c.k.fields) (hj : j < (s.nodes c).items.length) (hs : SrcOK s src) (hn : NotInplace src) :
    ∃ s', exec s (.assignVal c j src) = some s' := by
  rw [exec_of_valid (show (Micro.assignVal c j src).valid = true from hv)]
  unfold SrcOK at hs
  cases hr : resolve s src with
  | none => rw [hr] at hs; cases hs
  | some lp =>
    obtain ⟨l, p⟩ := lp
    obtain ⟨l', rfl⟩ := resolve_loc_some hn hr
    simp [exec', hf, List.getElem?_eq_getElem hj, hr]

theorem remove_def {s : State} (c : Var) (j : Nat) (hv : c.valid = true) (hj : j < (s.nodes c).items.length) :
    ∃ s', exec s (.remove c j) = some s' := by
  rw [exec_of_valid (show (Micro.remove c j).valid = true from hv)]
  simp [exec', List.getElem?_eq_getElem hj]

theorem removeKey_def {s : State} (h : SInv s) (c : Var) (k : SrcRef) (hv : c.valid = true) (hs : SrcOK s k) :
    ∃ s', exec s (.removeKey c k) = some s' := by
  rw [exec_of_valid (show (Micro.removeKey c k).valid = true from hv)]
  obtain ⟨l, p, _, hp⟩ := srcOK_payload h hs
  simp only [exec', hp, Option.bind_eq_bind, Option.bind_some]
  cases hf : findField s 0 p (s.nodes c).items with
  | none => exact ⟨_, rfl⟩
  | some j =>
    simp only [List.getElem?_eq_getElem (findField_lt s 0 p _ j hf), Option.bind_some]
    exact ⟨_, rfl⟩

theorem removeVal_def {s : State} (h : SInv s) (c : Var) (k : SrcRef) (hv : c.valid = true) (hs : SrcOK s k) :
    ∃ s', exec s (.removeVal c k) = some s' := by
  rw [exec_of_valid (show (Micro.removeVal c k).valid = true from hv)]
  obtain ⟨l, p, _, hp⟩ := srcOK_payload h hs
  simp only [exec', hp, Option.bind_eq_bind, Option.bind_some]
  cases hf : findField s 1 p (s.nodes c).items with
  | none => exact ⟨_, rfl⟩
  | some j =>
    simp only [List.getElem?_eq_getElem (findField_lt s 1 p _ j hf), Option.bind_some]
    exact ⟨_, rfl⟩

theorem clear_def {s : State} (c : Var) (hv : c.valid = true) (ha : (s.nodes c).alive = true) :
    ∃ s', exec s (.clear c) = some s' := by
  rw [exec_of_valid (show (Micro.clear c).valid = true from hv)]
  simp [exec', ha]

theorem destroy_def {s : State} (c : Var) (hv : c.valid = true) (ha : (s.nodes c).alive = true) :
    ∃ s', exec s (.destroy c) = some s' := by
  rw [exec_of_valid (show (Micro.destroy c).valid = true from hv)]
  simp [exec', ha]

theorem create_def {s : State} (c : Var) (hv : c.valid = true) (ha : (s.nodes c).alive = false) :
    ∃ s', exec s (.create c) = some s' := by
  rw [exec_of_valid (show (Micro.create c).valid = true from hv)]
  simp [exec', ha]

theorem swap_def {s : State} (c d : Var) (hc : c.valid = true) (hd : d.valid = true)
    (hac : (s.nodes c).alive = true) (had : (s.nodes d).alive = true) (hk : c.k = d.k) :
    ∃ s', exec s (.swap c d) = some s' := by
  rw [exec_of_valid (show (Micro.swap c d).valid = true by simp [Micro.valid, hc, hd])]
  simp [exec', hac, had, hk]

-- the array steps -------------------------------------------------------------------------------------------

theorem aReserve_def {s : State} (a n : Nat) (hv : a ≤ 1) (ha : (s.arrs a).alive = true) :
    ∃ s', exec s (.aReserve a n) = some s' := by
  rw [exec_of_valid (show (Micro.aReserve a n).valid = true by simp [Micro.valid, hv])]
  simp only [exec', ha, Bool.not_true, Bool.false_eq_true, if_false]
  by_cases hc : (decide (n > (s.arrs a).cap) || (s.arrs a).store.isNone && decide (n > 0)) = true
  · rw [if_pos hc]; exact ⟨_, rfl⟩
  · rw [if_neg hc]; exact ⟨_, rfl⟩

theorem aPush_def {s : State} (a : Nat) (src : SrcRef) (hv : a ≤ 1) (hst : (s.arrs a).store.isSome = true)
    (hc : (s.arrs a).size < (s.arrs a).cap) (hs : SrcOK s src) : ∃ s', exec s (.aPush a src) = some s' := by
  rw [exec_of_valid (show (Micro.aPush a src).valid = true by simp [Micro.valid, hv])]
  unfold SrcOK at hs
  cases hx : (s.arrs a).store with
  | none => rw [hx] at hst; cases hst
  | some x =>
    cases hr : resolve s src with
    | none => rw [hr] at hs; cases hs
    | some lp =>
      have : ¬ (s.arrs a).size ≥ (s.arrs a).cap := by omega
      simp [exec', hx, hr, this]

theorem aTruncate_def {s : State} (a n : Nat) (hv : a ≤ 1) (ha : (s.arrs a).alive = true) :
    ∃ s', exec s (.aTruncate a n) = some s' := by
  rw [exec_of_valid (show (Micro.aTruncate a n).valid = true by simp [Micro.valid, hv])]
  simp only [exec', ha, Bool.not_true, Bool.false_eq_true, if_false]
  cases (s.arrs a).store with
  | none => exact ⟨_, rfl⟩
  | some x =>
    simp only
    by_cases hn : n < (s.arrs a).size
    · rw [if_pos hn]; exact ⟨_, rfl⟩
    · rw [if_neg hn]; exact ⟨_, rfl⟩

theorem aAssign_def {s : State} (h : SInv s) (a j : Nat) (src : SrcRef) (hv : a ≤ 1) (hj : j < (s.arrs a).size)
    (hs : SrcOK s src) (hn : NotInplace src) : ∃ s', exec s (.aAssign a j src) = some s' := by
  rw [exec_of_valid (show (Micro.aAssign a j src).valid = true by simp [Micro.valid, hv])]
  unfold SrcOK at hs
  cases hx : (s.arrs a).store with
  | none => rw [h.arr_none a hx] at hj; omega
  | some x =>
    cases hr : resolve s src with
    | none => rw [hr] at hs; cases hs
    | some lp =>
      obtain ⟨l, p⟩ := lp
      obtain ⟨l', rfl⟩ := resolve_loc_some hn hr
      have : ¬ j ≥ (s.arrs a).size := by omega
      simp [exec', hx, hr, this]

theorem aRemove_def {s : State} (h : SInv s) (a j : Nat) (hv : a ≤ 1) (hj : j < (s.arrs a).size) :
    ∃ s', exec s (.aRemove a j) = some s' := by
  rw [exec_of_valid (show (Micro.aRemove a j).valid = true by simp [Micro.valid, hv])]
  cases hx : (s.arrs a).store with
  | none => rw [h.arr_none a hx] at hj; omega
  | some x =>
    have : ¬ j ≥ (s.arrs a).size := by omega
    simp [exec', hx, this]

theorem aDestroy_def {s : State} (a : Nat) (hv : a ≤ 1) (ha : (s.arrs a).alive = true) :
    ∃ s', exec s (.aDestroy a) = some s' := by
  rw [exec_of_valid (show (Micro.aDestroy a).valid = true by simp [Micro.valid, hv])]
  simp [exec', ha]

theorem aCreate_def {s : State} (a n : Nat) (hv : a ≤ 1) (ha : (s.arrs a).alive = false) :
    ∃ s', exec s (.aCreate a n) = some s' := by
  rw [exec_of_valid (show (Micro.aCreate a n).valid = true by simp [Micro.valid, hv])]
  simp [exec', ha]

theorem aSwap_def {s : State} (a b : Nat) (ha : a ≤ 1) (hb : b ≤ 1)
    (haa : (s.arrs a).alive = true) (hab : (s.arrs b).alive = true) : ∃ s', exec s (.aSwap a b) = some s' := by
  rw [exec_of_valid (show (Micro.aSwap a b).valid = true by simp [Micro.valid, ha, hb])]
  simp [exec', haa, hab]

-- loops ----------------------------------------------------------------------------------------------------

/-- a list of steps is executable if an invariant indexed by the position makes each step executable -/
theorem loop_def (I : Nat → State → Prop) : ∀ (ms : List Micro) (k0 : Nat) (st : State), I k0 st →
    (∀ k m s, ms[k]? = some m → I (k0 + k) s → ∃ s', exec s m = some s' ∧ I (k0 + k + 1) s') →
    ∃ st', execAll st ms = some st' ∧ I (k0 + ms.length) st'
  | [], k0, st, h0, _ => ⟨st, rfl, by simpa using h0⟩
  | m :: rest, k0, st, h0, hstep => by
    obtain ⟨s1, e1, i1⟩ := hstep 0 m st (by simp) (by simpa using h0)
    obtain ⟨st', e2, i2⟩ := loop_def I rest (k0 + 1) s1 (by simpa using i1) (fun k m' s hk hi => by
      have := hstep (k + 1) m' s (by simpa using hk) (by rw [show k0 + (k + 1) = k0 + 1 + k by omega]; exact hi)
      rw [show k0 + (k + 1) + 1 = k0 + 1 + k + 1 by omega] at this; exact this)
    refine ⟨st', by simp only [execAll, e1]; exact e2, ?_⟩
    rw [show k0 + (m :: rest).length = k0 + 1 + rest.length by simp only [List.length_cons]; omega]
    exact i2

theorem range_map_get {f : Nat → Micro} {n k : Nat} {m : Micro} (h : ((List.range n).map f)[k]? = some m) :
    k < n ∧ m = f k := by
  simp only [List.getElem?_map, Option.map_eq_some_iff] at h
  obtain ⟨a, ha, rfl⟩ := h
  obtain ⟨hlt, hget⟩ := List.getElem?_eq_some_iff.mp ha
  simp only [List.length_range] at hlt
  simp only [List.getElem_range] at hget
  subst hget
  exact ⟨hlt, rfl⟩

theorem execAll_cons_def {st s1 : State} {m : Micro} {rest : List Micro} (h1 : exec st m = some s1)
    (h2 : ∃ st', execAll s1 rest = some st') : ∃ st', execAll st (m :: rest) = some st' := by
  obtain ⟨st', h2⟩ := h2
  exact ⟨st', by simp only [execAll, h1]; exact h2⟩

theorem execAll_one_def {st : State} {m : Micro} (h : ∃ s', exec st m = some s') :
    ∃ st', execAll st [m] = some st' := by
  obtain ⟨s', h⟩ := h
  exact ⟨s', by simp [execAll, h]⟩

/-- the common part of what a step leaves: invariant, alive flags of a plain step, frames -/
theorem step_post {s s' : State} (h : SInv s) {m : Micro} (he : exec s m = some s') :
    SInv s' ∧ (∀ c, c ∉ m.nodeTargets → s'.nodes c = s.nodes c) ∧ (∀ a, a ∉ m.arrTargets → s'.arrs a = s.arrs a) :=
  ⟨(exec_ok h m he).1, fun c hc => (Stable.exec_frame_node h m he c hc).1,
    fun a ha => (Stable.exec_frame_arr h m he a ha).1⟩

/-- copying the first n items of w into c (w may be c itself: the container only grows) -/
theorem copyItems_def {s : State} (h : SInv s) (c w : Var) (hc : c.valid = true) (hk : w.k = c.k)
    (ha : (s.nodes c).alive = true) (n : Nat) (hn : n ≤ (s.nodes w).items.length) :
    ∃ s', execAll s (copyItems c w n) = some s' := by
  obtain ⟨s', he, _⟩ := loop_def
    (fun _ x => SInv x ∧ (x.nodes c).alive = true ∧ n ≤ (x.nodes w).items.length)
    (copyItems c w n) 0 s ⟨h, ha, hn⟩ (by
      intro j m x hm ⟨ix, ax, nx⟩
      obtain ⟨hj, rfl⟩ := range_map_get hm
      have hjw : j < (x.nodes w).items.length := by omega
      have hdef := put_def ix c none (if c.k.hasKey then some (.item w j 0) else none)
        (if c.k = .S then none else some (.item w j 1)) hc ax (by simp)
        (by
          intro r hr
          by_cases hkey : c.k.hasKey = true
          · simp only [hkey, if_true, Option.some.injEq] at hr
            subst hr
            exact srcOK_item (by rw [hk]; exact (hasKey_iff c.k).mp hkey) hjw
          · simp [hkey] at hr)
        (by
          intro h0
          have := (hasKey_iff c.k).mpr h0
          simp [this])
        (by
          intro r hr
          by_cases hS : c.k = .S
          · simp [hS] at hr
          · simp only [hS, if_false, Option.some.injEq] at hr
            subst hr
            exact srcOK_item (by rw [hk]; exact (one_mem_fields c.k).mpr hS) hjw)
        (by
          intro h1
          have := (one_mem_fields c.k).mp h1
          simp [this])
        (by
          intro _ r hr
          by_cases hS : c.k = .S
          · simp [hS] at hr
          · simp only [hS, if_false, Option.some.injEq] at hr
            subst hr; trivial)
      obtain ⟨x', hx'⟩ := hdef
      obtain ⟨l1, _, o1, _, a1⟩ := put_post c none _ _ hx'
      refine ⟨x', hx', (exec_ok ix _ hx').1, by rw [a1]; exact ax, ?_⟩
      by_cases hwc : w = c
      · subst hwc; omega
      · rw [o1 w hwc]; exact nx)
  exact ⟨s', he⟩

/-- placement-news at the end of v from the elements of another array w -/
theorem pushes_other {s : State} (h : SInv s) (v w n : Nat) (hv : v ≤ 1) (hvw : w ≠ v)
    (hn : n ≤ (s.arrs w).size) (hst : 0 < n → (s.arrs v).store.isSome = true)
    (hcap : (s.arrs v).size + n ≤ (s.arrs v).cap) :
    ∃ s', execAll s ((List.range n).map fun j => Micro.aPush v (.elem w j)) = some s' := by
  obtain ⟨s', he, _⟩ := loop_def
    (fun k x => SInv x ∧ x.arrs w = s.arrs w ∧ (x.arrs v).size = (s.arrs v).size + k ∧
      (x.arrs v).cap = (s.arrs v).cap ∧ (x.arrs v).store = (s.arrs v).store)
    ((List.range n).map fun j => Micro.aPush v (.elem w j)) 0 s ⟨h, rfl, rfl, rfl, rfl⟩ (by
      intro k m x hm ⟨ix, wx, sx, cx, stx⟩
      obtain ⟨hk, rfl⟩ := range_map_get hm
      simp only [Nat.zero_add] at sx ⊢
      obtain ⟨x', hx'⟩ := aPush_def v (.elem w k) hv (by rw [stx]; exact hst (by omega)) (by omega)
        (srcOK_elem' ix (by rw [wx]; omega))
      have hx'' := Stable.exec_exec' hx'
      obtain ⟨hc2, hst2, _⟩ := aPush_shape v _ hx''
      obtain ⟨_, hsz⟩ := aPush_abs ix v _ hx''
      obtain ⟨i', _, fa⟩ := step_post ix hx'
      refine ⟨x', hx', i', ?_, by rw [hsz, sx]; omega, by rw [hc2, cx], by rw [hst2, stx]⟩
      rw [fa w (by simp [Micro.arrTargets, hvw]), wx])
  exact ⟨s', he⟩

-- operations -----------------------------------------------------------------------------------------------

theorem stepRes_ne_fault {st : State} {op : Op}
    (h : ∀ ms, compile st op = some ms → ∃ st', execAll st ms = some st') : stepRes st op ≠ .fault := by
  unfold stepRes
  cases hc : compile st op with
  | none => simp
  | some ms => obtain ⟨st', he⟩ := h ms hc; simp [he]

theorem ok_ne_fault {st : State} {op : Op} {P : State → Prop} (h : ∃ s, stepRes st op = .ok s ∧ P s) :
    stepRes st op ≠ .fault := by
  obtain ⟨s, hs, _⟩ := h
  rw [hs]; simp

theorem valid_of {c : Var} (hv : c.v ≤ 1) (hk : c.k ≠ .A) : c.valid = true := by
  simp [Var.valid, hv, hk]

theorem absArr_get_of_lt {st : State} (h : SInv st) {v i : Nat} (hi : i < (st.arrs v).size) :
    ∃ x, (absArr st v)[i]? = some x := by
  have : i < (absArr st v).length := by rw [absArr_length st v h]; exact hi
  exact ⟨_, List.getElem?_eq_getElem this⟩

section ops
set_option linter.unusedSectionVars false
variable {st : State} (h : SInv st) (ha : AllAlive st)
include h ha

-- Array

theorem nf_aAppend (v x : Nat) : stepRes st (.aAppend v x) ≠ .fault := by
  by_cases hv : v ≤ 1
  · exact ok_ne_fault (aAppend_abs h v x hv (ha.2 v hv))
  · apply stepRes_ne_fault; intro ms hc
    simp only [compile] at hc; obtain ⟨hg, _⟩ := guard_some hc; simp [hv] at hg

theorem nf_aAppendRef (v i : Nat) : stepRes st (.aAppendRef v i) ≠ .fault := by
  by_cases hg : v ≤ 1 ∧ i < (st.arrs v).size
  · obtain ⟨x, hx⟩ := absArr_get_of_lt h hg.2
    exact ok_ne_fault (aAppendRef_abs h v i x hg.1 hx)
  · apply stepRes_ne_fault; intro ms hc
    simp only [compile] at hc; obtain ⟨hg', _⟩ := guard_some hc
    simp only [Bool.and_eq_true, decide_eq_true_eq] at hg'; exact absurd hg' hg

theorem nf_aAppendPtr (v i n : Nat) : stepRes st (.aAppendPtr v i n) ≠ .fault := by
  by_cases hg : v ≤ 1 ∧ i + n ≤ (st.arrs v).size
  · exact ok_ne_fault (aAppendPtr_abs h v i n hg.1 (ha.2 v hg.1) hg.2)
  · apply stepRes_ne_fault; intro ms hc
    simp only [compile] at hc; obtain ⟨hg', _⟩ := guard_some hc
    simp only [Bool.and_eq_true, decide_eq_true_eq] at hg'; exact absurd hg' hg

theorem nf_aAppendArr (v w : Nat) : stepRes st (.aAppendArr v w) ≠ .fault := by
  by_cases hvw : w = v
  · subst hvw
    by_cases hv : w ≤ 1
    · exact ok_ne_fault (aAppendSelf_abs h w hv (ha.2 w hv))
    · apply stepRes_ne_fault; intro ms hc
      simp only [compile] at hc; obtain ⟨hg, _⟩ := guard_some hc; simp [hv] at hg
  · apply stepRes_ne_fault; intro ms hc
    simp only [compile] at hc; obtain ⟨hg, rfl⟩ := guard_some hc
    simp only [Bool.and_eq_true, decide_eq_true_eq] at hg
    obtain ⟨s1, h1⟩ := aReserve_def (s := st) v ((st.arrs v).size + (st.arrs w).size) hg.1 (ha.2 v hg.1)
    obtain ⟨_, hsize, _, hcap, hstore, hoth⟩ := aReserve_abs h v _ (Stable.exec_exec' h1)
    refine execAll_cons_def h1 ?_
    have := pushes_other (exec_ok h _ h1).1 v w (st.arrs w).size hg.1 hvw (by rw [hoth w hvw]; exact Nat.le_refl _)
      (fun hn => hstore (by omega)) (by rw [hsize]; exact hcap)
    exact this

theorem nf_aResize (v n x : Nat) : stepRes st (.aResize v n x) ≠ .fault := by
  by_cases hv : v ≤ 1
  · by_cases hn : n < (st.arrs v).size
    · apply stepRes_ne_fault; intro ms hc
      simp only [compile, hn, if_true] at hc; obtain ⟨_, rfl⟩ := guard_some hc
      exact execAll_one_def (aTruncate_def v n hv (ha.2 v hv))
    · exact ok_ne_fault (aResize_abs h v n x hv (ha.2 v hv) (by omega))
  · apply stepRes_ne_fault; intro ms hc
    simp only [compile] at hc; obtain ⟨hg, _⟩ := guard_some hc; simp [hv] at hg

theorem nf_aResizeRef (v n i : Nat) : stepRes st (.aResizeRef v n i) ≠ .fault := by
  by_cases hg : v ≤ 1 ∧ i < (st.arrs v).size
  · by_cases hn : n < (st.arrs v).size
    · apply stepRes_ne_fault; intro ms hc
      simp only [compile, hn, if_true] at hc; obtain ⟨_, rfl⟩ := guard_some hc
      exact execAll_one_def (aTruncate_def v n hg.1 (ha.2 v hg.1))
    · obtain ⟨x, hx⟩ := absArr_get_of_lt h hg.2
      exact ok_ne_fault (aResizeRef_abs h v n i x hg.1 hx (by omega))
  · apply stepRes_ne_fault; intro ms hc
    simp only [compile] at hc; obtain ⟨hg', _⟩ := guard_some hc
    simp only [Bool.and_eq_true, decide_eq_true_eq] at hg'; exact absurd hg' hg

theorem nf_aReserve (v n : Nat) : stepRes st (.aReserve v n) ≠ .fault := by
  apply stepRes_ne_fault; intro ms hc
  simp only [compile] at hc; obtain ⟨hg, rfl⟩ := guard_some hc
  simp only [decide_eq_true_eq] at hg
  exact execAll_one_def (aReserve_def v n hg (ha.2 v hg))

theorem nf_aRemove (v i : Nat) : stepRes st (.aRemove v i) ≠ .fault := by
  apply stepRes_ne_fault; intro ms hc
  simp only [compile] at hc; obtain ⟨hg, rfl⟩ := guard_some hc
  simp only [decide_eq_true_eq] at hg
  by_cases hi : i < (st.arrs v).size
  · rw [if_pos hi]; exact execAll_one_def (aRemove_def h v i hg hi)
  · rw [if_neg hi]; exact ⟨st, rfl⟩

theorem nf_aRemoveIt (v i : Nat) : stepRes st (.aRemoveIt v i) ≠ .fault := by
  apply stepRes_ne_fault; intro ms hc
  simp only [compile] at hc; obtain ⟨hg, rfl⟩ := guard_some hc
  simp only [Bool.and_eq_true, decide_eq_true_eq] at hg
  exact execAll_one_def (aRemove_def h v i hg.1 hg.2)

theorem nf_aSet (v i x : Nat) : stepRes st (.aSet v i x) ≠ .fault := by
  apply stepRes_ne_fault; intro ms hc
  simp only [compile] at hc; obtain ⟨hg, rfl⟩ := guard_some hc
  simp only [Bool.and_eq_true, decide_eq_true_eq] at hg
  exact execAll_one_def (aAssign_def h v i (.ext x) hg.1 hg.2 (srcOK_ext st x) trivial)

-- node containers: single steps

omit h ha in
theorem ok_none {P : SrcRef → Prop} : ∀ r, (none : Option SrcRef) = some r → P r := by
  intro r hr; cases hr

omit h ha in
theorem ok_some {P : SrcRef → Prop} {r0 : SrcRef} (hp : P r0) : ∀ r, some r0 = some r → P r := by
  intro r hr; cases hr; exact hp

omit h ha in
theorem getD_le {pos : Option Nat} {n : Nat} (hp : pos.getD 0 ≤ n) : pos.getD n ≤ n := by
  cases pos <;> simp_all

omit h ha in
theorem some_ne_none' {r : SrcRef} {P : Prop} : P → (some r : Option SrcRef) ≠ none := fun _ hx => by cases hx

-- List
theorem nf_lInsert (v : Nat) (pos : Option Nat) (x : Nat) : stepRes st (.lInsert v pos x) ≠ .fault := by
  apply stepRes_ne_fault; intro ms hc
  simp only [compile] at hc; obtain ⟨hg, rfl⟩ := guard_some hc
  simp only [Bool.and_eq_true, decide_eq_true_eq] at hg
  simp only [len] at hg
  have hv : (⟨.L, v⟩ : Var).valid = true := valid_of hg.1 (by simp)
  exact execAll_one_def (put_def h ⟨.L, v⟩ pos none (some (.ext x)) hv (ha.1 _ hv) (getD_le hg.2)
    ok_none (by simp [Kind.fields]) (ok_some (srcOK_ext st x)) some_ne_none' (fun _ => ok_some trivial))

theorem nf_lInsertRef (v : Nat) (pos : Option Nat) (i : Nat) : stepRes st (.lInsertRef v pos i) ≠ .fault := by
  apply stepRes_ne_fault; intro ms hc
  simp only [compile] at hc; obtain ⟨hg, rfl⟩ := guard_some hc
  simp only [Bool.and_eq_true, decide_eq_true_eq] at hg
  simp only [len] at hg
  have hv : (⟨.L, v⟩ : Var).valid = true := valid_of hg.1.1 (by simp)
  exact execAll_one_def (put_def h ⟨.L, v⟩ pos none (some (.item ⟨.L, v⟩ i 1)) hv (ha.1 _ hv) (getD_le hg.1.2)
    ok_none (by simp [Kind.fields]) (ok_some (srcOK_item (by simp [Kind.fields]) hg.2)) some_ne_none'
    (fun _ => ok_some trivial))

theorem nf_lInsertList (v : Nat) (pos : Option Nat) (w : Nat) : stepRes st (.lInsertList v pos w) ≠ .fault := by
  by_cases hvw : v = w
  · subst hvw
    have hlen : len st ⟨.L, v⟩ = (absNode st ⟨.L, v⟩).length := by simp [len, absNode]
    by_cases hg : v ≤ 1 ∧ pos.getD (len st ⟨.L, v⟩) ≤ len st ⟨.L, v⟩
    · have hv : (⟨.L, v⟩ : Var).valid = true := valid_of hg.1 (by simp)
      exact ok_ne_fault (lInsertSelf_abs h v hg.1 (ha.1 _ hv) pos (by rw [← hlen]; exact hg.2))
    · apply stepRes_ne_fault; intro ms hc
      simp only [compile] at hc; obtain ⟨hg', _⟩ := guard_some hc
      simp only [Bool.and_eq_true, decide_eq_true_eq] at hg'
      exact absurd ⟨hg'.1.1, hg'.2⟩ hg
  · apply stepRes_ne_fault; intro ms hc
    simp only [compile, hvw, if_false] at hc; obtain ⟨hg, rfl⟩ := guard_some hc
    simp only [Bool.and_eq_true, decide_eq_true_eq] at hg
    simp only [len] at hg
    have hv : (⟨.L, v⟩ : Var).valid = true := valid_of hg.1.1 (by simp)
    have hne : (⟨.L, w⟩ : Var) ≠ ⟨.L, v⟩ := by
      intro e; simp only [Var.mk.injEq, true_and] at e; exact hvw e.symm
    obtain ⟨s', he, _⟩ := loop_def
      (fun j x => SInv x ∧ (x.nodes ⟨.L, v⟩).alive = true ∧
        (x.nodes ⟨.L, v⟩).items.length = (st.nodes ⟨.L, v⟩).items.length + j ∧
        x.nodes ⟨.L, w⟩ = st.nodes ⟨.L, w⟩)
      ((List.range (len st ⟨.L, w⟩)).map fun j =>
        Micro.put ⟨.L, v⟩ (some (pos.getD (len st ⟨.L, v⟩) + j)) none (some (.item ⟨.L, w⟩ j 1)))
      0 st ⟨h, ha.1 _ hv, rfl, rfl⟩ (by
        intro j m x hm ⟨ix, ax, lx, wx⟩
        obtain ⟨hj, rfl⟩ := range_map_get hm
        simp only [Nat.zero_add, len] at lx hj ⊢
        obtain ⟨x', hx'⟩ := put_def ix ⟨.L, v⟩ (some (pos.getD (st.nodes ⟨.L, v⟩).items.length + j)) none
          (some (.item ⟨.L, w⟩ j 1)) hv ax (by simp only [Option.getD_some, lx]; omega)
          ok_none (by simp [Kind.fields]) (ok_some (srcOK_item (by simp [Kind.fields]) (by rw [wx]; exact hj)))
          some_ne_none' (fun _ => ok_some trivial)
        obtain ⟨_, l1, o1, _, a1⟩ := put_post _ _ _ _ hx'
        exact ⟨x', hx', (exec_ok ix _ hx').1, by rw [a1]; exact ax, by rw [l1 rfl, lx]; omega,
          by rw [o1 _ hne, wx]⟩)
    exact ⟨s', he⟩

theorem nf_lRemove (v i : Nat) : stepRes st (.lRemove v i) ≠ .fault := by
  apply stepRes_ne_fault; intro ms hc
  simp only [compile] at hc; obtain ⟨hg, rfl⟩ := guard_some hc
  simp only [Bool.and_eq_true, decide_eq_true_eq] at hg
  simp only [len] at hg
  exact execAll_one_def (remove_def _ i (valid_of hg.1 (by simp)) hg.2)

theorem nf_lRemoveVal (v x : Nat) : stepRes st (.lRemoveVal v x) ≠ .fault := by
  apply stepRes_ne_fault; intro ms hc
  simp only [compile] at hc; obtain ⟨hg, rfl⟩ := guard_some hc
  simp only [decide_eq_true_eq] at hg
  exact execAll_one_def (removeVal_def h _ _ (valid_of hg (by simp)) (srcOK_ext st x))

theorem nf_lRemoveValRef (v i : Nat) : stepRes st (.lRemoveValRef v i) ≠ .fault := by
  apply stepRes_ne_fault; intro ms hc
  simp only [compile] at hc; obtain ⟨hg, rfl⟩ := guard_some hc
  simp only [Bool.and_eq_true, decide_eq_true_eq] at hg
  simp only [len] at hg
  exact execAll_one_def (removeVal_def h _ _ (valid_of hg.1 (by simp)) (srcOK_item (by simp [Kind.fields]) hg.2))

theorem nf_lSet (v i x : Nat) : stepRes st (.lSet v i x) ≠ .fault := by
  apply stepRes_ne_fault; intro ms hc
  simp only [compile] at hc; obtain ⟨hg, rfl⟩ := guard_some hc
  simp only [Bool.and_eq_true, decide_eq_true_eq] at hg
  simp only [len] at hg
  exact execAll_one_def (assignVal_def _ i (.ext x) (valid_of hg.1 (by simp)) (by simp [Kind.fields]) hg.2
    (srcOK_ext st x) trivial)

omit h ha in
/-- a list of assignments to nodes inside list c is executable (the list keeps its length) -/
theorem sortOk_def {c : Var} (hv : c.valid = true) (hf : 1 ∈ c.k.fields) : ∀ (ms : List Micro) (s : State),
    SortOk c (s.nodes c).items.length ms → ∃ s', execAll s ms = some s'
  | [], s, _ => ⟨s, rfl⟩
  | m :: rest, s, hok => by
    obtain ⟨j, src, rfl, hj, hsrc⟩ := hok m (by simp)
    have hs : SrcOK s src ∧ NotInplace src := by
      rcases hsrc with ⟨p, rfl⟩ | ⟨j', rfl, hj'⟩
      · exact ⟨srcOK_ext s p, trivial⟩
      · exact ⟨srcOK_item hf hj', trivial⟩
    obtain ⟨s1, h1⟩ := assignVal_def (s := s) c j src hv hf hj hs.1 hs.2
    have hn : s1.nodes = s.nodes := by
      have h1' := Stable.exec_exec' h1
      simp only [exec'] at h1'
      rw [if_neg (by simpa using hf)] at h1'
      cases hj2 : (s.nodes c).items[j]? with
      | none => simp [hj2] at h1'
      | some it =>
        cases hr : resolve s src with
        | none => simp [hj2, hr] at h1'
        | some lp =>
          obtain ⟨l, p⟩ := lp
          cases l with
          | none => simp [hj2, hr] at h1'
          | some l => simp [hj2, hr] at h1'; rw [← h1']; rfl
    exact execAll_cons_def h1 (sortOk_def hv hf rest s1 (by rw [hn]; exact fun m' hm' => hok m' (by simp [hm'])))

theorem nf_lSort (v : Nat) (orc : List Bool) : stepRes st (.lSort v orc) ≠ .fault := by
  apply stepRes_ne_fault; intro ms hc
  simp only [compile] at hc; obtain ⟨hg, rfl⟩ := guard_some hc
  simp only [Bool.and_eq_true, decide_eq_true_eq] at hg
  exact sortOk_def (valid_of hg.1 (by simp)) (by simp [Kind.fields]) _ st (sortMicros_getD_ok st v orc)

-- Map / MultiMap
omit h ha in
theorem mu_ne_A {c : Var} (hk : c.k = .M ∨ c.k = .U) : c.k ≠ .A := by
  rcases hk with e | e <;> rw [e] <;> simp

omit h ha in
theorem mu_one {c : Var} (hk : c.k = .M ∨ c.k = .U) : 1 ∈ c.k.fields := by
  rcases hk with e | e <;> rw [e] <;> simp [Kind.fields]

theorem nf_mInsert (c : Var) (k x : Nat) : stepRes st (.mInsert c k x) ≠ .fault := by
  apply stepRes_ne_fault; intro ms hc
  simp only [compile] at hc; obtain ⟨hg, rfl⟩ := guard_some hc
  simp only [Bool.and_eq_true, Bool.or_eq_true, decide_eq_true_eq] at hg
  have hv : c.valid = true := valid_of hg.1 (mu_ne_A hg.2)
  exact execAll_one_def (put_def h c none (some (.ext k)) (some (.ext x)) hv (ha.1 _ hv) (by simp)
    (ok_some (srcOK_ext st k)) some_ne_none' (ok_some (srcOK_ext st x)) some_ne_none' (fun _ => ok_some trivial))

theorem nf_mInsertHint (c : Var) (pos k x : Nat) : stepRes st (.mInsertHint c pos k x) ≠ .fault := by
  apply stepRes_ne_fault; intro ms hc
  simp only [compile] at hc; obtain ⟨hg, rfl⟩ := guard_some hc
  simp only [Bool.and_eq_true, Bool.or_eq_true, decide_eq_true_eq] at hg
  have hmu : c.k = .M ∨ c.k = .U := by
    rcases hg.1.2 with e | e
    · exact Or.inl e
    · exact Or.inr e.1
  have hv : c.valid = true := valid_of hg.1.1 (mu_ne_A hmu)
  exact execAll_one_def (put_def h c none (some (.ext k)) (some (.ext x)) hv (ha.1 _ hv) (by simp)
    (ok_some (srcOK_ext st k)) some_ne_none' (ok_some (srcOK_ext st x)) some_ne_none' (fun _ => ok_some trivial))

theorem nf_mInsertRef (c : Var) (k i : Nat) : stepRes st (.mInsertRef c k i) ≠ .fault := by
  apply stepRes_ne_fault; intro ms hc
  simp only [compile] at hc; obtain ⟨hg, rfl⟩ := guard_some hc
  simp only [Bool.and_eq_true, Bool.or_eq_true, decide_eq_true_eq] at hg
  simp only [len] at hg
  have hv : c.valid = true := valid_of hg.1.1 (mu_ne_A hg.1.2)
  exact execAll_one_def (put_def h c none (some (.ext k)) (some (.item c i 1)) hv (ha.1 _ hv) (by simp)
    (ok_some (srcOK_ext st k)) some_ne_none' (ok_some (srcOK_item (mu_one hg.1.2) hg.2)) some_ne_none'
    (fun _ => ok_some trivial))

theorem nf_mInsertMap (c : Var) (w : Nat) : stepRes st (.mInsertMap c w) ≠ .fault := by
  apply stepRes_ne_fault; intro ms hc
  simp only [compile] at hc; obtain ⟨hg, rfl⟩ := guard_some hc
  simp only [Bool.and_eq_true, decide_eq_true_eq] at hg
  have hv : c.valid = true := valid_of hg.1.1 (by rw [hg.2]; simp)
  exact copyItems_def h c ⟨c.k, w⟩ hv rfl (ha.1 _ hv) _ (Nat.le_refl _)

theorem nf_mRemove (c : Var) (k : Nat) : stepRes st (.mRemove c k) ≠ .fault := by
  apply stepRes_ne_fault; intro ms hc
  simp only [compile] at hc; obtain ⟨hg, rfl⟩ := guard_some hc
  simp only [Bool.and_eq_true, Bool.or_eq_true, decide_eq_true_eq] at hg
  exact execAll_one_def (removeKey_def h _ _ (valid_of hg.1 (mu_ne_A hg.2)) (srcOK_ext st k))

theorem nf_mRemoveAt (c : Var) (i : Nat) : stepRes st (.mRemoveAt c i) ≠ .fault := by
  apply stepRes_ne_fault; intro ms hc
  simp only [compile] at hc; obtain ⟨hg, rfl⟩ := guard_some hc
  simp only [Bool.and_eq_true, Bool.or_eq_true, decide_eq_true_eq] at hg
  simp only [len] at hg
  exact execAll_one_def (remove_def _ i (valid_of hg.1.1 (mu_ne_A hg.1.2)) hg.2)

theorem nf_mSet (c : Var) (i x : Nat) : stepRes st (.mSet c i x) ≠ .fault := by
  apply stepRes_ne_fault; intro ms hc
  simp only [compile] at hc; obtain ⟨hg, rfl⟩ := guard_some hc
  simp only [Bool.and_eq_true, Bool.or_eq_true, decide_eq_true_eq] at hg
  simp only [len] at hg
  exact execAll_one_def (assignVal_def _ i (.ext x) (valid_of hg.1.1 (mu_ne_A hg.1.2)) (mu_one hg.1.2) hg.2
    (srcOK_ext st x) trivial)

-- HashMap
theorem nf_hInsert (v : Nat) (pos : Option Nat) (k x : Nat) : stepRes st (.hInsert v pos k x) ≠ .fault := by
  apply stepRes_ne_fault; intro ms hc
  simp only [compile] at hc; obtain ⟨hg, rfl⟩ := guard_some hc
  simp only [Bool.and_eq_true, decide_eq_true_eq] at hg
  simp only [len] at hg
  have hv : (⟨.H, v⟩ : Var).valid = true := valid_of hg.1 (by simp)
  exact execAll_one_def (put_def h ⟨.H, v⟩ pos (some (.ext k)) (some (.ext x)) hv (ha.1 _ hv) (getD_le hg.2)
    (ok_some (srcOK_ext st k)) some_ne_none' (ok_some (srcOK_ext st x)) some_ne_none' (fun _ => ok_some trivial))

theorem nf_hAppendRef (v k i : Nat) : stepRes st (.hAppendRef v k i) ≠ .fault := by
  apply stepRes_ne_fault; intro ms hc
  simp only [compile] at hc; obtain ⟨hg, rfl⟩ := guard_some hc
  simp only [Bool.and_eq_true, decide_eq_true_eq] at hg
  simp only [len] at hg
  have hv : (⟨.H, v⟩ : Var).valid = true := valid_of hg.1 (by simp)
  exact execAll_one_def (put_def h ⟨.H, v⟩ none (some (.ext k)) (some (.item ⟨.H, v⟩ i 1)) hv (ha.1 _ hv) (by simp)
    (ok_some (srcOK_ext st k)) some_ne_none' (ok_some (srcOK_item (by simp [Kind.fields]) hg.2)) some_ne_none'
    (fun _ => ok_some trivial))

theorem nf_hRemove (v k : Nat) : stepRes st (.hRemove v k) ≠ .fault := by
  apply stepRes_ne_fault; intro ms hc
  simp only [compile] at hc; obtain ⟨hg, rfl⟩ := guard_some hc
  simp only [decide_eq_true_eq] at hg
  exact execAll_one_def (removeKey_def h _ _ (valid_of hg (by simp)) (srcOK_ext st k))

theorem nf_hRemoveAt (v i : Nat) : stepRes st (.hRemoveAt v i) ≠ .fault := by
  apply stepRes_ne_fault; intro ms hc
  simp only [compile] at hc; obtain ⟨hg, rfl⟩ := guard_some hc
  simp only [Bool.and_eq_true, decide_eq_true_eq] at hg
  simp only [len] at hg
  exact execAll_one_def (remove_def _ i (valid_of hg.1 (by simp)) hg.2)

theorem nf_hSet (v i x : Nat) : stepRes st (.hSet v i x) ≠ .fault := by
  apply stepRes_ne_fault; intro ms hc
  simp only [compile] at hc; obtain ⟨hg, rfl⟩ := guard_some hc
  simp only [Bool.and_eq_true, decide_eq_true_eq] at hg
  simp only [len] at hg
  exact execAll_one_def (assignVal_def _ i (.ext x) (valid_of hg.1 (by simp)) (by simp [Kind.fields]) hg.2
    (srcOK_ext st x) trivial)

-- HashSet
theorem nf_sInsert (v : Nat) (pos : Option Nat) (k : Nat) : stepRes st (.sInsert v pos k) ≠ .fault := by
  apply stepRes_ne_fault; intro ms hc
  simp only [compile] at hc; obtain ⟨hg, rfl⟩ := guard_some hc
  simp only [Bool.and_eq_true, decide_eq_true_eq] at hg
  simp only [len] at hg
  have hv : (⟨.S, v⟩ : Var).valid = true := valid_of hg.1 (by simp)
  exact execAll_one_def (put_def h ⟨.S, v⟩ pos (some (.ext k)) none hv (ha.1 _ hv) (getD_le hg.2)
    (ok_some (srcOK_ext st k)) some_ne_none' ok_none (by simp [Kind.fields]) (fun _ => ok_none))

theorem nf_sAppendRef (v i : Nat) : stepRes st (.sAppendRef v i) ≠ .fault := by
  apply stepRes_ne_fault; intro ms hc
  simp only [compile] at hc; obtain ⟨hg, rfl⟩ := guard_some hc
  simp only [Bool.and_eq_true, decide_eq_true_eq] at hg
  simp only [len] at hg
  have hv : (⟨.S, v⟩ : Var).valid = true := valid_of hg.1 (by simp)
  exact execAll_one_def (put_def h ⟨.S, v⟩ none (some (.item ⟨.S, v⟩ i 0)) none hv (ha.1 _ hv) (by simp)
    (ok_some (srcOK_item (by simp [Kind.fields]) hg.2)) some_ne_none' ok_none (by simp [Kind.fields])
    (fun _ => ok_none))

theorem nf_sAppendSet (v w : Nat) : stepRes st (.sAppendSet v w) ≠ .fault := by
  apply stepRes_ne_fault; intro ms hc
  simp only [compile] at hc; obtain ⟨hg, rfl⟩ := guard_some hc
  simp only [Bool.and_eq_true, decide_eq_true_eq] at hg
  have hv : (⟨.S, v⟩ : Var).valid = true := valid_of hg.1 (by simp)
  exact copyItems_def h ⟨.S, v⟩ ⟨.S, w⟩ hv rfl (ha.1 _ hv) _ (Nat.le_refl _)

theorem nf_sRemove (v k : Nat) : stepRes st (.sRemove v k) ≠ .fault := by
  apply stepRes_ne_fault; intro ms hc
  simp only [compile] at hc; obtain ⟨hg, rfl⟩ := guard_some hc
  simp only [decide_eq_true_eq] at hg
  exact execAll_one_def (removeKey_def h _ _ (valid_of hg (by simp)) (srcOK_ext st k))

theorem nf_sRemoveRef (v i : Nat) : stepRes st (.sRemoveRef v i) ≠ .fault := by
  apply stepRes_ne_fault; intro ms hc
  simp only [compile] at hc; obtain ⟨hg, rfl⟩ := guard_some hc
  simp only [Bool.and_eq_true, decide_eq_true_eq] at hg
  simp only [len] at hg
  exact execAll_one_def (removeKey_def h _ _ (valid_of hg.1 (by simp)) (srcOK_item (by simp [Kind.fields]) hg.2))

theorem nf_sRemoveAt (v i : Nat) : stepRes st (.sRemoveAt v i) ≠ .fault := by
  apply stepRes_ne_fault; intro ms hc
  simp only [compile] at hc; obtain ⟨hg, rfl⟩ := guard_some hc
  simp only [Bool.and_eq_true, decide_eq_true_eq] at hg
  simp only [len] at hg
  exact execAll_one_def (remove_def _ i (valid_of hg.1 (by simp)) hg.2)

-- PoolList / PoolMap
theorem nf_pAppend (v x : Nat) : stepRes st (.pAppend v x) ≠ .fault := by
  apply stepRes_ne_fault; intro ms hc
  simp only [compile] at hc; obtain ⟨hg, rfl⟩ := guard_some hc
  simp only [decide_eq_true_eq] at hg
  have hv : (⟨.P, v⟩ : Var).valid = true := valid_of hg (by simp)
  exact execAll_one_def (put_def h ⟨.P, v⟩ none none (some (.inplace x)) hv (ha.1 _ hv) (by simp)
    ok_none (by simp [Kind.fields]) (ok_some (srcOK_inplace st x)) some_ne_none'
    (fun hk => by rcases hk with e | e <;> cases e))

theorem nf_pRemove (v i : Nat) : stepRes st (.pRemove v i) ≠ .fault := by
  apply stepRes_ne_fault; intro ms hc
  simp only [compile] at hc; obtain ⟨hg, rfl⟩ := guard_some hc
  simp only [Bool.and_eq_true, decide_eq_true_eq] at hg
  simp only [len] at hg
  exact execAll_one_def (remove_def _ i (valid_of hg.1 (by simp)) hg.2)

theorem nf_pRemoveRef (v i : Nat) : stepRes st (.pRemoveRef v i) ≠ .fault := by
  apply stepRes_ne_fault; intro ms hc
  simp only [compile] at hc; obtain ⟨hg, rfl⟩ := guard_some hc
  simp only [Bool.and_eq_true, decide_eq_true_eq] at hg
  simp only [len] at hg
  exact execAll_one_def (remove_def _ i (valid_of hg.1 (by simp)) hg.2)

theorem nf_qAppend (v k x : Nat) : stepRes st (.qAppend v k x) ≠ .fault := by
  apply stepRes_ne_fault; intro ms hc
  simp only [compile] at hc; obtain ⟨hg, rfl⟩ := guard_some hc
  simp only [decide_eq_true_eq] at hg
  have hv : (⟨.Q, v⟩ : Var).valid = true := valid_of hg (by simp)
  exact execAll_one_def (put_def h ⟨.Q, v⟩ none (some (.ext k)) (some (.inplace x)) hv (ha.1 _ hv) (by simp)
    (ok_some (srcOK_ext st k)) some_ne_none' (ok_some (srcOK_inplace st x)) some_ne_none'
    (fun hk => by rcases hk with e | e <;> cases e))

theorem nf_qRemove (v k : Nat) : stepRes st (.qRemove v k) ≠ .fault := by
  apply stepRes_ne_fault; intro ms hc
  simp only [compile] at hc; obtain ⟨hg, rfl⟩ := guard_some hc
  simp only [decide_eq_true_eq] at hg
  exact execAll_one_def (removeKey_def h _ _ (valid_of hg (by simp)) (srcOK_ext st k))

theorem nf_qRemoveAt (v i : Nat) : stepRes st (.qRemoveAt v i) ≠ .fault := by
  apply stepRes_ne_fault; intro ms hc
  simp only [compile] at hc; obtain ⟨hg, rfl⟩ := guard_some hc
  simp only [Bool.and_eq_true, decide_eq_true_eq] at hg
  simp only [len] at hg
  exact execAll_one_def (remove_def _ i (valid_of hg.1 (by simp)) hg.2)

theorem nf_qRemoveRef (v i : Nat) : stepRes st (.qRemoveRef v i) ≠ .fault := by
  apply stepRes_ne_fault; intro ms hc
  simp only [compile] at hc; obtain ⟨hg, rfl⟩ := guard_some hc
  simp only [Bool.and_eq_true, decide_eq_true_eq] at hg
  simp only [len] at hg
  exact execAll_one_def (remove_def _ i (valid_of hg.1 (by simp)) hg.2)

omit h ha in
/-- `remove(iterator)` is defined inside the container and shortens it by one -/
theorem remove_def_len {s : State} (c : Var) (j : Nat) (hv : c.valid = true) (hj : j < (s.nodes c).items.length) :
    ∃ s', exec s (.remove c j) = some s' ∧ (s'.nodes c).items.length = (s.nodes c).items.length - 1 := by
  rw [exec_of_valid (show (Micro.remove c j).valid = true from hv)]
  refine ⟨_, by simp [exec', List.getElem?_eq_getElem hj]; rfl, ?_⟩
  simp [removeAt, State.dtorItem, List.length_eraseIdx, hj]

omit h ha in
/-- two removals in a row (the re-entrant removal of the pool containers) -/
theorem remove_twice_def {s : State} (c : Var) (i j : Nat) (hv : c.valid = true)
    (hi : i < (s.nodes c).items.length) (hj : j < (s.nodes c).items.length) (hij : i ≠ j) :
    ∃ s', execAll s [.remove c j, .remove c (if j < i then i - 1 else i)] = some s' := by
  obtain ⟨s1, h1, l1⟩ := remove_def_len (s := s) c j hv hj
  refine execAll_cons_def h1 (execAll_one_def (remove_def c _ hv ?_))
  rw [l1]
  by_cases hji : j < i
  · rw [if_pos hji]; omega
  · rw [if_neg hji]; omega

theorem nf_pRemoveChain (v i j : Nat) : stepRes st (.pRemoveChain v i j) ≠ .fault := by
  apply stepRes_ne_fault; intro ms hc
  simp only [compile] at hc; obtain ⟨hg, rfl⟩ := guard_some hc
  simp only [Bool.and_eq_true, decide_eq_true_eq, bne_iff_ne, ne_eq] at hg
  simp only [len] at hg
  exact remove_twice_def _ i j (valid_of hg.1.1.1 (by simp)) hg.1.1.2 hg.1.2 hg.2

theorem nf_qRemoveChain (v i j : Nat) : stepRes st (.qRemoveChain v i j) ≠ .fault := by
  apply stepRes_ne_fault; intro ms hc
  simp only [compile] at hc; obtain ⟨hg, rfl⟩ := guard_some hc
  simp only [Bool.and_eq_true, decide_eq_true_eq, bne_iff_ne, ne_eq] at hg
  simp only [len] at hg
  exact remove_twice_def _ i j (valid_of hg.1.1.1 (by simp)) hg.1.1.2 hg.1.2 hg.2

theorem nf_qInsert (v : Nat) (pos : Option Nat) (k x : Nat) : stepRes st (.qInsert v pos k x) ≠ .fault := by
  apply stepRes_ne_fault; intro ms hc
  simp only [compile] at hc; obtain ⟨hg, rfl⟩ := guard_some hc
  simp only [Bool.and_eq_true, decide_eq_true_eq] at hg
  simp only [len] at hg
  have hv : (⟨.Q, v⟩ : Var).valid = true := valid_of hg.1 (by simp)
  exact execAll_one_def (put_def h ⟨.Q, v⟩ pos (some (.ext k)) (some (.inplace x)) hv (ha.1 _ hv) (getD_le hg.2)
    (ok_some (srcOK_ext st k)) some_ne_none' (ok_some (srcOK_inplace st x)) some_ne_none'
    (fun hk => by rcases hk with e | e <;> cases e))

-- sRemoveSet

omit h ha in
theorem removeKey_head {s : State} (h : SInv s) (c : Var) (hv : c.valid = true) (h0 : 0 ∈ c.k.fields)
    (hl : 0 < (s.nodes c).items.length) :
    ∃ s', exec s (.removeKey c (.item c 0 0)) = some s' ∧
      (s'.nodes c).items.length = (s.nodes c).items.length - 1 := by
  rw [exec_of_valid (show (Micro.removeKey c (.item c 0 0)).valid = true from hv)]
  cases hi : (s.nodes c).items with
  | nil => rw [hi] at hl; simp at hl
  | cons it rest =>
    have hlive := h.items_live c it 0 (by rw [hi]; simp) h0
    cases hp : s.mem (it.loc 0) with
    | none => rw [hp] at hlive; cases hlive
    | some p =>
      have hp' : s.mem (.heap it.b it.i 0) = some p := hp
      have hpay : SrcRef.payload s (.item c 0 0) = some p := by
        simp [SrcRef.payload, SrcRef.loc, h0, hi, hp']
      have hfind : findField s 0 p (it :: rest) = some 0 := by
        simp [findField, hp]
      refine ⟨removeAt s c 0 it, ?_, ?_⟩
      · simp [exec', hpay, hfind, hi]
      · simp [removeAt, hi]

theorem nf_sRemoveSet (v w : Nat) : stepRes st (.sRemoveSet v w) ≠ .fault := by
  apply stepRes_ne_fault; intro ms hc
  simp only [compile] at hc; obtain ⟨hg, rfl⟩ := guard_some hc
  simp only [Bool.and_eq_true, decide_eq_true_eq] at hg
  have hv : (⟨.S, v⟩ : Var).valid = true := valid_of hg.1 (by simp)
  by_cases hvw : v = w
  · subst hvw
    simp only [if_true]
    obtain ⟨s', he, _⟩ := loop_def
      (fun j x => SInv x ∧ (x.nodes ⟨.S, v⟩).items.length = (st.nodes ⟨.S, v⟩).items.length - j)
      (List.replicate (len st ⟨.S, v⟩) (Micro.removeKey ⟨.S, v⟩ (.item ⟨.S, v⟩ 0 0))) 0 st ⟨h, rfl⟩ (by
        intro j m x hm ⟨ix, lx⟩
        rw [List.getElem?_replicate] at hm
        by_cases hj : j < len st ⟨.S, v⟩
        · simp only [hj, if_true, Option.some.injEq] at hm
          subst hm
          simp only [len, Nat.zero_add] at hj lx ⊢
          obtain ⟨x', hx', lx'⟩ := removeKey_head ix ⟨.S, v⟩ hv (by simp [Kind.fields]) (by omega)
          exact ⟨x', hx', (exec_ok ix _ hx').1, by rw [lx', lx]; omega⟩
        · simp [hj] at hm)
    exact ⟨s', he⟩
  · simp only [hvw, if_false]
    have hne : (⟨.S, w⟩ : Var) ∉ (Micro.removeKey ⟨.S, v⟩ (.item ⟨.S, w⟩ 0 0)).nodeTargets := by
      simp [Micro.nodeTargets]; exact fun e => hvw e.symm
    obtain ⟨s', he, _⟩ := loop_def
      (fun _ x => SInv x ∧ x.nodes ⟨.S, w⟩ = st.nodes ⟨.S, w⟩)
      ((List.range (len st ⟨.S, w⟩)).map fun j => Micro.removeKey ⟨.S, v⟩ (.item ⟨.S, w⟩ j 0)) 0 st ⟨h, rfl⟩ (by
        intro j m x hm ⟨ix, wx⟩
        obtain ⟨hj, rfl⟩ := range_map_get hm
        simp only [len] at hj
        obtain ⟨x', hx'⟩ := removeKey_def ix ⟨.S, v⟩ (.item ⟨.S, w⟩ j 0) hv
          (srcOK_item (by simp [Kind.fields]) (by rw [wx]; exact hj))
        obtain ⟨i', fn, _⟩ := step_post ix hx'
        exact ⟨x', hx', i', by rw [fn _ (by simp [Micro.nodeTargets]; exact fun e => hvw e.symm), wx]⟩)
    exact ⟨s', he⟩

-- new, newcap, copy, assign, swap, clear

omit h ha in
theorem dc_def {s : State} (h : SInv s) (c : Var) (hv : c.valid = true) (hal : (s.nodes c).alive = true) :
    ∃ s1 s2, exec s (.destroy c) = some s1 ∧ exec s1 (.create c) = some s2 ∧ SInv s2 ∧ FlagsSame s s2 ∧
      ∀ c', c' ≠ c → s2.nodes c' = s.nodes c' := by
  obtain ⟨s1, e1⟩ := destroy_def (s := s) c hv hal
  have hd : (s1.nodes c).alive = false := by
    rw [(exec_alive _ (Stable.exec_exec' e1)).1 c]; simp [nAlive]
  obtain ⟨s2, e2⟩ := create_def (s := s1) c hv hd
  obtain ⟨i1, f1, _⟩ := step_post h e1
  obtain ⟨i2, f2, _⟩ := step_post i1 e2
  refine ⟨s1, s2, e1, e2, i2, destroy_create_flags c e1 e2, ?_⟩
  intro c' hc'
  rw [f2 c' (by simp [Micro.nodeTargets, hc']), f1 c' (by simp [Micro.nodeTargets, hc'])]

omit h ha in
theorem adc_def {s : State} (h : SInv s) (a n : Nat) (hv : a ≤ 1) (hal : (s.arrs a).alive = true) :
    ∃ s1 s2, exec s (.aDestroy a) = some s1 ∧ exec s1 (.aCreate a n) = some s2 ∧ SInv s2 ∧
      s2.arrs a = { alive := true, cap := n } ∧ ∀ b, b ≠ a → s2.arrs b = s.arrs b := by
  obtain ⟨s1, e1⟩ := aDestroy_def (s := s) a hv hal
  have hd : (s1.arrs a).alive = false := by
    rw [(exec_alive _ (Stable.exec_exec' e1)).2 a]; simp [aAlive]
  have e2 : exec s1 (.aCreate a n) = some (s1.setArr a { alive := true, cap := n }) := by
    rw [exec_of_valid (show (Micro.aCreate a n).valid = true by simp [Micro.valid, hv])]
    simp [exec', hd]
  obtain ⟨i1, _, f1⟩ := step_post h e1
  obtain ⟨i2, _, _⟩ := step_post i1 e2
  refine ⟨s1, _, e1, e2, i2, by simp [upd_same], ?_⟩
  intro b hb
  rw [setArr_arrs, upd_other _ _ _ _ hb, f1 b (by simp [Micro.arrTargets, hb])]

omit h ha in
theorem size_le_cap {s : State} (h : SInv s) (w : Nat) : (s.arrs w).size ≤ (s.arrs w).cap := by
  cases hs : (s.arrs w).store with
  | none => rw [h.arr_none w hs]; exact Nat.zero_le _
  | some x => exact h.arr_size w x hs

omit h ha in
/-- `reserve(cap of w)` on an empty array v, then copy-construct all elements of w -/
theorem reserve_copy_def {s : State} (h : SInv s) (v w : Nat) (hv : v ≤ 1) (hvw : w ≠ v)
    (hal : (s.arrs v).alive = true) (hsz : (s.arrs v).size = 0) :
    ∃ s', execAll s (Micro.aReserve v (s.arrs w).cap ::
      (List.range (s.arrs w).size).map fun j => Micro.aPush v (.elem w j)) = some s' := by
  obtain ⟨s1, h1⟩ := aReserve_def (s := s) v (s.arrs w).cap hv hal
  obtain ⟨_, hsize, _, hcap, hstore, hoth⟩ := aReserve_abs h v _ (Stable.exec_exec' h1)
  refine execAll_cons_def h1 ?_
  have hle := size_le_cap h w
  exact pushes_other (exec_ok h _ h1).1 v w (s.arrs w).size hv hvw (by rw [hoth w hvw]; exact Nat.le_refl _)
    (fun hn => hstore (by omega)) (by rw [hsize, hsz]; omega)

omit h ha in
theorem aTruncate0_size {s s' : State} (h : SInv s) (a : Nat) (he : exec s (.aTruncate a 0) = some s') :
    (s'.arrs a).size = 0 := by
  have he' := Stable.exec_exec' he
  simp only [exec'] at he'
  cases hA : (s.arrs a).alive with
  | false => simp [hA] at he'
  | true =>
    have hg : ¬ ((!(s.arrs a).alive) = true) := by simp [hA]
    rw [if_neg hg] at he'
    cases hs : (s.arrs a).store with
    | none =>
      simp only [hs, Option.some.injEq] at he'
      subst he'; exact h.arr_none a hs
    | some x =>
      by_cases hn : 0 < (s.arrs a).size
      · simp only [hs, hn, if_true, Option.some.injEq] at he'
        subst he'
        simp [upd_same]
      · simp only [hs, hn, if_false, Option.some.injEq] at he'
        subst he'; omega

theorem nf_new (c : Var) : stepRes st (.new c) ≠ .fault := by
  apply stepRes_ne_fault; intro ms hc
  simp only [compile] at hc; obtain ⟨hg, rfl⟩ := guard_some hc
  simp only [decide_eq_true_eq] at hg
  by_cases hA : c.k = .A
  · rw [if_pos hA]
    obtain ⟨s1, s2, e1, e2, _⟩ := adc_def h c.v 0 hg (ha.2 _ hg)
    exact ⟨s2, by simp [execAll, e1, e2]⟩
  · rw [if_neg hA]
    have hv := valid_of hg hA
    obtain ⟨s1, s2, e1, e2, _⟩ := dc_def h c hv (ha.1 _ hv)
    exact ⟨s2, by simp [execAll, e1, e2]⟩

theorem nf_newcap (c : Var) (n : Nat) : stepRes st (.newcap c n) ≠ .fault := by
  apply stepRes_ne_fault; intro ms hc
  simp only [compile] at hc; obtain ⟨hg, rfl⟩ := guard_some hc
  simp only [Bool.and_eq_true, decide_eq_true_eq] at hg
  by_cases hA : c.k = .A
  · rw [if_pos hA]
    obtain ⟨s1, s2, e1, e2, _⟩ := adc_def h c.v n hg.1 (ha.2 _ hg.1)
    exact ⟨s2, by simp [execAll, e1, e2]⟩
  · rw [if_neg hA]
    have hv := valid_of hg.1 hA
    obtain ⟨s1, s2, e1, e2, _⟩ := dc_def h c hv (ha.1 _ hv)
    exact ⟨s2, by simp [execAll, e1, e2]⟩

theorem nf_copy (c : Var) (w : Nat) : stepRes st (.copy c w) ≠ .fault := by
  apply stepRes_ne_fault; intro ms hc
  simp only [compile] at hc; obtain ⟨hg, rfl⟩ := guard_some hc
  simp only [Bool.and_eq_true, decide_eq_true_eq] at hg
  obtain ⟨⟨⟨hcv, hw⟩, hne⟩, _⟩ := hg
  have hne' : w ≠ c.v := fun e => hne e.symm
  by_cases hA : c.k = .A
  · rw [if_pos hA]
    obtain ⟨s1, s2, e1, e2, i2, a2, o2⟩ := adc_def h c.v 0 hcv (ha.2 _ hcv)
    simp only [List.cons_append, List.nil_append]
    refine execAll_cons_def e1 (execAll_cons_def e2 ?_)
    have := reserve_copy_def i2 c.v w hcv hne' (by rw [a2]) (by rw [a2])
    rw [o2 w hne'] at this
    exact this
  · rw [if_neg hA]
    have hv := valid_of hcv hA
    obtain ⟨s1, s2, e1, e2, i2, f2, o2⟩ := dc_def h c hv (ha.1 _ hv)
    simp only [List.cons_append, List.nil_append]
    refine execAll_cons_def e1 (execAll_cons_def e2 ?_)
    have hwc : (⟨c.k, w⟩ : Var) ≠ c := by
      intro e
      have : (⟨c.k, w⟩ : Var).v = c.v := by rw [e]
      exact hne' this
    exact copyItems_def i2 c ⟨c.k, w⟩ hv rfl (by rw [f2.1]; exact ha.1 _ hv) _
      (by rw [o2 _ hwc]; exact Nat.le_refl _)

theorem nf_assign (c : Var) (w : Nat) : stepRes st (.assign c w) ≠ .fault := by
  apply stepRes_ne_fault; intro ms hc
  simp only [compile] at hc; obtain ⟨hg, rfl⟩ := guard_some hc
  simp only [Bool.and_eq_true, decide_eq_true_eq] at hg
  obtain ⟨⟨hcv, hw⟩, _⟩ := hg
  by_cases hcw : c.v = w
  · rw [if_pos hcw]; exact ⟨st, rfl⟩
  · rw [if_neg hcw]
    have hne' : w ≠ c.v := fun e => hcw e.symm
    by_cases hA : c.k = .A
    · rw [if_pos hA]
      obtain ⟨s1, e1⟩ := aTruncate_def (s := st) c.v 0 hcv (ha.2 _ hcv)
      obtain ⟨i1, _, f1⟩ := step_post h e1
      have hal : (s1.arrs c.v).alive = true := by
        rw [(exec_alive _ (Stable.exec_exec' e1)).2 c.v]; exact ha.2 _ hcv
      simp only [List.cons_append, List.nil_append]
      refine execAll_cons_def e1 ?_
      have := reserve_copy_def i1 c.v w hcv hne' hal (aTruncate0_size h c.v e1)
      rw [f1 w (by simp [Micro.arrTargets, hne'])] at this
      exact this
    · rw [if_neg hA]
      have hv := valid_of hcv hA
      obtain ⟨s1, e1⟩ := clear_def (s := st) c hv (ha.1 _ hv)
      obtain ⟨i1, f1, _⟩ := step_post h e1
      have hal : (s1.nodes c).alive = true := by
        rw [(exec_alive _ (Stable.exec_exec' e1)).1 c]; exact ha.1 _ hv
      simp only [List.cons_append, List.nil_append]
      refine execAll_cons_def e1 ?_
      have hwc : (⟨c.k, w⟩ : Var) ≠ c := by
        intro e
        have : (⟨c.k, w⟩ : Var).v = c.v := by rw [e]
        exact hne' this
      exact copyItems_def i1 c ⟨c.k, w⟩ hv rfl hal _
        (by rw [f1 _ (by simp [Micro.nodeTargets, hwc])]; exact Nat.le_refl _)

theorem nf_swap (c : Var) (w : Nat) : stepRes st (.swap c w) ≠ .fault := by
  apply stepRes_ne_fault; intro ms hc
  simp only [compile] at hc; obtain ⟨hg, rfl⟩ := guard_some hc
  simp only [Bool.and_eq_true, decide_eq_true_eq] at hg
  obtain ⟨⟨⟨hcv, hw⟩, _⟩, _⟩ := hg
  by_cases hA : c.k = .A
  · rw [if_pos hA]
    exact execAll_one_def (aSwap_def c.v w hcv hw (ha.2 _ hcv) (ha.2 _ hw))
  · rw [if_neg hA]
    have hv := valid_of hcv hA
    have hv2 : (⟨c.k, w⟩ : Var).valid = true := valid_of hw hA
    exact execAll_one_def (swap_def c ⟨c.k, w⟩ hv hv2 (ha.1 _ hv) (ha.1 _ hv2) rfl)

theorem nf_clear (c : Var) : stepRes st (.clear c) ≠ .fault := by
  apply stepRes_ne_fault; intro ms hc
  simp only [compile] at hc; obtain ⟨hg, rfl⟩ := guard_some hc
  simp only [decide_eq_true_eq] at hg
  by_cases hA : c.k = .A
  · rw [if_pos hA]
    exact execAll_one_def (aTruncate_def c.v 0 hg (ha.2 _ hg))
  · rw [if_neg hA]
    have hv := valid_of hg hA
    exact execAll_one_def (clear_def c hv (ha.1 _ hv))

/-- no operation faults in a state satisfying the invariant in which all variables are alive -/
theorem no_fault_st (op : Op) : stepRes st op ≠ .fault := by
  cases op with
  | new c => exact nf_new h ha c
  | newcap c n => exact nf_newcap h ha c n
  | copy c w => exact nf_copy h ha c w
  | assign c w => exact nf_assign h ha c w
  | swap c w => exact nf_swap h ha c w
  | clear c => exact nf_clear h ha c
  | aAppend v x => exact nf_aAppend h ha v x
  | aAppendRef v i => exact nf_aAppendRef h ha v i
  | aAppendArr v w => exact nf_aAppendArr h ha v w
  | aAppendPtr v i n => exact nf_aAppendPtr h ha v i n
  | aResize v n x => exact nf_aResize h ha v n x
  | aResizeRef v n i => exact nf_aResizeRef h ha v n i
  | aReserve v n => exact nf_aReserve h ha v n
  | aRemove v i => exact nf_aRemove h ha v i
  | aRemoveIt v i => exact nf_aRemoveIt h ha v i
  | aSet v i x => exact nf_aSet h ha v i x
  | lInsert v pos x => exact nf_lInsert h ha v pos x
  | lInsertRef v pos i => exact nf_lInsertRef h ha v pos i
  | lInsertList v pos w => exact nf_lInsertList h ha v pos w
  | lRemove v i => exact nf_lRemove h ha v i
  | lRemoveVal v x => exact nf_lRemoveVal h ha v x
  | lRemoveValRef v i => exact nf_lRemoveValRef h ha v i
  | lSet v i x => exact nf_lSet h ha v i x
  | lSort v orc => exact nf_lSort h ha v orc
  | mInsert c k x => exact nf_mInsert h ha c k x
  | mInsertHint c pos k x => exact nf_mInsertHint h ha c pos k x
  | mInsertRef c k i => exact nf_mInsertRef h ha c k i
  | mInsertMap c w => exact nf_mInsertMap h ha c w
  | mRemove c k => exact nf_mRemove h ha c k
  | mRemoveAt c i => exact nf_mRemoveAt h ha c i
  | mSet c i x => exact nf_mSet h ha c i x
  | hInsert v pos k x => exact nf_hInsert h ha v pos k x
  | hAppendRef v k i => exact nf_hAppendRef h ha v k i
  | hRemove v k => exact nf_hRemove h ha v k
  | hRemoveAt v i => exact nf_hRemoveAt h ha v i
  | hSet v i x => exact nf_hSet h ha v i x
  | sInsert v pos k => exact nf_sInsert h ha v pos k
  | sAppendRef v i => exact nf_sAppendRef h ha v i
  | sAppendSet v w => exact nf_sAppendSet h ha v w
  | sRemove v k => exact nf_sRemove h ha v k
  | sRemoveRef v i => exact nf_sRemoveRef h ha v i
  | sRemoveSet v w => exact nf_sRemoveSet h ha v w
  | sRemoveAt v i => exact nf_sRemoveAt h ha v i
  | pAppend v x => exact nf_pAppend h ha v x
  | pRemove v i => exact nf_pRemove h ha v i
  | pRemoveRef v i => exact nf_pRemoveRef h ha v i
  | qAppend v k x => exact nf_qAppend h ha v k x
  | qRemove v k => exact nf_qRemove h ha v k
  | qRemoveAt v i => exact nf_qRemoveAt h ha v i
  | qRemoveRef v i => exact nf_qRemoveRef h ha v i
  | pRemoveChain v i j => exact nf_pRemoveChain h ha v i j
  | qInsert v pos k x => exact nf_qInsert h ha v pos k x
  | qRemoveChain v i j => exact nf_qRemoveChain h ha v i j

end ops

/-- the model never faults in a reachable state: every compiled micro list executes completely -/
theorem no_fault (p : Per) (ops : List Op) (op : Op) : stepRes (run (init p) ops) op ≠ Res.fault :=
  no_fault_st (reach_ok p ops).1 (allAlive_reach p ops) op

end Nstd.Life.Ops
