import Nstd.Life.LemmasOps
/-
  E4: the model never faults in a reachable state.  Part 1: when a micro step is executable
  (`…_def`) and what it leaves in place for the next step of a compiled list.
-/
namespace Nstd.Life.Ops
open Nstd.Life

theorem exec_of_valid {s : State} {m : Micro} (hv : m.valid = true) : exec s m = exec' s m := by
  unfold exec; rw [if_pos hv]

theorem findField_lt (st : State) (f p : Nat) : ∀ (items : List Item) (j : Nat),
    findField st f p items = some j → j < items.length
  | [], j, h => by simp [findField] at h
  | it :: rest, j, h => by
    simp only [findField] at h
    by_cases hc : st.mem (it.loc f) = some p
    · simp only [hc, if_true, Option.some.injEq] at h
      subst h; simp
    · simp only [hc, if_false, Option.map_eq_some_iff] at h
      obtain ⟨j', hj', rfl⟩ := h
      have := findField_lt st f p rest j' hj'
      simp only [List.length_cons]; omega

theorem hasKey_iff (k : Kind) : k.hasKey = true ↔ 0 ∈ k.fields := by
  cases k <;> simp [Kind.hasKey, Kind.fields]

theorem one_mem_fields (k : Kind) : 1 ∈ k.fields ↔ k ≠ .S := by
  cases k <;> simp [Kind.fields]

-- sources ---------------------------------------------------------------------------------------------------

def SrcOK (s : State) (r : SrcRef) : Prop := (resolve s r).isSome = true

theorem srcOK_ext (s : State) (x : Nat) : SrcOK s (.ext x) := by simp [SrcOK, resolve, SrcRef.loc]
theorem srcOK_inplace (s : State) (x : Nat) : SrcOK s (.inplace x) := by simp [SrcOK, resolve, SrcRef.loc]

theorem srcOK_item {s : State} {w : Var} {j f : Nat} (hf : f ∈ w.k.fields) (hj : j < (s.nodes w).items.length) :
    SrcOK s (.item w j f) := by
  simp [SrcOK, resolve, SrcRef.loc, hf, List.getElem?_eq_getElem hj]

theorem srcOK_elem {s : State} {a j x : Nat} (hs : (s.arrs a).store = some x) (hj : j < (s.arrs a).size) :
    SrcOK s (.elem a j) := by
  simp [SrcOK, resolve, SrcRef.loc, hs, hj]

theorem srcOK_elem' {s : State} (h : SInv s) {a j : Nat} (hj : j < (s.arrs a).size) : SrcOK s (.elem a j) := by
  cases hs : (s.arrs a).store with
  | none => rw [h.arr_none a hs] at hj; omega
  | some x => exact srcOK_elem hs hj

def NotInplace : SrcRef → Prop
  | .inplace _ => False
  | _ => True

theorem resolve_loc_some {s : State} {r : SrcRef} (hn : NotInplace r) {l : Option Loc} {p : Option Nat}
    (hr : resolve s r = some (l, p)) : ∃ l', l = some l' := by
  cases r with
  | inplace q => cases hn
  | ext q =>
    simp only [resolve, SrcRef.loc, Option.some.injEq, Prod.mk.injEq] at hr
    exact ⟨_, hr.1.symm⟩
  | item c j f =>
    simp only [resolve, SrcRef.loc] at hr
    by_cases hf : f ∈ c.k.fields
    · simp only [hf, if_true] at hr
      cases hj : (s.nodes c).items[j]? with
      | none => simp [hj] at hr
      | some it =>
        simp only [hj, Option.map_some, Option.some.injEq, Prod.mk.injEq] at hr
        exact ⟨_, hr.1.symm⟩
    · simp [hf] at hr
  | elem a j =>
    simp only [resolve, SrcRef.loc] at hr
    cases hs : (s.arrs a).store with
    | none => simp [hs] at hr
    | some x =>
      simp only [hs] at hr
      by_cases hj : j < (s.arrs a).size
      · simp only [hj, if_true, Option.some.injEq, Prod.mk.injEq] at hr
        exact ⟨_, hr.1.symm⟩
      · simp [hj] at hr

/-- a resolvable operand yields a payload -/
theorem srcOK_payload {s : State} (h : SInv s) {r : SrcRef} (hr : SrcOK s r) :
    ∃ l p, resolve s r = some (l, some p) ∧ r.payload s = some p := by
  unfold SrcOK at hr
  cases hx : resolve s r with
  | none => rw [hx] at hr; cases hr
  | some lp =>
    obtain ⟨l, p⟩ := lp
    have hp := (resolve_live h r l p hx).1
    cases p with
    | none => cases hp
    | some q =>
      refine ⟨l, q, rfl, ?_⟩
      unfold resolve at hx
      cases hl : r.loc s with
      | none => simp [hl] at hx
      | some l' =>
        simp only [hl, Option.some.injEq, Prod.mk.injEq] at hx
        exact hx.2

-- put -------------------------------------------------------------------------------------------------------

theorem mapM_def (kr vr : Option (Option Loc × Option Nat)) : ∀ fs : List Nat,
    (∀ f, f ∈ fs → (if f = 0 then kr else vr) ≠ none) →
    ∃ srcs, fs.mapM (fun f => match (if f = 0 then kr else vr) with
      | some (l, p) => some (f, l, p)
      | none => none) = some srcs
  | [], _ => ⟨[], rfl⟩
  | f :: rest, h => by
    obtain ⟨ys, hys⟩ := mapM_def kr vr rest (fun f' hf' => h f' (by simp [hf']))
    have hf := h f (by simp)
    cases hx : (if f = 0 then kr else vr) with
    | none => exact absurd hx hf
    | some lp =>
      obtain ⟨l, p⟩ := lp
      refine ⟨(f, l, p) :: ys, ?_⟩
      simp only [List.mapM_cons, hx, hys, Option.pure_def, Option.bind_eq_bind, Option.bind_some]

theorem putResolved_def {s : State} (c : Var) (p : Nat) (kr vr : Option (Option Loc × Option Nat))
    (srcs : List (Nat × Option Loc × Option Nat))
    (hkey : c.k.hasKey = true → ∃ l kp, kr = some (l, some kp))
    (hval : c.k = .M ∨ c.k = .H → ∃ vl vp, vr = some (some vl, vp)) :
    ∃ s', putResolved s c p kr vr srcs = some s' := by
  unfold putResolved
  by_cases hk : c.k.hasKey = true
  · obtain ⟨l, kp, rfl⟩ := hkey hk
    simp only [hk, if_true]
    by_cases hU : c.k = .U
    · simp only [hU, if_true]; exact ⟨_, rfl⟩
    · simp only [hU, if_false]
      cases hfind : findField s 0 kp (s.nodes c).items with
      | none => exact ⟨_, rfl⟩
      | some j =>
        simp only
        by_cases hMH : c.k = .M ∨ c.k = .H
        · simp only [hMH, if_true]
          have hj := findField_lt s 0 kp _ j hfind
          rw [List.getElem?_eq_getElem hj]
          obtain ⟨vl, vp, rfl⟩ := hval hMH
          exact ⟨_, rfl⟩
        · simp only [hMH, if_false]; exact ⟨_, rfl⟩
  · simp only [hk, Bool.false_eq_true, if_false]; exact ⟨_, rfl⟩

theorem resolveOpt_def {s : State} (k : Option SrcRef) (hk : ∀ r, k = some r → SrcOK s r) :
    ∃ kr, resolveOpt s k = some kr ∧ (k = none → kr = none) ∧
      (∀ r, k = some r → ∃ l p, kr = some (l, p) ∧ resolve s r = some (l, p)) := by
  cases k with
  | none =>
    refine ⟨none, rfl, fun _ => rfl, ?_⟩
    intro r hr; cases hr
  | some r =>
    have := hk r rfl
    unfold SrcOK at this
    cases hx : resolve s r with
    | none => rw [hx] at this; cases this
    | some lp =>
      obtain ⟨l, p⟩ := lp
      refine ⟨some (l, p), by simp [resolveOpt, hx], ?_, ?_⟩
      · intro h; cases h
      · intro r' hr'; cases hr'; exact ⟨l, p, rfl, hx⟩

/-- when `put` is executable -/
theorem put_def {s : State} (h : SInv s) (c : Var) (pos : Option Nat) (k v : Option SrcRef)
    (hv : c.valid = true) (ha : (s.nodes c).alive = true)
    (hpos : pos.getD (s.nodes c).items.length ≤ (s.nodes c).items.length)
    (hk : ∀ r, k = some r → SrcOK s r) (hk0 : 0 ∈ c.k.fields → k ≠ none)
    (hvv : ∀ r, v = some r → SrcOK s r) (hv1 : 1 ∈ c.k.fields → v ≠ none)
    (hMH : c.k = .M ∨ c.k = .H → ∀ r, v = some r → NotInplace r) :
    ∃ s', exec s (.put c pos k v) = some s' := by
  rw [exec_of_valid (show (Micro.put c pos k v).valid = true from hv)]
  obtain ⟨kr, hkr, hkn, hks⟩ := resolveOpt_def k hk
  obtain ⟨vr, hvr, hvn, hvs⟩ := resolveOpt_def v hvv
  have hsr : ∃ srcs, fieldSrcs c.k kr vr = some srcs := by
    apply mapM_def
    intro f hf
    by_cases hf0 : f = 0
    · subst hf0
      simp only [if_true]
      cases k with
      | none => exact absurd rfl (hk0 hf)
      | some r => obtain ⟨l, p, rfl, _⟩ := hks r rfl; simp
    · simp only [hf0, if_false]
      have hf1 : f = 1 := by
        have := fields_lt c.k f hf; omega
      subst hf1
      cases v with
      | none => exact absurd rfl (hv1 hf)
      | some r => obtain ⟨l, p, rfl, _⟩ := hvs r rfl; simp
  obtain ⟨srcs, hsr⟩ := hsr
  have hnp : ¬ pos.getD (s.nodes c).items.length > (s.nodes c).items.length := by omega
  simp only [exec', ha, Bool.not_true, Bool.false_eq_true, if_false, hkr, hvr, hsr, hnp]
  apply putResolved_def
  · intro hkey
    have h0 := (hasKey_iff c.k).mp hkey
    cases k with
    | none => exact absurd rfl (hk0 h0)
    | some r =>
      obtain ⟨l, p, rfl, hr⟩ := hks r rfl
      have hp := (resolve_live h r l p hr).1
      cases p with
      | none => cases hp
      | some q => exact ⟨l, q, rfl⟩
  · intro hmh
    have h1 : 1 ∈ c.k.fields := by
      rcases hmh with e | e <;> rw [e] <;> simp [Kind.fields]
    cases v with
    | none => exact absurd rfl (hv1 h1)
    | some r =>
      obtain ⟨l, p, rfl, hr⟩ := hvs r rfl
      obtain ⟨l', rfl⟩ := resolve_loc_some (hMH hmh r rfl) hr
      exact ⟨l', p, rfl⟩

theorem insertNew_items (s : State) (c : Var) (pos : Nat) (srcs : List (Nat × Option Loc × Option Nat)) :
    ∃ it, ((insertNew s c pos srcs).nodes c).items = insertAt (s.nodes c).items pos it := by
  obtain ⟨st1, hst1, i1⟩ : ∃ st1, st1 = (if c.k.isHash && (s.nodes c).data.isNone then allocData s c else s) ∧
      (st1.nodes c).items = (s.nodes c).items := by
    refine ⟨_, rfl, ?_⟩
    by_cases hc : (c.k.isHash && (s.nodes c).data.isNone) = true
    · rw [if_pos hc]; simp only [allocData, setNode_get]
    · rw [if_neg hc]
  obtain ⟨st2, hst2, i2, f2⟩ : ∃ st2, st2 = (if (st1.nodes c).free.isEmpty then allocBlock st1 c else st1) ∧
      (st2.nodes c).items = (st1.nodes c).items ∧ (st2.nodes c).free ≠ [] := by
    refine ⟨_, rfl, ?_⟩
    by_cases hc : (st1.nodes c).free.isEmpty = true
    · rw [if_pos hc]
      refine ⟨by simp only [allocBlock, setNode_get], ?_⟩
      simp only [allocBlock, setNode_get]
      intro he
      have := (newSlots_mem c.k st1.next ⟨st1.next, 0⟩).mpr ⟨rfl, Nat.zero_lt_succ 3⟩
      rw [he] at this; cases this
    · rw [if_neg hc]
      exact ⟨rfl, fun he => by rw [he] at hc; exact hc rfl⟩
  have heq : insertNew s c pos srcs =
      (match (st2.nodes c).free with | it :: rest => useSlot st2 c pos it rest srcs | [] => st2) := by
    subst hst2 hst1; rfl
  rw [heq]
  cases hfr : (st2.nodes c).free with
  | nil => exact absurd hfr f2
  | cons it rest =>
    refine ⟨it, ?_⟩
    simp only [useSlot, setNode_get]
    rw [i2, i1]

theorem insertAt_length {α : Type} (l : List α) (p : Nat) (x : α) : (insertAt l p x).length = l.length + 1 := by
  have := (insertAt_perm l p x).length_eq
  simpa using this

theorem putResolved_cases' {st st' : State} (c : Var) (p : Nat) (kr vr : Option (Option Loc × Option Nat))
    (srcs : List (Nat × Option Loc × Option Nat)) (he : putResolved st c p kr vr srcs = some st') :
    (∃ q, st' = insertNew st c q srcs) ∨
    (c.k.hasKey = true ∧ ((∃ (it : Item) (vl : Loc) (vp : Option Nat), st' = st.assign (it.loc 1) vl vp) ∨ st' = st)) := by
  by_cases hk : c.k.hasKey = true
  · rcases Stable.putResolved_cases c p kr vr srcs he with h | ⟨it, vl, vp, _, _, h⟩ | h
    · exact Or.inl h
    · exact Or.inr ⟨hk, Or.inl ⟨it, vl, vp, h⟩⟩
    · exact Or.inr ⟨hk, Or.inr h⟩
  · unfold putResolved at he
    simp only [hk, Bool.false_eq_true, if_false, Option.some.injEq] at he
    exact Or.inl ⟨_, he.symm⟩

/-- what `put` leaves in place: the target container only grows (by one for the containers without key),
    everything else is untouched -/
theorem put_post {s s' : State} (c : Var) (pos : Option Nat) (k v : Option SrcRef)
    (he : exec s (.put c pos k v) = some s') :
    (s.nodes c).items.length ≤ (s'.nodes c).items.length ∧
    (c.k.hasKey = false → (s'.nodes c).items.length = (s.nodes c).items.length + 1) ∧
    (∀ c', c' ≠ c → s'.nodes c' = s.nodes c') ∧ s'.arrs = s.arrs ∧ (s'.nodes c).alive = (s.nodes c).alive := by
  have he' := Stable.exec_exec' he
  obtain ⟨evs, sm⟩ := Stable.exec_sum _ he'
  have hal := (exec_alive _ he').1 c
  refine ⟨?_, ?_, fun c' hc' => sm.fnode c' (by simp [Micro.nodeTargets, hc']), ?_, hal⟩
  all_goals
    simp only [exec'] at he'
    by_cases ha : (s.nodes c).alive = true
    · simp only [ha, Bool.not_true, Bool.false_eq_true, if_false] at he'
      cases hkr : resolveOpt s k with
      | none => simp [hkr] at he'
      | some kr =>
        simp only [hkr] at he'
        cases hvr : resolveOpt s v with
        | none => simp [hvr] at he'
        | some vr =>
          simp only [hvr] at he'
          cases hsr : fieldSrcs c.k kr vr with
          | none => simp [hsr] at he'
          | some srcs =>
            simp only [hsr] at he'
            by_cases hpos : pos.getD (s.nodes c).items.length > (s.nodes c).items.length
            · simp [hpos] at he'
            · simp only [hpos, if_false] at he'
              rcases putResolved_cases' c _ kr vr srcs he' with ⟨q, rfl⟩ | ⟨hk, ⟨it, vl, vp, rfl⟩ | rfl⟩
              · obtain ⟨it, hit⟩ := insertNew_items s c q srcs
                first
                | (rw [hit, insertAt_length]; omega)
                | (intro _; rw [hit, insertAt_length])
                | (funext a; exact sm.farr a (by simp [Micro.arrTargets]))
              · first
                | exact Nat.le_refl _
                | (intro hk'; rw [hk] at hk'; cases hk')
                | rfl
              · first
                | exact Nat.le_refl _
                | (intro hk'; rw [hk] at hk'; cases hk')
                | rfl
    · simp [ha] at he'

-- the other node steps --------------------------------------------------------------------------------------

theorem assignVal_def {s : State} (c : Var) (j : Nat) (src : SrcRef) (hv : c.valid = true)
    (hf : 1 ∈ c.k.fields) (hj : j < (s.nodes c).items.length) (hs : SrcOK s src) (hn : NotInplace src) :
    ∃ s', exec s (.assignVal c j src) = some s' := by
  rw [exec_of_valid (show (Micro.assignVal c j src).valid = true from hv)]
  unfold SrcOK at hs
  cases hr : resolve s src with
  | none => rw [hr] at hs; cases hs
  | some lp =>
    obtain ⟨l, p⟩ := lp
    obtain ⟨l', rfl⟩ := resolve_loc_some hn hr
    simp [exec', hf, List.getElem?_eq_getElem hj, hr]

theorem remove_def {s : State} (c : Var) (j : Nat) (hv : c.valid = true) (hj : j < (s.nodes c).items.length) :
    ∃ s', exec s (.remove c j) = some s' := by
  rw [exec_of_valid (show (Micro.remove c j).valid = true from hv)]
  simp [exec', List.getElem?_eq_getElem hj]

theorem removeKey_def {s : State} (h : SInv s) (c : Var) (k : SrcRef) (hv : c.valid = true) (hs : SrcOK s k) :
    ∃ s', exec s (.removeKey c k) = some s' := by
  rw [exec_of_valid (show (Micro.removeKey c k).valid = true from hv)]
  obtain ⟨l, p, _, hp⟩ := srcOK_payload h hs
  simp only [exec', hp, Option.bind_eq_bind, Option.bind_some]
  cases hf : findField s 0 p (s.nodes c).items with
  | none => exact ⟨_, rfl⟩
  | some j =>
    simp only [List.getElem?_eq_getElem (findField_lt s 0 p _ j hf), Option.bind_some]
    exact ⟨_, rfl⟩

theorem removeVal_def {s : State} (h : SInv s) (c : Var) (k : SrcRef) (hv : c.valid = true) (hs : SrcOK s k) :
    ∃ s', exec s (.removeVal c k) = some s' := by
  rw [exec_of_valid (show (Micro.removeVal c k).valid = true from hv)]
  obtain ⟨l, p, _, hp⟩ := srcOK_payload h hs
  simp only [exec', hp, Option.bind_eq_bind, Option.bind_some]
  cases hf : findField s 1 p (s.nodes c).items with
  | none => exact ⟨_, rfl⟩
  | some j =>
    simp only [List.getElem?_eq_getElem (findField_lt s 1 p _ j hf), Option.bind_some]
    exact ⟨_, rfl⟩

theorem clear_def {s : State} (c : Var) (hv : c.valid = true) (ha : (s.nodes c).alive = true) :
    ∃ s', exec s (.clear c) = some s' := by
  rw [exec_of_valid (show (Micro.clear c).valid = true from hv)]
  simp [exec', ha]

theorem destroy_def {s : State} (c : Var) (hv : c.valid = true) (ha : (s.nodes c).alive = true) :
    ∃ s', exec s (.destroy c) = some s' := by
  rw [exec_of_valid (show (Micro.destroy c).valid = true from hv)]
  simp [exec', ha]

theorem create_def {s : State} (c : Var) (hv : c.valid = true) (ha : (s.nodes c).alive = false) :
    ∃ s', exec s (.create c) = some s' := by
  rw [exec_of_valid (show (Micro.create c).valid = true from hv)]
  simp [exec', ha]

theorem swap_def {s : State} (c d : Var) (hc : c.valid = true) (hd : d.valid = true)
    (hac : (s.nodes c).alive = true) (had : (s.nodes d).alive = true) (hk : c.k = d.k) :
    ∃ s', exec s (.swap c d) = some s' := by
  rw [exec_of_valid (show (Micro.swap c d).valid = true by simp [Micro.valid, hc, hd])]
  simp [exec', hac, had, hk]

-- the array steps -------------------------------------------------------------------------------------------

theorem aReserve_def {s : State} (a n : Nat) (hv : a ≤ 1) (ha : (s.arrs a).alive = true) :
    ∃ s', exec s (.aReserve a n) = some s' := by
  rw [exec_of_valid (show (Micro.aReserve a n).valid = true by simp [Micro.valid, hv])]
  simp only [exec', ha, Bool.not_true, Bool.false_eq_true, if_false]
  by_cases hc : (decide (n > (s.arrs a).cap) || (s.arrs a).store.isNone && decide (n > 0)) = true
  · rw [if_pos hc]; exact ⟨_, rfl⟩
  · rw [if_neg hc]; exact ⟨_, rfl⟩

theorem aPush_def {s : State} (a : Nat) (src : SrcRef) (hv : a ≤ 1) (hst : (s.arrs a).store.isSome = true)
    (hc : (s.arrs a).size < (s.arrs a).cap) (hs : SrcOK s src) : ∃ s', exec s (.aPush a src) = some s' := by
  rw [exec_of_valid (show (Micro.aPush a src).valid = true by simp [Micro.valid, hv])]
  unfold SrcOK at hs
  cases hx : (s.arrs a).store with
  | none => rw [hx] at hst; cases hst
  | some x =>
    cases hr : resolve s src with
    | none => rw [hr] at hs; cases hs
    | some lp =>
      have : ¬ (s.arrs a).size ≥ (s.arrs a).cap := by omega
      simp [exec', hx, hr, this]

theorem aTruncate_def {s : State} (a n : Nat) (hv : a ≤ 1) (ha : (s.arrs a).alive = true) :
    ∃ s', exec s (.aTruncate a n) = some s' := by
  rw [exec_of_valid (show (Micro.aTruncate a n).valid = true by simp [Micro.valid, hv])]
  simp only [exec', ha, Bool.not_true, Bool.false_eq_true, if_false]
  cases (s.arrs a).store with
  | none => exact ⟨_, rfl⟩
  | some x =>
    simp only
    by_cases hn : n < (s.arrs a).size
    · rw [if_pos hn]; exact ⟨_, rfl⟩
    · rw [if_neg hn]; exact ⟨_, rfl⟩

theorem aAssign_def {s : State} (h : SInv s) (a j : Nat) (src : SrcRef) (hv : a ≤ 1) (hj : j < (s.arrs a).size)
    (hs : SrcOK s src) (hn : NotInplace src) : ∃ s', exec s (.aAssign a j src) = some s' := by
  rw [exec_of_valid (show (Micro.aAssign a j src).valid = true by simp [Micro.valid, hv])]
  unfold SrcOK at hs
  cases hx : (s.arrs a).store with
  | none => rw [h.arr_none a hx] at hj; omega
  | some x =>
    cases hr : resolve s src with
    | none => rw [hr] at hs; cases hs
    | some lp =>
      obtain ⟨l, p⟩ := lp
      obtain ⟨l', rfl⟩ := resolve_loc_some hn hr
      have : ¬ j ≥ (s.arrs a).size := by omega
      simp [exec', hx, hr, this]

theorem aRemove_def {s : State} (h : SInv s) (a j : Nat) (hv : a ≤ 1) (hj : j < (s.arrs a).size) :
    ∃ s', exec s (.aRemove a j) = some s' := by
  rw [exec_of_valid (show (Micro.aRemove a j).valid = true by simp [Micro.valid, hv])]
  cases hx : (s.arrs a).store with
  | none => rw [h.arr_none a hx] at hj; omega
  | some x =>
    have : ¬ j ≥ (s.arrs a).size := by omega
    simp [exec', hx, this]

theorem aDestroy_def {s : State} (a : Nat) (hv : a ≤ 1) (ha : (s.arrs a).alive = true) :
    ∃ s', exec s (.aDestroy a) = some s' := by
  rw [exec_of_valid (show (Micro.aDestroy a).valid = true by simp [Micro.valid, hv])]
  simp [exec', ha]

theorem aCreate_def {s : State} (a n : Nat) (hv : a ≤ 1) (ha : (s.arrs a).alive = false) :
    ∃ s', exec s (.aCreate a n) = some s' := by
  rw [exec_of_valid (show (Micro.aCreate a n).valid = true by simp [Micro.valid, hv])]
  simp [exec', ha]

theorem aSwap_def {s : State} (a b : Nat) (ha : a ≤ 1) (hb : b ≤ 1)
    (haa : (s.arrs a).alive = true) (hab : (s.arrs b).alive = true) : ∃ s', exec s (.aSwap a b) = some s' := by
  rw [exec_of_valid (show (Micro.aSwap a b).valid = true by simp [Micro.valid, ha, hb])]
  simp [exec', haa, hab]

end Nstd.Life.Ops
