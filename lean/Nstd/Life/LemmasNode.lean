import Nstd.Life.LemmasCore
/-
  Facts about the slots of one node container derived from `SInv`, and the generic lemma
  `node_local`: an update that permutes the slots of one container between `items` and `free`
  and changes liveness only inside that slot set keeps the invariant.
-/
namespace Nstd.Life

theorem loc_inj {it it' : Item} {f f' : Nat} (h : it.loc f = it'.loc f') : it = it' ∧ f = f' := by
  cases it; cases it'
  simp only [Item.loc, Loc.heap.injEq] at h
  obtain ⟨rfl, rfl, rfl⟩ := h
  exact ⟨rfl, rfl⟩

theorem SInv.item_block {st : State} (h : SInv st) {c : Var} {it : Item}
    (hi : it ∈ (st.nodes c).items ++ (st.nodes c).free) : owns st (.node c) it.b :=
  Or.inl (h.slots_in c it hi).1

/-- a slot belongs to one container only -/
theorem SInv.slot_owner {st : State} (h : SInv st) {c c' : Var} {it : Item}
    (hi : it ∈ (st.nodes c).items ++ (st.nodes c).free)
    (hi' : it ∈ (st.nodes c').items ++ (st.nodes c').free) : c = c' := by
  have := h.own_unique _ _ _ (h.item_block hi) (h.item_block hi')
  cases this; rfl

/-- a slot of a node container is not an array element -/
theorem SInv.slot_not_arr {st : State} (h : SInv st) {c : Var} {it : Item} {a s : Nat}
    (hi : it ∈ (st.nodes c).items ++ (st.nodes c).free) (hs : (st.arrs a).store = some s) : it.b ≠ s := by
  intro he
  have := h.own_unique (.node c) (.arr a) it.b (h.item_block hi) (by simpa [owns, he] using hs)
  cases this

/-- the objects of a free slot are dead -/
theorem SInv.free_dead {st : State} (h : SInv st) {c : Var} {it : Item} (hi : it ∈ (st.nodes c).free) (f : Nat) :
    st.mem (it.loc f) = none := by
  cases hm : st.mem (it.loc f) with
  | none => rfl
  | some p =>
    exfalso
    have hin : it ∈ (st.nodes c).items ++ (st.nodes c).free := List.mem_append_right _ hi
    rcases h.live_owned _ (by rw [hm]; rfl) with ⟨c', it', f', h1, _, h3⟩ | ⟨a, s, i, h1, _, h3⟩ | ⟨c', f', _, _, h3⟩
    · obtain ⟨rfl, rfl⟩ := loc_inj h3
      have hin' : it ∈ (st.nodes c').items ++ (st.nodes c').free := List.mem_append_left _ h1
      obtain rfl := h.slot_owner hin hin'
      exact (List.nodup_append.mp (h.slots_nodup c)).2.2 it h1 it hi rfl
    · simp only [Item.loc, Loc.heap.injEq] at h3
      exact h.slot_not_arr hin h1 h3.1
    · cases h3

/-- exactly the member objects of an item are live -/
theorem SInv.item_live_iff {st : State} (h : SInv st) {c : Var} {it : Item} (hi : it ∈ (st.nodes c).items) (f : Nat) :
    (st.mem (it.loc f)).isSome = true ↔ f ∈ c.k.fields := by
  constructor
  · intro hm
    have hin : it ∈ (st.nodes c).items ++ (st.nodes c).free := List.mem_append_left _ hi
    rcases h.live_owned _ hm with ⟨c', it', f', h1, h2, h3⟩ | ⟨a, s, i, h1, _, h3⟩ | ⟨c', f', _, _, h3⟩
    · obtain ⟨rfl, rfl⟩ := loc_inj h3
      obtain rfl := h.slot_owner hin (List.mem_append_left _ h1)
      exact h2
    · simp only [Item.loc, Loc.heap.injEq] at h3
      exact absurd h3.1 (h.slot_not_arr hin h1)
    · cases h3
  · exact h.items_live c it f hi

/-- the slot set of a container -/
def inSlots (st : State) (c : Var) (l : Loc) : Prop :=
  ∃ it f, it ∈ (st.nodes c).items ++ (st.nodes c).free ∧ l = it.loc f

theorem owns_node_congr {st st' : State} {c : Var}
    (hb : (st'.nodes c).blocks = (st.nodes c).blocks) (hd : (st'.nodes c).data = (st.nodes c).data)
    (hn : ∀ c', c' ≠ c → st'.nodes c' = st.nodes c') (ha : st'.arrs = st.arrs) (o : Owner) (b : Nat) :
    owns st' o b ↔ owns st o b := by
  cases o with
  | node c' =>
    by_cases hc : c' = c
    · subst hc; simp only [owns, hb, hd]
    · simp only [owns, hn c' hc]
  | arr a => simp only [owns, ha]

/-- Generic step inside one node container c: the slots are redistributed between `items` and `free`
    (same slot set, still without duplicates), blocks / data / alive of c and everything about the other
    containers, the arrays and the block table stay, and liveness changes only inside the slot set of c,
    where afterwards exactly the member objects of the new items are live. -/
theorem node_local {st st' : State} (h : SInv st) (c : Var) (I F : List Item)
    (hnodes : st'.nodes = upd st.nodes c { st.nodes c with items := I, free := F })
    (harrs : st'.arrs = st.arrs) (hblk : st'.blk = st.blk) (hnext : st'.next = st.next) (hper : st'.per = st.per)
    (hnd : (I ++ F).Nodup)
    (hset : ∀ it, it ∈ I ++ F ↔ it ∈ (st.nodes c).items ++ (st.nodes c).free)
    (hout : ∀ l, ¬ inSlots st c l → (st'.mem l).isSome = (st.mem l).isSome)
    (hin : ∀ it f, it ∈ I ++ F → ((st'.mem (it.loc f)).isSome = true ↔ it ∈ I ∧ f ∈ c.k.fields))
    (hne : (st.nodes c).alive = false → I = [] ∧ F = []) :
    SInv st' := by
  have hc : st'.nodes c = { st.nodes c with items := I, free := F } := by rw [hnodes]; exact upd_same _ _ _
  have ho : ∀ c', c' ≠ c → st'.nodes c' = st.nodes c' := by
    intro c' hc'; rw [hnodes]; exact upd_other _ _ _ _ hc'
  have hown : ∀ o b, owns st' o b ↔ owns st o b :=
    owns_node_congr (by rw [hc]) (by rw [hc]) ho harrs
  -- a live location of another container / array / sentinel is outside the slot set of c
  have hother_items : ∀ c' it f, c' ≠ c → it ∈ (st.nodes c').items → ¬ inSlots st c (it.loc f) := by
    intro c' it f hc' hi ⟨it', f', hi', he⟩
    obtain ⟨rfl, rfl⟩ := loc_inj he
    exact hc' (h.slot_owner (List.mem_append_left _ hi) hi')
  have harr_out : ∀ a s i, (st.arrs a).store = some s → ¬ inSlots st c (.heap s i 1) := by
    intro a s i hs ⟨it', f', hi', he⟩
    simp only [Item.loc, Loc.heap.injEq] at he
    exact h.slot_not_arr hi' hs he.1.symm
  have hsent_out : ∀ c' f, ¬ inSlots st c (.sent c' f) := by
    intro c' f ⟨it', f', _, he⟩; cases he
  constructor
  · intro c'
    by_cases hc' : c' = c
    · subst hc'; rw [hc]; exact hnd
    · rw [ho c' hc']; exact h.slots_nodup c'
  · intro c' it hi
    by_cases hc' : c' = c
    · subst hc'; rw [hc] at hi ⊢; rw [hper]; exact h.slots_in c' it ((hset it).mp hi)
    · rw [ho c' hc'] at hi ⊢; rw [hper]; exact h.slots_in c' it hi
  · intro c'
    by_cases hc' : c' = c
    · subst hc'; rw [hc]; exact h.blocks_nodup c'
    · rw [ho c' hc']; exact h.blocks_nodup c'
  · intro c' d
    by_cases hc' : c' = c
    · subst hc'; rw [hc]; exact h.data_notin c' d
    · rw [ho c' hc']; exact h.data_notin c' d
  · intro o o' b h1 h2; exact h.own_unique o o' b ((hown o b).mp h1) ((hown o' b).mp h2)
  · intro c' b hb
    rw [hblk, hper]
    by_cases hc' : c' = c
    · subst hc'; rw [hc] at hb; exact h.blocks_blk c' b hb
    · rw [ho c' hc'] at hb; exact h.blocks_blk c' b hb
  · intro c' d hd
    rw [hblk]
    by_cases hc' : c' = c
    · subst hc'; rw [hc] at hd; exact h.data_blk c' d hd
    · rw [ho c' hc'] at hd; exact h.data_blk c' d hd
  · intro a s hs; rw [hblk]; rw [harrs] at hs ⊢; exact h.store_blk a s hs
  · intro b n hbn
    rw [hblk] at hbn
    obtain ⟨o, ho'⟩ := h.blk_own b n hbn
    exact ⟨o, (hown o b).mpr ho'⟩
  · intro b hb; rw [hblk]; rw [hnext] at hb; exact h.blk_lt b hb
  · intro c' it f hi hf
    by_cases hc' : c' = c
    · subst hc'; rw [hc] at hi
      exact (hin it f (List.mem_append_left _ hi)).mpr ⟨hi, hf⟩
    · rw [ho c' hc'] at hi
      rw [hout _ (hother_items c' it f hc' hi)]
      exact h.items_live c' it f hi hf
  · intro a s i hs hi
    rw [harrs] at hs hi
    rw [hout _ (harr_out a s i hs)]
    exact h.elems_live a s i hs hi
  · intro c' f ha hf
    rw [hout _ (hsent_out c' f)]
    by_cases hc' : c' = c
    · subst hc'; rw [hc] at ha; exact h.sent_live c' f ha hf
    · rw [ho c' hc'] at ha; exact h.sent_live c' f ha hf
  · intro l hl
    by_cases hs : inSlots st c l
    · obtain ⟨it, f, hi, rfl⟩ := hs
      have := (hin it f ((hset it).mpr hi)).mp hl
      exact Or.inl ⟨c, it, f, by rw [hc]; exact this.1, this.2, rfl⟩
    · rw [hout l hs] at hl
      rcases h.live_owned l hl with ⟨c', it, f, h1, h2, h3⟩ | ⟨a, s, i, h1, h2, h3⟩ | ⟨c', f, h1, h2, h3⟩
      · by_cases hc' : c' = c
        · subst hc'
          exact absurd ⟨it, f, List.mem_append_left _ h1, h3⟩ hs
        · exact Or.inl ⟨c', it, f, by rw [ho c' hc']; exact h1, h2, h3⟩
      · exact Or.inr (Or.inl ⟨a, s, i, by rw [harrs]; exact h1, by rw [harrs]; exact h2, h3⟩)
      · refine Or.inr (Or.inr ⟨c', f, ?_, h2, h3⟩)
        by_cases hc' : c' = c
        · subst hc'; rw [hc]; exact h1
        · rw [ho c' hc']; exact h1
  · intro a s hs; rw [harrs] at hs ⊢; exact h.arr_size a s hs
  · intro a hs; rw [harrs] at hs ⊢; exact h.arr_none a hs
  · intro c' ha
    by_cases hc' : c' = c
    · subst hc'; rw [hc] at ha ⊢
      have hz := h.dead_node c' ha
      obtain ⟨rfl, rfl⟩ := hne ha
      rw [hz]
    · rw [ho c' hc'] at ha ⊢; exact h.dead_node c' ha
  · intro a ha; rw [harrs] at ha ⊢; exact h.dead_arr a ha
  · intro c' hv
    by_cases hc' : c' = c
    · subst hc'; rw [hc]
      have hz := h.invalid_node c' hv
      have ha : (st.nodes c').alive = false := by rw [hz]
      obtain ⟨rfl, rfl⟩ := hne ha
      rw [hz]
    · rw [ho c' hc']; exact h.invalid_node c' hv
  · intro a ha; rw [harrs]; exact h.invalid_arr a ha

end Nstd.Life

namespace Nstd.Life

theorem SInv.owns_blk {st : State} (h : SInv st) {o : Owner} {b : Nat} (ho : owns st o b) : ∃ n, st.blk b = some n := by
  cases o with
  | node c =>
    rcases ho with ho | ho
    · exact ⟨_, h.blocks_blk c b ho⟩
    · exact ⟨0, h.data_blk c b ho⟩
  | arr a => exact ⟨_, h.store_blk a b ho⟩

theorem SInv.owns_lt {st : State} (h : SInv st) {o : Owner} {b : Nat} (ho : owns st o b) : b < st.next := by
  obtain ⟨n, hn⟩ := h.owns_blk ho
  cases Nat.lt_or_ge b st.next with
  | inl hlt => exact hlt
  | inr hge => rw [h.blk_lt b hge] at hn; cases hn

/-- Generic step: node c acquires the fresh block `st.next` (an item block or the hash table);
    its items, and all memory, stay. -/
theorem node_alloc {st st' : State} (h : SInv st) (c : Var) (n' : Node) (k : Nat)
    (hnodes : st'.nodes = upd st.nodes c n') (harrs : st'.arrs = st.arrs) (hmem : st'.mem = st.mem)
    (hblk : st'.blk = upd st.blk st.next (some k)) (hnext : st'.next = st.next + 1) (hper : st'.per = st.per)
    (hitems : n'.items = (st.nodes c).items) (halive : n'.alive = true) (halive0 : (st.nodes c).alive = true)
    (hvalid : c.valid = true)
    (hnd : (n'.items ++ n'.free).Nodup)
    (hin : ∀ it, it ∈ n'.items ++ n'.free → it.b ∈ n'.blocks ∧ it.i < st.per.f c.k)
    (hbn : n'.blocks.Nodup) (hdn : ∀ d, n'.data = some d → d ∉ n'.blocks)
    (hbb : ∀ x, x ∈ n'.blocks → st'.blk x = some (st.per.f c.k)) (hdb : ∀ d, n'.data = some d → st'.blk d = some 0)
    (hown : ∀ x, (x ∈ n'.blocks ∨ n'.data = some x) ↔ ((x ∈ (st.nodes c).blocks ∨ (st.nodes c).data = some x) ∨ x = st.next)) :
    SInv st' := by
  have hc : st'.nodes c = n' := by rw [hnodes]; exact upd_same _ _ _
  have ho : ∀ c', c' ≠ c → st'.nodes c' = st.nodes c' := by
    intro c' hc'; rw [hnodes]; exact upd_other _ _ _ _ hc'
  have hfresh : ∀ o, ¬ owns st o st.next := fun o ho' => Nat.lt_irrefl _ (h.owns_lt ho')
  have hown' : ∀ o x, owns st' o x ↔ (owns st o x ∨ (o = .node c ∧ x = st.next)) := by
    intro o x
    cases o with
    | node c' =>
      by_cases hc' : c' = c
      · subst hc'
        simp only [owns, hc, hown x, true_and]
      · simp only [owns, ho c' hc', Owner.node.injEq, hc', false_and, or_false]
    | arr a => simp only [owns, harrs, reduceCtorEq, false_and, or_false]
  have hblk_old : ∀ x n, st.blk x = some n → st'.blk x = some n := by
    intro x n hx
    have : x ≠ st.next := by
      intro he; rw [he, h.blk_lt _ (Nat.le_refl _)] at hx; cases hx
    rw [hblk, upd_other _ _ _ _ this]; exact hx
  have hlive : ∀ l, LiveLoc st l → LiveLoc st' l := by
    intro l hl
    rcases hl with ⟨c', it, f, h1, h2, h3⟩ | ⟨a, s, i, h1, h2, h3⟩ | ⟨c', f, h1, h2, h3⟩
    · refine Or.inl ⟨c', it, f, ?_, h2, h3⟩
      by_cases hc' : c' = c
      · subst hc'; rw [hc, hitems]; exact h1
      · rw [ho c' hc']; exact h1
    · exact Or.inr (Or.inl ⟨a, s, i, by rw [harrs]; exact h1, by rw [harrs]; exact h2, h3⟩)
    · refine Or.inr (Or.inr ⟨c', f, ?_, h2, h3⟩)
      by_cases hc' : c' = c
      · subst hc'; rw [hc]; exact halive
      · rw [ho c' hc']; exact h1
  constructor
  · intro c'
    by_cases hc' : c' = c
    · subst hc'; rw [hc]; exact hnd
    · rw [ho c' hc']; exact h.slots_nodup c'
  · intro c' it hi
    by_cases hc' : c' = c
    · subst hc'; rw [hc] at hi ⊢; rw [hper]; exact hin it hi
    · rw [ho c' hc'] at hi ⊢; rw [hper]; exact h.slots_in c' it hi
  · intro c'
    by_cases hc' : c' = c
    · subst hc'; rw [hc]; exact hbn
    · rw [ho c' hc']; exact h.blocks_nodup c'
  · intro c' d
    by_cases hc' : c' = c
    · subst hc'; rw [hc]; exact hdn d
    · rw [ho c' hc']; exact h.data_notin c' d
  · intro o o' b h1 h2
    rcases (hown' o b).mp h1 with h1 | ⟨rfl, rfl⟩
    · rcases (hown' o' b).mp h2 with h2 | ⟨rfl, rfl⟩
      · exact h.own_unique o o' b h1 h2
      · exact absurd h1 (hfresh o)
    · rcases (hown' o' _).mp h2 with h2 | ⟨rfl, _⟩
      · exact absurd h2 (hfresh o')
      · rfl
  · intro c' b hb
    by_cases hc' : c' = c
    · subst hc'; rw [hc] at hb; rw [hper]; exact hbb b hb
    · rw [ho c' hc'] at hb; rw [hper]; exact hblk_old b _ (h.blocks_blk c' b hb)
  · intro c' d hd
    by_cases hc' : c' = c
    · subst hc'; rw [hc] at hd; exact hdb d hd
    · rw [ho c' hc'] at hd; exact hblk_old d 0 (h.data_blk c' d hd)
  · intro a s hs; rw [harrs] at hs ⊢; exact hblk_old s _ (h.store_blk a s hs)
  · intro b n hbn'
    rw [hblk] at hbn'
    by_cases hb : b = st.next
    · exact ⟨.node c, (hown' _ _).mpr (Or.inr ⟨rfl, hb⟩)⟩
    · rw [upd_other _ _ _ _ hb] at hbn'
      obtain ⟨o, ho'⟩ := h.blk_own b n hbn'
      exact ⟨o, (hown' o b).mpr (Or.inl ho')⟩
  · intro b hb
    rw [hnext] at hb
    rw [hblk, upd_other _ _ _ _ (by omega)]
    exact h.blk_lt b (by omega)
  · intro c' it f hi hf
    rw [hmem]
    by_cases hc' : c' = c
    · subst hc'; rw [hc, hitems] at hi; exact h.items_live c' it f hi hf
    · rw [ho c' hc'] at hi; exact h.items_live c' it f hi hf
  · intro a s i hs hi
    rw [harrs] at hs hi; rw [hmem]; exact h.elems_live a s i hs hi
  · intro c' f ha hf
    rw [hmem]
    by_cases hc' : c' = c
    · subst hc'; exact h.sent_live c' f halive0 hf
    · rw [ho c' hc'] at ha; exact h.sent_live c' f ha hf
  · intro l hl; rw [hmem] at hl; exact hlive l (h.live_owned l hl)
  · intro a s hs; rw [harrs] at hs ⊢; exact h.arr_size a s hs
  · intro a hs; rw [harrs] at hs ⊢; exact h.arr_none a hs
  · intro c' ha
    by_cases hc' : c' = c
    · subst hc'; rw [hc, halive] at ha; cases ha
    · rw [ho c' hc'] at ha ⊢; exact h.dead_node c' ha
  · intro a ha; rw [harrs] at ha ⊢; exact h.dead_arr a ha
  · intro c' hv
    by_cases hc' : c' = c
    · subst hc'; rw [hvalid] at hv; cases hv
    · rw [ho c' hc']; exact h.invalid_node c' hv
  · intro a ha; rw [harrs]; exact h.invalid_arr a ha

end Nstd.Life
