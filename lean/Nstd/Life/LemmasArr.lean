import Nstd.Life.LemmasNode
/-
  The array micro steps keep the state invariant `SInv` and emit a log accepted by the checker.
  Generic part: `store_live_iff` (exactly the elements below `size` are live in the storage block),
  `arr_replace` (one array variable gets a new record / a new storage block), `SInv.of_perm_arr`.
-/
namespace Nstd.Life.Arr
open Nstd.Life

theorem nodup_map_inj {α β : Type} (f : α → β) (hf : ∀ x y, f x = f y → x = y) (l : List α) (h : l.Nodup) :
    (l.map f).Nodup := by
  rw [List.nodup_iff_pairwise_ne, List.pairwise_map]
  exact (List.nodup_iff_pairwise_ne.mp h).imp (fun hne e => hne (hf _ _ e))

theorem mem_range' (lo hi i : Nat) : i ∈ range' lo hi ↔ lo ≤ i ∧ i < hi := by
  simp only [range', List.mem_map, List.mem_range]
  constructor
  · rintro ⟨x, hx, rfl⟩; omega
  · intro h; exact ⟨i - lo, by omega, by omega⟩

theorem nodup_range' (lo hi : Nat) : (range' lo hi).Nodup :=
  nodup_map_inj _ (fun x y e => by have e : x + lo = y + lo := e; omega) _ List.nodup_range

theorem mem_heapLocs (s : Nat) (l : List Nat) (x : Loc) :
    x ∈ l.map (fun i => Loc.heap s i 1) ↔ ∃ i, i ∈ l ∧ x = .heap s i 1 := by
  simp only [List.mem_map]
  constructor
  · rintro ⟨i, hi, rfl⟩; exact ⟨i, hi, rfl⟩
  · rintro ⟨i, hi, rfl⟩; exact ⟨i, hi, rfl⟩

theorem nodup_heapLocs (s : Nat) (l : List Nat) (h : l.Nodup) : (l.map (fun i => Loc.heap s i 1)).Nodup :=
  nodup_map_inj _ (fun x y e => by simp only [Loc.heap.injEq] at e; exact e.2.1) _ h

@[simp] theorem reserveCopy_per (st : State) (ob nb : Nat) (l : List Nat) : (reserveCopy st ob nb l).per = st.per := by
  induction l generalizing st with
  | nil => rfl
  | cons a rest ih => simp [reserveCopy, ih]

@[simp] theorem shiftDown_per (st : State) (s : Nat) (l : List Nat) : (shiftDown st s l).per = st.per := by
  induction l generalizing st with
  | nil => rfl
  | cons a rest ih => simp [shiftDown, ih]

/-- in the storage block of an array exactly the elements below `size` are live -/
theorem store_live_iff {st : State} (h : SInv st) {a s : Nat} (hs : (st.arrs a).store = some s) (i f : Nat) :
    (st.mem (.heap s i f)).isSome = true ↔ i < (st.arrs a).size ∧ f = 1 := by
  constructor
  · intro hm
    rcases h.live_owned _ hm with ⟨c', it', f', h1, _, h3⟩ | ⟨a', s', i', h1, h2, h3⟩ | ⟨c', f', _, _, h3⟩
    · simp only [Item.loc, Loc.heap.injEq] at h3
      exact absurd h3.1.symm (h.slot_not_arr (List.mem_append_left _ h1) hs)
    · simp only [Loc.heap.injEq] at h3
      obtain ⟨rfl, rfl, rfl⟩ := h3
      have := h.own_unique (.arr a) (.arr a') s hs h1
      cases this
      exact ⟨h2, rfl⟩
    · cases h3
  · rintro ⟨hi, rfl⟩; exact h.elems_live a s i hs hi

theorem store_dead {st : State} (h : SInv st) {a s : Nat} (hs : (st.arrs a).store = some s) (i f : Nat)
    (hi : ¬ (i < (st.arrs a).size ∧ f = 1)) : st.mem (.heap s i f) = none := by
  cases hm : st.mem (.heap s i f) with
  | none => rfl
  | some p => exact absurd ((store_live_iff h hs i f).mp (by simp [hm])) hi

/-- the element slots of a storage block -/
def inStore (o : Option Nat) (l : Loc) : Prop := ∃ b i, o = some b ∧ l = .heap b i 1

/-- Generic step on one array variable a: it gets the record x' (possibly with another storage block,
    which is either the old one or a block nobody owned), the old block (if it is replaced) is released,
    liveness changes only inside the element slots of the old and the new storage block, where afterwards
    exactly the elements of x' are live. -/
theorem arr_replace {st st' : State} (h : SInv st) (a : Nat) (x' : Arr) (hv : a ≤ 1)
    (harrs : st'.arrs = upd st.arrs a x') (hnodes : st'.nodes = st.nodes) (hper : st'.per = st.per)
    (hnext : st.next ≤ st'.next)
    (hfresh : ∀ s', x'.store = some s' → s' < st'.next)
    (hblkO : ∀ b, (st.arrs a).store ≠ some b → x'.store ≠ some b → st'.blk b = st.blk b)
    (hblkOld : ∀ b, (st.arrs a).store = some b → x'.store ≠ some b → st'.blk b = none)
    (hblkNew : ∀ s', x'.store = some s' → st'.blk s' = some x'.cap)
    (hnew : ∀ s', x'.store = some s' → (st.arrs a).store = some s' ∨ ∀ o, ¬ owns st o s')
    (hsize : ∀ s', x'.store = some s' → x'.size ≤ x'.cap)
    (hnone : x'.store = none → x'.size = 0)
    (hdead : x'.alive = false → x' = {})
    (hout : ∀ l, ¬ inStore (st.arrs a).store l → ¬ inStore x'.store l → (st'.mem l).isSome = (st.mem l).isSome)
    (hinNew : ∀ s' i, x'.store = some s' → ((st'.mem (.heap s' i 1)).isSome = true ↔ i < x'.size))
    (hinOld : ∀ b i, (st.arrs a).store = some b → x'.store ≠ some b → st'.mem (.heap b i 1) = none) :
    SInv st' := by
  have hc : st'.arrs a = x' := by rw [harrs]; exact upd_same _ _ _
  have ho : ∀ a', a' ≠ a → st'.arrs a' = st.arrs a' := by
    intro a' ha'; rw [harrs]; exact upd_other _ _ _ _ ha'
  have hown : ∀ o b, owns st' o b ↔ ((o ≠ .arr a ∧ owns st o b) ∨ (o = .arr a ∧ x'.store = some b)) := by
    intro o b
    cases o with
    | node c => simp only [owns, hnodes, ne_eq, reduceCtorEq, not_false_eq_true, true_and, false_and, or_false]
    | arr a' =>
      by_cases ha' : a' = a
      · subst ha'
        simp only [owns, hc, ne_eq, not_true_eq_false, false_and, true_and, false_or]
      · simp only [owns, ho a' ha', ne_eq, Owner.arr.injEq, ha', not_false_eq_true, true_and, false_and, or_false]
  -- a block owned by somebody else is neither the old nor the new storage block
  have hnotOld : ∀ o b, owns st o b → o ≠ .arr a → (st.arrs a).store ≠ some b := by
    intro o b h1 h2 h3
    exact h2 (h.own_unique o (.arr a) b h1 h3)
  have hnotNew : ∀ o b, owns st o b → o ≠ .arr a → x'.store ≠ some b := by
    intro o b h1 h2 h3
    rcases hnew b h3 with h4 | h4
    · exact hnotOld o b h1 h2 h4
    · exact h4 o h1
  have hkeep : ∀ o b, owns st o b → o ≠ .arr a → st'.blk b = st.blk b := by
    intro o b h1 h2
    exact hblkO b (hnotOld o b h1 h2) (hnotNew o b h1 h2)
  have houtOwn : ∀ o b i f, owns st o b → o ≠ .arr a →
      (st'.mem (.heap b i f)).isSome = (st.mem (.heap b i f)).isSome := by
    intro o b i f h1 h2
    apply hout
    · rintro ⟨b', i', h3, h4⟩
      cases h4; exact hnotOld o b h1 h2 h3
    · rintro ⟨b', i', h3, h4⟩
      cases h4; exact hnotNew o b h1 h2 h3
  have houtSent : ∀ c f, (st'.mem (.sent c f)).isSome = (st.mem (.sent c f)).isSome := by
    intro c f
    apply hout
    · rintro ⟨b', i', _, h4⟩; cases h4
    · rintro ⟨b', i', _, h4⟩; cases h4
  constructor
  · simpa only [hnodes] using h.slots_nodup
  · simpa only [hnodes, hper] using h.slots_in
  · simpa only [hnodes] using h.blocks_nodup
  · simpa only [hnodes] using h.data_notin
  · intro o o' b h1 h2
    rcases (hown o b).mp h1 with ⟨h1a, h1b⟩ | ⟨h1a, h1b⟩
    · rcases (hown o' b).mp h2 with ⟨h2a, h2b⟩ | ⟨h2a, h2b⟩
      · exact h.own_unique o o' b h1b h2b
      · exact absurd h2b (hnotNew o b h1b h1a)
    · rcases (hown o' b).mp h2 with ⟨h2a, h2b⟩ | ⟨h2a, h2b⟩
      · exact absurd h1b (hnotNew o' b h2b h2a)
      · rw [h1a, h2a]
  · intro c b hb
    rw [hnodes] at hb
    rw [hkeep (.node c) b (Or.inl hb) (by simp), hper]
    exact h.blocks_blk c b hb
  · intro c d hd
    rw [hnodes] at hd
    rw [hkeep (.node c) d (Or.inr hd) (by simp)]
    exact h.data_blk c d hd
  · intro a' s hs
    by_cases ha' : a' = a
    · subst ha'; rw [hc] at hs ⊢; exact hblkNew s hs
    · rw [ho a' ha'] at hs ⊢
      rw [hkeep (.arr a') s hs (by simp [ha'])]
      exact h.store_blk a' s hs
  · intro b n hbn
    by_cases h1 : x'.store = some b
    · exact ⟨.arr a, (hown _ _).mpr (Or.inr ⟨rfl, h1⟩)⟩
    · by_cases h2 : (st.arrs a).store = some b
      · rw [hblkOld b h2 h1] at hbn; cases hbn
      · rw [hblkO b h2 h1] at hbn
        obtain ⟨o, ho'⟩ := h.blk_own b n hbn
        refine ⟨o, (hown o b).mpr (Or.inl ⟨?_, ho'⟩)⟩
        intro e; subst e; exact h2 ho'
  · intro b hb
    have h1 : x'.store ≠ some b := by
      intro e; have := hfresh b e; omega
    by_cases h2 : (st.arrs a).store = some b
    · exact hblkOld b h2 h1
    · rw [hblkO b h2 h1]; exact h.blk_lt b (by omega)
  · intro c it f hi hf
    rw [hnodes] at hi
    rw [Item.loc, houtOwn (.node c) it.b it.i f (h.item_block (List.mem_append_left _ hi)) (by simp)]
    exact h.items_live c it f hi hf
  · intro a' s i hs hi
    by_cases ha' : a' = a
    · subst ha'; rw [hc] at hs hi; exact (hinNew s i hs).mpr hi
    · rw [ho a' ha'] at hs hi
      rw [houtOwn (.arr a') s i 1 hs (by simp [ha'])]
      exact h.elems_live a' s i hs hi
  · intro c f ha hf
    rw [hnodes] at ha
    rw [houtSent]
    exact h.sent_live c f ha hf
  · intro l hl
    by_cases h1 : inStore x'.store l
    · obtain ⟨b, i, h1, rfl⟩ := h1
      exact Or.inr (Or.inl ⟨a, b, i, by rw [hc]; exact h1, by rw [hc]; exact (hinNew b i h1).mp hl, rfl⟩)
    · by_cases h2 : inStore (st.arrs a).store l
      · obtain ⟨b, i, h2, rfl⟩ := h2
        have h1' : x'.store ≠ some b := fun e => h1 ⟨b, i, e, rfl⟩
        rw [hinOld b i h2 h1'] at hl; cases hl
      · rw [hout l h2 h1] at hl
        rcases h.live_owned l hl with ⟨c', it, f, h3, h4, h5⟩ | ⟨a', s, i, h3, h4, h5⟩ | ⟨c', f, h3, h4, h5⟩
        · exact Or.inl ⟨c', it, f, by rw [hnodes]; exact h3, h4, h5⟩
        · have ha' : a' ≠ a := by
            intro e; subst e; exact h2 ⟨s, i, h3, h5⟩
          exact Or.inr (Or.inl ⟨a', s, i, by rw [ho a' ha']; exact h3, by rw [ho a' ha']; exact h4, h5⟩)
        · exact Or.inr (Or.inr ⟨c', f, by rw [hnodes]; exact h3, h4, h5⟩)
  · intro a' s hs
    by_cases ha' : a' = a
    · subst ha'; rw [hc] at hs ⊢; exact hsize s hs
    · rw [ho a' ha'] at hs ⊢; exact h.arr_size a' s hs
  · intro a' hs
    by_cases ha' : a' = a
    · subst ha'; rw [hc] at hs ⊢; exact hnone hs
    · rw [ho a' ha'] at hs ⊢; exact h.arr_none a' hs
  · simpa only [hnodes] using h.dead_node
  · intro a' hA
    by_cases ha' : a' = a
    · subst ha'; rw [hc] at hA ⊢; exact hdead hA
    · rw [ho a' ha'] at hA ⊢; exact h.dead_arr a' hA
  · simpa only [hnodes] using h.invalid_node
  · intro a' ha
    have ha' : a' ≠ a := by omega
    rw [ho a' ha']; exact h.invalid_arr a' ha

/-- special case: same storage block, new size -/
theorem arr_resize {st st' : State} (h : SInv st) (a s sz : Nat) (x' : Arr) (hv : a ≤ 1)
    (hs : (st.arrs a).store = some s) (hx' : x' = { st.arrs a with size := sz })
    (harrs : st'.arrs = upd st.arrs a x') (hnodes : st'.nodes = st.nodes) (hblk : st'.blk = st.blk)
    (hnext : st'.next = st.next) (hper : st'.per = st.per) (hsz : sz ≤ (st.arrs a).cap)
    (hout : ∀ l, (∀ i, l ≠ .heap s i 1) → (st'.mem l).isSome = (st.mem l).isSome)
    (hin : ∀ i, (st'.mem (.heap s i 1)).isSome = true ↔ i < sz) : SInv st' := by
  subst hx'
  refine arr_replace h a _ hv harrs hnodes hper (by omega) ?_ ?_ ?_ ?_ ?_ ?_ ?_ ?_ ?_ ?_ ?_
  · intro s' hs'
    have hs' : (st.arrs a).store = some s' := hs'
    rw [hnext]; exact h.owns_lt (o := .arr a) hs'
  · intro b _ _; rw [hblk]
  · intro b h1 h2; exact absurd h1 h2
  · intro s' hs'
    have hs' : (st.arrs a).store = some s' := hs'
    rw [hblk]; exact h.store_blk a s' hs'
  · intro s' hs'; exact Or.inl hs'
  · intro s' _; exact hsz
  · intro hn
    have hn : (st.arrs a).store = none := hn
    rw [hs] at hn; cases hn
  · intro hA
    have hA : (st.arrs a).alive = false := hA
    rw [h.dead_arr a hA] at hs; cases hs
  · intro l h1 _
    apply hout
    intro i e
    exact h1 ⟨s, i, hs, e⟩
  · intro s' i hs'
    have hs' : (st.arrs a).store = some s' := hs'
    rw [hs] at hs'; cases hs'
    exact hin i
  · intro b i h1 h2; exact absurd h1 h2

-- aCreate --------------------------------------------------------------------------------------------------

theorem aCreate_ok {st st' : State} (h : SInv st) (a cap : Nat) (hv : a ≤ 1)
    (he : exec' st (.aCreate a cap) = some st') : SInv st' ∧ Trace st st' := by
  simp only [exec'] at he
  cases hA : (st.arrs a).alive with
  | true => simp [hA] at he
  | false =>
    have hg : ¬ ((st.arrs a).alive = true) := by simp [hA]
    rw [if_neg hg] at he
    have he := Option.some.inj he
    subst he
    have hz := h.dead_arr a hA
    refine ⟨?_, Trace.of_same rfl rfl rfl rfl⟩
    refine arr_replace h a { alive := true, cap := cap } hv rfl rfl rfl (Nat.le_refl _) ?_ ?_ ?_ ?_ ?_ ?_ ?_ ?_ ?_ ?_ ?_
    · intro s' hs; cases hs
    · intro b _ _; rfl
    · intro b hb; rw [hz] at hb; cases hb
    · intro s' hs; cases hs
    · intro s' hs; cases hs
    · intro s' hs; cases hs
    · intro _; rfl
    · intro hd; cases hd
    · intro l _ _; rfl
    · intro s' i hs; cases hs
    · intro b i hb; rw [hz] at hb; cases hb

-- aAssign --------------------------------------------------------------------------------------------------

theorem aAssign_ok {st st' : State} (h : SInv st) (a j : Nat) (src : SrcRef) (hv : a ≤ 1)
    (he : exec' st (.aAssign a j src) = some st') : SInv st' ∧ Trace st st' := by
  simp only [exec'] at he
  cases hs : (st.arrs a).store with
  | none => simp [hs] at he
  | some s =>
    by_cases hj : j ≥ (st.arrs a).size
    · simp [hs, hj] at he
    · cases hr : resolve st src with
      | none => simp [hs, hj, hr] at he
      | some lp =>
        obtain ⟨l, p⟩ := lp
        cases l with
        | none => simp [hs, hj, hr] at he
        | some l =>
          simp [hs, hj, hr] at he
          subst he
          have _ := hv
          obtain ⟨hp, hsl⟩ := resolve_live h src (some l) p hr
          have hd := h.elems_live a s j hs (by omega)
          refine ⟨?_, trace_assign st _ l p hd (hsl l rfl) hp⟩
          refine SInv.of_same_live (st' := st.assign (.heap s j 1) l p) h rfl rfl rfl rfl ?_
          intro x
          simp only [assign_mem, upd]
          by_cases hx : x = .heap s j 1
          · simp only [hx, if_true, hp, hd]
          · simp only [hx, if_false]

-- aPush ----------------------------------------------------------------------------------------------------

theorem aPush_ok {st st' : State} (h : SInv st) (a : Nat) (src : SrcRef) (hv : a ≤ 1)
    (he : exec' st (.aPush a src) = some st') : SInv st' ∧ Trace st st' := by
  simp only [exec'] at he
  cases hs : (st.arrs a).store with
  | none => simp [hs] at he
  | some s =>
    by_cases hj : (st.arrs a).size ≥ (st.arrs a).cap
    · simp [hs, hj] at he
    · cases hr : resolve st src with
      | none => simp [hs, hj, hr] at he
      | some lp =>
        obtain ⟨l, p⟩ := lp
        simp [hs, hj, hr] at he
        subst he
        obtain ⟨hp, hsl⟩ := resolve_live h src l p hr
        have hdead : st.mem (.heap s (st.arrs a).size 1) = none :=
          store_dead h hs _ _ (by omega)
        have hslot : (chkOf st).slotOk (.heap s (st.arrs a).size 1) = true := by
          have hb : (chkOf st).blk s = some (st.arrs a).cap := h.store_blk a s hs
          simp only [Chk.slotOk, hb]
          simp; omega
        refine ⟨?_, Trace.trans (trace_ctor st _ l p hslot hdead hp hsl) (Trace.of_same rfl rfl rfl rfl)⟩
        refine arr_resize h a s ((st.arrs a).size + 1) _ hv hs ?_ rfl rfl rfl rfl rfl (by omega) ?_ ?_
        · simp [hs]
        · intro x hx
          simp only [setArr_mem, ctor_mem, upd_other _ _ _ _ (hx _)]
        · intro i
          simp only [setArr_mem, ctor_mem]
          by_cases hi : i = (st.arrs a).size
          · subst hi; rw [upd_same]; simp [hp]
          · have : Loc.heap s i 1 ≠ Loc.heap s (st.arrs a).size 1 := by
              intro e; simp only [Loc.heap.injEq] at e; exact hi e.2.1
            rw [upd_other _ _ _ _ this, store_live_iff h hs]
            omega

-- aTruncate ------------------------------------------------------------------------------------------------

theorem aTruncate_ok {st st' : State} (h : SInv st) (a n : Nat) (hv : a ≤ 1)
    (he : exec' st (.aTruncate a n) = some st') : SInv st' ∧ Trace st st' := by
  simp only [exec'] at he
  cases hA : (st.arrs a).alive with
  | false => simp [hA] at he
  | true =>
    have hg : ¬ ((!(st.arrs a).alive) = true) := by simp [hA]
    rw [if_neg hg] at he
    cases hs : (st.arrs a).store with
    | none =>
      simp only [hs, Option.some.injEq] at he
      subst he; exact ⟨h, Trace.refl st⟩
    | some s =>
      by_cases hn : n < (st.arrs a).size
      · have he : some ((dtorRange st s (range' n (st.arrs a).size)).setArr a { st.arrs a with size := n }) =
            some st' := by
          rw [← he]; simp only [hs, hn, if_true]
        have he := Option.some.inj he
        subst he
        have hmemEq : ∀ x' l, ((dtorRange st s (range' n (st.arrs a).size)).setArr a x').mem l =
            if l ∈ (range' n (st.arrs a).size).map (fun i => Loc.heap s i 1) then none else st.mem l := by
          intro x' l; simp only [setArr_mem, dtorRange, dtorLocs_mem]
        constructor
        · refine arr_resize h a s n { st.arrs a with size := n } hv hs rfl ?_ ?_ ?_ ?_ ?_
            (Nat.le_trans (Nat.le_of_lt hn) (h.arr_size a s hs)) ?_ ?_
          · simp only [setArr_arrs, dtorRange, dtorLocs_arrs]
          · simp only [setArr_nodes, dtorRange, dtorLocs_nodes]
          · simp only [setArr_blk, dtorRange, dtorLocs_blk]
          · simp only [setArr_next, dtorRange, dtorLocs_next]
          · simp only [setArr_per, dtorRange, dtorLocs_per]
          · intro l hl
            rw [hmemEq]
            have : l ∉ (range' n (st.arrs a).size).map (fun i => Loc.heap s i 1) := by
              intro hd
              obtain ⟨i, _, e⟩ := (mem_heapLocs _ _ _).mp hd
              exact hl i e
            simp only [this, if_false]
          · intro i
            rw [hmemEq]
            by_cases hd : Loc.heap s i 1 ∈ (range' n (st.arrs a).size).map (fun i => Loc.heap s i 1)
            · rw [if_pos hd]
              obtain ⟨i', hi', e⟩ := (mem_heapLocs _ _ _).mp hd
              simp only [Loc.heap.injEq] at e
              have := (mem_range' _ _ _).mp hi'
              simp only [Option.isSome_none, Bool.false_eq_true, false_iff]
              omega
            · rw [if_neg hd, store_live_iff h hs]
              have : ¬ (n ≤ i ∧ i < (st.arrs a).size) := by
                intro hh
                exact hd ((mem_heapLocs _ _ _).mpr ⟨i, (mem_range' _ _ _).mpr hh, rfl⟩)
              omega
        · have h1 : Trace st (dtorRange st s (range' n (st.arrs a).size)) := by
            apply trace_dtorLocs st _ (nodup_heapLocs s _ (nodup_range' _ _))
            intro l hl
            obtain ⟨i, hi, rfl⟩ := (mem_heapLocs _ _ _).mp hl
            exact h.elems_live a s i hs ((mem_range' _ _ _).mp hi).2
          exact Trace.trans h1 (Trace.of_same rfl rfl rfl rfl)
      · simp only [hs, hn, if_false, Option.some.injEq] at he
        subst he; exact ⟨h, Trace.refl st⟩

-- aDestroy -------------------------------------------------------------------------------------------------

theorem aDestroy_ok {st st' : State} (h : SInv st) (a : Nat) (hv : a ≤ 1)
    (he : exec' st (.aDestroy a) = some st') : SInv st' ∧ Trace st st' := by
  simp only [exec'] at he
  cases hA : (st.arrs a).alive with
  | false => simp [hA] at he
  | true =>
    have hg : ¬ ((!(st.arrs a).alive) = true) := by simp [hA]
    rw [if_neg hg] at he
    have he := Option.some.inj he
    subst he
    cases hs : (st.arrs a).store with
    | none =>
      simp only []
      refine ⟨?_, Trace.of_same rfl rfl rfl rfl⟩
      refine arr_replace h a {} hv rfl rfl rfl (Nat.le_refl _) ?_ ?_ ?_ ?_ ?_ ?_ ?_ ?_ ?_ ?_ ?_
      · intro s' hs'; cases hs'
      · intro b _ _; rfl
      · intro b hb; rw [hs] at hb; cases hb
      · intro s' hs'; cases hs'
      · intro s' hs'; cases hs'
      · intro s' hs'; cases hs'
      · intro _; rfl
      · intro _; rfl
      · intro l _ _; rfl
      · intro s' i hs'; cases hs'
      · intro b i hb; rw [hs] at hb; cases hb
    | some s =>
      simp only []
      have hmemEq : ∀ l, (((dtorRange st s (List.range (st.arrs a).size)).freeBlk s).setArr a {}).mem l =
          if l ∈ (List.range (st.arrs a).size).map (fun i => Loc.heap s i 1) then none else st.mem l := by
        intro l; simp only [setArr_mem, freeBlk_mem, dtorRange, dtorLocs_mem]
      have hblkEq : (((dtorRange st s (List.range (st.arrs a).size)).freeBlk s).setArr a {}).blk =
          upd st.blk s none := by
        simp only [setArr_blk, freeBlk_blk, dtorRange, dtorLocs_blk]
      have hin : ∀ i, i < (st.arrs a).size →
          Loc.heap s i 1 ∈ (List.range (st.arrs a).size).map (fun i => Loc.heap s i 1) :=
        fun i hi => (mem_heapLocs _ _ _).mpr ⟨i, List.mem_range.mpr hi, rfl⟩
      constructor
      · refine arr_replace h a {} hv ?_ ?_ ?_ (Nat.le_of_eq ?_) ?_ ?_ ?_ ?_ ?_ ?_ ?_ ?_ ?_ ?_ ?_
        · simp only [setArr_arrs, freeBlk_arrs, dtorRange, dtorLocs_arrs]
        · simp only [setArr_nodes, freeBlk_nodes, dtorRange, dtorLocs_nodes]
        · simp only [setArr_per, freeBlk_per, dtorRange, dtorLocs_per]
        · simp only [setArr_next, freeBlk_next, dtorRange, dtorLocs_next]
        · intro s' hs'; cases hs'
        · intro b h1 _
          rw [hs] at h1
          have : b ≠ s := fun e => h1 (by rw [e])
          rw [hblkEq, upd_other _ _ _ _ this]
        · intro b h1 _
          rw [hs] at h1; cases h1
          rw [hblkEq, upd_same]
        · intro s' hs'; cases hs'
        · intro s' hs'; cases hs'
        · intro s' hs'; cases hs'
        · intro _; rfl
        · intro _; rfl
        · intro l h1 _
          rw [hmemEq]
          have : l ∉ (List.range (st.arrs a).size).map (fun i => Loc.heap s i 1) := by
            intro hd
            obtain ⟨i, _, e⟩ := (mem_heapLocs _ _ _).mp hd
            exact h1 ⟨s, i, hs, e⟩
          simp only [this, if_false]
        · intro s' i hs'; cases hs'
        · intro b i h1 _
          rw [hs] at h1; cases h1
          rw [hmemEq]
          by_cases hd : Loc.heap s i 1 ∈ (List.range (st.arrs a).size).map (fun i => Loc.heap s i 1)
          · rw [if_pos hd]
          · rw [if_neg hd]
            exact store_dead h hs i 1 (fun hh => hd (hin i hh.1))
      · have h1 : Trace st (dtorRange st s (List.range (st.arrs a).size)) := by
          apply trace_dtorLocs st _ (nodup_heapLocs s _ List.nodup_range)
          intro l hl
          obtain ⟨i, hi, rfl⟩ := (mem_heapLocs _ _ _).mp hl
          exact h.elems_live a s i hs (List.mem_range.mp hi)
        have h2 : Trace (dtorRange st s (List.range (st.arrs a).size))
            ((dtorRange st s (List.range (st.arrs a).size)).freeBlk s) := by
          apply trace_free _ s (st.arrs a).cap
          · simp only [dtorRange, dtorLocs_blk]; exact h.store_blk a s hs
          · intro i _ f _
            simp only [dtorRange, dtorLocs_mem]
            by_cases hd : Loc.heap s i f ∈ (List.range (st.arrs a).size).map (fun i => Loc.heap s i 1)
            · rw [if_pos hd]
            · rw [if_neg hd]
              apply store_dead h hs i f
              rintro ⟨hi, rfl⟩
              exact hd (hin i hi)
        exact Trace.trans h1 (Trace.trans h2 (Trace.of_same rfl rfl rfl rfl))

-- aSwap ----------------------------------------------------------------------------------------------------

/-- the transposition of two array variables -/
def swn (a b x : Nat) : Nat := if x = b then a else if x = a then b else x

theorem swn_b (a b : Nat) : swn a b b = a := by simp [swn]

theorem swn_a (a b : Nat) : swn a b a = b := by
  unfold swn
  by_cases h : a = b
  · simp [h]
  · simp [h]

theorem swn_of_ne (a b x : Nat) (h1 : x ≠ a) (h2 : x ≠ b) : swn a b x = x := by
  simp [swn, h1, h2]

theorem swn_swn (a b x : Nat) : swn a b (swn a b x) = x := by
  by_cases h1 : x = b
  · subst h1; rw [swn_b, swn_a]
  · by_cases h2 : x = a
    · subst h2; rw [swn_a, swn_b]
    · rw [swn_of_ne a b x h2 h1, swn_of_ne a b x h2 h1]

/-- renaming the array variables by an involution that fixes the unused variables -/
theorem SInv.of_perm_arr {st st' : State} (h : SInv st) (σ : Nat → Nat) (hσ : ∀ x, σ (σ x) = x)
    (hval : ∀ x, 1 < x → σ x = x)
    (ha : ∀ x, st'.arrs x = st.arrs (σ x)) (hn : st'.nodes = st.nodes) (hb : st'.blk = st.blk)
    (hx : st'.next = st.next) (hm : st'.mem = st.mem) (hp : st'.per = st.per := by rfl) : SInv st' := by
  let τ : Owner → Owner := fun o => match o with | .node c => .node c | .arr a => .arr (σ a)
  have hτ : ∀ o, τ (τ o) = o := by
    intro o; cases o with
    | node c => rfl
    | arr a => simp only [τ, hσ]
  have ho : ∀ o b, owns st' o b ↔ owns st (τ o) b := by
    intro o b; cases o with
    | node c => simp only [owns, hn, τ]
    | arr a => simp only [owns, ha, τ]
  constructor
  · simpa only [hn] using h.slots_nodup
  · simpa only [hn, hp] using h.slots_in
  · simpa only [hn] using h.blocks_nodup
  · simpa only [hn] using h.data_notin
  · intro o o' b h1 h2
    have := h.own_unique _ _ b ((ho o b).mp h1) ((ho o' b).mp h2)
    rw [← hτ o, ← hτ o', this]
  · simpa only [hn, hb, hp] using h.blocks_blk
  · simpa only [hn, hb] using h.data_blk
  · intro a s; rw [ha, hb]; exact h.store_blk _ s
  · intro b n hbn
    rw [hb] at hbn
    obtain ⟨o, ho'⟩ := h.blk_own b n hbn
    exact ⟨τ o, (ho (τ o) b).mpr (by rw [hτ]; exact ho')⟩
  · intro b; rw [hx, hb]; exact h.blk_lt b
  · intro c it f h1 h2; rw [hm]; rw [hn] at h1; exact h.items_live c it f h1 h2
  · intro a s i; rw [ha, hm]; exact h.elems_live _ s i
  · intro c f h1 h2; rw [hm]; rw [hn] at h1; exact h.sent_live c f h1 h2
  · intro l hl
    rw [hm] at hl
    rcases h.live_owned l hl with ⟨c, it, f, h1, h2, h3⟩ | ⟨a, s, i, h1, h2, h3⟩ | ⟨c, f, h1, h2, h3⟩
    · exact Or.inl ⟨c, it, f, by rw [hn]; exact h1, h2, h3⟩
    · exact Or.inr (Or.inl ⟨σ a, s, i, by rw [ha, hσ]; exact h1, by rw [ha, hσ]; exact h2, h3⟩)
    · exact Or.inr (Or.inr ⟨c, f, by rw [hn]; exact h1, h2, h3⟩)
  · intro a s; rw [ha]; exact h.arr_size _ s
  · intro a; rw [ha]; exact h.arr_none _
  · simpa only [hn] using h.dead_node
  · intro a; rw [ha]; exact h.dead_arr _
  · simpa only [hn] using h.invalid_node
  · intro a ha'; rw [ha, hval a ha']; exact h.invalid_arr a ha'

theorem aSwap_ok {st st' : State} (h : SInv st) (a b : Nat) (hv : a ≤ 1 ∧ b ≤ 1)
    (he : exec' st (.aSwap a b) = some st') : SInv st' ∧ Trace st st' := by
  simp only [exec'] at he
  by_cases hg : (!(st.arrs a).alive || !(st.arrs b).alive) = true
  · simp [hg] at he
  · rw [if_neg hg] at he
    have he := Option.some.inj he
    subst he
    refine ⟨?_, Trace.of_same rfl rfl rfl rfl⟩
    refine SInv.of_perm_arr h (swn a b) (swn_swn a b) ?_ ?_ rfl rfl rfl rfl
    · intro x hx
      exact swn_of_ne a b x (by omega) (by omega)
    · intro x
      simp only [setArr_arrs]
      by_cases h1 : x = b
      · subst h1; rw [swn_b, upd_same]
      · rw [upd_other _ _ _ _ h1]
        by_cases h2 : x = a
        · subst h2; rw [swn_a, upd_same]
        · rw [upd_other _ _ _ _ h2, swn_of_ne a b x h2 h1]

-- aRemove --------------------------------------------------------------------------------------------------

/-- `shiftDown` assigns among live elements: liveness is unchanged -/
theorem shiftDown_spec (s : Nat) : ∀ (l : List Nat) (st : State),
    (∀ i, i ∈ l → (st.mem (.heap s i 1)).isSome = true ∧ (st.mem (.heap s (i + 1) 1)).isSome = true) →
    Trace st (shiftDown st s l) ∧ (∀ x, ((shiftDown st s l).mem x).isSome = (st.mem x).isSome) ∧
    (shiftDown st s l).blk = st.blk ∧ (shiftDown st s l).next = st.next ∧
    (shiftDown st s l).nodes = st.nodes ∧ (shiftDown st s l).arrs = st.arrs
  | [], st, _ => ⟨Trace.refl st, fun _ => rfl, rfl, rfl, rfl, rfl⟩
  | i :: rest, st, hl => by
    obtain ⟨hd, hsrc⟩ := hl i (by simp)
    have hlive : ∀ x, ((st.assign (.heap s i 1) (.heap s (i + 1) 1) (st.mem (.heap s (i + 1) 1))).mem x).isSome =
        (st.mem x).isSome := by
      intro x
      simp only [assign_mem, upd]
      by_cases hx : x = .heap s i 1
      · simp only [hx, if_true, hsrc, hd]
      · simp only [hx, if_false]
    obtain ⟨t, m, b, n, nd, ar⟩ := shiftDown_spec s rest
      (st.assign (.heap s i 1) (.heap s (i + 1) 1) (st.mem (.heap s (i + 1) 1)))
      (fun i' hi' => by rw [hlive, hlive]; exact hl i' (by simp [hi']))
    simp only [shiftDown]
    refine ⟨Trace.trans (trace_assign st _ _ _ hd (Or.inr hsrc) hsrc) t, ?_, ?_, ?_, ?_, ?_⟩
    · intro x; rw [m, hlive]
    · rw [b]; rfl
    · rw [n]; rfl
    · rw [nd]; rfl
    · rw [ar]; rfl

theorem aRemove_ok {st st' : State} (h : SInv st) (a j : Nat) (hv : a ≤ 1)
    (he : exec' st (.aRemove a j) = some st') : SInv st' ∧ Trace st st' := by
  simp only [exec'] at he
  cases hs : (st.arrs a).store with
  | none => simp [hs] at he
  | some s =>
    by_cases hj : j ≥ (st.arrs a).size
    · simp [hs, hj] at he
    · have he : some (((shiftDown st s (range' j ((st.arrs a).size - 1))).dtor
          (.heap s ((st.arrs a).size - 1) 1)).setArr a { st.arrs a with size := (st.arrs a).size - 1 }) =
          some st' := by
        rw [← he]; simp [hs, hj]
      have he := Option.some.inj he
      subst he
      obtain ⟨t, m, b, n, nd, ar⟩ := shiftDown_spec s (range' j ((st.arrs a).size - 1)) st (by
        intro i hi
        have := (mem_range' _ _ _).mp hi
        exact ⟨h.elems_live a s i hs (by omega), h.elems_live a s (i + 1) hs (by omega)⟩)
      have h1 : SInv (shiftDown st s (range' j ((st.arrs a).size - 1))) :=
        SInv.of_same_live h nd ar b n m (shiftDown_per _ _ _)
      have hs1 : ((shiftDown st s (range' j ((st.arrs a).size - 1))).arrs a).store = some s := by rw [ar]; exact hs
      have hlast : ((shiftDown st s (range' j ((st.arrs a).size - 1))).mem
          (.heap s ((st.arrs a).size - 1) 1)).isSome = true := by
        rw [m]; exact h.elems_live a s _ hs (by omega)
      constructor
      · refine arr_resize h1 a s ((st.arrs a).size - 1) { st.arrs a with size := (st.arrs a).size - 1 } hv hs1
          (by rw [ar]) ?_ rfl rfl rfl rfl ?_ ?_ ?_
        · simp only [setArr_arrs, dtor_arrs]
        · rw [ar]; have := h.arr_size a s hs; omega
        · intro x hx
          simp only [setArr_mem, dtor_mem, upd_other _ _ _ _ (hx _)]
        · intro i
          simp only [setArr_mem, dtor_mem]
          by_cases hi : i = (st.arrs a).size - 1
          · subst hi; rw [upd_same]; simp
          · have : Loc.heap s i 1 ≠ Loc.heap s ((st.arrs a).size - 1) 1 := by
              intro e; simp only [Loc.heap.injEq] at e; exact hi e.2.1
            rw [upd_other _ _ _ _ this, m, store_live_iff h hs]
            omega
      · exact Trace.trans t (Trace.trans (trace_dtor _ _ hlast) (Trace.of_same rfl rfl rfl rfl))

-- aReserve -------------------------------------------------------------------------------------------------

theorem heap_ne_of_blk {b b' : Nat} (hne : b ≠ b') (i i' f f' : Nat) : Loc.heap b i f ≠ Loc.heap b' i' f' := by
  intro e; simp only [Loc.heap.injEq] at e; exact hne e.1

theorem heap_ne_of_idx {i i' : Nat} (hne : i ≠ i') (b b' f f' : Nat) : Loc.heap b i f ≠ Loc.heap b' i' f' := by
  intro e; simp only [Loc.heap.injEq] at e; exact hne e.2.1

/-- `reserveCopy` moves the listed elements from block ob to block nb -/
theorem reserveCopy_spec (ob nb C : Nat) (hne : ob ≠ nb) : ∀ (l : List Nat) (st : State), l.Nodup →
    st.blk nb = some C →
    (∀ i, i ∈ l → i < C ∧ st.mem (.heap nb i 1) = none ∧ (st.mem (.heap ob i 1)).isSome = true) →
    Trace st (reserveCopy st ob nb l) ∧
    (∀ i, i ∈ l → ((reserveCopy st ob nb l).mem (.heap nb i 1)).isSome = true ∧
      (reserveCopy st ob nb l).mem (.heap ob i 1) = none) ∧
    (∀ x, (∀ i, i ∈ l → x ≠ .heap nb i 1 ∧ x ≠ .heap ob i 1) → (reserveCopy st ob nb l).mem x = st.mem x) ∧
    (reserveCopy st ob nb l).blk = st.blk ∧ (reserveCopy st ob nb l).next = st.next ∧
    (reserveCopy st ob nb l).nodes = st.nodes ∧ (reserveCopy st ob nb l).arrs = st.arrs
  | [], st, _, _, _ =>
    ⟨Trace.refl st, fun _ hi => absurd hi List.not_mem_nil, fun _ _ => rfl, rfl, rfl, rfl, rfl⟩
  | i :: rest, st, hnd, hblk, hl => by
    obtain ⟨hiC, hnbd, hobl⟩ := hl i (by simp)
    rw [List.nodup_cons] at hnd
    -- the state after moving element i
    have hmb : ∀ x, (((st.ctor (.heap nb i 1) (some (.heap ob i 1)) (st.mem (.heap ob i 1))).dtor (.heap ob i 1)).mem x) =
        upd (upd st.mem (.heap nb i 1) (st.mem (.heap ob i 1))) (.heap ob i 1) none x := fun _ => rfl
    have hslot : (chkOf st).slotOk (.heap nb i 1) = true := by
      have hb : (chkOf st).blk nb = some C := hblk
      simp only [Chk.slotOk, hb]
      simp; exact hiC
    have t1 : Trace st (st.ctor (.heap nb i 1) (some (.heap ob i 1)) (st.mem (.heap ob i 1))) :=
      trace_ctor st _ _ _ hslot hnbd hobl (fun s' hs' => by cases hs'; exact Or.inr hobl)
    have t2 : Trace (st.ctor (.heap nb i 1) (some (.heap ob i 1)) (st.mem (.heap ob i 1)))
        ((st.ctor (.heap nb i 1) (some (.heap ob i 1)) (st.mem (.heap ob i 1))).dtor (.heap ob i 1)) := by
      apply trace_dtor
      rw [ctor_mem, upd_other _ _ _ _ (heap_ne_of_blk hne _ _ _ _)]
      exact hobl
    obtain ⟨t, m1, m2, b, n, nd, ar⟩ := reserveCopy_spec ob nb C hne rest
      ((st.ctor (.heap nb i 1) (some (.heap ob i 1)) (st.mem (.heap ob i 1))).dtor (.heap ob i 1)) hnd.2 hblk
      (by
        intro i' hi'
        have hii : i' ≠ i := fun e => hnd.1 (e ▸ hi')
        obtain ⟨h1, h2, h3⟩ := hl i' (by simp [hi'])
        refine ⟨h1, ?_, ?_⟩
        · rw [hmb, upd_other _ _ _ _ (heap_ne_of_blk hne.symm _ _ _ _), upd_other _ _ _ _ (heap_ne_of_idx hii _ _ _ _)]
          exact h2
        · rw [hmb, upd_other _ _ _ _ (heap_ne_of_idx hii _ _ _ _), upd_other _ _ _ _ (heap_ne_of_blk hne _ _ _ _)]
          exact h3)
    simp only [reserveCopy]
    refine ⟨Trace.trans t1 (Trace.trans t2 t), ?_, ?_, ?_, ?_, ?_, ?_⟩
    · intro i' hi'
      simp only [List.mem_cons] at hi'
      rcases hi' with rfl | hi'
      · have hx : ∀ i'', i'' ∈ rest → Loc.heap nb i' 1 ≠ .heap nb i'' 1 ∧ Loc.heap nb i' 1 ≠ .heap ob i'' 1 := by
          intro i'' hi''
          have hii : i' ≠ i'' := fun e => hnd.1 (e ▸ hi'')
          exact ⟨heap_ne_of_idx hii _ _ _ _, heap_ne_of_blk hne.symm _ _ _ _⟩
        have hy : ∀ i'', i'' ∈ rest → Loc.heap ob i' 1 ≠ .heap nb i'' 1 ∧ Loc.heap ob i' 1 ≠ .heap ob i'' 1 := by
          intro i'' hi''
          have hii : i' ≠ i'' := fun e => hnd.1 (e ▸ hi'')
          exact ⟨heap_ne_of_blk hne _ _ _ _, heap_ne_of_idx hii _ _ _ _⟩
        rw [m2 _ hx, m2 _ hy, hmb, hmb, upd_other _ _ _ _ (heap_ne_of_blk hne.symm _ _ _ _), upd_same, upd_same]
        exact ⟨hobl, rfl⟩
      · exact m1 i' hi'
    · intro x hx
      rw [m2 x (fun i' hi' => hx i' (by simp [hi'])), hmb]
      obtain ⟨h1, h2⟩ := hx i (by simp)
      rw [upd_other _ _ _ _ h2, upd_other _ _ _ _ h1]
    · rw [b]; rfl
    · rw [n]; rfl
    · rw [nd]; rfl
    · rw [ar]; rfl

theorem aReserve_ok {st st' : State} (h : SInv st) (a n : Nat) (hv : a ≤ 1)
    (he : exec' st (.aReserve a n) = some st') : SInv st' ∧ Trace st st' := by
  simp only [exec'] at he
  cases hA : (st.arrs a).alive with
  | false => simp [hA] at he
  | true =>
    have hg : ¬ ((!(st.arrs a).alive) = true) := by simp [hA]
    rw [if_neg hg] at he
    by_cases hc : (decide (n > (st.arrs a).cap) || (st.arrs a).store.isNone && decide (n > 0)) = true
    · rw [if_pos hc] at he
      have he := Option.some.inj he
      subst he
      -- the new capacity
      generalize hC : (if n > (st.arrs a).cap then n else (st.arrs a).cap) ||| 3 = C
      have hcapC : (st.arrs a).cap ≤ C := by
        rw [← hC]
        refine Nat.le_trans ?_ Nat.left_le_or
        by_cases hn : n > (st.arrs a).cap
        · rw [if_pos hn]; omega
        · rw [if_neg hn]; omega
      have hnbdead : ∀ i f, st.mem (.heap st.next i f) = none :=
        fun i f => h.dead_of_unowned _ i f (h.blk_lt _ (Nat.le_refl _))
      have hunowned : ∀ o, ¬ owns st o st.next := fun o ho => Nat.lt_irrefl _ (h.owns_lt ho)
      cases hs : (st.arrs a).store with
      | none =>
        simp only []
        have hsz : (st.arrs a).size = 0 := h.arr_none a hs
        refine ⟨?_, Trace.trans (trace_alloc st C) (Trace.of_same rfl rfl rfl rfl)⟩
        refine arr_replace h a { st.arrs a with store := some st.next, cap := C } hv rfl rfl rfl
          (Nat.le_succ _) ?_ ?_ ?_ ?_ ?_ ?_ ?_ ?_ ?_ ?_ ?_
        · intro s' hs'; cases hs'; exact Nat.lt_succ_self _
        · intro b _ h2
          have : b ≠ st.next := fun e => h2 (by rw [e])
          simp only [setArr_blk, alloc_blk, upd_other _ _ _ _ this]
        · intro b h1; rw [hs] at h1; cases h1
        · intro s' hs'; cases hs'
          simp only [setArr_blk, alloc_blk, upd_same]
        · intro s' hs'; cases hs'; exact Or.inr hunowned
        · intro s' _; simp only [hsz]; exact Nat.zero_le _
        · intro hn; cases hn
        · intro hd; rw [hA] at hd; cases hd
        · intro l _ _; rfl
        · intro s' i hs'; cases hs'
          simp only [setArr_mem, alloc_mem, hnbdead, hsz]
          simp
        · intro b i h1; rw [hs] at h1; cases h1
      | some ob =>
        simp only []
        have hobn : ob ≠ st.next := Nat.ne_of_lt (h.owns_lt (o := .arr a) hs)
        have hszcap := h.arr_size a ob hs
        obtain ⟨t, m1, m2, b, nx, nd, ar⟩ := reserveCopy_spec ob st.next C hobn (List.range (st.arrs a).size)
          (st.alloc C) List.nodup_range (by rw [alloc_blk, upd_same]) (by
            intro i hi
            have hi := List.mem_range.mp hi
            exact ⟨by omega, hnbdead i 1, h.elems_live a ob i hs hi⟩)
        have hpR : (reserveCopy (st.alloc C) ob st.next (List.range (st.arrs a).size)).per = (st.alloc C).per :=
          reserveCopy_per _ _ _ _
        generalize hR : reserveCopy (st.alloc C) ob st.next (List.range (st.arrs a).size) = R at t m1 m2 b nx nd ar hpR
        have hRother : ∀ i f, ¬ (i < (st.arrs a).size ∧ f = 1) → ∀ blk, R.mem (.heap blk i f) = st.mem (.heap blk i f) := by
          intro i f hif blk
          rw [m2]; rfl
          intro i' hi'
          have hi' := List.mem_range.mp hi'
          constructor
          · intro e; simp only [Loc.heap.injEq] at e; exact hif ⟨by omega, e.2.2⟩
          · intro e; simp only [Loc.heap.injEq] at e; exact hif ⟨by omega, e.2.2⟩
        have tf : Trace R (R.freeBlk ob) := by
          apply trace_free R ob (st.arrs a).cap
          · rw [b, alloc_blk, upd_other _ _ _ _ hobn]; exact h.store_blk a ob hs
          · intro i _ f _
            by_cases hif : i < (st.arrs a).size ∧ f = 1
            · obtain ⟨hi, rfl⟩ := hif
              exact (m1 i (List.mem_range.mpr hi)).2
            · rw [hRother i f hif]; exact store_dead h hs i f hif
        constructor
        · refine arr_replace h a { st.arrs a with store := some st.next, cap := C } hv ?_ ?_ ?_ ?_ ?_ ?_ ?_ ?_ ?_ ?_ ?_
            ?_ ?_ ?_ ?_
          · simp only [setArr_arrs, freeBlk_arrs, ar, alloc_arrs]
          · simp only [setArr_nodes, freeBlk_nodes, nd, alloc_nodes]
          · simp only [setArr_per, freeBlk_per, hpR, alloc_per]
          · simp only [setArr_next, freeBlk_next, nx, alloc_next]; exact Nat.le_succ _
          · intro s' hs'; cases hs'
            simp only [setArr_next, freeBlk_next, nx, alloc_next]; exact Nat.lt_succ_self _
          · intro bb h1 h2
            rw [hs] at h1
            have e1 : bb ≠ ob := fun e => h1 (by rw [e])
            have e2 : bb ≠ st.next := fun e => h2 (by rw [e])
            simp only [setArr_blk, freeBlk_blk, b, alloc_blk, upd_other _ _ _ _ e1, upd_other _ _ _ _ e2]
          · intro bb h1 _
            rw [hs] at h1; cases h1
            simp only [setArr_blk, freeBlk_blk, upd_same]
          · intro s' hs'; cases hs'
            simp only [setArr_blk, freeBlk_blk, b, alloc_blk, upd_other _ _ _ _ hobn.symm, upd_same]
          · intro s' hs'; cases hs'; exact Or.inr hunowned
          · intro s' _; exact Nat.le_trans hszcap hcapC
          · intro hn; cases hn
          · intro hd; rw [hA] at hd; cases hd
          · intro l h1 h2
            simp only [setArr_mem, freeBlk_mem]
            rw [m2]; rfl
            intro i _
            exact ⟨fun e => h2 ⟨st.next, i, rfl, e⟩, fun e => h1 ⟨ob, i, hs, e⟩⟩
          · intro s' i hs'; cases hs'
            simp only [setArr_mem, freeBlk_mem]
            by_cases hi : i < (st.arrs a).size
            · simp only [(m1 i (List.mem_range.mpr hi)).1, hi]
            · rw [hRother i 1 (fun hh => hi hh.1), hnbdead]
              simp [hi]
          · intro bb i h1 _
            rw [hs] at h1; cases h1
            simp only [setArr_mem, freeBlk_mem]
            by_cases hi : i < (st.arrs a).size
            · exact (m1 i (List.mem_range.mpr hi)).2
            · rw [hRother i 1 (fun hh => hi hh.1)]
              exact store_dead h hs i 1 (fun hh => hi hh.1)
        · exact Trace.trans (trace_alloc st C) (Trace.trans t (Trace.trans tf (Trace.of_same rfl rfl rfl rfl)))
    · rw [if_neg hc] at he
      have he := Option.some.inj he
      subst he
      exact ⟨h, Trace.refl st⟩

end Nstd.Life.Arr
