import Nstd.Life.LemmasNodeA
/-
  Micro steps of node containers, part B: clear and destroy.
-/
namespace Nstd.Life.NodeB
open Nstd.Life

/-- the member objects of all items of a container, in destruction order -/
theorem mem_allLocs (k : Kind) (items : List Item) (l : Loc) :
    l ∈ items.flatMap (Item.dtorOrder k) ↔ ∃ it f, it ∈ items ∧ f ∈ k.fields ∧ l = it.loc f := by
  simp only [List.mem_flatMap, NodeA.mem_dtorOrder]
  constructor
  · rintro ⟨it, hit, f, hf, rfl⟩; exact ⟨it, f, hit, hf, rfl⟩
  · rintro ⟨it, f, hit, hf, rfl⟩; exact ⟨it, hit, f, hf, rfl⟩

theorem allLocs_nodup (k : Kind) : ∀ (items : List Item), items.Nodup → (items.flatMap (Item.dtorOrder k)).Nodup
  | [], _ => by simp
  | x :: xs, h => by
    rw [List.nodup_cons] at h
    simp only [List.flatMap_cons]
    rw [List.nodup_append]
    refine ⟨NodeA.dtorOrder_nodup k x, allLocs_nodup k xs h.2, ?_⟩
    intro a ha b hb hab
    subst hab
    obtain ⟨f, _, rfl⟩ := (NodeA.mem_dtorOrder k x a).mp ha
    obtain ⟨it, f', hit, _, he⟩ := (mem_allLocs k xs _).mp hb
    obtain ⟨rfl, _⟩ := loc_inj he
    exact h.1 hit

theorem mem_sentLocs (c : Var) (l : Loc) :
    l ∈ c.k.sentFields.reverse.map (fun f => Loc.sent c f) ↔ ∃ f, f ∈ c.k.sentFields ∧ l = .sent c f := by
  simp only [List.mem_map, List.mem_reverse]
  constructor
  · rintro ⟨f, hf, rfl⟩; exact ⟨f, hf, rfl⟩
  · rintro ⟨f, hf, rfl⟩; exact ⟨f, hf, rfl⟩

theorem sentLocs_nodup (c : Var) : (c.k.sentFields.reverse.map (fun f => Loc.sent c f)).Nodup := by
  obtain ⟨k, v⟩ := c
  cases k <;> simp [Kind.sentFields]

theorem items_nodup {st : State} (h : SInv st) (c : Var) : (st.nodes c).items.Nodup :=
  (List.nodup_append.mp (h.slots_nodup c)).1

-- clear ----------------------------------------------------------------------------------------------------

theorem clear_ok {st st' : State} (h : SInv st) (c : Var) (he : exec' st (.clear c) = some st') :
    SInv st' ∧ Trace st st' := by
  simp only [exec'] at he
  cases hA : (st.nodes c).alive with
  | false => simp [hA] at he
  | true =>
    have hg : ¬ ((!(st.nodes c).alive) = true) := by simp [hA]
    rw [if_neg hg] at he
    have he := Option.some.inj he
    subst he
    have hmemEq : ∀ n' l, ((st.dtorItems c.k (st.nodes c).items).setNode c n').mem l =
        if l ∈ (st.nodes c).items.flatMap (Item.dtorOrder c.k) then none else st.mem l := by
      intro n' l; simp only [setNode_mem, State.dtorItems, dtorLocs_mem]
    constructor
    · refine node_local h c [] ((st.nodes c).items.reverse ++ (st.nodes c).free) ?_ ?_ ?_ ?_ ?_ ?_ ?_ ?_ ?_ ?_
      · simp only [State.dtorItems, setNode_nodes, dtorLocs_nodes]
      · simp only [State.dtorItems, setNode_arrs, dtorLocs_arrs]
      · simp only [State.dtorItems, setNode_blk, dtorLocs_blk]
      · simp only [State.dtorItems, setNode_next, dtorLocs_next]
      · simp only [State.dtorItems, setNode_per, dtorLocs_per]
      · rw [List.nil_append]
        exact ((List.reverse_perm _).append_right _).nodup_iff.mpr (h.slots_nodup c)
      · intro it; simp only [List.nil_append, List.mem_append, List.mem_reverse]
      · intro l hl
        rw [hmemEq]
        have : l ∉ (st.nodes c).items.flatMap (Item.dtorOrder c.k) := by
          intro hd
          obtain ⟨it, f, hit, _, rfl⟩ := (mem_allLocs _ _ _).mp hd
          exact hl ⟨it, f, List.mem_append_left _ hit, rfl⟩
        simp only [this, if_false]
      · intro it f hi
        rw [hmemEq]
        simp only [List.not_mem_nil, false_and, iff_false, Bool.not_eq_true, Option.isSome_eq_false_iff,
          Option.isNone_iff_eq_none]
        by_cases hd : it.loc f ∈ (st.nodes c).items.flatMap (Item.dtorOrder c.k)
        · simp only [hd, if_true]
        · simp only [hd, if_false]
          simp only [List.nil_append, List.mem_append, List.mem_reverse] at hi
          rcases hi with h1 | h1
          · cases hm : st.mem (it.loc f) with
            | none => rfl
            | some p =>
              exfalso
              exact hd ((mem_allLocs _ _ _).mpr ⟨it, f, h1, (h.item_live_iff h1 f).mp (by simp [hm]), rfl⟩)
          · exact h.free_dead h1 f
      · intro ha; rw [hA] at ha; cases ha
    · have h1 : Trace st (st.dtorItems c.k (st.nodes c).items) := by
        apply trace_dtorLocs st _ (allLocs_nodup _ _ (items_nodup h c))
        intro l hl
        obtain ⟨it, f, hit, hf, rfl⟩ := (mem_allLocs _ _ _).mp hl
        exact h.items_live c it f hit hf
      exact Trace.trans h1 (Trace.of_same rfl rfl rfl rfl)

-- destroy --------------------------------------------------------------------------------------------------

/-- the invariant after the destructor of container c: its item objects and sentinels are dead,
    its blocks are freed, the variable is `{}` -/
theorem destroy_inv {st st' : State} (h : SInv st) (c : Var)
    (hmem : ∀ l, st'.mem l =
      if l ∈ c.k.sentFields.reverse.map (fun f => Loc.sent c f) then none
      else if l ∈ (st.nodes c).items.flatMap (Item.dtorOrder c.k) then none else st.mem l)
    (hblk1 : ∀ b, owns st (.node c) b → st'.blk b = none)
    (hblk2 : ∀ b, ¬ owns st (.node c) b → st'.blk b = st.blk b)
    (hnext : st'.next = st.next) (harrs : st'.arrs = st.arrs) (hnodes : st'.nodes = upd st.nodes c {})
    (hper : st'.per = st.per) :
    SInv st' := by
  have hc : st'.nodes c = {} := by rw [hnodes]; exact upd_same _ _ _
  have ho : ∀ c', c' ≠ c → st'.nodes c' = st.nodes c' := by
    intro c' hc'; rw [hnodes]; exact upd_other _ _ _ _ hc'
  have hown : ∀ o b, owns st' o b ↔ (owns st o b ∧ o ≠ .node c) := by
    intro o b
    cases o with
    | node c' =>
      by_cases hc' : c' = c
      · subst hc'
        simp only [owns, hc, ne_eq, not_true_eq_false, and_false, iff_false, not_or]
        exact ⟨List.not_mem_nil, fun hx => by cases hx⟩
      · simp only [owns, ho c' hc', ne_eq, Owner.node.injEq, hc', not_false_eq_true, and_true]
    | arr a => simp only [owns, harrs, ne_eq, reduceCtorEq, not_false_eq_true, and_true]
  have hkeep : ∀ o b, owns st o b → o ≠ .node c → st'.blk b = st.blk b := by
    intro o b h1 h2
    apply hblk2
    intro h3
    exact h2 (h.own_unique _ _ b h1 h3)
  have hmemO : ∀ l, l ∉ c.k.sentFields.reverse.map (fun f => Loc.sent c f) →
      l ∉ (st.nodes c).items.flatMap (Item.dtorOrder c.k) → st'.mem l = st.mem l := by
    intro l h1 h2; rw [hmem]; simp only [h1, h2, if_false]
  have hmemL : ∀ l, (st'.mem l).isSome = true → l ∉ c.k.sentFields.reverse.map (fun f => Loc.sent c f) ∧
      l ∉ (st.nodes c).items.flatMap (Item.dtorOrder c.k) ∧ (st.mem l).isSome = true := by
    intro l hl
    rw [hmem] at hl
    by_cases h1 : l ∈ c.k.sentFields.reverse.map (fun f => Loc.sent c f)
    · rw [if_pos h1] at hl; cases hl
    · by_cases h2 : l ∈ (st.nodes c).items.flatMap (Item.dtorOrder c.k)
      · rw [if_neg h1, if_pos h2] at hl; cases hl
      · rw [if_neg h1, if_neg h2] at hl
        exact ⟨h1, h2, hl⟩
  have hheapS : ∀ b i f, Loc.heap b i f ∉ c.k.sentFields.reverse.map (fun f => Loc.sent c f) := by
    intro b i f hl
    obtain ⟨f', _, h3⟩ := (mem_sentLocs c _).mp hl
    cases h3
  have hsentD : ∀ c' f, Loc.sent c' f ∉ (st.nodes c).items.flatMap (Item.dtorOrder c.k) := by
    intro c' f hl
    obtain ⟨it, f', _, _, h3⟩ := (mem_allLocs _ _ _).mp hl
    cases h3
  have hitemD : ∀ c' it f, c' ≠ c → it ∈ (st.nodes c').items →
      it.loc f ∉ (st.nodes c).items.flatMap (Item.dtorOrder c.k) := by
    intro c' it f hc' hi hl
    obtain ⟨it', f', hi', _, h3⟩ := (mem_allLocs _ _ _).mp hl
    obtain ⟨rfl, _⟩ := loc_inj h3
    exact hc' (h.slot_owner (List.mem_append_left _ hi) (List.mem_append_left _ hi'))
  have harrD : ∀ a s i, (st.arrs a).store = some s →
      Loc.heap s i 1 ∉ (st.nodes c).items.flatMap (Item.dtorOrder c.k) := by
    intro a s i hs hl
    obtain ⟨it', f', hi', _, h3⟩ := (mem_allLocs _ _ _).mp hl
    simp only [Item.loc, Loc.heap.injEq] at h3
    exact h.slot_not_arr (List.mem_append_left _ hi') hs h3.1.symm
  constructor
  · intro c'
    by_cases hc' : c' = c
    · subst hc'; rw [hc]; exact List.nodup_nil
    · rw [ho c' hc']; exact h.slots_nodup c'
  · intro c' it hi
    by_cases hc' : c' = c
    · subst hc'; rw [hc] at hi; cases hi
    · rw [ho c' hc'] at hi ⊢; rw [hper]; exact h.slots_in c' it hi
  · intro c'
    by_cases hc' : c' = c
    · subst hc'; rw [hc]; exact List.nodup_nil
    · rw [ho c' hc']; exact h.blocks_nodup c'
  · intro c' d hd
    by_cases hc' : c' = c
    · subst hc'; rw [hc] at hd; cases hd
    · rw [ho c' hc'] at hd ⊢; exact h.data_notin c' d hd
  · intro o o' b h1 h2
    exact h.own_unique o o' b ((hown o b).mp h1).1 ((hown o' b).mp h2).1
  · intro c' b hb
    by_cases hc' : c' = c
    · subst hc'; rw [hc] at hb; cases hb
    · rw [ho c' hc'] at hb
      rw [hkeep (.node c') b (Or.inl hb) (by simp [hc']), hper]
      exact h.blocks_blk c' b hb
  · intro c' d hd
    by_cases hc' : c' = c
    · subst hc'; rw [hc] at hd; cases hd
    · rw [ho c' hc'] at hd
      rw [hkeep (.node c') d (Or.inr hd) (by simp [hc'])]
      exact h.data_blk c' d hd
  · intro a s hs
    rw [harrs] at hs ⊢
    rw [hkeep (.arr a) s hs (by simp)]
    exact h.store_blk a s hs
  · intro b n hbn
    by_cases hcb : owns st (.node c) b
    · rw [hblk1 b hcb] at hbn; cases hbn
    · rw [hblk2 b hcb] at hbn
      obtain ⟨o, ho'⟩ := h.blk_own b n hbn
      refine ⟨o, (hown o b).mpr ⟨ho', ?_⟩⟩
      intro e; subst e; exact hcb ho'
  · intro b hb
    rw [hnext] at hb
    by_cases hcb : owns st (.node c) b
    · exact hblk1 b hcb
    · rw [hblk2 b hcb]; exact h.blk_lt b hb
  · intro c' it f hi hf
    by_cases hc' : c' = c
    · subst hc'; rw [hc] at hi; cases hi
    · rw [ho c' hc'] at hi
      rw [hmemO (it.loc f) (hheapS it.b it.i f) (hitemD c' it f hc' hi)]
      exact h.items_live c' it f hi hf
  · intro a s i hs hi
    rw [harrs] at hs hi
    rw [hmemO _ (hheapS _ _ _) (harrD a s i hs)]
    exact h.elems_live a s i hs hi
  · intro c' f ha hf
    by_cases hc' : c' = c
    · subst hc'; rw [hc] at ha; cases ha
    · rw [ho c' hc'] at ha
      have hS : Loc.sent c' f ∉ c.k.sentFields.reverse.map (fun f => Loc.sent c f) := by
        intro hl
        obtain ⟨f', _, h3⟩ := (mem_sentLocs c _).mp hl
        cases h3; exact hc' rfl
      rw [hmemO _ hS (hsentD c' f)]
      exact h.sent_live c' f ha hf
  · intro l hl
    obtain ⟨hS, hD, hl'⟩ := hmemL l hl
    rcases h.live_owned l hl' with ⟨c', it, f, h1, h2, h3⟩ | ⟨a, s, i, h1, h2, h3⟩ | ⟨c', f, h1, h2, h3⟩
    · have hc' : c' ≠ c := by
        intro e; subst e
        exact hD ((mem_allLocs _ _ _).mpr ⟨it, f, h1, h2, h3⟩)
      exact Or.inl ⟨c', it, f, by rw [ho c' hc']; exact h1, h2, h3⟩
    · exact Or.inr (Or.inl ⟨a, s, i, by rw [harrs]; exact h1, by rw [harrs]; exact h2, h3⟩)
    · have hc' : c' ≠ c := by
        intro e; subst e
        exact hS ((mem_sentLocs _ _).mpr ⟨f, h2, h3⟩)
      exact Or.inr (Or.inr ⟨c', f, by rw [ho c' hc']; exact h1, h2, h3⟩)
  · intro a s hs; rw [harrs] at hs ⊢; exact h.arr_size a s hs
  · intro a hs; rw [harrs] at hs ⊢; exact h.arr_none a hs
  · intro c' ha
    by_cases hc' : c' = c
    · subst hc'; exact hc
    · rw [ho c' hc'] at ha ⊢; exact h.dead_node c' ha
  · intro a ha; rw [harrs] at ha ⊢; exact h.dead_arr a ha
  · intro c' hv
    by_cases hc' : c' = c
    · subst hc'; exact hc
    · rw [ho c' hc']; exact h.invalid_node c' hv
  · intro a ha; rw [harrs]; exact h.invalid_arr a ha

/-- the part of the destructor after the hash table has been freed (s1 = state after that) -/
theorem destroy_core {st s1 : State} (h : SInv st) (c : Var) (hA : (st.nodes c).alive = true)
    (hm1 : s1.mem = st.mem) (hn1 : s1.next = st.next) (hnodes1 : s1.nodes = st.nodes) (harrs1 : s1.arrs = st.arrs)
    (hp1 : s1.per = st.per)
    (hb1 : ∀ b, (st.nodes c).data = some b → s1.blk b = none)
    (hb2 : ∀ b, (st.nodes c).data ≠ some b → s1.blk b = st.blk b)
    (hT1 : Trace st s1) :
    SInv ((((s1.dtorItems c.k (st.nodes c).items).freeBlocks (st.nodes c).blocks).dtorLocs
        (c.k.sentFields.reverse.map fun f => Loc.sent c f)).setNode c {}) ∧
    Trace st ((((s1.dtorItems c.k (st.nodes c).items).freeBlocks (st.nodes c).blocks).dtorLocs
        (c.k.sentFields.reverse.map fun f => Loc.sent c f)).setNode c {}) := by
  constructor
  · apply destroy_inv h c
    · intro l
      simp only [setNode_mem, dtorLocs_mem, freeBlocks_mem, State.dtorItems, hm1]
    · intro b hb
      simp only [setNode_blk, dtorLocs_blk, freeBlocks_blk, State.dtorItems]
      by_cases hbb : b ∈ (st.nodes c).blocks
      · simp only [hbb, if_true]
      · simp only [hbb, if_false]
        rcases hb with hb | hb
        · exact absurd hb hbb
        · exact hb1 b hb
    · intro b hb
      simp only [owns, not_or] at hb
      simp only [setNode_blk, dtorLocs_blk, freeBlocks_blk, State.dtorItems, hb.1, if_false]
      exact hb2 b hb.2
    · simp only [setNode_next, dtorLocs_next, freeBlocks_next, State.dtorItems, hn1]
    · simp only [setNode_arrs, dtorLocs_arrs, freeBlocks_arrs, State.dtorItems, harrs1]
    · simp only [setNode_nodes, dtorLocs_nodes, freeBlocks_nodes, State.dtorItems, hnodes1]
    · simp only [setNode_per, dtorLocs_per, freeBlocks_per, State.dtorItems, hp1]
  · have hT2 : Trace s1 (s1.dtorItems c.k (st.nodes c).items) := by
      apply trace_dtorLocs s1 _ (allLocs_nodup _ _ (items_nodup h c))
      intro l hl
      obtain ⟨it, f, hit, hf, rfl⟩ := (mem_allLocs _ _ _).mp hl
      rw [hm1]
      exact h.items_live c it f hit hf
    have hT3 : Trace (s1.dtorItems c.k (st.nodes c).items)
        ((s1.dtorItems c.k (st.nodes c).items).freeBlocks (st.nodes c).blocks) := by
      apply trace_freeBlocks _ _ (st.per.f c.k) (h.blocks_nodup c)
      · intro b hb
        simp only [State.dtorItems, dtorLocs_blk]
        rw [hb2 b (fun e => h.data_notin c b e hb)]
        exact h.blocks_blk c b hb
      · intro b hb i _ f _
        simp only [State.dtorItems, dtorLocs_mem, hm1]
        by_cases hd : Loc.heap b i f ∈ (st.nodes c).items.flatMap (Item.dtorOrder c.k)
        · simp only [hd, if_true]
        · simp only [hd, if_false]
          cases hm : st.mem (.heap b i f) with
          | none => rfl
          | some p =>
            exfalso
            rcases h.live_owned _ (by simp [hm] : (st.mem (.heap b i f)).isSome = true) with
              ⟨c', it, f', h1, h2, h3⟩ | ⟨a, s, i', h1, _, h3⟩ | ⟨c', f', _, _, h3⟩
            · have hbe : it.b = b := by
                simp only [Item.loc, Loc.heap.injEq] at h3; exact h3.1.symm
              have := h.own_unique (.node c') (.node c) b
                (by rw [← hbe]; exact h.item_block (List.mem_append_left _ h1)) (Or.inl hb)
              cases this
              exact hd ((mem_allLocs _ _ _).mpr ⟨it, f', h1, h2, h3⟩)
            · simp only [Loc.heap.injEq] at h3
              have := h.own_unique (.arr a) (.node c) b (by rw [h3.1]; exact h1) (Or.inl hb)
              cases this
            · cases h3
    have hT4 : Trace ((s1.dtorItems c.k (st.nodes c).items).freeBlocks (st.nodes c).blocks)
        (((s1.dtorItems c.k (st.nodes c).items).freeBlocks (st.nodes c).blocks).dtorLocs
          (c.k.sentFields.reverse.map fun f => Loc.sent c f)) := by
      apply trace_dtorLocs _ _ (sentLocs_nodup c)
      intro l hl
      obtain ⟨f, hf, rfl⟩ := (mem_sentLocs c l).mp hl
      simp only [freeBlocks_mem, State.dtorItems, dtorLocs_mem, hm1]
      have hd : Loc.sent c f ∉ (st.nodes c).items.flatMap (Item.dtorOrder c.k) := by
        intro hl'
        obtain ⟨it, f', _, _, h3⟩ := (mem_allLocs _ _ _).mp hl'
        cases h3
      simp only [hd, if_false]
      exact h.sent_live c f hA hf
    exact Trace.trans hT1 (Trace.trans hT2 (Trace.trans hT3 (Trace.trans hT4 (Trace.of_same rfl rfl rfl rfl))))

theorem destroy_ok {st st' : State} (h : SInv st) (c : Var) (he : exec' st (.destroy c) = some st') :
    SInv st' ∧ Trace st st' := by
  simp only [exec'] at he
  cases hA : (st.nodes c).alive with
  | false => simp [hA] at he
  | true =>
    have hg : ¬ ((!(st.nodes c).alive) = true) := by simp [hA]
    rw [if_neg hg] at he
    have he := Option.some.inj he
    subst he
    cases hd : (st.nodes c).data with
    | none =>
      refine destroy_core h c hA rfl rfl rfl rfl rfl ?_ ?_ (Trace.refl st)
      · intro b hb; rw [hd] at hb; cases hb
      · intro b _; rfl
    | some d =>
      refine destroy_core (s1 := st.freeBlk d) h c hA rfl rfl rfl rfl rfl ?_ ?_ ?_
      · intro b hb
        rw [hd] at hb; cases hb
        simp only [freeBlk_blk, upd_same]
      · intro b hb
        rw [hd] at hb
        have : b ≠ d := fun e => hb (by rw [e])
        simp only [freeBlk_blk, upd_other _ _ _ _ this]
      · exact trace_free st d 0 (h.data_blk c d hd) (fun i hi => absurd hi (Nat.not_lt_zero i))

end Nstd.Life.NodeB
