import Nstd.Life.LemmasNode
/-
  Micro steps of node containers, part A: assignVal, remove, removeKey, removeVal, swap, create.
  Each keeps the state invariant `SInv` and emits a log accepted by the checker (`Trace`).
-/
namespace Nstd.Life.NodeA
open Nstd.Life

-- assignVal ------------------------------------------------------------------------------------------------

theorem assignAt_ok {st : State} (h : SInv st) (c : Var) (j : Nat) (it : Item) (l : Loc) (p : Option Nat)
    (src : SrcRef) (hf : 1 ∈ c.k.fields) (hj : (st.nodes c).items[j]? = some it)
    (hr : resolve st src = some (some l, p)) :
    SInv (st.assign (it.loc 1) l p) ∧ Trace st (st.assign (it.loc 1) l p) := by
  obtain ⟨hp, hs⟩ := resolve_live h src (some l) p hr
  have hmem : it ∈ (st.nodes c).items := List.mem_of_getElem? hj
  have hd := h.items_live c it 1 hmem hf
  refine ⟨?_, trace_assign st _ l p hd (hs l rfl) hp⟩
  refine SInv.of_same_live (st' := st.assign (it.loc 1) l p) h rfl rfl rfl rfl ?_
  intro x
  simp only [assign_mem, upd]
  by_cases hx : x = it.loc 1
  · simp only [hx, if_true, hp, hd]
  · simp only [hx, if_false]

theorem assignVal_ok {st st' : State} (h : SInv st) (c : Var) (j : Nat) (src : SrcRef)
    (he : exec' st (.assignVal c j src) = some st') : SInv st' ∧ Trace st st' := by
  simp only [exec'] at he
  by_cases hf : 1 ∈ c.k.fields
  · cases hj : (st.nodes c).items[j]? with
    | none => simp [hf, hj] at he
    | some it =>
      cases hr : resolve st src with
      | none => simp [hf, hj, hr] at he
      | some lp =>
        obtain ⟨l, p⟩ := lp
        cases l with
        | none => simp [hf, hj, hr] at he
        | some l =>
          simp [hf, hj, hr] at he
          subst he
          exact assignAt_ok h c j it l p src hf hj hr
  · simp [hf] at he

-- remove ---------------------------------------------------------------------------------------------------

theorem perm_eraseIdx {α : Type} (r : List α) :
    ∀ (l : List α) (j : Nat) (a : α), l[j]? = some a → (l.eraseIdx j ++ a :: r).Perm (l ++ r)
  | [], j, a, h => by simp at h
  | x :: l, 0, a, h => by
    simp only [List.getElem?_cons_zero, Option.some.injEq] at h
    subst h
    simp only [List.eraseIdx_cons_zero, List.cons_append]
    exact List.perm_middle
  | x :: l, j + 1, a, h => by
    simp only [List.getElem?_cons_succ] at h
    simp only [List.eraseIdx_cons_succ, List.cons_append]
    exact (perm_eraseIdx r l j a h).cons x

theorem mem_dtorOrder (k : Kind) (it : Item) (l : Loc) :
    l ∈ it.dtorOrder k ↔ ∃ f, f ∈ k.fields ∧ l = it.loc f := by
  simp only [Item.dtorOrder, List.mem_map, List.mem_reverse]
  constructor
  · rintro ⟨f, hf, rfl⟩; exact ⟨f, hf, rfl⟩
  · rintro ⟨f, hf, rfl⟩; exact ⟨f, hf, rfl⟩

theorem dtorOrder_nodup (k : Kind) (it : Item) : (it.dtorOrder k).Nodup := by
  cases k <;> simp [Item.dtorOrder, Kind.fields, Item.loc]

theorem removeAt_ok {st : State} (h : SInv st) (c : Var) (j : Nat) (it : Item)
    (hj : (st.nodes c).items[j]? = some it) :
    SInv (removeAt st c j it) ∧ Trace st (removeAt st c j it) := by
  have hmem : it ∈ (st.nodes c).items := List.mem_of_getElem? hj
  have hP := perm_eraseIdx (st.nodes c).free (st.nodes c).items j it hj
  have hND : ((st.nodes c).items.eraseIdx j ++ it :: (st.nodes c).free).Nodup :=
    hP.nodup_iff.mpr (h.slots_nodup c)
  have hnotin : it ∉ (st.nodes c).items.eraseIdx j := by
    intro hx
    exact (List.nodup_append.mp hND).2.2 it hx it (by simp) rfl
  have hmemEq : ∀ l, (removeAt st c j it).mem l = if l ∈ it.dtorOrder c.k then none else st.mem l := by
    intro l; simp only [removeAt, setNode_mem, State.dtorItem, dtorLocs_mem]
  constructor
  · refine node_local h c ((st.nodes c).items.eraseIdx j) (it :: (st.nodes c).free) ?_ ?_ ?_ ?_ ?_ hND
      (fun x => hP.mem_iff) ?_ ?_ ?_
    · simp only [removeAt, State.dtorItem, setNode_nodes, dtorLocs_nodes]
    · simp only [removeAt, State.dtorItem, setNode_arrs, dtorLocs_arrs]
    · simp only [removeAt, State.dtorItem, setNode_blk, dtorLocs_blk]
    · simp only [removeAt, State.dtorItem, setNode_next, dtorLocs_next]
    · simp only [removeAt, State.dtorItem, setNode_per, dtorLocs_per]
    · intro l hl
      rw [hmemEq]
      have : l ∉ it.dtorOrder c.k := by
        intro hd
        obtain ⟨f, _, rfl⟩ := (mem_dtorOrder _ _ _).mp hd
        exact hl ⟨it, f, List.mem_append_left _ hmem, rfl⟩
      simp only [this, if_false]
    · intro it' f hi'
      rw [hmemEq]
      constructor
      · intro hs
        by_cases hd : it'.loc f ∈ it.dtorOrder c.k
        · simp [hd] at hs
        · simp only [hd, if_false] at hs
          simp only [List.mem_append, List.mem_cons] at hi'
          rcases hi' with h1 | h1 | h1
          · exact ⟨h1, (h.item_live_iff (List.mem_of_mem_eraseIdx h1) f).mp hs⟩
          · subst h1
            exfalso
            exact hd ((mem_dtorOrder _ _ _).mpr ⟨f, (h.item_live_iff hmem f).mp hs, rfl⟩)
          · rw [h.free_dead h1 f] at hs; cases hs
      · rintro ⟨h1, h2⟩
        have hd : it'.loc f ∉ it.dtorOrder c.k := by
          intro hd
          obtain ⟨f', _, he⟩ := (mem_dtorOrder _ _ _).mp hd
          obtain ⟨rfl, _⟩ := loc_inj he
          exact hnotin h1
        simp only [hd, if_false]
        exact h.items_live c it' f (List.mem_of_mem_eraseIdx h1) h2
    · intro ha
      rw [h.dead_node c ha] at hmem
      cases hmem
  · have h1 : Trace st (st.dtorLocs (it.dtorOrder c.k)) := by
      apply trace_dtorLocs st _ (dtorOrder_nodup _ _)
      intro l hl
      obtain ⟨f, hf, rfl⟩ := (mem_dtorOrder _ _ _).mp hl
      exact h.items_live c it f hmem hf
    exact Trace.trans h1 (Trace.of_same rfl rfl rfl rfl)

theorem remove_ok {st st' : State} (h : SInv st) (c : Var) (j : Nat)
    (he : exec' st (.remove c j) = some st') : SInv st' ∧ Trace st st' := by
  simp only [exec'] at he
  cases hj : (st.nodes c).items[j]? with
  | none => simp [hj] at he
  | some it =>
    simp [hj] at he
    subst he
    exact removeAt_ok h c j it hj

theorem removeKey_ok {st st' : State} (h : SInv st) (c : Var) (k : SrcRef)
    (he : exec' st (.removeKey c k) = some st') : SInv st' ∧ Trace st st' := by
  simp only [exec'] at he
  cases hp : k.payload st with
  | none => simp [hp] at he
  | some kp =>
    cases hf : findField st 0 kp (st.nodes c).items with
    | none =>
      simp [hp, hf] at he
      subst he
      exact ⟨h, Trace.refl st⟩
    | some j =>
      cases hj : (st.nodes c).items[j]? with
      | none => simp [hp, hf, hj] at he
      | some it =>
        simp [hp, hf, hj] at he
        subst he
        exact removeAt_ok h c j it hj

theorem removeVal_ok {st st' : State} (h : SInv st) (c : Var) (v : SrcRef)
    (he : exec' st (.removeVal c v) = some st') : SInv st' ∧ Trace st st' := by
  simp only [exec'] at he
  cases hp : v.payload st with
  | none => simp [hp] at he
  | some vp =>
    cases hf : findField st 1 vp (st.nodes c).items with
    | none =>
      simp [hp, hf] at he
      subst he
      exact ⟨h, Trace.refl st⟩
    | some j =>
      cases hj : (st.nodes c).items[j]? with
      | none => simp [hp, hf, hj] at he
      | some it =>
        simp [hp, hf, hj] at he
        subst he
        exact removeAt_ok h c j it hj

-- swap -----------------------------------------------------------------------------------------------------

/-- the transposition of two variables -/
def sw (c d x : Var) : Var := if x = d then c else if x = c then d else x

theorem sw_d (c d : Var) : sw c d d = c := by simp [sw]

theorem sw_c (c d : Var) : sw c d c = d := by
  unfold sw
  by_cases h : c = d
  · simp [h]
  · simp [h]

theorem sw_of_ne (c d x : Var) (h1 : x ≠ c) (h2 : x ≠ d) : sw c d x = x := by
  simp [sw, h1, h2]

theorem sw_sw (c d x : Var) : sw c d (sw c d x) = x := by
  by_cases h1 : x = d
  · subst h1; rw [sw_d, sw_c]
  · by_cases h2 : x = c
    · subst h2; rw [sw_c, sw_d]
    · rw [sw_of_ne c d x h2 h1, sw_of_ne c d x h2 h1]

/-- renaming the node variables by an involution that respects kinds, validity and aliveness -/
theorem SInv.of_perm {st st' : State} (h : SInv st) (σ : Var → Var) (hσ : ∀ x, σ (σ x) = x)
    (hk : ∀ x, (σ x).k = x.k) (hval : ∀ x, x.valid = false → σ x = x)
    (halive : ∀ x, (st.nodes (σ x)).alive = true → (st.nodes x).alive = true)
    (hn : ∀ x, st'.nodes x = st.nodes (σ x)) (ha : st'.arrs = st.arrs) (hb : st'.blk = st.blk)
    (hx : st'.next = st.next) (hm : st'.mem = st.mem) (hp : st'.per = st.per := by rfl) : SInv st' := by
  let τ : Owner → Owner := fun o => match o with | .node c => .node (σ c) | .arr a => .arr a
  have hτ : ∀ o, τ (τ o) = o := by
    intro o; cases o with
    | node c => simp only [τ, hσ]
    | arr a => rfl
  have ho : ∀ o b, owns st' o b ↔ owns st (τ o) b := by
    intro o b; cases o with
    | node c => simp only [owns, hn, τ]
    | arr a => simp only [owns, ha, τ]
  constructor
  · intro c; rw [hn]; exact h.slots_nodup _
  · intro c; rw [hn, hp, ← hk c]; exact h.slots_in _
  · intro c; rw [hn]; exact h.blocks_nodup _
  · intro c; rw [hn]; exact h.data_notin _
  · intro o o' b h1 h2
    have := h.own_unique _ _ b ((ho o b).mp h1) ((ho o' b).mp h2)
    rw [← hτ o, ← hτ o', this]
  · intro c b; rw [hn, hb, hp, ← hk c]; exact h.blocks_blk _ b
  · intro c d; rw [hn, hb]; exact h.data_blk _ d
  · intro a s; rw [ha, hb]; exact h.store_blk a s
  · intro b n hbn
    rw [hb] at hbn
    obtain ⟨o, ho'⟩ := h.blk_own b n hbn
    exact ⟨τ o, (ho (τ o) b).mpr (by rw [hτ]; exact ho')⟩
  · intro b; rw [hx, hb]; exact h.blk_lt b
  · intro c it f h1 h2
    rw [hn] at h1; rw [hm]
    exact h.items_live (σ c) it f h1 (by rw [hk]; exact h2)
  · intro a s i; rw [ha, hm]; exact h.elems_live a s i
  · intro c f h1 h2
    rw [hn] at h1; rw [hm]
    exact h.sent_live c f (halive c h1) h2
  · intro l hl
    rw [hm] at hl
    rcases h.live_owned l hl with ⟨c, it, f, h1, h2, h3⟩ | ⟨a, s, i, h1, h2, h3⟩ | ⟨c, f, h1, h2, h3⟩
    · exact Or.inl ⟨σ c, it, f, by rw [hn, hσ]; exact h1, by rw [hk]; exact h2, h3⟩
    · exact Or.inr (Or.inl ⟨a, s, i, by rw [ha]; exact h1, by rw [ha]; exact h2, h3⟩)
    · refine Or.inr (Or.inr ⟨c, f, ?_, h2, h3⟩)
      rw [hn]
      cases hA : (st.nodes (σ c)).alive with
      | true => rfl
      | false =>
        exfalso
        have hz := h.dead_node (σ c) hA
        have := halive (σ c) (by rw [hσ]; exact h1)
        rw [this] at hA; cases hA
  · intro a s; rw [ha]; exact h.arr_size a s
  · intro a; rw [ha]; exact h.arr_none a
  · intro c; rw [hn]; exact h.dead_node _
  · intro a; rw [ha]; exact h.dead_arr a
  · intro c hv; rw [hn, hval c hv]; exact h.invalid_node c hv
  · intro a; rw [ha]; exact h.invalid_arr a

theorem swap_ok {st st' : State} (h : SInv st) (c d : Var) (hv : c.valid = true ∧ d.valid = true)
    (he : exec' st (.swap c d) = some st') : SInv st' ∧ Trace st st' := by
  simp only [exec'] at he
  by_cases hg : (!(st.nodes c).alive || !(st.nodes d).alive || c.k != d.k) = true
  · simp [hg] at he
  · rw [if_neg hg] at he
    simp only [Option.some.injEq] at he
    subst he
    simp only [Bool.or_eq_true, Bool.not_eq_true', bne_iff_ne, ne_eq, not_or, Bool.not_eq_false,
      Decidable.not_not] at hg
    obtain ⟨⟨hac, had⟩, hkk⟩ := hg
    refine ⟨?_, Trace.of_same rfl rfl rfl rfl⟩
    refine SInv.of_perm h (sw c d) (sw_sw c d) ?_ ?_ ?_ ?_ rfl rfl rfl rfl
    · intro x
      by_cases h1 : x = d
      · subst h1; rw [sw_d, hkk]
      · by_cases h2 : x = c
        · subst h2; rw [sw_c, hkk]
        · rw [sw_of_ne c d x h2 h1]
    · intro x hx
      apply sw_of_ne
      · intro e; rw [e, hv.1] at hx; cases hx
      · intro e; rw [e, hv.2] at hx; cases hx
    · intro x
      by_cases h1 : x = d
      · subst h1; intro _; exact had
      · by_cases h2 : x = c
        · subst h2; intro _; exact hac
        · rw [sw_of_ne c d x h2 h1]; exact id
    · intro x
      simp only [setNode_nodes]
      by_cases h1 : x = d
      · subst h1; rw [sw_d, upd_same]
      · rw [upd_other _ _ _ _ h1]
        by_cases h2 : x = c
        · subst h2; rw [sw_c, upd_same]
        · rw [upd_other _ _ _ _ h2, sw_of_ne c d x h2 h1]

-- create ---------------------------------------------------------------------------------------------------

def sentSrcs (c : Var) : List (Loc × Option Loc × Option Nat) :=
  c.k.sentFields.map fun f => (.sent c f, none, some 0)

theorem mem_sentSrcs (c : Var) (x : Loc × Option Loc × Option Nat) :
    x ∈ sentSrcs c ↔ ∃ f, f ∈ c.k.sentFields ∧ x = (.sent c f, none, some 0) := by
  simp only [sentSrcs, List.mem_map]
  constructor
  · rintro ⟨f, hf, rfl⟩; exact ⟨f, hf, rfl⟩
  · rintro ⟨f, hf, rfl⟩; exact ⟨f, hf, rfl⟩

theorem mem_sentDst (c : Var) (l : Loc) :
    l ∈ (sentSrcs c).map (·.1) ↔ ∃ f, f ∈ c.k.sentFields ∧ l = .sent c f := by
  simp only [sentSrcs, List.map_map, List.mem_map, Function.comp]
  constructor
  · rintro ⟨f, hf, rfl⟩; exact ⟨f, hf, rfl⟩
  · rintro ⟨f, hf, rfl⟩; exact ⟨f, hf, rfl⟩

theorem sentDst_nodup (c : Var) : ((sentSrcs c).map (·.1)).Nodup := by
  obtain ⟨k, v⟩ := c
  cases k <;> simp [sentSrcs, Kind.sentFields]

theorem create_ok {st st' : State} (h : SInv st) (c : Var) (hv : c.valid = true)
    (he : exec' st (.create c) = some st') : SInv st' ∧ Trace st st' := by
  simp only [exec'] at he
  cases hA : (st.nodes c).alive with
  | true => simp [hA] at he
  | false =>
    simp only [hA, Bool.false_eq_true, if_false, Option.some.injEq] at he
    change (st.ctorList (sentSrcs c)).setNode c { alive := true } = st' at he
    have hz : st.nodes c = {} := h.dead_node c hA
    have hdead : ∀ f, st.mem (.sent c f) = none := by
      intro f
      cases hm : st.mem (.sent c f) with
      | none => rfl
      | some p =>
        exfalso
        rcases h.live_owned (.sent c f) (by simp [hm]) with ⟨c', it, f', _, _, h3⟩ | ⟨a, s, i, _, _, h3⟩ | ⟨c', f', h1, _, h3⟩
        · cases h3
        · cases h3
        · cases h3; rw [hA] at h1; cases h1
    have hT : Trace st (st.ctorList (sentSrcs c)) := by
      apply trace_ctorList st _ (sentDst_nodup c)
      · intro x hx
        obtain ⟨f, hf, rfl⟩ := (mem_sentSrcs c x).mp hx
        simp [Chk.slotOk, sentFields_lt _ _ hf]
      · intro x hx
        obtain ⟨f, hf, rfl⟩ := (mem_sentSrcs c x).mp hx
        exact hdead f
      · intro x hx
        obtain ⟨f, hf, rfl⟩ := (mem_sentSrcs c x).mp hx
        rfl
      · intro x hx s hs
        obtain ⟨f, hf, rfl⟩ := (mem_sentSrcs c x).mp hx
        cases hs
    subst he
    refine ⟨?_, Trace.trans hT (Trace.of_same rfl rfl rfl rfl)⟩
    -- the new state
    have hmemO : ∀ l, l ∉ (sentSrcs c).map (·.1) →
        ((st.ctorList (sentSrcs c)).setNode c { alive := true }).mem l = st.mem l := by
      intro l hl; rw [setNode_mem]; exact ctorList_mem_other st _ l hl
    have hmemD : ∀ f, f ∈ c.k.sentFields →
        (((st.ctorList (sentSrcs c)).setNode c { alive := true }).mem (.sent c f)).isSome = true := by
      intro f hf; rw [setNode_mem]
      apply ctorList_mem_dst st _ _ (sentDst_nodup c)
      · intro x hx
        obtain ⟨f, hf, rfl⟩ := (mem_sentSrcs c x).mp hx
        rfl
      · exact (mem_sentDst c _).mpr ⟨f, hf, rfl⟩
    have hheap : ∀ b i f, Loc.heap b i f ∉ (sentSrcs c).map (·.1) := by
      intro b i f hl
      obtain ⟨f', _, h3⟩ := (mem_sentDst c _).mp hl
      cases h3
    have hsentO : ∀ c' f, c' ≠ c → Loc.sent c' f ∉ (sentSrcs c).map (·.1) := by
      intro c' f hc hl
      obtain ⟨f', _, h3⟩ := (mem_sentDst c _).mp hl
      cases h3; exact hc rfl
    have hnc : ((st.ctorList (sentSrcs c)).setNode c { alive := true }).nodes c = { alive := true } := by
      rw [setNode_nodes, upd_same]
    have hno : ∀ c', c' ≠ c →
        ((st.ctorList (sentSrcs c)).setNode c { alive := true }).nodes c' = st.nodes c' := by
      intro c' hc; rw [setNode_nodes, upd_other _ _ _ _ hc, ctorList_nodes]
    have harrs : ((st.ctorList (sentSrcs c)).setNode c { alive := true }).arrs = st.arrs := by
      rw [setNode_arrs, ctorList_arrs]
    have hblk : ((st.ctorList (sentSrcs c)).setNode c { alive := true }).blk = st.blk := by
      rw [setNode_blk, ctorList_blk]
    have hnext : ((st.ctorList (sentSrcs c)).setNode c { alive := true }).next = st.next := by
      rw [setNode_next, ctorList_next]
    have hper : ((st.ctorList (sentSrcs c)).setNode c { alive := true }).per = st.per := by
      rw [setNode_per, ctorList_per]
    generalize (st.ctorList (sentSrcs c)).setNode c { alive := true } = st' at *
    have hown : ∀ o b, owns st' o b ↔ owns st o b := by
      intro o b
      cases o with
      | node c' =>
        by_cases hc : c' = c
        · subst hc; simp only [owns, hnc, hz]
        · simp only [owns, hno c' hc]
      | arr a => simp only [owns, harrs]
    constructor
    · intro c'
      by_cases hc : c' = c
      · subst hc; rw [hnc]; exact List.nodup_nil
      · rw [hno c' hc]; exact h.slots_nodup c'
    · intro c' it hi
      by_cases hc : c' = c
      · subst hc; rw [hnc] at hi; cases hi
      · rw [hno c' hc] at hi ⊢; rw [hper]; exact h.slots_in c' it hi
    · intro c'
      by_cases hc : c' = c
      · subst hc; rw [hnc]; exact List.nodup_nil
      · rw [hno c' hc]; exact h.blocks_nodup c'
    · intro c' d hd
      by_cases hc : c' = c
      · subst hc; rw [hnc] at hd; cases hd
      · rw [hno c' hc] at hd ⊢; exact h.data_notin c' d hd
    · intro o o' b h1 h2; exact h.own_unique o o' b ((hown o b).mp h1) ((hown o' b).mp h2)
    · intro c' b hb
      by_cases hc : c' = c
      · subst hc; rw [hnc] at hb; cases hb
      · rw [hno c' hc] at hb; rw [hblk, hper]; exact h.blocks_blk c' b hb
    · intro c' d hd
      by_cases hc : c' = c
      · subst hc; rw [hnc] at hd; cases hd
      · rw [hno c' hc] at hd; rw [hblk]; exact h.data_blk c' d hd
    · intro a s hs; rw [hblk]; rw [harrs] at hs ⊢; exact h.store_blk a s hs
    · intro b n hbn
      rw [hblk] at hbn
      obtain ⟨o, ho'⟩ := h.blk_own b n hbn
      exact ⟨o, (hown o b).mpr ho'⟩
    · intro b hb; rw [hblk]; rw [hnext] at hb; exact h.blk_lt b hb
    · intro c' it f hi hf
      by_cases hc : c' = c
      · subst hc; rw [hnc] at hi; cases hi
      · rw [hno c' hc] at hi
        rw [Item.loc, hmemO _ (hheap _ _ _)]
        exact h.items_live c' it f hi hf
    · intro a s i hs hi
      rw [harrs] at hs hi
      rw [hmemO _ (hheap _ _ _)]
      exact h.elems_live a s i hs hi
    · intro c' f ha hf
      by_cases hc : c' = c
      · subst hc; exact hmemD f hf
      · rw [hno c' hc] at ha
        rw [hmemO _ (hsentO c' f hc)]
        exact h.sent_live c' f ha hf
    · intro l hl
      by_cases hd : l ∈ (sentSrcs c).map (·.1)
      · obtain ⟨f, hf, rfl⟩ := (mem_sentDst c l).mp hd
        exact Or.inr (Or.inr ⟨c, f, by rw [hnc], hf, rfl⟩)
      · rw [hmemO l hd] at hl
        rcases h.live_owned l hl with ⟨c', it, f, h1, h2, h3⟩ | ⟨a, s, i, h1, h2, h3⟩ | ⟨c', f, h1, h2, h3⟩
        · have hc : c' ≠ c := by
            intro e; subst e; rw [hz] at h1; cases h1
          exact Or.inl ⟨c', it, f, by rw [hno c' hc]; exact h1, h2, h3⟩
        · exact Or.inr (Or.inl ⟨a, s, i, by rw [harrs]; exact h1, by rw [harrs]; exact h2, h3⟩)
        · have hc : c' ≠ c := by
            intro e; subst e; rw [hA] at h1; cases h1
          exact Or.inr (Or.inr ⟨c', f, by rw [hno c' hc]; exact h1, h2, h3⟩)
    · intro a s hs; rw [harrs] at hs ⊢; exact h.arr_size a s hs
    · intro a hs; rw [harrs] at hs ⊢; exact h.arr_none a hs
    · intro c' ha
      by_cases hc : c' = c
      · subst hc; rw [hnc] at ha; cases ha
      · rw [hno c' hc] at ha ⊢; exact h.dead_node c' ha
    · intro a ha; rw [harrs] at ha ⊢; exact h.dead_arr a ha
    · intro c' hv'
      have hc : c' ≠ c := by
        intro e; subst e; rw [hv] at hv'; cases hv'
      rw [hno c' hc]; exact h.invalid_node c' hv'
    · intro a ha; rw [harrs]; exact h.invalid_arr a ha

end Nstd.Life.NodeA
