import Nstd.Life.LemmasClient
import Nstd.Life.LemmasSortExec
/-
  Which slot (address) an insertion takes: the head of the LIFO free list of the container - the slot released last - or, when
  the free list is empty, the first slot the threading loop of a fresh block hands out; never a slot an element lives in.
-/
namespace Nstd.Life

theorem insertNew_unfold (s : State) (c : Var) (pos : Nat) (srcs : List (Nat × Option Loc × Option Nat)) :
    ∃ st1 st2, st1 = (if c.k.isHash && (s.nodes c).data.isNone then allocData s c else s) ∧
      st2 = (if (st1.nodes c).free.isEmpty then allocBlock st1 c else st1) ∧
      insertNew s c pos srcs = (match (st2.nodes c).free with | it :: rest => useSlot st2 c pos it rest srcs | [] => st2) :=
  ⟨_, _, rfl, rfl, rfl⟩

/-- the lazy allocation of the hash table leaves the item side of the container alone -/
theorem allocData_side (s : State) (c : Var) (st1 : State)
    (h1 : st1 = (if c.k.isHash && (s.nodes c).data.isNone then allocData s c else s)) :
    (st1.nodes c).free = (s.nodes c).free ∧ (st1.nodes c).items = (s.nodes c).items ∧
      (st1.nodes c).blocks = (s.nodes c).blocks ∧ s.next ≤ st1.next ∧ st1.per = s.per := by
  by_cases hc : (c.k.isHash && (s.nodes c).data.isNone) = true
  · rw [if_pos hc] at h1; subst h1
    simp [allocData, State.alloc, State.setNode, upd_same]
  · rw [if_neg hc] at h1; subst h1
    exact ⟨rfl, rfl, rfl, Nat.le_refl _, rfl⟩

/-- non-empty free list: `insertNew` pops its head, allocates no item block -/
theorem insertNew_free_head (st : State) (c : Var) (pos : Nat) (srcs : List (Nat × Option Loc × Option Nat))
    (it : Item) (rest : List Item) (hf : (st.nodes c).free = it :: rest) :
    ((insertNew st c pos srcs).nodes c).items = insertAt (st.nodes c).items pos it ∧
    ((insertNew st c pos srcs).nodes c).free = rest ∧
    ((insertNew st c pos srcs).nodes c).blocks = (st.nodes c).blocks := by
  obtain ⟨st1, st2, h1, h2, heq⟩ := insertNew_unfold st c pos srcs
  obtain ⟨f1, i1, b1, _, _⟩ := allocData_side st c st1 h1
  have hne : (st1.nodes c).free.isEmpty = false := by rw [f1, hf]; rfl
  rw [hne] at h2
  simp only [Bool.false_eq_true, if_false] at h2
  subst h2
  rw [heq, f1, hf]
  simp only [useSlot, setNode_get, i1, b1, and_self]

/-- empty free list: a fresh block b (not allocated before) is threaded, its first slot in hand-out order is taken, the others
    are the new free list -/
theorem insertNew_fresh_block (st : State) (c : Var) (pos : Nat) (srcs : List (Nat × Option Loc × Option Nat))
    (hf : (st.nodes c).free = []) :
    ∃ b it rest, st.next ≤ b ∧ newSlots (st.per.f c.k) c.k b = it :: rest ∧
      ((insertNew st c pos srcs).nodes c).items = insertAt (st.nodes c).items pos it ∧
      ((insertNew st c pos srcs).nodes c).free = rest ∧
      ((insertNew st c pos srcs).nodes c).blocks = b :: (st.nodes c).blocks := by
  obtain ⟨st1, st2, h1, h2, heq⟩ := insertNew_unfold st c pos srcs
  obtain ⟨f1, i1, b1, n1, p1⟩ := allocData_side st c st1 h1
  have hem : (st1.nodes c).free.isEmpty = true := by rw [f1, hf]; rfl
  rw [hem] at h2
  simp only [if_true] at h2
  subst h2
  cases hn : newSlots (st.per.f c.k) c.k st1.next with
  | nil => exact absurd hn (newSlots_ne_nil _ _ _ (st.per.pos c.k))
  | cons it rest =>
    refine ⟨st1.next, it, rest, n1, hn, ?_⟩
    have hfree : ((allocBlock st1 c).nodes c).free = it :: rest := by
      simp only [allocBlock, setNode_get, p1, hn]
    rw [heq, hfree]
    simp only [useSlot, setNode_get, allocBlock, i1, b1, and_self]

/-- an insertion step that links a new item (the container grows) -/
theorem put_grows_insertNew {st st' : State} (c : Var) (pos : Option Nat) (k v : Option SrcRef)
    (he : exec st (.put c pos k v) = some st') (hg : (st'.nodes c).items.length = (st.nodes c).items.length + 1) :
    ∃ q srcs, st' = insertNew st c q srcs := by
  rcases Assign.put_cases c pos k v (Stable.exec_exec' he) with ⟨q, srcs, rfl⟩ | rfl | ⟨it', vl, vp, _, _, _, rfl, _⟩
  · exact ⟨q, srcs, rfl⟩
  · omega
  · simp only [State.assign] at hg; omega

/-- which slot an insertion takes -/
theorem put_takes_free_head {st st' : State} (c : Var) (pos : Option Nat) (k v : Option SrcRef)
    (he : exec st (.put c pos k v) = some st') (hg : (st'.nodes c).items.length = (st.nodes c).items.length + 1) :
    (∀ it rest, (st.nodes c).free = it :: rest →
      (∃ q, (st'.nodes c).items = insertAt (st.nodes c).items q it) ∧ (st'.nodes c).free = rest ∧
        (st'.nodes c).blocks = (st.nodes c).blocks) ∧
    ((st.nodes c).free = [] →
      ∃ b it rest q, st.next ≤ b ∧ newSlots (st.per.f c.k) c.k b = it :: rest ∧
        (st'.nodes c).items = insertAt (st.nodes c).items q it ∧ (st'.nodes c).free = rest ∧
        (st'.nodes c).blocks = b :: (st.nodes c).blocks) := by
  obtain ⟨q, srcs, rfl⟩ := put_grows_insertNew c pos k v he hg
  constructor
  · intro it rest hf
    obtain ⟨h1, h2, h3⟩ := insertNew_free_head st c q srcs it rest hf
    exact ⟨⟨q, h1⟩, h2, h3⟩
  · intro hf
    obtain ⟨b, it, rest, hb, hn, h1, h2, h3⟩ := insertNew_fresh_block st c q srcs hf
    exact ⟨b, it, rest, q, hb, hn, h1, h2, h3⟩

/-- `remove(iterator)` pushes the slot of the removed item on the free list -/
theorem remove_pushes_slot {st s1 : State} (c : Var) (j : Nat) (he : exec st (.remove c j) = some s1) :
    ∃ it, (st.nodes c).items[j]? = some it ∧ (s1.nodes c).free = it :: (st.nodes c).free ∧
      (s1.nodes c).items = (st.nodes c).items.eraseIdx j ∧ (s1.nodes c).blocks = (st.nodes c).blocks := by
  have h1 := Stable.exec_exec' he
  simp only [exec'] at h1
  cases hj : (st.nodes c).items[j]? with
  | none => simp [hj] at h1
  | some it =>
    simp [hj] at h1
    subst h1
    exact ⟨it, rfl, by simp [removeAt, State.dtorItem, setNode_get], by simp [removeAt, State.dtorItem, setNode_get],
      by simp [removeAt, State.dtorItem, setNode_get]⟩

/-- LIFO reuse: the first insertion into the container after `remove(iterator)` constructs its item in the slot just released,
    and the free list is back to what it was -/
theorem remove_then_put_reuses {st s1 s2 : State} (c : Var) (j : Nat) (h1 : exec st (.remove c j) = some s1)
    (pos : Option Nat) (k v : Option SrcRef) (h2 : exec s1 (.put c pos k v) = some s2)
    (hg : (s2.nodes c).items.length = (s1.nodes c).items.length + 1) :
    ∃ it q, (st.nodes c).items[j]? = some it ∧ (s2.nodes c).items = insertAt ((st.nodes c).items.eraseIdx j) q it ∧
      (s2.nodes c).free = (st.nodes c).free ∧ (s2.nodes c).blocks = (st.nodes c).blocks := by
  obtain ⟨it, hit, hf, hi, hb⟩ := remove_pushes_slot c j h1
  obtain ⟨⟨q, hq⟩, hf2, hb2⟩ := (put_takes_free_head c pos k v h2 hg).1 it _ hf
  exact ⟨it, q, hit, by rw [hq, hi], hf2, by rw [hb2, hb]⟩

/-- a slot is handed out only when no element lives in it: the new item of an insertion is no item of ANY container before -/
theorem put_new_item_unused {st st' : State} (h : SInv st) (c : Var) (pos : Option Nat) (k v : Option SrcRef)
    (he : exec st (.put c pos k v) = some st') (it : Item) (q : Nat)
    (hq : (st'.nodes c).items = insertAt (st.nodes c).items q it) (hnew : it ∉ (st.nodes c).items) :
    ∀ c', it ∉ (st.nodes c').items := by
  intro c' hin
  have h' := (exec_ok h _ he).1
  have hmem : it ∈ (st'.nodes c).items := by
    rw [hq]; unfold insertAt; simp
  by_cases hcc : c' = c
  · subst hcc; exact hnew hin
  · have hfr := (Stable.exec_frame_node h _ he c' (by simp [Micro.nodeTargets, hcc])).1
    have hin' : it ∈ (st'.nodes c').items := by rw [hfr]; exact hin
    exact hcc (h'.slot_owner (List.mem_append_left _ hin') (List.mem_append_left _ hmem))

-- sort removes nothing ------------------------------------------------------------------------------------------------

theorem microsRemove_sortOk {c0 : Var} {n : Nat} : ∀ (ms : List Micro) (st : State) (c : Var) (it : Item),
    SortOk c0 n ms → ¬ MicrosRemove st ms c it
  | [], _, _, _, _ => fun h => h
  | m :: rest, st, c, it, hok => by
    obtain ⟨j, src, rfl, _⟩ := hok m (by simp)
    rintro (h | ⟨_, st1, _, h⟩)
    · exact h
    · exact microsRemove_sortOk rest st1 c it (fun m' hm' => hok m' (by simp [hm'])) h

/-- `sort()` removes no element of any container -/
theorem sort_removes_nothing (st : State) (v : Nat) (orc : List Bool) (c : Var) (it : Item) :
    ¬ Op.removes st (.lSort v orc) c it := by
  rintro ⟨ms, h1, _, h3⟩
  simp only [compile] at h1
  obtain ⟨_, rfl⟩ := Ops.guard_some h1
  exact microsRemove_sortOk _ st c it (Ops.sortMicros_getD_ok st v orc) h3

end Nstd.Life
