import Nstd.Life.LemmasPut
import Nstd.Life.LemmasNodeA
import Nstd.Life.LemmasNodeB
import Nstd.Life.LemmasArr
/-
  Assembly: every micro step, every operation and every history keeps `SInv` and extends the log
  by an accepted event sequence; after the destructors of all variables nothing is live.
-/
namespace Nstd.Life

theorem exec_ok {st st' : State} (h : SInv st) (m : Micro) (he : exec st m = some st') : SInv st' ∧ Trace st st' := by
  unfold exec at he
  by_cases hv : m.valid = true
  · rw [if_pos hv] at he
    cases m with
    | put c pos k v => exact put_ok h c pos k v hv he
    | assignVal c j src => exact NodeA.assignVal_ok h c j src he
    | remove c j => exact NodeA.remove_ok h c j he
    | removeKey c k => exact NodeA.removeKey_ok h c k he
    | removeVal c v => exact NodeA.removeVal_ok h c v he
    | clear c => exact NodeB.clear_ok h c he
    | destroy c => exact NodeB.destroy_ok h c he
    | create c => exact NodeA.create_ok h c hv he
    | swap c d => exact NodeA.swap_ok h c d (by simpa [Micro.valid] using hv) he
    | aReserve a n => exact Arr.aReserve_ok h a n (by simpa [Micro.valid] using hv) he
    | aPush a src => exact Arr.aPush_ok h a src (by simpa [Micro.valid] using hv) he
    | aTruncate a n => exact Arr.aTruncate_ok h a n (by simpa [Micro.valid] using hv) he
    | aAssign a j src => exact Arr.aAssign_ok h a j src (by simpa [Micro.valid] using hv) he
    | aRemove a j => exact Arr.aRemove_ok h a j (by simpa [Micro.valid] using hv) he
    | aDestroy a => exact Arr.aDestroy_ok h a (by simpa [Micro.valid] using hv) he
    | aCreate a cap => exact Arr.aCreate_ok h a cap (by simpa [Micro.valid] using hv) he
    | aSwap a b => exact Arr.aSwap_ok h a b (by simpa [Micro.valid] using hv) he
  · rw [if_neg hv] at he; cases he

theorem execAll_ok {st st' : State} (h : SInv st) (ms : List Micro) (he : execAll st ms = some st') :
    SInv st' ∧ Trace st st' := by
  induction ms generalizing st with
  | nil => simp only [execAll, Option.some.injEq] at he; subst he; exact ⟨h, Trace.refl _⟩
  | cons m rest ih =>
    simp only [execAll] at he
    cases hm : exec st m with
    | none => rw [hm] at he; cases he
    | some st1 =>
      rw [hm] at he
      obtain ⟨i1, t1⟩ := exec_ok h m hm
      obtain ⟨i2, t2⟩ := ih i1 he
      exact ⟨i2, t1.trans t2⟩

theorem step_ok {st : State} (h : SInv st) (op : Op) : SInv (step st op) ∧ Trace st (step st op) := by
  unfold step stepRes
  cases hc : compile st op with
  | none => exact ⟨h, Trace.refl _⟩
  | some ms =>
    simp only
    cases he : execAll st ms with
    | none => exact ⟨h, Trace.refl _⟩
    | some st' => exact execAll_ok h ms he

theorem run_ok {st : State} (h : SInv st) (ops : List Op) : SInv (run st ops) ∧ Trace st (run st ops) := by
  induction ops generalizing st with
  | nil => exact ⟨h, Trace.refl _⟩
  | cons op rest ih =>
    simp only [run]
    obtain ⟨i1, t1⟩ := step_ok h op
    obtain ⟨i2, t2⟩ := ih i1
    exact ⟨i2, t1.trans t2⟩

theorem owns_empty (p : Per) (o : Owner) (b : Nat) : ¬ owns (empty p) o b := by
  cases o <;> simp [owns, empty]

theorem sinv_empty (p : Per) : SInv (empty p) := by
  constructor
  · intro c; simp [empty]
  · intro c it hi; simp [empty] at hi
  · intro c; simp [empty]
  · intro c d hd; simp [empty] at hd
  · intro o o' b h1; exact absurd h1 (owns_empty p o b)
  · intro c b hb; simp [empty] at hb
  · intro c d hd; simp [empty] at hd
  · intro a s hs; simp [empty] at hs
  · intro b n hb; simp [empty] at hb
  · intro b _; rfl
  · intro c it f hi; simp [empty] at hi
  · intro a s i hs; simp [empty] at hs
  · intro c f ha; simp [empty] at ha
  · intro l hl; simp [empty] at hl
  · intro a s hs; simp [empty] at hs
  · intro a _; rfl
  · intro c _; rfl
  · intro a _; rfl
  · intro c _; rfl
  · intro a _; rfl

theorem init_defined (p : Per) : execAll (empty p) createAll = some (init p) := by
  have h : (execAll (empty p) createAll).isSome = true := by rfl
  unfold init
  cases hx : execAll (empty p) createAll with
  | none => rw [hx] at h; cases h
  | some s => rfl

theorem sinv_init (p : Per) : SInv (init p) ∧ Trace (empty p) (init p) :=
  execAll_ok (sinv_empty p) createAll (init_defined p)

/-- every reachable state (any history from the sixteen default-constructed variables) -/
theorem reach_ok (p : Per) (ops : List Op) : SInv (run (init p) ops) ∧ Trace (empty p) (run (init p) ops) := by
  obtain ⟨i0, t0⟩ := sinv_init p
  obtain ⟨i1, t1⟩ := run_ok i0 ops
  exact ⟨i1, t0.trans t1⟩

-- effect of the destructors on the variable tables ------------------------------------------------------

theorem exec_destroy_nodes {st st' : State} (c : Var) (he : exec st (.destroy c) = some st') :
    st'.nodes = upd st.nodes c {} ∧ st'.arrs = st.arrs := by
  unfold exec at he
  by_cases hv : (Micro.destroy c).valid = true
  · rw [if_pos hv] at he
    simp only [exec'] at he
    by_cases ha : (st.nodes c).alive = true
    · simp only [ha, Bool.not_true, Bool.false_eq_true, if_false, Option.some.injEq] at he
      subst he
      cases hd : (st.nodes c).data <;> simp [State.dtorItems]
    · simp [ha] at he
  · rw [if_neg hv] at he; cases he

theorem exec_aDestroy_arrs {st st' : State} (a : Nat) (he : exec st (.aDestroy a) = some st') :
    st'.arrs = upd st.arrs a {} ∧ st'.nodes = st.nodes := by
  unfold exec at he
  by_cases hv : (Micro.aDestroy a).valid = true
  · rw [if_pos hv] at he
    simp only [exec'] at he
    by_cases ha : (st.arrs a).alive = true
    · simp only [ha, Bool.not_true, Bool.false_eq_true, if_false, Option.some.injEq] at he
      subst he
      cases hd : (st.arrs a).store <;> simp [dtorRange]
    · simp [ha] at he
  · rw [if_neg hv] at he; cases he

theorem destroyNodes_effect {st st' : State} (vars : List Var) (he : execAll st (vars.map .destroy) = some st') :
    (∀ c, c ∈ vars → st'.nodes c = {}) ∧ (∀ c, c ∉ vars → st'.nodes c = st.nodes c) ∧ st'.arrs = st.arrs := by
  induction vars generalizing st with
  | nil =>
    simp only [List.map_nil, execAll, Option.some.injEq] at he
    subst he; simp
  | cons v rest ih =>
    simp only [List.map_cons, execAll] at he
    cases hm : exec st (.destroy v) with
    | none => rw [hm] at he; cases he
    | some st1 =>
      rw [hm] at he
      obtain ⟨hn, ha⟩ := exec_destroy_nodes v hm
      obtain ⟨i1, i2, i3⟩ := ih he
      refine ⟨?_, ?_, by rw [i3, ha]⟩
      · intro c hc
        by_cases hcr : c ∈ rest
        · exact i1 c hcr
        · rw [i2 c hcr, hn]
          have : c = v := by simpa [hcr] using hc
          subst this; exact upd_same _ _ _
      · intro c hc
        simp only [List.mem_cons, not_or] at hc
        rw [i2 c hc.2, hn, upd_other _ _ _ _ hc.1]

theorem valid_mem_nodeVars (c : Var) (h : c.valid = true) : c ∈ nodeVars := by
  obtain ⟨k, v⟩ := c
  simp only [Var.valid, Bool.and_eq_true, decide_eq_true_eq, bne_iff_ne, ne_eq] at h
  have hv : v = 0 ∨ v = 1 := by omega
  rcases hv with rfl | rfl <;> cases k <;> simp_all [nodeVars, nodeKinds]

/-- after the destructors of the sixteen variables every variable is empty -/
theorem destroyAll_effect {st st' : State} (h : SInv st) (he : execAll st destroyAll = some st') :
    (∀ c, st'.nodes c = {}) ∧ (∀ a, st'.arrs a = {}) := by
  simp only [destroyAll, List.cons_append, List.nil_append, execAll] at he
  cases h0 : exec st (.aDestroy 0) with
  | none => rw [h0] at he; cases he
  | some s0 =>
    rw [h0] at he
    simp only at he
    cases h1 : exec s0 (.aDestroy 1) with
    | none => rw [h1] at he; cases he
    | some s1 =>
      rw [h1] at he
      simp only at he
      obtain ⟨a0, n0⟩ := exec_aDestroy_arrs 0 h0
      obtain ⟨a1, n1⟩ := exec_aDestroy_arrs 1 h1
      obtain ⟨d1, d2, d3⟩ := destroyNodes_effect nodeVars he
      constructor
      · intro c
        by_cases hc : c ∈ nodeVars
        · exact d1 c hc
        · rw [d2 c hc, n1, n0]
          apply h.invalid_node
          cases hv : c.valid with
          | false => rfl
          | true => exact absurd (valid_mem_nodeVars c hv) hc
      · intro a
        rw [d3, a1, a0]
        by_cases ha1 : a = 1
        · subst ha1; exact upd_same _ _ _
        · rw [upd_other _ _ _ _ ha1]
          by_cases ha0 : a = 0
          · subst ha0; exact upd_same _ _ _
          · rw [upd_other _ _ _ _ ha0]
            exact h.invalid_arr a (by omega)

/-- a state satisfying the invariant in which every variable is empty has nothing live and no block -/
theorem clean_of_empty {st : State} (h : SInv st) (hn : ∀ c, st.nodes c = {}) (ha : ∀ a, st.arrs a = {}) :
    (chkOf st).Clean := by
  constructor
  · intro l
    cases hm : (st.mem l).isSome with
    | false => simpa [chkOf] using hm
    | true =>
      exfalso
      rcases h.live_owned l hm with ⟨c, it, f, h1, _, _⟩ | ⟨a, s, i, h1, _, _⟩ | ⟨c, f, h1, _, _⟩
      · rw [hn c] at h1; cases h1
      · rw [ha a] at h1; cases h1
      · rw [hn c] at h1; cases h1
  · intro b
    cases hb : st.blk b with
    | none => simpa [chkOf] using hb
    | some n =>
      exfalso
      obtain ⟨o, ho⟩ := h.blk_own b n hb
      cases o with
      | node c => simp [owns, hn c] at ho
      | arr a => simp [owns, ha a] at ho

theorem chkOf_empty (p : Per) : chkOf (empty p) = Chk.init := by
  apply chk_ext <;> intro x <;> simp [chkOf, empty, Chk.init]

/-- the log between the empty state and st is accepted from the initial checker state -/
theorem trace_from_empty {p : Per} {st : State} (t : Trace (empty p) st) : Chk.init.run st.log = some (chkOf st) := by
  obtain ⟨evs, hl, hr⟩ := t
  rw [hl, ← chkOf_empty p]
  simpa [empty] using hr

end Nstd.Life
