import Nstd.Life.Model
/-
  The specification side of C04: an automaton that reads a lifecycle event log and accepts it
  iff every object slot goes through  construct (assign | read)* destroy  cycles only, every
  read (copy / assignment source) hits a live object, objects are constructed only inside
  allocated blocks (or in a sentinel), every block id is allocated at most once, a block is freed
  only while allocated and only when no object inside is live (so: freed exactly once, nothing
  leaked into it).  `Clean` = nothing live, nothing allocated (demanded after the destructors).
  The automaton does not look at the model state: it is the independent judge of the log.
-/
namespace Nstd.Life

structure Chk where
  live : Loc → Bool
  blk : Nat → Option Nat
  used : Nat → Bool

def Chk.init : Chk := ⟨fun _ => false, fun _ => none, fun _ => false⟩

/-- a place where an object may be constructed -/
def Chk.slotOk (c : Chk) : Loc → Bool
  | .heap b i f => (match c.blk b with | some n => decide (i < n) | none => false) && decide (f < 2)
  | .sent _ f => decide (f < 2)
  | .ext => false

/-- a place an object may be read from: the caller's temporary or a live object -/
def Chk.srcOk (c : Chk) : Loc → Bool
  | .ext => true
  | l => c.live l

def Chk.blockEmpty (c : Chk) (b n : Nat) : Bool :=
  (List.range n).all fun i => !c.live (.heap b i 0) && !c.live (.heap b i 1)

def Chk.step (c : Chk) : Ev → Option Chk
  | .alloc b n =>
    if c.used b then none
    else some { c with blk := upd c.blk b (some n), used := upd c.used b true }
  | .free b =>
    match c.blk b with
    | some n => if c.blockEmpty b n then some { c with blk := upd c.blk b none } else none
    | none => none
  | .ctor dst src =>
    if c.slotOk dst && !c.live dst && (match src with | none => true | some s => c.srcOk s)
    then some { c with live := upd c.live dst true } else none
  | .assign dst src =>
    if c.live dst && c.srcOk src then some c else none
  | .dtor dst =>
    if c.live dst then some { c with live := upd c.live dst false } else none

def Chk.run (c : Chk) : List Ev → Option Chk
  | [] => some c
  | e :: rest =>
    match c.step e with
    | some c' => c'.run rest
    | none => none

def Chk.Clean (c : Chk) : Prop := (∀ l, c.live l = false) ∧ (∀ b, c.blk b = none)

/-- the log of a complete program (construction of the variables ... their destruction) -/
def WellFormed (evs : List Ev) : Prop := ∃ c, Chk.init.run evs = some c ∧ c.Clean

/-- abstract value of a node container: payloads (key, value) in iteration order -/
def absNode (st : State) (c : Var) : List (Option Nat × Option Nat) :=
  (st.nodes c).items.map fun it => (if c.k.hasKey then keyOf st it else none, if c.k = .S then none else valOf st it)

/-- abstract value of an array variable -/
def absArr (st : State) (a : Nat) : List (Option Nat) :=
  match (st.arrs a).store with
  | some s => (List.range (st.arrs a).size).map fun i => st.mem (.heap s i 1)
  | none => []

end Nstd.Life
