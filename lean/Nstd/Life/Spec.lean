import Nstd.Life.Model
/-
  The specification side of C04: an automaton that takes a lifecycle event log and accepts it
  iff every object slot goes through  construct assign* destroy  cycles only, every SOURCE of a copy
  construction or assignment is a live object (these are the only reads the log contains: key
  comparisons, hashing and `==` walks of the lookup code are not events - which objects they touch is
  checked on the real code by the harness ledger only), objects are constructed only inside
  allocated blocks (or in a sentinel), every block id is allocated at most once, a block is freed
  only while allocated and only when no object inside is live (so: freed exactly once, nothing
  leaked into it).  `Clean` = nothing live, nothing allocated (demanded after the destructors).
  The automaton does not look at the model state: it is the independent judge of the log.
-/
namespace Nstd.Life

structure Chk where
  live : Loc → Bool
  blk : Nat → Option Nat
  used : Nat → Bool

def Chk.init : Chk := ⟨fun _ => false, fun _ => none, fun _ => false⟩

/-- a place where an object may be constructed -/
def Chk.slotOk (c : Chk) : Loc → Bool
  | .heap b i f => (match c.blk b with | some n => decide (i < n) | none => false) && decide (f < 2)
  | .sent _ f => decide (f < 2)
  | .ext => false

/-- a place an object may be read from: the caller's temporary or a live object -/
def Chk.srcOk (c : Chk) : Loc → Bool
  | .ext => true
  | l => c.live l

def Chk.blockEmpty (c : Chk) (b n : Nat) : Bool :=
  (List.range n).all fun i => !c.live (.heap b i 0) && !c.live (.heap b i 1)

def Chk.step (c : Chk) : Ev → Option Chk
  | .alloc b n =>
    if c.used b then none
    else some { c with blk := upd c.blk b (some n), used := upd c.used b true }
  | .free b =>
    match c.blk b with
    | some n => if c.blockEmpty b n then some { c with blk := upd c.blk b none } else none
    | none => none
  | .ctor dst src =>
    if c.slotOk dst && !c.live dst && (match src with | none => true | some s => c.srcOk s)
    then some { c with live := upd c.live dst true } else none
  | .assign dst src =>
    if c.live dst && c.srcOk src then some c else none
  | .dtor dst =>
    if c.live dst then some { c with live := upd c.live dst false } else none

def Chk.run (c : Chk) : List Ev → Option Chk
  | [] => some c
  | e :: rest =>
    match c.step e with
    | some c' => c'.run rest
    | none => none

def Chk.Clean (c : Chk) : Prop := (∀ l, c.live l = false) ∧ (∀ b, c.blk b = none)

/-- the log of a complete program (construction of the variables ... their destruction) -/
def WellFormed (evs : List Ev) : Prop := ∃ c, Chk.init.run evs = some c ∧ c.Clean

/-- abstract value of a node container: payloads (key, value) in iteration order -/
def absNode (st : State) (c : Var) : List (Option Nat × Option Nat) :=
  (st.nodes c).items.map fun it => (if c.k.hasKey then keyOf st it else none, if c.k = .S then none else valOf st it)

/-- abstract value of an array variable -/
def absArr (st : State) (a : Nat) : List (Option Nat) :=
  match (st.arrs a).store with
  | some s => (List.range (st.arrs a).size).map fun i => st.mem (.heap s i 1)
  | none => []

-- C05 --------------------------------------------------------------------------------------------------

/-- the event constructs or destroys an object in the slot of the item (an assignment does not:
    it overwrites the value of the same object) -/
def Ev.recycles (it : Item) : Ev → Prop
  | .ctor (.heap b i _) _ => b = it.b ∧ i = it.i
  | .dtor (.heap b i _) => b = it.b ∧ i = it.i
  | _ => False

/-- the element in slot `it` of container c stayed what and where it was: it is still an item (of c', which is c
    except after a swap), no object was constructed or destroyed in its slot, its key is unchanged -/
def Kept (st st' : State) (evs : List Ev) (it : Item) (c c' : Var) : Prop :=
  it ∈ (st'.nodes c').items ∧ c'.k = c.k ∧ (∀ e, e ∈ evs → ¬ e.recycles it) ∧ st'.mem (it.loc 0) = st.mem (it.loc 0)

/-- every member object of the element was destroyed -/
def Destroyed (evs : List Ev) (it : Item) (c : Var) : Prop :=
  ∀ f, f ∈ c.k.fields → Ev.dtor (it.loc f) ∈ evs

/-- the elements a micro step is meant to remove from container c -/
def Micro.removes (st : State) : Micro → Var → Item → Prop
  | .remove c0 j, c, it => c = c0 ∧ (st.nodes c0).items[j]? = some it
  | .removeKey c0 k, c, it =>
    c = c0 ∧ ∃ kp j, k.payload st = some kp ∧ findField st 0 kp (st.nodes c0).items = some j ∧ (st.nodes c0).items[j]? = some it
  | .removeVal c0 v, c, it =>
    c = c0 ∧ ∃ vp j, v.payload st = some vp ∧ findField st 1 vp (st.nodes c0).items = some j ∧ (st.nodes c0).items[j]? = some it
  | .clear c0, c, _ => c = c0
  | .destroy c0, c, _ => c = c0
  | _, _, _ => False

/-- the container an element of c belongs to after the step (swap exchanges the two variables) -/
def Micro.moves : Micro → Var → Var
  | .swap c d, x => if x = c then d else if x = d then c else x
  | _, x => x

end Nstd.Life
