import Nstd.Life.LemmasArrTr3
set_option linter.unusedSimpArgs false
namespace Nstd.Life.ArrTr
open Nstd.Life.AP
open Nstd.Generated

/-- the effect of the micro step `aTruncate v 0` (`clear()`) -/
def truncSt (st : State) (v : Nat) : State :=
  match (st.arrs v).store with
  | some s => if 0 < (st.arrs v).size then (dtorRange st s (range' 0 (st.arrs v).size)).setArr v { st.arrs v with size := 0 } else st
  | none => st

theorem exec_trunc0 {st : State} {v : Nat} (h : AOk st v) : exec st (.aTruncate v 0) = some (truncSt st v) := by
  unfold truncSt
  cases hs : (st.arrs v).store with
  | none => simp [exec, Micro.valid, h.le1, exec', h.alive, hs]
  | some s => by_cases hz : 0 < (st.arrs v).size <;> simp [exec, Micro.valid, h.le1, exec', h.alive, hs, hz]

theorem dtorRange_arrs (st : State) (s : Nat) (l : List Nat) : (dtorRange st s l).arrs = st.arrs := dtorLocs_arrs _ _

theorem truncSt_arr {st : State} {v : Nat} (h : AOk st v) : (truncSt st v).arrs v = { st.arrs v with size := 0 } := by
  unfold truncSt
  cases hs : (st.arrs v).store with
  | none => have := h.none_zero hs; cases hx : st.arrs v; simp [hx] at this ⊢; exact this
  | some s =>
    by_cases hz : 0 < (st.arrs v).size
    · simp [hz, State.setArr, upd_same]
    · have : (st.arrs v).size = 0 := by omega
      simp [hz]; cases hx : st.arrs v; simp [hx] at this ⊢; exact this

theorem truncSt_other (st : State) (v w : Nat) (hne : w ≠ v) : (truncSt st v).arrs w = st.arrs w := by
  unfold truncSt
  cases (st.arrs v).store with
  | none => rfl
  | some s => by_cases hz : 0 < (st.arrs v).size <;> simp [hz, State.setArr, upd_other _ _ _ _ hne, dtorRange_arrs]

theorem tr_clear_mk {st : State} {v : Nat} (h : AOk st v) (fuel : Nat) (hf : (st.arrs v).size < fuel) :
    LifeArray.clear fuel (mk st (hdrs st)) v = some (mk (truncSt st v) (hdrs (truncSt st v)), ()) := by
  obtain ⟨st', h1, h2⟩ := tr_clear h fuel hf
  have : st' = truncSt st v := by
    have he := exec_trunc0 h
    simp [stepRes, compile, guard', h.le1, execAll, he] at h1
    exact h1.symm
  subst this
  exact h2

theorem AOk.trunc {st : State} {v : Nat} (h : AOk st v) : AOk (truncSt st v) v := by
  have hx := truncSt_arr h
  refine ⟨h.le1, by rw [hx]; exact h.alive, ?_, ?_⟩
  · intro s hs; rw [hx]; simp
  · intro _; rw [hx]

theorem AOk.trunc_other {st : State} {v w : Nat} (hw : AOk st w) (hne : w ≠ v) : AOk (truncSt st v) w := by
  have hx := truncSt_other st v w hne
  exact ⟨hw.le1, by rw [hx]; exact hw.alive, by rw [hx]; exact hw.size_le, by rw [hx]; exact hw.none_zero⟩

/-- the common tail of `operator=` and the copy constructor on a state `st1` in which v is empty: `reserve(other.capacity())`, then one copy
    construction per element of the other array -/
theorem tr_assign_tail {st1 : State} {v w : Nat} (h1 : AOk st1 v) (hz : (st1.arrs v).size = 0) (hw1 : AOk st1 w) (hne : w ≠ v) (fuel : Nat)
    (hf : (st1.arrs w).size < fuel) :
    ∃ st', execAll st1 (.aReserve v (st1.arrs w).cap :: (List.range (st1.arrs w).size).map (fun j => .aPush v (.elem w j))) = some st' ∧
      ((LifeArray.capacity fuel (mk st1 (hdrs st1)) w).bind fun r_2 =>
        (LifeArray.reserve fuel r_2.1 v r_2.2).bind fun r_4 =>
        (LifeArray.assign_loop1 v (r_4.1.hd w).fin fuel r_4.1 (r_4.1.hd w).begin (r_4.1.hd v).begin).bind fun r_12 =>
        some (r_12.1.setHd v { r_12.1.hd v with fin := r_12.2.2 }, ())) = some (mk st' (hdrs st'), ()) := by

  have hr := tr_reserve_mk h1 (st1.arrs w).cap fuel (by omega)
  have hcapw : LifeArray.capacity fuel (mk st1 (hdrs st1)) w = some (mk st1 (hdrs st1), (st1.arrs w).cap) := by
    cases hsw : (st1.arrs w).store <;> simp [LifeArray.capacity, hdrs_apply, hdrOf_none, hdrOf_some, hsw]
  obtain ⟨f, rfl⟩ : ∃ f, fuel = f + 1 := ⟨fuel - 1, by omega⟩
  by_cases hk : (st1.arrs w).size = 0
  · refine ⟨reserveSt st1 v (st1.arrs w).cap, by simp [hk, execAll, exec_reserve h1], ?_⟩
    have hsz : ((reserveSt st1 v (st1.arrs w).cap).arrs v).size = 0 := by
      unfold reserveSt; split
      · simp [State.setArr, upd_same, hz]
      · exact hz
    have hfin : (hdrs (reserveSt st1 v (st1.arrs w).cap) v).fin = (hdrs (reserveSt st1 v (st1.arrs w).cap) v).begin := by
      rw [hdrs_apply]; cases hs2 : ((reserveSt st1 v (st1.arrs w).cap).arrs v).store <;> simp [hdrOf_none, hdrOf_some, hs2, hsz]
    have hwh : (hdrs (reserveSt st1 v (st1.arrs w).cap) w).begin = (hdrs (reserveSt st1 v (st1.arrs w).cap) w).fin := by
      rw [hdrs_reserveSt_other _ _ _ _ hne, hdrs_apply]
      cases hsw : (st1.arrs w).store <;> simp [hdrOf_none, hdrOf_some, hsw, hk]
    simp [LifeArray.assign_loop1, hcapw, hr, hwh]
    refine congrArg _ (upd_eq_self _ _ _ ?_)
    cases hq : hdrs (reserveSt st1 v (st1.arrs w).cap) v with
    | mk b e c => rw [hq] at hfin; simp at hfin; simp [hfin]
  · cases hsw : (st1.arrs w).store with
    | none => have := hw1.none_zero hsw; omega
    | some sb =>
      have hcw := hw1.size_le sb hsw
      obtain ⟨s', c', hx, hn, _, _⟩ := reserveSt_arr h1 (st1.arrs w).cap (Or.inl (by omega))
      rw [hz] at hx
      have hcp := exec_copy_other v w s' c' sb h1.le1 hne (st1.arrs w).size 0 0
        (reserveSt st1 v (st1.arrs w).cap) hx (by omega)
        (by rw [reserveSt_other _ _ _ _ hne]; exact hsw) (by rw [reserveSt_other _ _ _ _ hne]; omega)
      refine ⟨_, by simp only [execAll, exec_reserve h1, List.range_eq_range']; rw [hcp], ?_⟩
      have hh : hdrs (reserveSt st1 v (st1.arrs w).cap) v = ⟨.heap s' 0, .heap s' 0, c'⟩ := by simp [hdrs_apply, hx]
      have hhw : hdrs (reserveSt st1 v (st1.arrs w).cap) w = ⟨.heap sb 0, .heap sb (st1.arrs w).size, (st1.arrs w).cap⟩ := by
        rw [hdrs_reserveSt_other _ _ _ _ hne]; simp [hdrs_apply, hdrOf_some hsw]
      have hl := assign_loop v s' sb (hdrs (reserveSt st1 v (st1.arrs w).cap)) (st1.arrs w).size (f + 1) 0 0
        (reserveSt st1 v (st1.arrs w).cap) (by omega)
      simp only [Nat.zero_add] at hl
      simp [hcapw, hr, hh, hhw, hl, upd_same]

theorem tr_copy_tail {st1 : State} {v w : Nat} (h1 : AOk st1 v) (hz : (st1.arrs v).size = 0) (hw1 : AOk st1 w) (hne : w ≠ v) (fuel : Nat)
    (hf : (st1.arrs w).size < fuel) :
    ∃ st', execAll st1 (.aReserve v (st1.arrs w).cap :: (List.range (st1.arrs w).size).map (fun j => .aPush v (.elem w j))) = some st' ∧
      ((LifeArray.capacity fuel (mk st1 (hdrs st1)) w).bind fun r_2 =>
        (LifeArray.reserve fuel r_2.1 v r_2.2).bind fun r_4 =>
        (LifeArray.copyCtor_loop1 v (r_4.1.hd w).fin fuel r_4.1 (r_4.1.hd w).begin (r_4.1.hd v).begin).bind fun r_12 =>
        some (r_12.1.setHd v { r_12.1.hd v with fin := r_12.2.2 }, ())) = some (mk st' (hdrs st'), ()) := by

  have hr := tr_reserve_mk h1 (st1.arrs w).cap fuel (by omega)
  have hcapw : LifeArray.capacity fuel (mk st1 (hdrs st1)) w = some (mk st1 (hdrs st1), (st1.arrs w).cap) := by
    cases hsw : (st1.arrs w).store <;> simp [LifeArray.capacity, hdrs_apply, hdrOf_none, hdrOf_some, hsw]
  obtain ⟨f, rfl⟩ : ∃ f, fuel = f + 1 := ⟨fuel - 1, by omega⟩
  by_cases hk : (st1.arrs w).size = 0
  · refine ⟨reserveSt st1 v (st1.arrs w).cap, by simp [hk, execAll, exec_reserve h1], ?_⟩
    have hsz : ((reserveSt st1 v (st1.arrs w).cap).arrs v).size = 0 := by
      unfold reserveSt; split
      · simp [State.setArr, upd_same, hz]
      · exact hz
    have hfin : (hdrs (reserveSt st1 v (st1.arrs w).cap) v).fin = (hdrs (reserveSt st1 v (st1.arrs w).cap) v).begin := by
      rw [hdrs_apply]; cases hs2 : ((reserveSt st1 v (st1.arrs w).cap).arrs v).store <;> simp [hdrOf_none, hdrOf_some, hs2, hsz]
    have hwh : (hdrs (reserveSt st1 v (st1.arrs w).cap) w).begin = (hdrs (reserveSt st1 v (st1.arrs w).cap) w).fin := by
      rw [hdrs_reserveSt_other _ _ _ _ hne, hdrs_apply]
      cases hsw : (st1.arrs w).store <;> simp [hdrOf_none, hdrOf_some, hsw, hk]
    simp [LifeArray.copyCtor_loop1, hcapw, hr, hwh]
    refine congrArg _ (upd_eq_self _ _ _ ?_)
    cases hq : hdrs (reserveSt st1 v (st1.arrs w).cap) v with
    | mk b e c => rw [hq] at hfin; simp at hfin; simp [hfin]
  · cases hsw : (st1.arrs w).store with
    | none => have := hw1.none_zero hsw; omega
    | some sb =>
      have hcw := hw1.size_le sb hsw
      obtain ⟨s', c', hx, hn, _, _⟩ := reserveSt_arr h1 (st1.arrs w).cap (Or.inl (by omega))
      rw [hz] at hx
      have hcp := exec_copy_other v w s' c' sb h1.le1 hne (st1.arrs w).size 0 0
        (reserveSt st1 v (st1.arrs w).cap) hx (by omega)
        (by rw [reserveSt_other _ _ _ _ hne]; exact hsw) (by rw [reserveSt_other _ _ _ _ hne]; omega)
      refine ⟨_, by simp only [execAll, exec_reserve h1, List.range_eq_range']; rw [hcp], ?_⟩
      have hh : hdrs (reserveSt st1 v (st1.arrs w).cap) v = ⟨.heap s' 0, .heap s' 0, c'⟩ := by simp [hdrs_apply, hx]
      have hhw : hdrs (reserveSt st1 v (st1.arrs w).cap) w = ⟨.heap sb 0, .heap sb (st1.arrs w).size, (st1.arrs w).cap⟩ := by
        rw [hdrs_reserveSt_other _ _ _ _ hne]; simp [hdrs_apply, hdrOf_some hsw]
      have hl := copyCtor_loop v s' sb (hdrs (reserveSt st1 v (st1.arrs w).cap)) (st1.arrs w).size (f + 1) 0 0
        (reserveSt st1 v (st1.arrs w).cap) (by omega)
      simp only [Nat.zero_add] at hl
      simp [hcapw, hr, hh, hhw, hl, upd_same]

/-- `a = b` (b the other array) -/
theorem tr_assign {st : State} {v w : Nat} (h : AOk st v) (hw : AOk st w) (hne : w ≠ v) (fuel : Nat)
    (hf : (st.arrs v).size + (st.arrs w).size < fuel) :
    ∃ st', stepRes st (.assign ⟨.A, v⟩ w) = .ok st' ∧ LifeArray.assign fuel (rep st) v w = some (rep st', ()) := by
  have e1 : (truncSt st v).arrs w = st.arrs w := truncSt_other st v w hne
  obtain ⟨st', ht, hc⟩ := tr_assign_tail h.trunc (by rw [truncSt_arr h]) (hw.trunc_other hne) hne fuel (by rw [e1]; omega)
  rw [e1] at ht
  have hvw : ¬ v = w := fun e => hne e.symm
  refine ⟨st', ?_, ?_⟩
  · simp only [stepRes, compile, guard', decide_eq_true h.le1, decide_eq_true hw.le1, Kind.isPool, hvw, if_false, Bool.not_false,
      Bool.and_self, if_true, reduceCtorEq, List.cons_append, List.nil_append, execAll, exec_trunc0 h]
    simp only [execAll] at ht
    rw [ht]
  · simp only [LifeArray.assign, rep_mk, hvw, decide_false, Bool.false_eq_true, if_false, tr_clear_mk h fuel (by omega), Option.bind_some]
    exact hc

/-- `Array a(b)`: the copy constructor on a destroyed variable v (the harness destroys the variable first: micro step `aDestroy`,
    `translated_destructor`) = the rest of the model operation `copy` -/
theorem tr_copyCtor {st : State} {v w : Nat} (hv : v ≤ 1) (hd : st.arrs v = {}) (hw : AOk st w) (hne : w ≠ v) (fuel : Nat)
    (hf : (st.arrs w).size < fuel) :
    ∃ st', execAll st ([.aCreate v 0, .aReserve v (st.arrs w).cap] ++ (List.range (st.arrs w).size).map (fun j => .aPush v (.elem w j))) = some st' ∧
      LifeArray.copyCtor fuel (rep st) v w = some (rep st', ()) := by
  have hx1 : (st.setArr v { alive := true, cap := 0 }).arrs v = { alive := true, cap := 0 } := by simp [State.setArr, upd_same]
  have e1 : (st.setArr v { alive := true, cap := 0 }).arrs w = st.arrs w := by simp [State.setArr, upd_other _ _ _ _ hne]
  have h1 : AOk (st.setArr v { alive := true, cap := 0 }) v :=
    ⟨hv, by rw [hx1], (by intro s hs; rw [hx1] at hs; simp at hs), (by intro _; rw [hx1])⟩
  have hw1 : AOk (st.setArr v { alive := true, cap := 0 }) w :=
    ⟨hw.le1, by rw [e1]; exact hw.alive, by rw [e1]; exact hw.size_le, by rw [e1]; exact hw.none_zero⟩
  obtain ⟨st', ht, hc⟩ := tr_copy_tail h1 (by rw [hx1]) hw1 hne fuel (by rw [e1]; omega)
  rw [e1] at ht
  have hcr : exec st (.aCreate v 0) = some (st.setArr v { alive := true, cap := 0 }) := by
    simp [exec, Micro.valid, hv, exec', hd]
  refine ⟨st', ?_, ?_⟩
  · simp only [List.cons_append, List.nil_append, execAll, hcr]
    simp only [execAll] at ht
    rw [ht]
  · have hm : mk st (upd (hdrs st) v ⟨.null, .null, 0⟩) =
        mk (st.setArr v { alive := true, cap := 0 }) (hdrs (st.setArr v { alive := true, cap := 0 })) := by
      simp [hdrs_setArr, hdrOf]
    simp only [LifeArray.copyCtor, rep_mk, mk_setHd, hm]
    exact hc

theorem map_range_add {α : Type} (f : Nat → α) (i n : Nat) : (List.range n).map (fun j => f (i + j)) = (List.range' i n).map f := by
  rw [List.range'_eq_map_range, List.map_map]; rfl

/-- `a.append(&a[i], n)` with the range [i, i+n) inside the array, n > 0 (with or without a spare-capacity fast path) -/
theorem tr_appendPtr {st : State} {v : Nat} (h : AOk st v) (i n fuel s : Nat) (hs : (st.arrs v).store = some s)
    (hin : i + n ≤ (st.arrs v).size) (hn : 0 < n) (hf : (st.arrs v).size + n < fuel) :
    ∃ st', stepRes st (.aAppendPtr v i n) = .ok st' ∧ LifeArray.appendPtr fuel (rep st) v (.heap s i) n = some (rep st', ()) := by
  obtain ⟨s', c', hx, hle, hsz, hid⟩ := reserveSt_arr h ((st.arrs v).size + n) (Or.inl (by omega))
  have hs' : ((reserveSt st v ((st.arrs v).size + n)).arrs v).store = some s' := by rw [hx]
  have hcp := exec_copy_self v s' c' h.le1 n (st.arrs v).size i (reserveSt st v ((st.arrs v).size + n)) hx (by omega) (Or.inr (by omega))
  refine ⟨_, by simp only [stepRes, compile, guard', decide_eq_true h.le1, decide_eq_true hin, Bool.and_self, if_true, execAll,
    exec_reserve h, map_range_add (fun j => Micro.aPush v (.elem v j))]; rw [hcp], ?_⟩
  have hh : hdrs (reserveSt st v ((st.arrs v).size + n)) v = ⟨.heap s' 0, .heap s' (st.arrs v).size, c'⟩ := by simp [hdrs_apply, hx]
  have hr := tr_reserveRef_own_mk h ((st.arrs v).size + n) fuel s i (by omega) hs (by omega) s' hs'
  have hl := appendPtr_loop v s' s' (hdrs (reserveSt st v ((st.arrs v).size + n))) n fuel (st.arrs v).size i
    (reserveSt st v ((st.arrs v).size + n)) (by omega)
  have hle' := h.size_le s hs
  have hh0 : hdrs st v = ⟨.heap s 0, .heap s (st.arrs v).size, (st.arrs v).cap⟩ := by simp [hdrs_apply, hdrOf_some hs]
  by_cases hfit : (st.arrs v).size + n ≤ (st.arrs v).cap
  · obtain ⟨hid1, hs1⟩ := hid s hs hfit
    have hc : (st.arrs v).cap = c' := by rw [hid1] at hx; rw [hx]
    have hu : n ≤ usub (st.arrs v).cap (st.arrs v).size := by rw [usub_le hle']; omega
    rw [hid1] at hr hh hl
    subst hs1
    simp [LifeArray.appendPtr, rep_mk, hh0, hr, hid1, hu, hc, hl, upd_same]
  · have hu : usub (st.arrs v).cap (st.arrs v).size < n := by rw [usub_le hle']; omega
    simp [LifeArray.appendPtr, rep_mk, hh0, hr, hh, hu, Nat.not_le.mpr hu, hl, upd_same]

/-- a chain of k `aPush v (elem v i)` with ONE source element i < size -/
theorem exec_fill_elem (v s c i : Nat) (hv : v ≤ 1) : ∀ (k sz : Nat) (st : State), st.arrs v = ⟨true, some s, c, sz⟩ → sz + k ≤ c → i < sz →
    execAll st (List.replicate k (.aPush v (.elem v i))) =
      some ((fillSlots st s (fun t => (some (.heap s i 1), t.mem (.heap s i 1))) sz k).setArr v ⟨true, some s, c, sz + k⟩) := by
  intro k
  induction k with
  | zero => intro sz st hx _ _; simp [execAll, fillSlots, setArr_self _ _ _ hx]
  | succ k ih =>
    intro sz st hx hc hi
    have hp := exec_push hv hx (by omega) (.elem v i) _ _ (resolve_elem (by rw [hx]) (by rw [hx]; exact hi))
    simp only [List.replicate_succ, execAll, hp]
    have hx2 : ((st.ctor (.heap s sz 1) (some (.heap s i 1)) (st.mem (.heap s i 1))).setArr v ⟨true, some s, c, sz + 1⟩).arrs v
        = ⟨true, some s, c, sz + 1⟩ := by simp [State.setArr, upd_same]
    rw [ih (sz + 1) _ hx2 (by omega) (by omega), fillSlots_setArr _ _ (fun _ _ _ => rfl), setArr_setArr]
    simp only [fillSlots]
    rw [show sz + 1 + k = sz + (k + 1) by omega]

/-- `a.resize(n, a[i])`, growing -/
theorem tr_resize_own {st : State} {v : Nat} (h : AOk st v) (n i fuel s : Nat) (hs : (st.arrs v).store = some s)
    (hi : i < (st.arrs v).size) (hn : (st.arrs v).size ≤ n) (hf : (st.arrs v).size + n < fuel) :
    ∃ st', stepRes st (.aResizeRef v n i) = .ok st' ∧ LifeArray.resize fuel (rep st) v n (.heap s i) = some (rep st', ()) := by
  have hn' : ¬ n < (st.arrs v).size := by omega
  obtain ⟨s', c', hx, hle, hsz, hid⟩ := reserveSt_arr h n (Or.inl (by omega))
  have hs' : ((reserveSt st v n).arrs v).store = some s' := by rw [hx]
  have hp := exec_fill_elem v s' c' i h.le1 (n - (st.arrs v).size) (st.arrs v).size (reserveSt st v n) hx (by omega) hi
  refine ⟨_, by simp only [stepRes, compile, guard', decide_eq_true h.le1, decide_eq_true hi, Bool.and_self, if_true, hn', if_false, execAll,
    exec_reserve h]; rw [hp], ?_⟩
  have hh : hdrs (reserveSt st v n) v = ⟨.heap s' 0, .heap s' (st.arrs v).size, c'⟩ := by simp [hdrs_apply, hx]
  have hl := resize_loop2_heap v s' s' i (hdrs (reserveSt st v n)) (n - (st.arrs v).size) fuel (st.arrs v).size (reserveSt st v n) (by omega)
  have hnn : (st.arrs v).size + (n - (st.arrs v).size) = n := by omega
  rw [hnn] at hl
  have hr := tr_reserveRef_own_mk h n fuel s i (by omega) hs hi s' hs'
  have hle' := h.size_le s hs
  have hh0 : hdrs st v = ⟨.heap s 0, .heap s (st.arrs v).size, (st.arrs v).cap⟩ := by simp [hdrs_apply, hdrOf_some hs]
  by_cases hfit : n ≤ (st.arrs v).cap
  · obtain ⟨hid1, hs1⟩ := hid s hs hfit
    have hc : (st.arrs v).cap = c' := by rw [hid1] at hx; rw [hx]
    have hu : usub n (st.arrs v).size ≤ usub (st.arrs v).cap (st.arrs v).size := by
      rw [usub_le hle', usub_le (by omega)]; omega
    rw [hid1] at hr hh hl
    subst hs1
    simp [LifeArray.resize, rep_mk, hh0, hn', hr, hid1, hu, hc, hl, upd_same, hnn]
  · have hu : usub (st.arrs v).cap (st.arrs v).size < usub n (st.arrs v).size := by
      rw [usub_le hle', usub_le (by omega)]; omega
    simp [LifeArray.resize, rep_mk, hh0, hn', hr, hh, hu, Nat.not_le.mpr hu, hl, upd_same, hnn]
end Nstd.Life.ArrTr
