import Nstd.Life.LemmasAll
import Nstd.Life.LemmasStable
/- lift of the C05 micro-step theorem `Stable.exec_stable` to lists of micro steps -/
namespace Nstd.Life

/-- composition of `Kept` / `Destroyed` along two consecutive steps -/
theorem kept_trans {st s1 st' : State} {e1 e2 : List Ev} {it : Item} {c c1 c2 : Var}
    (h1 : Kept st s1 e1 it c c1) (h2 : Kept s1 st' e2 it c1 c2) : Kept st st' (e1 ++ e2) it c c2 := by
  obtain ⟨_, k1, r1, m1⟩ := h1
  obtain ⟨i2, k2, r2, m2⟩ := h2
  refine ⟨i2, k2.trans k1, ?_, m2.trans m1⟩
  intro e he
  rcases List.mem_append.mp he with he | he
  · exact r1 e he
  · exact r2 e he

/-- C05 at the level of a list of micro steps -/
theorem execAll_stable {st st' : State} (h : SInv st) (ms : List Micro) (he : execAll st ms = some st') :
    ∃ evs, st'.log = st.log ++ evs ∧
      ∀ c it, it ∈ (st.nodes c).items → (∃ c', Kept st st' evs it c c') ∨ Destroyed evs it c := by
  induction ms generalizing st with
  | nil =>
    simp only [execAll, Option.some.injEq] at he
    subst he
    exact ⟨[], by simp, fun c it hi => Or.inl ⟨c, ⟨hi, rfl, fun _ he => absurd he List.not_mem_nil, rfl⟩⟩⟩
  | cons m rest ih =>
    simp only [execAll] at he
    cases hm : exec st m with
    | none => rw [hm] at he; cases he
    | some s1 =>
      rw [hm] at he
      obtain ⟨i1, _⟩ := exec_ok h m hm
      obtain ⟨e1, l1, k1⟩ := Stable.exec_stable h m hm
      obtain ⟨e2, l2, k2⟩ := ih i1 he
      refine ⟨e1 ++ e2, by rw [l2, l1, List.append_assoc], ?_⟩
      intro c it hi
      rcases k1 c it hi with ⟨_, hk⟩ | ⟨_, hd⟩
      · rcases k2 (m.moves c) it hk.1 with ⟨c2, hk2⟩ | hd2
        · exact Or.inl ⟨c2, kept_trans hk hk2⟩
        · right
          intro f hf
          have hkk : (m.moves c).k = c.k := hk.2.1
          exact List.mem_append_right _ (hd2 f (hkk ▸ hf))
      · right
        intro f hf
        exact List.mem_append_left _ (hd f hf)

end Nstd.Life
