import Nstd.Hash.Props
/-
  C05 for the hash containers at MECHANISM level (chain-list model and pointer model of the Hash area): chain
  relinking - insert into a bucket, remove from a chain through `cell` / `nextCell`, clear, swap - never copies an
  item to another id.  The work is done in the Hash area (`Nstd.Hash.items_stable_step`, `ptr_items_stable_step`); here
  it is put into the three-way form used by the Life area: kept under the same id / unlinked onto a free list /
  the whole table object was destroyed or assigned over.
-/
namespace Nstd.Life.HashStable
open Nstd

/-- One step of the two-table hash machine (chain-list model), for every live item `id` of table `t`:
    * it is still linked in a table (the same one; the other one after `swap`: `Op.owner`) under the SAME id with the
      same key, and the same value unless this op wrote `v` to the entry of exactly that key (`Op.writes`: `setValue`,
      or an insert of that key into a HashMap), or
    * it was unlinked by this op (`Op.releases`): its id is no longer linked and is on the free list of its table, or
    * the op destroys / assigns over the table object (`Op.destroys`: construct, constructDefault, copyFrom, assign),
      which ends the life of all its items. -/
theorem items_stable_step (kind : Hash.Kind) (h : Nat → Nat) (s s' : Hash.State) (op : Hash.Op) (o : Hash.Out)
    (hinv : Hash.SInv h s) (hs : Hash.step kind h s op = some (s', o)) :
    ∀ t id, id ∈ (s.get t).order →
      (¬ op.releases s t id ∧ ¬ op.destroys t ∧
        ∃ t', t' = op.owner t ∧ id ∈ (s'.get t').order ∧
          ((s'.get t').items id).key = ((s.get t).items id).key ∧
          (((s'.get t').items id).value = ((s.get t).items id).value ∨
            ∃ v, op.writes kind t ((s.get t).items id).key v ∧ ((s'.get t').items id).value = v))
      ∨ (op.releases s t id ∧ ¬ op.destroys t ∧ id ∉ (s'.get t).order ∧ id ∈ (s'.get t).free)
      ∨ op.destroys t := by
  intro t id hl
  by_cases hd : op.destroys t
  · exact Or.inr (Or.inr hd)
  · obtain ⟨h1, h2⟩ := Hash.items_stable_step kind h s s' op o hinv hs t id hl hd
    by_cases hr : op.releases s t id
    · exact Or.inr (Or.inl ⟨hr, hd, h2 hr⟩)
    · obtain ⟨a, b, c⟩ := h1 hr
      exact Or.inl ⟨hr, hd, op.owner t, rfl, a, b, c⟩

/-- the weak (non-exclusive) form: kept under the same id, or on a free list, or the table object was destroyed -/
theorem items_stable_step_weak (kind : Hash.Kind) (h : Nat → Nat) (s s' : Hash.State) (op : Hash.Op) (o : Hash.Out)
    (hinv : Hash.SInv h s) (hs : Hash.step kind h s op = some (s', o)) :
    ∀ t id, id ∈ (s.get t).order →
      (∃ t', id ∈ (s'.get t').order ∧ ((s'.get t').items id).key = ((s.get t).items id).key ∧
          (((s'.get t').items id).value = ((s.get t).items id).value ∨
            ∃ v, op.writes kind t ((s.get t).items id).key v))
      ∨ (∃ t', id ∈ (s'.get t').free)
      ∨ op.destroys t := by
  intro t id hl
  rcases items_stable_step kind h s s' op o hinv hs t id hl with ⟨_, _, t', _, a, b, c⟩ | ⟨_, _, _, f⟩ | d
  · refine Or.inl ⟨t', a, b, ?_⟩
    rcases c with c | ⟨v, c, _⟩
    · exact Or.inl c
    · exact Or.inr ⟨v, c⟩
  · exact Or.inr (Or.inl ⟨t, f⟩)
  · exact Or.inr (Or.inr d)

/-- the invariant needed above holds in every reachable state of the hash machine (any items-per-block / default
    capacity constants ≥ 1) -/
theorem reachable_inv (kind : Hash.Kind) (h : Nat → Nat) (ipb dcap : Nat) (hk : 0 < ipb) (hd : 0 < dcap)
    (ops : List Hash.Op) (s : Hash.State) (os : List Hash.Out)
    (hr : Hash.run kind h (Hash.initWith ipb dcap) ops = some (s, os)) : Hash.SInv h s := by
  have : ∀ (ops : List Hash.Op) (s0 : Hash.State), Hash.SInv h s0 → ∀ s os,
      Hash.run kind h s0 ops = some (s, os) → Hash.SInv h s := by
    intro ops
    induction ops with
    | nil => intro s0 h0 s os hr; simp only [Hash.run, Option.some.injEq, Prod.mk.injEq] at hr; rw [← hr.1]; exact h0
    | cons op rest ih =>
      intro s0 h0 s os hr
      simp only [Hash.run] at hr
      cases hst : Hash.step kind h s0 op with
      | none => rw [hst] at hr; cases hr
      | some r =>
        obtain ⟨s1, o⟩ := r
        rw [hst] at hr
        simp only at hr
        cases hrr : Hash.run kind h s1 rest with
        | none => rw [hrr] at hr; cases hr
        | some r2 =>
          obtain ⟨s2, os2⟩ := r2
          rw [hrr] at hr
          simp only [Option.some.injEq, Prod.mk.injEq] at hr
          rw [← hr.1]
          exact ih s1 ((Hash.step_refines kind h s0 op h0).2 s1 o hst) s2 os2 hrr
  exact this ops _ (Hash.initWith_inv h ipb dcap hk hd) s os hr

end Nstd.Life.HashStable
