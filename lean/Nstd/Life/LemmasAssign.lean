import Nstd.Life.LemmasStable
/-
  Which events the node-container steps emit: removals emit destructor calls only; the only assignment a
  node-container step performs overwrites the value object of an existing item of the target container, and in
  `put` that item carries the inserted key.
-/
namespace Nstd.Life.Assign
open Nstd.Life

theorem removeAt_log (st : State) (c : Var) (j : Nat) (it : Item) :
    (removeAt st c j it).log = st.log ++ (it.dtorOrder c.k).map .dtor := by
  simp only [removeAt, State.dtorItem, setNode_log, Stable.dtorLocs_log]

theorem only_dtors_map (ls : List Loc) : ∀ e, e ∈ ls.map Ev.dtor → ∃ l, e = .dtor l := by
  intro e he
  obtain ⟨l, _, rfl⟩ := List.mem_map.mp he
  exact ⟨l, rfl⟩

theorem findField_spec (st : State) (f p : Nat) : ∀ (items : List Item) (j : Nat),
    findField st f p items = some j → ∃ it, items[j]? = some it ∧ st.mem (it.loc f) = some p
  | [], j, h => by simp [findField] at h
  | a :: rest, j, h => by
    simp only [findField] at h
    by_cases hc : st.mem (a.loc f) = some p
    · simp only [hc, if_true, Option.some.injEq] at h
      subst h; exact ⟨a, by simp, hc⟩
    · simp only [hc, if_false, Option.map_eq_some_iff] at h
      obtain ⟨j', hj', rfl⟩ := h
      obtain ⟨it, h1, h2⟩ := findField_spec st f p rest j' hj'
      exact ⟨it, by simpa using h1, h2⟩

/-- removal steps emit nothing but destructor calls (no assignment, no construction, no alloc/free) -/
theorem removal_only_dtors {st st' : State} (m : Micro)
    (hm : (∃ c j, m = .remove c j) ∨ (∃ c k, m = .removeKey c k) ∨ (∃ c v, m = .removeVal c v) ∨ (∃ c, m = .clear c))
    (he : exec st m = some st') :
    ∃ evs, st'.log = st.log ++ evs ∧ ∀ e, e ∈ evs → ∃ l, e = .dtor l := by
  have he' := Stable.exec_exec' he
  have hnone : ∃ evs, st.log = st.log ++ evs ∧ ∀ e, e ∈ evs → ∃ l, e = Ev.dtor l :=
    ⟨[], by simp, fun e h => by cases h⟩
  rcases hm with ⟨c, j, rfl⟩ | ⟨c, k, rfl⟩ | ⟨c, v, rfl⟩ | ⟨c, rfl⟩
  · simp only [exec'] at he'
    cases hj : (st.nodes c).items[j]? with
    | none => simp [hj] at he'
    | some it =>
      simp [hj] at he'
      subst he'
      exact ⟨_, removeAt_log st c j it, only_dtors_map _⟩
  · simp only [exec'] at he'
    cases hp : k.payload st with
    | none => simp [hp] at he'
    | some kp =>
      cases hf : findField st 0 kp (st.nodes c).items with
      | none => simp [hp, hf] at he'; subst he'; exact hnone
      | some j =>
        cases hj : (st.nodes c).items[j]? with
        | none => simp [hp, hf, hj] at he'
        | some it =>
          simp [hp, hf, hj] at he'
          subst he'
          exact ⟨_, removeAt_log st c j it, only_dtors_map _⟩
  · simp only [exec'] at he'
    cases hp : v.payload st with
    | none => simp [hp] at he'
    | some vp =>
      cases hf : findField st 1 vp (st.nodes c).items with
      | none => simp [hp, hf] at he'; subst he'; exact hnone
      | some j =>
        cases hj : (st.nodes c).items[j]? with
        | none => simp [hp, hf, hj] at he'
        | some it =>
          simp [hp, hf, hj] at he'
          subst he'
          exact ⟨_, removeAt_log st c j it, only_dtors_map _⟩
  · simp only [exec'] at he'
    cases hA : (st.nodes c).alive with
    | false => simp [hA] at he'
    | true =>
      have hg : ¬ ((!(st.nodes c).alive) = true) := by simp [hA]
      rw [if_neg hg] at he'
      have he' := Option.some.inj he'
      subst he'
      exact ⟨((st.nodes c).items.flatMap (Item.dtorOrder c.k)).map .dtor,
        by simp only [State.dtorItems, setNode_log, Stable.dtorLocs_log], only_dtors_map _⟩

/-- the three outcomes of `put`: a new item is linked, nothing happens, or the value of the item carrying the key
    is overwritten -/
theorem put_cases {st st' : State} (c : Var) (pos : Option Nat) (k v : Option SrcRef)
    (he : exec' st (.put c pos k v) = some st') :
    (∃ q srcs, st' = insertNew st c q srcs) ∨ st' = st ∨
    (∃ (it : Item) (vl : Loc) (vp : Option Nat) (r : SrcRef) (kp : Nat), it ∈ (st.nodes c).items ∧
      st' = st.assign (it.loc 1) vl vp ∧ k = some r ∧ r.payload st = some kp ∧ keyOf st it = some kp) := by
  simp only [exec'] at he
  by_cases ha : (st.nodes c).alive = true
  · simp only [ha, Bool.not_true, Bool.false_eq_true, if_false] at he
    cases hkr : resolveOpt st k with
    | none => simp [hkr] at he
    | some kr =>
      simp only [hkr] at he
      cases hvr : resolveOpt st v with
      | none => simp [hvr] at he
      | some vr =>
        simp only [hvr] at he
        cases hsr : fieldSrcs c.k kr vr with
        | none => simp [hsr] at he
        | some srcs =>
          simp only [hsr] at he
          by_cases hpos : pos.getD (st.nodes c).items.length > (st.nodes c).items.length
          · simp [hpos] at he
          · simp only [hpos, if_false] at he
            unfold putResolved at he
            by_cases hk : c.k.hasKey = true
            · simp only [hk, if_true] at he
              cases kr with
              | none => simp at he
              | some kk =>
                obtain ⟨kl, kp⟩ := kk
                cases kp with
                | none => simp at he
                | some kp =>
                  simp only at he
                  by_cases hU : c.k = .U
                  · simp only [hU, if_true, Option.some.injEq] at he
                    exact Or.inl ⟨_, _, he.symm⟩
                  · simp only [hU, if_false] at he
                    cases hfind : findField st 0 kp (st.nodes c).items with
                    | none =>
                      simp only [hfind, Option.some.injEq] at he
                      exact Or.inl ⟨_, _, he.symm⟩
                    | some j =>
                      simp only [hfind] at he
                      by_cases hMH : c.k = .M ∨ c.k = .H
                      · simp only [hMH, if_true] at he
                        obtain ⟨it, hit, hkey⟩ := findField_spec st 0 kp _ j hfind
                        simp only [hit] at he
                        cases vr with
                        | none => simp [putAssign] at he
                        | some vv =>
                          obtain ⟨vl, vp⟩ := vv
                          cases vl with
                          | none => simp [putAssign] at he
                          | some vl =>
                            simp only [putAssign, Option.some.injEq] at he
                            -- the key operand
                            cases k with
                            | none => simp [resolveOpt] at hkr
                            | some r =>
                              have hr : resolve st r = some (kl, some kp) := by
                                simp only [resolveOpt, Option.map_eq_some_iff, Option.some.injEq] at hkr
                                obtain ⟨y, hy, rfl⟩ := hkr; exact hy
                              have hpay : r.payload st = some kp := by
                                unfold resolve at hr
                                cases hl : r.loc st with
                                | none => simp [hl] at hr
                                | some l' =>
                                  simp only [hl, Option.some.injEq, Prod.mk.injEq] at hr
                                  exact hr.2
                              exact Or.inr (Or.inr ⟨it, vl, vp, r, kp, List.mem_of_getElem? hit, he.symm, rfl, hpay, hkey⟩)
                      · simp only [hMH, if_false, Option.some.injEq] at he
                        exact Or.inr (Or.inl he.symm)
            · simp only [hk, Bool.false_eq_true, if_false, Option.some.injEq] at he
              exact Or.inl ⟨_, _, he.symm⟩
  · simp [ha] at he

theorem insertNew_no_assign (st : State) (c : Var) (q : Nat) (srcs : List (Nat × Option Loc × Option Nat)) :
    ∃ evs, (insertNew st c q srcs).log = st.log ++ evs ∧ ∀ dst src, Ev.assign dst src ∉ evs := by
  obtain ⟨evs, heff, _, _, _, hsh⟩ := Stable.insertNew_eff (AS := fun _ => False) st c q srcs
  refine ⟨evs, heff.1, ?_⟩
  intro dst src hin
  rcases hsh _ hin with ⟨b, n, e⟩ | ⟨it, x, _, e⟩ <;> cases e

/-- in `put` the overwritten item is the one carrying the inserted key -/
theorem put_assign_same_key {st st' : State} (c : Var) (pos : Option Nat) (k v : Option SrcRef)
    (he : exec st (.put c pos k v) = some st') :
    ∃ evs, st'.log = st.log ++ evs ∧ ∀ dst src, Ev.assign dst src ∈ evs →
      ∃ it r kp, it ∈ (st.nodes c).items ∧ dst = it.loc 1 ∧ k = some r ∧ r.payload st = some kp ∧
        keyOf st it = some kp := by
  rcases put_cases c pos k v (Stable.exec_exec' he) with ⟨q, srcs, rfl⟩ | rfl | ⟨it, vl, vp, r, kp, hit, rfl, hk, hp, hkey⟩
  · obtain ⟨evs, hl, hno⟩ := insertNew_no_assign st c q srcs
    exact ⟨evs, hl, fun dst src hin => absurd hin (hno dst src)⟩
  · exact ⟨[], by simp, fun _ _ hin => by cases hin⟩
  · refine ⟨[.assign (it.loc 1) vl], rfl, ?_⟩
    intro dst src hin
    simp only [List.mem_singleton, Ev.assign.injEq] at hin
    exact ⟨it, r, kp, hit, hin.1, hk, hp, hkey⟩

/-- the only assignment a node-container step ever performs is the overwrite of the value object of one existing
    item of the target container; key objects are never assigned -/
theorem node_assign_only_value {st st' : State} (m : Micro) (c : Var)
    (hc : m.nodeTargets = [c] ∨ ∃ d, m.nodeTargets = [c, d]) (he : exec st m = some st') :
    ∃ evs, st'.log = st.log ++ evs ∧
      ∀ dst src, Ev.assign dst src ∈ evs → ∃ it, it ∈ (st.nodes c).items ∧ dst = it.loc 1 := by
  have he' := Stable.exec_exec' he
  have of_dtors : (∃ evs, st'.log = st.log ++ evs ∧ ∀ e, e ∈ evs → ∃ l, e = Ev.dtor l) →
      ∃ evs, st'.log = st.log ++ evs ∧
        ∀ dst src, Ev.assign dst src ∈ evs → ∃ it, it ∈ (st.nodes c).items ∧ dst = it.loc 1 := by
    rintro ⟨evs, hl, hd⟩
    refine ⟨evs, hl, fun dst src hin => ?_⟩
    obtain ⟨l, e⟩ := hd _ hin; cases e
  cases m with
  | put c0 pos k v =>
    have hcc : c0 = c := by
      rcases hc with h1 | ⟨d, h1⟩ <;> simp [Micro.nodeTargets] at h1 <;> exact h1
    subst hcc
    obtain ⟨evs, hl, hd⟩ := put_assign_same_key c0 pos k v he
    refine ⟨evs, hl, fun dst src hin => ?_⟩
    obtain ⟨it, _, _, hit, hdst, _⟩ := hd dst src hin
    exact ⟨it, hit, hdst⟩
  | assignVal c0 j src =>
    have hcc : c0 = c := by
      rcases hc with h1 | ⟨d, h1⟩ <;> simp [Micro.nodeTargets] at h1 <;> exact h1
    subst hcc
    simp only [exec'] at he'
    by_cases hf : 1 ∈ c0.k.fields
    · cases hj : (st.nodes c0).items[j]? with
      | none => simp [hf, hj] at he'
      | some it =>
        cases hr : resolve st src with
        | none => simp [hf, hj, hr] at he'
        | some lp =>
          obtain ⟨l, p⟩ := lp
          cases l with
          | none => simp [hf, hj, hr] at he'
          | some l =>
            simp [hf, hj, hr] at he'
            subst he'
            refine ⟨[.assign (it.loc 1) l], rfl, ?_⟩
            intro dst src' hin
            simp only [List.mem_singleton, Ev.assign.injEq] at hin
            exact ⟨it, List.mem_of_getElem? hj, hin.1⟩
    · simp [hf] at he'
  | remove c0 j => exact of_dtors (removal_only_dtors _ (Or.inl ⟨c0, j, rfl⟩) he)
  | removeKey c0 k => exact of_dtors (removal_only_dtors _ (Or.inr (Or.inl ⟨c0, k, rfl⟩)) he)
  | removeVal c0 v => exact of_dtors (removal_only_dtors _ (Or.inr (Or.inr (Or.inl ⟨c0, v, rfl⟩))) he)
  | clear c0 => exact of_dtors (removal_only_dtors _ (Or.inr (Or.inr (Or.inr ⟨c0, rfl⟩))) he)
  | destroy c0 =>
    simp only [exec'] at he'
    cases hA : (st.nodes c0).alive with
    | false => simp [hA] at he'
    | true =>
      have hg : ¬ ((!(st.nodes c0).alive) = true) := by simp [hA]
      rw [if_neg hg] at he'
      have he' := Option.some.inj he'
      subst he'
      cases hd : (st.nodes c0).data with
      | none =>
        refine ⟨((st.nodes c0).items.flatMap (Item.dtorOrder c0.k)).map .dtor ++
            ((st.nodes c0).blocks.map .free ++ (c0.k.sentFields.reverse.map fun f => Loc.sent c0 f).map .dtor),
          by simp only [State.dtorItems, setNode_log, Stable.dtorLocs_log, Stable.freeBlocks_log,
            List.append_assoc], ?_⟩
        intro dst src hin
        simp only [List.mem_append, List.mem_map] at hin
        rcases hin with ⟨_, _, e⟩ | ⟨_, _, e⟩ | ⟨_, _, e⟩ <;> cases e
      | some d =>
        refine ⟨[.free d] ++ (((st.nodes c0).items.flatMap (Item.dtorOrder c0.k)).map .dtor ++
            ((st.nodes c0).blocks.map .free ++ (c0.k.sentFields.reverse.map fun f => Loc.sent c0 f).map .dtor)),
          by simp only [State.dtorItems, setNode_log, Stable.dtorLocs_log, Stable.freeBlocks_log,
            Stable.freeBlk_log, List.append_assoc], ?_⟩
        intro dst src hin
        simp only [List.mem_append, List.mem_map, List.mem_singleton] at hin
        rcases hin with e | ⟨_, _, e⟩ | ⟨_, _, e⟩ | ⟨_, _, e⟩ <;> cases e
  | create c0 =>
    simp only [exec'] at he'
    cases hA : (st.nodes c0).alive with
    | true => simp [hA] at he'
    | false =>
      have hg : ¬ ((st.nodes c0).alive = true) := by simp [hA]
      rw [if_neg hg] at he'
      have he' := Option.some.inj he'
      subst he'
      refine ⟨(c0.k.sentFields.map fun f => ((Loc.sent c0 f, none, some 0) : Loc × Option Loc × Option Nat)).map
          (fun x => Ev.ctor x.1 x.2.1), by simp only [setNode_log, Stable.ctorList_log], ?_⟩
      intro dst src hin
      simp only [List.mem_map] at hin
      obtain ⟨_, _, e⟩ := hin; cases e
  | swap c0 d0 =>
    simp only [exec'] at he'
    by_cases hg : (!(st.nodes c0).alive || !(st.nodes d0).alive || c0.k != d0.k) = true
    · simp [hg] at he'
    · rw [if_neg hg] at he'
      have he' := Option.some.inj he'
      subst he'
      exact ⟨[], by simp, fun _ _ hin => by cases hin⟩
  | aReserve a n => rcases hc with h1 | ⟨d, h1⟩ <;> simp [Micro.nodeTargets] at h1
  | aPush a src => rcases hc with h1 | ⟨d, h1⟩ <;> simp [Micro.nodeTargets] at h1
  | aTruncate a n => rcases hc with h1 | ⟨d, h1⟩ <;> simp [Micro.nodeTargets] at h1
  | aAssign a j src => rcases hc with h1 | ⟨d, h1⟩ <;> simp [Micro.nodeTargets] at h1
  | aRemove a j => rcases hc with h1 | ⟨d, h1⟩ <;> simp [Micro.nodeTargets] at h1
  | aDestroy a => rcases hc with h1 | ⟨d, h1⟩ <;> simp [Micro.nodeTargets] at h1
  | aCreate a cap => rcases hc with h1 | ⟨d, h1⟩ <;> simp [Micro.nodeTargets] at h1
  | aSwap a b => rcases hc with h1 | ⟨d, h1⟩ <;> simp [Micro.nodeTargets] at h1

end Nstd.Life.Assign
