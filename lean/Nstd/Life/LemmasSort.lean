import Nstd.Life.Model
/-
  `List::sort()`: every micro step the simulated quicksort emits is an assignment `*node_j = ...` to a node INSIDE the list
  (index < n), from another node inside the list or from the temporary of `swap` - for every comparator (oracle), every
  payload list, every fuel.  The fuel `n` suffices (`sortRange_fuel`).
-/
namespace Nstd.Life

/-- the steps `sort()` consists of: assignments to the value object of node j < n of list c, from node j' < n or from a temporary -/
def SortOk (c : Var) (n : Nat) (ms : List Micro) : Prop :=
  ∀ m, m ∈ ms → ∃ j src, m = .assignVal c j src ∧ j < n ∧ ((∃ p, src = .ext p) ∨ ∃ j', src = .item c j' 1 ∧ j' < n)

theorem sortOk_nil (c : Var) (n : Nat) : SortOk c n [] := fun _ h => by cases h

theorem sortOk_append {c : Var} {n : Nat} {a b : List Micro} (ha : SortOk c n a) (hb : SortOk c n b) : SortOk c n (a ++ b) := by
  intro m hm
  rcases List.mem_append.mp hm with h | h
  · exact ha m h
  · exact hb m h

theorem swapMicros_ok (c : Var) (n : Nat) (vals : List Nat) (a b : Nat) (ha : a < n) (hb : b < n) :
    SortOk c n (swapMicros c vals a b) := by
  intro m hm
  simp only [swapMicros, List.mem_cons, List.not_mem_nil, or_false] at hm
  rcases hm with rfl | rfl
  · exact ⟨a, _, rfl, ha, Or.inr ⟨b, rfl, hb⟩⟩
  · exact ⟨b, _, rfl, hb, Or.inl ⟨_, rfl⟩⟩

/-- the partition loop: `ptr1` stays behind `ptr2`, `ptr0` behind `ptr1`, nothing leaves [left, right] -/
theorem sortLoop_ok (c : Var) (n left pivot : Nat) : ∀ (cnt p2 : Nat) (s : SortSt),
    s.p1 < p2 → p2 + cnt ≤ n → left ≤ s.p0 → s.p0 ≤ s.p1 → SortOk c n s.ms →
    SortOk c n (sortLoop c pivot cnt p2 s).ms ∧ left ≤ (sortLoop c pivot cnt p2 s).p0 ∧
      (sortLoop c pivot cnt p2 s).p0 ≤ (sortLoop c pivot cnt p2 s).p1 ∧ (sortLoop c pivot cnt p2 s).p1 < p2 + cnt ∧
      ((sortLoop c pivot cnt p2 s).p0 < (sortLoop c pivot cnt p2 s).p1 ∨ (sortLoop c pivot cnt p2 s).p0 = s.p0 ∧ (sortLoop c pivot cnt p2 s).p1 = s.p1)
  | 0, p2, s, h1, _, h3, h4, h5 => by
    simp only [sortLoop]
    exact ⟨h5, h3, h4, by omega, Or.inr (by simp)⟩
  | cnt + 1, p2, s, h1, h2, h3, h4, h5 => by
    simp only [sortLoop]
    by_cases hlt : (cmpLt s.orc (s.vals.getD p2 0) pivot).1 = true
    · rw [if_pos hlt]
      obtain ⟨r1, r2, r3, r4, r5⟩ := sortLoop_ok c n left pivot cnt (p2 + 1)
        ⟨s.p1, s.p1 + 1, swapVals s.vals (s.p1 + 1) p2, s.ms ++ swapMicros c s.vals (s.p1 + 1) p2,
          (cmpLt s.orc (s.vals.getD p2 0) pivot).2⟩
        (by simp only; omega) (by omega) (by simp only; omega) (by simp only; omega)
        (sortOk_append h5 (swapMicros_ok c n _ _ _ (by omega) (by omega)))
      refine ⟨r1, r2, r3, by omega, ?_⟩
      simp only at r5
      left
      rcases r5 with r5 | ⟨r5, r6⟩
      · exact r5
      · omega
    · rw [if_neg hlt]
      obtain ⟨r1, r2, r3, r4, r5⟩ := sortLoop_ok c n left pivot cnt (p2 + 1)
        { s with orc := (cmpLt s.orc (s.vals.getD p2 0) pivot).2 } (by simp only; omega) (by omega) h3 h4 h5
      exact ⟨r1, r2, r3, by omega, r5⟩

/-- every step of `sort(left, right)` stays inside the list, and fuel `right - left + 1` suffices -/
theorem sortRange_ok (c : Var) (n : Nat) : ∀ (fuel left right : Nat) (vals : List Nat) (orc : List Bool),
    left ≤ right → right < n → right - left < fuel →
    ∃ r, sortRange c fuel left right vals orc = some r ∧ SortOk c n r.2.1
  | 0, _, _, _, _, _, _, hf => by omega
  | fuel + 1, left, right, vals, orc, hlr, hrn, hf => by
    obtain ⟨l1, l2, l3, l4, l5⟩ := sortLoop_ok c n left (vals.getD left 0) (right - left) (left + 1)
      ⟨left, left, vals, [], orc⟩ (by simp only; omega) (by omega) (Nat.le_refl _) (Nat.le_refl _) (sortOk_nil c n)
    simp only [sortRange]
    generalize sortLoop c (vals.getD left 0) (right - left) (left + 1) ⟨left, left, vals, [], orc⟩ = s at l1 l2 l3 l4 l5 ⊢
    simp only at l5
    have hp1 : s.p1 ≤ right := by omega
    have hsw : SortOk c n (s.ms ++ swapMicros c s.vals left s.p1) :=
      sortOk_append l1 (swapMicros_ok c n _ _ _ (by omega) (by omega))
    -- first recursive call
    obtain ⟨vals2, ms1, orc2, e1, o1⟩ : ∃ vals2 ms1 orc2,
        (if left = s.p0 then some (swapVals s.vals left s.p1, [], s.orc)
          else sortRange c fuel left s.p0 (swapVals s.vals left s.p1) s.orc) = some (vals2, ms1, orc2) ∧ SortOk c n ms1 := by
      by_cases h0 : left = s.p0
      · rw [if_pos h0]; exact ⟨_, _, _, rfl, sortOk_nil c n⟩
      · rw [if_neg h0]
        have hp0 : s.p0 < right := by
          rcases l5 with h | ⟨h, _⟩
          · omega
          · exact absurd h.symm h0
        obtain ⟨r, hr, ho⟩ := sortRange_ok c n fuel left s.p0 (swapVals s.vals left s.p1) s.orc l2 (by omega) (by omega)
        exact ⟨r.1, r.2.1, r.2.2, hr, ho⟩
    rw [e1]
    simp only
    -- second recursive call
    obtain ⟨vals3, ms2, orc3, e2, o2⟩ : ∃ vals3 ms2 orc3,
        (if (if s.p1 = right then s.p1 else s.p1 + 1) = right then some (vals2, [], orc2)
          else sortRange c fuel (if s.p1 = right then s.p1 else s.p1 + 1) right vals2 orc2) = some (vals3, ms2, orc3) ∧
          SortOk c n ms2 := by
      by_cases h1 : (if s.p1 = right then s.p1 else s.p1 + 1) = right
      · rw [if_pos h1]; exact ⟨_, _, _, rfl, sortOk_nil c n⟩
      · rw [if_neg h1]
        have hne : s.p1 ≠ right := fun e => h1 (by rw [if_pos e]; exact e)
        rw [if_neg hne]
        obtain ⟨r, hr, ho⟩ := sortRange_ok c n fuel (s.p1 + 1) right vals2 orc2 (by omega) hrn (by omega)
        exact ⟨r.1, r.2.1, r.2.2, hr, ho⟩
    rw [e2]
    exact ⟨_, rfl, sortOk_append (sortOk_append hsw o1) o2⟩

/-- `sort()` always compiles (the fuel suffices), into assignments to nodes of the list -/
theorem sortMicros_ok (st : State) (v : Nat) (orc : List Bool) :
    ∃ ms, sortMicros st v orc = some ms ∧ SortOk ⟨.L, v⟩ (st.nodes ⟨.L, v⟩).items.length ms := by
  unfold sortMicros
  by_cases hn : (st.nodes ⟨.L, v⟩).items.length < 2
  · simp only [hn, if_true]; exact ⟨[], rfl, sortOk_nil _ _⟩
  · simp only [hn, if_false]
    obtain ⟨r, hr, ho⟩ := sortRange_ok ⟨.L, v⟩ (st.nodes ⟨.L, v⟩).items.length (st.nodes ⟨.L, v⟩).items.length 0
      ((st.nodes ⟨.L, v⟩).items.length - 1) ((st.nodes ⟨.L, v⟩).items.map fun it => (valOf st it).getD 0) orc
      (by omega) (by omega) (by omega)
    rw [hr]
    exact ⟨r.2.1, rfl, ho⟩

end Nstd.Life
