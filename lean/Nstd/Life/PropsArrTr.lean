import Nstd.Life.LemmasOps
import Nstd.Life.LemmasArrTr4
/-
  C04, tie by translation: the member functions of Array.hpp, TRANSLATED from the current header by tools/gen_life.py
  (lean/Nstd/Generated/LifeArray.lean: `LifeArray.append`, `LifeArray.reserve`, ... - functions over the pointer machine
  `AP.PS` of Nstd/Life/ArrPtr.lean: `_begin.item` / `_end.item` / `_capacity`, raw pointers, the loops with their
  placement-new / destructor / assignment statements), compute on the representation `AP.rep st` of EVERY reachable model
  state `st` exactly the state the hand-written model (`compile` + `exec`, the subject of `lifecycle_ok`, `exactly_once`,
  `no_fault`, the as-if-copied theorems ...) computes: the same memory, block table, block counter, the same lifecycle
  EVENT LOG (every construction, destruction, assignment, allocation, release in the same order with the same operands)
  and the same three data members - for every size, capacity, index, and every fuel above the stated bound (the loops never
  run out of it).  So for these functions the model's control flow is no longer a hand translation validated by runs only:
  a change of one of the C++ bodies changes the generated definition and breaks the proof below.

  Covered here: reserve(n), append(const Array&) with the other array and with the array itself, append(const T&) with a caller's object and with a reference to an element of the array itself
  (followed into the new storage), resize(n, value) shrinking and growing (caller's object), clear(), ~Array(), Array(),
  Array(capacity), swap (also with itself), remove(index) in and out of range, remove(Iterator), removeFront(), removeBack().
  Since the third leg of round 7 also: Array(const Array&), operator= (other and self), append(const T*, n) with a range of the array itself, resize(n, a[i]) growing.
-/
namespace Nstd.Life
open Nstd.Life.AP
open Nstd.Generated

/-- every reachable state satisfies the representation hypotheses of the translation theorems for both array variables -/
theorem ArrTr.aok_reach (p : Per) (ops : List Op) (v : Nat) (hv : v ≤ 1) : ArrTr.AOk (run (init p) ops) v :=
  ⟨hv, (Ops.allAlive_reach p ops).2 v hv, fun s hs => (reach_ok p ops).1.arr_size v s hs, fun hs => (reach_ok p ops).1.arr_none v hs⟩

/-- C04 `translated_reserve`: `a.reserve(n)` as translated from Array.hpp = the model operation, in every reachable state. -/
theorem translated_reserve (p : Per) (ops : List Op) (v n fuel : Nat) (hv : v ≤ 1) (hf : ((run (init p) ops).arrs v).size < fuel) :
    ∃ st', stepRes (run (init p) ops) (.aReserve v n) = .ok st' ∧
      LifeArray.reserve fuel (rep (run (init p) ops)) v n = some (rep st', ()) :=
  ArrTr.tr_reserveOp (ArrTr.aok_reach p ops v hv) n fuel hf

/-- C04 `translated_append`: `a.append(x)` with x an object of the caller. -/
theorem translated_append (p : Per) (ops : List Op) (v x fuel : Nat) (hv : v ≤ 1) (hf : ((run (init p) ops).arrs v).size < fuel) :
    ∃ st', stepRes (run (init p) ops) (.aAppend v x) = .ok st' ∧
      LifeArray.append fuel (rep (run (init p) ops)) v (.ext x) = some (rep st', ()) :=
  ArrTr.tr_append (ArrTr.aok_reach p ops v hv) x fuel hf

/-- C04 `translated_append_own_element`: `a.append(a[i])` - the argument is the ADDRESS of element i of the array itself
    (`Ptr.heap s i`, s the storage block); the translated `reserve(size, ref)` follows it into the new storage exactly as the
    model's reference operand `SrcRef.elem v i` is resolved after the reallocation. -/
theorem translated_append_own_element (p : Per) (ops : List Op) (v i s fuel : Nat) (hv : v ≤ 1)
    (hs : ((run (init p) ops).arrs v).store = some s) (hi : i < ((run (init p) ops).arrs v).size)
    (hf : ((run (init p) ops).arrs v).size < fuel) :
    ∃ st', stepRes (run (init p) ops) (.aAppendRef v i) = .ok st' ∧
      LifeArray.append fuel (rep (run (init p) ops)) v (.heap s i) = some (rep st', ()) :=
  ArrTr.tr_appendRef (ArrTr.aok_reach p ops v hv) i fuel hf s hs hi

/-- C04 `translated_resize`: `a.resize(n, x)`, shrinking (destructor calls from the new end on) and growing (reserve, then
    n - size copy constructions from the caller's object). -/
theorem translated_resize (p : Per) (ops : List Op) (v n x fuel : Nat) (hv : v ≤ 1)
    (hf : ((run (init p) ops).arrs v).size + n < fuel) :
    ∃ st', stepRes (run (init p) ops) (.aResize v n x) = .ok st' ∧
      LifeArray.resize fuel (rep (run (init p) ops)) v n (.ext x) = some (rep st', ()) :=
  ArrTr.tr_resize_ext (ArrTr.aok_reach p ops v hv) n x fuel hf

/-- C04 `translated_clear`: `a.clear()`. -/
theorem translated_clear (p : Per) (ops : List Op) (v fuel : Nat) (hv : v ≤ 1) (hf : ((run (init p) ops).arrs v).size < fuel) :
    ∃ st', stepRes (run (init p) ops) (.clear ⟨.A, v⟩) = .ok st' ∧
      LifeArray.clear fuel (rep (run (init p) ops)) v = some (rep st', ()) :=
  ArrTr.tr_clear (ArrTr.aok_reach p ops v hv) fuel hf

/-- C04 `translated_remove`: `a.remove(index)` (chain of assignments `*dest = *(++pos)`, then the destructor of the last
    element; an index outside the array does nothing). -/
theorem translated_remove (p : Per) (ops : List Op) (v j fuel : Nat) (hv : v ≤ 1) (hf : ((run (init p) ops).arrs v).size < fuel) :
    ∃ st', stepRes (run (init p) ops) (.aRemove v j) = .ok st' ∧
      LifeArray.remove fuel (rep (run (init p) ops)) v j = some (rep st', ()) :=
  ArrTr.tr_remove (ArrTr.aok_reach p ops v hv) j fuel hf

/-- C04 `translated_remove_iterator`: `a.remove(it)` with `it` designating element j; `removeFront()`, `removeBack()`. -/
theorem translated_remove_iterator (p : Per) (ops : List Op) (v j s fuel : Nat) (hv : v ≤ 1)
    (hs : ((run (init p) ops).arrs v).store = some s) (hj : j < ((run (init p) ops).arrs v).size)
    (hf : ((run (init p) ops).arrs v).size < fuel) :
    (∃ st', stepRes (run (init p) ops) (.aRemoveIt v j) = .ok st' ∧
      LifeArray.removeIt fuel (rep (run (init p) ops)) v (.heap s j) = some (rep st', ())) ∧
    (∃ st', stepRes (run (init p) ops) (.aRemoveIt v 0) = .ok st' ∧
      LifeArray.removeFront fuel (rep (run (init p) ops)) v = some (rep st', ())) ∧
    (∃ st', stepRes (run (init p) ops) (.aRemoveIt v (((run (init p) ops).arrs v).size - 1)) = .ok st' ∧
      LifeArray.removeBack fuel (rep (run (init p) ops)) v = some (rep st', ())) :=
  ⟨ArrTr.tr_removeIt (ArrTr.aok_reach p ops v hv) hs hj fuel hf,
   ArrTr.tr_removeFront (ArrTr.aok_reach p ops v hv) hs (by omega) fuel hf,
   ArrTr.tr_removeBack (ArrTr.aok_reach p ops v hv) hs (by omega) fuel hf⟩

/-- C04 `translated_swap`: `a.swap(b)`, also `a.swap(a)`: the three data members are exchanged, no event. -/
theorem translated_swap (p : Per) (ops : List Op) (v w fuel : Nat) (hv : v ≤ 1) (hw : w ≤ 1) :
    ∃ st', stepRes (run (init p) ops) (.swap ⟨.A, v⟩ w) = .ok st' ∧
      LifeArray.swap fuel (rep (run (init p) ops)) v w = some (rep st', ()) :=
  ArrTr.tr_swap (ArrTr.aok_reach p ops v hv) (ArrTr.aok_reach p ops w hw) fuel

/-- C04 `translated_destructor`: `~Array()` (destructor calls for all elements in index order, then the release of the storage)
    = the micro step `aDestroy` the model executes for `new` / `newcap` / `copy` / `destroyall`: same memory, blocks, event log;
    the headers of the other variables are untouched (the destroyed object's own members are left dangling by the C++ code and
    reset by the model, so they are not compared). -/
theorem translated_destructor (p : Per) (ops : List Op) (v fuel : Nat) (hv : v ≤ 1) (hf : ((run (init p) ops).arrs v).size < fuel) :
    ∃ st', exec (run (init p) ops) (.aDestroy v) = some st' ∧ ∃ S', LifeArray.dtor fuel (rep (run (init p) ops)) v = some (S', ()) ∧
      S'.next = st'.next ∧ S'.mem = st'.mem ∧ S'.blk = st'.blk ∧ S'.log = st'.log ∧ ∀ a, a ≠ v → S'.hd a = (rep st').hd a :=
  ArrTr.tr_dtor (ArrTr.aok_reach p ops v hv) fuel hf

/-- C04 `translated_constructor`: `Array(capacity)` on a destroyed variable = the micro step `aCreate`; `Array()` = `Array(0)`
    (any state). -/
theorem translated_constructor (st : State) (v cap fuel : Nat) (hv : v ≤ 1) (hd : (st.arrs v).alive = false) :
    ∃ st', exec st (.aCreate v cap) = some st' ∧ LifeArray.ctorCap fuel (rep st) v cap = some (rep st', ()) ∧
      LifeArray.ctorDefault fuel (rep st) v = LifeArray.ctorCap fuel (rep st) v 0 :=
  ArrTr.tr_ctor hv hd cap fuel

/-- C04 `translated_append_array`: `a.append(b)` with b the OTHER array variable: reserve(size a + size b), then one copy construction
    per element of b, the source pointer walking through b's storage (round 7, second leg). -/
theorem translated_append_array (p : Per) (ops : List Op) (v w fuel : Nat) (hv : v ≤ 1) (hw : w ≤ 1) (hne : w ≠ v)
    (hf : ((run (init p) ops).arrs v).size + ((run (init p) ops).arrs w).size < fuel) :
    ∃ st', stepRes (run (init p) ops) (.aAppendArr v w) = .ok st' ∧
      LifeArray.appendArr fuel (rep (run (init p) ops)) v w = some (rep st', ()) :=
  ArrTr.tr_appendArr_other (ArrTr.aok_reach p ops v hv) (ArrTr.aok_reach p ops w hw) hne fuel hf

/-- C04 `translated_append_array_self`: `a.append(a)` - the self-argument case at the level of the translated code: `values._begin.item`
    is read AFTER `reserve` (the two references alias, so it is the new storage), the loop copies the old elements 0 .. size-1 while the
    end pointer it compares with was fixed before; the result is the model's `aAppendArr v v` (whose value is `a ++ a`:
    `append_self_as_if_copied`). -/
theorem translated_append_array_self (p : Per) (ops : List Op) (v fuel : Nat) (hv : v ≤ 1)
    (hf : ((run (init p) ops).arrs v).size + ((run (init p) ops).arrs v).size < fuel) :
    ∃ st', stepRes (run (init p) ops) (.aAppendArr v v) = .ok st' ∧
      LifeArray.appendArr fuel (rep (run (init p) ops)) v v = some (rep st', ()) :=
  ArrTr.tr_appendArr_self (ArrTr.aok_reach p ops v hv) fuel hf

/-- C04 `translated_assign`: `a = b` (clear, reserve(b.capacity()), one copy construction per element of b) and `a = a` (nothing). -/
theorem translated_assign (p : Per) (ops : List Op) (v w fuel : Nat) (hv : v ≤ 1) (hw : w ≤ 1) (hne : w ≠ v)
    (hf : ((run (init p) ops).arrs v).size + ((run (init p) ops).arrs w).size < fuel) :
    (∃ st', stepRes (run (init p) ops) (.assign ⟨.A, v⟩ w) = .ok st' ∧
      LifeArray.assign fuel (rep (run (init p) ops)) v w = some (rep st', ())) ∧
    LifeArray.assign fuel (rep (run (init p) ops)) v v = some (rep (step (run (init p) ops) (.assign ⟨.A, v⟩ v)), ()) := by
  refine ⟨ArrTr.tr_assign (ArrTr.aok_reach p ops v hv) (ArrTr.aok_reach p ops w hw) hne fuel hf, ?_⟩
  have : step (run (init p) ops) (.assign ⟨.A, v⟩ v) = run (init p) ops := by
    simp [step, stepRes, compile, guard', hv, Kind.isPool, execAll]
  rw [this]
  simp [LifeArray.assign]

/-- C04 `translated_copy_constructor`: `Array a(b)` as the harness executes it for `copy`: the destructor of the old object
    (`translated_destructor`), then the copy constructor on the destroyed variable = the remaining micro steps of the model operation. -/
theorem translated_copy_constructor (p : Per) (ops : List Op) (v w fuel : Nat) (hv : v ≤ 1) (hw : w ≤ 1) (hne : w ≠ v) (st0 : State)
    (h0 : exec (run (init p) ops) (.aDestroy v) = some st0) (hf : ((run (init p) ops).arrs w).size < fuel) :
    ∃ st', execAll st0 ([.aCreate v 0, .aReserve v ((run (init p) ops).arrs w).cap] ++
        (List.range ((run (init p) ops).arrs w).size).map (fun j => .aPush v (.elem w j))) = some st' ∧
      LifeArray.copyCtor fuel (rep st0) v w = some (rep st', ()) := by
  have ha := (ArrTr.aok_reach p ops v hv).alive
  have hW := ArrTr.aok_reach p ops w hw
  have hst0 : st0.arrs v = {} ∧ st0.arrs w = (run (init p) ops).arrs w := by
    simp only [exec, Micro.valid, decide_eq_true hv, if_true, exec', ha, Bool.not_true, Bool.false_eq_true, if_false] at h0
    cases hs : ((run (init p) ops).arrs v).store <;> simp only [hs, Option.some.injEq] at h0 <;> subst h0 <;>
      simp [State.setArr, ArrTr.upd_same, ArrTr.upd_other _ _ _ _ hne, ArrTr.dtorRange_arrs]
  have hW0 : ArrTr.AOk st0 w :=
    ⟨hw, by rw [hst0.2]; exact hW.alive, by rw [hst0.2]; exact hW.size_le, by rw [hst0.2]; exact hW.none_zero⟩
  have := ArrTr.tr_copyCtor hv hst0.1 hW0 hne fuel (by rw [hst0.2]; exact hf)
  rw [hst0.2] at this
  exact this

/-- C04 `translated_append_range`: `a.append(&a[i], n)` with the range [i, i+n) inside the array, n > 0: the pointer is followed into
    the new storage and then walks through the elements i .. i+n-1 while the array grows. -/
theorem translated_append_range (p : Per) (ops : List Op) (v i n s fuel : Nat) (hv : v ≤ 1)
    (hs : ((run (init p) ops).arrs v).store = some s) (hin : i + n ≤ ((run (init p) ops).arrs v).size) (hn : 0 < n)
    (hf : ((run (init p) ops).arrs v).size + n < fuel) :
    ∃ st', stepRes (run (init p) ops) (.aAppendPtr v i n) = .ok st' ∧
      LifeArray.appendPtr fuel (rep (run (init p) ops)) v (.heap s i) n = some (rep st', ()) :=
  ArrTr.tr_appendPtr (ArrTr.aok_reach p ops v hv) i n fuel s hs hin hn hf

/-- C04 `translated_resize_own_element`: `a.resize(n, a[i])`, growing: n - size copies of the element i, read through the re-based pointer. -/
theorem translated_resize_own_element (p : Per) (ops : List Op) (v n i s fuel : Nat) (hv : v ≤ 1)
    (hs : ((run (init p) ops).arrs v).store = some s) (hi : i < ((run (init p) ops).arrs v).size)
    (hn : ((run (init p) ops).arrs v).size ≤ n) (hf : ((run (init p) ops).arrs v).size + n < fuel) :
    ∃ st', stepRes (run (init p) ops) (.aResizeRef v n i) = .ok st' ∧
      LifeArray.resize fuel (rep (run (init p) ops)) v n (.heap s i) = some (rep st', ()) :=
  ArrTr.tr_resize_own (ArrTr.aok_reach p ops v hv) n i fuel s hs hi hn hf

/-- non-vacuity: a reachable state with a full array (size 3 = capacity 3): the translated `append(a[0])` reallocates, copies the
    three elements into the new block, destroys the old ones, releases the old block and constructs the copy of the re-based
    element - the same 10 events as the model (evaluated by the kernel) -/
example : (LifeArray.append 10 (rep (run (init per4) [.aAppend 0 5, .aAppend 0 6, .aAppend 0 7])) 0 (.heap 0 0)).map (fun r => r.1.log.length) =
    some ((step (run (init per4) [.aAppend 0 5, .aAppend 0 6, .aAppend 0 7]) (.aAppendRef 0 0)).log.length) ∧
    ((run (init per4) [.aAppend 0 5, .aAppend 0 6, .aAppend 0 7]).arrs 0).store = some 0 := by decide +kernel

/- No OPEN statement: every member function of Array.hpp that creates, destroys or moves elements is translated and proved equal to
   the model (`a.append(&a[i], 0)` - an empty range - is the one argument shape outside `translated_append_range`; it constructs nothing). -/

end Nstd.Life
