import Nstd.Sha.Model
import Nstd.Sha.Spec
/-
  Bridges between the word/byte expressions of the C++ code (shifts, casts) and the
  arithmetic formulations of the spec; the generated constants are the constants of the standard.
-/
namespace Nstd.Sha
open Nstd.Generated

theorem genK_eq : Sha256.K = Spec.K := by decide +kernel
theorem genH0_eq : Sha256.H0 = Spec.H0 := by decide +kernel
theorem genCount0_eq : Sha256.count0 = 0 := by decide +kernel

/-! ### the checked write -/

theorem wr_eq_set {α : Type} (a : List α) (i : Nat) (v : α) (h : i < a.length) : Sha256.wr a i v = a.set i v := by
  simp [Sha256.wr, h]

theorem wr_length {α : Type} (a : List α) (i : Nat) (v : α) (h : i < a.length) : (Sha256.wr a i v).length = a.length := by
  rw [wr_eq_set a i v h, List.length_set]

theorem wr_mid {α : Type} (xs : List α) (y b : α) (ys : List α) :
    Sha256.wr (xs ++ y :: ys) xs.length b = (xs ++ [b]) ++ ys := by
  rw [wr_eq_set _ _ _ (by simp), List.set_append_right _ _ (Nat.le_refl _)]
  simp

theorem wr_cons_zero {α : Type} (x b : α) (xs : List α) : Sha256.wr (x :: xs) 0 b = b :: xs := by
  simp [Sha256.wr]

theorem inb_eq {α : Type} (a : List α) (i : Nat) (h : i < a.length) : Sha256.inb a i = true := by
  simp [Sha256.inb, h]

theorem data32ok_eq (buf : List UInt8) (h : buf.length = 64) : data32ok buf = true := by
  simp [data32ok, Sha256.inb, h, List.range, List.range.loop]

theorem beWord_eq (b0 b1 b2 b3 : UInt8) :
    (b0.toUInt32 <<< 24) + (b1.toUInt32 <<< 16) + (b2.toUInt32 <<< 8) + b3.toUInt32 = Spec.beWord b0 b1 b2 b3 := by
  apply UInt32.toNat_inj.mp
  have h0 := b0.toNat_lt; have h1 := b1.toNat_lt; have h2 := b2.toNat_lt; have h3 := b3.toNat_lt
  simp only [Spec.beWord, UInt32.toNat_add, UInt32.toNat_shiftLeft, UInt8.toNat_toUInt32, UInt32.toNat_ofNat, Nat.shiftLeft_eq]
  simp

theorem data32_eq (buf : List UInt8) : data32 buf = Spec.blockWords buf := by
  unfold data32 Spec.blockWords
  apply List.map_congr_left
  intro i _
  rw [beWord_eq, Nat.mul_comm i 4]

theorem data32_length (buf : List UInt8) : (data32 buf).length = 16 := by simp [data32]

theorem wordBytes_eq (w : UInt32) :
    [(w >>> 24).toUInt8, (w >>> 16).toUInt8, (w >>> 8).toUInt8, w.toUInt8] = Spec.wordBytes w := by
  have h := w.toNat_lt
  simp only [Spec.wordBytes, List.cons.injEq, and_true]
  refine ⟨?_, ?_, ?_, ?_⟩ <;> apply UInt8.toNat_inj.mp <;>
    simp [UInt32.toNat_toUInt8, UInt32.toNat_shiftRight, Nat.shiftRight_eq_div_pow] <;> omega

theorem digestOf_eq (s0 s1 s2 s3 s4 s5 s6 s7 : UInt32) :
    digestOf [s0, s1, s2, s3, s4, s5, s6, s7] = [s0, s1, s2, s3, s4, s5, s6, s7].flatMap Spec.wordBytes := by
  simp only [digestOf, List.range, List.range.loop, List.flatMap_cons, List.flatMap_nil, List.getD_cons_zero,
    List.getD_cons_succ, wordBytes_eq]

theorem bufferPos_eq (p : Sha) : bufferPos p = p.count.toNat % 64 := by
  unfold bufferPos
  rw [UInt32.toNat_and, UInt64.toNat_toUInt32]
  have : (0x3F : UInt32).toNat = 2 ^ 6 - 1 := by decide
  rw [this, Nat.and_two_pow_sub_one_eq_mod]
  omega

/-- the bytes written by the length loop of `finalize` -/
def lenBytes : Nat → UInt64 → List UInt8
  | 0, _ => []
  | n + 1, l => (l >>> 56).toUInt8 :: lenBytes n (l <<< 8)

theorem lenBytes_length (n : Nat) (l : UInt64) : (lenBytes n l).length = n := by
  induction n generalizing l with
  | zero => rfl
  | succ n ih => simp [lenBytes, ih]

theorem lenBytes_eq (c : UInt64) (h : c.toNat < 2 ^ 61) : lenBytes 8 (c <<< 3) = Spec.be64 (8 * c.toNat) := by
  simp only [lenBytes, Spec.be64, List.range, List.range.loop, List.map]
  simp only [List.cons.injEq, and_true]
  refine ⟨?_, ?_, ?_, ?_, ?_, ?_, ?_, ?_⟩ <;> apply UInt8.toNat_inj.mp <;>
    simp [UInt64.toNat_toUInt8, UInt64.toNat_shiftRight, UInt64.toNat_shiftLeft, Nat.shiftRight_eq_div_pow, Nat.shiftLeft_eq] <;> omega

/-- the same without a bound on `c`: `c <<< 3` keeps the low 64 bits of `8·c`, and so does `Spec.be64` -/
theorem lenBytes_eq_all (c : UInt64) : lenBytes 8 (c <<< 3) = Spec.be64 (8 * c.toNat) := by
  simp only [lenBytes, Spec.be64, List.range, List.range.loop, List.map]
  simp only [List.cons.injEq, and_true]
  refine ⟨?_, ?_, ?_, ?_, ?_, ?_, ?_, ?_⟩ <;> apply UInt8.toNat_inj.mp <;>
    simp [UInt64.toNat_toUInt8, UInt64.toNat_shiftRight, UInt64.toNat_shiftLeft, Nat.shiftRight_eq_div_pow, Nat.shiftLeft_eq] <;> omega

/-- only the low 64 bits of the bit length reach the length field: the byte count modulo 2^64 gives the same field -/
theorem be64_wrap (n : Nat) : Spec.be64 (8 * (n % 2 ^ 64)) = Spec.be64 (8 * n) := by
  simp only [Spec.be64, List.map_inj_left, List.mem_range]
  intro k hk
  congr 1
  have hcases : 7 - k = 0 ∨ 7 - k = 1 ∨ 7 - k = 2 ∨ 7 - k = 3 ∨ 7 - k = 4 ∨ 7 - k = 5 ∨ 7 - k = 6 ∨ 7 - k = 7 := by omega
  rcases hcases with h | h | h | h | h | h | h | h <;> rw [h] <;> omega

end Nstd.Sha
