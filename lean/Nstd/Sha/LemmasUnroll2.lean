import Nstd.Sha.LemmasTransform
import Nstd.Generated.Sha256U2
/-
  The `_SHA256_UNROLL2` build configuration of `Sha256::Private::Transform` (generated into
  `Nstd/Generated/Sha256U2.lean` from the current sources compiled with `-D_SHA256_UNROLL2`): eight scalar
  registers `a..h` instead of the array `T`, the nine-parameter macro `R(a,b,c,d,e,f,g,h,i)` whose
  arguments are permuted from round to round, `RX_8(0); RX_8(8);` instead of the `i` loop.
  Proved here: it computes the FIPS 180-4 compression function, hence the same as the rolled form.
-/
namespace Nstd.Sha
open Nstd.Generated
set_option linter.unusedSimpArgs false

/-- the window part of an UNROLL2 state as a state of the rolled configuration (`T` plays no role there) -/
def toRS (s : Sha256U2.RS) : Sha256.RS := ⟨[], s.W, s.state, s.ok⟩

/-- `(j ? blk2(i) : blk0(i))` of the UNROLL2 configuration -/
def blkU2 (data : List UInt32) (j i : UInt32) (s : Sha256U2.RS) : Sha256U2.RS × UInt32 :=
  if j ≠ 0 then Sha256U2.blk2 i s else Sha256U2.blk0 data i s

/-- `blk0`/`blk2` are the same text in both configurations: same window, flag and value; nothing else changes -/
theorem blkU2_eq (data : List UInt32) (j i : UInt32) (s : Sha256U2.RS) :
    (blkU2 data j i s).1.W = (blk data j i (toRS s)).1.W ∧ (blkU2 data j i s).1.ok = (blk data j i (toRS s)).1.ok ∧
    (blkU2 data j i s).2 = (blk data j i (toRS s)).2 ∧ (blkU2 data j i s).1.state = s.state ∧
    (blkU2 data j i s).1.a = s.a ∧ (blkU2 data j i s).1.b = s.b ∧ (blkU2 data j i s).1.c = s.c ∧
    (blkU2 data j i s).1.d = s.d ∧ (blkU2 data j i s).1.e = s.e ∧ (blkU2 data j i s).1.f = s.f ∧
    (blkU2 data j i s).1.g = s.g ∧ (blkU2 data j i s).1.h = s.h := by
  unfold blkU2 blk
  by_cases h : j ≠ 0
  · simp only [if_pos h]; exact ⟨rfl, rfl, rfl, rfl, rfl, rfl, rfl, rfl, rfl, rfl, rfl, rfl⟩
  · simp only [if_neg h]; exact ⟨rfl, rfl, rfl, rfl, rfl, rfl, rfl, rfl, rfl, rfl, rfl, rfl⟩

theorem u2K_eq : Sha256U2.K = Spec.K := by decide +kernel
theorem u2S0 (x : UInt32) : Sha256U2.S0 x = Spec.bigSigma0 x := by
  first | rfl | exact (show Sha256U2.S0 x = Sha256.S0 x from rfl).trans (S0_eq x)
theorem u2S1 (x : UInt32) : Sha256U2.S1 x = Spec.bigSigma1 x := by
  first | rfl | exact (show Sha256U2.S1 x = Sha256.S1 x from rfl).trans (S1_eq x)
theorem u2Ch (x y z : UInt32) : Sha256U2.Ch x y z = Spec.Ch x y z :=
  (show Sha256U2.Ch x y z = Sha256.Ch x y z from rfl).trans (Ch_eq x y z)
theorem u2Maj (x y z : UInt32) : Sha256U2.Maj x y z = Spec.Maj x y z :=
  (show Sha256U2.Maj x y z = Sha256.Maj x y z from rfl).trans (Maj_eq x y z)
theorem u2inb_eq {α : Type} (a : List α) (i : Nat) (h : i < a.length) : Sha256U2.inb a i = true := by
  simp [Sha256U2.inb, h]

/-- one macro call `R(x0,…,x7, i)` on the scalar registers: the window step of `blk`, and the two assigned
parameters (`d`, `h`) receive the registers `e`, `a` of one FIPS round on `⟨x0,…,x7⟩` -/
theorem R_u2_step (kk data : List UInt32) (j i : UInt32) (x0 x1 x2 x3 x4 x5 x6 x7 : UInt32) (s : Sha256U2.RS)
    (hk : (i + j).toNat < kk.length) :
    (Sha256U2.R kk data j x0 x1 x2 x3 x4 x5 x6 x7 i s).1.W = (blkU2 data j i s).1.W ∧
    (Sha256U2.R kk data j x0 x1 x2 x3 x4 x5 x6 x7 i s).1.ok = (blkU2 data j i s).1.ok ∧
    (Sha256U2.R kk data j x0 x1 x2 x3 x4 x5 x6 x7 i s).1.state = (blkU2 data j i s).1.state ∧
    (Sha256U2.R kk data j x0 x1 x2 x3 x4 x5 x6 x7 i s).1.a = (blkU2 data j i s).1.a ∧
    (Sha256U2.R kk data j x0 x1 x2 x3 x4 x5 x6 x7 i s).1.b = (blkU2 data j i s).1.b ∧
    (Sha256U2.R kk data j x0 x1 x2 x3 x4 x5 x6 x7 i s).1.c = (blkU2 data j i s).1.c ∧
    (Sha256U2.R kk data j x0 x1 x2 x3 x4 x5 x6 x7 i s).1.d = (blkU2 data j i s).1.d ∧
    (Sha256U2.R kk data j x0 x1 x2 x3 x4 x5 x6 x7 i s).1.e = (blkU2 data j i s).1.e ∧
    (Sha256U2.R kk data j x0 x1 x2 x3 x4 x5 x6 x7 i s).1.f = (blkU2 data j i s).1.f ∧
    (Sha256U2.R kk data j x0 x1 x2 x3 x4 x5 x6 x7 i s).1.g = (blkU2 data j i s).1.g ∧
    (Sha256U2.R kk data j x0 x1 x2 x3 x4 x5 x6 x7 i s).1.h = (blkU2 data j i s).1.h ∧
    (Sha256U2.R kk data j x0 x1 x2 x3 x4 x5 x6 x7 i s).2.1 =
      (Spec.round ⟨x0, x1, x2, x3, x4, x5, x6, x7⟩ (kk.getD (i + j).toNat 0) (blkU2 data j i s).2).e ∧
    (Sha256U2.R kk data j x0 x1 x2 x3 x4 x5 x6 x7 i s).2.2 =
      (Spec.round ⟨x0, x1, x2, x3, x4, x5, x6, x7⟩ (kk.getD (i + j).toNat 0) (blkU2 data j i s).2).a := by
  have hb : (if j ≠ 0 then Sha256U2.blk2 i s else Sha256U2.blk0 data i s) = blkU2 data j i s := rfl
  simp only [Sha256U2.R, hb, u2inb_eq kk _ hk, Bool.and_true, Spec.round, u2S0, u2S1, u2Ch, u2Maj]
  generalize kk.getD (i + j).toNat 0 = kt
  generalize blkU2 data j i s = bw
  refine ⟨trivial, trivial, trivial, trivial, trivial, trivial, trivial, trivial, trivial, trivial, trivial, ?_, ?_⟩ <;> ac_rfl

/-- one macro call, as a step of the loop invariant (window part `WInv`, registers = FIPS rounds) -/
theorem R_u2_inv (data : List UInt32) (hd : data.length = 16) (r0 : Spec.Regs) (j i0 : Nat) (hj : j % 16 = 0) (hj64 : j < 64)
    (hi : i0 < 16) (i : UInt32) (hiu : i = UInt32.ofNat i0) (x0 x1 x2 x3 x4 x5 x6 x7 : UInt32) (s : Sha256U2.RS)
    (hW : WInv data (j + i0) s.W s.ok)
    (hr : (⟨x0, x1, x2, x3, x4, x5, x6, x7⟩ : Spec.Regs) = Spec.rounds (Spec.schedule data) (j + i0) r0) :
    WInv data (j + i0 + 1) (Sha256U2.R Sha256U2.K data (UInt32.ofNat j) x0 x1 x2 x3 x4 x5 x6 x7 i s).1.W
      (Sha256U2.R Sha256U2.K data (UInt32.ofNat j) x0 x1 x2 x3 x4 x5 x6 x7 i s).1.ok ∧
    (⟨(Sha256U2.R Sha256U2.K data (UInt32.ofNat j) x0 x1 x2 x3 x4 x5 x6 x7 i s).2.2, x0, x1, x2,
      (Sha256U2.R Sha256U2.K data (UInt32.ofNat j) x0 x1 x2 x3 x4 x5 x6 x7 i s).2.1, x4, x5, x6⟩ : Spec.Regs) =
      Spec.rounds (Spec.schedule data) (j + i0 + 1) r0 ∧
    (Sha256U2.R Sha256U2.K data (UInt32.ofNat j) x0 x1 x2 x3 x4 x5 x6 x7 i s).1.state = s.state ∧
    (Sha256U2.R Sha256U2.K data (UInt32.ofNat j) x0 x1 x2 x3 x4 x5 x6 x7 i s).1.a = s.a ∧
    (Sha256U2.R Sha256U2.K data (UInt32.ofNat j) x0 x1 x2 x3 x4 x5 x6 x7 i s).1.b = s.b ∧
    (Sha256U2.R Sha256U2.K data (UInt32.ofNat j) x0 x1 x2 x3 x4 x5 x6 x7 i s).1.c = s.c ∧
    (Sha256U2.R Sha256U2.K data (UInt32.ofNat j) x0 x1 x2 x3 x4 x5 x6 x7 i s).1.d = s.d ∧
    (Sha256U2.R Sha256U2.K data (UInt32.ofNat j) x0 x1 x2 x3 x4 x5 x6 x7 i s).1.e = s.e ∧
    (Sha256U2.R Sha256U2.K data (UInt32.ofNat j) x0 x1 x2 x3 x4 x5 x6 x7 i s).1.f = s.f ∧
    (Sha256U2.R Sha256U2.K data (UInt32.ofNat j) x0 x1 x2 x3 x4 x5 x6 x7 i s).1.g = s.g ∧
    (Sha256U2.R Sha256U2.K data (UInt32.ofNat j) x0 x1 x2 x3 x4 x5 x6 x7 i s).1.h = s.h := by
  subst hiu
  have hk : (UInt32.ofNat i0 + UInt32.ofNat j).toNat < Sha256U2.K.length := by
    rw [idxK j hj64 i0 hi, show Sha256U2.K.length = 64 from by decide]; omega
  obtain ⟨s1, s2, s3, sa, sb, sc, sd, se, sf, sg, sh, sD, sH⟩ :=
    R_u2_step Sha256U2.K data (UInt32.ofNat j) (UInt32.ofNat i0) x0 x1 x2 x3 x4 x5 x6 x7 s hk
  obtain ⟨b1, b2, b3, b4, ba, bb, bc, bd, be, bf, bg, bh⟩ := blkU2_eq data (UInt32.ofNat j) (UInt32.ofNat i0) s
  obtain ⟨hv, hWl, hok, hwin⟩ := blk_spec data hd j i0 hj hj64 hi (toRS s) hW
  refine ⟨⟨by rw [s1, b1]; exact hWl, by rw [s2, b2]; exact hok, fun u hu1 hu2 => by rw [s1, b1]; exact hwin u hu1 hu2⟩, ?_,
    by rw [s3, b4], by rw [sa, ba], by rw [sb, bb], by rw [sc, bc], by rw [sd, bd], by rw [se, be], by rw [sf, bf],
    by rw [sg, bg], by rw [sh, bh]⟩
  rw [sD, sH, b3, hv, idxK j hj64 i0 hi, u2K_eq, rounds_succ, ← hr, Nat.add_comm i0 j]
  rfl

/-- statement 1 of `RX_8`: `R(a,b,c,d,e,f,g,h, i)` and the copy-back of the two assigned arguments -/
theorem rx0_inv (data : List UInt32) (hd : data.length = 16) (r0 : Spec.Regs) (j i0 : Nat) (hj : j % 16 = 0) (hj64 : j < 64)
    (hi : i0 < 16) (i : UInt32) (hiu : i = UInt32.ofNat i0) (s : Sha256U2.RS) (S : List UInt32)
    (h : WInv data (j + i0) s.W s.ok ∧
      (⟨s.a, s.b, s.c, s.d, s.e, s.f, s.g, s.h⟩ : Spec.Regs) = Spec.rounds (Spec.schedule data) (j + i0) r0 ∧ s.state = S) :
    WInv data (j + i0 + 1) (Sha256U2.RX_8_1 Sha256U2.K data (UInt32.ofNat j) i s).W (Sha256U2.RX_8_1 Sha256U2.K data (UInt32.ofNat j) i s).ok ∧
      (⟨(Sha256U2.RX_8_1 Sha256U2.K data (UInt32.ofNat j) i s).h, (Sha256U2.RX_8_1 Sha256U2.K data (UInt32.ofNat j) i s).a, (Sha256U2.RX_8_1 Sha256U2.K data (UInt32.ofNat j) i s).b, (Sha256U2.RX_8_1 Sha256U2.K data (UInt32.ofNat j) i s).c, (Sha256U2.RX_8_1 Sha256U2.K data (UInt32.ofNat j) i s).d, (Sha256U2.RX_8_1 Sha256U2.K data (UInt32.ofNat j) i s).e, (Sha256U2.RX_8_1 Sha256U2.K data (UInt32.ofNat j) i s).f, (Sha256U2.RX_8_1 Sha256U2.K data (UInt32.ofNat j) i s).g⟩ : Spec.Regs) = Spec.rounds (Spec.schedule data) (j + i0 + 1) r0 ∧
      (Sha256U2.RX_8_1 Sha256U2.K data (UInt32.ofNat j) i s).state = S := by
  obtain ⟨hW, hr, hS⟩ := h
  obtain ⟨h1, h2, h3, ha, hb, hc, hd', he, hf, hg, hh⟩ :=
    R_u2_inv data hd r0 j i0 hj hj64 hi i hiu s.a s.b s.c s.d s.e s.f s.g s.h s hW hr
  refine ⟨h1, ?_, by simp only [Sha256U2.RX_8_1, h3, hS]⟩
  rw [← h2]
  simp only [Sha256U2.RX_8_1, ha, hb, hc, hd', he, hf, hg, hh]

/-- statement 2 of `RX_8`: `R(h,a,b,c,d,e,f,g, i+1)` and the copy-back of the two assigned arguments -/
theorem rx1_inv (data : List UInt32) (hd : data.length = 16) (r0 : Spec.Regs) (j i0 : Nat) (hj : j % 16 = 0) (hj64 : j < 64)
    (hi : i0 < 16) (i : UInt32) (hiu : (i + 1) = UInt32.ofNat i0) (s : Sha256U2.RS) (S : List UInt32)
    (h : WInv data (j + i0) s.W s.ok ∧
      (⟨s.h, s.a, s.b, s.c, s.d, s.e, s.f, s.g⟩ : Spec.Regs) = Spec.rounds (Spec.schedule data) (j + i0) r0 ∧ s.state = S) :
    WInv data (j + i0 + 1) (Sha256U2.RX_8_2 Sha256U2.K data (UInt32.ofNat j) i s).W (Sha256U2.RX_8_2 Sha256U2.K data (UInt32.ofNat j) i s).ok ∧
      (⟨(Sha256U2.RX_8_2 Sha256U2.K data (UInt32.ofNat j) i s).g, (Sha256U2.RX_8_2 Sha256U2.K data (UInt32.ofNat j) i s).h, (Sha256U2.RX_8_2 Sha256U2.K data (UInt32.ofNat j) i s).a, (Sha256U2.RX_8_2 Sha256U2.K data (UInt32.ofNat j) i s).b, (Sha256U2.RX_8_2 Sha256U2.K data (UInt32.ofNat j) i s).c, (Sha256U2.RX_8_2 Sha256U2.K data (UInt32.ofNat j) i s).d, (Sha256U2.RX_8_2 Sha256U2.K data (UInt32.ofNat j) i s).e, (Sha256U2.RX_8_2 Sha256U2.K data (UInt32.ofNat j) i s).f⟩ : Spec.Regs) = Spec.rounds (Spec.schedule data) (j + i0 + 1) r0 ∧
      (Sha256U2.RX_8_2 Sha256U2.K data (UInt32.ofNat j) i s).state = S := by
  obtain ⟨hW, hr, hS⟩ := h
  obtain ⟨h1, h2, h3, ha, hb, hc, hd', he, hf, hg, hh⟩ :=
    R_u2_inv data hd r0 j i0 hj hj64 hi (i + 1) hiu s.h s.a s.b s.c s.d s.e s.f s.g s hW hr
  refine ⟨h1, ?_, by simp only [Sha256U2.RX_8_2, h3, hS]⟩
  rw [← h2]
  simp only [Sha256U2.RX_8_2, ha, hb, hc, hd', he, hf, hg, hh]

/-- statement 3 of `RX_8`: `R(g,h,a,b,c,d,e,f, i+2)` and the copy-back of the two assigned arguments -/
theorem rx2_inv (data : List UInt32) (hd : data.length = 16) (r0 : Spec.Regs) (j i0 : Nat) (hj : j % 16 = 0) (hj64 : j < 64)
    (hi : i0 < 16) (i : UInt32) (hiu : (i + 2) = UInt32.ofNat i0) (s : Sha256U2.RS) (S : List UInt32)
    (h : WInv data (j + i0) s.W s.ok ∧
      (⟨s.g, s.h, s.a, s.b, s.c, s.d, s.e, s.f⟩ : Spec.Regs) = Spec.rounds (Spec.schedule data) (j + i0) r0 ∧ s.state = S) :
    WInv data (j + i0 + 1) (Sha256U2.RX_8_3 Sha256U2.K data (UInt32.ofNat j) i s).W (Sha256U2.RX_8_3 Sha256U2.K data (UInt32.ofNat j) i s).ok ∧
      (⟨(Sha256U2.RX_8_3 Sha256U2.K data (UInt32.ofNat j) i s).f, (Sha256U2.RX_8_3 Sha256U2.K data (UInt32.ofNat j) i s).g, (Sha256U2.RX_8_3 Sha256U2.K data (UInt32.ofNat j) i s).h, (Sha256U2.RX_8_3 Sha256U2.K data (UInt32.ofNat j) i s).a, (Sha256U2.RX_8_3 Sha256U2.K data (UInt32.ofNat j) i s).b, (Sha256U2.RX_8_3 Sha256U2.K data (UInt32.ofNat j) i s).c, (Sha256U2.RX_8_3 Sha256U2.K data (UInt32.ofNat j) i s).d, (Sha256U2.RX_8_3 Sha256U2.K data (UInt32.ofNat j) i s).e⟩ : Spec.Regs) = Spec.rounds (Spec.schedule data) (j + i0 + 1) r0 ∧
      (Sha256U2.RX_8_3 Sha256U2.K data (UInt32.ofNat j) i s).state = S := by
  obtain ⟨hW, hr, hS⟩ := h
  obtain ⟨h1, h2, h3, ha, hb, hc, hd', he, hf, hg, hh⟩ :=
    R_u2_inv data hd r0 j i0 hj hj64 hi (i + 2) hiu s.g s.h s.a s.b s.c s.d s.e s.f s hW hr
  refine ⟨h1, ?_, by simp only [Sha256U2.RX_8_3, h3, hS]⟩
  rw [← h2]
  simp only [Sha256U2.RX_8_3, ha, hb, hc, hd', he, hf, hg, hh]

/-- statement 4 of `RX_8`: `R(f,g,h,a,b,c,d,e, i+3)` and the copy-back of the two assigned arguments -/
theorem rx3_inv (data : List UInt32) (hd : data.length = 16) (r0 : Spec.Regs) (j i0 : Nat) (hj : j % 16 = 0) (hj64 : j < 64)
    (hi : i0 < 16) (i : UInt32) (hiu : (i + 3) = UInt32.ofNat i0) (s : Sha256U2.RS) (S : List UInt32)
    (h : WInv data (j + i0) s.W s.ok ∧
      (⟨s.f, s.g, s.h, s.a, s.b, s.c, s.d, s.e⟩ : Spec.Regs) = Spec.rounds (Spec.schedule data) (j + i0) r0 ∧ s.state = S) :
    WInv data (j + i0 + 1) (Sha256U2.RX_8_4 Sha256U2.K data (UInt32.ofNat j) i s).W (Sha256U2.RX_8_4 Sha256U2.K data (UInt32.ofNat j) i s).ok ∧
      (⟨(Sha256U2.RX_8_4 Sha256U2.K data (UInt32.ofNat j) i s).e, (Sha256U2.RX_8_4 Sha256U2.K data (UInt32.ofNat j) i s).f, (Sha256U2.RX_8_4 Sha256U2.K data (UInt32.ofNat j) i s).g, (Sha256U2.RX_8_4 Sha256U2.K data (UInt32.ofNat j) i s).h, (Sha256U2.RX_8_4 Sha256U2.K data (UInt32.ofNat j) i s).a, (Sha256U2.RX_8_4 Sha256U2.K data (UInt32.ofNat j) i s).b, (Sha256U2.RX_8_4 Sha256U2.K data (UInt32.ofNat j) i s).c, (Sha256U2.RX_8_4 Sha256U2.K data (UInt32.ofNat j) i s).d⟩ : Spec.Regs) = Spec.rounds (Spec.schedule data) (j + i0 + 1) r0 ∧
      (Sha256U2.RX_8_4 Sha256U2.K data (UInt32.ofNat j) i s).state = S := by
  obtain ⟨hW, hr, hS⟩ := h
  obtain ⟨h1, h2, h3, ha, hb, hc, hd', he, hf, hg, hh⟩ :=
    R_u2_inv data hd r0 j i0 hj hj64 hi (i + 3) hiu s.f s.g s.h s.a s.b s.c s.d s.e s hW hr
  refine ⟨h1, ?_, by simp only [Sha256U2.RX_8_4, h3, hS]⟩
  rw [← h2]
  simp only [Sha256U2.RX_8_4, ha, hb, hc, hd', he, hf, hg, hh]

/-- statement 5 of `RX_8`: `R(e,f,g,h,a,b,c,d, i+4)` and the copy-back of the two assigned arguments -/
theorem rx4_inv (data : List UInt32) (hd : data.length = 16) (r0 : Spec.Regs) (j i0 : Nat) (hj : j % 16 = 0) (hj64 : j < 64)
    (hi : i0 < 16) (i : UInt32) (hiu : (i + 4) = UInt32.ofNat i0) (s : Sha256U2.RS) (S : List UInt32)
    (h : WInv data (j + i0) s.W s.ok ∧
      (⟨s.e, s.f, s.g, s.h, s.a, s.b, s.c, s.d⟩ : Spec.Regs) = Spec.rounds (Spec.schedule data) (j + i0) r0 ∧ s.state = S) :
    WInv data (j + i0 + 1) (Sha256U2.RX_8_5 Sha256U2.K data (UInt32.ofNat j) i s).W (Sha256U2.RX_8_5 Sha256U2.K data (UInt32.ofNat j) i s).ok ∧
      (⟨(Sha256U2.RX_8_5 Sha256U2.K data (UInt32.ofNat j) i s).d, (Sha256U2.RX_8_5 Sha256U2.K data (UInt32.ofNat j) i s).e, (Sha256U2.RX_8_5 Sha256U2.K data (UInt32.ofNat j) i s).f, (Sha256U2.RX_8_5 Sha256U2.K data (UInt32.ofNat j) i s).g, (Sha256U2.RX_8_5 Sha256U2.K data (UInt32.ofNat j) i s).h, (Sha256U2.RX_8_5 Sha256U2.K data (UInt32.ofNat j) i s).a, (Sha256U2.RX_8_5 Sha256U2.K data (UInt32.ofNat j) i s).b, (Sha256U2.RX_8_5 Sha256U2.K data (UInt32.ofNat j) i s).c⟩ : Spec.Regs) = Spec.rounds (Spec.schedule data) (j + i0 + 1) r0 ∧
      (Sha256U2.RX_8_5 Sha256U2.K data (UInt32.ofNat j) i s).state = S := by
  obtain ⟨hW, hr, hS⟩ := h
  obtain ⟨h1, h2, h3, ha, hb, hc, hd', he, hf, hg, hh⟩ :=
    R_u2_inv data hd r0 j i0 hj hj64 hi (i + 4) hiu s.e s.f s.g s.h s.a s.b s.c s.d s hW hr
  refine ⟨h1, ?_, by simp only [Sha256U2.RX_8_5, h3, hS]⟩
  rw [← h2]
  simp only [Sha256U2.RX_8_5, ha, hb, hc, hd', he, hf, hg, hh]

/-- statement 6 of `RX_8`: `R(d,e,f,g,h,a,b,c, i+5)` and the copy-back of the two assigned arguments -/
theorem rx5_inv (data : List UInt32) (hd : data.length = 16) (r0 : Spec.Regs) (j i0 : Nat) (hj : j % 16 = 0) (hj64 : j < 64)
    (hi : i0 < 16) (i : UInt32) (hiu : (i + 5) = UInt32.ofNat i0) (s : Sha256U2.RS) (S : List UInt32)
    (h : WInv data (j + i0) s.W s.ok ∧
      (⟨s.d, s.e, s.f, s.g, s.h, s.a, s.b, s.c⟩ : Spec.Regs) = Spec.rounds (Spec.schedule data) (j + i0) r0 ∧ s.state = S) :
    WInv data (j + i0 + 1) (Sha256U2.RX_8_6 Sha256U2.K data (UInt32.ofNat j) i s).W (Sha256U2.RX_8_6 Sha256U2.K data (UInt32.ofNat j) i s).ok ∧
      (⟨(Sha256U2.RX_8_6 Sha256U2.K data (UInt32.ofNat j) i s).c, (Sha256U2.RX_8_6 Sha256U2.K data (UInt32.ofNat j) i s).d, (Sha256U2.RX_8_6 Sha256U2.K data (UInt32.ofNat j) i s).e, (Sha256U2.RX_8_6 Sha256U2.K data (UInt32.ofNat j) i s).f, (Sha256U2.RX_8_6 Sha256U2.K data (UInt32.ofNat j) i s).g, (Sha256U2.RX_8_6 Sha256U2.K data (UInt32.ofNat j) i s).h, (Sha256U2.RX_8_6 Sha256U2.K data (UInt32.ofNat j) i s).a, (Sha256U2.RX_8_6 Sha256U2.K data (UInt32.ofNat j) i s).b⟩ : Spec.Regs) = Spec.rounds (Spec.schedule data) (j + i0 + 1) r0 ∧
      (Sha256U2.RX_8_6 Sha256U2.K data (UInt32.ofNat j) i s).state = S := by
  obtain ⟨hW, hr, hS⟩ := h
  obtain ⟨h1, h2, h3, ha, hb, hc, hd', he, hf, hg, hh⟩ :=
    R_u2_inv data hd r0 j i0 hj hj64 hi (i + 5) hiu s.d s.e s.f s.g s.h s.a s.b s.c s hW hr
  refine ⟨h1, ?_, by simp only [Sha256U2.RX_8_6, h3, hS]⟩
  rw [← h2]
  simp only [Sha256U2.RX_8_6, ha, hb, hc, hd', he, hf, hg, hh]

/-- statement 7 of `RX_8`: `R(c,d,e,f,g,h,a,b, i+6)` and the copy-back of the two assigned arguments -/
theorem rx6_inv (data : List UInt32) (hd : data.length = 16) (r0 : Spec.Regs) (j i0 : Nat) (hj : j % 16 = 0) (hj64 : j < 64)
    (hi : i0 < 16) (i : UInt32) (hiu : (i + 6) = UInt32.ofNat i0) (s : Sha256U2.RS) (S : List UInt32)
    (h : WInv data (j + i0) s.W s.ok ∧
      (⟨s.c, s.d, s.e, s.f, s.g, s.h, s.a, s.b⟩ : Spec.Regs) = Spec.rounds (Spec.schedule data) (j + i0) r0 ∧ s.state = S) :
    WInv data (j + i0 + 1) (Sha256U2.RX_8_7 Sha256U2.K data (UInt32.ofNat j) i s).W (Sha256U2.RX_8_7 Sha256U2.K data (UInt32.ofNat j) i s).ok ∧
      (⟨(Sha256U2.RX_8_7 Sha256U2.K data (UInt32.ofNat j) i s).b, (Sha256U2.RX_8_7 Sha256U2.K data (UInt32.ofNat j) i s).c, (Sha256U2.RX_8_7 Sha256U2.K data (UInt32.ofNat j) i s).d, (Sha256U2.RX_8_7 Sha256U2.K data (UInt32.ofNat j) i s).e, (Sha256U2.RX_8_7 Sha256U2.K data (UInt32.ofNat j) i s).f, (Sha256U2.RX_8_7 Sha256U2.K data (UInt32.ofNat j) i s).g, (Sha256U2.RX_8_7 Sha256U2.K data (UInt32.ofNat j) i s).h, (Sha256U2.RX_8_7 Sha256U2.K data (UInt32.ofNat j) i s).a⟩ : Spec.Regs) = Spec.rounds (Spec.schedule data) (j + i0 + 1) r0 ∧
      (Sha256U2.RX_8_7 Sha256U2.K data (UInt32.ofNat j) i s).state = S := by
  obtain ⟨hW, hr, hS⟩ := h
  obtain ⟨h1, h2, h3, ha, hb, hc, hd', he, hf, hg, hh⟩ :=
    R_u2_inv data hd r0 j i0 hj hj64 hi (i + 6) hiu s.c s.d s.e s.f s.g s.h s.a s.b s hW hr
  refine ⟨h1, ?_, by simp only [Sha256U2.RX_8_7, h3, hS]⟩
  rw [← h2]
  simp only [Sha256U2.RX_8_7, ha, hb, hc, hd', he, hf, hg, hh]

/-- statement 8 of `RX_8`: `R(b,c,d,e,f,g,h,a, i+7)` and the copy-back of the two assigned arguments -/
theorem rx7_inv (data : List UInt32) (hd : data.length = 16) (r0 : Spec.Regs) (j i0 : Nat) (hj : j % 16 = 0) (hj64 : j < 64)
    (hi : i0 < 16) (i : UInt32) (hiu : (i + 7) = UInt32.ofNat i0) (s : Sha256U2.RS) (S : List UInt32)
    (h : WInv data (j + i0) s.W s.ok ∧
      (⟨s.b, s.c, s.d, s.e, s.f, s.g, s.h, s.a⟩ : Spec.Regs) = Spec.rounds (Spec.schedule data) (j + i0) r0 ∧ s.state = S) :
    WInv data (j + i0 + 1) (Sha256U2.RX_8_8 Sha256U2.K data (UInt32.ofNat j) i s).W (Sha256U2.RX_8_8 Sha256U2.K data (UInt32.ofNat j) i s).ok ∧
      (⟨(Sha256U2.RX_8_8 Sha256U2.K data (UInt32.ofNat j) i s).a, (Sha256U2.RX_8_8 Sha256U2.K data (UInt32.ofNat j) i s).b, (Sha256U2.RX_8_8 Sha256U2.K data (UInt32.ofNat j) i s).c, (Sha256U2.RX_8_8 Sha256U2.K data (UInt32.ofNat j) i s).d, (Sha256U2.RX_8_8 Sha256U2.K data (UInt32.ofNat j) i s).e, (Sha256U2.RX_8_8 Sha256U2.K data (UInt32.ofNat j) i s).f, (Sha256U2.RX_8_8 Sha256U2.K data (UInt32.ofNat j) i s).g, (Sha256U2.RX_8_8 Sha256U2.K data (UInt32.ofNat j) i s).h⟩ : Spec.Regs) = Spec.rounds (Spec.schedule data) (j + i0 + 1) r0 ∧
      (Sha256U2.RX_8_8 Sha256U2.K data (UInt32.ofNat j) i s).state = S := by
  obtain ⟨hW, hr, hS⟩ := h
  obtain ⟨h1, h2, h3, ha, hb, hc, hd', he, hf, hg, hh⟩ :=
    R_u2_inv data hd r0 j i0 hj hj64 hi (i + 7) hiu s.b s.c s.d s.e s.f s.g s.h s.a s hW hr
  refine ⟨h1, ?_, by simp only [Sha256U2.RX_8_8, h3, hS]⟩
  rw [← h2]
  simp only [Sha256U2.RX_8_8, ha, hb, hc, hd', he, hf, hg, hh]

/-- invariant between two `RX_8` calls: `n` rounds done, registers in their home variables -/
def UInv (data : List UInt32) (r0 : Spec.Regs) (n : Nat) (S : List UInt32) (s : Sha256U2.RS) : Prop :=
  WInv data n s.W s.ok ∧
    (⟨s.a, s.b, s.c, s.d, s.e, s.f, s.g, s.h⟩ : Spec.Regs) = Spec.rounds (Spec.schedule data) n r0 ∧ s.state = S

theorem RX8_inv (data : List UInt32) (hd : data.length = 16) (r0 : Spec.Regs) (j i0 : Nat) (hj : j % 16 = 0) (hj64 : j < 64)
    (hi : i0 = 0 ∨ i0 = 8) (i : UInt32) (hiu : i = UInt32.ofNat i0) (s : Sha256U2.RS) (S : List UInt32)
    (h : UInv data r0 (j + i0) S s) :
    UInv data r0 (j + i0 + 8) S (Sha256U2.RX_8 Sha256U2.K data (UInt32.ofNat j) i s) := by
  subst hiu
  have e0 := rx0_inv data hd r0 j i0 hj hj64 (by omega) _ rfl s S h
  have e1 := rx1_inv data hd r0 j (i0 + 1) hj hj64 (by omega) (UInt32.ofNat i0)
    (by rcases hi with rfl | rfl <;> decide) _ S e0
  have e2 := rx2_inv data hd r0 j (i0 + 1 + 1) hj hj64 (by omega) (UInt32.ofNat i0)
    (by rcases hi with rfl | rfl <;> decide) _ S e1
  have e3 := rx3_inv data hd r0 j (i0 + 1 + 1 + 1) hj hj64 (by omega) (UInt32.ofNat i0)
    (by rcases hi with rfl | rfl <;> decide) _ S e2
  have e4 := rx4_inv data hd r0 j (i0 + 1 + 1 + 1 + 1) hj hj64 (by omega) (UInt32.ofNat i0)
    (by rcases hi with rfl | rfl <;> decide) _ S e3
  have e5 := rx5_inv data hd r0 j (i0 + 1 + 1 + 1 + 1 + 1) hj hj64 (by omega) (UInt32.ofNat i0)
    (by rcases hi with rfl | rfl <;> decide) _ S e4
  have e6 := rx6_inv data hd r0 j (i0 + 1 + 1 + 1 + 1 + 1 + 1) hj hj64 (by omega) (UInt32.ofNat i0)
    (by rcases hi with rfl | rfl <;> decide) _ S e5
  have e7 := rx7_inv data hd r0 j (i0 + 1 + 1 + 1 + 1 + 1 + 1 + 1) hj hj64 (by omega) (UInt32.ofNat i0)
    (by rcases hi with rfl | rfl <;> decide) _ S e6
  exact e7

/-- body of `for (j = 0; j < 64; j += 16) { RX_8(0); RX_8(8); }` -/
theorem body_u2_inv (data : List UInt32) (hd : data.length = 16) (r0 : Spec.Regs) (j : Nat) (hj : j % 16 = 0) (hj64 : j < 64)
    (s : Sha256U2.RS) (S : List UInt32) (h : UInv data r0 j S s) :
    UInv data r0 (j + 16) S (Sha256U2.Transform_for1_body data j s) := by
  have e0 := RX8_inv data hd r0 j 0 hj hj64 (Or.inl rfl) 0 (by decide) s S h
  have e1 := RX8_inv data hd r0 j 8 hj hj64 (Or.inr rfl) 8 (by decide) _ S e0
  exact e1

theorem for1_u2_eq (data : List UInt32) (s : Sha256U2.RS) :
    Sha256U2.Transform_for1 data 0 s =
      Sha256U2.Transform_for1_body data 48 (Sha256U2.Transform_for1_body data 32
        (Sha256U2.Transform_for1_body data 16 (Sha256U2.Transform_for1_body data 0 s))) := by
  rw [Sha256U2.Transform_for1, if_pos (by omega), Sha256U2.Transform_for1, if_pos (by omega), Sha256U2.Transform_for1,
    if_pos (by omega), Sha256U2.Transform_for1, if_pos (by omega), Sha256U2.Transform_for1, if_neg (by omega)]

/-- `Transform` of the `_SHA256_UNROLL2` configuration is the FIPS 180-4 compression function; the initial values
of its locals (`W`, `a..h`: uninitialised in C++) are arbitrary -/
theorem transformU2_eq_compress (data : List UInt32) (st0 : Sha256U2.RS) (hW : st0.W.length = 16)
    (hs : st0.state.length = 8) (hd : data.length = 16) (hok : st0.ok = true) :
    (Sha256U2.Transform data st0).state = Spec.compress st0.state data ∧ (Sha256U2.Transform data st0).ok = true := by
  obtain ⟨W, S, a, b, c, d, e, f, g, h, ok⟩ := st0
  simp only at hW hs hok
  subst hok
  obtain ⟨h0, h1, h2, h3, h4, h5, h6, h7, rfl⟩ := list8 S hs
  let r0 : Spec.Regs := ⟨h0, h1, h2, h3, h4, h5, h6, h7⟩
  have hseg1 : Sha256U2.Transform_seg1 data ⟨W, [h0, h1, h2, h3, h4, h5, h6, h7], a, b, c, d, e, f, g, h, true⟩ =
      ⟨W, [h0, h1, h2, h3, h4, h5, h6, h7], h0, h1, h2, h3, h4, h5, h6, h7, true⟩ := by
    simp [Sha256U2.Transform_seg1, Sha256U2.inb]
  have hinit : UInv data r0 0 [h0, h1, h2, h3, h4, h5, h6, h7]
      ⟨W, [h0, h1, h2, h3, h4, h5, h6, h7], h0, h1, h2, h3, h4, h5, h6, h7, true⟩ :=
    ⟨⟨hW, rfl, by intro u hu; omega⟩, rfl, rfl⟩
  have a1 := body_u2_inv data hd r0 0 (by omega) (by omega) _ _ hinit
  have a2 := body_u2_inv data hd r0 (0 + 16) (by omega) (by omega) _ _ a1
  have a3 := body_u2_inv data hd r0 (0 + 16 + 16) (by omega) (by omega) _ _ a2
  have a4 := body_u2_inv data hd r0 (0 + 16 + 16 + 16) (by omega) (by omega) _ _ a3
  simp only [Sha256U2.Transform, hseg1, for1_u2_eq]
  generalize Sha256U2.Transform_for1_body data 48 (Sha256U2.Transform_for1_body data 32
    (Sha256U2.Transform_for1_body data 16 (Sha256U2.Transform_for1_body data 0
      ⟨W, [h0, h1, h2, h3, h4, h5, h6, h7], h0, h1, h2, h3, h4, h5, h6, h7, true⟩))) = sF at a4 ⊢
  obtain ⟨hw, hr, hS⟩ := a4
  obtain ⟨W', S', a', b', c', d', e', f', g', h', ok'⟩ := sF
  simp only at hw hr hS
  have hok' : ok' = true := hw.ok
  subst hok' hS
  have hc : Spec.compress [h0, h1, h2, h3, h4, h5, h6, h7] data =
      let r := Spec.rounds (Spec.schedule data) 64 r0
      [r.a + h0, r.b + h1, r.c + h2, r.d + h3, r.e + h4, r.f + h5, r.g + h6, r.h + h7] := rfl
  rw [hc, show (0 + 16 + 16 + 16 + 16 : Nat) = 64 from rfl] at *
  simp only [← hr]
  simp [Sha256U2.Transform_seg2, Sha256U2.wr, Sha256U2.inb, UInt32.add_comm]

end Nstd.Sha
